(** ow-sim (ImplSim) = the sequential reference (RefSim), for every legal
    schedule of simulation, link processing, writing and purging.

    Invariant (see [model_inv]): with [d] the reference results of the
    generations already simulated and [applied] the links already processed,
      - a generation that has been simulated is either purged (allowed only once
        it is written and its links are applied) or holds exactly the reference
        inputs / outputs / final states of its rows;
      - a generation not yet simulated, seen through the lazy loader ([view]),
        holds stored input + the contributions of the applied links, i.e. the
        reference input restricted to [applied];
      - the output file holds the reference rows of the written generations. *)
From Coq Require Import List Arith Bool Lia.
From OW Require Import Sim.SimAux Sim.SimAuxProofs Sim.Graph Sim.GraphProofs Sim.RefSim Sim.ImplSim Sim.Sched.
Import ListNotations.

Section Proofs.
  Variables name T Ser : Type.
  Variable s_zero : nat -> Ser.
  Variable s_add : Ser -> Ser -> Ser.
  Variable cat : catalogue name.
  Variable K : name -> list T -> list T -> list Ser -> option (list Ser * list T).
  Variable name_eqb : name -> name -> bool.
  Variable gr : graph name T Ser.
  Variable sel : selection name.

  Hypothesis Hvalid : valid_graph cat name_eqb gr = true.
  (** the catalogue describes the kernels: a run yields one series per catalogued output *)
  Hypothesis K_wf : forall nm p s i o s', K nm p s i = Some (o, s') -> length o = cat_nout cat nm.
  (** no model is written through an external writer process (-outputs model=file) *)
  Hypothesis Hnosplit : forall md, In md (g_models gr) -> is_split name_eqb sel md = false.

  Local Notation G := (n_gens gr).
  Local Notation M := (g_models gr).
  Local Notation L := (g_links gr).
  Local Notation outp := (sel_outfile sel).
  Local Notation model_data := (model_data name T Ser).
  Local Notation gen_data := (gen_data T Ser).
  Local Notation mref := (mref T Ser).
  Local Notation istate := (istate T Ser).
  Local Notation node_result := (node_result T Ser).
  Local Notation done_t := (done_t T Ser).
  Local Notation model_out := (model_out T Ser).
  Local Notation stored_input := (stored_input s_zero cat gr).
  Local Notation ref_input_from := (@ref_input_from T Ser s_add).
  Local Notation ref_node := (ref_node s_zero s_add cat K gr).
  Local Notation ref_gen := (ref_gen s_zero s_add cat K gr).
  Local Notation load_gen := (load_gen s_zero cat gr).
  Local Notation get_generation := (get_generation s_zero cat gr).

  (** ---------- validity facts, specialised ---------- *)
  Lemma VG : 1 <= G. Proof. eapply valid_G; eauto. Qed.
  Lemma Vlen md : In md M -> length (md_batches md) = G. Proof. intros; eapply vm_len; eauto. Qed.
  Lemma Vparams md : In md M -> length (md_params md) = m_total md. Proof. intros; eapply vm_params; eauto. Qed.
  Lemma Vstates md : In md M -> length (md_states md) = m_total md. Proof. intros; eapply vm_states; eauto. Qed.
  Lemma Vinputs md t tbl : In md M -> md_inputs md = Some (t, tbl) ->
    length tbl = m_total md /\ Forall (fun row => length row = cat_nin cat (md_name md)) tbl.
  Proof. intros; eapply vm_inputs; eauto. Qed.
  Lemma Vmono md g g' : In md M -> g <= g' -> g' <= G -> m_start md g <= m_start md g'.
  Proof. intros; eapply m_start_mono; eauto. Qed.
  Lemma Vle md g : In md M -> g < G -> m_start md g <= m_stop md g.
  Proof. intros; eapply m_start_le_stop; eauto. Qed.
  Lemma Vadd md g : In md M -> g < G -> m_start md g + m_count md g = m_stop md g.
  Proof. intros; eapply m_count_add; eauto. Qed.
  Lemma Vtot md : In md M -> m_total md = m_start md G.
  Proof. intros; eapply m_total_start; eauto. Qed.
  Lemma Vstop md g : In md M -> g < G -> m_stop md g <= m_total md.
  Proof. intros; eapply m_stop_le_total; eauto. Qed.
  Lemma Vuniq md g g' row : In md M -> g < G -> g' < G ->
    m_start md g <= row < m_stop md g -> m_start md g' <= row < m_stop md g' -> g = g'.
  Proof. intros; eapply gen_of_row_unique; eauto. Qed.
  Lemma Vlink l : In l L ->
    exists ms md, nth_error M (l_src_model l) = Some ms /\ nth_error M (l_dest_model l) = Some md /\
      l_src_gen l < l_dest_gen l /\ l_dest_gen l < G /\
      l_src_gen_node l < m_count ms (l_src_gen l) /\
      l_src_node l = m_start ms (l_src_gen l) + l_src_gen_node l /\
      l_src_var l < cat_nout cat (md_name ms) /\
      l_dest_gen_node l < m_count md (l_dest_gen l) /\
      l_dest_node l = m_start md (l_dest_gen l) + l_dest_gen_node l /\
      l_dest_var l < cat_nin cat (md_name md).
  Proof. intros; eapply valid_link_props; eauto. Qed.
  Lemma Vsame : same_lengths (input_lengths gr) = true. Proof. eapply valid_same_lengths; eauto. Qed.
  Lemma Vsorted : sorted_nat (map l_src_gen L) = true. Proof. eapply valid_links_sorted; eauto. Qed.

  (** ---------- the simulation length ---------- *)
  Definition sl_step (sl : nat) (md : model_data) : nat :=
    if sl =? 0 then match md_inputs md with Some (t, _) => t | None => sl end else sl.
  Definition in_lens (mds : list model_data) : list nat :=
    flat_map (fun md => match md_inputs md with Some (t, _) => [t] | None => [] end) mds.

  Lemma sl_aux mds : forall t, Forall (fun x => x = t) (in_lens mds) ->
    fold_left sl_step mds t = t /\
    fold_left sl_step mds 0 = match in_lens mds with [] => 0 | _ => t end.
  Proof.
    induction mds as [|md mds IH]; intros t HF; cbn [fold_left in_lens flat_map]; [cbn; auto|].
    cbn [in_lens flat_map] in HF. fold (in_lens mds) in HF |- *.
    unfold sl_step at 2 4.
    destruct (md_inputs md) as [[t' tbl]|] eqn:E.
    - cbn in HF. inversion HF; subst. destruct (IH _ H2) as [I1 I2].
      split.
      + destruct (t =? 0); exact I1.
      + cbn. exact I1.
    - cbn in HF. destruct (IH _ HF) as [I1 I2]. split.
      + destruct (t =? 0); exact I1.
      + cbn. exact I2.
  Qed.

  Lemma sim_length_eq : impl_sim_length gr = ref_T gr.
  Proof.
    pose proof Vsame as HS.
    unfold impl_sim_length, ref_T, input_lengths in *.
    fold (in_lens M) in HS |- *. fold sl_step.
    destruct (in_lens M) as [|t r] eqn:EL.
    - destruct (sl_aux M 0) as [_ A2]; [rewrite EL; constructor|]. rewrite EL in A2. exact A2.
    - cbn in HS. destruct (sl_aux M t) as [_ A2].
      + rewrite EL. constructor; [reflexivity|]. rewrite forallb_forall in HS.
        apply Forall_forall. intros x Hx. symmetry. apply Nat.eqb_eq. auto.
      + rewrite EL in A2. exact A2.
  Qed.

  (** ---------- expected contents of the memory ---------- *)

  Definition empty_gd : gen_data :=
    {| gd_count := 0; gd_inputs := []; gd_states := []; gd_params := []; gd_outputs := None |}.

  (** a generation that has not been simulated, with input rows [ins] *)
  Definition pending_gd (md : model_data) (g : nat) (ins : list (list Ser)) : gen_data :=
    if m_count md g =? 0 then empty_gd else
    {| gd_count := m_count md g; gd_inputs := ins;
       gd_states := slice_rows (m_start md g) (m_count md g) (md_states md);
       gd_params := slice_rows (m_start md g) (m_count md g) (md_params md);
       gd_outputs := None |}.

  (** a generation that has been simulated: the reference results of its rows *)
  Definition final_gd (md : model_data) (dm : list node_result) (g : nat) : gen_data :=
    if m_count md g =? 0 then empty_gd else
    let rows := slice_rows (m_start md g) (m_count md g) dm in
    {| gd_count := m_count md g; gd_inputs := map (@nr_in _ _) rows;
       gd_states := map (@nr_st _ _) rows;
       gd_params := slice_rows (m_start md g) (m_count md g) (md_params md);
       gd_outputs := Some (map (@nr_out _ _) rows) |}.

  (** the reference input of node (m,row) restricted to the links [applied] *)
  Definition exp_row (d : done_t) (applied : list link) (m : nat) (md : model_data) (row : nat)
    : option (list Ser) :=
    init <- stored_input md row ;; ref_input_from d applied m row init.

  Definition exp_inputs (d : done_t) (applied : list link) (m : nat) (md : model_data) (g : nat)
    : option (list (list Ser)) :=
    mapM (exp_row d applied m md) (seq (m_start md g) (m_count md g)).

  (** what GetGeneration would return, without changing anything *)
  Definition view (md : model_data) (gens : list (option gen_data)) (g : nat) : option gen_data :=
    match nth_error gens g with
    | Some (Some gd) => Some gd
    | Some None => load_gen md g
    | None => None
    end.

  Lemma obind_eta {A} (o : option A) : (x <- o ;; Some x) = o.
  Proof. destruct o; reflexivity. Qed.

  Lemma mapM_const {A B} (c : B) (l : list A) : mapM (fun _ => Some c) l = Some (repeat c (length l)).
  Proof. induction l as [|x r IH]; cbn; [reflexivity|]. rewrite IH. reflexivity. Qed.

  Lemma load_gen_pending d m md g : In md M -> g < G ->
    exists ins, exp_inputs d [] m md g = Some ins /\ load_gen md g = Some (pending_gd md g ins).
  Proof.
    intros Hmd Hg.
    pose proof (@Vle md g Hmd Hg) as Hle.
    pose proof (@Vadd md g Hmd Hg) as Hadd.
    pose proof (@Vstop md g Hmd Hg) as Htot.
    unfold load_gen, exp_inputs, pending_gd.
    replace (m_stop md g <? m_start md g) with false by (symmetry; apply Nat.ltb_ge; exact Hle).
    fold (m_count md g).
    destruct (m_count md g =? 0) eqn:E0.
    - apply Nat.eqb_eq in E0. rewrite E0. cbn. eauto.
    - unfold exp_row, stored_input. cbn [ref_input_from foldM RefSim.ref_input_from].
      destruct (md_inputs md) as [[t tbl]|] eqn:EI.
      + destruct (@Vinputs md t tbl Hmd EI) as [Hlen _].
        exists (slice_rows (m_start md g) (m_count md g) tbl). split; [|reflexivity].
        erewrite mapM_ext; [apply mapM_nth_error_seq; lia|].
        intros x _. cbn. apply obind_eta.
      + eexists. split; [|reflexivity].
        cbn. rewrite mapM_const, seq_length, sim_length_eq. reflexivity.
  Qed.

  (** ---------- GetGeneration ---------- *)
  Lemma get_generation_loaded md gens g gd :
    nth_error gens g = Some (Some gd) -> get_generation md gens g = Some (gd, gens).
  Proof. intros H. unfold get_generation. rewrite H. reflexivity. Qed.

  Lemma get_generation_view md gens g gd :
    view md gens g = Some gd ->
    exists gens', get_generation md gens g = Some (gd, gens') /\
                  nth_error gens' g = Some (Some gd) /\ length gens' = length gens /\
                  (forall g', g' <> g -> nth_error gens' g' = nth_error gens g').
  Proof.
    unfold view, get_generation. intros H.
    destruct (nth_error gens g) as [[gd0|]|] eqn:E; [| |discriminate].
    - inversion H; subst. exists gens. repeat split; auto.
    - rewrite H. cbn.
      destruct (@upd_nth_Some _ gens g (fun _ => Some (Some gd)) None (Some gd) E eq_refl) as (gens' & U).
      rewrite U. cbn. exists gens'. split; [reflexivity|].
      destruct (upd_nth_spec _ _ _ _ U) as (Ln & (x & y & X & Y & Z) & O).
      inversion Y; subst. repeat split; auto.
  Qed.

  Lemma view_after md gens gens' g gd :
    view md gens g = Some gd ->
    nth_error gens' g = Some (Some gd) ->
    (forall g', g' <> g -> nth_error gens' g' = nth_error gens g') ->
    forall g', view md gens' g' = view md gens g'.
  Proof.
    intros V N O g'. unfold view. destruct (Nat.eq_dec g' g) as [->|Hne].
    - rewrite N. symmetry. exact V.
    - rewrite O by exact Hne. reflexivity.
  Qed.

  Lemma view_set md gens gens' g gd :
    upd_nth gens g (fun _ => Some (Some gd)) = Some gens' ->
    view md gens' g = Some gd /\ (forall g', g' <> g -> view md gens' g' = view md gens g') /\
    nth_error gens' g = Some (Some gd) /\ (forall g', g' <> g -> nth_error gens' g' = nth_error gens g') /\
    length gens' = length gens.
  Proof.
    intros U. destruct (upd_nth_spec _ _ _ _ U) as (Ln & (x & y & X & Y & Z) & O).
    inversion Y; subst. unfold view. rewrite Z. repeat split; auto.
    intros g' Hne. rewrite O by exact Hne. reflexivity.
  Qed.

  (** ---------- the reference input, link by link ---------- *)
  Local Notation contrib := (@contrib T Ser).
  Local Notation add_at := (add_at s_add).

  Definition link_step (d : done_t) (m row : nat) (acc : list Ser) (l : link) : option (list Ser) :=
    if targets l m row then s <- contrib d l ;; add_at acc (l_dest_var l) s else Some acc.

  Lemma rif_unfold d ls m row init : ref_input_from d ls m row init = foldM (link_step d m row) ls init.
  Proof. reflexivity. Qed.

  Lemma rif_app d a b m row init :
    ref_input_from d (a ++ b) m row init = (x <- ref_input_from d a m row init ;; ref_input_from d b m row x).
  Proof. rewrite !rif_unfold. apply foldM_app. Qed.

  Lemma rif_notarget d ls m row init :
    (forall l, In l ls -> targets l m row = false) -> ref_input_from d ls m row init = Some init.
  Proof.
    intros H. rewrite rif_unfold. apply foldM_id. intros x l Hl. unfold link_step. rewrite H by exact Hl. reflexivity.
  Qed.

  Lemma add_at_length a v s a' : add_at a v s = Some a' -> length a' = length a.
  Proof. unfold add_at, RefSim.add_at. intros H. apply upd_nth_spec in H. tauto. Qed.

  Lemma rif_length d ls m row : forall init x, ref_input_from d ls m row init = Some x -> length x = length init.
  Proof.
    induction ls as [|l r IH]; intros init x H; rewrite rif_unfold in H; cbn in H.
    - inversion H; reflexivity.
    - destruct (link_step d m row init l) as [a|] eqn:E; cbn in H; [|discriminate].
      rewrite <- rif_unfold in H. apply IH in H. rewrite H.
      unfold link_step in E. destruct (targets l m row).
      + destruct (contrib d l); cbn in E; [|discriminate]. eapply add_at_length; eauto.
      + inversion E; reflexivity.
  Qed.

  (** [d'] extends [d] (more rows for every model) *)
  Definition d_ext (d d' : done_t) : Prop :=
    forall m dm, nth_error d m = Some dm -> exists more, nth_error d' m = Some (dm ++ more).

  Lemma contrib_mono d d' l s : d_ext d d' -> contrib d l = Some s -> contrib d' l = Some s.
  Proof.
    intros E H. unfold contrib, RefSim.contrib in *.
    destruct (nth_error d (l_src_model l)) as [rows|] eqn:R; cbn in H; [|discriminate].
    destruct (E _ _ R) as (more & R'). rewrite R'. cbn.
    destruct (nth_error rows (l_src_node l)) as [nr|] eqn:N; cbn in H; [|discriminate].
    rewrite nth_error_app1 by (apply nth_error_Some; congruence). rewrite N. cbn. exact H.
  Qed.

  Lemma rif_mono d d' ls m row : d_ext d d' ->
    forall init x, ref_input_from d ls m row init = Some x -> ref_input_from d' ls m row init = Some x.
  Proof.
    intros E. induction ls as [|l r IH]; intros init x H; rewrite rif_unfold in *; cbn in *; [exact H|].
    destruct (link_step d m row init l) as [a|] eqn:S1; cbn in H; [|discriminate].
    assert (S2 : link_step d' m row init l = Some a).
    { unfold link_step in *. destruct (targets l m row); [|exact S1].
      destruct (contrib d l) as [s|] eqn:C; cbn in S1; [|discriminate].
      rewrite (contrib_mono _ _ _ _ E C). exact S1. }
    rewrite S2. cbn. rewrite <- rif_unfold in *. apply IH. exact H.
  Qed.

  Lemma exp_row_mono d d' applied m md row x : d_ext d d' ->
    exp_row d applied m md row = Some x -> exp_row d' applied m md row = Some x.
  Proof.
    intros E H. unfold exp_row in *. destruct (stored_input md row); cbn in *; [|discriminate].
    eapply rif_mono; eauto.
  Qed.

  Lemma exp_inputs_mono d d' applied m md g ins : d_ext d d' ->
    exp_inputs d applied m md g = Some ins -> exp_inputs d' applied m md g = Some ins.
  Proof.
    intros E H. unfold exp_inputs in *. rewrite <- H. apply mapM_ext. intros row Hr.
    destruct (exp_row d applied m md row) as [x|] eqn:X.
    - eapply exp_row_mono; eauto.
    - exfalso. rewrite (mapM_None_some _ _ _ Hr X) in H. discriminate.
  Qed.

  Lemma exp_row_snoc d applied l m md row :
    exp_row d (applied ++ [l]) m md row = (x <- exp_row d applied m md row ;; link_step d m row x l).
  Proof.
    unfold exp_row. destruct (stored_input md row) as [i0|]; cbn [obind]; [|reflexivity].
    rewrite rif_app. destruct (ref_input_from d applied m row i0) as [x|]; cbn [obind]; [|reflexivity].
    rewrite rif_unfold. cbn [foldM]. apply obind_eta.
  Qed.

  Lemma stored_input_length md row init : In md M ->
    stored_input md row = Some init -> length init = cat_nin cat (md_name md).
  Proof.
    intros Hmd H. unfold stored_input, RefSim.stored_input in H.
    destruct (md_inputs md) as [[t tbl]|] eqn:E.
    - destruct (@Vinputs md t tbl Hmd E) as [_ HF]. rewrite Forall_forall in HF. apply HF.
      eapply nth_error_In; eauto.
    - inversion H. apply repeat_length.
  Qed.

  Lemma exp_row_length d applied m md row x : In md M ->
    exp_row d applied m md row = Some x -> length x = cat_nin cat (md_name md).
  Proof.
    intros Hmd H. unfold exp_row in H. destruct (stored_input md row) eqn:S0; cbn in H; [|discriminate].
    rewrite (rif_length _ _ _ _ _ _ H). eapply stored_input_length; eauto.
  Qed.

  (** which rows a link points at *)
  Lemma targets_iff l m md g row : In l L -> nth_error M m = Some md -> g < G ->
    m_start md g <= row < m_stop md g ->
    (targets l m row = true <-> l_dest_model l = m /\ l_dest_gen l = g /\ row = m_start md g + l_dest_gen_node l).
  Proof.
    intros Hl Hm Hg Hrow. unfold targets. rewrite andb_true_iff, !Nat.eqb_eq.
    destruct (Vlink l Hl) as (ms & md' & _ & Hd & Hsd & HdG & _ & _ & _ & Hdn & Hdnode & _).
    assert (Hmd : In md M) by (eapply nth_error_In; eauto).
    split.
    - intros [E1 E2]. subst m. rewrite Hm in Hd. inversion Hd; subst md'.
      assert (l_dest_gen l = g).
      { eapply (@Vuniq md (l_dest_gen l) g row); eauto.
        pose proof (@Vadd md (l_dest_gen l) Hmd HdG). lia. }
      subst g. repeat split; auto. lia.
    - intros (E1 & E2 & E3). subst. rewrite Hm in Hd. inversion Hd; subst md'. split; auto.
  Qed.

  Lemma targets_later l m md g row : In l L -> nth_error M m = Some md -> g < G ->
    m_start md g <= row < m_stop md g -> g <= l_src_gen l -> targets l m row = false.
  Proof.
    intros Hl Hm Hg Hrow Hge. destruct (targets l m row) eqn:E; [|reflexivity].
    apply (targets_iff l m md g row Hl Hm Hg Hrow) in E. destruct E as (_ & E & _).
    destruct (Vlink l Hl) as (ms & md' & _ & _ & Hsd & _). lia.
  Qed.

  (** ---------- the table of reference results ---------- *)
  Definition done_wf (n : nat) (d : done_t) : Prop :=
    length d = length M /\
    forall m md, nth_error M m = Some md ->
      exists dm, nth_error d m = Some dm /\ length dm = m_start md n /\
                 Forall (fun nr => length (nr_out nr) = cat_nout cat (md_name md)) dm.

  Lemma contrib_done n d l : done_wf n d -> n <= G -> In l L -> l_src_gen l < n ->
    exists ms dm nr sdata,
      nth_error M (l_src_model l) = Some ms /\ nth_error d (l_src_model l) = Some dm /\
      nth_error dm (l_src_node l) = Some nr /\ nth_error (nr_out nr) (l_src_var l) = Some sdata /\
      contrib d l = Some sdata.
  Proof.
    intros [_ Hd] HnG Hl Hn.
    destruct (Vlink l Hl) as (ms & md & Hs & _ & Hsd & HdG & Hsn & Hsnode & Hsv & _).
    destruct (Hd _ _ Hs) as (dm & Hdm & Hlen & Hwf).
    assert (Hms : In ms M) by (eapply nth_error_In; eauto).
    assert (HsG : l_src_gen l < G) by lia.
    pose proof (@Vadd ms (l_src_gen l) Hms HsG) as Ha.
    pose proof (@Vmono ms (S (l_src_gen l)) n Hms ltac:(lia) HnG) as Hmo. cbn [m_start] in Hmo.
    fold (m_stop ms (l_src_gen l)) in Hmo.
    destruct (nth_error dm (l_src_node l)) as [nr|] eqn:N.
    2:{ apply nth_error_None in N. lia. }
    assert (Ho : length (nr_out nr) = cat_nout cat (md_name ms)).
    { rewrite Forall_forall in Hwf. apply Hwf. eapply nth_error_In; eauto. }
    destruct (nth_error (nr_out nr) (l_src_var l)) as [sdata|] eqn:V.
    2:{ apply nth_error_None in V. lia. }
    exists ms, dm, nr, sdata. repeat split; auto.
    unfold contrib, RefSim.contrib. rewrite Hdm. cbn. rewrite N. cbn. exact V.
  Qed.

  (** ---------- the invariant ---------- *)
  Definition own_inv (c : sched_state) (md : model_data) (dm : list node_result)
             (gens : list (option gen_data)) : Prop :=
    forall g, g < sc_ran c ->
      nth_error gens g = Some (Some (final_gd md dm g)) \/
      (nth_error gens g = Some None /\ g < sc_written c /\ g < sc_linked c).

  Definition pend_inv (c : sched_state) (d : done_t) (applied : list link) (m : nat) (md : model_data)
             (gens : list (option gen_data)) : Prop :=
    forall g, sc_ran c <= g -> g < G ->
      exists ins, exp_inputs d applied m md g = Some ins /\ view md gens g = Some (pending_gd md g ins).

  Definition model_inv (c : sched_state) (d : done_t) (applied : list link) (m : nat) (md : model_data)
             (mr : mref) : Prop :=
    length (mr_gens mr) = G /\
    (exists dm, nth_error d m = Some dm /\ own_inv c md dm (mr_gens mr)) /\
    pend_inv c d applied m md (mr_gens mr) /\
    mr_init mr = outp && (0 <? m_start md (sc_written c)).

  Definition mem_inv (c : sched_state) (d : done_t) (applied : list link) (refs : list mref) : Prop :=
    length refs = length M /\
    forall m md, nth_error M m = Some md ->
      exists mr, nth_error refs m = Some mr /\ model_inv c d applied m md mr.

  Definition rows_of {A} (proj : node_result -> A) (md : model_data) (dm : list node_result) (a : nat)
    : list (option A) :=
    map (fun nr => Some (proj nr)) (firstn a dm) ++ repeat None (m_total md - a).

  Definition exp_model_out (md : model_data) (dm : list node_result) (w : nat) : model_out :=
    let a := m_start md w in
    if outp && (0 <? a) then
      {| mo_inputs := if write_inputs name_eqb sel md then Some (rows_of (@nr_in _ _) md dm a) else None;
         mo_outputs := if write_outputs name_eqb sel md then Some (rows_of (@nr_out _ _) md dm a) else None;
         mo_states := Some (rows_of (@nr_st _ _) md dm a) |}
    else no_out T Ser.

  Definition file_inv (c : sched_state) (d : done_t) (file : out_file T Ser) : Prop :=
    length file = length M /\
    forall m md, nth_error M m = Some md ->
      exists dm, nth_error d m = Some dm /\ nth_error file m = Some (exp_model_out md dm (sc_written c)).

  Definition links_inv (c : sched_state) (applied rem : list link) : Prop :=
    L = applied ++ rem /\
    Forall (fun l => l_src_gen l < sc_ran c) applied /\
    Forall (fun l => sc_linked c <= l_src_gen l) rem.

  Definition sched_ok (c : sched_state) : Prop :=
    (sc_ran c = sc_linked c \/ sc_ran c = S (sc_linked c)) /\
    sc_written c <= sc_ran c /\ sc_ran c <= G /\ (outp = false -> sc_written c = 0).

  Definition INV (c : sched_state) (st : istate) (d : done_t) (applied : list link) : Prop :=
    ref_run_upto s_zero s_add cat K gr (sc_ran c) = Some d /\
    done_wf (sc_ran c) d /\ sched_ok c /\
    links_inv c applied (is_links st) /\
    mem_inv c d applied (is_refs st) /\
    file_inv c d (is_file st).

  (** ---------- runGeneration(i) for one model ---------- *)
  Definition node_of (ins : list (list Ser)) (j : nat) (y : list Ser * list T) : node_result :=
    {| nr_in := nth j ins []; nr_out := fst y; nr_st := snd y |}.

  Definition run_post (i : nat) (md : model_data) (dm : list node_result) (mr mr' : mref)
             (rows : list node_result) : Prop :=
    mr_init mr' = mr_init mr /\
    length (mr_gens mr') = length (mr_gens mr) /\
    nth_error (mr_gens mr') i = Some (Some (final_gd md (dm ++ rows) i)) /\
    (forall g, g <> i -> nth_error (mr_gens mr') g = nth_error (mr_gens mr) g) /\
    length rows = m_count md i /\
    Forall (fun nr => length (nr_out nr) = cat_nout cat (md_name md)) rows.

  Lemma ref_node_cell i d applied rem m md ins j x :
    L = applied ++ rem -> Forall (fun l => i <= l_src_gen l) rem ->
    nth_error M m = Some md -> i < G ->
    exp_inputs d applied m md i = Some ins ->
    j < m_count md i -> nth_error ins j = Some x ->
    ref_node d m md (m_start md i + j) =
      (p <- nth_error (md_params md) (m_start md i + j) ;;
       s <- nth_error (md_states md) (m_start md i + j) ;;
       y <- K (md_name md) p s x ;;
       Some {| nr_in := x; nr_out := fst y; nr_st := snd y |}).
  Proof.
    intros HL Hrem Hm Hi Hexp Hj Hx.
    assert (Hmd : In md M) by (eapply nth_error_In; eauto).
    unfold exp_inputs in Hexp.
    destruct (mapM_nth_error _ _ _ Hexp j (m_start md i + j)) as (x' & Hx' & Hrow).
    { apply nth_error_seq. exact Hj. }
    rewrite Hx in Hx'. inversion Hx'; subst x'. clear Hx'.
    unfold ref_node, RefSim.ref_node. unfold exp_row in Hrow.
    destruct (stored_input md (m_start md i + j)) as [init|]; cbn [obind] in *; [|discriminate].
    rewrite HL, rif_app. fold ref_input_from. rewrite Hrow. cbn [obind].
    rewrite rif_notarget.
    2:{ intros l Hl. eapply (targets_later l m md i); eauto.
        - rewrite HL. apply in_or_app. right. exact Hl.
        - pose proof (@Vadd md i Hmd Hi). lia.
        - rewrite Forall_forall in Hrem. apply Hrem. exact Hl. }
    cbn [obind].
    destruct (nth_error (md_params md) (m_start md i + j)); cbn [obind]; [|reflexivity].
    destruct (nth_error (md_states md) (m_start md i + j)); cbn [obind]; [|reflexivity].
    destruct (K (md_name md) l l0 x) as [[o s']|]; reflexivity.
  Qed.

  Lemma run_model_ok i d applied rem m md mr dm ins :
    L = applied ++ rem -> Forall (fun l => i <= l_src_gen l) rem ->
    nth_error M m = Some md -> i < G ->
    length dm = m_start md i ->
    view md (mr_gens mr) i = Some (pending_gd md i ins) ->
    exp_inputs d applied m md i = Some ins ->
    orel (run_post i md dm mr) (run_model s_zero cat K gr i md mr)
         (mapM (ref_node d m md) (seq (m_start md i) (m_count md i))).
  Proof.
    intros HL Hrem Hm Hi Hdm Hview Hexp.
    assert (Hmd : In md M) by (eapply nth_error_In; eauto).
    unfold run_model.
    destruct (get_generation_view md _ _ _ Hview) as (gens1 & GG & N1 & L1 & O1).
    fold get_generation. rewrite GG. cbn [obind].
    unfold pending_gd in *. destruct (m_count md i =? 0) eqn:E0.
    - (* empty batch *)
      apply Nat.eqb_eq in E0. rewrite E0. cbn.
      unfold run_post. cbn. repeat split; auto.
      rewrite N1. unfold final_gd. rewrite E0. reflexivity.
    - apply Nat.eqb_neq in E0. cbn [gd_count].
      replace (m_count md i =? 0) with false by (symmetry; apply Nat.eqb_neq; exact E0).
      pose proof (mapM_length _ _ _ Hexp) as Hlen_ins. rewrite seq_length in Hlen_ins.
      (* the reference side, cell by cell *)
      set (cell := fun j => p <- nth_error (slice_rows (m_start md i) (m_count md i) (md_params md)) j ;;
                            s <- nth_error (slice_rows (m_start md i) (m_count md i) (md_states md)) j ;;
                            i0 <- nth_error ins j ;; K (md_name md) p s i0).
      assert (Href : mapM (ref_node d m md) (seq (m_start md i) (m_count md i)) =
                     (ys <- mapM cell (seq 0 (m_count md i)) ;;
                      Some (map (fun p => node_of ins (fst p) (snd p)) (combine (seq 0 (m_count md i)) ys)))).
      { rewrite seq_as_map, mapM_map. rewrite <- mapM_post. apply mapM_ext.
        intros j Hjin. apply in_seq in Hjin.
        assert (Hj : j < m_count md i) by lia.
        destruct (nth_error ins j) as [x|] eqn:Hx.
        2:{ apply nth_error_None in Hx. lia. }
        rewrite (ref_node_cell i d applied rem m md ins j x HL Hrem Hm Hi Hexp Hj Hx).
        unfold cell. rewrite !nth_error_slice_rows by exact Hj. rewrite Hx.
        destruct (nth_error (md_params md) (m_start md i + j)); cbn [obind]; [|reflexivity].
        destruct (nth_error (md_states md) (m_start md i + j)); cbn [obind]; [|reflexivity].
        destruct (K (md_name md) l l0 x) as [y|]; cbn [obind]; [|reflexivity].
        unfold node_of. cbn. rewrite (nth_error_nth _ _ _ Hx). reflexivity. }
      rewrite Href. unfold run_cells. cbn [gd_count gd_params gd_states gd_inputs]. fold cell.
      destruct (mapM cell (seq 0 (m_count md i))) as [res|] eqn:Hres; cbn [obind orel]; [|exact I].
      pose proof (mapM_length _ _ _ Hres) as Hlen_res. rewrite seq_length in Hlen_res.
      match goal with |- context [upd_nth gens1 i ?f] =>
        destruct (upd_nth_Some gens1 i f _ _ N1 eq_refl) as (gens2 & U2) end.
      rewrite U2. cbn [obind orel].
      destruct (view_set md _ _ _ _ U2) as (_ & _ & N2 & O2 & L2).
      set (rows := map (fun p => node_of ins (fst p) (snd p)) (combine (seq 0 (m_count md i)) res)).
      assert (Hlen_rows : length rows = m_count md i).
      { unfold rows. rewrite map_length, combine_length, seq_length. lia. }
      unfold run_post. cbn [mr_gens mr_init]. repeat split; auto.
      + lia.
      + rewrite N2. do 2 f_equal. unfold final_gd.
        replace (m_count md i =? 0) with false by (symmetry; apply Nat.eqb_neq; exact E0).
        cbn zeta.
        replace (slice_rows (m_start md i) (m_count md i) (dm ++ rows)) with rows.
        2:{ rewrite <- Hdm, <- Hlen_rows. symmetry. apply slice_rows_app_exact. }
        f_equal.
        * unfold rows. rewrite map_combine_fst_proj with (q := fun j => nth j ins []).
          -- rewrite <- Hlen_ins. symmetry. apply map_nth_seq.
          -- rewrite seq_length. lia.
          -- reflexivity.
        * unfold rows. symmetry. apply map_combine_snd_proj with (q := @snd _ _).
          -- rewrite seq_length. lia.
          -- reflexivity.
        * f_equal. unfold rows. symmetry. apply map_combine_snd_proj with (q := @fst _ _).
          -- rewrite seq_length. lia.
          -- reflexivity.
      + intros g Hg. rewrite O2 by exact Hg. apply O1. exact Hg.
      + (* K_wf *)
        apply Forall_forall. intros nr Hnr. unfold rows in Hnr.
        apply in_map_iff in Hnr. destruct Hnr as ([j y] & <- & Hin).
        apply in_combine_r in Hin. cbn.
        destruct (mapM_In _ _ _ Hres y Hin) as (j' & _ & Hc). unfold cell in Hc.
        destruct (nth_error (slice_rows (m_start md i) (m_count md i) (md_params md)) j'); cbn in Hc; [|discriminate].
        destruct (nth_error (slice_rows (m_start md i) (m_count md i) (md_states md)) j'); cbn in Hc; [|discriminate].
        destruct (nth_error ins j'); cbn in Hc; [|discriminate].
        destruct y as [o s']. eapply K_wf; eauto.
  Qed.

  (** ---------- runGeneration(i): all models ---------- *)
  Lemma run_models_orel i d
        (P : nat -> model_data -> mref -> list node_result -> Prop)
        (Q : nat -> model_data -> list node_result -> mref -> mref -> list node_result -> Prop) :
    (forall m md mr dm, P m md mr dm ->
        orel (Q m md dm mr) (run_model s_zero cat K gr i md mr)
             (mapM (ref_node d m md) (seq (m_start md i) (m_count md i)))) ->
    forall mds refs off,
      length refs = length mds ->
      (forall p md, nth_error mds p = Some md ->
         exists mr dm, nth_error refs p = Some mr /\ nth_error d (off + p) = Some dm /\ P (off + p) md mr dm) ->
      orel (fun refs' d' =>
              length refs' = length mds /\ length d' = length mds /\
              forall p md, nth_error mds p = Some md ->
                exists mr mr' dm rows,
                  nth_error refs p = Some mr /\ nth_error refs' p = Some mr' /\
                  nth_error d (off + p) = Some dm /\ nth_error d' p = Some (dm ++ rows) /\
                  Q (off + p) md dm mr mr' rows)
           (run_models s_zero cat K gr i mds refs)
           (mapM (fun '(m, md) =>
                    dm <- nth_error d m ;;
                    rows <- mapM (ref_node d m md) (seq (m_start md i) (m_count md i)) ;;
                    Some (dm ++ rows))
                 (combine (seq off (length mds)) mds)).
  Proof.
    intros HPQ. induction mds as [|md mds IH]; intros refs off Hlen Hall.
    - destruct refs; [|discriminate]. cbn. repeat split; auto.
      intros p md Hp. destruct p; discriminate.
    - destruct refs as [|mr refs]; [discriminate|]. cbn [length seq combine mapM run_models].
      destruct (Hall 0 md eq_refl) as (mr0 & dm & Hmr0 & Hdm & HP). cbn in Hmr0. inversion Hmr0; subst mr0.
      rewrite Nat.add_0_r in Hdm, HP. rewrite Hdm. cbn [obind].
      pose proof (HPQ _ _ _ _ HP) as HO.
      destruct (run_model s_zero cat K gr i md mr) as [mr'|];
        destruct (mapM (ref_node d off md) (seq (m_start md i) (m_count md i))) as [rows|];
        cbn [orel obind] in *; try contradiction; [|exact I].
      assert (Hall' : forall p md0, nth_error mds p = Some md0 ->
                 exists mr1 dm1, nth_error refs p = Some mr1 /\ nth_error d (S off + p) = Some dm1 /\
                                 P (S off + p) md0 mr1 dm1).
      { intros p md0 Hp. destruct (Hall (S p) md0 Hp) as (mr1 & dm1 & A & B & C).
        replace (S off + p) with (off + S p) by lia. eauto. }
      specialize (IH refs (S off) ltac:(cbn in Hlen; lia) Hall').
      destruct (run_models s_zero cat K gr i mds refs) as [refs'|];
        match goal with |- context [mapM ?F ?l] => destruct (mapM F l) as [d'|] end;
        cbn [orel obind] in *; try contradiction; [|exact I].
      destruct IH as (L1 & L2 & IH). cbn [length]. repeat split; try lia.
      intros p md0 Hp. destruct p as [|p]; cbn in Hp.
      + inversion Hp; subst md0. exists mr, mr', dm, rows. rewrite Nat.add_0_r. cbn. repeat split; auto.
      + destruct (IH p md0 Hp) as (mr1 & mr1' & dm1 & rows1 & A & B & C & D & E).
        exists mr1, mr1', dm1, rows1. replace (off + S p) with (S off + p) by lia. cbn. repeat split; auto.
  Qed.

  Lemma final_gd_ext md dm more g n : In md M -> S g <= n -> n <= G -> length dm = m_start md n ->
    final_gd md (dm ++ more) g = final_gd md dm g.
  Proof.
    intros Hmd Hg Hn Hlen. unfold final_gd. destruct (m_count md g =? 0); [reflexivity|].
    cbn zeta. rewrite slice_rows_app_l; [reflexivity|].
    rewrite (@Vadd md g Hmd ltac:(lia)), Hlen.
    pose proof (@Vmono md (S g) n Hmd Hg Hn) as H. exact H.
  Qed.

  Lemma view_ext md gens gens' g :
    nth_error gens' g = nth_error gens g -> view md gens' g = view md gens g.
  Proof. intros H. unfold view. rewrite H. reflexivity. Qed.

  Lemma exp_model_out_ext md dm more w n : In md M -> w <= n -> n <= G -> length dm = m_start md n ->
    exp_model_out md (dm ++ more) w = exp_model_out md dm w.
  Proof.
    intros Hmd Hw Hn Hlen. unfold exp_model_out, rows_of.
    pose proof (@Vmono md w n Hmd Hw Hn) as H.
    rewrite firstn_app. replace (m_start md w - length dm) with 0 by lia.
    cbn [firstn]. rewrite app_nil_r. reflexivity.
  Qed.

  Lemma ref_run_upto_S n d d' :
    ref_run_upto s_zero s_add cat K gr n = Some d -> ref_gen d n = Some d' ->
    ref_run_upto s_zero s_add cat K gr (S n) = Some d'.
  Proof.
    intros H1 H2. unfold ref_run_upto in *. rewrite seq_S, foldM_app. cbn [Nat.add].
    rewrite H1. cbn. fold ref_gen. rewrite H2. reflexivity.
  Qed.

  Lemma ref_run_upto_S_None n d :
    ref_run_upto s_zero s_add cat K gr n = Some d -> ref_gen d n = None ->
    ref_run_upto s_zero s_add cat K gr (S n) = None.
  Proof.
    intros H1 H2. unfold ref_run_upto in *. rewrite seq_S, foldM_app. cbn [Nat.add].
    rewrite H1. cbn. fold ref_gen. rewrite H2. reflexivity.
  Qed.

  Definition c_run (c : sched_state) : sched_state :=
    {| sc_ran := S (sc_ran c); sc_linked := sc_linked c; sc_written := sc_written c |}.

  Lemma step_run c st d applied :
    INV c st d applied -> sc_ran c = sc_linked c -> sc_ran c < G ->
    orel (fun st' d' => INV (c_run c) st' d' applied)
         (impl_step s_zero s_add cat K name_eqb gr sel st (ARun (sc_ran c)))
         (ref_gen d (sc_ran c)).
  Proof.
    intros (Hrun & Hwf & Hok & Hlk & Hmem & Hfile) Hrl HiG.
    remember (sc_ran c) as i eqn:Hi_eq.
    destruct Hlk as (HL & Happ & Hrem). destruct Hmem as (Hlenrefs & Hmem).
    destruct Hwf as (Hlend & Hwf).
    cbn [impl_step].
    set (P := fun (m : nat) (md : model_data) (mr : mref) (dm : list node_result) =>
                nth_error M m = Some md /\ model_inv c d applied m md mr /\
                length dm = m_start md i /\
                Forall (fun nr => length (nr_out nr) = cat_nout cat (md_name md)) dm).
    set (Q := fun (m : nat) (md : model_data) (dm : list node_result) (mr mr' : mref) (rows : list node_result) =>
                P m md mr dm /\ run_post i md dm mr mr' rows).
    assert (HPQ : forall m md mr dm, P m md mr dm ->
                orel (Q m md dm mr) (run_model s_zero cat K gr i md mr)
                     (mapM (ref_node d m md) (seq (m_start md i) (m_count md i)))).
    { intros m md mr dm HP. pose proof HP as (Hm & (Hg & Hown & Hpend & Hinit) & Hdm & Hdwf).
      destruct (Hpend i ltac:(lia) HiG) as (ins & Hexp & Hview).
      pose proof (run_model_ok i d applied (is_links st) m md mr dm ins HL) as RO.
      assert (Hrem' : Forall (fun l => i <= l_src_gen l) (is_links st)).
      { eapply Forall_impl; [|exact Hrem]. cbn. intros; lia. }
      specialize (RO Hrem' Hm HiG Hdm Hview Hexp).
      destruct (run_model s_zero cat K gr i md mr); destruct (mapM (ref_node d m md) _); cbn in *; auto.
      unfold Q. split; auto. }
    pose proof (run_models_orel i d P Q HPQ M (is_refs st) 0 Hlenrefs) as RM.
    assert (Hall : forall p md, nth_error M p = Some md ->
               exists mr dm, nth_error (is_refs st) p = Some mr /\ nth_error d (0 + p) = Some dm /\ P (0 + p) md mr dm).
    { intros p md Hp. destruct (Hmem p md Hp) as (mr & Hmr & Hinv).
      destruct (Hwf p md Hp) as (dm & Hdm & Hl & Hf).
      exists mr, dm. cbn. unfold P. split; [exact Hmr|]. split; [exact Hdm|]. split; [exact Hp|]. split; [exact Hinv|]. split; [exact Hl|exact Hf]. }
    specialize (RM Hall).
    unfold ref_gen, RefSim.ref_gen, indexed.
    destruct (run_models s_zero cat K gr i M (is_refs st)) as [refs'|];
      match goal with |- context [mapM ?F ?l] => destruct (mapM F l) as [d'|] eqn:Hd' end;
      cbn [orel obind] in *; try contradiction; [|exact I].
    destruct RM as (L1 & L2 & RM).
    assert (Hext : d_ext d d').
    { intros m dm Hdm.
      destruct (nth_error M m) as [md|] eqn:Hm.
      - destruct (RM m md Hm) as (mr & mr' & dm0 & rows & A & B & C & D & E).
        cbn in C. rewrite Hdm in C. inversion C; subst dm0. eauto.
      - apply nth_error_None in Hm. assert (nth_error d m <> None) by congruence.
        apply nth_error_Some in H. lia. }
    unfold INV. cbn [is_refs is_links is_file c_run sc_ran sc_linked sc_written].
    rewrite <- ?Hi_eq.
    split; [|split; [|split; [|split; [|split]]]].
    - (* ref_run_upto *)
      eapply ref_run_upto_S; [exact Hrun|exact Hd'].
    - (* done_wf *)
      split; [lia|]. intros m md Hm.
      destruct (RM m md Hm) as (mr & mr' & dm & rows & A & B & C & D & (HP & RP)).
      destruct HP as (_ & _ & Hdm & Hdf). destruct RP as (_ & _ & _ & _ & Hlr & Hrf).
      exists (dm ++ rows). split; [exact D|]. split.
      + rewrite app_length, Hdm, Hlr. cbn [m_start].
        apply (@Vadd md i); auto. eapply nth_error_In; eauto.
      + apply Forall_app. split; assumption.
    - (* sched_ok *)
      destruct Hok as (H1 & H2 & H3 & H4). unfold sched_ok. cbn. repeat split; auto; try lia.
    - (* links *)
      unfold links_inv. cbn [c_run sc_ran sc_linked sc_written]. split; [exact HL|]. split; [|exact Hrem].
      eapply Forall_impl; [|exact Happ]. cbn. intros; lia.
    - (* memory *)
      split; [lia|]. intros m md Hm.
      assert (Hmd : In md M) by (eapply nth_error_In; eauto).
      destruct (RM m md Hm) as (mr & mr' & dm & rows & A & B & C & D & (HP & RP)).
      destruct HP as (_ & (Hg & (dm0 & Hdm0 & Hown) & Hpend & Hinit) & Hdm & Hdf).
      cbn [Nat.add] in *. rewrite C in Hdm0. inversion Hdm0; subst dm0. clear Hdm0.
      destruct RP as (Ri & Rl & Rn & Ro & Hlr & Hrf).
      exists mr'. split; [exact B|]. unfold model_inv. cbn [c_run sc_ran sc_linked sc_written]. split; [lia|]. split; [|split].
      + exists (dm ++ rows). split; [exact D|]. intros g Hg'. cbn in Hg' |- *.
        destruct (Nat.eq_dec g i) as [->|Hne]; [left; exact Rn|].
        rewrite Ro by exact Hne.
        destruct (Hown g ltac:(lia)) as [F|F]; [left|right; exact F].
        rewrite F. rewrite (final_gd_ext md dm rows g i Hmd ltac:(lia) ltac:(lia) Hdm). reflexivity.
      + intros g Hg1 Hg2. cbn in Hg1. destruct (Hpend g ltac:(lia) Hg2) as (ins & E1 & E2).
        exists ins. split.
        * eapply exp_inputs_mono; eauto.
        * rewrite <- E2. apply view_ext. apply Ro. lia.
      + rewrite Ri. exact Hinit.
    - (* file *)
      destruct Hfile as (Hlf & Hfile). split; [exact Hlf|]. intros m md Hm.
      assert (Hmd : In md M) by (eapply nth_error_In; eauto).
      destruct (RM m md Hm) as (mr & mr' & dm & rows & A & B & C & D & (HP & RP)).
      destruct HP as (_ & _ & Hdm & _).
      destruct (Hfile m md Hm) as (dm0 & Hdm0 & Hf0). cbn [Nat.add] in *. rewrite C in Hdm0. inversion Hdm0; subst dm0.
      exists (dm ++ rows). split; [exact D|]. rewrite Hf0. f_equal. symmetry.
      destruct Hok as (_ & H2 & H3 & _).
      apply (exp_model_out_ext md dm rows (sc_written c) i Hmd ltac:(lia) ltac:(lia) Hdm).
  Qed.

  (** ---------- PROCESS LINKS ---------- *)
  Lemma set_gens_same (refs : list mref) m mr :
    nth_error refs m = Some mr -> set_gens refs m (mr_gens mr) = Some refs.
  Proof.
    intros H. unfold set_gens. eapply upd_nth_same; eauto. destruct mr; reflexivity.
  Qed.

  Lemma exp_inputs_snoc_other d applied l m md g :
    (forall row, In row (seq (m_start md g) (m_count md g)) -> targets l m row = false) ->
    exp_inputs d (applied ++ [l]) m md g = exp_inputs d applied m md g.
  Proof.
    intros H. unfold exp_inputs.
    erewrite mapM_ext; [|intros row _; apply exp_row_snoc].
    apply mapM_bind_id. intros row x Hr. unfold link_step. rewrite (H row Hr). reflexivity.
  Qed.

  Lemma apply_link_ok c d applied l rest refs :
    sc_ran c = S (sc_linked c) -> sc_ran c <= G -> done_wf (sc_ran c) d ->
    L = applied ++ l :: rest -> l_src_gen l = sc_linked c ->
    mem_inv c d applied refs ->
    exists refs', apply_link s_zero s_add cat gr refs l = Some refs' /\
                  mem_inv c d (applied ++ [l]) refs'.
  Proof.
    intros Hran HranG Hdwf HL Hsrc (Hlenrefs & Hmem).
    assert (Hl : In l L) by (rewrite HL; apply in_or_app; right; left; reflexivity).
    destruct (Vlink l Hl) as (ms & md & Hms & Hmd & Hsd & HdG & Hsn & Hsnode & Hsv & Hdn & Hdnode & Hdv).
    assert (Hmsin : In ms M) by (eapply nth_error_In; eauto).
    assert (Hmdin : In md M) by (eapply nth_error_In; eauto).
    destruct (contrib_done (sc_ran c) d l Hdwf HranG Hl ltac:(lia))
      as (ms' & dm & nr & sdata & Hms' & Hdm & Hnr & Hsdata & Hcontrib).
    rewrite Hms in Hms'. inversion Hms'; subst ms'. clear Hms'.
    (* source *)
    destruct (Hmem _ _ Hms) as (mrs & Hmrs & (Hgs & (dm' & Hdm' & Howns) & _ & _)).
    rewrite Hdm in Hdm'. inversion Hdm'; subst dm'. clear Hdm'.
    assert (Hsrcgen : nth_error (mr_gens mrs) (l_src_gen l) = Some (Some (final_gd ms dm (l_src_gen l)))).
    { destruct (Howns (l_src_gen l) ltac:(lia)) as [F|(_ & _ & F)]; [exact F|lia]. }
    unfold apply_link. rewrite Hms. cbn [obind]. rewrite Hmrs. cbn [obind].
    fold get_generation. rewrite (get_generation_loaded ms _ _ _ Hsrcgen). cbn [obind].
    rewrite (set_gens_same refs _ mrs Hmrs). cbn [obind].
    rewrite Hmd. cbn [obind].
    (* destination *)
    destruct (Hmem _ _ Hmd) as (mrd & Hmrd & (Hgd & (dmd & Hdmd & Hownd) & Hpendd & Hinitd)).
    rewrite Hmrd. cbn [obind].
    destruct (Hpendd (l_dest_gen l) ltac:(lia) HdG) as (ins & Hexp & Hview).
    destruct (get_generation_view md _ _ _ Hview) as (gens_d & GG & Nd & Ld & Od).
    rewrite GG. cbn [obind].
    assert (Hcs : m_count ms (l_src_gen l) =? 0 = false) by (apply Nat.eqb_neq; lia).
    assert (Hcd : m_count md (l_dest_gen l) =? 0 = false) by (apply Nat.eqb_neq; lia).
    unfold final_gd at 1. rewrite Hcs. cbn [gd_outputs obind].
    rewrite nth_error_map, nth_error_slice_rows by exact Hsn.
    rewrite <- Hsnode, Hnr. cbn [option_map obind]. rewrite Hsdata. cbn [obind].
    unfold pending_gd at 1 2 3 4 5. rewrite Hcd. cbn [gd_inputs gd_count gd_states gd_params gd_outputs].
    pose proof (mapM_length _ _ _ Hexp) as Hlen_ins. rewrite seq_length in Hlen_ins.
    destruct (nth_error ins (l_dest_gen_node l)) as [row|] eqn:Hrow.
    2:{ apply nth_error_None in Hrow. lia. }
    assert (Hrowexp : exp_row d applied (l_dest_model l) md (l_dest_node l) = Some row).
    { unfold exp_inputs in Hexp.
      destruct (mapM_nth_error _ _ _ Hexp (l_dest_gen_node l) (l_dest_node l)) as (y & Y1 & Y2).
      - rewrite Hdnode. apply nth_error_seq. exact Hdn.
      - congruence. }
    pose proof (exp_row_length _ _ _ _ _ _ Hmdin Hrowexp) as Hrowlen.
    destruct (nth_error row (l_dest_var l)) as [x0|] eqn:Hx0.
    2:{ apply nth_error_None in Hx0. lia. }
    set (upd_row := fun row0 : list Ser => upd_nth row0 (l_dest_var l) (fun x => Some (s_add x sdata))).
    destruct (upd_nth_Some row (l_dest_var l) (fun x => Some (s_add x sdata)) x0 _ Hx0 eq_refl) as (row' & Hrow').
    destruct (upd_nth_Some ins (l_dest_gen_node l) upd_row row row' Hrow Hrow') as (ins' & Hins').
    fold upd_row. rewrite Hins'. cbn [obind].
    match goal with |- context [upd_nth gens_d (l_dest_gen l) ?f] =>
      destruct (upd_nth_Some gens_d (l_dest_gen l) f _ _ Nd eq_refl) as (gens_d' & U2) end.
    rewrite U2. cbn [obind].
    destruct (view_set md _ _ _ _ U2) as (V2 & VO2 & N2 & O2 & L2).
    unfold set_gens.
    match goal with |- context [upd_nth refs (l_dest_model l) ?f] =>
      destruct (upd_nth_Some refs (l_dest_model l) f mrd _ Hmrd eq_refl) as (refs' & U3) end.
    exists refs'. split; [exact U3|].
    destruct (upd_nth_spec _ _ _ _ U3) as (L3 & (x3 & y3 & X3 & Y3 & Z3) & O3).
    rewrite Hmrd in X3. inversion X3; subst x3. inversion Y3; subst y3. clear X3 Y3.
    (* the new expected inputs of the destination generation *)
    assert (Hexp' : exp_inputs d (applied ++ [l]) (l_dest_model l) md (l_dest_gen l) = Some ins').
    { unfold exp_inputs.
      erewrite mapM_ext; [|intros r _; apply exp_row_snoc].
      rewrite (mapM_bind_one _ (fun r x => link_step d (l_dest_model l) r x l) _
                             (l_dest_gen_node l) (l_dest_node l) ins).
      - rewrite <- Hins'. apply upd_nth_ext. intros x. unfold link_step, targets.
        rewrite !Nat.eqb_refl. cbn [andb]. rewrite Hcontrib. reflexivity.
      - apply seq_NoDup.
      - rewrite Hdnode. apply nth_error_seq. exact Hdn.
      - intros r x Hr Hne. unfold link_step.
        destruct (targets l (l_dest_model l) r) eqn:Et; [|reflexivity]. exfalso.
        apply in_seq in Hr.
        apply (targets_iff l (l_dest_model l) md (l_dest_gen l) r Hl Hmd HdG) in Et.
        + destruct Et as (_ & _ & Er). apply Hne. lia.
        + pose proof (@Vadd md (l_dest_gen l) Hmdin HdG). lia.
      - exact Hexp. }
    split; [lia|]. intros m md0 Hm0.
    assert (Hmd0in : In md0 M) by (eapply nth_error_In; eauto).
    destruct (Nat.eq_dec m (l_dest_model l)) as [->|Hne].
    - (* the destination model *)
      rewrite Hmd in Hm0. inversion Hm0; subst md0. clear Hm0.
      eexists. split; [exact Z3|]. unfold model_inv. cbn [mr_gens mr_init].
      split; [lia|]. split; [|split].
      + exists dmd. split; [exact Hdmd|]. intros g Hg.
        rewrite O2 by lia. rewrite Od by lia. apply Hownd. exact Hg.
      + intros g Hg1 Hg2. destruct (Nat.eq_dec g (l_dest_gen l)) as [->|Hg3].
        * exists ins'. split; [exact Hexp'|]. rewrite V2. f_equal.
          unfold pending_gd. rewrite Hcd. reflexivity.
        * destruct (Hpendd g Hg1 Hg2) as (insg & E1 & E2). exists insg. split.
          -- rewrite exp_inputs_snoc_other; [exact E1|].
             intros r Hr. apply in_seq in Hr.
             destruct (targets l (l_dest_model l) r) eqn:Et; [|reflexivity]. exfalso.
             apply (targets_iff l (l_dest_model l) md g r Hl Hmd Hg2) in Et.
             ++ destruct Et as (_ & Eg & _). congruence.
             ++ pose proof (@Vadd md g Hmdin Hg2). lia.
          -- rewrite <- E2. rewrite VO2 by exact Hg3. apply view_ext. apply Od. exact Hg3.
      + exact Hinitd.
    - (* any other model *)
      destruct (Hmem _ _ Hm0) as (mr0 & Hmr0 & (Hg0 & Hown0 & Hpend0 & Hinit0)).
      exists mr0. split; [rewrite O3 by exact Hne; exact Hmr0|].
      unfold model_inv. split; [exact Hg0|]. split; [exact Hown0|]. split; [|exact Hinit0].
      intros g Hg1 Hg2. destruct (Hpend0 g Hg1 Hg2) as (insg & E1 & E2). exists insg. split; [|exact E2].
      rewrite exp_inputs_snoc_other; [exact E1|].
      intros r _. unfold targets. replace (l_dest_model l =? m) with false; [reflexivity|].
      symmetry. apply Nat.eqb_neq. congruence.
  Qed.

  Lemma process_links_ok c d :
    sc_ran c = S (sc_linked c) -> sc_ran c <= G -> done_wf (sc_ran c) d ->
    forall rem applied refs,
      L = applied ++ rem ->
      Forall (fun l => sc_linked c <= l_src_gen l) rem ->
      sorted_nat (map l_src_gen rem) = true ->
      Forall (fun l => l_src_gen l <= sc_linked c) applied ->
      mem_inv c d applied refs ->
      exists refs' applied' rem',
        process_links s_zero s_add cat gr (sc_linked c) refs rem = Some (refs', rem') /\
        L = applied' ++ rem' /\
        Forall (fun l => l_src_gen l <= sc_linked c) applied' /\
        Forall (fun l => S (sc_linked c) <= l_src_gen l) rem' /\
        mem_inv c d applied' refs'.
  Proof.
    intros Hran HranG Hdwf. induction rem as [|l rest IH]; intros applied refs HL Hrem Hsort Happ Hmem.
    - exists refs, applied, []. cbn.
      split; [reflexivity|]. split; [exact HL|]. split; [exact Happ|]. split; [constructor|exact Hmem].
    - cbn [process_links]. destruct (sc_linked c <? l_src_gen l) eqn:Elt.
      + apply Nat.ltb_lt in Elt. exists refs, applied, (l :: rest).
        split; [reflexivity|]. split; [exact HL|]. split; [exact Happ|]. split; [|exact Hmem].
        cbn [map] in Hsort. destruct (sorted_nat_cons_Forall _ _ Hsort) as [Hf _].
        constructor; [lia|]. rewrite Forall_map in Hf.
        eapply Forall_impl; [|exact Hf]. cbn. intros; lia.
      + apply Nat.ltb_ge in Elt. inversion Hrem as [|? ? Hl0 Hrest]; subst.
        assert (Hsrc : l_src_gen l = sc_linked c) by lia.
        destruct (apply_link_ok c d applied l rest refs Hran HranG Hdwf HL Hsrc Hmem) as (refs1 & A1 & M1).
        rewrite A1. cbn [obind].
        cbn [map] in Hsort. destruct (sorted_nat_cons_Forall _ _ Hsort) as [_ Hsort'].
        destruct (IH (applied ++ [l]) refs1) as (refs' & applied' & rem' & P1 & P2 & P3 & P4 & P5); auto.
        * rewrite <- app_assoc. exact HL.
        * apply Forall_app. split; [exact Happ|]. constructor; [lia|constructor].
        * exists refs', applied', rem'.
          split; [exact P1|]. split; [exact P2|]. split; [exact P3|]. split; [exact P4|exact P5].
  Qed.

  Definition c_link (c : sched_state) : sched_state :=
    {| sc_ran := sc_ran c; sc_linked := S (sc_linked c); sc_written := sc_written c |}.
  Definition c_write (c : sched_state) : sched_state :=
    {| sc_ran := sc_ran c; sc_linked := sc_linked c; sc_written := S (sc_written c) |}.

  Lemma model_inv_weaken c c' d applied m md mr :
    sc_ran c' = sc_ran c -> sc_linked c <= sc_linked c' -> sc_written c' = sc_written c ->
    model_inv c d applied m md mr -> model_inv c' d applied m md mr.
  Proof.
    intros E1 E2 E3 (Hg & (dm & Hdm & Hown) & Hpend & Hinit).
    unfold model_inv. split; [exact Hg|]. split; [|split].
    - exists dm. split; [exact Hdm|]. intros g Hg'. rewrite E1 in Hg'.
      destruct (Hown g Hg') as [F|(F1 & F2 & F3)]; [left; exact F|right]. repeat split; auto; lia.
    - intros g Hg1 Hg2. rewrite E1 in Hg1. apply Hpend; auto.
    - rewrite E3. exact Hinit.
  Qed.

  Lemma step_links c st d applied :
    INV c st d applied -> sc_ran c = S (sc_linked c) ->
    exists st' applied',
      impl_step s_zero s_add cat K name_eqb gr sel st (ALinks (sc_linked c)) = Some st' /\
      INV (c_link c) st' d applied'.
  Proof.
    intros (Hrun & Hwf & Hok & (HL & Happ & Hrem) & Hmem & Hfile) Hran.
    destruct Hok as (Hok1 & Hok2 & Hok3 & Hok4).
    assert (Hsort : sorted_nat (map l_src_gen (is_links st)) = true).
    { pose proof Vsorted as HS. rewrite HL, map_app in HS. eapply sorted_nat_app_r; eauto. }
    destruct (process_links_ok c d Hran Hok3 Hwf (is_links st) applied (is_refs st) HL Hrem Hsort)
      as (refs' & applied' & rem' & P1 & P2 & P3 & P4 & P5); auto.
    { eapply Forall_impl; [|exact Happ]. cbn. intros; lia. }
    cbn [impl_step]. rewrite P1. cbn [obind]. eexists. exists applied'. split; [reflexivity|].
    unfold INV. cbn [is_refs is_links is_file c_link sc_ran sc_linked sc_written].
    split; [exact Hrun|]. split; [exact Hwf|]. split; [|split; [|split]].
    - unfold sched_ok. cbn. repeat split; auto.
    - unfold links_inv. cbn. split; [exact P2|]. split; [|exact P4].
      eapply Forall_impl; [|exact P3]. cbn. intros; lia.
    - destruct P5 as (Q1 & Q2). split; [exact Q1|]. intros m md Hm.
      destruct (Q2 m md Hm) as (mr & A & B). exists mr. split; [exact A|].
      eapply model_inv_weaken; [| | |exact B]; cbn; lia.
    - exact Hfile.
  Qed.

  (** one turn of the link loop *)
  Lemma step_link_one c st d applied :
    INV c st d applied -> sc_ran c = S (sc_linked c) ->
    exists st' applied',
      impl_step s_zero s_add cat K name_eqb gr sel st (ALinkOne (sc_linked c)) = Some st' /\
      INV c st' d applied'.
  Proof.
    intros HI Hran. pose proof HI as (Hrun & Hwf & Hok & (HL & Happ & Hrem) & Hmem & Hfile).
    destruct Hok as (Hok1 & Hok2 & Hok3 & Hok4).
    cbn [impl_step]. destruct (is_links st) as [|l rest] eqn:El.
    - exists st, applied. split; [reflexivity|exact HI].
    - destruct (sc_linked c <? l_src_gen l) eqn:Elt.
      + exists st, applied. split; [reflexivity|exact HI].
      + apply Nat.ltb_ge in Elt. inversion Hrem as [|? ? Hl0 Hrest]; subst.
        assert (Hsrc : l_src_gen l = sc_linked c) by lia.
        destruct (apply_link_ok c d applied l rest (is_refs st) Hran Hok3 Hwf HL Hsrc Hmem) as (refs1 & A1 & M1).
        rewrite A1. cbn [obind]. eexists. exists (applied ++ [l]). split; [reflexivity|].
        unfold INV. cbn [is_refs is_links is_file].
        split; [exact Hrun|]. split; [exact Hwf|]. split; [unfold sched_ok; auto|].
        split; [|split; [exact M1|exact Hfile]].
        unfold links_inv. split; [rewrite <- app_assoc; exact HL|]. split; [|exact Hrest].
        apply Forall_app. split; [exact Happ|]. constructor; [lia|constructor].
  Qed.

  (** ---------- writeGeneration(g) ---------- *)
  Lemma rows_of_0 {A} (proj : node_result -> A) md dm : rows_of proj md dm 0 = repeat None (m_total md).
  Proof. unfold rows_of. cbn. rewrite Nat.sub_0_r. reflexivity. Qed.

  Lemma write_ds_ok {A} (proj : node_result -> A) md dm a c :
    a + c <= length dm -> a + c <= m_total md ->
    write_rows (rows_of proj md dm a) a (map proj (slice_rows a c dm)) = Some (rows_of proj md dm (a + c)).
  Proof.
    intros H1 H2. unfold rows_of, slice_rows.
    set (f := fun nr => Some (proj nr)).
    assert (Hl : length (map f (firstn a dm)) = a) by (rewrite map_length, firstn_length; lia).
    assert (Hc : length (map proj (firstn c (skipn a dm))) = c).
    { rewrite map_length, firstn_length, skipn_length. lia. }
    pose proof (write_rows_spec (map f (firstn a dm)) (map proj (firstn c (skipn a dm))) (m_total md - (a + c))) as W.
    rewrite Hl, Hc in W. replace (c + (m_total md - (a + c))) with (m_total md - a) in W by lia.
    rewrite W. f_equal.
    rewrite firstn_add_skipn, map_app, <- app_assoc. f_equal. f_equal.
    unfold f. rewrite map_map. reflexivity.
  Qed.

  Lemma write_data_ok c d applied m md mr dm :
    outp = true -> sc_written c < sc_ran c -> sc_ran c <= G ->
    nth_error M m = Some md -> model_inv c d applied m md mr ->
    nth_error d m = Some dm -> length dm = m_start md (sc_ran c) ->
    exists mr',
      write_data s_zero cat name_eqb gr sel (sc_written c) md mr (exp_model_out md dm (sc_written c))
        = Some (mr', exp_model_out md dm (S (sc_written c))) /\
      model_inv (c_write c) d applied m md mr'.
  Proof.
    intros Hout Hw HranG Hm (Hg & (dm' & Hdm' & Hown) & Hpend & Hinit) Hdm Hlen.
    rewrite Hdm in Hdm'. inversion Hdm'; subst dm'. clear Hdm'.
    assert (Hmd : In md M) by (eapply nth_error_In; eauto).
    set (g := sc_written c) in *.
    assert (HgG : g < G) by lia.
    assert (Hloaded : nth_error (mr_gens mr) g = Some (Some (final_gd md dm g))).
    { destruct (Hown g Hw) as [F|(_ & F & _)]; [exact F|lia]. }
    pose proof (@Vadd md g Hmd HgG) as Hadd.
    pose proof (@Vmono md (S g) (sc_ran c) Hmd ltac:(lia) HranG) as Hmono. cbn [m_start] in Hmono.
    fold (m_stop md g) in Hmono.
    pose proof (@Vstop md g Hmd HgG) as Hstop.
    unfold write_data. fold get_generation. rewrite (get_generation_loaded md _ _ _ Hloaded). cbn [obind].
    assert (Hinv' : forall init', init' = outp && (0 <? m_start md (S g)) ->
              model_inv (c_write c) d applied m md {| mr_gens := mr_gens mr; mr_init := init' |}).
    { intros init' Hi'. unfold model_inv. cbn [mr_gens mr_init c_write sc_ran sc_linked sc_written].
      split; [exact Hg|]. split; [|split].
      - exists dm. split; [exact Hdm|]. intros g' Hg'.
        destruct (Hown g' Hg') as [F|(F1 & F2 & F3)]; [left; exact F|right]. cbn. repeat split; auto.
      - exact Hpend.
      - exact Hi'. }
    unfold final_gd. destruct (m_count md g =? 0) eqn:E0.
    - (* empty batch: nothing to write *)
      apply Nat.eqb_eq in E0. cbn [gd_count empty_gd Nat.eqb].
      eexists. split.
      + f_equal. f_equal. unfold exp_model_out. cbn [m_start]. fold (m_stop md g).
        replace (m_stop md g) with (m_start md g) by lia. reflexivity.
      + apply Hinv'. rewrite Hinit. cbn [m_start]. fold (m_stop md g).
        replace (m_stop md g) with (m_start md g) by lia. reflexivity.
    - apply Nat.eqb_neq in E0. cbn zeta. cbn [gd_count].
      replace (m_count md g =? 0) with false by (symmetry; apply Nat.eqb_neq; exact E0).
      rewrite (Hnosplit md Hmd).
      set (rows := slice_rows (m_start md g) (m_count md g) dm).
      assert (Hrows : length rows = m_count md g).
      { unfold rows. apply length_slice_rows. lia. }
      assert (Hnext : m_start md (S g) = m_start md g + m_count md g) by (cbn [m_start]; fold (m_stop md g); lia).
      assert (Hpos : 0 <? m_start md (S g) = true) by (apply Nat.ltb_lt; lia).
      assert (WI : write_rows (rows_of (@nr_in _ _) md dm (m_start md g)) (m_start md g) (map (@nr_in _ _) rows)
                   = Some (rows_of (@nr_in _ _) md dm (m_start md (S g)))).
      { rewrite Hnext. apply write_ds_ok; lia. }
      assert (WO : write_rows (rows_of (@nr_out _ _) md dm (m_start md g)) (m_start md g) (map (@nr_out _ _) rows)
                   = Some (rows_of (@nr_out _ _) md dm (m_start md (S g)))).
      { rewrite Hnext. apply write_ds_ok; lia. }
      assert (WS : write_rows (rows_of (@nr_st _ _) md dm (m_start md g)) (m_start md g) (map (@nr_st _ _) rows)
                   = Some (rows_of (@nr_st _ _) md dm (m_start md (S g)))).
      { rewrite Hnext. apply write_ds_ok; lia. }
      unfold write_data_h5. cbn [gd_outputs gd_inputs gd_states obind]. rewrite Hinit, Hout. cbn [andb].
      unfold exp_model_out at 1 2 3 4. rewrite Hout. cbn [andb]. cbn zeta.
      destruct (0 <? m_start md g) eqn:Ea.
      + (* datasets exist already *)
        cbn [obind negb mo_inputs mo_outputs mo_states].
        eexists. split.
        * unfold exp_model_out. rewrite Hout, Hpos. cbn [andb]. cbn zeta.
          destruct (write_inputs name_eqb sel md), (write_outputs name_eqb sel md);
            cbn [obind]; rewrite ?WI, ?WO, ?WS; cbn [obind]; reflexivity.
        * apply Hinv'. rewrite Hout, Hpos. reflexivity.
      + (* first non-empty generation of this model: InitialiseOutputs *)
        apply Nat.ltb_ge in Ea. assert (Ea0 : m_start md g = 0) by lia.
        rewrite map_length, Hrows.
        replace (0 <? m_count md g) with true by (symmetry; apply Nat.ltb_lt; lia).
        cbn [obind negb mo_inputs mo_outputs mo_states no_out create_ds].
        rewrite Ea0 in WI, WO, WS. rewrite rows_of_0 in WI. rewrite rows_of_0 in WO. rewrite rows_of_0 in WS. rewrite Ea0.
        eexists. split.
        * unfold exp_model_out. rewrite Hout, Hpos. cbn [andb]. cbn zeta.
          destruct (write_inputs name_eqb sel md), (write_outputs name_eqb sel md);
            cbn [obind]; unfold create_ds; cbn [obind]; rewrite ?WI, ?WO, ?WS; cbn [obind]; reflexivity.
        * apply Hinv'. rewrite Hout, Hpos. reflexivity.
  Qed.

  Lemma write_models_ok g
        (P : nat -> model_data -> mref -> model_out -> Prop)
        (Q : nat -> model_data -> mref -> model_out -> Prop) :
    (forall m md mr mo, P m md mr mo ->
       exists mr' mo', write_data s_zero cat name_eqb gr sel g md mr mo = Some (mr', mo') /\ Q m md mr' mo') ->
    forall mds refs file off,
      length refs = length mds -> length file = length mds ->
      (forall p md, nth_error mds p = Some md ->
         exists mr mo, nth_error refs p = Some mr /\ nth_error file p = Some mo /\ P (off + p) md mr mo) ->
      exists refs' file',
        write_models s_zero cat name_eqb gr sel g mds refs file = Some (refs', file') /\
        length refs' = length mds /\ length file' = length mds /\
        forall p md, nth_error mds p = Some md ->
          exists mr' mo', nth_error refs' p = Some mr' /\ nth_error file' p = Some mo' /\ Q (off + p) md mr' mo'.
  Proof.
    intros HPQ. induction mds as [|md mds IH]; intros refs file off Hl1 Hl2 Hall.
    - destruct refs; [|discriminate]. destruct file; [|discriminate].
      exists [], []. cbn. repeat split; auto. intros p md Hp. destruct p; discriminate.
    - destruct refs as [|mr refs]; [discriminate|]. destruct file as [|mo file]; [discriminate|].
      cbn [write_models].
      destruct (Hall 0 md eq_refl) as (mr0 & mo0 & A & B & HP). cbn in A, B.
      inversion A; subst mr0. inversion B; subst mo0. rewrite Nat.add_0_r in HP.
      destruct (HPQ _ _ _ _ HP) as (mr' & mo' & W & HQ). rewrite W. cbn [obind].
      destruct (IH refs file (S off)) as (refs' & file' & W' & L1 & L2 & R).
      + cbn in Hl1; lia.
      + cbn in Hl2; lia.
      + intros p md0 Hp. destruct (Hall (S p) md0 Hp) as (mr1 & mo1 & A1 & B1 & P1).
        exists mr1, mo1. replace (S off + p) with (off + S p) by lia. auto.
      + rewrite W'. cbn [obind]. exists (mr' :: refs'), (mo' :: file'). cbn [length].
        split; [reflexivity|]. split; [lia|]. split; [lia|].
        intros p md0 Hp. destruct p as [|p]; cbn in Hp.
        * inversion Hp; subst md0. exists mr', mo'. rewrite Nat.add_0_r. cbn. auto.
        * destruct (R p md0 Hp) as (mr1 & mo1 & A1 & B1 & Q1).
          exists mr1, mo1. replace (off + S p) with (S off + p) by lia. cbn. auto.
  Qed.

  Lemma step_write c st d applied :
    INV c st d applied -> outp = true -> sc_written c < sc_ran c ->
    exists st',
      impl_step s_zero s_add cat K name_eqb gr sel st (AWrite (sc_written c)) = Some st' /\
      INV (c_write c) st' d applied.
  Proof.
    intros (Hrun & Hwf & Hok & Hlk & (Hlenrefs & Hmem) & (Hlenfile & Hfile)) Hout Hw.
    destruct Hok as (Hok1 & Hok2 & Hok3 & Hok4). destruct Hwf as (Hlend & Hwf).
    set (P := fun (m : nat) (md : model_data) (mr : mref) (mo : model_out) =>
                nth_error M m = Some md /\ model_inv c d applied m md mr /\
                exists dm, nth_error d m = Some dm /\ length dm = m_start md (sc_ran c) /\
                           mo = exp_model_out md dm (sc_written c)).
    set (Q := fun (m : nat) (md : model_data) (mr' : mref) (mo' : model_out) =>
                model_inv (c_write c) d applied m md mr' /\
                exists dm, nth_error d m = Some dm /\ mo' = exp_model_out md dm (S (sc_written c))).
    assert (HPQ : forall m md mr mo, P m md mr mo ->
              exists mr' mo', write_data s_zero cat name_eqb gr sel (sc_written c) md mr mo = Some (mr', mo') /\
                              Q m md mr' mo').
    { intros m md mr mo (Hm & Hinv & dm & Hdm & Hlen & ->).
      destruct (write_data_ok c d applied m md mr dm Hout Hw Hok3 Hm Hinv Hdm Hlen) as (mr' & W & I').
      exists mr', (exp_model_out md dm (S (sc_written c))). split; [exact W|]. split; [exact I'|]. eauto. }
    destruct (write_models_ok (sc_written c) P Q HPQ M (is_refs st) (is_file st) 0 Hlenrefs Hlenfile)
      as (refs' & file' & W & L1 & L2 & R).
    { intros p md Hp. destruct (Hmem p md Hp) as (mr & Hmr & Hinv).
      destruct (Hfile p md Hp) as (dm & Hdm & Hmo).
      destruct (Hwf p md Hp) as (dm' & Hdm' & Hlen & _). rewrite Hdm in Hdm'. inversion Hdm'; subst dm'.
      exists mr, (exp_model_out md dm (sc_written c)). cbn [Nat.add].
      split; [exact Hmr|]. split; [exact Hmo|]. unfold P. split; [exact Hp|]. split; [exact Hinv|]. eauto. }
    cbn [impl_step]. rewrite W. cbn [obind]. eexists. split; [reflexivity|].
    unfold INV. cbn [is_refs is_links is_file c_write sc_ran sc_linked sc_written].
    split; [exact Hrun|]. split; [split; [exact Hlend|exact Hwf]|]. split; [|split; [|split]].
    - unfold sched_ok. cbn. repeat split; auto; try lia. intros E. congruence.
    - exact Hlk.
    - split; [lia|]. intros m md Hm. destruct (R m md Hm) as (mr' & mo' & A & B & (I' & _)).
      exists mr'. split; [exact A|exact I'].
    - split; [lia|]. intros m md Hm. destruct (R m md Hm) as (mr' & mo' & A & B & (_ & dm & Hdm & ->)).
      exists dm. split; [exact Hdm|exact B].
  Qed.

  (** ---------- PurgeGeneration(g) ---------- *)
  Lemma step_purge c st d applied g :
    INV c st d applied -> g < sc_written c -> g < sc_linked c ->
    exists st',
      impl_step s_zero s_add cat K name_eqb gr sel st (APurge g) = Some st' /\
      INV c st' d applied.
  Proof.
    intros (Hrun & Hwf & Hok & Hlk & (Hlenrefs & Hmem) & Hfile) Hgw Hgl.
    destruct Hok as (Hok1 & Hok2 & Hok3 & Hok4).
    set (f := fun mr : mref => gens' <- upd_nth (mr_gens mr) g (fun _ => Some None) ;;
                               Some {| mr_gens := gens'; mr_init := mr_init mr |}).
    assert (Hlen_of : forall mr, In mr (is_refs st) -> length (mr_gens mr) = G).
    { intros mr Hin. apply In_nth_error in Hin. destruct Hin as (m & Hm).
      destruct (nth_error M m) as [md|] eqn:E.
      - destruct (Hmem m md E) as (mr' & A & (B & _)). congruence.
      - apply nth_error_None in E. assert (nth_error (is_refs st) m <> None) by congruence.
        apply nth_error_Some in H. lia. }
    destruct (mapM_Some_all f (is_refs st)) as (refs' & Hrefs').
    { intros mr Hin. unfold f.
      destruct (nth_error (mr_gens mr) g) as [x|] eqn:E.
      - destruct (upd_nth_Some (mr_gens mr) g (fun _ => Some None) x None E eq_refl) as (gens' & U).
        rewrite U. cbn. eauto.
      - apply nth_error_None in E. rewrite (Hlen_of mr Hin) in E. lia. }
    cbn [impl_step]. unfold purge. fold f. rewrite Hrefs'. cbn [obind]. eexists. split; [reflexivity|].
    unfold INV. cbn [is_refs is_links is_file].
    split; [exact Hrun|]. split; [exact Hwf|]. split; [unfold sched_ok; auto|]. split; [exact Hlk|].
    split; [|exact Hfile].
    split; [rewrite (mapM_length _ _ _ Hrefs'); exact Hlenrefs|].
    intros m md Hm. destruct (Hmem m md Hm) as (mr & Hmr & (Hg & (dm & Hdm & Hown) & Hpend & Hinit)).
    destruct (mapM_nth_error _ _ _ Hrefs' m mr Hmr) as (mr' & Hmr' & Hf).
    unfold f in Hf. destruct (upd_nth (mr_gens mr) g (fun _ => Some None)) as [gens'|] eqn:U; cbn in Hf; [|discriminate].
    inversion Hf; subst mr'. clear Hf.
    destruct (upd_nth_spec _ _ _ _ U) as (Ln & (x & y & X & Y & Z) & O). inversion Y; subst y.
    eexists. split; [exact Hmr'|]. unfold model_inv. cbn [mr_gens mr_init].
    split; [lia|]. split; [|split; [|exact Hinit]].
    - exists dm. split; [exact Hdm|]. intros g' Hg'.
      destruct (Nat.eq_dec g' g) as [->|Hne].
      + right. auto.
      + rewrite O by exact Hne. apply Hown. exact Hg'.
    - intros g' Hg1 Hg2. destruct (Hpend g' Hg1 Hg2) as (ins & E1 & E2). exists ins. split; [exact E1|].
      rewrite <- E2. apply view_ext. apply O. lia.
  Qed.

  (** ---------- initial state ---------- *)
  Lemma nth_error_repeat_lt {A} (x : A) n g : g < n -> nth_error (repeat x n) g = Some x.
  Proof.
    revert g; induction n as [|n IH]; intros [|g] H; cbn; try lia; [reflexivity|]. apply IH. lia.
  Qed.

  Lemma impl_init_ok : exists st0, impl_init cat gr = Some st0 /\ INV sched0 st0 (done0 gr) [].
  Proof.
    unfold impl_init.
    replace (forallb (fun md : model_data => cat_known cat (md_name md) && (0 <? length (md_batches md))) M)
      with true.
    2:{ symmetry. apply forallb_forall. intros md Hmd. apply andb_true_iff. split.
        - eapply vm_known; eauto.
        - apply Nat.ltb_lt. rewrite (Vlen md Hmd). apply VG. }
    eexists. split; [reflexivity|].
    unfold INV. cbn [is_refs is_links is_file sched0 sc_ran sc_linked sc_written].
    split; [reflexivity|]. split; [|split; [|split; [|split]]].
    - split; [unfold done0; apply map_length|]. intros m md Hm.
      exists []. unfold done0. rewrite nth_error_map, Hm. cbn. repeat split; auto.
    - unfold sched_ok. cbn. repeat split; auto; lia.
    - unfold links_inv. cbn. repeat split; auto. apply Forall_forall. intros; lia.
    - split; [apply map_length|]. intros m md Hm.
      assert (Hmd : In md M) by (eapply nth_error_In; eauto).
      eexists. split; [rewrite nth_error_map, Hm; reflexivity|].
      unfold model_inv. cbn [mr_gens mr_init sc_ran sc_linked sc_written sched0].
      split; [rewrite repeat_length; apply Vlen; exact Hmd|]. split; [|split].
      + exists []. split; [unfold done0; rewrite nth_error_map, Hm; reflexivity|].
        intros g Hg. cbn in Hg. lia.
      + intros g _ Hg. destruct (load_gen_pending (done0 gr) m md g Hmd Hg) as (ins & E1 & E2).
        exists ins. split; [exact E1|]. unfold view.
        rewrite nth_error_repeat_lt by (rewrite (Vlen md Hmd); exact Hg). exact E2.
      + cbn. rewrite andb_false_r. reflexivity.
    - split; [apply map_length|]. intros m md Hm.
      exists []. split; [unfold done0; rewrite nth_error_map, Hm; reflexivity|].
      rewrite nth_error_map, Hm. cbn. unfold exp_model_out. cbn. rewrite andb_false_r. reflexivity.
  Qed.

  (** ---------- the file at the end ---------- *)
  Lemma write_for_requested nm incl excl dflt :
    write_for name_eqb nm incl excl dflt = requested name_eqb nm incl excl dflt.
  Proof.
    unfold write_for, requested, mem_name. destruct incl, excl; reflexivity.
  Qed.

  Lemma write_outputs_want (md : model_data) : write_outputs name_eqb sel md = want_outputs name_eqb sel md.
  Proof. apply write_for_requested. Qed.

  Lemma write_inputs_want (md : model_data) : In md M -> write_inputs name_eqb sel md = want_inputs name_eqb sel md.
  Proof.
    intros Hmd. unfold write_inputs, want_inputs. rewrite write_for_requested. f_equal.
    unfold m_stop. pose proof (Vlen md Hmd) as HL. pose proof VG.
    destruct (md_batches md); [cbn in HL; lia|reflexivity].
  Qed.

  Lemma nth_error_combine {A B} (l1 : list A) (l2 : list B) m a b :
    nth_error l1 m = Some a -> nth_error l2 m = Some b -> nth_error (combine l1 l2) m = Some (a, b).
  Proof.
    revert l2 m; induction l1 as [|x l1 IH]; intros [|y l2] [|m] H1 H2; cbn in *; try discriminate.
    - congruence.
    - apply IH; auto.
  Qed.

  Lemma final_file c st d applied :
    INV c st d applied -> sched_complete G outp c = true ->
    is_file st = ref_file name_eqb gr sel d.
  Proof.
    intros (_ & (Hlend & Hwf) & _ & _ & _ & (Hlf & Hfile)) Hc.
    unfold sched_complete in Hc. apply andb_true_iff in Hc. destruct Hc as [Hc Hc3].
    apply andb_true_iff in Hc. destruct Hc as [Hc1 Hc2].
    apply Nat.eqb_eq in Hc1, Hc2, Hc3.
    apply list_eq_nth_error. intros m. unfold ref_file.
    destruct (nth_error M m) as [md|] eqn:Hm.
    - assert (Hmd : In md M) by (eapply nth_error_In; eauto).
      destruct (Hfile m md Hm) as (dm & Hdm & Hf). rewrite Hf.
      destruct (Hwf m md Hm) as (dm' & Hdm' & Hlen & _). rewrite Hdm in Hdm'. inversion Hdm'; subst dm'.
      rewrite nth_error_map, (nth_error_combine _ _ _ _ _ Hm Hdm). cbn [option_map]. f_equal.
      rewrite Hc1, <- (Vtot md Hmd) in Hlen.
      unfold exp_model_out, ref_model_out. rewrite Hc3.
      destruct outp; cbn [andb negb orb]; [|reflexivity].
      rewrite <- (Vtot md Hmd).
      destruct (m_total md) as [|t] eqn:Et; [reflexivity|]. cbn [Nat.ltb Nat.leb Nat.eqb].
      rewrite (write_inputs_want md Hmd), write_outputs_want.
      assert (R : forall A (proj : node_result -> A),
                 rows_of proj md dm (S t) = map (fun nr => Some (proj nr)) dm).
      { intros A proj. unfold rows_of. rewrite Et, Nat.sub_diag. cbn [repeat]. rewrite app_nil_r.
        rewrite firstn_all2 by lia. reflexivity. }
      rewrite !R. reflexivity.
    - pose proof Hm as Hm'. apply nth_error_None in Hm'.
      replace (nth_error (is_file st) m) with (@None model_out) by (symmetry; apply nth_error_None; lia).
      symmetry. apply nth_error_None. rewrite map_length, combine_length. lia.
  Qed.

  (** ---------- every legal schedule ---------- *)
  Definition ref_continue (n : nat) (d : done_t) : option done_t := foldM ref_gen (seq n (G - n)) d.

  Lemma exec_inv : forall sch c st d applied c',
    INV c st d applied ->
    sched_run G outp sch c = Some c' -> sched_complete G outp c' = true ->
    orel (fun st' d' => is_file st' = ref_file name_eqb gr sel d')
         (impl_exec s_zero s_add cat K name_eqb gr sel sch st)
         (ref_continue (sc_ran c) d).
  Proof.
    induction sch as [|a sch IH]; intros c st d applied c' HI Hrun Hcomp.
    - cbn in Hrun. inversion Hrun; subst c'. cbn [impl_exec foldM].
      pose proof Hcomp as Hc. unfold sched_complete in Hc.
      apply andb_true_iff in Hc. destruct Hc as [Hc _]. apply andb_true_iff in Hc. destruct Hc as [Hc1 _].
      apply Nat.eqb_eq in Hc1. unfold ref_continue. rewrite Hc1, Nat.sub_diag. cbn.
      eapply final_file; eauto.
    - unfold sched_run in Hrun. cbn [foldM] in Hrun.
      destruct (sched_next G outp c a) as [c1|] eqn:Hn; cbn [obind] in Hrun; [|discriminate].
      fold (sched_run G outp sch c1) in Hrun.
      unfold impl_exec. cbn [foldM]. fold (impl_exec s_zero s_add cat K name_eqb gr sel sch).
      destruct a as [i|i|i|g|g]; cbn [sched_next] in Hn.
      + (* ARun *)
        destruct ((i =? sc_ran c) && (sc_ran c =? sc_linked c) && (i <? G)) eqn:Ec; [|discriminate].
        inversion Hn; subst c1. clear Hn.
        apply andb_true_iff in Ec. destruct Ec as [Ec E3]. apply andb_true_iff in Ec. destruct Ec as [E1 E2].
        apply Nat.eqb_eq in E1, E2. apply Nat.ltb_lt in E3. subst i.
        pose proof (step_run c st d applied HI E2 E3) as SR.
        unfold ref_continue at 1.
        replace (G - sc_ran c) with (S (G - S (sc_ran c))) by lia. cbn [seq foldM].
        destruct (impl_step s_zero s_add cat K name_eqb gr sel st (ARun (sc_ran c))) as [st1|];
          destruct (ref_gen d (sc_ran c)) as [d1|]; cbn [orel obind] in *; try contradiction; [|exact I].
        apply (IH (c_run c) st1 d1 applied c' SR Hrun Hcomp).
      + (* ALinkOne *)
        destruct ((i =? sc_linked c) && (sc_ran c =? S (sc_linked c))) eqn:Ec; [|discriminate].
        inversion Hn; subst c1. clear Hn.
        apply andb_true_iff in Ec. destruct Ec as [E1 E2]. apply Nat.eqb_eq in E1, E2. subst i.
        destruct (step_link_one c st d applied HI E2) as (st1 & applied1 & S1 & I1).
        rewrite S1. cbn [obind].
        apply (IH c st1 d applied1 c' I1 Hrun Hcomp).
      + (* ALinks *)
        destruct ((i =? sc_linked c) && (sc_ran c =? S (sc_linked c))) eqn:Ec; [|discriminate].
        inversion Hn; subst c1. clear Hn.
        apply andb_true_iff in Ec. destruct Ec as [E1 E2]. apply Nat.eqb_eq in E1, E2. subst i.
        destruct (step_links c st d applied HI E2) as (st1 & applied1 & S1 & I1).
        rewrite S1. cbn [obind].
        apply (IH (c_link c) st1 d applied1 c' I1 Hrun Hcomp).
      + (* AWrite *)
        destruct (outp && (g =? sc_written c) && (g <? sc_ran c)) eqn:Ec; [|discriminate].
        inversion Hn; subst c1. clear Hn.
        apply andb_true_iff in Ec. destruct Ec as [Ec E3]. apply andb_true_iff in Ec. destruct Ec as [E1 E2].
        apply Nat.eqb_eq in E2. apply Nat.ltb_lt in E3. subst g.
        destruct (step_write c st d applied HI E1 E3) as (st1 & S1 & I1).
        rewrite S1. cbn [obind].
        apply (IH (c_write c) st1 d applied c' I1 Hrun Hcomp).
      + (* APurge *)
        destruct (outp && (g <? sc_written c) && (g <? sc_linked c)) eqn:Ec; [|discriminate].
        inversion Hn; subst c1. clear Hn.
        apply andb_true_iff in Ec. destruct Ec as [Ec E3]. apply andb_true_iff in Ec. destruct Ec as [E1 E2].
        apply Nat.ltb_lt in E2, E3.
        destruct (step_purge c st d applied g HI E2 E3) as (st1 & S1 & I1).
        rewrite S1. cbn [obind].
        apply (IH c st1 d applied c' I1 Hrun Hcomp).
  Qed.

  (** ow-sim's result equals the sequential reference for EVERY legal schedule
      of simulation, link processing, writing and purging. *)
  Theorem impl_any_schedule_eq_ref_sec sch :
    legal_schedule G outp sch ->
    impl_sim_sched s_zero s_add cat K name_eqb gr sel sch = ref_sim s_zero s_add cat K name_eqb gr sel.
  Proof.
    intros (c' & Hrun & Hcomp).
    destruct impl_init_ok as (st0 & Hinit & HI).
    unfold impl_sim_sched, ref_sim. rewrite Hinit. cbn [obind].
    pose proof (exec_inv sch sched0 st0 (done0 gr) [] c' HI Hrun Hcomp) as HO.
    unfold ref_continue in HO. cbn [sc_ran sched0] in HO. rewrite Nat.sub_0_r in HO.
    unfold ref_run, ref_run_upto. fold ref_gen.
    destruct (impl_exec s_zero s_add cat K name_eqb gr sel sch st0) as [st|];
      destruct (foldM ref_gen (seq 0 G) (done0 gr)) as [d|]; cbn [orel obind] in *; try contradiction;
      [|reflexivity].
    rewrite HO. reflexivity.
  Qed.

  (** the canonical schedule is legal *)
  Lemma canon_sched_run n : n <= G ->
    sched_run G outp (canon_sched sel n) sched0 =
    Some {| sc_ran := n; sc_linked := n; sc_written := if outp then n else 0 |}.
  Proof.
    induction n as [|n IH]; intros Hn.
    - cbn. destruct outp; reflexivity.
    - unfold canon_sched in *. rewrite seq_S, flat_map_app. unfold sched_run in *. rewrite foldM_app.
      rewrite IH by lia. cbn [obind Nat.add flat_map app].
      destruct outp eqn:Eo.
      + destruct n as [|j]; cbn [app foldM sched_next sc_ran sc_linked sc_written andb obind];
          rewrite ?Nat.eqb_refl; cbn [andb];
          repeat (match goal with
                  | |- context [?a <? ?b] => replace (a <? b) with true by (symmetry; apply Nat.ltb_lt; lia)
                  end; cbn [andb obind sc_ran sc_linked sc_written]; rewrite ?Nat.eqb_refl; cbn [andb obind]);
          reflexivity.
      + cbn [app foldM sched_next sc_ran sc_linked sc_written andb obind].
        rewrite ?Nat.eqb_refl. cbn [andb].
        replace (n <? G) with true by (symmetry; apply Nat.ltb_lt; lia).
        cbn [obind sc_ran sc_linked sc_written]. rewrite ?Nat.eqb_refl. cbn [andb obind]. reflexivity.
  Qed.

  Lemma canon_sched_legal : legal_schedule G outp (canon_sched sel G).
  Proof.
    eexists. split; [apply canon_sched_run; lia|].
    unfold sched_complete. cbn. rewrite !Nat.eqb_refl. destruct outp; rewrite ?Nat.eqb_refl; reflexivity.
  Qed.

  Theorem impl_eq_ref_sec :
    impl_sim s_zero s_add cat K name_eqb gr sel = ref_sim s_zero s_add cat K name_eqb gr sel.
  Proof. apply impl_any_schedule_eq_ref_sec. apply canon_sched_legal. Qed.

End Proofs.

(** ---------- the theorems, closed ---------- *)
Definition kernels_match_catalogue {name T Ser : Type} (cat : catalogue name)
           (K : name -> list T -> list T -> list Ser -> option (list Ser * list T)) : Prop :=
  forall nm p s i o s', K nm p s i = Some (o, s') -> length o = cat_nout cat nm.

Definition no_external_writer {name T Ser : Type} (name_eqb : name -> name -> bool)
           (gr : graph name T Ser) (sel : selection name) : Prop :=
  forall md, In md (g_models gr) -> is_split name_eqb sel md = false.

Theorem impl_any_schedule_eq_ref :
  forall (name T Ser : Type) (s_zero : nat -> Ser) (s_add : Ser -> Ser -> Ser)
         (cat : catalogue name)
         (K : name -> list T -> list T -> list Ser -> option (list Ser * list T))
         (name_eqb : name -> name -> bool)
         (gr : graph name T Ser) (sel : selection name) (sch : list action),
    valid_graph cat name_eqb gr = true ->
    kernels_match_catalogue cat K ->
    no_external_writer name_eqb gr sel ->
    legal_schedule (n_gens gr) (sel_outfile sel) sch ->
    impl_sim_sched s_zero s_add cat K name_eqb gr sel sch = ref_sim s_zero s_add cat K name_eqb gr sel.
Proof. intros. apply impl_any_schedule_eq_ref_sec; assumption. Qed.

Theorem impl_eq_ref :
  forall (name T Ser : Type) (s_zero : nat -> Ser) (s_add : Ser -> Ser -> Ser)
         (cat : catalogue name)
         (K : name -> list T -> list T -> list Ser -> option (list Ser * list T))
         (name_eqb : name -> name -> bool)
         (gr : graph name T Ser) (sel : selection name),
    valid_graph cat name_eqb gr = true ->
    kernels_match_catalogue cat K ->
    no_external_writer name_eqb gr sel ->
    impl_sim s_zero s_add cat K name_eqb gr sel = ref_sim s_zero s_add cat K name_eqb gr sel.
Proof. intros. apply impl_eq_ref_sec; assumption. Qed.

Print Assumptions impl_any_schedule_eq_ref.
Print Assumptions impl_eq_ref.
