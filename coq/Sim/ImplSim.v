(** What [ow-sim] does with a model graph (cmd/ow-sim/main.go, running.go,
    simulation_model_reference.go), as an executable model.

    The memory is, per model, the slice [Generations] of lazily loaded
    [modelGeneration]s (nil = not loaded / purged).  The process is modelled by
    four kinds of atomic actions
        ARun i      runGeneration(i)                      (main goroutine)
        ALinkOne i  one iteration of the "PROCESS LINKS" loop of iteration i that applies a link
        ALinks i    the rest of the "PROCESS LINKS" loop of iteration i, up to its break
        AWrite g  writeGeneration(g)                    (writer goroutine g)
        APurge g  PurgeGeneration(g) for every model    (any waiting writer goroutine)
    executed in ANY order ([impl_exec] takes the schedule).  Which schedules the
    goroutine/channel protocol of main.go can produce is the subject of
    Protocol.v; [impl_sim] runs the canonical one.  Every Go panic / error exit
    is [None].

    The map [models : map[string]*modelReference] is modelled by position in
    [modelNames]; the two coincide when the names are pairwise distinct, which
    [valid_graph] requires (with a repeated name the Go map would alias two
    entries of [modelNames] to one modelReference).

    Assumption stated here (proved elsewhere, property C04): the vectorised
    [Model.Run(inputs, states, outputs)] of a generation equals running the
    one-cell kernel on each of its rows independently ([run_cells]); the
    goroutines of one generation touch disjoint arrays (property C05). *)
From Coq Require Import List Arith Bool Lia.
From OW Require Import Sim.SimAux Sim.Graph Sim.RefSim.
Import ListNotations.

Set Implicit Arguments.

Inductive action := ARun (i : nat) | ALinkOne (i : nat) | ALinks (i : nat) | AWrite (g : nat) | APurge (g : nat).

Section Impl.
  Variables name T Ser : Type.
  Variable s_zero : nat -> Ser.
  Variable s_add  : Ser -> Ser -> Ser.
  Variable cat : catalogue name.
  Variable K : name -> list T -> list T -> list Ser -> option (list Ser * list T).
  Variable name_eqb : name -> name -> bool.

  Local Notation model_data := (model_data name T Ser).
  Local Notation graph := (graph name T Ser).
  Local Notation selection := (selection name).
  Local Notation model_out := (model_out T Ser).
  Local Notation out_file := (out_file T Ser).

  (** modelGeneration *)
  Record gen_data := {
    gd_count   : nat;
    gd_inputs  : list (list Ser);           (* [count x nInputs x T] *)
    gd_states  : list (list T);             (* [count x nStates]     *)
    gd_params  : list (list T);             (* [nParams x count], here one column per cell *)
    gd_outputs : option (list (list Ser))   (* nil until Run *)
  }.

  (** modelReference: the mutable part *)
  Record mref := {
    mr_gens : list (option gen_data);       (* Generations *)
    mr_init : bool                          (* outputsInitialised *)
  }.

  Record istate := {
    is_refs  : list mref;
    is_links : list link;                   (* links[nextLink:] *)
    is_file  : out_file
  }.

  (** writeFor *)
  Definition write_for (nm : name) (incl excl : list name) (dflt : bool) : bool :=
    if match incl with [] => false | _ => existsb (name_eqb nm) incl end then true
    else if match excl with [] => false | _ => existsb (name_eqb nm) excl end then false
    else dflt.

  Section WithGraph.
    Variable gr : graph.
    Variable sel : selection.

    (** makeModelRefs: simLength is the time dimension of the first stored
        inputs dataset that has a non-zero one *)
    Definition impl_sim_length : nat :=
      fold_left (fun sl md => if sl =? 0
                              then match md_inputs md with Some (t, _) => t | None => sl end
                              else sl) (g_models gr) 0.

    (** ref.WriteOutputs / ref.WriteInputs (ref.WriteStates is always true) *)
    Definition write_outputs (md : model_data) : bool :=
      write_for (md_name md) (sel_outputs_for sel) (sel_no_outputs_for sel) true.
    Definition write_inputs (md : model_data) : bool :=
      write_for (md_name md) (sel_inputs_for sel) (sel_no_inputs_for sel)
                (match md_batches md with b0 :: _ => b0 =? 0 | [] => false end).
    (** destFn != defaultOutputFn: an external writer process *)
    Definition is_split (md : model_data) : bool := existsb (name_eqb (md_name md)) (sel_split sel).

    (** the part of GetGeneration that reads the file *)
    Definition load_gen (md : model_data) (g : nat) : option gen_data :=
      let start := m_start md g in
      let stop := m_stop md g in
      if stop <? start then None else
      let count := stop - start in
      if count =? 0 then
        Some {| gd_count := 0; gd_inputs := []; gd_states := []; gd_params := []; gd_outputs := None |}
      else
        Some {| gd_count := count;
                gd_inputs := match md_inputs md with
                             | Some (_, tbl) => slice_rows start count tbl
                             | None => repeat (repeat (s_zero impl_sim_length) (cat_nin cat (md_name md))) count
                             end;
                gd_states := slice_rows start count (md_states md);
                gd_params := slice_rows start count (md_params md);
                gd_outputs := None |}.

    (** GetGeneration: lazy *)
    Definition get_generation (md : model_data) (gens : list (option gen_data)) (g : nat)
      : option (gen_data * list (option gen_data)) :=
      match nth_error gens g with
      | None => None                                   (* index out of range *)
      | Some (Some gd) => Some (gd, gens)
      | Some None =>
          gd <- load_gen md g ;;
          gens' <- upd_nth gens g (fun _ => Some (Some gd)) ;;
          Some (gd, gens')
      end.

    (** Model.Run on a generation = the one-cell kernel on every row (C04) *)
    Definition run_cells (nm : name) (gd : gen_data) : option (list (list Ser * list T)) :=
      mapM (fun j => p <- nth_error (gd_params gd) j ;;
                     s <- nth_error (gd_states gd) j ;;
                     i <- nth_error (gd_inputs gd) j ;;
                     K nm p s i)
           (seq 0 (gd_count gd)).

    (** one model's part of runGeneration(i) *)
    Definition run_model (i : nat) (md : model_data) (mr : mref) : option mref :=
      '(gd, gens) <- get_generation md (mr_gens mr) i ;;
      if gd_count gd =? 0 then Some {| mr_gens := gens; mr_init := mr_init mr |} else
      res <- run_cells (md_name md) gd ;;
      let gd' := {| gd_count := gd_count gd; gd_inputs := gd_inputs gd;
                    gd_states := map snd res; gd_params := gd_params gd;
                    gd_outputs := Some (map fst res) |} in
      gens' <- upd_nth gens i (fun _ => Some (Some gd')) ;;
      Some {| mr_gens := gens'; mr_init := mr_init mr |}.

    Fixpoint run_models (i : nat) (mds : list model_data) (refs : list mref) : option (list mref) :=
      match mds, refs with
      | [], _ => Some refs
      | md :: mds', mr :: refs' =>
          mr' <- run_model i md mr ;; rest <- run_models i mds' refs' ;; Some (mr' :: rest)
      | _ :: _, [] => None
      end.

    (** The goroutines that runGeneration starts (one per model) finish in an
        arbitrary order; each touches only its own modelGeneration.
        [run_models_order i order] runs the models one after the other in the
        given order (RunOrder.v: for every permutation [order] of the model
        indices this equals [run_models i]). *)
    Definition run_model_at (i : nat) (refs : list mref) (m : nat) : option (list mref) :=
      md <- nth_error (g_models gr) m ;;
      mr <- nth_error refs m ;;
      mr' <- run_model i md mr ;;
      upd_nth refs m (fun _ => Some mr').
    Definition run_models_order (i : nat) (order : list nat) (refs : list mref) : option (list mref) :=
      foldM (run_model_at i) order refs.

    Definition set_gens (refs : list mref) (m : nat) (gens : list (option gen_data)) : option (list mref) :=
      upd_nth refs m (fun mr => Some {| mr_gens := gens; mr_init := mr_init mr |}).

    (** the body of the link loop after the two break tests *)
    Definition apply_link (refs : list mref) (l : link) : option (list mref) :=
      ms <- nth_error (g_models gr) (l_src_model l) ;;
      mrs <- nth_error refs (l_src_model l) ;;
      '(gsrc, gens_s) <- get_generation ms (mr_gens mrs) (l_src_gen l) ;;
      refs1 <- set_gens refs (l_src_model l) gens_s ;;
      md <- nth_error (g_models gr) (l_dest_model l) ;;
      mrd <- nth_error refs1 (l_dest_model l) ;;
      '(gdst, gens_d) <- get_generation md (mr_gens mrd) (l_dest_gen l) ;;
      outs <- gd_outputs gsrc ;;                                   (* nil Outputs: panic *)
      srow <- nth_error outs (l_src_gen_node l) ;;
      sdata <- nth_error srow (l_src_var l) ;;
      inputs' <- upd_nth (gd_inputs gdst) (l_dest_gen_node l)
                   (fun row => upd_nth row (l_dest_var l) (fun x => Some (s_add x sdata))) ;;
      let gdst' := {| gd_count := gd_count gdst; gd_inputs := inputs';
                      gd_states := gd_states gdst; gd_params := gd_params gdst;
                      gd_outputs := gd_outputs gdst |} in
      gens_d' <- upd_nth gens_d (l_dest_gen l) (fun _ => Some (Some gdst')) ;;
      set_gens refs1 (l_dest_model l) gens_d'.

    (** the PROCESS LINKS loop of iteration i: stop at the end of the table or at
        the first link whose source generation is > i *)
    Fixpoint process_links (i : nat) (refs : list mref) (ls : list link)
      : option (list mref * list link) :=
      match ls with
      | [] => Some (refs, [])                                      (* nextLink >= nLinks *)
      | l :: rest =>
          if i <? l_src_gen l then Some (refs, ls)                 (* linkGen > uint32(i) *)
          else refs' <- apply_link refs l ;; process_links i refs' rest
      end.

    Definition create_ds {A} (total : nat) : option (list (option A)) := Some (repeat None total).

    (** WriteData(g) of one model, HDF5 path *)
    Definition write_data_h5 (md : model_data) (gd : gen_data) (init : bool) (mo : model_out) (loc : nat)
      : option (bool * model_out) :=
      (* if !mr.outputsInitialised { if gen.Outputs.Len(0) > 0 { InitialiseOutputs } else return } *)
      '(go_on, mo1) <-
         (if init then Some (true, mo) else
            outs <- gd_outputs gd ;;
            if 0 <? length outs then
              Some (true,
                    {| mo_inputs := if write_inputs md then create_ds (m_total md) else mo_inputs mo;
                       mo_outputs := if write_outputs md then create_ds (m_total md) else mo_outputs mo;
                       mo_states := create_ds (m_total md) |})
            else Some (false, mo)) ;;
      if negb go_on then Some (init, mo) else
      ins' <- (if write_inputs md
               then ds <- mo_inputs mo1 ;; ds' <- write_rows ds loc (gd_inputs gd) ;; Some (Some ds')
               else Some (mo_inputs mo1)) ;;
      outs' <- (if write_outputs md
                then ds <- mo_outputs mo1 ;; outs <- gd_outputs gd ;;
                     ds' <- write_rows ds loc outs ;; Some (Some ds')
                else Some (mo_outputs mo1)) ;;
      sts' <- (ds <- mo_states mo1 ;; ds' <- write_rows ds loc (gd_states gd) ;; Some (Some ds')) ;;
      Some (true, {| mo_inputs := ins'; mo_outputs := outs'; mo_states := sts' |}).

    (** run_writer: [if data.StartingLocation == 0 { initialiseDataset }] (Create keeps an
        existing dataset of the same shape) *)
    Definition ensure_ds {A} (md : model_data) (loc : nat) (ds : option (list (option A)))
      : option (list (option A)) :=
      if loc =? 0 then match ds with Some d => Some d | None => create_ds (m_total md) end else ds.

    (** WriteData(g) of one model with an external writer process: writeProtobuf
        + the loop of run_writer in the child.  No states are sent. *)
    Definition write_data_split (md : model_data) (gd : gen_data) (mo : model_out) (loc : nat)
      : option model_out :=
      ins' <- (if write_inputs md && (0 <? length (hd [] (gd_inputs gd)))
               then ds <- ensure_ds md loc (mo_inputs mo) ;; ds' <- write_rows ds loc (gd_inputs gd) ;; Some (Some ds')
               else Some (mo_inputs mo)) ;;
      outs' <- (if write_outputs md
                then outs <- gd_outputs gd ;;
                     if 0 <? length (hd [] outs)
                     then ds <- ensure_ds md loc (mo_outputs mo) ;; ds' <- write_rows ds loc outs ;; Some (Some ds')
                     else Some (mo_outputs mo)
                else Some (mo_outputs mo)) ;;
      Some {| mo_inputs := ins'; mo_outputs := outs'; mo_states := mo_states mo |}.

    Definition write_data (g : nat) (md : model_data) (mr : mref) (mo : model_out)
      : option (mref * model_out) :=
      '(gd, gens) <- get_generation md (mr_gens mr) g ;;
      if gd_count gd =? 0 then Some ({| mr_gens := gens; mr_init := mr_init mr |}, mo) else
      if is_split md then
        mo' <- write_data_split md gd mo (m_start md g) ;;
        Some ({| mr_gens := gens; mr_init := mr_init mr |}, mo')
      else
        '(init', mo') <- write_data_h5 md gd (mr_init mr) mo (m_start md g) ;;
        Some ({| mr_gens := gens; mr_init := init' |}, mo').

    (** writeGeneration(g): every model in order *)
    Fixpoint write_models (g : nat) (mds : list model_data) (refs : list mref) (file : out_file)
      : option (list mref * out_file) :=
      match mds, refs, file with
      | [], _, _ => Some (refs, file)
      | md :: mds', mr :: refs', mo :: file' =>
          '(mr', mo') <- write_data g md mr mo ;;
          '(rest, frest) <- write_models g mds' refs' file' ;;
          Some (mr' :: rest, mo' :: frest)
      | _, _, _ => None
      end.

    (** PurgeGeneration(g) for every model *)
    Definition purge (g : nat) (refs : list mref) : option (list mref) :=
      mapM (fun mr => gens' <- upd_nth (mr_gens mr) g (fun _ => Some None) ;;
                      Some {| mr_gens := gens'; mr_init := mr_init mr |}) refs.

    Definition impl_step (st : istate) (a : action) : option istate :=
      match a with
      | ARun i =>
          refs' <- run_models i (g_models gr) (is_refs st) ;;
          Some {| is_refs := refs'; is_links := is_links st; is_file := is_file st |}
      | ALinkOne i =>
          (* one loop iteration that does not break; a stutter step when the loop would break here *)
          match is_links st with
          | [] => Some st
          | l :: rest =>
              if i <? l_src_gen l then Some st
              else refs' <- apply_link (is_refs st) l ;;
                   Some {| is_refs := refs'; is_links := rest; is_file := is_file st |}
          end
      | ALinks i =>
          '(refs', rest) <- process_links i (is_refs st) (is_links st) ;;
          Some {| is_refs := refs'; is_links := rest; is_file := is_file st |}
      | AWrite g =>
          '(refs', file') <- write_models g (g_models gr) (is_refs st) (is_file st) ;;
          Some {| is_refs := refs'; is_links := is_links st; is_file := file' |}
      | APurge g =>
          refs' <- purge g (is_refs st) ;;
          Some {| is_refs := refs'; is_links := is_links st; is_file := is_file st |}
      end.

    Definition impl_exec (sch : list action) (st : istate) : option istate := foldM impl_step sch st.

    (** makeModelRefs: unknown model name -> exit(1); Batches[0] / Batches[len-1] on
        an empty batches array -> panic *)
    Definition impl_init : option istate :=
      if forallb (fun md => cat_known cat (md_name md) && (0 <? length (md_batches md))) (g_models gr)
      then Some {| is_refs := map (fun md => {| mr_gens := repeat None (length (md_batches md));
                                               mr_init := false |}) (g_models gr);
                   is_links := g_links gr;
                   is_file := map (fun _ => no_out T Ser) (g_models gr) |}
      else None.

    (** the schedule in which every writer goroutine runs to completion as soon
        as it has been spawned (no output file: no writers at all) *)
    Definition canon_sched (G : nat) : list action :=
      flat_map (fun i =>
                  if sel_outfile sel
                  then ARun i :: (match i with 0 => [] | S j => [APurge j] end) ++ [AWrite i; ALinks i]
                  else [ARun i; ALinks i])
               (seq 0 G).

    Definition impl_sim_sched (sch : list action) : option out_file :=
      st0 <- impl_init ;; st <- impl_exec sch st0 ;; Some (is_file st).

    Definition impl_sim : option out_file := impl_sim_sched (canon_sched (n_gens gr)).
  End WithGraph.
End Impl.
