(** Instances of the Sim models that are extracted and run against the real
    ow-sim (definitions only).  Series are lists of values; AddTo on two
    [1,1,T] slices of equal length is element-wise addition (for unequal
    lengths the Go code would address neighbouring memory; the catalogued
    kernels always return series of the input length, so this case does not
    arise and [ser_add] simply truncates). *)
From Coq Require Import List Arith Bool.
From OW Require Import Base.Arith Sim.SimAux Sim.Graph Sim.RefSim Sim.ImplSim Sim.Protocol Sim.Sched.
Import ListNotations.

Section Inst.
  Context {T : Type} {A : Arith T}.
  Variable name : Type.
  Variable cat : catalogue name.
  Variable K : name -> list T -> list T -> list (list T) -> option (list (list T) * list T).
  Variable name_eqb : name -> name -> bool.

  Definition ser_zero (n : nat) : list T := repeat zero n.
  Fixpoint ser_add (a b : list T) : list T :=
    match a, b with
    | x :: a', y :: b' => add x y :: ser_add a' b'
    | _, _ => []
    end.

  Definition c07_valid (gr : graph name T (list T)) : bool := valid_graph cat name_eqb gr.
  Definition c07_impl_sim (gr : graph name T (list T)) (sel : selection name) :=
    impl_sim ser_zero ser_add cat K name_eqb gr sel.
  Definition c07_ref_sim (gr : graph name T (list T)) (sel : selection name) :=
    ref_sim ser_zero ser_add cat K name_eqb gr sel.
  (** the model run under the schedule observed in a real run *)
  Definition c07_impl_sched (gr : graph name T (list T)) (sel : selection name) (ls : list plabel) :=
    impl_sim_sched ser_zero ser_add cat K name_eqb gr sel (schedule_of ls).
End Inst.

Definition c07_accepts (G : nat) (outp : bool) (ls : list plabel) : bool := accepts G outp ls.
Definition c07_accepts_exited (G : nat) (outp : bool) (ls : list plabel) : bool := accepts_exited G outp ls.
Definition c07_legal (G : nat) (outp : bool) (ls : list plabel) : bool :=
  match sched_run G outp (schedule_of ls) sched0 with
  | Some c => sched_complete G outp c
  | None => false
  end.
