(** The order in which the model goroutines of one generation complete is
    irrelevant: running the models one by one in ANY order (a permutation of the
    model indices) gives the same memory as [run_models] - including the case
    where some kernel panics ([None]). *)
From Coq Require Import List Arith Bool Lia Permutation.
From OW Require Import Sim.SimAux Sim.SimAuxProofs Sim.Graph Sim.RefSim Sim.ImplSim.
Import ListNotations.

Lemma skipn_S_tl {A} (l : list A) k : skipn (S k) l = tl (skipn k l).
Proof.
  revert l; induction k as [|k IH]; intros l.
  - destruct l; reflexivity.
  - destruct l as [|a l]; [reflexivity|]. cbn [skipn]. apply IH.
Qed.

Section Generic.
  Variable A : Type.
  Variable f : nat -> A -> option A.      (* the update of position m *)

  (** all positions, left to right *)
  Fixpoint seqrun (k : nat) (xs : list A) : option (list A) :=
    match xs with
    | [] => Some []
    | x :: r => y <- f k x ;; ys <- seqrun (S k) r ;; Some (y :: ys)
    end.

  Definition at_pos (xs : list A) (m : nat) : option (list A) :=
    x <- nth_error xs m ;; y <- f m x ;; upd_nth xs m (fun _ => Some y).

  Lemma seqrun_Some k xs ys : seqrun k xs = Some ys ->
    length ys = length xs /\
    forall j x, nth_error xs j = Some x -> exists y, f (k + j) x = Some y /\ nth_error ys j = Some y.
  Proof.
    revert k ys; induction xs as [|x r IH]; intros k ys H; cbn in H.
    - inversion H; subst. split; [reflexivity|]. intros j x Hj. destruct j; discriminate.
    - destruct (f k x) as [y|] eqn:Fy; cbn in H; [|discriminate].
      destruct (seqrun (S k) r) as [ys0|] eqn:R; cbn in H; [|discriminate]. inversion H; subst.
      destruct (IH _ _ R) as (L & P). split; [cbn; lia|].
      intros j x0 Hj. destruct j as [|j]; cbn in Hj |- *.
      + inversion Hj; subst. rewrite Nat.add_0_r. eauto.
      + destruct (P j x0 Hj) as (y0 & F0 & N0). exists y0. replace (k + S j) with (S k + j) by lia. auto.
  Qed.

  Lemma seqrun_None k xs : seqrun k xs = None ->
    exists j x, nth_error xs j = Some x /\ f (k + j) x = None.
  Proof.
    revert k; induction xs as [|x r IH]; intros k H; cbn in H; [discriminate|].
    destruct (f k x) as [y|] eqn:Fy; cbn in H.
    - destruct (seqrun (S k) r) as [ys0|] eqn:R; cbn in H; [discriminate|].
      destruct (IH _ R) as (j & x0 & Hj & F0). exists (S j), x0. cbn.
      replace (k + S j) with (S k + j) by lia. auto.
    - exists 0, x. rewrite Nat.add_0_r. auto.
  Qed.

  Lemma seqrun_of_pointwise k xs ys :
    length ys = length xs ->
    (forall j x, nth_error xs j = Some x -> exists y, f (k + j) x = Some y /\ nth_error ys j = Some y) ->
    seqrun k xs = Some ys.
  Proof.
    revert k ys; induction xs as [|x r IH]; intros k ys L P; destruct ys as [|y ys]; try discriminate.
    - reflexivity.
    - cbn. destruct (P 0 x eq_refl) as (y0 & F0 & N0). cbn in N0. inversion N0; subst y0.
      rewrite Nat.add_0_r in F0. rewrite F0. cbn.
      rewrite (IH (S k) ys); [reflexivity|cbn in L; lia|].
      intros j x0 Hj. destruct (P (S j) x0 Hj) as (y1 & F1 & N1).
      exists y1. replace (S k + j) with (k + S j) by lia. auto.
  Qed.

  (** any order *)
  Lemma order_spec xs : forall order zs,
    NoDup order -> length zs = length xs ->
    (forall m, In m order -> nth_error zs m = nth_error xs m) ->
    match foldM at_pos order zs with
    | Some ws => length ws = length xs /\
                 (forall m, In m order -> exists x y, nth_error xs m = Some x /\ f m x = Some y /\ nth_error ws m = Some y) /\
                 (forall m, ~ In m order -> nth_error ws m = nth_error zs m)
    | None => exists m, In m order /\ (nth_error xs m = None \/ exists x, nth_error xs m = Some x /\ f m x = None)
    end.
  Proof.
    induction order as [|m order IH]; intros zs ND L Same.
    - cbn. repeat split; auto. intros m [].
    - inversion ND as [|? ? Hnotin ND']; subst. cbn [foldM].
      unfold at_pos at 1. rewrite (Same m (or_introl eq_refl)).
      destruct (nth_error xs m) as [x|] eqn:Hx; cbn [obind].
      2:{ exists m. split; [left; reflexivity|left; exact Hx]. }
      destruct (f m x) as [y|] eqn:Fy; cbn [obind].
      2:{ exists m. split; [left; reflexivity|right; eauto]. }
      assert (Hz : nth_error zs m = Some x) by (rewrite (Same m (or_introl eq_refl)); exact Hx).
      destruct (upd_nth_Some zs m (fun _ => Some y) x y Hz eq_refl) as (zs1 & U). rewrite U. cbn [obind].
      destruct (upd_nth_spec _ _ _ _ U) as (L1 & (x1 & y1 & X1 & Y1 & Z1) & O1). inversion Y1; subst y1.
      specialize (IH zs1 ND' ltac:(lia)).
      assert (Same1 : forall m0, In m0 order -> nth_error zs1 m0 = nth_error xs m0).
      { intros m0 H0. rewrite O1; [apply Same; right; exact H0|]. intros ->. contradiction. }
      specialize (IH Same1).
      destruct (foldM at_pos order zs1) as [ws|].
      + destruct IH as (Lw & Pin & Pout). split; [exact Lw|]. split.
        * intros m0 [->|H0].
          -- exists x, y. split; [exact Hx|]. split; [exact Fy|]. rewrite (Pout m0 Hnotin). exact Z1.
          -- apply Pin. exact H0.
        * intros m0 Hn. rewrite Pout by (intros H0; apply Hn; right; exact H0).
          apply O1. intros ->. apply Hn. left. reflexivity.
      + destruct IH as (m0 & H0 & Hf). exists m0. split; [right; exact H0|exact Hf].
  Qed.

  Theorem any_order_eq_seqrun xs order :
    Permutation order (seq 0 (length xs)) ->
    foldM at_pos order xs = seqrun 0 xs.
  Proof.
    intros HP.
    assert (ND : NoDup order) by (eapply Permutation_NoDup; [apply Permutation_sym; exact HP|apply seq_NoDup]).
    assert (Hin : forall m, In m order <-> m < length xs).
    { intros m. split; intros H.
      - apply (Permutation_in _ HP) in H. apply in_seq in H. lia.
      - apply (Permutation_in _ (Permutation_sym HP)). apply in_seq. lia. }
    pose proof (order_spec xs order xs ND eq_refl (fun _ _ => eq_refl)) as S.
    destruct (foldM at_pos order xs) as [ws|].
    - destruct S as (Lw & Pin & _). symmetry. apply seqrun_of_pointwise; [exact Lw|].
      intros j x Hj. assert (Hlt : j < length xs) by (apply nth_error_Some; congruence).
      destruct (Pin j (proj2 (Hin j) Hlt)) as (x' & y & X & F & W). rewrite Hj in X. inversion X; subst x'.
      exists y. auto.
    - destruct S as (m & Hm & [Hn|(x & Hx & Fx)]).
      + apply Hin in Hm. apply nth_error_None in Hn. lia.
      + destruct (seqrun 0 xs) as [ys|] eqn:R; [|reflexivity].
        destruct (seqrun_Some _ _ _ R) as (_ & P). destruct (P m x Hx) as (y & Fy & _). cbn in Fy. congruence.
  Qed.
End Generic.

Section RunOrder.
  Variables name T Ser : Type.
  Variable s_zero : nat -> Ser.
  Variable cat : catalogue name.
  Variable K : name -> list T -> list T -> list Ser -> option (list Ser * list T).
  Variable gr : graph name T Ser.

  Local Notation mref := (mref T Ser).
  Local Notation M := (g_models gr).

  Definition model_update (i m : nat) (mr : mref) : option mref :=
    md <- nth_error M m ;; run_model s_zero cat K gr i md mr.

  Lemma run_models_seqrun i : forall k mds refs,
    skipn k M = mds -> length refs = length mds ->
    run_models s_zero cat K gr i mds refs = seqrun mref (model_update i) k refs.
  Proof.
    intros k mds; revert k. induction mds as [|md mds IH]; intros k refs Hs Hl.
    - destruct refs; [reflexivity|discriminate].
    - destruct refs as [|mr refs]; [discriminate|]. cbn [run_models seqrun].
      assert (Hk : nth_error M k = Some md).
      { rewrite <- (Nat.add_0_r k), <- nth_error_skipn_add, Hs. reflexivity. }
      unfold model_update at 1. rewrite Hk. cbn [obind].
      destruct (run_model s_zero cat K gr i md mr); cbn [obind]; [|reflexivity].
      rewrite (IH (S k) refs); [reflexivity| |cbn in Hl; lia].
      rewrite skipn_S_tl, Hs. reflexivity.
  Qed.

  Lemma run_model_at_at_pos i refs m :
    run_model_at s_zero cat K gr i refs m = at_pos mref (model_update i) refs m.
  Proof.
    unfold run_model_at, at_pos, model_update.
    destruct (nth_error M m) as [md|] eqn:Hm; cbn [obind].
    - reflexivity.
    - destruct (nth_error refs m); reflexivity.
  Qed.

  (** every completion order of the model goroutines of generation i gives the
      memory (or the crash) of the canonical order *)
  Theorem run_models_any_order i order refs :
    length refs = length M -> Permutation order (seq 0 (length M)) ->
    run_models_order s_zero cat K gr i order refs = run_models s_zero cat K gr i M refs.
  Proof.
    intros Hl HP. unfold run_models_order.
    rewrite (run_models_seqrun i 0 M refs eq_refl Hl).
    rewrite <- (any_order_eq_seqrun mref (model_update i) refs order) by (rewrite Hl; exact HP).
    clear HP. revert refs Hl. induction order as [|m order IH]; intros refs Hl; [reflexivity|].
    cbn [foldM]. rewrite run_model_at_at_pos.
    destruct (at_pos mref (model_update i) refs m) as [refs1|] eqn:E; cbn [obind]; [|reflexivity].
    apply IH. unfold at_pos in E.
    destruct (nth_error refs m); cbn in E; [|discriminate].
    destruct (model_update i m m0); cbn in E; [|discriminate].
    apply upd_nth_spec in E. destruct E as (L & _). lia.
  Qed.
End RunOrder.

Print Assumptions run_models_any_order.
