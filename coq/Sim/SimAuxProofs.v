(** Lemmas about the utilities of SimAux.v. *)
From Coq Require Import List Arith Bool Lia.
From OW Require Import Sim.SimAux.
Import ListNotations.



(** relation between two optional results: both fail, or both succeed with related values *)
Definition orel {A B} (R : A -> B -> Prop) (o1 : option A) (o2 : option B) : Prop :=
  match o1, o2 with
  | Some a, Some b => R a b
  | None, None => True
  | _, _ => False
  end.

Lemma orel_eq_map {A B C} (f : A -> C) (g : B -> C) (o1 : option A) (o2 : option B) :
  orel (fun a b => f a = g b) o1 o2 -> option_map f o1 = option_map g o2.
Proof. destruct o1, o2; cbn; intros H; try contradiction; congruence. Qed.

Lemma obind_Some {A B} (o : option A) (f : A -> option B) b :
  obind o f = Some b <-> exists a, o = Some a /\ f a = Some b.
Proof.
  destruct o; cbn; split.
  - intros H; eauto.
  - intros (a0 & E & H); congruence.
  - discriminate.
  - intros (a0 & E & _); discriminate.
Qed.

(** ---- mapM ---- *)
Lemma mapM_ext {A B} (f g : A -> option B) l :
  (forall x, In x l -> f x = g x) -> mapM f l = mapM g l.
Proof.
  induction l as [|x r IH]; cbn; intros H; [reflexivity|].
  rewrite (H x) by auto. rewrite IH by auto. reflexivity.
Qed.

Lemma mapM_map {A B C} (f : B -> option C) (g : A -> B) l :
  mapM f (map g l) = mapM (fun x => f (g x)) l.
Proof. induction l as [|x r IH]; cbn; [reflexivity|]. rewrite IH. reflexivity. Qed.

Lemma mapM_length {A B} (f : A -> option B) l ys : mapM f l = Some ys -> length ys = length l.
Proof.
  revert ys; induction l as [|x r IH]; cbn; intros ys H.
  - inversion H; reflexivity.
  - destruct (f x); cbn in H; [|discriminate]. destruct (mapM f r); cbn in H; [|discriminate].
    inversion H; subst; cbn. f_equal. auto.
Qed.

Lemma mapM_nth_error {A B} (f : A -> option B) l ys :
  mapM f l = Some ys ->
  forall j x, nth_error l j = Some x -> exists y, nth_error ys j = Some y /\ f x = Some y.
Proof.
  revert ys; induction l as [|a r IH]; cbn; intros ys H j x Hj.
  - destruct j; discriminate.
  - destruct (f a) eqn:Fa; cbn in H; [|discriminate]. destruct (mapM f r) eqn:Mr; cbn in H; [|discriminate].
    inversion H; subst. destruct j; cbn in *.
    + inversion Hj; subst. eauto.
    + eapply IH; eauto.
Qed.

Lemma mapM_Some_all {A B} (f : A -> option B) l :
  (forall x, In x l -> exists y, f x = Some y) -> exists ys, mapM f l = Some ys.
Proof.
  induction l as [|a r IH]; cbn; intros H; [eauto|].
  destruct (H a) as (y & Fy); auto. rewrite Fy; cbn.
  destruct IH as (ys & E); auto. rewrite E; cbn. eauto.
Qed.

Lemma mapM_None_some {A B} (f : A -> option B) l x :
  In x l -> f x = None -> mapM f l = None.
Proof.
  induction l as [|a r IH]; cbn; intros Hin Fx; [contradiction|].
  destruct Hin as [->|Hin].
  - rewrite Fx; reflexivity.
  - destruct (f a); cbn; [|reflexivity]. rewrite IH; auto.
Qed.

Lemma mapM_app {A B} (f : A -> option B) l1 l2 :
  mapM f (l1 ++ l2) = (a <- mapM f l1 ;; b <- mapM f l2 ;; Some (a ++ b)).
Proof.
  induction l1 as [|x r IH]; cbn.
  - destruct (mapM f l2); reflexivity.
  - destruct (f x); cbn; [|reflexivity]. rewrite IH.
    destruct (mapM f r); cbn; [|reflexivity]. destruct (mapM f l2); reflexivity.
Qed.

(** mapM of a post-processed function *)
Lemma mapM_post {A B C} (f : A -> option B) (h : A -> B -> C) l :
  mapM (fun x => y <- f x ;; Some (h x y)) l =
  (ys <- mapM f l ;; Some (map (fun p => h (fst p) (snd p)) (combine l ys))).
Proof.
  induction l as [|x r IH]; cbn; [reflexivity|].
  destruct (f x); cbn; [|reflexivity]. rewrite IH.
  destruct (mapM f r); reflexivity.
Qed.

Lemma map_combine_snd_proj {A B C D} (h : A -> B -> C) (p : C -> D) (q : B -> D) (l : list A) (ys : list B) :
  length l = length ys -> (forall x y, p (h x y) = q y) ->
  map p (map (fun z => h (fst z) (snd z)) (combine l ys)) = map q ys.
Proof.
  revert ys; induction l as [|x r IH]; destruct ys as [|y ys]; cbn; intros L H; try discriminate; [reflexivity|].
  rewrite H. f_equal. apply IH; auto.
Qed.

Lemma map_combine_fst_proj {A B C D} (h : A -> B -> C) (p : C -> D) (q : A -> D) (l : list A) (ys : list B) :
  length l = length ys -> (forall x y, p (h x y) = q x) ->
  map p (map (fun z => h (fst z) (snd z)) (combine l ys)) = map q l.
Proof.
  revert ys; induction l as [|x r IH]; destruct ys as [|y ys]; cbn; intros L H; try discriminate; [reflexivity|].
  rewrite H. f_equal. apply IH; auto.
Qed.

(** ---- foldM ---- *)
Lemma foldM_app {A B} (f : A -> B -> option A) l1 l2 a :
  foldM f (l1 ++ l2) a = (a' <- foldM f l1 a ;; foldM f l2 a').
Proof.
  revert a; induction l1 as [|x r IH]; cbn; intros a; [reflexivity|].
  destruct (f a x); cbn; auto.
Qed.

Lemma foldM_id {A B} (f : A -> B -> option A) l a :
  (forall x b, In b l -> f x b = Some x) -> foldM f l a = Some a.
Proof.
  induction l as [|x r IH]; cbn; intros H; [reflexivity|].
  rewrite H by auto. cbn. apply IH. auto.
Qed.

(** ---- upd_nth ---- *)
Lemma upd_nth_Some {A} (l : list A) n f x y :
  nth_error l n = Some x -> f x = Some y -> exists l', upd_nth l n f = Some l'.
Proof.
  revert n; induction l as [|a r IH]; intros [|n] Hn Hf; cbn in *; try discriminate.
  - inversion Hn; subst. rewrite Hf; cbn; eauto.
  - destruct (IH _ Hn Hf) as (l' & E). rewrite E; cbn; eauto.
Qed.

Lemma upd_nth_spec {A} (l l' : list A) n f :
  upd_nth l n f = Some l' ->
  length l' = length l /\
  (exists x y, nth_error l n = Some x /\ f x = Some y /\ nth_error l' n = Some y) /\
  (forall k, k <> n -> nth_error l' k = nth_error l k).
Proof.
  revert n l'; induction l as [|a r IH]; intros [|n] l' H; cbn in *; try discriminate.
  - destruct (f a) eqn:Fa; cbn in H; [|discriminate]. inversion H; subst; cbn.
    split; [reflexivity|]. split; [eauto|]. intros [|k] Hk; [congruence|reflexivity].
  - destruct (upd_nth r n f) eqn:E; cbn in H; [|discriminate]. inversion H; subst; cbn.
    destruct (IH _ _ E) as (L & (x & y & X & Y & Z) & O).
    split; [lia|]. split; [eauto|]. intros [|k] Hk; [reflexivity|]. cbn. apply O. lia.
Qed.

Lemma upd_nth_None_oob {A} (l : list A) n f : length l <= n -> upd_nth l n f = None.
Proof.
  revert n; induction l as [|a r IH]; intros [|n] H; cbn in *; try reflexivity; try lia.
  rewrite IH by lia. reflexivity.
Qed.

Lemma upd_nth_same {A} (l : list A) n f x :
  nth_error l n = Some x -> f x = Some x -> upd_nth l n f = Some l.
Proof.
  revert n; induction l as [|a r IH]; intros [|n] Hn Hf; cbn in *; try discriminate.
  - inversion Hn; subst. rewrite Hf. reflexivity.
  - rewrite (IH _ Hn Hf). reflexivity.
Qed.

Lemma list_eq_nth_error {A} (l1 l2 : list A) :
  (forall k, nth_error l1 k = nth_error l2 k) -> l1 = l2.
Proof.
  revert l2; induction l1 as [|a r IH]; intros [|b l2] H.
  - reflexivity.
  - specialize (H 0); discriminate.
  - specialize (H 0); discriminate.
  - f_equal. + specialize (H 0); cbn in H; congruence. + apply IH. intros k. exact (H (S k)).
Qed.

(** ---- slice_rows ---- *)
Lemma nth_error_firstn_lt {A} (l : list A) n j : j < n -> nth_error (firstn n l) j = nth_error l j.
Proof.
  revert n j; induction l as [|a r IH]; intros [|n] [|j] H; cbn; try reflexivity; try lia.
  apply IH. lia.
Qed.

Lemma nth_error_skipn_add {A} (l : list A) n j : nth_error (skipn n l) j = nth_error l (n + j).
Proof.
  revert l; induction n as [|n IH]; intros l; cbn; [reflexivity|].
  destruct l; cbn; [destruct j; reflexivity|]. apply IH.
Qed.

Lemma skipn_nth_cons {A} (l : list A) n a : nth_error l n = Some a -> skipn n l = a :: skipn (S n) l.
Proof.
  revert l; induction n as [|n IH]; intros [|b l] H; cbn in *; try discriminate.
  - inversion H; reflexivity.
  - apply IH. exact H.
Qed.
Lemma nth_error_slice_rows {A} start count (tbl : list A) j :
  j < count -> nth_error (slice_rows start count tbl) j = nth_error tbl (start + j).
Proof.
  intros Hj. unfold slice_rows.
  rewrite nth_error_firstn_lt by exact Hj. apply nth_error_skipn_add.
Qed.

Lemma nth_error_slice_rows_ge {A} start count (tbl : list A) j :
  count <= j -> nth_error (slice_rows start count tbl) j = None.
Proof.
  intros Hj. unfold slice_rows. apply nth_error_None. rewrite firstn_length. lia.
Qed.

Lemma length_slice_rows {A} start count (tbl : list A) :
  start + count <= length tbl -> length (slice_rows start count tbl) = count.
Proof. intros H. unfold slice_rows. rewrite firstn_length, skipn_length. lia. Qed.

Lemma slice_rows_app_exact {A} (l1 l2 : list A) :
  slice_rows (length l1) (length l2) (l1 ++ l2) = l2.
Proof.
  unfold slice_rows. rewrite skipn_app, skipn_all, Nat.sub_diag. cbn. apply firstn_all.
Qed.

Lemma slice_rows_app_l {A} start count (l1 l2 : list A) :
  start + count <= length l1 -> slice_rows start count (l1 ++ l2) = slice_rows start count l1.
Proof.
  intros H. unfold slice_rows. rewrite skipn_app, firstn_app, skipn_length.
  replace (count - (length l1 - start)) with 0 by lia. cbn. rewrite app_nil_r. reflexivity.
Qed.

Lemma slice_rows_0 {A} start (tbl : list A) : slice_rows start 0 tbl = [].
Proof. reflexivity. Qed.

(** mapM over the rows of a slice *)
Lemma mapM_nth_error_seq {A} (tbl : list A) start count :
  start + count <= length tbl ->
  mapM (nth_error tbl) (seq start count) = Some (slice_rows start count tbl).
Proof.
  revert start; induction count as [|c IH]; intros start H; cbn; [reflexivity|].
  destruct (nth_error tbl start) eqn:E.
  2:{ apply nth_error_None in E. lia. }
  cbn. rewrite IH by lia. cbn. f_equal.
  unfold slice_rows.
  rewrite (skipn_nth_cons tbl start a E). reflexivity.
Qed.

Lemma mapM_In {A B} (f : A -> option B) l ys :
  mapM f l = Some ys -> forall y, In y ys -> exists x, In x l /\ f x = Some y.
Proof.
  revert ys; induction l as [|a r IH]; cbn; intros ys H y Hy.
  - inversion H; subst. contradiction.
  - destruct (f a) eqn:Fa; cbn in H; [|discriminate]. destruct (mapM f r) eqn:Mr; cbn in H; [|discriminate].
    inversion H; subst. destruct Hy as [<-|Hy]; [eauto|].
    destruct (IH _ eq_refl _ Hy) as (x & Hx & Fx). eauto.
Qed.

Lemma upd_nth_ext {A} (l : list A) n f g :
  (forall x, f x = g x) -> upd_nth l n f = upd_nth l n g.
Proof.
  intros H. revert n; induction l as [|a r IH]; intros [|n]; cbn; try reflexivity.
  - rewrite H. reflexivity.
  - rewrite IH. reflexivity.
Qed.

(** post-processing that changes nothing *)
Lemma mapM_bind_id {A B} (f : A -> option B) (h : A -> B -> option B) l :
  (forall r x, In r l -> h r x = Some x) ->
  mapM (fun r => x <- f r ;; h r x) l = mapM f l.
Proof.
  intros H. apply mapM_ext. intros r Hr. destruct (f r); cbn; [apply H; exact Hr|reflexivity].
Qed.

(** post-processing that changes exactly one position *)
Lemma mapM_bind_one {A B} (f : A -> option B) (h : A -> B -> option B) l j r0 ys :
  NoDup l -> nth_error l j = Some r0 ->
  (forall r x, In r l -> r <> r0 -> h r x = Some x) ->
  mapM f l = Some ys ->
  mapM (fun r => x <- f r ;; h r x) l = upd_nth ys j (h r0).
Proof.
  revert j ys; induction l as [|a r IH]; intros j ys ND Hj Hh Hm; [destruct j; discriminate|].
  cbn in Hm. destruct (f a) eqn:Fa; cbn in Hm; [|discriminate].
  destruct (mapM f r) as [ys0|] eqn:Mr; cbn in Hm; [|discriminate]. inversion Hm; subst.
  inversion ND; subst. cbn. rewrite Fa. cbn.
  destruct j as [|j]; cbn in Hj |- *.
  - inversion Hj; subst. destruct (h r0 b); cbn; [|reflexivity].
    rewrite mapM_bind_id.
    + rewrite Mr. reflexivity.
    + intros r1 x Hr1. apply Hh; [right; exact Hr1|]. intros ->. contradiction.
  - rewrite Hh; [|left; reflexivity|].
    2:{ intros ->. apply H1. eapply nth_error_In; eauto. }
    cbn. rewrite (IH j ys0 H2 Hj); [reflexivity| |reflexivity].
    intros r1 x Hr1 Hne. apply Hh; [right; exact Hr1|exact Hne].
Qed.

Lemma map_nth_seq {A} (l : list A) (dflt : A) : map (fun j => nth j l dflt) (seq 0 (length l)) = l.
Proof.
  induction l as [|a r IH]; cbn; [reflexivity|]. f_equal.
  rewrite <- seq_shift, map_map. exact IH.
Qed.

Lemma nth_error_seq start len j : j < len -> nth_error (seq start len) j = Some (start + j).
Proof.
  revert start j; induction len as [|n IH]; intros start [|j] H; cbn; try lia.
  - f_equal. lia.
  - rewrite IH by lia. f_equal. lia.
Qed.

Lemma seq_as_map start len : seq start len = map (Nat.add start) (seq 0 len).
Proof.
  revert start; induction len as [|n IH]; intros start; cbn; [reflexivity|].
  f_equal; [lia|]. rewrite (IH (S start)). rewrite <- (seq_shift n 0), map_map.
  apply map_ext. intros; lia.
Qed.

Lemma obind_assoc {A B C} (o : option A) (f : A -> option B) (g : B -> option C) :
  obind (obind o f) g = obind o (fun a => obind (f a) g).
Proof. destruct o; reflexivity. Qed.

(** ---- write_rows ---- *)
Lemma write_rows_here {A} (rows : list A) (k : nat) :
  write_rows (repeat None (length rows + k)) 0 rows = Some (map Some rows ++ repeat None k).
Proof.
  induction rows as [|y ys IH]; cbn [length Nat.add map app].
  - destruct (repeat None k); reflexivity.
  - cbn [repeat write_rows]. rewrite IH. reflexivity.
Qed.

Lemma write_rows_spec {A} (pre : list (option A)) (rows : list A) (k : nat) :
  write_rows (pre ++ repeat None (length rows + k)) (length pre) rows =
  Some (pre ++ map Some rows ++ repeat None k).
Proof.
  induction pre as [|x pre IH]; cbn [length app].
  - apply write_rows_here.
  - cbn [write_rows]. rewrite IH. reflexivity.
Qed.

Lemma firstn_add_skipn {A} (l : list A) a c : firstn (a + c) l = firstn a l ++ firstn c (skipn a l).
Proof.
  revert l; induction a as [|a IH]; intros l; cbn; [reflexivity|].
  destruct l as [|x l]; cbn.
  - rewrite firstn_nil. reflexivity.
  - rewrite IH. reflexivity.
Qed.
