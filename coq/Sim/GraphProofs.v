(** Consequences of [valid_graph] used by the simulation proofs. *)
From Coq Require Import List Arith Bool Lia.
From OW Require Import Sim.SimAux Sim.SimAuxProofs Sim.Graph.
Import ListNotations.



Lemma sorted_nat_cons_Forall x r : sorted_nat (x :: r) = true -> Forall (fun y => x <= y) r /\ sorted_nat r = true.
Proof.
  revert x; induction r as [|y r IH]; intros x H.
  - split; [constructor|reflexivity].
  - cbn in H. apply andb_true_iff in H. destruct H as [Hxy Hs].
    apply Nat.leb_le in Hxy. split; [|exact Hs].
    constructor; [exact Hxy|].
    destruct (IH _ Hs) as [Hf _].
    eapply Forall_impl; [|exact Hf]. cbn. intros; lia.
Qed.

Lemma sorted_nat_nth l : sorted_nat l = true ->
  forall i j, i <= j -> j < length l -> nth i l 0 <= nth j l 0.
Proof.
  induction l as [|x r IH]; intros Hs i j Hij Hj; [cbn in Hj; lia|].
  destruct (sorted_nat_cons_Forall _ _ Hs) as [Hf Hr].
  destruct i, j; cbn in *; try lia.
  - rewrite Forall_forall in Hf. apply Hf. apply nth_In. lia.
  - apply IH; auto; lia.
Qed.

Lemma sorted_nat_app_r l1 l2 : sorted_nat (l1 ++ l2) = true -> sorted_nat l2 = true.
Proof.
  induction l1 as [|x r IH]; intros H; [exact H|].
  apply IH. apply (sorted_nat_cons_Forall x (r ++ l2)). exact H.
Qed.

Lemma last_is_nth (l : list nat) : last l 0 = nth (length l - 1) l 0.
Proof.
  induction l as [|x r IH]; [reflexivity|].
  destruct r as [|y r']; [reflexivity|].
  change (last (x :: y :: r') 0) with (last (y :: r') 0). rewrite IH.
  cbn [length]. replace (S (S (length r')) - 1) with (S (length r')) by lia.
  replace (S (length r') - 1) with (length r') by lia. reflexivity.
Qed.

Section Valid.
  Variables name T Ser : Type.
  Variable cat : catalogue name.
  Variable name_eqb : name -> name -> bool.
  Variable gr : graph name T Ser.
  Hypothesis Hvalid : valid_graph cat name_eqb gr = true.

  Local Notation G := (n_gens gr).
  Local Notation M := (g_models gr).

  Lemma valid_parts :
    (1 <=? G) = true /\ forallb (valid_model cat G) M = true /\
    distinct_names name_eqb (map (@md_name _ _ _) M) = true /\
    same_lengths (input_lengths gr) = true /\
    sorted_nat (map l_src_gen (g_links gr)) = true /\
    forallb (valid_link cat gr G) (g_links gr) = true.
  Proof.
    pose proof Hvalid as H. unfold valid_graph in H.
    repeat (apply andb_true_iff in H; destruct H as [H ?]). tauto.
  Qed.

  Lemma valid_G : 1 <= G.
  Proof. apply Nat.leb_le. apply valid_parts. Qed.

  Lemma valid_model_of md : In md M -> valid_model cat G md = true.
  Proof.
    intros Hin. destruct valid_parts as (_ & H & _). rewrite forallb_forall in H. auto.
  Qed.

  Lemma valid_link_of l : In l (g_links gr) -> valid_link cat gr G l = true.
  Proof.
    intros Hin. destruct valid_parts as (_ & _ & _ & _ & _ & H). rewrite forallb_forall in H. auto.
  Qed.

  Lemma valid_links_sorted : sorted_nat (map l_src_gen (g_links gr)) = true.
  Proof. apply valid_parts. Qed.

  Lemma valid_same_lengths : same_lengths (input_lengths gr) = true.
  Proof. apply valid_parts. Qed.

  Section Model.
    Variable md : model_data name T Ser.
    Hypothesis Hmd : In md M.

    Lemma vm_known : cat_known cat (md_name md) = true.
    Proof.
      pose proof (valid_model_of md Hmd) as H. unfold valid_model in H.
      repeat (apply andb_true_iff in H; destruct H as [H ?]). exact H.
    Qed.

    Lemma vm_len : length (md_batches md) = G.
    Proof.
      pose proof (valid_model_of md Hmd) as H. unfold valid_model in H.
      repeat (apply andb_true_iff in H; destruct H as [H ?]). apply Nat.eqb_eq. assumption.
    Qed.

    Lemma vm_sorted : sorted_nat (md_batches md) = true.
    Proof.
      pose proof (valid_model_of md Hmd) as H. unfold valid_model in H.
      repeat (apply andb_true_iff in H; destruct H as [H ?]). assumption.
    Qed.

    Lemma vm_params : length (md_params md) = m_total md.
    Proof.
      pose proof (valid_model_of md Hmd) as H. unfold valid_model in H.
      repeat (apply andb_true_iff in H; destruct H as [H ?]). apply Nat.eqb_eq. assumption.
    Qed.

    Lemma vm_states : length (md_states md) = m_total md.
    Proof.
      pose proof (valid_model_of md Hmd) as H. unfold valid_model in H.
      repeat (apply andb_true_iff in H; destruct H as [H ?]). apply Nat.eqb_eq. assumption.
    Qed.

    Lemma vm_inputs t tbl : md_inputs md = Some (t, tbl) ->
      length tbl = m_total md /\ Forall (fun row => length row = cat_nin cat (md_name md)) tbl.
    Proof.
      intros E. pose proof (valid_model_of md Hmd) as H. unfold valid_model in H.
      repeat (apply andb_true_iff in H; destruct H as [H ?]). rewrite E in H0.
      apply andb_true_iff in H0. destruct H0 as [H0 H5]. split.
      - apply Nat.eqb_eq. exact H0.
      - rewrite forallb_forall in H5. apply Forall_forall. intros row Hr. apply Nat.eqb_eq. auto.
    Qed.

    Lemma m_start_S g : m_start md (S g) = m_stop md g.
    Proof. reflexivity. Qed.

    Lemma m_start_mono g g' : g <= g' -> g' <= G -> m_start md g <= m_start md g'.
    Proof.
      intros Hgg HG. destruct g as [|g]; [cbn; lia|]. destruct g' as [|g']; [lia|].
      cbn. apply sorted_nat_nth; [apply vm_sorted|lia|rewrite vm_len; lia].
    Qed.

    Lemma m_start_le_stop g : g < G -> m_start md g <= m_stop md g.
    Proof. intros H. rewrite <- m_start_S. apply m_start_mono; lia. Qed.

    Lemma m_count_add g : g < G -> m_start md g + m_count md g = m_stop md g.
    Proof. intros H. unfold m_count. pose proof (m_start_le_stop g H). lia. Qed.

    Lemma m_total_start : m_total md = m_start md G.
    Proof.
      pose proof valid_G as HG. pose proof vm_len as HL. unfold m_total.
      rewrite last_is_nth, HL.
      destruct G as [|g]; [lia|]. cbn. replace (g - 0) with g by lia. reflexivity.
    Qed.

    Lemma m_stop_le_total g : g < G -> m_stop md g <= m_total md.
    Proof. intros H. rewrite m_total_start, <- m_start_S. apply m_start_mono; lia. Qed.

    (** the row intervals of different generations are disjoint *)
    Lemma gen_of_row_unique g g' row : g < G -> g' < G ->
      m_start md g <= row < m_stop md g -> m_start md g' <= row < m_stop md g' -> g = g'.
    Proof.
      intros Hg Hg' H1 H2.
      destruct (Nat.lt_trichotomy g g') as [L|[E|L]]; [|exact E|].
      - assert (m_stop md g <= m_start md g') by (rewrite <- m_start_S; apply m_start_mono; lia). lia.
      - assert (m_stop md g' <= m_start md g) by (rewrite <- m_start_S; apply m_start_mono; lia). lia.
    Qed.
  End Model.

  (** a valid link, as propositions *)
  Lemma valid_link_props l : In l (g_links gr) ->
    exists ms md, nth_error M (l_src_model l) = Some ms /\ nth_error M (l_dest_model l) = Some md /\
      l_src_gen l < l_dest_gen l /\ l_dest_gen l < G /\
      l_src_gen_node l < m_count ms (l_src_gen l) /\
      l_src_node l = m_start ms (l_src_gen l) + l_src_gen_node l /\
      l_src_var l < cat_nout cat (md_name ms) /\
      l_dest_gen_node l < m_count md (l_dest_gen l) /\
      l_dest_node l = m_start md (l_dest_gen l) + l_dest_gen_node l /\
      l_dest_var l < cat_nin cat (md_name md).
  Proof.
    intros Hin. pose proof (valid_link_of l Hin) as H. unfold valid_link in H.
    destruct (nth_error M (l_src_model l)) as [ms|]; [|discriminate].
    destruct (nth_error M (l_dest_model l)) as [md|]; [|discriminate].
    exists ms, md.
    repeat (apply andb_true_iff in H; destruct H as [H ?]).
    repeat match goal with
           | X : (_ <? _) = true |- _ => apply Nat.ltb_lt in X
           | X : (_ =? _) = true |- _ => apply Nat.eqb_eq in X
           end.
    repeat split; assumption.
  Qed.
End Valid.
