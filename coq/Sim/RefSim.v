(** The sequential reference semantics of a model graph (property C07).

    For g = 0 .. G-1, every node of generation g is run ALONE (a one-cell run of
    the kernel [K name]) with its own parameter column and initial-state row, on
    its stored input (zero series if the model has no stored inputs) plus the
    sum - in file order - of the outputs of all nodes linked to it.  The result
    of a node sits at the node's global row.  Nothing here mentions laziness,
    batching, writers, purging or link cursors. *)
From Coq Require Import List Arith Bool Lia.
From OW Require Import Sim.SimAux Sim.Graph.
Import ListNotations.

Set Implicit Arguments.

Section Ref.
  Variables name T Ser : Type.
  Variable s_zero : nat -> Ser.          (* zero series of a given length *)
  Variable s_add  : Ser -> Ser -> Ser.   (* data.AddToFloat64Array on two [1,1,T] slices *)
  Variable cat : catalogue name.
  (** the kernel family: one-cell run; [None] = the Go code panics *)
  Variable K : name -> list T -> list T -> list Ser -> option (list Ser * list T).
  Variable name_eqb : name -> name -> bool.

  Local Notation model_data := (model_data name T Ser).
  Local Notation graph := (graph name T Ser).

  (** what one node's run leaves behind *)
  Record node_result := {
    nr_in  : list Ser;    (* the input series it was run on (final inputs) *)
    nr_out : list Ser;    (* its output series *)
    nr_st  : list T       (* its final states *)
  }.

  (** results so far: per model, rows 0 .. (nodes of the generations done) *)
  Definition done_t := list (list node_result).

  Section WithGraph.
    Variable gr : graph.

    (** the series length of the file: the time dimension of the stored input
        datasets (they all agree in a valid file); 0 when nothing is stored *)
    Definition ref_T : nat := match input_lengths gr with [] => 0 | t :: _ => t end.

    Definition stored_input (md : model_data) (row : nat) : option (list Ser) :=
      match md_inputs md with
      | Some (_, tbl) => nth_error tbl row
      | None => Some (repeat (s_zero ref_T) (cat_nin cat (md_name md)))
      end.

    (** the series a link delivers: output [src_var] of node [src_node] of model [src_model] *)
    Definition contrib (d : done_t) (l : link) : option Ser :=
      rows <- nth_error d (l_src_model l) ;;
      nr <- nth_error rows (l_src_node l) ;;
      nth_error (nr_out nr) (l_src_var l).

    Definition add_at (a : list Ser) (v : nat) (s : Ser) : option (list Ser) :=
      upd_nth a v (fun x => Some (s_add x s)).

    Definition targets (l : link) (m row : nat) : bool :=
      (l_dest_model l =? m) && (l_dest_node l =? row).

    (** [init] + the contributions of the links of [ls] that point at node (m,row), in order *)
    Definition ref_input_from (d : done_t) (ls : list link) (m row : nat) (init : list Ser)
      : option (list Ser) :=
      foldM (fun acc l => if targets l m row
                          then s <- contrib d l ;; add_at acc (l_dest_var l) s
                          else Some acc) ls init.

    Definition ref_node (d : done_t) (m : nat) (md : model_data) (row : nat) : option node_result :=
      init <- stored_input md row ;;
      inp <- ref_input_from d (g_links gr) m row init ;;
      p <- nth_error (md_params md) row ;;
      s <- nth_error (md_states md) row ;;
      '(o, s') <- K (md_name md) p s inp ;;
      Some {| nr_in := inp; nr_out := o; nr_st := s' |}.

    (** one generation: every node of generation g of every model, alone *)
    Definition ref_gen (d : done_t) (g : nat) : option done_t :=
      mapM (fun '(m, md) =>
              dm <- nth_error d m ;;
              rows <- mapM (ref_node d m md) (seq (m_start md g) (m_count md g)) ;;
              Some (dm ++ rows))
           (indexed (g_models gr)).

    Definition done0 : done_t := map (fun _ => []) (g_models gr).

    Definition ref_run_upto (n : nat) : option done_t := foldM ref_gen (seq 0 n) done0.
    Definition ref_run : option done_t := ref_run_upto (n_gens gr).
  End WithGraph.

  (** ---- what has to be in the output file(s) ---- *)

  (** command-line output selection *)
  Record selection := {
    sel_outfile        : bool;         (* an output file was named (args[1]) *)
    sel_outputs_for    : list name;    (* -outputs-for a,b      ([] = flag absent / empty) *)
    sel_no_outputs_for : list name;    (* -no-outputs-for       *)
    sel_inputs_for     : list name;    (* -inputs-for           *)
    sel_no_inputs_for  : list name;    (* -no-inputs-for        *)
    sel_split          : list name     (* models named in -outputs model=file (external writer process) *)
  }.

  Definition mem_name (nm : name) (l : list name) : bool := existsb (name_eqb nm) l.

  (** explicitly included, else explicitly excluded, else the default *)
  Definition requested (nm : name) (incl excl : list name) (dflt : bool) : bool :=
    if mem_name nm incl then true else if mem_name nm excl then false else dflt.

  Definition want_outputs (sel : selection) (md : model_data) : bool :=
    requested (md_name md) (sel_outputs_for sel) (sel_no_outputs_for sel) true.
  (** final inputs: by default for the models that have no node in generation 0
      (everything else is driven by stored inputs only) *)
  Definition want_inputs (sel : selection) (md : model_data) : bool :=
    requested (md_name md) (sel_inputs_for sel) (sel_no_inputs_for sel) (m_stop md 0 =? 0).

  (** the three datasets /MODELS/<name>/{inputs,outputs,states} of the output
      file; [None] = the dataset does not exist; a row [None] = never written
      (still the NaN fill value) *)
  Record model_out := {
    mo_inputs  : option (list (option (list Ser)));
    mo_outputs : option (list (option (list Ser)));
    mo_states  : option (list (option (list T)))
  }.
  Definition out_file := list model_out.

  Definition no_out : model_out := {| mo_inputs := None; mo_outputs := None; mo_states := None |}.

  Definition ref_model_out (sel : selection) (md : model_data) (dm : list node_result) : model_out :=
    if negb (sel_outfile sel) || (m_total md =? 0) then no_out else
    {| mo_inputs  := if want_inputs sel md then Some (map (fun nr => Some (nr_in nr)) dm) else None;
       mo_outputs := if want_outputs sel md then Some (map (fun nr => Some (nr_out nr)) dm) else None;
       mo_states  := Some (map (fun nr => Some (nr_st nr)) dm) |}.

  Definition ref_file (gr : graph) (sel : selection) (d : done_t) : out_file :=
    map (fun '(md, dm) => ref_model_out sel md dm) (combine (g_models gr) d).

  Definition ref_sim (gr : graph) (sel : selection) : option out_file :=
    d <- ref_run gr ;; Some (ref_file gr sel d).

End Ref.
