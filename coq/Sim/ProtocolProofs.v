(** Invariants of the goroutine / channel protocol LTS of Protocol.v:
    write order, token uniqueness, purge safety, completion at exit, deadlock
    freedom, and the link to the legal schedules of Sched.v. *)
From Coq Require Import List Arith Bool Lia.
From OW Require Import Sim.SimAux Sim.ImplSim Sim.Protocol Sim.Sched.
Import ListNotations.

(** * Generic helpers *)

Lemma foldM_app {A B} (f : A -> B -> option A) (l1 l2 : list B) (a : A) :
  foldM f (l1 ++ l2) a = obind (foldM f l1 a) (fun a' => foldM f l2 a').
Proof.
  revert a; induction l1 as [|x l1 IH]; simpl; intros a; auto.
  destruct (f a x); simpl; auto.
Qed.

Lemma foldM_snoc {A B} (f : A -> B -> option A) (l : list B) (x : B) (a : A) :
  foldM f (l ++ [x]) a = obind (foldM f l a) (fun a' => f a' x).
Proof.
  rewrite foldM_app. destruct (foldM f l a) as [a'|]; simpl; auto.
  destruct (f a' x); auto.
Qed.

Lemma seq_snoc (k : nat) : seq 0 k ++ [k] = seq 0 (S k).
Proof. rewrite seq_S. reflexivity. Qed.

(** * [set_writer] *)

Lemma set_writer_spec ws g ph ws' :
  set_writer ws g ph = Some ws' ->
  g < length ws /\ length ws' = length ws /\ nth_error ws' g = Some ph /\
  (forall g', g' <> g -> nth_error ws' g' = nth_error ws g').
Proof.
  unfold set_writer. revert g ws'.
  induction ws as [|a r IH]; intros g ws' H; simpl in H.
  - discriminate.
  - destruct g as [|g].
    + simpl in H. inversion H; subst. simpl.
      split; [lia|]. split; [reflexivity|]. split; [reflexivity|].
      intros [|g'] Hg; [lia|reflexivity].
    + destruct (upd_nth r g (fun _ => Some ph)) as [r'|] eqn:E; simpl in H; [|discriminate].
      inversion H; subst. destruct (IH _ _ E) as (H1 & H2 & H3 & H4).
      simpl. split; [lia|]. split; [lia|]. split; [exact H3|].
      intros [|g'] Hg; simpl; auto.
Qed.

Lemma set_writer_ex ws g ph :
  g < length ws -> exists ws', set_writer ws g ph = Some ws'.
Proof.
  unfold set_writer. revert g.
  induction ws as [|a r IH]; intros g H; simpl in H.
  - lia.
  - destruct g as [|g]; simpl.
    + eexists; reflexivity.
    + destruct (IH g) as [r' Hr]; [lia|]. rewrite Hr. simpl. eexists; reflexivity.
Qed.

Lemma set_writer_nth ws g ph ws' g' ph' :
  set_writer ws g ph = Some ws' ->
  nth_error ws' g' = Some ph' ->
  (g' = g /\ ph' = ph) \/ (g' <> g /\ nth_error ws g' = Some ph').
Proof.
  intros H Hn. destruct (set_writer_spec _ _ _ _ H) as (_ & _ & H3 & H4).
  destruct (Nat.eq_dec g' g) as [->|Hne].
  - left. rewrite H3 in Hn. inversion Hn; auto.
  - right. rewrite (H4 _ Hne) in Hn. auto.
Qed.

(** * counting token holders among the writers *)

Definition b2n (b : bool) : nat := if b then 1 else 0.
Definition hcount (ws : list wphase) : nat := length (filter holds_token_w ws).

Lemma holders_eq s : holders s = hcount (p_writers s) + b2n (holds_token_m (p_main s)).
Proof. reflexivity. Qed.

Lemma hcount_cons a r : hcount (a :: r) = b2n (holds_token_w a) + hcount r.
Proof. unfold hcount. simpl. destruct (holds_token_w a); reflexivity. Qed.

Lemma hcount_app l1 l2 : hcount (l1 ++ l2) = hcount l1 + hcount l2.
Proof. unfold hcount. rewrite filter_app, app_length. reflexivity. Qed.

Lemma hcount_set ws g old new ws' :
  set_writer ws g new = Some ws' ->
  nth_error ws g = Some old ->
  hcount ws' + b2n (holds_token_w old) = hcount ws + b2n (holds_token_w new).
Proof.
  unfold set_writer. revert g ws'.
  induction ws as [|a r IH]; intros g ws' H Hn; simpl in H.
  - discriminate.
  - destruct g as [|g].
    + simpl in H, Hn. inversion H; inversion Hn; subst.
      rewrite !hcount_cons. lia.
    + destruct (upd_nth r g (fun _ => Some new)) as [r'|] eqn:E; simpl in H; [|discriminate].
      inversion H; subst. simpl in Hn. specialize (IH _ _ E Hn).
      rewrite !hcount_cons. lia.
Qed.

Lemma hcount_ge_nth ws g ph :
  nth_error ws g = Some ph -> holds_token_w ph = true -> 1 <= hcount ws.
Proof.
  revert g. induction ws as [|a r IH]; intros [|g] Hn Hh; simpl in Hn; try discriminate.
  - inversion Hn; subst. rewrite hcount_cons, Hh. simpl. lia.
  - rewrite hcount_cons. specialize (IH _ Hn Hh). lia.
Qed.

Lemma hcount_zero_nth ws g ph :
  hcount ws = 0 -> nth_error ws g = Some ph -> holds_token_w ph = false.
Proof.
  intros H0 Hn. destruct (holds_token_w ph) eqn:E; auto.
  pose proof (hcount_ge_nth _ _ _ Hn E). lia.
Qed.

Lemma hcount_unique ws g ph g' ph' :
  hcount ws <= 1 ->
  nth_error ws g = Some ph -> holds_token_w ph = true ->
  g' <> g -> nth_error ws g' = Some ph' -> holds_token_w ph' = false.
Proof.
  revert g g'. induction ws as [|a r IH]; intros g g' Hc Hn Hh Hne Hn'.
  - destruct g; discriminate.
  - rewrite hcount_cons in Hc. destruct g as [|g], g' as [|g']; simpl in Hn, Hn'.
    + lia.
    + inversion Hn; subst. rewrite Hh in Hc. simpl in Hc.
      eapply hcount_zero_nth; eauto. lia.
    + inversion Hn'; subst. pose proof (hcount_ge_nth _ _ _ Hn Hh).
      destruct (holds_token_w ph'); auto. simpl in Hc. lia.
    + eapply (IH g g'); eauto; lia.
Qed.

Lemma hcount_ex ws :
  1 <= hcount ws -> exists g ph, nth_error ws g = Some ph /\ holds_token_w ph = true.
Proof.
  induction ws as [|a r IH]; intros H.
  - unfold hcount in H. simpl in H. lia.
  - rewrite hcount_cons in H. destruct (holds_token_w a) eqn:E.
    + exists 0, a. simpl. auto.
    + simpl in H. destruct (IH H) as (g & ph & Hn & Hh). exists (S g), ph. simpl. auto.
Qed.

(** * [find_wsender] *)

Definition is_sender_of (g t : nat) (ph : wphase) : Prop :=
  (ph = WSend /\ g = t) \/ ph = WPut t.

Lemma find_wsender_some ws k t g :
  find_wsender ws k t = Some g ->
  k <= g /\ exists ph, nth_error ws (g - k) = Some ph /\ is_sender_of g t ph.
Proof.
  revert k. induction ws as [|a r IH]; intros k H; simpl in H.
  - discriminate.
  - assert (Hrec : find_wsender r (S k) t = Some g ->
                   k <= g /\ exists ph, nth_error (a :: r) (g - k) = Some ph /\ is_sender_of g t ph).
    { intros H'. destruct (IH _ H') as (Hle & ph & Hn & Hs). split; [lia|].
      exists ph. split; auto. replace (g - k) with (S (g - S k)) by lia. exact Hn. }
    destruct a; auto.
    + destruct (Nat.eqb_spec t0 t); auto. inversion H; subst. split; [lia|].
      exists (WPut t). rewrite Nat.sub_diag. simpl. split; auto. right; auto.
    + destruct (Nat.eqb_spec k t); auto. inversion H; subst. split; [lia|].
      exists WSend. rewrite Nat.sub_diag. simpl. split; auto. left; auto.
Qed.

Lemma find_wsender_ex ws k t j ph :
  nth_error ws j = Some ph -> is_sender_of (k + j) t ph ->
  exists g, find_wsender ws k t = Some g.
Proof.
  revert k j. induction ws as [|a r IH]; intros k j Hn Hs.
  - destruct j; discriminate.
  - destruct j as [|j]; simpl in Hn.
    + inversion Hn; subst. rewrite Nat.add_0_r in Hs. destruct Hs as [[-> ->]| ->]; simpl.
      * rewrite Nat.eqb_refl. eauto.
      * rewrite Nat.eqb_refl. eauto.
    + assert (Hr : exists g, find_wsender r (S k) t = Some g).
      { apply (IH (S k) j Hn). replace (S k + j) with (k + S j) by lia. exact Hs. }
      simpl. destruct a; auto.
      * destruct (t0 =? t); eauto.
      * destruct (k =? t); eauto.
Qed.

Lemma find_wsender0_some ws t g :
  find_wsender ws 0 t = Some g ->
  exists ph, nth_error ws g = Some ph /\ is_sender_of g t ph.
Proof.
  intros H. destruct (find_wsender_some _ _ _ _ H) as (_ & ph & Hn & Hs).
  rewrite Nat.sub_0_r in Hn. eauto.
Qed.

(** * Inversion of [pnext], label by label *)

Definition sender_phase' (ph : wphase) : wphase :=
  match ph with WSend => WDone | _ => WRecv end.

Lemma sender_done_writer_inv s g s1 :
  sender_done s (SWriter g) = Some s1 ->
  exists ph ws1, nth_error (p_writers s) g = Some ph /\
    set_writer (p_writers s) g (sender_phase' ph) = Some ws1 /\
    s1 = {| p_main := p_main s; p_writers := ws1; p_written := p_written s |}.
Proof.
  unfold sender_done. intros H.
  destruct (nth_error (p_writers s) g) as [ph|] eqn:E; simpl in H; [|discriminate].
  fold (sender_phase' ph) in H.
  destruct (set_writer (p_writers s) g (sender_phase' ph)) as [ws1|] eqn:E1; simpl in H; [|discriminate].
  inversion H; subst. eauto.
Qed.

Lemma sender_done_writer_ex s g ph :
  nth_error (p_writers s) g = Some ph ->
  exists ws1, set_writer (p_writers s) g (sender_phase' ph) = Some ws1 /\
    sender_done s (SWriter g) =
      Some {| p_main := p_main s; p_writers := ws1; p_written := p_written s |}.
Proof.
  intros Hn. assert (Hlt : g < length (p_writers s)).
  { apply nth_error_Some. rewrite Hn. discriminate. }
  destruct (set_writer_ex (p_writers s) g (sender_phase' ph) Hlt) as [ws1 Hs].
  exists ws1. split; auto. unfold sender_done. rewrite Hn. simpl.
  fold (sender_phase' ph). rewrite Hs. reflexivity.
Qed.

(** the two shapes of a completed send of [t] *)
Inductive send_of (s : pstate) (t : nat) : pstate -> Prop :=
| send_writer g ph ws1 :
    nth_error (p_writers s) g = Some ph -> is_sender_of g t ph ->
    set_writer (p_writers s) g (sender_phase' ph) = Some ws1 ->
    send_of s t {| p_main := p_main s; p_writers := ws1; p_written := p_written s |}
| send_main :
    p_main s = MPut t ->
    send_of s t {| p_main := MWait; p_writers := p_writers s; p_written := p_written s |}.

Lemma find_sender_inv s t sd s1 :
  find_sender s t = Some sd -> sender_done s sd = Some s1 -> send_of s t s1.
Proof.
  unfold find_sender. intros Hf Hd.
  destruct (find_wsender (p_writers s) 0 t) as [g|] eqn:E.
  - inversion Hf; subst.
    destruct (find_wsender0_some _ _ _ E) as (ph & Hn & Hs).
    destruct (sender_done_writer_inv _ _ _ Hd) as (ph' & ws1 & Hn' & Hset & ->).
    rewrite Hn in Hn'. inversion Hn'; subst. eapply send_writer; eauto.
  - destruct (p_main s) eqn:Em; try discriminate.
    destruct (Nat.eqb_spec t0 t); [|discriminate]. inversion Hf; subst.
    simpl in Hd. inversion Hd; subst. apply send_main. exact Em.
Qed.

Section Inversion.
  Variable G : nat.
  Variable outp : bool.

  Lemma pnext_LRun s i s' :
    pnext G outp s (LRun i) = Some s' ->
    p_main s = MRun i /\
    s' = {| p_main := if outp then MSpawn i else MLinks i;
            p_writers := p_writers s; p_written := p_written s |}.
  Proof.
    unfold pnext. destruct (p_main s); try discriminate.
    destruct (Nat.eqb_spec i i0); [|discriminate]. intros H; inversion H; subst. auto.
  Qed.

  Lemma pnext_LSpawn s i s' :
    pnext G outp s (LSpawn i) = Some s' ->
    p_main s = MSpawn i /\ i = length (p_writers s) /\
    s' = {| p_main := MLinks i;
            p_writers := p_writers s ++ [match i with 0 => WWrite | _ => WRecv end];
            p_written := p_written s |}.
  Proof.
    unfold pnext. destruct (p_main s); try discriminate.
    destruct (Nat.eqb_spec i i0); cbn [obind]; [|discriminate].
    destruct (Nat.eqb_spec i (length (p_writers s))); [|discriminate].
    intros H; inversion H; subst. auto.
  Qed.

  Lemma pnext_LLinkOne s i s' :
    pnext G outp s (LLinkOne i) = Some s' -> p_main s = MLinks i /\ s' = s.
  Proof.
    unfold pnext. destruct (p_main s); try discriminate.
    destruct (Nat.eqb_spec i i0); [|discriminate]. intros H; inversion H; subst. auto.
  Qed.

  Lemma pnext_LLinks s i s' :
    pnext G outp s (LLinks i) = Some s' ->
    p_main s = MLinks i /\
    s' = {| p_main := loop_head G outp (S i);
            p_writers := p_writers s; p_written := p_written s |}.
  Proof.
    unfold pnext. destruct (p_main s); try discriminate.
    destruct (Nat.eqb_spec i i0); [|discriminate]. intros H; inversion H; subst. auto.
  Qed.

  Lemma pnext_LRecv s g t s' :
    pnext G outp s (LRecv g t) = Some s' ->
    nth_error (p_writers s) g = Some WRecv /\
    exists s1 ws', send_of s t s1 /\
      set_writer (p_writers s1) g (WGot t) = Some ws' /\
      s' = {| p_main := p_main s1; p_writers := ws'; p_written := p_written s1 |}.
  Proof.
    unfold pnext. destruct (nth_error (p_writers s) g) as [ph|] eqn:E; try discriminate.
    destruct ph; try discriminate.
    destruct (find_sender s t) as [sd|] eqn:Ef; cbn [obind]; [|discriminate].
    destruct (sender_done s sd) as [s1|] eqn:Ed; cbn [obind]; [|discriminate].
    destruct (set_writer (p_writers s1) g (WGot t)) as [ws'|] eqn:Es; cbn [obind]; [|discriminate].
    intros H; inversion H; subst. split; auto.
    exists s1, ws'. split; [eapply find_sender_inv; eauto|]. auto.
  Qed.

  Lemma pnext_LPurge s g t s' :
    pnext G outp s (LPurge g t) = Some s' ->
    nth_error (p_writers s) g = Some (WGot t) /\
    exists ws', set_writer (p_writers s) g (if S t =? g then WWrite else WPut t) = Some ws' /\
      s' = {| p_main := p_main s; p_writers := ws'; p_written := p_written s |}.
  Proof.
    unfold pnext. destruct (nth_error (p_writers s) g) as [ph|] eqn:E; try discriminate.
    destruct ph; try discriminate.
    destruct (Nat.eqb_spec t0 t); [|discriminate]. subst t0.
    destruct (set_writer (p_writers s) g (if S t =? g then WWrite else WPut t)) as [ws'|] eqn:Es;
      cbn [obind]; [|discriminate].
    intros H; inversion H; subst. eauto.
  Qed.

  Lemma pnext_LWrite s g s' :
    pnext G outp s (LWrite g) = Some s' ->
    nth_error (p_writers s) g = Some WWrite /\
    exists ws', set_writer (p_writers s) g WSend = Some ws' /\
      s' = {| p_main := p_main s; p_writers := ws'; p_written := p_written s ++ [g] |}.
  Proof.
    unfold pnext. destruct (nth_error (p_writers s) g) as [ph|] eqn:E; try discriminate.
    destruct ph; try discriminate.
    destruct (set_writer (p_writers s) g WSend) as [ws'|] eqn:Es; cbn [obind]; [|discriminate].
    intros H; inversion H; subst. eauto.
  Qed.

  Lemma pnext_LMainRecv s t s' :
    pnext G outp s (LMainRecv t) = Some s' ->
    p_main s = MWait /\
    exists g ph ws1, nth_error (p_writers s) g = Some ph /\ is_sender_of g t ph /\
      set_writer (p_writers s) g (sender_phase' ph) = Some ws1 /\
      s' = {| p_main := if S t =? G then MDone else MPut t;
              p_writers := ws1; p_written := p_written s |}.
  Proof.
    unfold pnext. destruct (p_main s) eqn:Em; try discriminate.
    destruct (find_wsender (p_writers s) 0 t) as [g|] eqn:Ef; [|discriminate].
    destruct (sender_done s (SWriter g)) as [s1|] eqn:Ed; cbn [obind]; [|discriminate].
    intros H; inversion H; subst. split; auto.
    destruct (find_wsender0_some _ _ _ Ef) as (ph & Hn & Hs).
    destruct (sender_done_writer_inv _ _ _ Ed) as (ph' & ws1 & Hn' & Hset & ->).
    rewrite Hn in Hn'. inversion Hn'; subst.
    exists g, ph', ws1. simpl. auto.
  Qed.

  Lemma pnext_LExit s s' :
    pnext G outp s LExit = Some s' ->
    p_main s = MDone /\
    s' = {| p_main := MExited; p_writers := p_writers s; p_written := p_written s |}.
  Proof.
    unfold pnext. destruct (p_main s); try discriminate. intros H; inversion H; subst. auto.
  Qed.

  (** induction over reachable states, from the right *)
  Lemma reachable_ind (P : pstate -> Prop) :
    P (pinit G outp) ->
    (forall s l s', reachable G outp s -> P s -> pnext G outp s l = Some s' -> P s') ->
    forall s, reachable G outp s -> P s.
  Proof.
    intros H0 Hstep s [ls Hls]. revert s Hls.
    induction ls as [|x ls IH] using rev_ind; intros s Hls.
    - simpl in Hls. inversion Hls; subst; auto.
    - unfold prun in Hls. rewrite foldM_snoc in Hls.
      destruct (foldM (pnext G outp) ls (pinit G outp)) as [s0|] eqn:E; simpl in Hls; [|discriminate].
      apply (Hstep s0 x s); [exists ls; exact E|apply IH; exact E|exact Hls].
  Qed.

  Lemma reachable_step s l s' :
    reachable G outp s -> pnext G outp s l = Some s' -> reachable G outp s'.
  Proof.
    intros [ls Hls] Hn. exists (ls ++ [l]). unfold prun in *.
    rewrite foldM_snoc, Hls. simpl. exact Hn.
  Qed.
End Inversion.

(** * The inductive invariant when an output file is written ([outp = true]) *)

Definition phase_ok (w g : nat) (ph : wphase) : Prop :=
  match ph with
  | WRecv => w <= g
  | WGot t => S t = w /\ w <= g
  | WPut t => S t = w /\ w < g
  | WWrite => g = w
  | WSend => S g = w
  | WDone => g < w
  end.

Definition phases_ok (w : nat) (ws : list wphase) : Prop :=
  forall g ph, nth_error ws g = Some ph -> phase_ok w g ph.

Definition main_ok (G n w : nat) (pc : main_pc) : Prop :=
  match pc with
  | MRun i => n = i /\ i < G
  | MSpawn i => n = i /\ i < G
  | MLinks i => n = S i /\ i < G
  | MWait => n = G
  | MPut t => n = G /\ S t = w /\ S t <> G
  | MDone | MExited => n = G /\ w = G
  end.

Record inv_t (G : nat) (s : pstate) : Prop := {
  it_written : p_written s = seq 0 (length (p_written s));
  it_wn : length (p_written s) <= length (p_writers s);
  it_nG : length (p_writers s) <= G;
  it_main : main_ok G (length (p_writers s)) (length (p_written s)) (p_main s);
  it_ph : phases_ok (length (p_written s)) (p_writers s);
  it_hold : holders s = if length (p_writers s) =? 0 then 0 else 1
}.

Lemma phases_ok_set w ws g ph ws' :
  phases_ok w ws -> set_writer ws g ph = Some ws' -> phase_ok w g ph -> phases_ok w ws'.
Proof.
  intros Hp Hs Hg g' ph' Hn.
  destruct (set_writer_nth _ _ _ _ _ _ Hs Hn) as [[-> ->]|[_ Hn']]; auto.
Qed.

Lemma set_writer_length ws g ph ws' :
  set_writer ws g ph = Some ws' -> length ws' = length ws.
Proof. intros H. apply set_writer_spec in H. tauto. Qed.

Lemma is_sender_holds g t ph : is_sender_of g t ph -> holds_token_w ph = true.
Proof. intros [[-> _]| ->]; reflexivity. Qed.

Lemma sender_phase'_holds ph : holds_token_w (sender_phase' ph) = false.
Proof. destruct ph; reflexivity. Qed.

Lemma sender_token w g t ph : is_sender_of g t ph -> phase_ok w g ph -> S t = w.
Proof. intros [[-> ->]| ->]; simpl; tauto. Qed.

Lemma sender_phase'_ok w g t ph :
  is_sender_of g t ph -> phase_ok w g ph -> phase_ok w g (sender_phase' ph).
Proof. intros [[-> ->]| ->]; simpl; lia. Qed.

Lemma inv_t_init G : inv_t G (pinit G true).
Proof.
  unfold pinit, loop_head, after_loop.
  constructor; simpl; try reflexivity; try lia.
  - destruct (Nat.ltb_spec 0 G); simpl; lia.
  - intros [|g] ph H; discriminate.
  - rewrite holders_eq. simpl. destruct (0 <? G); reflexivity.
Qed.

Lemma inv_t_LRun G s i s' :
  inv_t G s -> pnext G true s (LRun i) = Some s' -> inv_t G s'.
Proof.
  intros [Hw Hwn HnG Hm Hp Hh] H. apply pnext_LRun in H. destruct H as (Em & ->).
  rewrite Em in Hm. simpl in Hm.
  rewrite holders_eq, Em in Hh. simpl in Hh.
  constructor; simpl; auto.
Qed.

Lemma inv_t_LSpawn G s i s' :
  inv_t G s -> pnext G true s (LSpawn i) = Some s' -> inv_t G s'.
Proof.
  intros [Hw Hwn HnG Hm Hp Hh] H. apply pnext_LSpawn in H. destruct H as (Em & Hi & ->).
  rewrite Em in Hm. simpl in Hm. destruct Hm as [Hn HiG].
  rewrite holders_eq, Em in Hh. simpl in Hh.
  constructor; simpl; try rewrite app_length; simpl; auto; try lia.
  - intros g ph Hg. destruct (Nat.lt_ge_cases g (length (p_writers s))) as [Hlt|Hge].
    + rewrite nth_error_app1 in Hg by auto. auto.
    + rewrite nth_error_app2 in Hg by auto.
      destruct (g - length (p_writers s)) as [|k] eqn:E; simpl in Hg.
      * inversion Hg; subst ph. assert (g = i) by lia. subst g. destruct i; simpl; lia.
      * destruct k; discriminate.
  - rewrite holders_eq. simpl. rewrite hcount_app.
    destruct (Nat.eqb_spec (length (p_writers s) + 1) 0) as [E|_]; [lia|].
    rewrite Hn in Hh. unfold hcount at 2.
    destruct i as [|i']; simpl in *; lia.
Qed.

Lemma inv_t_LLinks G s i s' :
  inv_t G s -> pnext G true s (LLinks i) = Some s' -> inv_t G s'.
Proof.
  intros [Hw Hwn HnG Hm Hp Hh] H. apply pnext_LLinks in H. destruct H as (Em & ->).
  rewrite Em in Hm. simpl in Hm. destruct Hm as [Hn HiG].
  rewrite holders_eq, Em in Hh. simpl in Hh.
  unfold loop_head, after_loop.
  constructor; simpl; auto.
  - destruct (Nat.ltb_spec (S i) G); simpl; lia.
  - rewrite holders_eq. simpl. destruct (S i <? G); simpl; exact Hh.
Qed.

Lemma inv_t_LRecv G s g t s' :
  inv_t G s -> pnext G true s (LRecv g t) = Some s' -> inv_t G s'.
Proof.
  intros [Hw Hwn HnG Hm Hp Hh] H. apply pnext_LRecv in H.
  destruct H as (Hg & s1 & ws' & Hsend & Hset & ->).
  pose proof (Hp _ _ Hg) as Hokg. simpl in Hokg.
  rewrite holders_eq in Hh.
  destruct Hsend as [g' ph ws1 Hn' Hs Hset1 | Em]; simpl in *.
  - assert (Hne : g <> g').
    { intros ->. rewrite Hg in Hn'. inversion Hn'; subst ph.
      destruct Hs as [[? _]|?]; discriminate. }
    pose proof (Hp _ _ Hn') as Hokg'.
    pose proof (sender_token _ _ _ _ Hs Hokg') as Ht.
    pose proof (set_writer_length _ _ _ _ Hset1) as L1.
    pose proof (set_writer_length _ _ _ _ Hset) as L2.
    assert (Hg1 : nth_error ws1 g = Some WRecv).
    { destruct (set_writer_spec _ _ _ _ Hset1) as (_ & _ & _ & H4). rewrite H4; auto. }
    pose proof (hcount_set _ _ _ _ _ Hset1 Hn') as C1.
    pose proof (hcount_set _ _ _ _ _ Hset Hg1) as C2.
    rewrite (is_sender_holds _ _ _ Hs), sender_phase'_holds in C1. simpl in C1, C2.
    constructor; simpl; auto; try (rewrite L2, L1; auto).
    + eapply phases_ok_set; [|exact Hset|simpl; lia].
      eapply phases_ok_set; [exact Hp|exact Hset1|].
      eapply sender_phase'_ok; eauto.
    + rewrite holders_eq. simpl. lia.
  - rewrite Em in Hm, Hh. simpl in Hm, Hh. destruct Hm as (Hn & Ht & HtG).
    pose proof (set_writer_length _ _ _ _ Hset) as L2.
    pose proof (hcount_set _ _ _ _ _ Hset Hg) as C2. simpl in C2.
    constructor; simpl; auto; try (rewrite L2; auto).
    + eapply phases_ok_set; [exact Hp|exact Hset|simpl; lia].
    + rewrite holders_eq. simpl. lia.
Qed.

Lemma inv_t_LPurge G s g t s' :
  inv_t G s -> pnext G true s (LPurge g t) = Some s' -> inv_t G s'.
Proof.
  intros [Hw Hwn HnG Hm Hp Hh] H. apply pnext_LPurge in H.
  destruct H as (Hg & ws' & Hset & ->).
  pose proof (Hp _ _ Hg) as Hokg. simpl in Hokg.
  rewrite holders_eq in Hh.
  pose proof (set_writer_length _ _ _ _ Hset) as L.
  pose proof (hcount_set _ _ _ _ _ Hset Hg) as C.
  assert (Hh' : holds_token_w (if S t =? g then WWrite else WPut t) = true)
    by (destruct (S t =? g); reflexivity).
  rewrite Hh' in C. simpl in C.
  constructor; simpl; auto; try (rewrite L; auto).
  - eapply phases_ok_set; [exact Hp|exact Hset|].
    destruct (Nat.eqb_spec (S t) g); simpl; lia.
  - rewrite holders_eq. simpl. lia.
Qed.

Lemma inv_t_LWrite G s g s' :
  inv_t G s -> pnext G true s (LWrite g) = Some s' -> inv_t G s'.
Proof.
  intros [Hw Hwn HnG Hm Hp Hh] H. apply pnext_LWrite in H.
  destruct H as (Hg & ws' & Hset & ->).
  pose proof (Hp _ _ Hg) as Hokg. simpl in Hokg.
  rewrite holders_eq in Hh.
  pose proof (set_writer_length _ _ _ _ Hset) as L.
  pose proof (hcount_set _ _ _ _ _ Hset Hg) as C. simpl in C.
  assert (Hlt : g < length (p_writers s)).
  { apply nth_error_Some. rewrite Hg. discriminate. }
  pose proof (hcount_ge_nth _ _ _ Hg eq_refl) as Hge.
  assert (Hc1 : hcount (p_writers s) <= 1 /\ holds_token_m (p_main s) = false).
  { destruct (length (p_writers s) =? 0); destruct (holds_token_m (p_main s)); simpl in Hh;
      split; auto; lia. }
  destruct Hc1 as [Hc1 Hmf].
  constructor; simpl; try rewrite app_length; simpl; auto; try (rewrite L; auto); try lia.
  - rewrite Hw at 1. subst g. rewrite Nat.add_1_r. apply seq_snoc.
  - destruct (p_main s); simpl in *; auto; discriminate.
  - intros g' ph' Hn'.
    destruct (set_writer_nth _ _ _ _ _ _ Hset Hn') as [[-> ->]|[Hne Hn0]].
    + simpl. lia.
    + pose proof (hcount_unique _ _ _ _ _ Hc1 Hg eq_refl Hne Hn0) as Hf.
      pose proof (Hp _ _ Hn0) as Hok.
      destruct ph'; simpl in *; try discriminate; lia.
  - rewrite holders_eq. simpl. lia.
Qed.

Lemma inv_t_LMainRecv G s t s' :
  inv_t G s -> pnext G true s (LMainRecv t) = Some s' -> inv_t G s'.
Proof.
  intros [Hw Hwn HnG Hm Hp Hh] H. apply pnext_LMainRecv in H.
  destruct H as (Em & g & ph & ws1 & Hg & Hs & Hset & ->).
  rewrite Em in Hm. simpl in Hm.
  rewrite holders_eq, Em in Hh. simpl in Hh.
  pose proof (Hp _ _ Hg) as Hokg.
  pose proof (sender_token _ _ _ _ Hs Hokg) as Ht.
  pose proof (set_writer_length _ _ _ _ Hset) as L.
  pose proof (hcount_set _ _ _ _ _ Hset Hg) as C.
  rewrite (is_sender_holds _ _ _ Hs), sender_phase'_holds in C. simpl in C.
  constructor; cbn [p_main p_writers p_written]; auto; try (rewrite L; auto).
  - destruct (Nat.eqb_spec (S t) G); simpl; lia.
  - eapply phases_ok_set; [exact Hp|exact Hset|]. eapply sender_phase'_ok; eauto.
  - rewrite holders_eq. cbn [p_main p_writers p_written]. destruct (S t =? G); simpl; lia.
Qed.

Lemma inv_t_LExit G s s' :
  inv_t G s -> pnext G true s LExit = Some s' -> inv_t G s'.
Proof.
  intros [Hw Hwn HnG Hm Hp Hh] H. apply pnext_LExit in H. destruct H as (Em & ->).
  rewrite Em in Hm. simpl in Hm.
  rewrite holders_eq, Em in Hh. simpl in Hh.
  constructor; simpl; auto.
Qed.

Lemma inv_t_step G s l s' :
  inv_t G s -> pnext G true s l = Some s' -> inv_t G s'.
Proof.
  intros Hi H. destruct l.
  - eapply inv_t_LRun; eauto.
  - eapply inv_t_LSpawn; eauto.
  - apply pnext_LLinkOne in H. destruct H as (_ & ->). exact Hi.
  - eapply inv_t_LLinks; eauto.
  - eapply inv_t_LRecv; eauto.
  - eapply inv_t_LPurge; eauto.
  - eapply inv_t_LWrite; eauto.
  - eapply inv_t_LMainRecv; eauto.
  - eapply inv_t_LExit; eauto.
Qed.

Lemma reachable_inv_t G s : reachable G true s -> inv_t G s.
Proof.
  apply reachable_ind.
  - apply inv_t_init.
  - intros s0 l s' _ Hi H. eapply inv_t_step; eauto.
Qed.

(** * The invariant when no output file is written ([outp = false]) *)

Definition inv_f (G : nat) (s : pstate) : Prop :=
  p_writers s = [] /\ p_written s = [] /\
  match p_main s with
  | MRun i | MLinks i => i < G
  | MDone | MExited => True
  | _ => False
  end.

Lemma inv_f_init G : inv_f G (pinit G false).
Proof.
  unfold inv_f, pinit, loop_head, after_loop. simpl.
  split; [reflexivity|]. split; [reflexivity|].
  destruct (Nat.ltb_spec 0 G); auto.
Qed.

Lemma nth_error_nil_some {A} (g : nat) (x : A) : nth_error (@nil A) g = Some x -> False.
Proof. destruct g; discriminate. Qed.

Lemma inv_f_step G s l s' :
  inv_f G s -> pnext G false s l = Some s' -> inv_f G s'.
Proof.
  intros (Hws & Hwr & Hm) H. destruct l.
  - apply pnext_LRun in H. destruct H as (Em & ->). rewrite Em in Hm.
    unfold inv_f; simpl; auto.
  - apply pnext_LSpawn in H. destruct H as (Em & _). rewrite Em in Hm. contradiction.
  - apply pnext_LLinkOne in H. destruct H as (_ & ->). unfold inv_f; auto.
  - apply pnext_LLinks in H. destruct H as (Em & ->). rewrite Em in Hm.
    unfold inv_f, loop_head, after_loop; simpl.
    split; [auto|]. split; [auto|]. destruct (Nat.ltb_spec (S i) G); auto.
  - apply pnext_LRecv in H. destruct H as (Hg & _). rewrite Hws in Hg.
    destruct (nth_error_nil_some _ _ Hg).
  - apply pnext_LPurge in H. destruct H as (Hg & _). rewrite Hws in Hg.
    destruct (nth_error_nil_some _ _ Hg).
  - apply pnext_LWrite in H. destruct H as (Hg & _). rewrite Hws in Hg.
    destruct (nth_error_nil_some _ _ Hg).
  - apply pnext_LMainRecv in H. destruct H as (Em & _). rewrite Em in Hm. contradiction.
  - apply pnext_LExit in H. destruct H as (Em & ->). unfold inv_f; simpl; auto.
Qed.

Lemma reachable_inv_f G s : reachable G false s -> inv_f G s.
Proof.
  apply reachable_ind.
  - apply inv_f_init.
  - intros s0 l s' _ Hi H. eapply inv_f_step; eauto.
Qed.

(** * Enabledness lemmas *)

Section Enabled.
  Variable G : nat.
  Variable outp : bool.

  Lemma nth_lt (ws : list wphase) g ph : nth_error ws g = Some ph -> g < length ws.
  Proof. intros H. apply nth_error_Some. rewrite H. discriminate. Qed.

  Lemma LPurge_enabled s g t :
    nth_error (p_writers s) g = Some (WGot t) -> exists s', pnext G outp s (LPurge g t) = Some s'.
  Proof.
    intros Hg. unfold pnext. rewrite Hg, Nat.eqb_refl.
    destruct (set_writer_ex (p_writers s) g (if S t =? g then WWrite else WPut t) (nth_lt _ _ _ Hg))
      as [ws' Hs].
    rewrite Hs. cbn [obind]. eauto.
  Qed.

  Lemma LWrite_enabled s g :
    nth_error (p_writers s) g = Some WWrite -> exists s', pnext G outp s (LWrite g) = Some s'.
  Proof.
    intros Hg. unfold pnext. rewrite Hg.
    destruct (set_writer_ex (p_writers s) g WSend (nth_lt _ _ _ Hg)) as [ws' Hs].
    rewrite Hs. cbn [obind]. eauto.
  Qed.

  Lemma LMainRecv_enabled s g t ph :
    p_main s = MWait -> nth_error (p_writers s) g = Some ph -> is_sender_of g t ph ->
    exists s', pnext G outp s (LMainRecv t) = Some s'.
  Proof.
    intros Em Hg Hs. unfold pnext. rewrite Em.
    destruct (find_wsender_ex (p_writers s) 0 t g ph Hg Hs) as [g0 Hf]. rewrite Hf.
    destruct (find_wsender0_some _ _ _ Hf) as (ph0 & Hn0 & _).
    destruct (sender_done_writer_ex s g0 ph0 Hn0) as (ws1 & _ & Hd).
    rewrite Hd. cbn [obind]. eauto.
  Qed.

  Lemma LRecv_enabled_main s g t :
    p_main s = MPut t -> nth_error (p_writers s) g = Some WRecv ->
    exists s', pnext G outp s (LRecv g t) = Some s'.
  Proof.
    intros Em Hg. unfold pnext. rewrite Hg. unfold find_sender.
    pose proof (nth_lt _ _ _ Hg) as Hlt.
    destruct (find_wsender (p_writers s) 0 t) as [g0|] eqn:Hf.
    - destruct (find_wsender0_some _ _ _ Hf) as (ph0 & Hn0 & _).
      destruct (sender_done_writer_ex s g0 ph0 Hn0) as (ws1 & Hs1 & Hd).
      cbn [obind]. rewrite Hd. cbn [obind p_writers p_main p_written].
      apply set_writer_length in Hs1.
      destruct (set_writer_ex ws1 g (WGot t)) as [ws' Hs']; [lia|].
      rewrite Hs'. cbn [obind]. eauto.
    - rewrite Em, Nat.eqb_refl. cbn [obind sender_done p_writers p_main p_written].
      destruct (set_writer_ex (p_writers s) g (WGot t) Hlt) as [ws' Hs'].
      rewrite Hs'. cbn [obind]. eauto.
  Qed.
End Enabled.

(** * The theorems *)

Lemma writers_nil_f G s : reachable G false s -> p_writers s = [].
Proof. intros Hr. apply reachable_inv_f in Hr. destruct Hr; auto. Qed.

Lemma written_nil_f G s : reachable G false s -> p_written s = [].
Proof. intros Hr. apply reachable_inv_f in Hr. destruct Hr as (_ & ? & _); auto. Qed.

Section Theorems.
  Variable G : nat.
  Variable outp : bool.

  Notation reach := (reachable G outp).

  (** 1. generations are written in order, each exactly once *)
  Theorem writes_once_in_order s :
    reach s -> p_written s = seq 0 (length (p_written s)).
  Proof.
    intros Hr. destruct outp.
    - apply reachable_inv_t in Hr. apply Hr.
    - rewrite (written_nil_f G s Hr). reflexivity.
  Qed.

  Theorem written_le_spawned s :
    reach s -> length (p_written s) <= length (p_writers s) <= G.
  Proof.
    intros Hr. destruct outp.
    - apply reachable_inv_t in Hr. destruct Hr; auto.
    - rewrite (written_nil_f G s Hr), (writers_nil_f G s Hr). simpl. lia.
  Qed.

  (** 2. at most one goroutine holds the token *)
  Theorem token_unique_exact s :
    reach s -> outp = true ->
    holders s = if length (p_writers s) =? 0 then 0 else 1.
  Proof. intros Hr Eo. subst outp. apply reachable_inv_t in Hr. apply Hr. Qed.

  Theorem token_unique s : reach s -> holders s <= 1.
  Proof.
    intros Hr. destruct outp.
    - apply reachable_inv_t in Hr. destruct Hr as [_ _ _ _ _ Hh]. rewrite Hh.
      destruct (length (p_writers s) =? 0); lia.
    - rewrite holders_eq, (writers_nil_f G s Hr). unfold hcount. simpl.
      destruct (holds_token_m (p_main s)); simpl; lia.
  Qed.

  (** 3. a generation is purged only when written and its links applied *)
  Theorem purge_safe s g t s' :
    reach s -> pnext G outp s (LPurge g t) = Some s' ->
    In t (p_written s) /\ t < links_done G s.
  Proof.
    intros Hr H. apply pnext_LPurge in H. destruct H as (Hg & _).
    destruct outp.
    - apply reachable_inv_t in Hr. destruct Hr as [Hw Hwn HnG Hm Hp Hh].
      pose proof (Hp _ _ Hg) as Hok. simpl in Hok.
      pose proof (nth_lt _ _ _ Hg) as Hlt.
      split.
      + rewrite Hw. apply in_seq. lia.
      + unfold links_done. destruct (p_main s); simpl in Hm; lia.
    - rewrite (writers_nil_f G s Hr) in Hg. destruct (nth_error_nil_some _ _ Hg).
  Qed.

  Lemma purge_needs_output s g t s' :
    reach s -> pnext G outp s (LPurge g t) = Some s' -> outp = true.
  Proof.
    intros Hr H. apply pnext_LPurge in H. destruct H as (Hg & _).
    destruct outp; auto.
    rewrite (writers_nil_f G s Hr) in Hg. destruct (nth_error_nil_some _ _ Hg).
  Qed.

  (** 4. a generation is written in order and after it has been simulated *)
  Theorem write_after_run s g s' :
    reach s -> pnext G outp s (LWrite g) = Some s' ->
    g = length (p_written s) /\ g < runs_done G s.
  Proof.
    intros Hr H. apply pnext_LWrite in H. destruct H as (Hg & _).
    destruct outp.
    - apply reachable_inv_t in Hr. destruct Hr as [Hw Hwn HnG Hm Hp Hh].
      pose proof (Hp _ _ Hg) as Hok. simpl in Hok.
      pose proof (nth_lt _ _ _ Hg) as Hlt.
      split; [exact Hok|].
      unfold runs_done. destruct (p_main s); simpl in Hm; lia.
    - rewrite (writers_nil_f G s Hr) in Hg. destruct (nth_error_nil_some _ _ Hg).
  Qed.

  Lemma write_needs_output s g s' :
    reach s -> pnext G outp s (LWrite g) = Some s' -> outp = true.
  Proof.
    intros Hr H. apply pnext_LWrite in H. destruct H as (Hg & _).
    destruct outp; auto.
    rewrite (writers_nil_f G s Hr) in Hg. destruct (nth_error_nil_some _ _ Hg).
  Qed.

  (** 5. at exit everything has been simulated, linked and written *)
  Theorem done_implies_all_written s :
    reach s -> p_main s = MDone -> outp = true -> p_written s = seq 0 G.
  Proof.
    intros Hr Em Eo. subst outp. apply reachable_inv_t in Hr.
    destruct Hr as [Hw Hwn HnG Hm Hp Hh]. rewrite Em in Hm. simpl in Hm.
    destruct Hm as [_ HwG]. rewrite Hw, HwG. reflexivity.
  Qed.

  Theorem exit_implies_all_written s :
    reach s -> p_main s = MExited -> outp = true -> p_written s = seq 0 G.
  Proof.
    intros Hr Em Eo. subst outp. apply reachable_inv_t in Hr.
    destruct Hr as [Hw Hwn HnG Hm Hp Hh]. rewrite Em in Hm. simpl in Hm.
    destruct Hm as [_ HwG]. rewrite Hw, HwG. reflexivity.
  Qed.

  Theorem exit_main_complete s :
    reach s -> p_main s = MExited -> runs_done G s = G /\ links_done G s = G.
  Proof. intros _ Em. unfold runs_done, links_done. rewrite Em. auto. Qed.

  (** 6. deadlock freedom *)
  Theorem no_stuck_state s :
    reach s -> (1 <= G \/ outp = false) -> p_main s <> MExited ->
    exists l s', pnext G outp s l = Some s'.
  Proof.
    intros Hr HG Hne. destruct outp.
    - destruct HG as [HG|HG]; [|discriminate].
      apply reachable_inv_t in Hr. destruct Hr as [Hw Hwn HnG Hm Hp Hh].
      rewrite holders_eq in Hh.
      destruct (p_main s) as [i|i|i| |t| |] eqn:Em; simpl in Hm, Hh.
      + exists (LRun i). unfold pnext. rewrite Em, Nat.eqb_refl. eauto.
      + exists (LSpawn i). unfold pnext. rewrite Em. destruct Hm as [Hn _].
        rewrite Hn, Nat.eqb_refl. simpl. eauto.
      + exists (LLinks i). unfold pnext. rewrite Em, Nat.eqb_refl. eauto.
      + (* MWait: some writer holds the token, and whatever it is doing, a step is enabled *)
        destruct (Nat.eqb_spec (length (p_writers s)) 0) as [E|E]; [lia|].
        destruct (hcount_ex (p_writers s)) as (g & ph & Hg & Hh'); [lia|].
        destruct ph as [|t|t| | |]; try discriminate.
        * destruct (LPurge_enabled G true s g t Hg) as [s' H]. eauto.
        * destruct (LMainRecv_enabled G true s g t (WPut t) Em Hg) as [s' H]; [right; auto|]. eauto.
        * destruct (LWrite_enabled G true s g Hg) as [s' H]. eauto.
        * destruct (LMainRecv_enabled G true s g g WSend Em Hg) as [s' H]; [left; auto|]. eauto.
      + (* MPut t: writer t+1 exists and is blocked in its receive *)
        destruct Hm as (Hn & Ht & HtG).
        destruct (Nat.eqb_spec (length (p_writers s)) 0) as [E|E]; [lia|].
        assert (Hc0 : hcount (p_writers s) = 0) by lia.
        assert (Hlt : S t < length (p_writers s)) by lia.
        destruct (nth_error (p_writers s) (S t)) as [ph|] eqn:Hg;
          [|apply nth_error_None in Hg; lia].
        pose proof (hcount_zero_nth _ _ _ Hc0 Hg) as Hf.
        pose proof (Hp _ _ Hg) as Hok.
        destruct ph; simpl in Hf, Hok; try discriminate; [|lia].
        destruct (LRecv_enabled_main G true s (S t) t Em Hg) as [s' H]. eauto.
      + exists LExit. unfold pnext. rewrite Em. eauto.
      + congruence.
    - apply reachable_inv_f in Hr. destruct Hr as (_ & _ & Hm).
      destruct (p_main s) as [i|i|i| |t| |] eqn:Em; try contradiction.
      + exists (LRun i). unfold pnext. rewrite Em, Nat.eqb_refl. eauto.
      + exists (LLinks i). unfold pnext. rewrite Em, Nat.eqb_refl. eauto.
      + exists LExit. unfold pnext. rewrite Em. eauto.
  Qed.
End Theorems.

(** with no generations and an output file, main blocks for ever in its final
    receive: the exclusion in [no_stuck_state] is necessary *)
Theorem stuck_when_no_generations (G : nat) (outp : bool) :
  G = 0 -> outp = true -> forall l, pnext 0 true (pinit 0 true) l = None.
Proof. intros _ _ l. destruct l as [i|i|i|i|g t|g t|g|t|]; try reflexivity; destruct g; reflexivity. Qed.

(** no goroutine is left behind: when main has left its final loop every writer
    has returned *)
Theorem exit_writers_done (G : nat) (s : pstate) (g : nat) (ph : wphase) :
  reachable G true s -> p_main s = MDone \/ p_main s = MExited ->
  nth_error (p_writers s) g = Some ph -> ph = WDone.
Proof.
  intros Hr Em Hg. apply reachable_inv_t in Hr. destruct Hr as [Hw Hwn HnG Hm Hp Hh].
  rewrite holders_eq in Hh.
  pose proof (Hp _ _ Hg) as Hok. pose proof (nth_lt _ _ _ Hg) as Hlt.
  assert (Hc0 : hcount (p_writers s) = 0 /\ length (p_written s) = G /\ length (p_writers s) = G).
  { destruct Em as [Em|Em]; rewrite Em in Hm, Hh; simpl in Hm, Hh;
      destruct (length (p_writers s) =? 0); lia. }
  destruct Hc0 as (Hc0 & HwG & HnG').
  pose proof (hcount_zero_nth _ _ _ Hc0 Hg) as Hf.
  destruct ph; simpl in Hf, Hok; try discriminate; [lia|reflexivity].
Qed.

(** * 7. every run of the protocol induces a legal schedule *)

Section Schedule.
  Variable G : nat.
  Variable outp : bool.

  Notation reach := (reachable G outp).

  Lemma main_idx_lt s :
    reach s ->
    match p_main s with MRun i | MSpawn i | MLinks i => i < G | _ => True end.
  Proof.
    intros Hr. destruct outp.
    - apply reachable_inv_t in Hr. destruct Hr as [_ _ _ Hm _ _].
      destruct (p_main s); simpl in Hm; auto; lia.
    - apply reachable_inv_f in Hr. destruct Hr as (_ & _ & Hm).
      destruct (p_main s); auto; contradiction.
  Qed.

  Lemma send_of_obs s t s1 :
    send_of s t s1 ->
    runs_done G s1 = runs_done G s /\ links_done G s1 = links_done G s /\
    p_written s1 = p_written s.
  Proof.
    intros [g ph ws1 _ _ _ | Em]; unfold runs_done, links_done; simpl; auto.
    rewrite Em. auto.
  Qed.

  Definition sched_rel (c : sched_state) (s : pstate) : Prop :=
    sc_ran c = runs_done G s /\ sc_linked c = links_done G s /\
    sc_written c = length (p_written s).

  Lemma sched_step s l s' c :
    reach s -> pnext G outp s l = Some s' -> sched_rel c s ->
    exists c', sched_run G outp (action_of l) c = Some c' /\ sched_rel c' s'.
  Proof.
    intros Hr H (Hran & Hlnk & Hwr).
    pose proof (main_idx_lt s Hr) as Hidx.
    destruct l as [i|i|i|i|g t|g t|g|t|]; unfold sched_run, action_of, foldM, sched_rel.
    - apply pnext_LRun in H. destruct H as (Em & ->).
      unfold runs_done, links_done in *. rewrite Em in *.
      unfold sched_next. rewrite Hran, Hlnk, Nat.eqb_refl.
      apply Nat.ltb_lt in Hidx. rewrite Hidx. simpl.
      eexists; split; [reflexivity|]. simpl. destruct outp; simpl; auto.
    - apply pnext_LSpawn in H. destruct H as (Em & _ & ->).
      unfold runs_done, links_done in *. rewrite Em in *. simpl.
      exists c. auto.
    - apply pnext_LLinkOne in H. destruct H as (Em & ->).
      unfold runs_done, links_done in *. rewrite Em in *.
      unfold sched_next. rewrite Hran, Hlnk, !Nat.eqb_refl. simpl.
      exists c. auto.
    - apply pnext_LLinks in H. destruct H as (Em & ->).
      unfold runs_done, links_done in *. rewrite Em in *.
      unfold sched_next. rewrite Hran, Hlnk, !Nat.eqb_refl. simpl.
      eexists; split; [reflexivity|]. simpl.
      unfold loop_head, after_loop.
      destruct (Nat.ltb_spec (S i) G).
      + auto.
      + assert (S i = G) by lia. destruct outp; simpl; auto.
    - apply pnext_LRecv in H. destruct H as (_ & s1 & ws' & Hs & _ & ->).
      destruct (send_of_obs _ _ _ Hs) as (E1 & E2 & E3).
      exists c. split; [reflexivity|].
      unfold runs_done, links_done in *. simpl. rewrite E1, E2, E3. auto.
    - pose proof (purge_needs_output G outp s g t s' Hr H) as Eo.
      destruct (purge_safe G outp s g t s' Hr H) as [Hin Hl].
      rewrite (writes_once_in_order G outp s Hr) in Hin. apply in_seq in Hin.
      apply pnext_LPurge in H. destruct H as (_ & ws' & _ & ->).
      unfold sched_next. rewrite Eo, Hwr, Hlnk.
      assert (E1 : t <? length (p_written s) = true) by (apply Nat.ltb_lt; lia).
      assert (E2 : t <? links_done G s = true) by (apply Nat.ltb_lt; lia).
      rewrite E1, E2. simpl. exists c. auto.
    - pose proof (write_needs_output G outp s g s' Hr H) as Eo.
      destruct (write_after_run G outp s g s' Hr H) as [Hg Hl].
      apply pnext_LWrite in H. destruct H as (_ & ws' & _ & ->).
      unfold sched_next. rewrite Eo, Hwr, Hran, <- Hg, Nat.eqb_refl.
      assert (E2 : g <? runs_done G s = true) by (apply Nat.ltb_lt; lia).
      rewrite E2. simpl. eexists; split; [reflexivity|]. simpl.
      rewrite app_length. simpl. unfold runs_done, links_done in *. simpl.
      repeat split; auto; lia.
    - apply pnext_LMainRecv in H. destruct H as (Em & g & ph & ws1 & _ & _ & _ & ->).
      unfold runs_done, links_done in *. rewrite Em in *.
      exists c. split; [reflexivity|]. cbn [p_main p_writers p_written].
      destruct (S t =? G); auto.
    - apply pnext_LExit in H. destruct H as (Em & ->).
      unfold runs_done, links_done in *. rewrite Em in *. simpl.
      exists c. auto.
  Qed.

  Lemma schedule_of_snoc ls l : schedule_of (ls ++ [l]) = schedule_of ls ++ action_of l.
  Proof. unfold schedule_of. rewrite flat_map_app. simpl. rewrite app_nil_r. reflexivity. Qed.

  Lemma sched_rel_init : sched_rel sched0 (pinit G outp).
  Proof.
    unfold sched_rel, sched0, pinit, runs_done, links_done, loop_head, after_loop. simpl.
    destruct (Nat.ltb_spec 0 G) as [H|H].
    - auto.
    - assert (G = 0) by lia. subst G. destruct outp; auto.
  Qed.

  Lemma protocol_schedule_rel ls s :
    prun G outp ls (pinit G outp) = Some s ->
    exists c, sched_run G outp (schedule_of ls) sched0 = Some c /\ sched_rel c s.
  Proof.
    revert s. induction ls as [|l ls IH] using rev_ind; intros s H.
    - simpl in H. inversion H; subst. exists sched0. split; [reflexivity|]. apply sched_rel_init.
    - unfold prun in H. rewrite foldM_snoc in H.
      destruct (foldM (pnext G outp) ls (pinit G outp)) as [s0|] eqn:E; simpl in H; [|discriminate].
      destruct (IH s0 E) as (c0 & Hc0 & Hrel).
      assert (Hr : reach s0) by (exists ls; exact E).
      destruct (sched_step s0 l s c0 Hr H Hrel) as (c' & Hc' & Hrel').
      exists c'. split; auto.
      rewrite schedule_of_snoc. unfold sched_run in *. rewrite foldM_app, Hc0. simpl. exact Hc'.
  Qed.

  Theorem protocol_schedule_legal ls s :
    prun G outp ls (pinit G outp) = Some s ->
    exists c, sched_run G outp (schedule_of ls) sched0 = Some c /\
      sc_ran c = runs_done G s /\ sc_linked c = links_done G s /\
      sc_written c = length (p_written s).
  Proof. exact (protocol_schedule_rel ls s). Qed.

  Theorem protocol_exit_schedule_complete ls s :
    prun G outp ls (pinit G outp) = Some s -> p_main s = MExited ->
    legal_schedule G outp (schedule_of ls).
  Proof.
    intros H Em. destruct (protocol_schedule_legal ls s H) as (c & Hc & Hran & Hlnk & Hwr).
    assert (Hr : reach s) by (exists ls; exact H).
    exists c. split; [exact Hc|].
    unfold sched_complete. unfold runs_done, links_done in *. rewrite Em in *.
    rewrite Hran, Hlnk, Hwr, !Nat.eqb_refl. simpl.
    apply Nat.eqb_eq.
    destruct outp eqn:Eo.
    - rewrite (exit_implies_all_written G true s Hr Em eq_refl). apply seq_length.
    - rewrite (written_nil_f G s Hr). reflexivity.
  Qed.
End Schedule.

(** * 8. Non-vacuity: concrete traces for three generations *)

(** (a) everything in program order *)
Definition trace_straight : list plabel :=
  [LRun 0; LSpawn 0; LWrite 0; LLinks 0;
   LRun 1; LSpawn 1; LRecv 1 0; LPurge 1 0; LWrite 1; LLinks 1;
   LRun 2; LSpawn 2; LLinks 2; LRecv 2 1; LPurge 2 1; LWrite 2;
   LMainRecv 2; LExit].

Example trace_straight_accepted : accepts_exited 3 true trace_straight = true.
Proof. vm_compute. reflexivity. Qed.

(** (b) the put-back paths: writer 2 receives token 0 before writer 1 does,
    purges generation 0 and puts the token back; main's final loop receives the
    non-final token 1 and puts it back *)
Definition trace_putback : list plabel :=
  [LRun 0; LSpawn 0; LLinks 0; LRun 1; LSpawn 1; LLinks 1; LRun 2; LSpawn 2; LLinks 2;
   LWrite 0; LRecv 2 0; LPurge 2 0; LRecv 1 0; LPurge 1 0; LWrite 1;
   LMainRecv 1; LRecv 2 1; LPurge 2 1; LWrite 2; LMainRecv 2; LExit].

Example trace_putback_accepted : accepts_exited 3 true trace_putback = true.
Proof. vm_compute. reflexivity. Qed.

Example trace_putback_states :
  option_map (fun s => (p_main s, p_writers s, p_written s))
    (prun 3 true (firstn 12 trace_putback) (pinit 3 true))
  = Some (MWait, [WDone; WRecv; WPut 0], [0])
  /\
  option_map (fun s => (p_main s, p_writers s, p_written s))
    (prun 3 true (firstn 16 trace_putback) (pinit 3 true))
  = Some (MPut 1, [WDone; WDone; WRecv], [0; 1]).
Proof. split; vm_compute; reflexivity. Qed.

Example trace_straight_schedule_legal : legal_schedule 3 true (schedule_of trace_straight).
Proof.
  destruct (prun 3 true trace_straight (pinit 3 true)) as [s|] eqn:E; [|vm_compute in E; discriminate].
  apply (protocol_exit_schedule_complete 3 true trace_straight s E).
  vm_compute in E. inversion E. reflexivity.
Qed.

(** without an output file *)
Example trace_no_output_accepted :
  accepts_exited 2 false [LRun 0; LLinks 0; LRun 1; LLinks 1; LExit] = true.
Proof. vm_compute. reflexivity. Qed.

(** (c) rejected traces; in each case the trace without its last label is accepted *)
Definition trace_before_bad : list plabel :=
  [LRun 0; LSpawn 0; LLinks 0; LRun 1; LSpawn 1; LLinks 1; LRun 2; LSpawn 2; LWrite 0].

(** writer 2 writing before writer 1 *)
Example write_out_of_order_rejected :
  accepts 3 true trace_before_bad = true /\
  accepts 3 true (trace_before_bad ++ [LWrite 2]) = false.
Proof. split; vm_compute; reflexivity. Qed.

(** writer 1 purging generation 0 before the links of iteration 0 are applied
    (writer 1 does not exist yet) *)
Example purge_before_links_rejected :
  accepts 3 true [LRun 0; LSpawn 0; LWrite 0] = true /\
  accepts 3 true [LRun 0; LSpawn 0; LWrite 0; LPurge 1 0] = false.
Proof. split; vm_compute; reflexivity. Qed.

(** purging without having received the token *)
Example purge_without_token_rejected :
  accepts 3 true [LRun 0; LSpawn 0; LWrite 0; LLinks 0; LRun 1; LSpawn 1] = true /\
  accepts 3 true [LRun 0; LSpawn 0; LWrite 0; LLinks 0; LRun 1; LSpawn 1; LPurge 1 0] = false.
Proof. split; vm_compute; reflexivity. Qed.

(** writing a generation twice *)
Example write_twice_rejected :
  accepts 3 true [LRun 0; LSpawn 0; LWrite 0; LWrite 0] = false.
Proof. vm_compute. reflexivity. Qed.

(** receiving a token nobody is sending; exiting before the last generation is written *)
Example recv_without_sender_rejected :
  accepts 3 true [LRun 0; LSpawn 0; LLinks 0; LRun 1; LSpawn 1; LRecv 1 0] = false.
Proof. vm_compute. reflexivity. Qed.

Example early_exit_rejected :
  accepts 3 true
    [LRun 0; LSpawn 0; LLinks 0; LRun 1; LSpawn 1; LLinks 1; LRun 2; LSpawn 2; LLinks 2;
     LWrite 0; LRecv 1 0; LPurge 1 0; LWrite 1; LMainRecv 1; LExit] = false.
Proof. vm_compute. reflexivity. Qed.

(** * 9. for every G >= 1 the program can terminate: the straight run *)

Lemma nth_error_mid {A} (l1 : list A) x l2 n :
  n = length l1 -> nth_error (l1 ++ x :: l2) n = Some x.
Proof. intros ->. rewrite nth_error_app2 by lia. rewrite Nat.sub_diag. reflexivity. Qed.

Lemma set_writer_mid l1 x l2 n ph :
  n = length l1 -> set_writer (l1 ++ x :: l2) n ph = Some (l1 ++ ph :: l2).
Proof.
  intros ->. unfold set_writer. induction l1 as [|a l1 IH]; simpl.
  - reflexivity.
  - rewrite IH. reflexivity.
Qed.

Lemma find_wsender_done j r k t :
  find_wsender (repeat WDone j ++ r) k t = find_wsender r (j + k) t.
Proof.
  revert k. induction j as [|j IH]; intros k; simpl.
  - reflexivity.
  - rewrite IH. f_equal. lia.
Qed.

Section ExitExists.
  Variable G : nat.

  Definition straight_state (k : nat) : pstate :=
    {| p_main := loop_head G true k;
       p_writers := match k with 0 => [] | S j => repeat WDone j ++ [WSend] end;
       p_written := seq 0 k |}.

  Definition straight_iter (k : nat) : list plabel :=
    match k with
    | 0 => [LRun 0; LSpawn 0; LWrite 0; LLinks 0]
    | S j => [LRun k; LSpawn k; LRecv k j; LPurge k j; LWrite k; LLinks k]
    end.

  Fixpoint straight_prefix (k : nat) : list plabel :=
    match k with 0 => [] | S j => straight_prefix j ++ straight_iter j end.

  Lemma step_LRun i ws wr :
    pnext G true {| p_main := MRun i; p_writers := ws; p_written := wr |} (LRun i)
    = Some {| p_main := MSpawn i; p_writers := ws; p_written := wr |}.
  Proof. unfold pnext. cbn [p_main p_writers p_written]. rewrite Nat.eqb_refl. reflexivity. Qed.

  Lemma step_LSpawn i ws wr :
    i = length ws ->
    pnext G true {| p_main := MSpawn i; p_writers := ws; p_written := wr |} (LSpawn i)
    = Some {| p_main := MLinks i;
              p_writers := ws ++ [match i with 0 => WWrite | _ => WRecv end];
              p_written := wr |}.
  Proof.
    intros ->. unfold pnext. cbn [p_main p_writers p_written].
    rewrite Nat.eqb_refl. reflexivity.
  Qed.

  Lemma step_LLinks i ws wr :
    pnext G true {| p_main := MLinks i; p_writers := ws; p_written := wr |} (LLinks i)
    = Some {| p_main := loop_head G true (S i); p_writers := ws; p_written := wr |}.
  Proof. unfold pnext. cbn [p_main p_writers p_written]. rewrite Nat.eqb_refl. reflexivity. Qed.

  Lemma step_LWrite m ws1 ws2 wr g :
    g = length ws1 ->
    pnext G true {| p_main := m; p_writers := ws1 ++ WWrite :: ws2; p_written := wr |} (LWrite g)
    = Some {| p_main := m; p_writers := ws1 ++ WSend :: ws2; p_written := wr ++ [g] |}.
  Proof.
    intros Hg. unfold pnext. cbn [p_main p_writers p_written].
    rewrite (nth_error_mid ws1 WWrite ws2 g Hg), (set_writer_mid ws1 WWrite ws2 g WSend Hg).
    reflexivity.
  Qed.

  Lemma step_LPurge_last m ws1 ws2 wr g t :
    g = length ws1 -> S t = g ->
    pnext G true {| p_main := m; p_writers := ws1 ++ WGot t :: ws2; p_written := wr |} (LPurge g t)
    = Some {| p_main := m; p_writers := ws1 ++ WWrite :: ws2; p_written := wr |}.
  Proof.
    intros Hg Ht. unfold pnext. cbn [p_main p_writers p_written].
    rewrite (nth_error_mid ws1 (WGot t) ws2 g Hg), Nat.eqb_refl.
    rewrite (set_writer_mid ws1 (WGot t) ws2 g _ Hg).
    rewrite Ht, Nat.eqb_refl. reflexivity.
  Qed.

  Lemma step_LRecv_straight m j wr :
    pnext G true {| p_main := m; p_writers := repeat WDone j ++ [WSend; WRecv]; p_written := wr |}
      (LRecv (S j) j)
    = Some {| p_main := m; p_writers := repeat WDone j ++ [WDone; WGot j]; p_written := wr |}.
  Proof.
    assert (L : length (repeat WDone j) = j) by apply repeat_length.
    unfold pnext. cbn [p_main p_writers p_written].
    change (repeat WDone j ++ [WSend; WRecv]) with (repeat WDone j ++ WSend :: [WRecv]).
    assert (E1 : nth_error (repeat WDone j ++ WSend :: [WRecv]) (S j) = Some WRecv).
    { rewrite nth_error_app2 by lia. rewrite L. replace (S j - j) with 1 by lia. reflexivity. }
    rewrite E1. unfold find_sender. cbn [p_main p_writers p_written].
    rewrite find_wsender_done. simpl find_wsender. rewrite Nat.add_0_r, Nat.eqb_refl.
    cbn [obind]. unfold sender_done. cbn [p_main p_writers p_written].
    rewrite (nth_error_mid (repeat WDone j) WSend [WRecv] j (eq_sym L)). cbn [obind].
    rewrite (set_writer_mid (repeat WDone j) WSend [WRecv] j WDone (eq_sym L)). cbn [obind].
    cbn [p_main p_writers p_written].
    assert (E2 : set_writer (repeat WDone j ++ [WDone; WRecv]) (S j) (WGot j)
                 = Some (repeat WDone j ++ [WDone; WGot j])).
    { change (repeat WDone j ++ [WDone; WRecv]) with (repeat WDone j ++ [WDone] ++ [WRecv]).
      change (repeat WDone j ++ [WDone; WGot j]) with (repeat WDone j ++ [WDone] ++ [WGot j]).
      rewrite !app_assoc. apply set_writer_mid. rewrite app_length, L. simpl. lia. }
    rewrite E2. reflexivity.
  Qed.

  Lemma step_LMainRecv_straight j wr :
    S j = G ->
    pnext G true {| p_main := MWait; p_writers := repeat WDone j ++ [WSend]; p_written := wr |}
      (LMainRecv j)
    = Some {| p_main := MDone; p_writers := repeat WDone j ++ [WDone]; p_written := wr |}.
  Proof.
    intros HG. assert (L : length (repeat WDone j) = j) by apply repeat_length.
    unfold pnext. cbn [p_main p_writers p_written].
    rewrite find_wsender_done. simpl find_wsender. rewrite Nat.add_0_r, Nat.eqb_refl.
    unfold sender_done. cbn [p_main p_writers p_written].
    rewrite (nth_error_mid (repeat WDone j) WSend [] j (eq_sym L)). cbn [obind].
    rewrite (set_writer_mid (repeat WDone j) WSend [] j WDone (eq_sym L)). cbn [obind].
    cbn [p_main p_writers p_written]. rewrite HG, Nat.eqb_refl. reflexivity.
  Qed.

  Lemma loop_head_lt k : k < G -> loop_head G true k = MRun k.
  Proof. intros H. unfold loop_head. apply Nat.ltb_lt in H. rewrite H. reflexivity. Qed.

  Lemma straight_iter_ok k :
    k < G -> prun G true (straight_iter k) (straight_state k) = Some (straight_state (S k)).
  Proof.
    intros Hk. unfold straight_state. rewrite (loop_head_lt k Hk).
    destruct k as [|j]; unfold prun, straight_iter; cbn [foldM].
    - rewrite step_LRun. cbn [obind].
      rewrite step_LSpawn by reflexivity. cbn [obind].
      rewrite (step_LWrite _ [] [] _ 0 eq_refl). cbn [obind].
      cbn [app]. rewrite step_LLinks. cbn [obind]. reflexivity.
    - assert (L : length (repeat WDone j) = j) by apply repeat_length.
      rewrite step_LRun. cbn [obind].
      rewrite step_LSpawn by (rewrite app_length, L; simpl; lia). cbn [obind].
      rewrite <- app_assoc. cbn [app].
      rewrite step_LRecv_straight. cbn [obind].
      change (repeat WDone j ++ [WDone; WGot j]) with (repeat WDone j ++ [WDone] ++ WGot j :: []).
      rewrite app_assoc.
      assert (L' : S j = length (repeat WDone j ++ [WDone])) by (rewrite app_length, L; simpl; lia).
      rewrite (step_LPurge_last _ _ [] _ (S j) j L' eq_refl). cbn [obind].
      rewrite (step_LWrite _ _ [] _ (S j) L'). cbn [obind].
      rewrite step_LLinks. cbn [obind].
      rewrite <- repeat_cons. rewrite seq_snoc. reflexivity.
  Qed.

  Lemma prun_app l1 l2 s :
    prun G true (l1 ++ l2) s = obind (prun G true l1 s) (prun G true l2).
  Proof. unfold prun. apply foldM_app. Qed.

  Lemma straight_prefix_ok k :
    k <= G -> prun G true (straight_prefix k) (pinit G true) = Some (straight_state k).
  Proof.
    induction k as [|k IH]; intros Hk.
    - reflexivity.
    - simpl straight_prefix. rewrite prun_app, IH by lia. cbn [obind].
      apply straight_iter_ok. lia.
  Qed.

  Lemma straight_finish j :
    S j = G ->
    prun G true [LMainRecv j; LExit] (straight_state (S j))
    = Some {| p_main := MExited; p_writers := repeat WDone j ++ [WDone]; p_written := seq 0 (S j) |}.
  Proof.
    intros HG. unfold straight_state.
    assert (Hl : loop_head G true (S j) = MWait).
    { unfold loop_head, after_loop. rewrite HG, Nat.ltb_irrefl. reflexivity. }
    rewrite Hl. unfold prun. cbn [foldM].
    rewrite (step_LMainRecv_straight j _ HG). cbn [obind].
    unfold pnext. cbn [p_main p_writers p_written]. reflexivity.
  Qed.

  Theorem reachable_exit_exists :
    1 <= G -> exists ls s, prun G true ls (pinit G true) = Some s /\ p_main s = MExited.
  Proof.
    intros HG. assert (Hj : S (G - 1) = G) by lia.
    exists (straight_prefix (S (G - 1)) ++ [LMainRecv (G - 1); LExit]).
    eexists. split.
    - rewrite prun_app, straight_prefix_ok by lia. cbn [obind].
      apply (straight_finish (G - 1) Hj).
    - reflexivity.
  Qed.
End ExitExists.
