(** * IO/IoOps — model of /repo/io/hdf5.go (+ the helpers of hdf5_util.go)

    Definitions only.  One Gallina function per Go method of [H5RefArrayType],
    each Go [if] one Gallina [if]/[match]; the calls into the HDF5 library are
    the functions of [IO.H5Store] / [IO.Hyperslab].

    Arrays are modelled as [(dims, row-major element list)]:
    - [data.Shape()] is [a_dims], [data.Unroll()] is [a_elems].  That [Unroll]
      of ANY source view (contiguous, gapped, stepped, ...) is its row-major
      element list is property C02 (proved on the strided-view array model,
      which is built separately); it is an assumption here.
    - [data.NewArrayArrayType(shape)] is a zero-filled contiguous array whose
      [Unroll()] aliases its storage (so what the library reads into the
      unrolled slice is what the returned array contains).
    - an array with no elements is outside the model of [Write] ([data.Get] of
      index 0 reads the view's backing storage, which (dims, elems) does not
      describe; for a freshly made empty array it panics).

    Element type [V] versus file cell type [C].  The binding calls
    H5Dread/H5Dwrite with the dataset's own datatype as memory type, so a Go
    buffer is seen by the library as a sequence of cells of the FILE type.  For
    six of the eight element types the file type has the size of the Go type
    (one cell per element).  Go [int] / [uint] (8 bytes) are mapped by the
    binding to H5T_NATIVE_INT / UINT (C int, 4 bytes on LP64): two cells per
    element.  A [codec] says how an element splits into cells. *)
From Coq Require Import ZArith List Bool.
From OW Require Import IO.Hyperslab IO.H5Store.
Import ListNotations.
Local Open Scope Z_scope.

Record codec (V C : Type) := {
  cd_ratio : nat;                 (* cells per element *)
  cd_split : V -> list C;         (* little-endian *)
  cd_join : list C -> V;
  cd_czero : C
}.
Arguments cd_ratio {V C}. Arguments cd_split {V C}. Arguments cd_join {V C}. Arguments cd_czero {V C}.

(** A Go call either panics or returns (value, error).  [Ret None true] is
    [(nil, err)], [Ret (Some v) false] is [(v, nil)], and [Ret (Some v) true]
    is a value together with a non-nil error ([loadSubset] can do that). *)
Inductive io_res (A : Type) := IoPanic | IoRet (v : option A) (err : bool).
Arguments IoPanic {A}. Arguments IoRet {A}.

Record harr (V : Type) := { ha_dims : list Z; ha_elems : list V }.
Arguments ha_dims {V}. Arguments ha_elems {V}.

(** [H5RefArrayType{Filename, Dataset, Slice}] — one file, so no file name. *)
Record href := { h_dataset : list Z; h_slice : option (list dimsel) }.

Fixpoint io_chunks_aux {C} (fuel r : nat) (l : list C) : list (list C) :=
  match fuel with
  | O => []
  | S f => match l with [] => [] | _ => firstn r l :: io_chunks_aux f r (skipn r l) end
  end.
Definition io_chunks {C} (r : nat) (l : list C) : list (list C) := io_chunks_aux (length l) r l.

Section Ops.
  Context {V C : Type} (cd : codec V C).

  Notation h5store := (h5store C).
  Notation h5dataset := (h5dataset C).
  (** The file named by the refs: [None] = it does not exist. *)
  Definition h5file := option h5store.

  Definition io_czero := cd_czero cd.
  Definition io_encode (l : list V) : list C := flat_map (cd_split cd) l.
  Definition io_decode (b : list C) : list V := map (cd_join cd) (io_chunks (cd_ratio cd) b).

  (** [data.NewArrayArrayType(shape).Unroll()] as the library sees it. *)
  Definition io_zero_buffer (shape : list Z) : list C :=
    repeat io_czero (cd_ratio cd * Z.to_nat (h5_product shape)).

  Definition io_is_some {A} (o : option A) : bool := match o with Some _ => true | None => false end.

  (** [if h.Slice != nil { for _, s := range h.Slice { if s != nil {...] *)
  Definition has_selection (sl : option (list dimsel)) : bool :=
    match sl with None => false | Some l => h5_any_true io_is_some l end.

  (** The loop of [loadSubset] that overwrites [shape[dim]] ([h.Slice[dim]]
      panics when [h.Slice] is shorter than [shape]). *)
  Fixpoint new_shape (sl : list dimsel) (shape : list Z) : option (list Z) :=
    match shape with
    | [] => Some []
    | n :: shape' =>
        match sl with
        | [] => None
        | d :: sl' =>
            let this := match d with None => Some n | Some dim => slice_size dim n end in
            match this, new_shape sl' shape' with
            | Some m, Some r => Some (m :: r)
            | _, _ => None
            end
        end
    end.

  (** [func (h H5RefArrayType) loadSubset(ds *hdf5.Dataset)] *)
  Definition io_load_subset (d : h5dataset) (sl : list dimsel) : io_res (harr V) :=
    match ds_dims d with
    | [] => IoPanic                                             (* SimpleExtentDims of a rank-0 space *)
    | _ =>
      let shape := ds_dims d in
      match make_hyperslab sl shape with
      | None => IoPanic
      | Some hs =>
        match select_hyperslab (length shape) SelAll (hs_offset hs) (hs_stride hs) (hs_count hs) (hs_block hs) with
        | None => IoPanic
        | Some None => IoRet None true
        | Some (Some fsel) =>
          match new_shape sl shape with
          | None => IoPanic
          | Some nshape =>
            let ushape := map go_uint nshape in              (* memSpace extent *)
            if h5_product nshape <? 0 then IoPanic                (* make([]T, negative) *)
            else
              let buf := io_zero_buffer nshape in
              match h5_transfer io_czero (ds_data d) shape fsel buf ushape SelAll with
              | Some b => IoRet (Some {| ha_dims := nshape; ha_elems := io_decode b |}) false
              | None => IoRet (Some {| ha_dims := nshape; ha_elems := io_decode buf |}) true
              end
          end
        end
      end
    end.

  (** [func (h H5RefArrayType) Load() (data.NDArrayType, error)] *)
  Definition io_load (f : h5file) (h : href) : io_res (harr V) :=
    match f with
    | None => IoRet None true                                   (* OpenFile fails *)
    | Some st =>
      match h5_open_dataset st [] (h_dataset h) with
      | None => IoRet None true
      | Some (_, d) =>
        if has_selection (h_slice h) then
          io_load_subset d (match h_slice h with Some l => l | None => [] end)
        else
          match ds_dims d with
          | [] => IoPanic
          | _ =>
            let shape := ds_dims d in
            if h5_product shape <? 0 then IoPanic
            else
              let buf := io_zero_buffer shape in
              (* ds.Read(&impl): its error is dropped *)
              let buf' := match h5_transfer io_czero (ds_data d) shape SelAll buf shape SelAll with
                          | Some b => b | None => buf end in
              IoRet (Some {| ha_dims := shape; ha_elems := io_decode buf' |}) false
          end
      end
    end.

  (** [func shapesMatch(ds, shape) bool] via [slice.Equal]. *)
  Fixpoint zlist_eqb (a b : list Z) : bool :=
    match a, b with
    | [], [] => true
    | x :: a', y :: b' => (x =? y) && zlist_eqb a' b'
    | _, _ => false
    end.

  (** One level of [createDataset(g, path, ...)] for component [c] with the
      remaining components [t] ([rec] = the recursive call on [t]). *)
  Definition cd_step (st : h5store) (g : h5path) (c : h5name) (t : list h5name) (shape : list Z) (deflate : bool)
             (rec : h5store -> h5path -> h5store * io_res h5path) : h5store * io_res h5path :=
    match t with
    | [] =>                                                   (* len(paths) == 1 *)
        match shape with
        | [] => (st, IoPanic)                                   (* CreateSimpleDataspace(empty non-nil slice) *)
        | _ =>
          match h5_create_dataset io_czero st g c (map go_uint shape) deflate with
          | Some (st', p) => (st', IoRet (Some p) false)
          | None => (st, IoRet None true)
          end
        end
    | _ =>
        match h5_open_group st g c with
        | Some g' => rec st g'
        | None =>
          match h5_create_group st g c with
          | Some (st', g') => rec st' g'
          | None => (st, IoRet None true)
          end
        end
    end.

  (** [func createDataset(g, path, shape, exampleValue, compress)], recursion on
      the components of [strings.Split(path, "/")]; each level drops ONE
      leading empty component ([if paths[0] == "" { paths = paths[1:] }]), and
      [strings.Split(strings.Join(paths[1:], "/"), "/") = paths[1:]]. *)
  Fixpoint create_dataset_rec (comps : list h5name) (st : h5store) (g : h5path) (shape : list Z) (deflate : bool)
    : h5store * io_res h5path :=
    match comps with
    | [] => (st, IoPanic)
    | c :: t =>
        if h5name_eqb c [] then
          match t with
          | [] => (st, IoPanic)                                 (* paths[0] of an empty slice *)
          | c2 :: t2 => cd_step st g c2 t2 shape deflate (fun st' g' => create_dataset_rec t2 st' g' shape deflate)
          end
        else cd_step st g c t shape deflate (fun st' g' => create_dataset_rec t st' g' shape deflate)
    end.

  (** [func openOrCreateDataset(f, path, shape, exampleValue, compress)] *)
  Definition open_or_create_dataset (st : h5store) (s : list Z) (shape : list Z) (deflate : bool) : h5store * io_res h5path :=
    match h5_open_dataset st [] s with
    | Some (p, d) =>
        match ds_dims d with
        | [] => (st, IoPanic)                                   (* shapesMatch: SimpleExtentDims, rank 0 *)
        | _ => if zlist_eqb (ds_dims d) shape then (st, IoRet (Some p) false)
               else (st, IoRet None true)                       (* "Cannot resize datasets" *)
        end
    | None => create_dataset_rec (split_slash s) st [] shape deflate   (* OpenGroup("/") succeeds *)
    end.

  (** [openWriteOrCreate(fn, true)]: the file is created when missing. *)
  Definition open_or_new (f : h5file) : h5store := match f with Some st => st | None => [] end.

  (** [func (h H5RefArrayType) Write(data data.NDArrayType) error] *)
  Definition io_write (f : h5file) (h : href) (a : harr V) : h5file * io_res unit :=
    let st0 := open_or_new f in
    match ha_elems a with
    | [] => (Some st0, IoPanic)                                 (* data.Get(index 0); see the header *)
    | _ =>
      match open_or_create_dataset st0 (h_dataset h) (ha_dims a) false with
      | (st1, IoPanic) => (Some st1, IoPanic)
      | (st1, IoRet None _) => (Some st1, IoRet None true)
      | (st1, IoRet (Some p) _) =>
        match st_lookup st1 p with
        | Some (ODataset d) =>
          match h5_transfer io_czero (io_encode (ha_elems a)) (ds_dims d) SelAll (ds_data d) (ds_dims d) SelAll with
          | Some data' => (Some (st_update st1 p (ODataset {| ds_dims := ds_dims d; ds_data := data' |})), IoRet (Some tt) false)
          | None => (Some st1, IoRet None true)
          end
        | _ => (Some st1, IoPanic)                              (* not reachable: p was just opened or created *)
        end
      end
    end.

  (** [func (h H5RefArrayType) Create(shape []int, fillValue ArrayType, compress bool) error]
      ([fillValue] only determines the datatype). *)
  Definition io_create (f : h5file) (h : href) (shape : list Z) (compress : bool) : h5file * io_res unit :=
    let st0 := open_or_new f in
    match open_or_create_dataset st0 (h_dataset h) shape compress with
    | (st1, IoPanic) => (Some st1, IoPanic)
    | (st1, IoRet None _) => (Some st1, IoRet None true)
    | (st1, IoRet (Some _) _) => (Some st1, IoRet (Some tt) false)
    end.

  (** [func (h H5RefArrayType) WriteSlice(data data.NDArrayType, loc []int) error] *)
  Definition io_write_slice (f : h5file) (h : href) (a : harr V) (loc : list Z) : h5file * io_res unit :=
    match f with
    | None => (None, IoRet None true)                           (* openWriteOrCreate(fn, false) *)
    | Some st =>
      match h5_open_dataset st [] (h_dataset h) with
      | None => (f, IoRet None true)
      | Some (p, d) =>
        let shp := map go_uint (ha_dims a) in
        let ones := map (fun _ => 1) loc in
        match select_hyperslab (length (ds_dims d)) SelAll (map go_uint loc) ones ones shp with
        | None => (f, IoPanic)
        | Some None => (f, IoRet None true)
        | Some (Some fsel) =>
          match shp with
          | [] => (f, IoPanic)                                  (* CreateSimpleDataspace(empty, empty) *)
          | _ =>
            match h5_transfer io_czero (io_encode (ha_elems a)) shp SelAll (ds_data d) (ds_dims d) fsel with
            | Some data' =>
                (Some (st_update st p (ODataset {| ds_dims := ds_dims d; ds_data := data' |})), IoRet (Some tt) false)
            | None => (f, IoRet (Some tt) false)                (* err of WriteSubset is dropped: return nil *)
            end
          end
        end
      end
    end.

  (** [func (h H5RefArrayType) Shape() ([]int, error)] *)
  Definition io_shape (f : h5file) (h : href) : io_res (list Z) :=
    match f with
    | None => IoRet None true
    | Some st =>
      match h5_open_dataset st [] (h_dataset h) with
      | None => IoRet None true
      | Some (_, d) => match ds_dims d with [] => IoPanic | _ => IoRet (Some (ds_dims d)) false end
      end
    end.

  (** [GetDatasets] ([want_group = false]) / [GetGroups] ([true]). *)
  Definition io_get_links (want_group : bool) (f : h5file) (s : list Z) : io_res (list h5name) :=
    match f with
    | None => IoRet None true
    | Some st =>
      match h5_open_group st [] s with
      | None => IoRet None true
      | Some g => IoRet (Some (map fst (filter (fun l => Bool.eqb (snd l) want_group) (st_links st g)))) false
      end
    end.

  Definition io_find_in (l : list h5name) (n : h5name) : bool := h5_any_true (h5name_eqb n) l.

  (** [func (h H5RefArrayType) Exists() bool]: the loop over
      [strings.Split(h.Dataset, "/")] with the running [path] string. *)
  Fixpoint exists_loop (f : h5file) (comps : list h5name) (pth : list Z) : bool :=
    match comps with
    | [] => true
    | comp :: rest =>
        if h5name_eqb comp [] then exists_loop f rest pth        (* continue *)
        else
          let found_ds :=
            match rest with
            | [] =>                                            (* ix == len(components)-1 *)
                match io_get_links false f pth with
                | IoRet (Some ds) false => Some (io_find_in ds comp)
                | _ => None                                    (* err != nil: return false *)
                end
            | _ => Some false
            end in
          match found_ds with
          | None => false
          | Some true => true
          | Some false =>
              match io_get_links true f pth with
              | IoRet (Some gs) false =>
                  if io_find_in gs comp then exists_loop f rest (pth ++ ch_slash :: comp) else false
              | _ => false
              end
          end
    end.

  Definition io_exists (f : h5file) (h : href) : bool :=
    exists_loop f (split_slash (h_dataset h)) [ch_slash].

  (** ** Operation sequences on one file *)
  Inductive io_op :=
  | OpCreate (h : href) (shape : list Z) (compress : bool)
  | OpWrite (h : href) (a : harr V)
  | OpWriteSlice (h : href) (a : harr V) (loc : list Z)
  | OpLoad (h : href)
  | OpShape (h : href)
  | OpExists (h : href)
  | OpDatasets (h : href)
  | OpGroups (h : href).

  Inductive io_obs :=
  | ObsUnit (r : io_res unit)
  | ObsArr (r : io_res (harr V))
  | ObsShape (r : io_res (list Z))
  | ObsBool (b : bool)
  | ObsNames (r : io_res (list h5name)).

  Definition io_step (f : h5file) (o : io_op) : h5file * io_obs :=
    match o with
    | OpCreate h shape c => let (f', r) := io_create f h shape c in (f', ObsUnit r)
    | OpWrite h a => let (f', r) := io_write f h a in (f', ObsUnit r)
    | OpWriteSlice h a loc => let (f', r) := io_write_slice f h a loc in (f', ObsUnit r)
    | OpLoad h => (f, ObsArr (io_load f h))
    | OpShape h => (f, ObsShape (io_shape f h))
    | OpExists h => (f, ObsBool (io_exists f h))
    | OpDatasets h => (f, ObsNames (io_get_links false f (h_dataset h)))
    | OpGroups h => (f, ObsNames (io_get_links true f (h_dataset h)))
    end.

  Fixpoint io_run_ops (f : h5file) (ops : list io_op) : h5file * list io_obs :=
    match ops with
    | [] => (f, [])
    | o :: r => let (f1, b) := io_step f o in let (f2, bs) := io_run_ops f1 r in (f2, b :: bs)
    end.

End Ops.

(** ** The codecs of the eight element types (elements and cells as [Z]:
    integers by value, floats by IEEE bit pattern) *)
Definition id_codec : codec Z Z :=
  {| cd_ratio := 1; cd_split := fun v => [v]; cd_join := fun l => nth 0 l 0; cd_czero := 0 |}.

(** Go [uint] (8 bytes) seen as two 4-byte cells, little-endian. *)
Definition uint_codec : codec Z Z :=
  {| cd_ratio := 2;
     cd_split := fun v => [v mod 4294967296; (v / 4294967296) mod 4294967296];
     cd_join := fun l => nth 0 l 0 + 4294967296 * nth 1 l 0;
     cd_czero := 0 |}.

(** Go [int]: two's complement. *)
Definition int_codec : codec Z Z :=
  {| cd_ratio := 2;
     cd_split := fun v => let u := v mod 18446744073709551616 in [u mod 4294967296; (u / 4294967296) mod 4294967296];
     cd_join := fun l => let u := nth 0 l 0 + 4294967296 * nth 1 l 0 in
                         if u <? 9223372036854775808 then u else u - 18446744073709551616;
     cd_czero := 0 |}.
