(** * IO/LockCheck — lock discipline of package io, checked on its call graph

    The translator harness/cmd/callgraph turns every function of package io
    (as compiled: hdf5.go, gen-hdf5.go, hdf5_util.go, csv.go, ...) into an
    ordered list of events (source order, arguments before the call):

      KLock / KRLock / KUnlock / KRUnlock   mu.Lock() ... on the package mutex
      KCall f                               call of package function / method f
      KH5 id mut                            call into gonum.org/v1/hdf5 at site id;
                                            mut = it mutates a file (Create*, Write*,
                                            OpenFile with a flag other than RDONLY)
      KDefer d                              defer of an unlock / call / HDF5 call
      KReturn                               a return statement
      KUnsupported                          go statement, function literal or defer
                                            in a loop that contains any of the above

    each flagged [e_cond] when it sits inside an if / for / switch / select
    (it may then be skipped, and -- unless it is a defer or a return -- repeated).

    This file gives (1) a semantics of such graphs: every run of a function from
    a held-state (not held / read-held / write-held) produces a trace of HDF5
    call sites with the held-state at that moment, deferred actions running LIFO
    at return; (2) an executable checker; (3) [check_sound]: if the checker
    accepts, then in EVERY run of EVERY exported entry point started without
    the lock, every HDF5 call is made with the lock held (write-held if the
    site mutates; write-held at every site if the entry point can reach a
    mutating site at all), no lock operation is applied in the wrong state
    (no self-deadlock, no unlock of an unheld lock), and the lock is released
    at exit.  Panics and goroutines are not modelled (a [go] statement makes
    the checker reject). *)
From Coq Require Import ZArith List Bool String Lia.
Import ListNotations.
Local Open Scope Z_scope.

Inductive held := HU | HR | HW.

Definition held_eqb (a b : held) : bool :=
  match a, b with HU, HU | HR, HR | HW, HW => true | _, _ => false end.

Lemma held_eqb_eq : forall a b, held_eqb a b = true -> a = b.
Proof. destruct a, b; simpl; congruence. Qed.

Inductive dkind := DUnlock | DRUnlock | DCall (f : Z) | DH5 (id : Z) (mut : bool).

Inductive ekind :=
| KLock | KRLock | KUnlock | KRUnlock
| KCall (f : Z)
| KH5 (id : Z) (mut : bool)
| KDefer (d : dkind)
| KReturn
| KUnsupported.

Record event := ev { e_cond : bool; e_kind : ekind }.

Record lfn := { fn_id : Z; fn_name : string; fn_entry : bool; fn_body : list event }.
Definition lgraph := list lfn.

Fixpoint find_fn (g : lgraph) (f : Z) : option lfn :=
  match g with
  | [] => None
  | fn :: r => if fn_id fn =? f then Some fn else find_fn r f
  end.

(** ** Semantics *)

Inductive item := ISite (id : Z) (mut : bool) (h : held) | IBad.

(** sync.RWMutex is not reentrant: locking while this goroutine holds it (in
    either mode) can deadlock; unlocking what is not held is a run-time error. *)
Definition lock_op (k : ekind) (h : held) : option held :=
  match k, h with
  | KLock, HU => Some HW
  | KRLock, HU => Some HR
  | KUnlock, HW => Some HU
  | KRUnlock, HR => Some HU
  | _, _ => None
  end.

Definition is_lockop (k : ekind) : bool :=
  match k with KLock | KRLock | KUnlock | KRUnlock => true | _ => false end.

Definition is_return (k : ekind) : bool := match k with KReturn => true | _ => false end.
Definition is_defer (k : ekind) : bool := match k with KDefer _ => true | _ => false end.

Definition dk_to_ek (d : dkind) : ekind :=
  match d with
  | DUnlock => KUnlock
  | DRUnlock => KRUnlock
  | DCall f => KCall f
  | DH5 id m => KH5 id m
  end.

(** [exec_body g es ds h tr h']: running the rest [es] of a function body with
    deferred actions [ds] (most recent first) from held-state [h] produces the
    trace [tr] and returns in held-state [h']. *)
Inductive exec_body (g : lgraph) : list event -> list dkind -> held -> list item -> held -> Prop :=
| XB_end : forall ds h tr h',
    exec_defers g ds h tr h' -> exec_body g [] ds h tr h'
| XB_skip : forall e es ds h tr h',
    e_cond e = true -> exec_body g es ds h tr h' -> exec_body g (e :: es) ds h tr h'
| XB_return : forall e es ds h tr h',
    e_kind e = KReturn -> exec_defers g ds h tr h' -> exec_body g (e :: es) ds h tr h'
| XB_step : forall e es ds h tr1 ds1 h1 tr2 h',
    is_return (e_kind e) = false ->
    exec_event g (e_kind e) ds h tr1 ds1 h1 ->
    exec_body g es ds1 h1 tr2 h' ->
    exec_body g (e :: es) ds h (tr1 ++ tr2) h'
| XB_again : forall e es ds h tr1 ds1 h1 tr2 h',
    e_cond e = true -> is_return (e_kind e) = false -> is_defer (e_kind e) = false ->
    exec_event g (e_kind e) ds h tr1 ds1 h1 ->
    exec_body g (e :: es) ds1 h1 tr2 h' ->
    exec_body g (e :: es) ds h (tr1 ++ tr2) h'
with exec_event (g : lgraph) : ekind -> list dkind -> held -> list item -> list dkind -> held -> Prop :=
| XE_lock : forall k ds h h1,
    is_lockop k = true -> lock_op k h = Some h1 -> exec_event g k ds h [] ds h1
| XE_lockbad : forall k ds h,
    is_lockop k = true -> lock_op k h = None -> exec_event g k ds h [IBad] ds h
| XE_call : forall f fn ds h tr h',
    find_fn g f = Some fn -> exec_body g (fn_body fn) [] h tr h' -> exec_event g (KCall f) ds h tr ds h'
| XE_call_unknown : forall f ds h,
    find_fn g f = None -> exec_event g (KCall f) ds h [IBad] ds h
| XE_h5 : forall id m ds h, exec_event g (KH5 id m) ds h [ISite id m h] ds h
| XE_defer : forall d ds h, exec_event g (KDefer d) ds h [] (d :: ds) h
| XE_unsupported : forall ds h, exec_event g KUnsupported ds h [IBad] ds h
with exec_defers (g : lgraph) : list dkind -> held -> list item -> held -> Prop :=
| XD_nil : forall h, exec_defers g [] h [] h
| XD_cons : forall d ds h tr1 ds1 h1 tr2 h',
    exec_event g (dk_to_ek d) [] h tr1 ds1 h1 ->
    exec_defers g ds h1 tr2 h' ->
    exec_defers g (d :: ds) h (tr1 ++ tr2) h'.

Scheme exec_body_mind := Induction for exec_body Sort Prop
  with exec_event_mind := Induction for exec_event Sort Prop
  with exec_defers_mind := Induction for exec_defers Sort Prop.
Combined Scheme exec_mutind from exec_body_mind, exec_event_mind, exec_defers_mind.

(** What the discipline demands of a trace item.  [strict]: the run belongs to
    an entry point that can reach a mutating site, so every site needs the
    write lock. *)
Definition site_ok (strict m : bool) (h : held) : bool :=
  match h with
  | HW => true
  | HR => negb m && negb strict
  | HU => false
  end.

Definition item_ok (strict : bool) (i : item) : Prop :=
  match i with
  | ISite _ m h => site_ok strict m h = true
  | IBad => False
  end.

(** ** Checker: assume/guarantee over a table of function summaries *)

(** [tab f h strict = Some x]: started in [h], every run of [f] is fine and
    exits in [x]. *)
Definition table := Z -> held -> bool -> option held.

Definition check_event (tab : table) (strict : bool) (k : ekind) (h : held) : option held :=
  match k with
  | KLock | KRLock | KUnlock | KRUnlock => lock_op k h
  | KCall f => tab f h strict
  | KH5 _ m => if site_ok strict m h then Some h else None
  | KDefer _ | KReturn | KUnsupported => None
  end.

Fixpoint check_defers (tab : table) (strict : bool) (ds : list dkind) (h : held) : option held :=
  match ds with
  | [] => Some h
  | d :: r =>
      match check_event tab strict (dk_to_ek d) h with
      | Some h1 => check_defers tab strict r h1
      | None => None
      end
  end.

Definition same_exit (a b : option held) : option held :=
  match a, b with
  | Some x, Some y => if held_eqb x y then Some x else None
  | _, _ => None
  end.

Fixpoint check_body (tab : table) (strict : bool) (es : list event) (ds : list dkind) (h : held) : option held :=
  match es with
  | [] => check_defers tab strict ds h
  | e :: es' =>
      match e_kind e with
      | KReturn =>
          if e_cond e then same_exit (check_defers tab strict ds h) (check_body tab strict es' ds h)
          else check_defers tab strict ds h
      | KDefer d =>
          if e_cond e then same_exit (check_body tab strict es' ds h) (check_body tab strict es' (d :: ds) h)
          else check_body tab strict es' (d :: ds) h
      | k =>
          match check_event tab strict k h with
          | None => None
          | Some h1 =>
              if e_cond e then (if held_eqb h1 h then check_body tab strict es' ds h else None)
              else check_body tab strict es' ds h1
          end
      end
  end.

(** A table is valid when each of its claims is re-established by checking the
    function body against the table itself. *)
Definition table_valid (g : lgraph) (tab : table) : Prop :=
  forall f h s x, tab f h s = Some x ->
    exists fn, find_fn g f = Some fn /\ check_body tab s (fn_body fn) [] h = Some x.

Lemma same_exit_some : forall a b x, same_exit a b = Some x -> a = Some x /\ b = Some x.
Proof.
  intros [a|] [b|] x; simpl; try discriminate.
  destruct (held_eqb a b) eqn:E; try discriminate. intros H; inversion H; subst.
  apply held_eqb_eq in E. subst. auto.
Qed.

Lemma Forall_app_intro : forall {A} (P : A -> Prop) l1 l2, Forall P l1 -> Forall P l2 -> Forall P (l1 ++ l2).
Proof. intros. apply Forall_app. auto. Qed.

Lemma check_body_plain : forall tab s e es ds h,
  is_return (e_kind e) = false -> is_defer (e_kind e) = false ->
  check_body tab s (e :: es) ds h =
  match check_event tab s (e_kind e) h with
  | None => None
  | Some h1 => if e_cond e then (if held_eqb h1 h then check_body tab s es ds h else None)
               else check_body tab s es ds h1
  end.
Proof. intros tab s e es ds h R D. simpl. destruct (e_kind e); simpl in *; try discriminate; reflexivity. Qed.

Lemma check_body_return : forall tab s e es ds h,
  e_kind e = KReturn ->
  check_body tab s (e :: es) ds h =
  if e_cond e then same_exit (check_defers tab s ds h) (check_body tab s es ds h) else check_defers tab s ds h.
Proof. intros. simpl. rewrite H. reflexivity. Qed.

Lemma check_body_defer : forall tab s e es ds h d,
  e_kind e = KDefer d ->
  check_body tab s (e :: es) ds h =
  if e_cond e then same_exit (check_body tab s es ds h) (check_body tab s es (d :: ds) h)
  else check_body tab s es (d :: ds) h.
Proof. intros. simpl. rewrite H. reflexivity. Qed.

Lemma kind_cases : forall k, k = KReturn \/ (exists d, k = KDefer d) \/ (is_return k = false /\ is_defer k = false).
Proof. destruct k; simpl; eauto. Qed.

Theorem check_table_sound : forall g tab, table_valid g tab ->
  (forall es ds h tr h', exec_body g es ds h tr h' ->
     forall s x, check_body tab s es ds h = Some x -> Forall (item_ok s) tr /\ h' = x) /\
  (forall k ds h tr ds1 h1, exec_event g k ds h tr ds1 h1 ->
     (forall d, k = KDefer d -> tr = [] /\ ds1 = d :: ds /\ h1 = h) /\
     (forall s x, check_event tab s k h = Some x -> Forall (item_ok s) tr /\ h1 = x /\ ds1 = ds)) /\
  (forall ds h tr h', exec_defers g ds h tr h' ->
     forall s x, check_defers tab s ds h = Some x -> Forall (item_ok s) tr /\ h' = x).
Proof.
  intros g tab TV.
  apply exec_mutind.
  - (* XB_end *)
    intros ds h tr h' _ IH s x C. simpl in C. auto.
  - (* XB_skip *)
    intros e es ds h tr h' Hc _ IH s x C.
    destruct (kind_cases (e_kind e)) as [K|[[d K]|[R D]]].
    + rewrite (check_body_return _ _ _ _ _ _ K), Hc in C. apply same_exit_some in C. destruct C as [_ C2]. eauto.
    + rewrite (check_body_defer _ _ _ _ _ _ _ K), Hc in C. apply same_exit_some in C. destruct C as [C1 _]. eauto.
    + rewrite (check_body_plain _ _ _ _ _ _ R D), Hc in C.
      destruct (check_event tab s (e_kind e) h) as [h1|]; try discriminate.
      destruct (held_eqb h1 h); try discriminate. eauto.
  - (* XB_return *)
    intros e es ds h tr h' K _ IH s x C.
    rewrite (check_body_return _ _ _ _ _ _ K) in C.
    destruct (e_cond e).
    + apply same_exit_some in C. destruct C as [C1 _]. eauto.
    + eauto.
  - (* XB_step *)
    intros e es ds h tr1 ds1 h1 tr2 h' NR _ IHe _ IHb s x C.
    destruct IHe as [IHd IHe].
    destruct (kind_cases (e_kind e)) as [K|[[d K]|[R D]]].
    + rewrite K in NR. discriminate.
    + rewrite (check_body_defer _ _ _ _ _ _ _ K) in C.
      destruct (IHd d K) as [T [DS H1]]. subst.
      destruct (e_cond e).
      * apply same_exit_some in C. destruct C as [_ C2]. destruct (IHb s x C2). split; auto.
      * destruct (IHb s x C). split; auto.
    + rewrite (check_body_plain _ _ _ _ _ _ R D) in C.
      destruct (check_event tab s (e_kind e) h) as [hx|] eqn:CE; try discriminate.
      destruct (IHe s hx CE) as [F1 [E1 E2]]. subst.
      destruct (e_cond e).
      * destruct (held_eqb hx h) eqn:HE; try discriminate. apply held_eqb_eq in HE. subst.
        destruct (IHb s x C) as [F2 E3]. split; [apply Forall_app_intro; auto | auto].
      * destruct (IHb s x C) as [F2 E3]. split; [apply Forall_app_intro; auto | auto].
  - (* XB_again *)
    intros e es ds h tr1 ds1 h1 tr2 h' Hc NR ND _ IHe _ IHb s x C.
    destruct IHe as [_ IHe].
    pose proof C as C0.
    rewrite (check_body_plain _ _ _ _ _ _ NR ND), Hc in C.
    destruct (check_event tab s (e_kind e) h) as [hx|] eqn:CE; try discriminate.
    destruct (IHe s hx CE) as [F1 [E1 E2]]. subst.
    destruct (held_eqb hx h) eqn:HE; try discriminate. apply held_eqb_eq in HE. subst.
    destruct (IHb s x C0) as [F2 E3]. split; [apply Forall_app_intro; auto | auto].
  - (* XE_lock *)
    intros k ds h h1 L O. split.
    + intros d E. subst. discriminate.
    + intros s x C. destruct k; simpl in L; try discriminate; cbn [check_event] in C; rewrite O in C; inversion C; auto.
  - (* XE_lockbad *)
    intros k ds h L O. split.
    + intros d E. subst. discriminate.
    + intros s x C. destruct k; simpl in L; try discriminate; cbn [check_event] in C; rewrite O in C; discriminate.
  - (* XE_call *)
    intros f fn ds h tr h' FF _ IH. split.
    + intros d E. discriminate.
    + intros s x C. simpl in C. destruct (TV _ _ _ _ C) as [fn' [F' CB]].
      rewrite FF in F'. inversion F'; subst. destruct (IH s x CB). auto.
  - (* XE_call_unknown *)
    intros f ds h FF. split.
    + intros d E. discriminate.
    + intros s x C. simpl in C. destruct (TV _ _ _ _ C) as [fn' [F' _]]. congruence.
  - (* XE_h5 *)
    intros id m ds h. split.
    + intros d E. discriminate.
    + intros s x C. simpl in C. destruct (site_ok s m h) eqn:SO; try discriminate. inversion C; subst.
      split; [constructor; [exact SO | constructor] | auto].
  - (* XE_defer *)
    intros d ds h. split.
    + intros d' E. inversion E; subst. auto.
    + intros s x C. simpl in C. discriminate.
  - (* XE_unsupported *)
    intros ds h. split.
    + intros d E. discriminate.
    + intros s x C. simpl in C. discriminate.
  - (* XD_nil *)
    intros h s x C. simpl in C. inversion C. auto.
  - (* XD_cons *)
    intros d ds h tr1 ds1 h1 tr2 h' _ IHe _ IHd s x C.
    destruct IHe as [_ IHe]. simpl in C.
    destruct (check_event tab s (dk_to_ek d) h) as [hx|] eqn:CE; try discriminate.
    destruct (IHe s hx CE) as [F1 [E1 _]]. subst.
    destruct (IHd s x C) as [F2 E2]. split; [apply Forall_app_intro; auto | auto].
Qed.

(** ** Computing a table, and the top-level checker *)

Definition hidx (h : held) (s : bool) : nat :=
  (match h with HU => 0 | HR => 1 | HW => 2 end + if s then 3 else 0)%nat.

(** Concrete tables: function id -> six summaries. *)
Definition ctable := list (Z * list (option held)).

Fixpoint ct_find (t : ctable) (f : Z) : option (list (option held)) :=
  match t with
  | [] => None
  | (k, v) :: r => if k =? f then Some v else ct_find r f
  end.

Definition ct_fun (t : ctable) : table :=
  fun f h s => match ct_find t f with Some v => nth (hidx h s) v None | None => None end.

Definition all_ctx : list (held * bool) := [(HU, false); (HR, false); (HW, false); (HU, true); (HR, true); (HW, true)].

Definition ct_init (g : lgraph) : ctable :=
  map (fun fn => (fn_id fn, map (fun c => Some (fst c)) all_ctx)) g.

Definition ct_refine (g : lgraph) (t : ctable) : ctable :=
  map (fun fn => (fn_id fn, map (fun c => check_body (ct_fun t) (snd c) (fn_body fn) [] (fst c)) all_ctx)) g.

Fixpoint ct_iter (n : nat) (g : lgraph) (t : ctable) : ctable :=
  match n with O => t | S k => ct_iter k g (ct_refine g t) end.

Definition oheld_eqb (a b : option held) : bool :=
  match a, b with
  | None, None => true
  | Some x, Some y => held_eqb x y
  | _, _ => false
  end.

(** Validation: every claim [Some x] of the table is reproduced by one more
    refinement step, and function ids are unique (so [find_fn] finds that fn). *)
Fixpoint ids_unique (g : lgraph) : bool :=
  match g with
  | [] => true
  | fn :: r => match find_fn r (fn_id fn) with None => ids_unique r | Some _ => false end
  end.

Definition entry_claims_ok (t : ctable) (g : lgraph) (fn : lfn) : bool :=
  forallb (fun c =>
    match ct_fun t (fn_id fn) (fst c) (snd c) with
    | None => true
    | Some x => oheld_eqb (check_body (ct_fun t) (snd c) (fn_body fn) [] (fst c)) (Some x)
    end) all_ctx.

Definition ct_valid (g : lgraph) (t : ctable) : bool :=
  ids_unique g && forallb (entry_claims_ok t g) g
  && forallb (fun kv => match find_fn g (fst kv) with Some _ => true | None => false end) t.

(** Can [f] reach a mutating HDF5 site?  Bounded search through calls and
    deferred calls ([fuel] = number of functions suffices for an exact answer;
    less fuel only makes the answer [false] more often, which the soundness
    statement below does not depend on: it is stated for THIS function). *)
Definition ev_mut (k : ekind) : bool :=
  match k with KH5 _ m => m | KDefer (DH5 _ m) => m | _ => false end.
Definition ev_callee (k : ekind) : option Z :=
  match k with KCall f => Some f | KDefer (DCall f) => Some f | _ => None end.

Fixpoint reaches_mut (fuel : nat) (g : lgraph) (f : Z) : bool :=
  match fuel with
  | O => false
  | S n =>
      match find_fn g f with
      | None => false
      | Some fn =>
          existsb (fun e => ev_mut (e_kind e)
                            || match ev_callee (e_kind e) with Some c => reaches_mut n g c | None => false end)
                  (fn_body fn)
      end
  end.

Definition is_writer (g : lgraph) (fn : lfn) : bool := reaches_mut (S (List.length g)) g (fn_id fn).

Definition lock_rounds : nat := 8.

Definition check (g : lgraph) : bool :=
  let t := ct_iter lock_rounds g (ct_init g) in
  ct_valid g t &&
  forallb (fun fn => if fn_entry fn
                     then oheld_eqb (ct_fun t (fn_id fn) HU (is_writer g fn)) (Some HU)
                     else true) g.

Lemma find_fn_in : forall g fn, ids_unique g = true -> In fn g -> find_fn g (fn_id fn) = Some fn.
Proof.
  induction g as [|a g IH]; simpl; intros fn U I; [contradiction|].
  destruct (find_fn g (fn_id a)) eqn:F; try discriminate.
  destruct I as [E|I].
  - subst. rewrite Z.eqb_refl. reflexivity.
  - destruct (fn_id a =? fn_id fn) eqn:E.
    + apply Z.eqb_eq in E. rewrite E in F. rewrite (IH fn U I) in F. discriminate.
    + apply IH; auto.
Qed.

Lemma find_fn_some_in : forall g f fn, find_fn g f = Some fn -> In fn g /\ fn_id fn = f.
Proof.
  induction g as [|a g IH]; simpl; intros f fn F; try discriminate.
  destruct (fn_id a =? f) eqn:E.
  - inversion F; subst. apply Z.eqb_eq in E. auto.
  - destruct (IH _ _ F). auto.
Qed.

Lemma oheld_eqb_some : forall a x, oheld_eqb a (Some x) = true -> a = Some x.
Proof. intros [a|] x; simpl; try discriminate. intros H. apply held_eqb_eq in H. subst. reflexivity. Qed.

Lemma ct_find_in : forall t f v, ct_find t f = Some v -> exists k, In (k, v) t /\ k = f.
Proof.
  induction t as [|[k w] t IH]; simpl; intros f v F; try discriminate.
  destruct (k =? f) eqn:E.
  - inversion F; subst. apply Z.eqb_eq in E. eauto.
  - destruct (IH _ _ F) as [k' [I E']]. eauto.
Qed.

Lemma ct_valid_table_valid : forall g t, ct_valid g t = true -> table_valid g (ct_fun t).
Proof.
  intros g t V. unfold ct_valid in V.
  apply andb_true_iff in V. destruct V as [V V3]. apply andb_true_iff in V. destruct V as [V1 V2].
  intros f h s x C.
  unfold ct_fun in C. destruct (ct_find t f) as [v|] eqn:F; try discriminate.
  destruct (ct_find_in _ _ _ F) as [k [I E]]. subst k.
  rewrite forallb_forall in V3. specialize (V3 _ I). simpl in V3.
  destruct (find_fn g f) as [fn|] eqn:FF; try discriminate.
  exists fn. split; auto.
  destruct (find_fn_some_in _ _ _ FF) as [IN ID].
  rewrite forallb_forall in V2. specialize (V2 _ IN).
  unfold entry_claims_ok in V2. rewrite forallb_forall in V2.
  assert (INC : In (h, s) all_ctx) by (destruct h, s; simpl; auto 10).
  specialize (V2 _ INC). simpl in V2.
  unfold ct_fun in V2 at 1. rewrite ID, F in V2. rewrite C in V2.
  apply oheld_eqb_some in V2. exact V2.
Qed.

(** ** Soundness *)
Theorem check_sound : forall g, check g = true ->
  forall fn, In fn g -> fn_entry fn = true ->
  forall tr h', exec_body g (fn_body fn) [] HU tr h' ->
    Forall (item_ok (is_writer g fn)) tr /\ h' = HU.
Proof.
  intros g C fn I E tr h' X.
  unfold check in C. apply andb_true_iff in C. destruct C as [V A].
  set (t := ct_iter lock_rounds g (ct_init g)) in *.
  pose proof (ct_valid_table_valid _ _ V) as TV.
  rewrite forallb_forall in A. specialize (A _ I). rewrite E in A.
  apply oheld_eqb_some in A.
  destruct (TV _ _ _ _ A) as [fn' [F CB]].
  assert (U : ids_unique g = true).
  { unfold ct_valid in V. apply andb_true_iff in V. destruct V as [V _]. apply andb_true_iff in V. tauto. }
  rewrite (find_fn_in _ _ U I) in F. inversion F; subst fn'.
  destruct (check_table_sound g (ct_fun t) TV) as [SB _].
  exact (SB _ _ _ _ _ X _ _ CB).
Qed.

(** What an accepted item means. *)
Lemma item_ok_held : forall s i, item_ok s i ->
  match i with
  | ISite _ m h => h <> HU /\ (m = true -> h = HW) /\ (s = true -> h = HW)
  | IBad => False
  end.
Proof.
  intros s [id m h|]; simpl; auto.
  destruct h, m, s; simpl; intros H; try discriminate; repeat split; intros; congruence.
Qed.
