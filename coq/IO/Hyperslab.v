(** * IO/Hyperslab — [sliceSize] / [makeHyperslab] of /repo/io/hdf5_util.go and
    the HDF5 hyperslab selection semantics they are run against.

    Definitions only (so that the model still extracts when a proof breaks).

    Go [int] / [uint] are modelled by [Z]; the arithmetic of [sliceSize] wraps
    to 64 bits as in Go ([go_int]), [uint(x)] is [x mod 2^64].

    The HDF5 side (section "HDF5 dataspace selections") is the documented
    behaviour of [H5Sselect_hyperslab] / [H5Sselect_valid] and of the order in
    which [H5Dread]/[H5Dwrite] pair up selected elements; it is what
    /verif/harness/fakehdf5 implements (README.md there) and is part of the
    trusted base. *)
From Coq Require Import ZArith List Bool.
Import ListNotations.
Local Open Scope Z_scope.

(** ** util/m *)
Definition go_min_int (a b : Z) : Z := if a >? b then b else a.
Definition go_max_int (a b : Z) : Z := if a >? b then a else b.

Definition go_uint (z : Z) : Z := z mod 18446744073709551616.

(** Go [int] is a 64-bit two's complement integer: [go_int z] is the value an
    [int] variable holds after an operation whose mathematical result is [z]
    (wrap-around).  The arguments of the functions below are Go ints, i.e.
    already in [-2^63, 2^63). *)
Definition go_int (z : Z) : Z := (z + 9223372036854775808) mod 18446744073709551616 - 9223372036854775808.

(** ** io/hdf5_util.go

    [func sliceSize(slice []int, size int) int]
      extent := m.MaxInt(0, m.MinInt(size, slice[1]) - m.MinInt(size, slice[0]))
      return (extent + slice[2] - 1) / slice[2]
    [None] = the Go code panics (index out of range, integer divide by zero).
    Go's [/] on ints truncates toward zero: [Z.quot].  Every arithmetic result
    wraps to 64 bits, as in Go: for a stop near MaxInt64 nothing overflows
    (stop is clipped to the extent before any arithmetic), for a step beyond
    MaxInt64 - extent the sum extent + step - 1 does. *)
Definition slice_size (sl : list Z) (size : Z) : option Z :=
  match sl with
  | a :: b :: s :: _ =>
      let extent := go_max_int 0 (go_int (go_min_int size b - go_min_int size a)) in
      if s =? 0 then None else Some (go_int (Z.quot (go_int (extent + s - 1)) s))
  | _ => None
  end.

(** One selection entry per dimension; Go's [nil] inner slice is [None]. *)
Definition dimsel := option (list Z).

Record hyperslab := { hs_offset : list Z; hs_stride : list Z; hs_count : list Z; hs_block : list Z }.

(** [func makeHyperslab(slice [][]int, dims []int) (offset, stride, count, block []uint)]
    Loops over [slice]; indexes [dims[i]] (panics when [slice] is longer than
    [dims]) and [dim[0]], [dim[2]] (panics on short entries). *)
Fixpoint make_hyperslab_aux (sl : list dimsel) (dims : list Z) : option (list (Z * Z * Z)) :=
  match sl with
  | [] => Some []
  | d :: sl' =>
      match dims with
      | [] => None                                   (* dims[i]: index out of range *)
      | n :: dims' =>
          let entry :=
            match d with
            | None => Some (0, 1, go_uint n)
            | Some dim =>
                match dim with
                | a :: _ :: s :: _ =>
                    match slice_size dim n with
                    | Some c => Some (go_uint a, go_uint s, go_uint c)
                    | None => None
                    end
                | _ => None
                end
            end in
          match entry, make_hyperslab_aux sl' dims' with
          | Some e, Some r => Some (e :: r)
          | _, _ => None
          end
      end
  end.

Definition make_hyperslab (sl : list dimsel) (dims : list Z) : option hyperslab :=
  match make_hyperslab_aux sl dims with
  | None => None
  | Some es =>
      Some {| hs_offset := map (fun e => fst (fst e)) es;
              hs_stride := map (fun e => snd (fst e)) es;
              hs_count := map snd es;
              hs_block := map (fun _ => 1) es |}
  end.

(** ** HDF5 dataspace selections *)

Definition h5_zrange (n : Z) : list Z := map Z.of_nat (seq 0 (Z.to_nat n)).

(** Row-major Cartesian product of per-axis coordinate lists (first axis
    slowest, last axis fastest). *)
Fixpoint h5_cartesian (axes : list (list Z)) : list (list Z) :=
  match axes with
  | [] => [[]]
  | a :: rest => flat_map (fun x => map (cons x) (h5_cartesian rest)) a
  end.

(** Every multi-index of an extent, in row-major order. *)
Definition h5_all_indices (dims : list Z) : list (list Z) := h5_cartesian (map h5_zrange dims).

Definition h5_product (dims : list Z) : Z := fold_right Z.mul 1 dims.

(** Row-major linear offset of a multi-index in an extent. *)
Fixpoint h5_linear (dims idx : list Z) : Z :=
  match dims, idx with
  | n :: dims', i :: idx' => i * h5_product dims' + h5_linear dims' idx'
  | _, _ => 0
  end.

Inductive h5_selection := SelAll | SelNone | SelHyper (h : hyperslab).

Fixpoint h5_all_true {A} (p : A -> bool) (l : list A) : bool :=
  match l with [] => true | x :: r => p x && h5_all_true p r end.

Fixpoint h5_any_true {A} (p : A -> bool) (l : list A) : bool :=
  match l with [] => false | x :: r => p x || h5_any_true p r end.

(** [Dataspace.SelectHyperslab(offset, stride, count, block)] on a space of
    rank [rank] whose current selection is [cur] (binding + H5Sselect_hyperslab
    with H5S_SELECT_SET).  Outer [None]: the call panics / is undefined
    behaviour (count, stride or block shorter than offset).  [Some None]: error
    return.  [Some (Some s)]: success, new selection [s].  The extent is not
    consulted. *)
Definition select_hyperslab (rank : nat) (cur : h5_selection) (offset stride count block : list Z)
  : option (option h5_selection) :=
  let r := length offset in
  if Nat.eqb r 0 then Some (Some cur)                         (* H5Soffset_simple(NULL) *)
  else if negb (Nat.eqb r rank) then Some None                (* size of offset does not match extent *)
  else if Nat.ltb (length count) r || Nat.ltb (length stride) r || Nat.ltb (length block) r then None
  else
    let st := firstn r stride in
    let ct := firstn r count in
    let bl := firstn r block in
    if h5_any_true (fun s => s =? 0) st then Some None            (* invalid stride==0 *)
    else if h5_any_true (fun p => (fst (fst p) >? 1) && (snd (fst p) <? snd p)) (combine (combine ct st) bl)
         then Some None                                        (* hyperslab blocks overlap *)
    else if h5_any_true (fun p => (fst p =? 0) || (snd p =? 0)) (combine ct bl) then Some (Some SelNone)
    else Some (Some (SelHyper {| hs_offset := offset; hs_stride := st; hs_count := ct; hs_block := bl |})).

(** Coordinates selected on one axis: offset + c*stride + b. *)
Definition axis_coords (o s c b : Z) : list Z :=
  flat_map (fun ci => map (fun bi => o + ci * s + bi) (h5_zrange b)) (h5_zrange c).

Definition axis_valid (n o s c b : Z) : bool := o + s * (c - 1) + b <=? n.

Fixpoint hyper_axes (dims off str cnt blk : list Z) : option (list (list Z)) :=
  match dims, off, str, cnt, blk with
  | [], [], [], [], [] => Some []
  | n :: dims', o :: off', s :: str', c :: cnt', b :: blk' =>
      if axis_valid n o s c b then
        match hyper_axes dims' off' str' cnt' blk' with
        | Some r => Some (axis_coords o s c b :: r)
        | None => None
        end
      else None
  | _, _, _, _, _ => None
  end.

(** The selected multi-indices of a selection on an extent, in the row-major
    order in which HDF5 transfers them; [None] = selection (+ offset) not
    within the extent (the transfer fails, nothing is moved). *)
Definition h5_select (s : h5_selection) (dims : list Z) : option (list (list Z)) :=
  match s with
  | SelAll => Some (h5_all_indices dims)
  | SelNone => Some []
  | SelHyper h =>
      match hyper_axes dims (hs_offset h) (hs_stride h) (hs_count h) (hs_block h) with
      | Some axes => Some (h5_cartesian axes)
      | None => None
      end
  end.

(** ** The in-memory slice that a selection is compared with

    [slice_count a b s n] : number of k >= 0 with a + k*s < min b n (for s >= 1),
    i.e. the extent of the in-memory slice [start:stop:step] of an axis of n. *)
Definition slice_count (a b s n : Z) : Z :=
  let hi := Z.min b n in
  if hi <=? a then 0 else (hi - a + s - 1) / s.

(** Per-axis (start, count, step) of a selection on an extent ([nil] = whole axis). *)
Fixpoint slice_triples (sl : list dimsel) (dims : list Z) : list (Z * Z * Z) :=
  match sl, dims with
  | d :: sl', n :: dims' =>
      match d with
      | Some (a :: b :: s :: _) => (a, slice_count a b s n, s)
      | _ => (0, n, 1)
      end :: slice_triples sl' dims'
  | _, _ => []
  end.
