(** * IO/IoExamples — concrete runs of the model: non-vacuity of the theorems
    of IoOpsProofs, and the refutation of the round trip for Go int / uint. *)
From Coq Require Import ZArith List Bool Lia.
From OW Require Import IO.Hyperslab IO.H5Store IO.IoOps IO.HyperslabProofs IO.H5StoreProofs IO.IoOpsProofs.
Import ListNotations.
Local Open Scope Z_scope.

Lemma id_codec_exact : codec_exact id_codec.
Proof. repeat split; simpl; eauto. Qed.

(** "g/a" *)
Definition nm_ga : list Z := [103; 47; 97].
Definition ref_ga : href := {| h_dataset := nm_ga; h_slice := None |}.

Lemma nm_ga_plain : plain_name nm_ga [[103]; [97]].
Proof.
  split; [discriminate|]. split.
  - repeat constructor; try discriminate; simpl; intros [H|[]]; discriminate.
  - left. reflexivity.
Qed.

Definition arr23 : harr Z := {| ha_dims := [2; 3]; ha_elems := [10; 11; 12; 20; 21; 22] |}.

Lemma arr23_wf : arr_wf arr23.
Proof. unfold arr_wf, u64. simpl. repeat split; try discriminate; repeat constructor; lia. Qed.

(** Write on a missing file creates file, group g and dataset g/a; loading gives
    the array back; a stepped selection with stop beyond the extent gives the
    in-memory slice; a WriteSlice changes one block. *)
Example write_then_load :
  exists f', io_write id_codec None ref_ga arr23 = (f', IoRet (Some tt) false)
   /\ io_load id_codec f' ref_ga = IoRet (Some arr23) false
   /\ io_load id_codec f' {| h_dataset := nm_ga; h_slice := Some [None; Some [0; 7; 2]] |}
      = IoRet (Some {| ha_dims := [2; 2]; ha_elems := [10; 12; 20; 22] |}) false
   /\ io_exists f' ref_ga = true
   /\ exists f'', io_write_slice id_codec f' ref_ga {| ha_dims := [1; 2]; ha_elems := [7; 8] |} [1; 1] = (f'', IoRet (Some tt) false)
        /\ io_load id_codec f'' ref_ga = IoRet (Some {| ha_dims := [2; 3]; ha_elems := [10; 11; 12; 20; 7; 8] |}) false
        /\ io_create id_codec f'' ref_ga [2; 3] false = (f'', IoRet (Some tt) false)
        /\ io_create id_codec f'' ref_ga [3; 2] false = (f'', IoRet None true).
Proof.
  eexists. split; [vm_compute; reflexivity|]. split; [vm_compute; reflexivity|].
  split; [vm_compute; reflexivity|]. split; [vm_compute; reflexivity|].
  eexists. split; [vm_compute; reflexivity|]. repeat split; vm_compute; reflexivity.
Qed.

(** The pre-fix expression (floor) would have given 2 for [0,5,2] on an axis
    of 10; the code's ceiling division gives the 3 elements 0, 2, 4. *)
Example slice_size_ceil : slice_size [0; 5; 2] 10 = Some 3 /\ slice_size [2; 100; 3] 10 = Some 3
  /\ slice_size [10; 12; 1] 10 = Some 0 /\ slice_size [0; 5; 0] 10 = None.
Proof. vm_compute. repeat split. Qed.

(** The open-ended idiom stop = MaxInt64 is inside the hypotheses of the theorems
    and selects to the end of the axis; a step beyond MaxInt64 - extent is outside
    them: there the Go expression extent + step - 1 wraps (and so does the model). *)
Example slice_size_extremes :
  ss_ok 0 9223372036854775807 2 10 /\ slice_size [0; 9223372036854775807; 2] 10 = Some 5
  /\ slice_size [1; 9223372036854775806; 3] 10 = Some 3
  /\ slice_size [0; 7; 9223372036854775807] 10 = Some 0.
Proof. unfold ss_ok. repeat split; try lia; vm_compute; reflexivity. Qed.

(** ** Go int / uint do NOT round-trip (known finding native-int-width)

    The binding creates the dataset with H5T_NATIVE_INT (4 bytes) and moves
    N 4-byte cells, i.e. the first half of the 8-byte-element Go buffer. *)
Theorem write_load_roundtrip_int_refuted :
  exists (s : list Z) (a : harr Z) f',
    ha_dims a = [6] /\ length (ha_elems a) = 6%nat /\
    io_write int_codec None {| h_dataset := s; h_slice := None |} a = (f', IoRet (Some tt) false) /\
    io_load int_codec f' {| h_dataset := s; h_slice := None |}
      = IoRet (Some {| ha_dims := [6]; ha_elems := [10; 11; 12; 0; 0; 0] |}) false /\
    io_load int_codec f' {| h_dataset := s; h_slice := None |} <> IoRet (Some a) false.
Proof.
  exists [120], {| ha_dims := [6]; ha_elems := [10; 11; 12; 13; 14; 15] |}. eexists.
  split; [reflexivity|]. split; [reflexivity|]. split; [vm_compute; reflexivity|].
  split; [vm_compute; reflexivity|]. vm_compute. discriminate.
Qed.

Theorem write_load_roundtrip_uint_refuted :
  exists (s : list Z) (a : harr Z) f',
    io_write uint_codec None {| h_dataset := s; h_slice := None |} a = (f', IoRet (Some tt) false) /\
    io_load uint_codec f' {| h_dataset := s; h_slice := None |} <> IoRet (Some a) false.
Proof.
  exists [120], {| ha_dims := [4]; ha_elems := [0; 1; 2; 3] |}. eexists.
  split; [vm_compute; reflexivity|]. vm_compute. discriminate.
Qed.

(** ** A well-formed operation sequence (non-vacuity of the refinement theorem) *)
From OW Require Import IO.IoSeqProofs.

Definition seq_example : list (@sop Z) :=
  [ SWrite nm_ga [[103]; [97]] arr23;
    SWriteSlice nm_ga [[103]; [97]] {| ha_dims := [1; 2]; ha_elems := [7; 8] |} [1; 1];
    SLoad nm_ga [[103]; [97]] (Some [None; Some [0; 7; 2]]);
    SCreate nm_ga [[103]; [97]] [2; 3];
    SShape nm_ga [[103]; [97]] ].

Lemma seq_example_ok : sops_ok id_codec (af_empty (V:=Z)) seq_example.
Proof.
  unfold seq_example. simpl sops_ok.
  split; [split; [exact nm_ga_plain | split; [exact arr23_wf | discriminate]]|].
  split.
  { split; [exact nm_ga_plain|]. split.
    - unfold arr_wf, u64. simpl. repeat split; try discriminate; repeat constructor; lia.
    - split; [reflexivity|]. split; [unfold u64; repeat constructor; lia|].
      intros x E. vm_compute in E. inversion E; subst. unfold block_fits. simpl. repeat constructor; lia. }
  split.
  { split; [exact nm_ga_plain|]. intros x l E1 E2 _. vm_compute in E1. inversion E1; subst. inversion E2; subst.
    simpl. repeat constructor; unfold ss_ok; lia. }
  split; [split; [exact nm_ga_plain | split; [discriminate | unfold u64; repeat constructor; lia]]|].
  split; [exact nm_ga_plain | exact I].
Qed.

Example seq_example_run :
  snd (a_run id_codec (af_empty (V:=Z)) seq_example)
  = [ObsUnit (IoRet (Some tt) false); ObsUnit (IoRet (Some tt) false);
     ObsArr (IoRet (Some {| ha_dims := [2; 2]; ha_elems := [10; 12; 20; 8] |}) false);
     ObsUnit (IoRet (Some tt) false); ObsShape (IoRet (Some [2; 3]) false)].
Proof. vm_compute. reflexivity. Qed.
