(** * IO/IoOpsProofs — theorems about the model of /repo/io/hdf5.go

    All statements are about [IO.IoOps] (the model that the correspondence
    check ties to the Go code) run on [IO.H5Store] (the stated HDF5 semantics). *)
From Coq Require Import ZArith List Bool Lia.
From OW Require Import IO.Hyperslab IO.H5Store IO.IoOps IO.HyperslabProofs IO.H5StoreProofs.
Import ListNotations.
Local Open Scope Z_scope.

Definition u64 (x : Z) : Prop := 0 <= x < 18446744073709551616.

Lemma go_uint_id : forall x, u64 x -> go_uint x = x.
Proof. intros x H. unfold go_uint. apply Z.mod_small. exact H. Qed.

Lemma map_go_uint_id : forall l, Forall u64 l -> map go_uint l = l.
Proof. induction 1; simpl; [reflexivity|]. rewrite go_uint_id, IHForall; auto. Qed.

(** The in-memory slice of an array: per axis (start, count, step), elements at
    start + k*step, enumerated row-major.  (What [data.Slice(start, count,
    step).Unroll()] is, by C01/C02.) *)
Definition mem_slice {V} (vz : V) (a : harr V) (tr : list (Z * Z * Z)) : harr V :=
  {| ha_dims := tr_counts tr;
     ha_elems := map (fun k => nth (Z.to_nat (h5_linear (ha_dims a) (affine tr k))) (ha_elems a) vz)
                     (h5_all_indices (tr_counts tr)) |}.

Section Proofs.
  Context {V C : Type} (cd : codec V C).

  (** One file cell per element, and splitting then joining is the identity:
      true of the six element types whose HDF5 type has the size of the Go type. *)
  Definition codec_exact : Prop :=
    cd_ratio cd = 1%nat /\ (forall v, exists c, cd_split cd v = [c]) /\ (forall v, cd_join cd (cd_split cd v) = v).

  Definition cell_val (c : C) : V := cd_join cd [c].
  Definition vzero : V := cell_val (cd_czero cd).

  (** A dataset seen as an array. *)
  Definition ds_view (d : h5dataset C) : harr V :=
    {| ha_dims := ds_dims d; ha_elems := map cell_val (ds_data d) |}.

  Definition ds_wf (d : h5dataset C) : Prop :=
    ds_dims d <> [] /\ Forall u64 (ds_dims d) /\ length (ds_data d) = Z.to_nat (h5_product (ds_dims d)).

  Definition arr_wf (a : harr V) : Prop :=
    ha_dims a <> [] /\ Forall u64 (ha_dims a) /\ length (ha_elems a) = Z.to_nat (h5_product (ha_dims a)).

  Lemma chunks_aux_one : forall fuel (l : list C), (length l <= fuel)%nat ->
    io_chunks_aux fuel 1 l = map (fun c => [c]) l.
  Proof.
    induction fuel as [|f IH]; intros l L.
    - destruct l; simpl in *; [reflexivity|lia].
    - destruct l as [|c l]; [reflexivity|]. simpl. f_equal. apply IH. simpl in L. lia.
  Qed.

  Lemma chunks_one : forall (l : list C), io_chunks 1 l = map (fun c => [c]) l.
  Proof. intros. unfold io_chunks. apply chunks_aux_one. lia. Qed.

  Hypothesis EX : codec_exact.

  Lemma decode_cells : forall b, io_decode cd b = map cell_val b.
  Proof.
    intros b. unfold io_decode. destruct EX as [R _]. rewrite R, chunks_one, map_map. reflexivity.
  Qed.

  Lemma decode_encode : forall l, io_decode cd (io_encode cd l) = l.
  Proof.
    intros l. rewrite decode_cells. unfold io_encode. destruct EX as [_ [S J]].
    induction l as [|v l IH]; simpl; [reflexivity|].
    rewrite map_app, IH. destruct (S v) as [c E]. rewrite E. simpl. unfold cell_val. rewrite <- E, J. reflexivity.
  Qed.

  Lemma encode_length : forall l, length (io_encode cd l) = length l.
  Proof.
    intros l. unfold io_encode. destruct EX as [_ [S _]].
    induction l as [|v l IH]; simpl; [reflexivity|]. rewrite app_length, IH. destruct (S v) as [c E]. rewrite E. reflexivity.
  Qed.

  Lemma zero_buffer_length : forall shape, length (io_zero_buffer cd shape) = Z.to_nat (h5_product shape).
  Proof. intros. unfold io_zero_buffer. rewrite repeat_length. destruct EX as [R _]. rewrite R. lia. Qed.

  Lemma u64_nonneg : forall l, Forall u64 l -> Forall (fun n => 0 <= n) l.
  Proof. intros l H. eapply Forall_impl; [|exact H]. unfold u64. intros; lia. Qed.

  (** Reading a whole dataset into a zeroed buffer of the same extent. *)
  Lemma transfer_all_read : forall data dims buf,
    Forall (fun n => 0 <= n) dims ->
    length data = Z.to_nat (h5_product dims) -> length buf = Z.to_nat (h5_product dims) ->
    h5_transfer (io_czero cd) data dims SelAll buf dims SelAll = Some data.
  Proof.
    intros data dims buf F LD LB. unfold h5_transfer. simpl.
    rewrite Nat.eqb_refl. rewrite linear_all_indices by assumption.
    pose proof (product_nonneg _ F) as PN.
    replace (h5_product dims) with (Z.of_nat (length data)) by lia.
    rewrite gather_zrange by lia. rewrite firstn_all.
    rewrite scatter_prefix by lia. rewrite skipn_all2 by lia. rewrite app_nil_r. reflexivity.
  Qed.

  (** ** Load without a selection returns the dataset *)
  Theorem load_whole : forall st s p d,
    h5_open_dataset st [] s = Some (p, d) -> ds_wf d ->
    io_load cd (Some st) {| h_dataset := s; h_slice := None |} = IoRet (Some (ds_view d)) false.
  Proof.
    intros st s p d O [NE [U L]]. unfold io_load. simpl. rewrite O. simpl.
    destruct (ds_dims d) as [|n dims] eqn:D; [congruence|]. rewrite <- D in *.
    pose proof (product_nonneg _ (u64_nonneg _ U)) as PN.
    destruct (Z.ltb_spec (h5_product (ds_dims d)) 0); [lia|].
    rewrite transfer_all_read; auto using u64_nonneg, zero_buffer_length.
    rewrite decode_cells. reflexivity.
  Qed.


  (** ** Load with a selection *)

  (** A well-formed selection entry for an axis of extent n: nil, or
      [start, stop, step(, ...)] of Go ints with start >= 0, step >= 1 and
      n + step <= 2^63 (no overflow in sliceSize); stop is any int >= MinInt64 + n,
      MaxInt64 included ([ss_ok]). *)
  Definition dimsel_wf (n : Z) (d : dimsel) : Prop :=
    match d with
    | None => True
    | Some (a :: b :: s :: _) => ss_ok a b s n
    | Some _ => False
    end.

  Lemma slice_count_le : forall a b s n, 0 <= a -> 1 <= s -> 0 <= n -> slice_count a b s n <= n.
  Proof.
    intros a b s n Ha Hs Hn.
    destruct (Z_le_gt_dec (slice_count a b s n) 0) as [L|G]; [lia|].
    assert (K : slice_count a b s n - 1 < slice_count a b s n) by lia.
    apply slice_count_spec in K; try lia. nia.
  Qed.

  Lemma slice_triples_valid : forall sl dims,
    Forall2 dimsel_wf dims sl -> Forall u64 dims ->
    tr_valid dims (slice_triples sl dims) /\ length (slice_triples sl dims) = length dims.
  Proof.
    intros sl dims F. revert F. revert sl. induction dims as [|n dims IH]; intros sl F U.
    - inversion F; subst. simpl. split; [constructor | reflexivity].
    - inversion F as [|n' y dims' sl' Hy Hrest]; subst. inversion U as [|x l Un Ul]; subst.
      destruct (IH _ Hrest Ul) as [TV LE]. simpl.
      split; [|rewrite LE; reflexivity].
      constructor; [|exact TV].
      unfold u64 in *.
      destruct y as [[|a [|b [|s r]]]|]; simpl in Hy; try contradiction; simpl.
      + destruct Hy as [Ua [S1 [Hn0 [Hns Hb]]]]. unfold u64 in *.
        pose proof (slice_count_nonneg a b s n S1).
        repeat split; try lia.
        destruct (Z.eq_dec (slice_count a b s n) 0) as [E|N]; [left; exact E|right].
        assert (K : slice_count a b s n - 1 < slice_count a b s n) by lia.
        apply slice_count_spec in K; lia.
      + repeat split; lia.
  Qed.

  Definition tr_offsets (tr : list (Z * Z * Z)) := map (fun t => fst (fst t)) tr.
  Definition tr_steps (tr : list (Z * Z * Z)) := map (fun t => snd t) tr.

  Lemma make_hyperslab_triples : forall sl dims,
    Forall2 dimsel_wf dims sl -> Forall u64 dims ->
    let tr := slice_triples sl dims in
    make_hyperslab sl dims =
      Some {| hs_offset := tr_offsets tr; hs_stride := tr_steps tr; hs_count := tr_counts tr;
              hs_block := map (fun _ => 1) tr |}
    /\ new_shape sl dims = Some (tr_counts tr).
  Proof.
    intros sl dims F U. simpl.
    assert (A : make_hyperslab_aux sl dims = Some (map (fun t => (fst (fst t), snd t, snd (fst t))) (slice_triples sl dims))
                /\ new_shape sl dims = Some (tr_counts (slice_triples sl dims))).
    { revert sl F. induction dims as [|n dims IH]; intros sl F.
      - inversion F; subst. simpl. auto.
      - inversion F as [|n' y dims' sl' Hy Hrest]; subst. inversion U as [|x l Un Ul]; subst.
        destruct (IH Ul _ Hrest) as [IH1 IH2]. simpl. rewrite IH1, IH2.
        destruct y as [[|a [|b [|s r]]]|]; simpl in Hy; try contradiction.
        + pose proof Hy as [Ua [S1 [Hn0 [Hns Hb]]]]. unfold u64 in *.
          assert (SS : slice_size (a :: b :: s :: r) n = Some (slice_count a b s n)).
          { pose proof (slice_size_spec a b s n Hy) as Q. unfold slice_size in *. exact Q. }
          rewrite SS. simpl.
          pose proof (slice_count_nonneg a b s n S1). pose proof (slice_count_le a b s n).
          rewrite !go_uint_id by (unfold u64; lia). auto.
        + simpl. rewrite go_uint_id by assumption. auto. }
    destruct A as [A1 A2]. split; [|exact A2].
    unfold make_hyperslab. rewrite A1. unfold tr_offsets, tr_steps, tr_counts. rewrite !map_map. simpl. reflexivity.
  Qed.


  Lemma any_true_false : forall {A} (p : A -> bool) l, (forall x, In x l -> p x = false) -> h5_any_true p l = false.
  Proof.
    induction l as [|x l IH]; intros H; simpl; [reflexivity|].
    rewrite H by (simpl; auto). simpl. apply IH. intros; apply H; simpl; auto.
  Qed.

  Lemma any_true_exists : forall {A} (p : A -> bool) l, h5_any_true p l = true <-> exists x, In x l /\ p x = true.
  Proof.
    induction l as [|x l IH]; simpl.
    - split; [discriminate | intros [x [[] _]]].
    - rewrite orb_true_iff, IH. split.
      + intros [H|[y [I H]]]; eauto.
      + intros [y [[E|I] H]]; subst; eauto.
  Qed.

  Lemma zero_check_block1 : forall (tr : list (Z * Z * Z)) (f : Z * Z * Z -> Z),
    h5_any_true (fun p => (fst p =? 0) || (snd p =? 0)) (combine (map f tr) (map (fun _ => 1) tr))
    = h5_any_true (fun c => c =? 0) (map f tr).
  Proof. induction tr as [|t tr IH]; intros f; simpl; [reflexivity|]. rewrite IH, orb_false_r. reflexivity. Qed.

  Lemma tr_steps_pos : forall dims tr, tr_valid dims tr -> Forall (fun s => 1 <= s) (tr_steps tr).
  Proof. induction 1 as [|n [[a c] s] dims tr H TVr IH]; simpl; constructor; auto. simpl. lia. Qed.

  Lemma Forall2_len : forall {A B} (R : A -> B -> Prop) l l', Forall2 R l l' -> length l = length l'.
  Proof. induction 1; simpl; auto. Qed.

  Lemma select_hyperslab_block1 : forall dims tr,
    tr_valid dims tr -> tr <> [] ->
    select_hyperslab (length dims) SelAll (tr_offsets tr) (tr_steps tr) (tr_counts tr) (map (fun _ => 1) tr)
    = Some (Some (if h5_any_true (fun c => c =? 0) (tr_counts tr) then SelNone
                  else SelHyper {| hs_offset := tr_offsets tr; hs_stride := tr_steps tr; hs_count := tr_counts tr;
                                   hs_block := map (fun _ => 1) tr |})).
  Proof.
    intros dims tr TV NE. unfold select_hyperslab.
    assert (L : length tr = length dims) by (symmetry; eapply Forall2_len; exact TV).
    unfold tr_offsets, tr_steps, tr_counts. rewrite !map_length, L.
    destruct dims as [|n dims]; [destruct tr; simpl in L; [congruence|discriminate]|].
    simpl Nat.eqb. rewrite Nat.eqb_refl. simpl negb. rewrite Nat.ltb_irrefl. simpl orb.
    rewrite <- L.
    rewrite !firstn_all2 by (rewrite map_length; lia).
    pose proof (tr_steps_pos _ _ TV) as SP. unfold tr_steps in SP. rewrite Forall_forall in SP.
    rewrite any_true_false.
    2:{ intros x I. specialize (SP _ I). apply Z.eqb_neq. lia. }
    rewrite any_true_false.
    2:{ intros [[ct st] bl] I. simpl.
        pose proof (in_combine_l _ _ _ _ I) as I1. pose proof (in_combine_r _ _ _ _ I) as I2.
        apply in_combine_r in I1. specialize (SP _ I1).
        apply in_map_iff in I2. destruct I2 as [t [E _]]. subst bl.
        apply andb_false_iff. right. apply Z.ltb_ge. lia. }
    rewrite zero_check_block1. destruct (h5_any_true (fun c : Z => c =? 0) (map (fun t : Z * Z * Z => snd (fst t)) tr)); reflexivity.
  Qed.

  Lemma flat_map_singleton : forall {A B} (f : A -> B) l, flat_map (fun x => [f x]) l = map f l.
  Proof. induction l; simpl; [reflexivity|]. rewrite IHl. reflexivity. Qed.

  Lemma axis_coords_block1 : forall a s c, axis_coords a s c 1 = tr_axis (a, c, s).
  Proof.
    intros. unfold axis_coords, tr_axis. simpl fst. simpl snd.
    change (h5_zrange 1) with [0]. simpl map. rewrite <- flat_map_singleton.
    apply flat_map_ext. intros x. f_equal. lia.
  Qed.

  Lemma hyper_axes_block1 : forall dims tr,
    tr_valid dims tr -> Forall (fun c => c <> 0) (tr_counts tr) ->
    hyper_axes dims (tr_offsets tr) (tr_steps tr) (tr_counts tr) (map (fun _ => 1) tr) = Some (map tr_axis tr).
  Proof.
    induction 1 as [|n [[a c] s] dims tr H TVr IH]; intros NZ; simpl; [reflexivity|].
    inversion NZ as [|x l NZ1 NZ2]; subst. simpl in NZ1.
    unfold axis_valid. destruct H as [Ha [Hs [Hc [E|Hv]]]]; [congruence|].
    destruct (Z.leb_spec (a + s * (c - 1) + 1) n); [|nia].
    rewrite IH by assumption.
    rewrite axis_coords_block1. reflexivity.
  Qed.

  Lemma product_zero : forall l, In 0 l -> h5_product l = 0.
  Proof. induction l as [|x l IH]; simpl; intros H; [contradiction|]. destruct H as [E|I]; subst; [lia|]. rewrite IH by assumption. lia. Qed.

  Lemma all_indices_empty : forall dims, Forall (fun n => 0 <= n) dims -> In 0 dims -> h5_all_indices dims = [].
  Proof.
    intros dims F I. apply length_zero_iff_nil. rewrite all_indices_length by assumption.
    rewrite product_zero by assumption. reflexivity.
  Qed.

  (** Loading with a per-dimension [start, stop, step] selection (nil = whole
      axis, stop may lie beyond the extent) returns exactly the in-memory slice:
      shape = per-axis number of k >= 0 with start + k*step < min(stop, n),
      elements = those at start + k*step, row-major. *)
  Theorem load_subset_eq_memory_slice : forall st s p d sl,
    h5_open_dataset st [] s = Some (p, d) -> ds_wf d ->
    Forall2 dimsel_wf (ds_dims d) sl ->
    has_selection (Some sl) = true ->
    io_load cd (Some st) {| h_dataset := s; h_slice := Some sl |}
    = IoRet (Some (mem_slice vzero (ds_view d) (slice_triples sl (ds_dims d)))) false.
  Proof.
    intros st s p d sl O [NE [U L]] WF HS. unfold io_load. simpl h_dataset. simpl h_slice. rewrite O, HS.
    unfold io_load_subset.
    destruct (ds_dims d) as [|n0 dims0] eqn:D; [congruence|]. rewrite <- D in *.
    set (tr := slice_triples sl (ds_dims d)).
    destruct (make_hyperslab_triples sl (ds_dims d) WF U) as [MH NS]. fold tr in MH, NS.
    rewrite MH. simpl hs_offset. simpl hs_stride. simpl hs_count. simpl hs_block.
    destruct (slice_triples_valid sl (ds_dims d) WF U) as [TV LT]. fold tr in TV, LT.
    assert (TNE : tr <> []) by (intros E; rewrite E in LT; rewrite D in LT; discriminate).
    rewrite (select_hyperslab_block1 _ _ TV TNE). rewrite NS.
    pose proof (tr_counts_nonneg _ _ TV) as CN.
    pose proof (product_nonneg _ CN) as PN.
    destruct (Z.ltb_spec (h5_product (tr_counts tr)) 0); [lia|].
    assert (UC : map go_uint (tr_counts tr) = tr_counts tr).
    { apply map_go_uint_id. clear - TV U.
      induction TV as [|n [[a c] s] dims tr H TVr IH]; simpl; constructor.
      - inversion U; subst. simpl. destruct H as [Ha [Hs [Hc [E|Hv]]]]; unfold u64 in *; nia.
      - apply IH. inversion U; auto. }
    rewrite UC.
    unfold mem_slice. simpl ha_dims.
    destruct (h5_any_true (fun c => c =? 0) (tr_counts tr)) eqn:AZ.
    - (* empty selection *)
      apply any_true_exists in AZ. destruct AZ as [x [I E]]. apply Z.eqb_eq in E. subst x.
      unfold h5_transfer. simpl h5_select.
      rewrite (all_indices_empty _ CN I). simpl.
      rewrite decode_cells.
      assert (Z0 : io_zero_buffer cd (tr_counts tr) = []).
      { apply length_zero_iff_nil. rewrite zero_buffer_length, product_zero by assumption. reflexivity. }
      rewrite Z0. reflexivity.
    - (* regular hyperslab *)
      assert (NZ : Forall (fun c => c <> 0) (tr_counts tr)).
      { apply Forall_forall. intros x I E. subst.
        assert (h5_any_true (fun c => c =? 0) (tr_counts tr) = true) by (apply any_true_exists; exists 0; auto).
        congruence. }
      unfold h5_transfer. simpl h5_select.
      rewrite (hyper_axes_block1 _ _ TV NZ). rewrite cartesian_affine.
      rewrite !map_length, Nat.eqb_refl.
      rewrite linear_all_indices by assumption.
      set (vals := h5_gather (io_czero cd) (ds_data d) (map (h5_linear (ds_dims d)) (map (affine tr) (h5_all_indices (tr_counts tr))))).
      assert (LV : length vals = Z.to_nat (h5_product (tr_counts tr))).
      { unfold vals. rewrite gather_length, !map_length. apply all_indices_length. assumption. }
      replace (h5_product (tr_counts tr)) with (Z.of_nat (length vals)) by lia.
      rewrite scatter_prefix by (rewrite zero_buffer_length; lia).
      rewrite skipn_all2 by (rewrite zero_buffer_length; lia). rewrite app_nil_r.
      rewrite decode_cells. unfold vals, h5_gather. rewrite !map_map.
      f_equal. f_equal. f_equal. apply map_ext. intros k.
      unfold ds_view. simpl ha_dims. simpl ha_elems. unfold vzero.
      rewrite map_nth. reflexivity.
  Qed.


  (** ** Names *)

  (** [s] is the plain spelling of the path [p]: components separated by single
      slashes, optionally one leading slash, no empty or "." components. *)
  Definition plain_comp (c : h5name) : Prop := c <> [] /\ c <> [ch_dot] /\ ~ In ch_slash c.
  Definition plain_name (s : list Z) (p : h5path) : Prop :=
    p <> [] /\ Forall plain_comp p /\ (split_slash s = p \/ split_slash s = [] :: p).

  Lemma split_slash_aux_noslash : forall s cur, ~ In ch_slash s -> split_slash_aux s cur = [rev cur ++ s].
  Proof.
    induction s as [|x s IH]; intros cur N; simpl.
    - rewrite app_nil_r. reflexivity.
    - destruct (Z.eqb_spec x ch_slash) as [E|NE]; [exfalso; apply N; simpl; auto|].
      rewrite IH by (intros I; apply N; simpl; auto). simpl. rewrite <- app_assoc. reflexivity.
  Qed.

  Lemma split_slash_aux_app : forall x rest cur, ~ In ch_slash x ->
    split_slash_aux (x ++ ch_slash :: rest) cur = (rev cur ++ x) :: split_slash_aux rest [].
  Proof.
    induction x as [|c x IH]; intros rest cur N; simpl.
    - rewrite app_nil_r. reflexivity.
    - destruct (Z.eqb_spec c ch_slash) as [E|NE]; [exfalso; apply N; simpl; auto|].
      rewrite IH by (intros I; apply N; simpl; auto). simpl. rewrite <- app_assoc. reflexivity.
  Qed.

  (** [strings.Split(strings.Join(l, "/"), "/") = l] for slash-free components:
      the recursion of [createDataset] on the re-joined tail of the path is the
      recursion on the tail of the component list ([create_dataset_rec]). *)
  Lemma split_join_slash : forall l, l <> [] -> Forall (fun c => ~ In ch_slash c) l ->
    split_slash (join_slash l) = l.
  Proof.
    induction l as [|x l IH]; intros NE F; [congruence|].
    inversion F as [|y r Nx Fl]; subst. destruct l as [|y l].
    - simpl. unfold split_slash. rewrite split_slash_aux_noslash by assumption. reflexivity.
    - change (join_slash (x :: y :: l)) with (x ++ ch_slash :: join_slash (y :: l)).
      unfold split_slash. rewrite split_slash_aux_app by assumption. simpl rev. simpl app at 1.
      f_equal. apply IH; [discriminate | assumption].
  Qed.

  Lemma h5name_eqb_neq : forall a b, a <> b -> h5name_eqb a b = false.
  Proof. intros a b N. destruct (h5name_eqb a b) eqn:E; auto. apply h5name_eqb_eq in E. contradiction. Qed.

  Lemma plain_comp_not_skip : forall c, plain_comp c -> h5_is_skip c = false.
  Proof. intros c [N1 [N2 _]]. unfold h5_is_skip. rewrite !h5name_eqb_neq by assumption. reflexivity. Qed.

  Lemma plain_comp_comps : forall c, plain_comp c -> h5_comps c = (false, [c]).
  Proof.
    intros c PC. pose proof PC as [N1 [N2 N3]]. unfold h5_comps, split_slash. rewrite split_slash_aux_noslash by assumption.
    simpl. rewrite plain_comp_not_skip by assumption. simpl.
    destruct c as [|x c]; [congruence|].
    destruct (Z.eqb_spec x ch_slash); [exfalso; apply N3; simpl; auto | reflexivity].
  Qed.

  Lemma plain_comp_resolve : forall g c, plain_comp c -> h5_resolve g c = g ++ [c].
  Proof. intros. unfold h5_resolve. rewrite plain_comp_comps by assumption. reflexivity. Qed.

  Lemma filter_plain : forall p, Forall plain_comp p -> filter (fun n => negb (h5_is_skip n)) p = p.
  Proof. induction 1; simpl; [reflexivity|]. rewrite plain_comp_not_skip by assumption. simpl. f_equal. assumption. Qed.

  Lemma plain_name_resolve : forall s p, plain_name s p -> h5_resolve [] s = p /\ s <> [].
  Proof.
    intros s p [NE [F SP]]. split.
    - unfold h5_resolve, h5_comps.
      assert (E : filter (fun n => negb (h5_is_skip n)) (split_slash s) = p).
      { destruct SP as [SP|SP]; rewrite SP; [apply filter_plain; assumption|].
        simpl. apply filter_plain. assumption. }
      rewrite E. destruct (match s with [] => false | c :: _ => c =? ch_slash end); reflexivity.
    - intros E. subst s. unfold split_slash in SP. simpl in SP.
      destruct SP as [SP|SP].
      + subst p. inversion F as [|x l [N _] _]; subst. congruence.
      + inversion SP as [E1]. apply NE. symmetry. exact E1.
  Qed.

  Lemma plain_open_dataset : forall (st : h5store C) s p, plain_name s p ->
    h5_open_dataset st [] s = match st_lookup st p with Some (ODataset d) => Some (p, d) | _ => None end.
  Proof.
    intros st s p PN. destruct (plain_name_resolve _ _ PN) as [R NE].
    unfold h5_open_dataset. destruct s as [|x s]; [congruence|]. rewrite R.
    destruct PN as [PNE _]. destruct p; [congruence|]. reflexivity.
  Qed.


  (** ** Creation walks only append; what they append *)

  Fixpoint walk (p : h5path) (st : h5store C) (g : h5path) (shape : list Z) (deflate : bool)
    : h5store C * io_res h5path :=
    match p with
    | [] => (st, IoPanic)
    | c :: t => cd_step cd st g c t shape deflate (fun st' g' => walk t st' g' shape deflate)
    end.

  Lemma cd_step_ext : forall st g c t shape df r1 r2,
    (forall st' g', r1 st' g' = r2 st' g') -> cd_step cd st g c t shape df r1 = cd_step cd st g c t shape df r2.
  Proof.
    intros. unfold cd_step. destruct t; [reflexivity|].
    destruct (h5_open_group st g c); [auto|]. destruct (h5_create_group st g c) as [[? ?]|]; auto.
  Qed.

  Lemma cdr_walk : forall p st g shape df, Forall plain_comp p ->
    create_dataset_rec cd p st g shape df = walk p st g shape df.
  Proof.
    induction p as [|c t IH]; intros st g shape df F; [reflexivity|].
    inversion F as [|x l [N _] Ft]; subst. simpl. rewrite h5name_eqb_neq by assumption.
    apply cd_step_ext. intros. apply IH. assumption.
  Qed.

  Lemma cdr_walk_split : forall s p st shape df, plain_name s p ->
    create_dataset_rec cd (split_slash s) st [] shape df = walk p st [] shape df.
  Proof.
    intros s p st shape df [NE [F [SP|SP]]]; rewrite SP.
    - apply cdr_walk. assumption.
    - destruct p as [|c t]; [congruence|]. simpl.
      inversion F; subst. apply cd_step_ext. intros. apply cdr_walk. assumption.
  Qed.

  Definition zeros_ds (shape : list Z) : h5dataset C :=
    {| ds_dims := map go_uint shape; ds_data := repeat (io_czero cd) (Z.to_nat (h5_product (map go_uint shape))) |}.

  Definition all_groups (l : h5store C) : Prop := Forall (fun kv => snd kv = OGroup) l.

  Lemma create_target_plain : forall (st : h5store C) g c, plain_comp c ->
    h5_create_target st g c =
    if st_is_group st g then match st_lookup st (g ++ [c]) with None => Some (g ++ [c]) | Some _ => None end else None.
  Proof.
    intros st g c PC. unfold h5_create_target. rewrite plain_comp_resolve by assumption.
    rewrite rev_app_distr. simpl. rewrite rev_involutive. reflexivity.
  Qed.

  Lemma open_group_plain : forall (st : h5store C) g c, plain_comp c ->
    h5_open_group st g c = if st_is_group st (g ++ [c]) then Some (g ++ [c]) else None.
  Proof.
    intros st g c PC. unfold h5_open_group. rewrite plain_comp_resolve by assumption.
    destruct PC as [N _]. destruct c; [congruence|]. reflexivity.
  Qed.

  Lemma walk_spec : forall p st g shape st1 r,
    Forall plain_comp p -> p <> [] -> shape <> [] ->
    walk p st g shape false = (st1, r) ->
    match r with
    | IoRet (Some q) _ =>
        q = g ++ p /\ exists grp, st1 = st ++ grp ++ [(q, ODataset (zeros_ds shape))] /\ all_groups grp
                                 /\ st_lookup (st ++ grp) q = None
    | IoRet None _ => exists grp, st1 = st ++ grp /\ all_groups grp
    | IoPanic => False
    end.
  Proof.
    induction p as [|c t IH]; intros st g shape st1 r F NEP NES W; [congruence|].
    inversion F as [|x l PC Ft]; subst. simpl in W. unfold cd_step in W.
    destruct t as [|c' t'].
    - (* leaf *)
      destruct shape as [|n shape]; [congruence|].
      unfold h5_create_dataset in W. rewrite create_target_plain in W by assumption.
      destruct (st_is_group st g).
      + destruct (st_lookup st (g ++ [c])) eqn:LK.
        * inversion W; subst. exists []. rewrite app_nil_r. split; [reflexivity|constructor].
        * inversion W; subst. split; [reflexivity|]. exists []. simpl. rewrite app_nil_r.
          split; [reflexivity|]. split; [constructor|assumption].
      + inversion W; subst. exists []. rewrite app_nil_r. split; [reflexivity|constructor].
    - (* group step *)
      rewrite open_group_plain in W by assumption.
      assert (NT : c' :: t' <> []) by discriminate.
      destruct (st_is_group st (g ++ [c])).
      + specialize (IH _ _ _ _ _ Ft NT NES W).
        destruct r as [|[q|] e]; auto.
        destruct IH as [E X]. split; [|exact X]. rewrite E, <- app_assoc. reflexivity.
      + unfold h5_create_group in W. rewrite create_target_plain in W by assumption.
        destruct (st_is_group st g).
        * destruct (st_lookup st (g ++ [c])) eqn:LK.
          -- inversion W; subst. exists []. rewrite app_nil_r. split; [reflexivity|constructor].
          -- specialize (IH _ _ _ _ _ Ft NT NES W).
             destruct r as [|[q|] e]; auto.
             ++ destruct IH as [E [grp [S1 [AG LN]]]]. split; [rewrite E, <- app_assoc; reflexivity|].
                exists ((g ++ [c], OGroup) :: grp). split; [rewrite S1, <- app_assoc; reflexivity|].
                split; [constructor; [reflexivity|assumption]|].
                rewrite <- LN. f_equal. rewrite <- app_assoc. reflexivity.
             ++ destruct IH as [grp [S1 AG]]. exists ((g ++ [c], OGroup) :: grp).
                split; [rewrite S1, <- app_assoc; reflexivity | constructor; [reflexivity|assumption]].
        * inversion W; subst. exists []. rewrite app_nil_r. split; [reflexivity|constructor].
  Qed.


  (** ** Stores *)
  Definition store_wf (st : h5store C) : Prop := forall r d, st_lookup st r = Some (ODataset d) -> ds_wf d.
  Definition file_wf (f : h5file (C:=C)) : Prop := match f with Some st => store_wf st | None => True end.

  Lemma lookup_app_old : forall (st e : h5store C) r o, st_lookup st r = Some o -> st_lookup (st ++ e) r = Some o.
  Proof.
    induction st as [|[q x] st IH]; simpl; intros e r o L; [discriminate|].
    destruct (h5path_eqb q r); auto.
  Qed.

  Lemma lookup_app_none : forall (st e : h5store C) r, st_lookup st r = None -> st_lookup (st ++ e) r = st_lookup e r.
  Proof.
    induction st as [|[q x] st IH]; simpl; intros e r L; [reflexivity|].
    destruct (h5path_eqb q r); [discriminate|auto].
  Qed.

  Lemma lookup_groups : forall (grp : h5store C) r d, all_groups grp -> st_lookup grp r <> Some (ODataset d).
  Proof.
    induction grp as [|[q x] grp IH]; simpl; intros r d AG; [discriminate|].
    inversion AG as [|y l E AG']; subst. simpl in E. subst x.
    destruct (h5path_eqb q r); [discriminate|auto].
  Qed.

  Lemma lookup_app_groups : forall (st grp : h5store C) r d, all_groups grp ->
    st_lookup (st ++ grp) r = Some (ODataset d) <-> st_lookup st r = Some (ODataset d).
  Proof.
    intros st grp r d AG. split; intros L.
    - destruct (st_lookup st r) as [o|] eqn:E.
      + rewrite (lookup_app_old _ grp _ _ E) in L. exact L.
      + rewrite lookup_app_none in L by assumption. exfalso. eapply lookup_groups; eauto.
    - apply lookup_app_old. exact L.
  Qed.

  Lemma zeros_ds_wf : forall shape, shape <> [] -> Forall u64 shape -> ds_wf (zeros_ds shape) /\ ds_dims (zeros_ds shape) = shape.
  Proof.
    intros shape NE U. unfold zeros_ds, ds_wf. simpl. rewrite map_go_uint_id by assumption.
    repeat split; auto. apply repeat_length.
  Qed.

  Lemma zlist_eqb_eq : forall a b, zlist_eqb a b = true <-> a = b.
  Proof.
    induction a as [|x a IH]; intros [|y b]; simpl; split; intros H; try discriminate; auto.
    - apply andb_true_iff in H. destruct H as [H1 H2]. apply Z.eqb_eq in H1. apply IH in H2. subst. reflexivity.
    - inversion H; subst. rewrite Z.eqb_refl. simpl. apply IH. reflexivity.
  Qed.

  (** What [openOrCreateDataset] does to a well-formed store, for a plain name. *)
  Lemma ocd_spec : forall st s p shape st1 r,
    store_wf st -> plain_name s p -> shape <> [] -> Forall u64 shape ->
    open_or_create_dataset cd st s shape false = (st1, r) ->
    store_wf st1 /\
    (forall q o, st_lookup st q = Some o -> st_lookup st1 q = Some o) /\
    (forall q d, q <> p -> (st_lookup st1 q = Some (ODataset d) <-> st_lookup st q = Some (ODataset d))) /\
    match r with
    | IoPanic => False
    | IoRet (Some q) _ =>
        q = p /\
        match st_lookup st p with
        | Some (ODataset d0) => st1 = st /\ ds_dims d0 = shape
        | _ => st_lookup st1 p = Some (ODataset (zeros_ds shape))
        end
    | IoRet None _ => forall d, st_lookup st1 p = Some (ODataset d) <-> st_lookup st p = Some (ODataset d)
    end.
  Proof.
    intros st s p shape st1 r WF PN NES U O. unfold open_or_create_dataset in O.
    rewrite (plain_open_dataset _ _ _ PN) in O.
    destruct (st_lookup st p) as [[|d0]|] eqn:LK.
    1,3: (* not a dataset: create *)
      rewrite (cdr_walk_split _ _ _ _ _ PN) in O;
      destruct PN as [PNE [PF _]];
      pose proof (walk_spec _ _ _ _ _ _ PF PNE NES O) as W;
      destruct r as [|[q|] e]; [contradiction| |];
      [ destruct W as [E [grp [S1 [AG LN]]]]; simpl in E; subst q;
        destruct (zeros_ds_wf shape NES U) as [ZW ZD];
        assert (LP : st_lookup st1 p = Some (ODataset (zeros_ds shape)))
          by (rewrite S1, app_assoc, lookup_app_new, LN, h5path_eqb_refl; reflexivity);
        assert (LO : forall q d, q <> p -> (st_lookup st1 q = Some (ODataset d) <-> st_lookup st q = Some (ODataset d)))
          by (intros q d NQ; rewrite S1, app_assoc, lookup_app_new;
              rewrite (h5path_eqb_neq p q) by congruence;
              destruct (st_lookup (st ++ grp) q) eqn:LQ;
              [rewrite <- LQ; apply lookup_app_groups; assumption
              | split; [discriminate | intros L2; rewrite (proj2 (lookup_app_groups st grp q d AG) L2) in LQ; discriminate]]);
        split; [| split; [| split; [exact LO | split; [reflexivity | exact LP]]]];
        [ intros q d L; destruct (list_eq_dec (list_eq_dec Z.eq_dec) q p) as [EQ|NQ];
          [subst q; rewrite LP in L; inversion L; subst; exact ZW | apply (WF q d); apply (LO q d NQ); exact L]
        | intros q o L; rewrite S1; apply lookup_app_old; exact L ]
      | destruct W as [grp [S1 AG]];
        split; [| split; [| split]];
        [ intros q d L; rewrite S1 in L; apply lookup_app_groups in L; [eapply WF; eauto | assumption]
        | intros q o L; rewrite S1; apply lookup_app_old; exact L
        | intros q d _; rewrite S1; apply lookup_app_groups; assumption
        | intros d; rewrite S1; rewrite <- LK; apply lookup_app_groups; assumption ] ].
    (* an existing dataset *)
    pose proof (WF _ _ LK) as [DNE [DU DL]].
    destruct (ds_dims d0) as [|n0 dims0] eqn:D; [congruence|]. rewrite <- D in *.
    destruct (zlist_eqb (ds_dims d0) shape) eqn:ZE; inversion O; subst.
    - apply zlist_eqb_eq in ZE.
      split; [exact WF|]. split; [auto|]. split; [intros; tauto|]. split; [reflexivity|]. split; [reflexivity|exact ZE].
    - split; [exact WF|]. split; [auto|]. split; [intros; tauto|]. intros d; rewrite LK; tauto.
  Qed.


  (** ** Create on an existing dataset: contents untouched, other shape refused *)
  Theorem create_existing : forall st s p d shape compress,
    store_wf st -> plain_name s p -> st_lookup st p = Some (ODataset d) ->
    io_create cd (Some st) {| h_dataset := s; h_slice := None |} shape compress
    = (Some st, if zlist_eqb (ds_dims d) shape then IoRet (Some tt) false else IoRet None true).
  Proof.
    intros st s p d shape c WF PN LK. unfold io_create, open_or_create_dataset. simpl.
    rewrite (plain_open_dataset _ _ _ PN), LK.
    destruct (WF _ _ LK) as [NE _]. destruct (ds_dims d) eqn:D; [congruence|].
    destruct (zlist_eqb (z :: l) shape); reflexivity.
  Qed.

  (** ** Write *)
  Lemma arr_encode_length : forall a, arr_wf a -> length (io_encode cd (ha_elems a)) = Z.to_nat (h5_product (ha_dims a)).
  Proof. intros a [_ [_ L]]. rewrite encode_length. exact L. Qed.

  Lemma write_spec : forall f s p a f' r,
    file_wf f -> plain_name s p -> arr_wf a -> ha_elems a <> [] ->
    io_write cd f {| h_dataset := s; h_slice := None |} a = (f', r) ->
    exists st', f' = Some st' /\ store_wf st' /\
      (forall q d, q <> p -> (st_lookup st' q = Some (ODataset d) <-> st_lookup (open_or_new f) q = Some (ODataset d))) /\
      match r with
      | IoPanic => False
      | IoRet (Some _) _ =>
          st_lookup st' p = Some (ODataset {| ds_dims := ha_dims a; ds_data := io_encode cd (ha_elems a) |}) /\
          (forall d0, st_lookup (open_or_new f) p = Some (ODataset d0) -> ds_dims d0 = ha_dims a)
      | IoRet None _ => forall d, st_lookup st' p = Some (ODataset d) <-> st_lookup (open_or_new f) p = Some (ODataset d)
      end.
  Proof.
    intros f s p a f' r FW PN AW NEE W. unfold io_write in W. simpl h_dataset in W.
    set (st0 := open_or_new f) in *.
    assert (WF0 : store_wf st0) by (destruct f; [exact FW | intros q d L; discriminate]).
    destruct (ha_elems a) as [|v0 vs] eqn:HE; [congruence|]. rewrite <- HE in *.
    destruct AW as [DNE [DU DL]].
    destruct (open_or_create_dataset cd st0 s (ha_dims a) false) as [st1 r1] eqn:O.
    destruct (ocd_spec _ _ _ _ _ _ WF0 PN DNE DU O) as [WF1 [OLD [OTH R1]]].
    destruct r1 as [|[q|] e1]; [contradiction| |].
    - destruct R1 as [EQ R1]. subst q.
      assert (LD : exists d, st_lookup st1 p = Some (ODataset d) /\ ds_dims d = ha_dims a /\ ds_wf d).
      { destruct (st_lookup st0 p) as [[|d0]|] eqn:LK.
        - exists (zeros_ds (ha_dims a)). destruct (zeros_ds_wf _ DNE DU). auto.
        - destruct R1 as [E1 E2]. subst st1. exists d0. split; [exact LK|]. split; [exact E2 | eapply WF0; eauto].
        - exists (zeros_ds (ha_dims a)). destruct (zeros_ds_wf _ DNE DU). auto. }
      destruct LD as [d [L1 [D1 [_ [_ DLEN]]]]]. rewrite L1 in W.
      rewrite transfer_all_read in W; try (rewrite D1; auto using u64_nonneg).
      2:{ rewrite encode_length. exact DL. }
      2:{ rewrite <- D1. exact DLEN. }
      inversion W; subst. eexists. split; [reflexivity|].
      split; [|split; [|split]].
      + intros q dq L. destruct (list_eq_dec (list_eq_dec Z.eq_dec) q p) as [EQ|NQ].
        * subst q. rewrite (lookup_update_same _ _ _ _ L1) in L. inversion L; subst.
          unfold ds_wf. simpl. rewrite D1. repeat split; auto. rewrite encode_length. exact DL.
        * rewrite lookup_update_other in L by congruence. eapply WF1; eauto.
      + intros q dq NQ. rewrite lookup_update_other by congruence. apply OTH. exact NQ.
      + rewrite (lookup_update_same _ _ _ _ L1), D1. reflexivity.
      + intros d0 L0. rewrite L0 in R1. destruct R1; assumption.
    - inversion W; subst. eexists. split; [reflexivity|]. split; [exact WF1|]. split; [exact OTH|exact R1].
  Qed.

  (** Writing an array and loading it back returns the same shape and values. *)
  Theorem write_load_roundtrip : forall f s p a f',
    file_wf f -> plain_name s p -> arr_wf a -> ha_elems a <> [] ->
    io_write cd f {| h_dataset := s; h_slice := None |} a = (f', IoRet (Some tt) false) ->
    io_load cd f' {| h_dataset := s; h_slice := None |} = IoRet (Some a) false.
  Proof.
    intros f s p a f' FW PN AW NEE W.
    destruct (write_spec _ _ _ _ _ _ FW PN AW NEE W) as [st' [E [WF' [_ [LK _]]]]]. subst f'.
    assert (OD : h5_open_dataset st' [] s = Some (p, {| ds_dims := ha_dims a; ds_data := io_encode cd (ha_elems a) |}))
      by (rewrite (plain_open_dataset _ _ _ PN), LK; reflexivity).
    rewrite (load_whole _ _ _ _ OD (WF' _ _ LK)).
    unfold ds_view. cbn [ds_dims ds_data]. rewrite <- decode_cells, decode_encode. destruct a; reflexivity.
  Qed.


  (** ** WriteSlice: effect and frame *)

  (** The block [loc, loc+shape) as an affine box with unit steps. *)
  Fixpoint block_tr (loc shape : list Z) : list (Z * Z * Z) :=
    match loc, shape with
    | l :: loc', sh :: shape' => (l, sh, 1) :: block_tr loc' shape'
    | _, _ => []
    end.

  Lemma block_tr_parts : forall loc shape, length loc = length shape ->
    tr_offsets (block_tr loc shape) = loc /\ tr_counts (block_tr loc shape) = shape
    /\ tr_steps (block_tr loc shape) = map (fun _ => 1) loc /\ length (block_tr loc shape) = length loc
    /\ map (fun _ : Z * Z * Z => 1) (block_tr loc shape) = map (fun _ => 1) loc.
  Proof.
    induction loc as [|l loc IH]; intros [|sh shape] L; simpl in *; try discriminate; [repeat split|].
    destruct (IH shape) as [A [B [D [E F]]]]; [lia|]. unfold tr_offsets, tr_counts, tr_steps in *. simpl.
    rewrite A, B, D, E, F. repeat split.
  Qed.

  (** The block lies inside the extent and is not empty. *)
  Definition block_fits (dims loc shape : list Z) : Prop :=
    Forall2 (fun n t => let '(l, sh, st) := t in 0 <= l /\ 1 <= sh /\ l + sh <= n /\ st = 1) dims (block_tr loc shape).

  Lemma block_fits_valid : forall dims tr,
    Forall2 (fun n t => let '(l, sh, st) := t in 0 <= l /\ 1 <= sh /\ l + sh <= n /\ st = 1) dims tr ->
    tr_valid dims tr /\ Forall (fun c => c <> 0) (tr_counts tr) /\ Forall (fun t => snd t = 1) tr.
  Proof.
    induction 1 as [|n [[l sh] st] dims tr H BF [IH1 [IH2 IH3]]]; simpl.
    - repeat split; constructor.
    - destruct H as [H1 [H2 [H3 H4]]]. subst st.
      split; [constructor; [|exact IH1]; repeat split; try lia|].
      split; constructor; auto. simpl. lia.
  Qed.

  Lemma axis_coords_block : forall l sh, axis_coords l 1 1 sh = tr_axis (l, sh, 1).
  Proof.
    intros. unfold axis_coords, tr_axis. change (h5_zrange 1) with [0]. simpl. rewrite app_nil_r.
    apply map_ext. intros. lia.
  Qed.

  Lemma hyper_axes_block : forall dims tr,
    Forall2 (fun n t => let '(l, sh, st) := t in 0 <= l /\ 1 <= sh /\ l + sh <= n /\ st = 1) dims tr ->
    hyper_axes dims (tr_offsets tr) (map (fun _ => 1) tr) (map (fun _ => 1) tr) (tr_counts tr) = Some (map tr_axis tr).
  Proof.
    induction 1 as [|n [[l sh] st] dims tr H BF IH]; simpl; [reflexivity|].
    destruct H as [H1 [H2 [H3 H4]]]. subst st.
    unfold axis_valid. destruct (Z.leb_spec (l + 1 * (1 - 1) + sh) n); [|lia].
    rewrite IH, axis_coords_block. reflexivity.
  Qed.

  Lemma select_hyperslab_block : forall dims tr,
    Forall2 (fun n t => let '(l, sh, st) := t in 0 <= l /\ 1 <= sh /\ l + sh <= n /\ st = 1) dims tr -> tr <> [] ->
    select_hyperslab (length dims) SelAll (tr_offsets tr) (map (fun _ => 1) tr) (map (fun _ => 1) tr) (tr_counts tr)
    = Some (Some (SelHyper {| hs_offset := tr_offsets tr; hs_stride := map (fun _ => 1) tr;
                              hs_count := map (fun _ => 1) tr; hs_block := tr_counts tr |})).
  Proof.
    intros dims tr BF NE. unfold select_hyperslab.
    assert (L : length tr = length dims) by (symmetry; eapply Forall2_len; exact BF).
    destruct (block_fits_valid _ _ BF) as [_ [NZ _]].
    unfold tr_offsets, tr_counts in *. rewrite !map_length, L.
    destruct dims as [|n dims]; [destruct tr; simpl in L; [congruence|discriminate]|].
    simpl Nat.eqb. rewrite Nat.eqb_refl. simpl negb. rewrite Nat.ltb_irrefl. simpl orb.
    rewrite <- L. rewrite !firstn_all2 by (rewrite map_length; lia).
    rewrite any_true_false.
    2:{ intros x I. apply in_map_iff in I. destruct I as [t [E _]]. subst. reflexivity. }
    rewrite any_true_false.
    2:{ intros [[ct st] bl] I. simpl.
        pose proof (in_combine_l _ _ _ _ I) as I1. apply in_combine_l in I1.
        apply in_map_iff in I1. destruct I1 as [t [E _]]. subst ct. reflexivity. }
    rewrite any_true_false; [reflexivity|].
    intros [ct bl] I. simpl.
    pose proof (in_combine_l _ _ _ _ I) as I1. pose proof (in_combine_r _ _ _ _ I) as I2.
    apply in_map_iff in I1. destruct I1 as [t [E _]]. subst ct. simpl.
    rewrite Forall_forall in NZ. specialize (NZ _ I2). apply Z.eqb_neq. exact NZ.
  Qed.


  (** Writing a sub-array [a] at [loc] changes exactly the block
      [loc, loc + shape(a)) of the dataset -- cell loc + k receives element k --
      and nothing else: not the other cells, not the extent, not any other
      object of the file. *)
  Theorem write_slice_spec : forall st s p d a loc,
    store_wf st -> plain_name s p -> st_lookup st p = Some (ODataset d) ->
    arr_wf a -> length loc = length (ha_dims a) -> Forall u64 loc ->
    block_fits (ds_dims d) loc (ha_dims a) ->
    let tr := block_tr loc (ha_dims a) in
    let cz := io_czero cd in
    exists data',
      io_write_slice cd (Some st) {| h_dataset := s; h_slice := None |} a loc
        = (Some (st_update st p (ODataset {| ds_dims := ds_dims d; ds_data := data' |})), IoRet (Some tt) false)
      /\ length data' = length (ds_data d)
      /\ (forall k, in_range (ha_dims a) k ->
            nth (Z.to_nat (h5_linear (ds_dims d) (affine tr k))) data' cz
            = nth (Z.to_nat (h5_linear (ha_dims a) k)) (io_encode cd (ha_elems a)) cz)
      /\ (forall idx, in_range (ds_dims d) idx -> (forall k, in_range (ha_dims a) k -> idx <> affine tr k) ->
            nth (Z.to_nat (h5_linear (ds_dims d) idx)) data' cz = nth (Z.to_nat (h5_linear (ds_dims d) idx)) (ds_data d) cz).
  Proof.
    intros st s p d a loc WF PN LK [ANE [AU AL]] LL LU BF tr cz.
    destruct (WF _ _ LK) as [DNE [DU DL]].
    destruct (block_tr_parts loc (ha_dims a) LL) as [TO [TC [TS [TL TM]]]]. fold tr in TO, TC, TS, TL, TM.
    unfold block_fits in BF. fold tr in BF.
    destruct (block_fits_valid _ _ BF) as [TV [NZ ST1]].
    assert (TNE : tr <> []).
    { intros E. pose proof (Forall2_len _ _ _ BF) as L0. rewrite E in L0. destruct (ds_dims d); [congruence|discriminate]. }
    pose proof (select_hyperslab_block _ _ BF TNE) as SH. rewrite TO, TC, TM in SH.
    pose proof (hyper_axes_block _ _ BF) as HA. rewrite TO, TC, TM in HA.
    unfold io_write_slice. simpl h_dataset.
    rewrite (plain_open_dataset _ _ _ PN), LK.
    rewrite (map_go_uint_id _ AU), (map_go_uint_id _ LU). rewrite SH.
    destruct (ha_dims a) as [|n0 dims0] eqn:AD; [congruence|]. rewrite <- AD in *.
    unfold h5_transfer. simpl h5_select. rewrite HA, cartesian_affine, TC.
    rewrite !map_length, Nat.eqb_refl.
    pose proof (u64_nonneg _ AU) as ANN.
    rewrite (linear_all_indices _ ANN).
    pose proof (product_nonneg _ ANN) as PN0.
    assert (EL : length (io_encode cd (ha_elems a)) = Z.to_nat (h5_product (ha_dims a))) by (rewrite encode_length; exact AL).
    replace (h5_product (ha_dims a)) with (Z.of_nat (length (io_encode cd (ha_elems a)))) by lia.
    rewrite gather_zrange by lia. rewrite firstn_all.
    set (pos := map (h5_linear (ds_dims d)) (map (affine tr) (h5_all_indices (ha_dims a)))).
    set (vals := io_encode cd (ha_elems a)).
    eexists. split; [reflexivity|].
    assert (PND : NoDup pos) by (unfold pos; rewrite <- TC; apply affine_positions_NoDup; exact TV).
    assert (PLEN : length pos = length vals).
    { unfold pos, vals. rewrite !map_length, all_indices_length by assumption. lia. }
    assert (PR : forall k, in_range (ha_dims a) k -> in_range (ds_dims d) (affine tr k)).
    { intros k R. apply affine_in_range; [exact TV | rewrite TC; exact R]. }
    assert (PB : Forall (fun q => 0 <= q < Z.of_nat (length (ds_data d))) pos).
    { apply Forall_forall. intros q I. unfold pos in I. rewrite map_map in I. apply in_map_iff in I.
      destruct I as [k [E I]]. subst q. apply all_indices_In in I.
      pose proof (linear_bounds _ _ (PR _ I)). pose proof (product_nonneg _ (u64_nonneg _ DU)). lia. }
    split; [apply scatter_length|]. split.
    - intros k R.
      pose proof (linear_bounds _ _ R) as KB.
      set (j := Z.to_nat (h5_linear (ha_dims a) k)).
      assert (JL : (j < length pos)%nat) by (rewrite PLEN; unfold vals; rewrite EL; unfold j; lia).
      assert (NJ : nth j pos 0 = h5_linear (ds_dims d) (affine tr k)).
      { unfold pos. rewrite map_map.
        rewrite nth_indep with (d' := h5_linear (ds_dims d) (affine tr k)) by (rewrite map_length; unfold pos in JL; rewrite !map_length in JL; exact JL).
        rewrite (map_nth (fun x => h5_linear (ds_dims d) (affine tr x))).
        unfold j. rewrite nth_all_indices by assumption. reflexivity. }
      rewrite <- NJ. apply scatter_nth_in; auto.
    - intros idx R NB.
      apply scatter_nth_notin.
      + pose proof (linear_bounds _ _ R). lia.
      + eapply Forall_impl; [|exact PB]. simpl. intros; lia.
      + intros I. unfold pos in I. rewrite map_map in I. apply in_map_iff in I.
        destruct I as [k [E I]]. apply all_indices_In in I.
        apply (NB k I). symmetry. apply (linear_inj (ds_dims d)); auto.
  Qed.

  (** A block that does not fit in the extent: nothing is written (and, the
      error of WriteSubset being dropped by the Go code, nil is returned). *)
  Theorem write_slice_outside_noop : forall st s p d a loc fsel,
    plain_name s p -> st_lookup st p = Some (ODataset d) -> ha_dims a <> [] ->
    select_hyperslab (length (ds_dims d)) SelAll (map go_uint loc) (map (fun _ => 1) loc) (map (fun _ => 1) loc)
                     (map go_uint (ha_dims a)) = Some (Some fsel) ->
    h5_select fsel (ds_dims d) = None ->
    io_write_slice cd (Some st) {| h_dataset := s; h_slice := None |} a loc = (Some st, IoRet (Some tt) false).
  Proof.
    intros st s p d a loc fsel PN LK NE SH SN. unfold io_write_slice. simpl h_dataset.
    rewrite (plain_open_dataset _ _ _ PN), LK, SH.
    destruct (map go_uint (ha_dims a)) eqn:M; [destruct (ha_dims a); [congruence|discriminate]|].
    unfold h5_transfer. rewrite SN. destruct (h5_select SelAll (z :: l)); reflexivity.
  Qed.

End Proofs.
