(** * IO/LockGraphCheck — the lock-discipline checker run on today's package io

    [Gen.LockGraph.graph] is regenerated from /repo/io by harness/cmd/callgraph
    on every run of tools/c08.py; [lock_graph_checked] is then re-established
    by computation, so an edit of /repo/io that drops a lock, downgrades a write
    lock, unlocks early, ... makes this file fail to compile. *)
From Coq Require Import ZArith List Bool String.
From OW Require Import IO.LockCheck Gen.LockGraph.
Import ListNotations.

Lemma lock_graph_checked : check graph = true.
Proof. vm_compute. reflexivity. Qed.

Theorem lock_discipline_today : forall fn, In fn graph -> fn_entry fn = true ->
  forall tr h', exec_body graph (fn_body fn) [] HU tr h' ->
    Forall (item_ok (is_writer graph fn)) tr /\ h' = HU.
Proof. exact (check_sound graph lock_graph_checked). Qed.

(** Non-vacuity: the graph has entry points, HDF5 call sites, mutating sites,
    writer and reader entry points. *)
Definition count_entries : nat := List.length (filter fn_entry graph).
Definition count_writers : nat := List.length (filter (fun fn => fn_entry fn && is_writer graph fn) graph).
Definition count_sites : nat := List.length site_names.

Lemma lock_graph_nonvacuous :
  (0 < count_entries)%nat /\ (0 < count_writers)%nat /\ (count_writers < count_entries)%nat /\ (0 < count_sites)%nat.
Proof. vm_compute. repeat split; repeat constructor. Qed.
