(** * IO/H5StoreProofs — lemmas on the store and on data transfer *)
From Coq Require Import ZArith List Bool Lia.
From OW Require Import IO.Hyperslab IO.H5Store IO.HyperslabProofs.
Import ListNotations.
Local Open Scope Z_scope.

Section Xfer.
  Context {C : Type}.
  Implicit Types (buf vals : list C) (pos : list Z).

  Lemma set_nth_length : forall buf k v, length (h5_set_nth buf k v) = length buf.
  Proof. induction buf; intros [|k] v; simpl; auto. Qed.

  Lemma set_nth_eq : forall buf k v d, (k < length buf)%nat -> nth k (h5_set_nth buf k v) d = v.
  Proof. induction buf; intros [|k] v d L; simpl in *; try lia; auto. apply IHbuf. lia. Qed.

  Lemma set_nth_neq : forall buf k j v d, k <> j -> nth j (h5_set_nth buf k v) d = nth j buf d.
  Proof. induction buf; intros [|k] [|j] v d N; simpl; auto; try congruence. Qed.

  Lemma scatter_length : forall pos vals buf, length (h5_scatter buf pos vals) = length buf.
  Proof.
    induction pos as [|p pos IH]; intros [|v vals] buf; simpl; auto.
    rewrite IH, set_nth_length. reflexivity.
  Qed.

  Lemma scatter_nth_notin : forall pos vals buf p d,
    0 <= p -> Forall (fun q => 0 <= q) pos -> ~ In p pos ->
    nth (Z.to_nat p) (h5_scatter buf pos vals) d = nth (Z.to_nat p) buf d.
  Proof.
    induction pos as [|q pos IH]; intros [|v vals] buf p d Hp F N; simpl; auto.
    inversion F; subst. rewrite IH; auto.
    - apply set_nth_neq. intros E. apply N. left. lia.
    - intros I. apply N. right. exact I.
  Qed.

  Lemma scatter_nth_in : forall pos vals buf k d,
    NoDup pos -> length pos = length vals ->
    Forall (fun q => 0 <= q < Z.of_nat (length buf)) pos ->
    (k < length pos)%nat ->
    nth (Z.to_nat (nth k pos 0)) (h5_scatter buf pos vals) d = nth k vals d.
  Proof.
    induction pos as [|q pos IH]; intros [|v vals] buf k d ND L F K; simpl in *; try lia.
    inversion ND; subst. inversion F; subst.
    destruct k as [|k].
    - rewrite scatter_nth_notin; auto; try lia.
      + apply set_nth_eq. lia.
      + eapply Forall_impl; [|exact H4]. simpl. intros. lia.
    - apply IH; auto; try lia.
      rewrite set_nth_length. exact H4.
  Qed.

  Lemma set_nth_app : forall (pre : list C) x post v, h5_set_nth (pre ++ x :: post) (length pre) v = pre ++ v :: post.
  Proof. induction pre; simpl; intros; auto. f_equal. apply IHpre. Qed.

  (** Writing [vals] at positions 0, 1, ..., |vals|-1 replaces the prefix. *)
  Lemma scatter_prefix_gen : forall vals pre old post,
    length old = length vals ->
    h5_scatter (pre ++ old ++ post) (map (fun i => Z.of_nat (length pre + i)) (seq 0 (length vals))) vals
    = pre ++ vals ++ post.
  Proof.
    induction vals as [|v vals IH]; intros pre old post L; destruct old as [|o old]; simpl in *; try lia; auto.
    rewrite Nat.add_0_r, Nat2Z.id, set_nth_app.
    rewrite <- seq_shift, map_map.
    specialize (IH (pre ++ [v]) old post).
    rewrite <- !app_assoc in IH. simpl in IH.
    erewrite map_ext; [rewrite IH by lia; reflexivity|].
    intros a. simpl. rewrite app_length. simpl. f_equal. lia.
  Qed.

  Lemma scatter_prefix : forall vals buf,
    (length vals <= length buf)%nat ->
    h5_scatter buf (h5_zrange (Z.of_nat (length vals))) vals = vals ++ skipn (length vals) buf.
  Proof.
    intros vals buf L.
    rewrite <- (firstn_skipn (length vals) buf) at 1.
    pose proof (scatter_prefix_gen vals [] (firstn (length vals) buf) (skipn (length vals) buf)) as H.
    simpl in H. unfold h5_zrange. rewrite Nat2Z.id. apply H. rewrite firstn_length. lia.
  Qed.

  Lemma gather_zrange : forall (cz : C) src n, (n <= length src)%nat ->
    h5_gather cz src (h5_zrange (Z.of_nat n)) = firstn n src.
  Proof.
    intros cz src n. revert src. induction n as [|n IH]; intros src L.
    - reflexivity.
    - destruct src as [|x src]; simpl in L; [lia|].
      unfold h5_gather, h5_zrange in *. rewrite Nat2Z.id in *. simpl.
      f_equal. rewrite <- seq_shift, !map_map. rewrite <- (IH src) by lia. rewrite map_map.
      apply map_ext. intros a. rewrite !Nat2Z.id. reflexivity.
  Qed.

  Lemma gather_length : forall (cz : C) src pos, length (h5_gather cz src pos) = length pos.
  Proof. intros. unfold h5_gather. apply map_length. Qed.

End Xfer.

(** ** store lemmas *)
Lemma h5name_eqb_eq : forall a b, h5name_eqb a b = true <-> a = b.
Proof.
  induction a as [|x a IH]; intros [|y b]; simpl; split; intros H; try discriminate; auto.
  - apply andb_true_iff in H. destruct H as [H1 H2]. apply Z.eqb_eq in H1. apply IH in H2. subst. reflexivity.
  - inversion H; subst. rewrite Z.eqb_refl. simpl. apply IH. reflexivity.
Qed.

Lemma h5path_eqb_eq : forall a b, h5path_eqb a b = true <-> a = b.
Proof.
  induction a as [|x a IH]; intros [|y b]; simpl; split; intros H; try discriminate; auto.
  - apply andb_true_iff in H. destruct H as [H1 H2]. apply h5name_eqb_eq in H1. apply IH in H2. subst. reflexivity.
  - inversion H; subst. apply andb_true_iff. split; [apply h5name_eqb_eq | apply IH]; reflexivity.
Qed.

Lemma h5path_eqb_refl : forall a, h5path_eqb a a = true.
Proof. intros. apply h5path_eqb_eq. reflexivity. Qed.

Lemma h5path_eqb_neq : forall a b, a <> b -> h5path_eqb a b = false.
Proof. intros a b N. destruct (h5path_eqb a b) eqn:E; auto. apply h5path_eqb_eq in E. contradiction. Qed.

Section StoreLemmas.
  Context {C : Type}.
  Notation store := (h5store C).

  Lemma lookup_update_same : forall (st : store) p o o', st_lookup st p = Some o' -> st_lookup (st_update st p o) p = Some o.
  Proof.
    induction st as [|[q x] st IH]; simpl; intros p o o' L; try discriminate.
    destruct (h5path_eqb q p) eqn:E; simpl; rewrite E; auto. eapply IH; eauto.
  Qed.

  Lemma lookup_update_other : forall (st : store) p q o, p <> q -> st_lookup (st_update st p o) q = st_lookup st q.
  Proof.
    induction st as [|[r x] st IH]; simpl; intros p q o N; auto.
    destruct (h5path_eqb r p) eqn:E; simpl.
    - apply h5path_eqb_eq in E. subst. rewrite (h5path_eqb_neq _ _ N). reflexivity.
    - destruct (h5path_eqb r q); auto.
  Qed.

  Lemma lookup_app_new : forall (st : store) p q o,
    st_lookup (st ++ [(p, o)]) q = match st_lookup st q with Some x => Some x | None => if h5path_eqb p q then Some o else None end.
  Proof.
    induction st as [|[r x] st IH]; simpl; intros p q o; auto.
    destruct (h5path_eqb r q); auto.
  Qed.

  Lemma update_keys : forall (st : store) p o, map fst (st_update st p o) = map fst st.
  Proof.
    induction st as [|[r x] st IH]; simpl; intros; auto.
    destruct (h5path_eqb r p); simpl; f_equal; auto.
  Qed.
End StoreLemmas.
