(** * IO/H5Store — the HDF5 file as seen through the calls package io makes

    Definitions only.  This is the Gallina statement of what
    /verif/harness/fakehdf5 implements (trusted base: libhdf5 and the gonum
    binding are assumed to behave like this for the calls used):

    - a file is a finite map from paths (lists of link names) to objects, a
      group or a dataset [{dims; data}], [data] being the row-major list of the
      dataset's cells; generic in the cell type [C];
    - names are byte strings ([list Z]); a path string is split at '/' with
      empty components and "." skipped, a leading '/' meaning "from the root";
    - data transfer pairs the k-th selected memory cell with the k-th selected
      file cell, both selections enumerated in row-major order, and moves
      nothing when either selection is outside its extent or the two counts
      differ. *)
From Coq Require Import ZArith List Bool.
From OW Require Import IO.Hyperslab.
Import ListNotations.
Local Open Scope Z_scope.

Definition h5name := list Z.            (* bytes *)
Definition h5path := list h5name.

Fixpoint h5name_eqb (a b : h5name) : bool :=
  match a, b with
  | [], [] => true
  | x :: a', y :: b' => (x =? y) && h5name_eqb a' b'
  | _, _ => false
  end.

Fixpoint h5path_eqb (a b : h5path) : bool :=
  match a, b with
  | [], [] => true
  | x :: a', y :: b' => h5name_eqb x y && h5path_eqb a' b'
  | _, _ => false
  end.

(** strcmp order on names (H5_INDEX_NAME, H5_ITER_INC). *)
Fixpoint h5name_ltb (a b : h5name) : bool :=
  match a, b with
  | [], [] => false
  | [], _ :: _ => true
  | _ :: _, [] => false
  | x :: a', y :: b' => if x <? y then true else if y <? x then false else h5name_ltb a' b'
  end.

Definition ch_slash : Z := 47.
Definition ch_dot : Z := 46.

(** Go's [strings.Split(s, "/")]: always at least one component. *)
Fixpoint split_slash_aux (s : list Z) (cur : h5name) : list h5name :=
  match s with
  | [] => [rev cur]
  | c :: s' => if c =? ch_slash then rev cur :: split_slash_aux s' [] else split_slash_aux s' (c :: cur)
  end.
Definition split_slash (s : list Z) : list h5name := split_slash_aux s [].

(** Go's [strings.Join(l, "/")]. *)
Fixpoint join_slash (l : list h5name) : list Z :=
  match l with
  | [] => []
  | [x] => x
  | x :: r => x ++ ch_slash :: join_slash r
  end.

(** HDF5 path traversal of a name: (absolute?, components). *)
Definition h5_is_skip (n : h5name) : bool := h5name_eqb n [] || h5name_eqb n [ch_dot].
Definition h5_comps (s : list Z) : bool * h5path :=
  (match s with c :: _ => c =? ch_slash | [] => false end,
   filter (fun n => negb (h5_is_skip n)) (split_slash s)).

Section Store.
  Context {C : Type}.

  Record h5dataset := { ds_dims : list Z; ds_data : list C }.
  Inductive h5obj := OGroup | ODataset (d : h5dataset).
  (** Association list; the root group [[]] is implicit.  Keys are unique in
      every store built by the operations below. *)
  Definition h5store := list (h5path * h5obj).

  Fixpoint st_lookup (st : h5store) (p : h5path) : option h5obj :=
    match st with
    | [] => None
    | (q, o) :: r => if h5path_eqb q p then Some o else st_lookup r p
    end.

  Fixpoint st_update (st : h5store) (p : h5path) (o : h5obj) : h5store :=
    match st with
    | [] => []
    | (q, o') :: r => if h5path_eqb q p then (q, o) :: r else (q, o') :: st_update r p o
    end.

  Definition st_is_group (st : h5store) (p : h5path) : bool :=
    match p with
    | [] => true
    | _ => match st_lookup st p with Some OGroup => true | _ => false end
    end.

  (** Resolve a name from location [loc] (a group path). *)
  Definition h5_resolve (loc : h5path) (s : list Z) : h5path :=
    let (abs, cs) := h5_comps s in if abs then cs else loc ++ cs.

  (** [OpenGroup]: the object must exist and be a group. *)
  Definition h5_open_group (st : h5store) (loc : h5path) (s : list Z) : option h5path :=
    match s with
    | [] => None                                            (* no name *)
    | _ => let p := h5_resolve loc s in if st_is_group st p then Some p else None
    end.

  (** [OpenDataset]. *)
  Definition h5_open_dataset (st : h5store) (loc : h5path) (s : list Z) : option (h5path * h5dataset) :=
    match s with
    | [] => None
    | _ => let p := h5_resolve loc s in
           match p with
           | [] => None                                     (* the root is a group *)
           | _ => match st_lookup st p with Some (ODataset d) => Some (p, d) | _ => None end
           end
    end.

  (** Parent group and last component for a creation; every component but the
      last must exist (and be a group), the last must be new. *)
  Definition h5_create_target (st : h5store) (loc : h5path) (s : list Z) : option h5path :=
    let p := h5_resolve loc s in
    match rev p with
    | [] => None                                            (* no name *)
    | _ :: rparent =>
        if st_is_group st (rev rparent) then
          match st_lookup st p with None => Some p | Some _ => None end
        else None
    end.

  Definition h5_create_group (st : h5store) (loc : h5path) (s : list Z) : option (h5store * h5path) :=
    match h5_create_target st loc s with
    | Some p => Some (st ++ [(p, OGroup)], p)
    | None => None
    end.

  (** [CreateDataset] with the default creation property list: contiguous,
      zero-filled.  [CreateDatasetWith] a deflate filter and no chunking fails
      ("filters can only be used with chunked layout"). *)
  Definition h5_create_dataset (io_czero : C) (st : h5store) (loc : h5path) (s : list Z) (dims : list Z) (deflate : bool)
    : option (h5store * h5path) :=
    match h5_create_target st loc s with
    | Some p =>
        if deflate then None
        else Some (st ++ [(p, ODataset {| ds_dims := dims; ds_data := repeat io_czero (Z.to_nat (h5_product dims)) |})], p)
    | None => None
    end.

  (** Links of a group in increasing name order, with their kind
      ([NumObjects] / [ObjectNameByIndex] / [ObjectTypeByIndex]). *)
  Fixpoint h5_insert_sorted (x : h5name * bool) (l : list (h5name * bool)) : list (h5name * bool) :=
    match l with
    | [] => [x]
    | y :: r => if h5name_ltb (fst x) (fst y) then x :: l else y :: h5_insert_sorted x r
    end.

  Fixpoint h5_child_of (g p : h5path) : option h5name :=
    match g, p with
    | [], [n] => Some n
    | x :: g', y :: p' => if h5name_eqb x y then h5_child_of g' p' else None
    | _, _ => None
    end.

  Fixpoint st_links (st : h5store) (g : h5path) : list (h5name * bool) :=
    match st with
    | [] => []
    | (p, o) :: r =>
        match h5_child_of g p with
        | Some n => h5_insert_sorted (n, match o with OGroup => true | ODataset _ => false end) (st_links r g)
        | None => st_links r g
        end
    end.

  (** ** Data transfer (H5Dread / H5Dwrite with memory type = file type) *)

  Fixpoint h5_set_nth (l : list C) (k : nat) (v : C) : list C :=
    match l, k with
    | [], _ => []
    | _ :: r, O => v :: r
    | x :: r, S k' => x :: h5_set_nth r k' v
    end.

  Fixpoint h5_scatter (buf : list C) (pos : list Z) (vals : list C) : list C :=
    match pos, vals with
    | p :: pos', v :: vals' => h5_scatter (h5_set_nth buf (Z.to_nat p) v) pos' vals'
    | _, _ => buf
    end.

  Definition h5_gather (io_czero : C) (src : list C) (pos : list Z) : list C :=
    map (fun p => nth (Z.to_nat p) src io_czero) pos.

  (** Move the cells selected by [ssel] in [src] (extent [sdims]) onto the cells
      selected by [dsel] in [dst] (extent [ddims]).  [None] = error, nothing
      moved.  A position beyond the end of the memory buffer is undefined
      behaviour in libhdf5; callers below never produce one (the fake panics). *)
  Definition h5_transfer (io_czero : C) (src : list C) (sdims : list Z) (ssel : h5_selection)
                      (dst : list C) (ddims : list Z) (dsel : h5_selection) : option (list C) :=
    match h5_select ssel sdims, h5_select dsel ddims with
    | Some si, Some di =>
        if Nat.eqb (length si) (length di)
        then Some (h5_scatter dst (map (h5_linear ddims) di) (h5_gather io_czero src (map (h5_linear sdims) si)))
        else None
    | _, _ => None
    end.

End Store.
Arguments h5dataset : clear implicits.
Arguments h5obj : clear implicits.
Arguments h5store : clear implicits.
