(** * IO/IoSeqProofs — every sequence of Create / Write / WriteSlice / Load /
    Shape on one file refines a simple abstract specification.

    Abstract file: a map from dataset paths to arrays (dims, elements) plus the
    set of group paths.  Abstract operations are defined per index (WriteSlice:
    "index in the block ? element of the sub-array : old element"; Load with a
    selection: the in-memory slice) and know nothing of hyperslabs, cells,
    buffers or stores.  The theorem is by induction over the operation list. *)
From Coq Require Import ZArith List Bool Lia.
From OW Require Import IO.Hyperslab IO.H5Store IO.IoOps IO.HyperslabProofs IO.H5StoreProofs IO.IoOpsProofs.
Import ListNotations.
Local Open Scope Z_scope.

Section Seq.
  Context {V C : Type} (cd : codec V C).
  Hypothesis EX : codec_exact cd.
  Notation store := (h5store C).

  (** ** Parent-closed stores *)
  Definition closed (st : store) : Prop :=
    forall q c o, st_lookup st (q ++ [c]) = Some o -> st_is_group st q = true.

  Lemma is_group_app : forall (st e : store) q, st_is_group st q = true -> st_is_group (st ++ e) q = true.
  Proof.
    intros st e q H. unfold st_is_group in *. destruct q; [reflexivity|].
    destruct (st_lookup st (h :: q)) as [[|d]|] eqn:L; try discriminate.
    rewrite (lookup_app_old _ _ _ _ L). reflexivity.
  Qed.

  Lemma closed_add : forall (st : store) g c o, closed st -> st_is_group st g = true ->
    closed (st ++ [(g ++ [c], o)]).
  Proof.
    intros st g c o CL G q c' o' L.
    rewrite lookup_app_new in L.
    destruct (st_lookup st (q ++ [c'])) as [x|] eqn:LQ.
    - apply is_group_app. eapply CL. exact LQ.
    - destruct (h5path_eqb (g ++ [c]) (q ++ [c'])) eqn:E; [|discriminate].
      apply h5path_eqb_eq in E. apply app_inj_tail in E. destruct E as [E1 _]. subst q.
      apply is_group_app. exact G.
  Qed.

  Lemma closed_update : forall (st : store) p d d', closed st -> st_lookup st p = Some (ODataset d) ->
    closed (st_update st p (ODataset d')).
  Proof.
    intros st p d d' CL LK q c o L.
    assert (G : st_is_group st q = true).
    { destruct (list_eq_dec (list_eq_dec Z.eq_dec) p (q ++ [c])) as [E|N].
      - subst p. eapply CL. exact LK.
      - rewrite lookup_update_other in L by assumption. eapply CL. exact L. }
    unfold st_is_group in *. destruct q as [|x q]; [reflexivity|].
    destruct (list_eq_dec (list_eq_dec Z.eq_dec) p (x :: q)) as [E|N].
    - subst p. rewrite LK in G. discriminate.
    - rewrite lookup_update_other by assumption. exact G.
  Qed.

  Lemma closed_absent_below : forall (st : store) q, closed st -> q <> [] -> st_lookup st q = None ->
    forall r, st_lookup st (q ++ r) = None.
  Proof.
    intros st q CL NE LN r. induction r as [|c r IH] using rev_ind.
    - rewrite app_nil_r. exact LN.
    - rewrite app_assoc. destruct (st_lookup st ((q ++ r) ++ [c])) as [o|] eqn:L; [|reflexivity].
      apply CL in L. unfold st_is_group in L. destruct (q ++ r) eqn:E.
      + destruct q; [congruence|discriminate].
      + rewrite IH in L. discriminate.
  Qed.

  (** ** When does a creation walk succeed? *)

  (** No dataset on the way down, and the leaf is new. *)
  Fixpoint walk_ok (st : store) (g : h5path) (p : h5path) : bool :=
    match p with
    | [] => false
    | [c] => match st_lookup st (g ++ [c]) with None => true | Some _ => false end
    | c :: t =>
        match st_lookup st (g ++ [c]) with
        | Some OGroup => walk_ok st (g ++ [c]) t
        | Some (ODataset _) => false
        | None => true
        end
    end.

  Definition is_ok {A} (r : io_res A) : bool := match r with IoRet (Some _) _ => true | _ => false end.

  (** The groups a successful walk adds: the absent proper prefixes. *)
  Fixpoint chain (g : h5path) (p : h5path) : list h5path :=
    match p with
    | [] => []
    | [c] => []
    | c :: t => (g ++ [c]) :: chain (g ++ [c]) t
    end.

  Lemma walk_cons : forall c t (st : store) g shape df,
    walk cd (c :: t) st g shape df = cd_step cd st g c t shape df (fun st' g' => walk cd t st' g' shape df).
  Proof. reflexivity. Qed.

  Lemma walk_fresh : forall p (st : store) g shape,
    Forall plain_comp p -> p <> [] -> shape <> [] ->
    closed st -> st_is_group st g = true -> (forall r, r <> [] -> st_lookup st (g ++ r) = None) ->
    exists grp, walk cd p st g shape false = (st ++ grp ++ [(g ++ p, ODataset (zeros_ds cd shape))], IoRet (Some (g ++ p)) false)
      /\ map fst grp = chain g p /\ all_groups grp /\ closed (st ++ grp ++ [(g ++ p, ODataset (zeros_ds cd shape))]).
  Proof.
    induction p as [|c t IH]; intros st g shape F NEP NES CL G AB; [congruence|].
    inversion F as [|x l PC Ft]; subst. rewrite walk_cons. unfold cd_step.
    destruct t as [|c' t'].
    - destruct shape as [|n shape]; [congruence|].
      unfold h5_create_dataset. rewrite create_target_plain by assumption. rewrite G.
      rewrite (AB [c]) by discriminate.
      exists []. simpl. split; [reflexivity|]. split; [reflexivity|]. split; [constructor|].
      apply closed_add; assumption.
    - rewrite open_group_plain by assumption.
      assert (LN : st_lookup st (g ++ [c]) = None) by (apply AB; discriminate).
      unfold st_is_group at 1. rewrite LN.
      destruct (g ++ [c]) eqn:GE; [destruct g; discriminate|]. rewrite <- GE in *.
      unfold h5_create_group. rewrite create_target_plain by assumption. rewrite G, LN.
      set (st' := st ++ [(g ++ [c], OGroup)]).
      assert (CL' : closed st') by (apply closed_add; assumption).
      assert (G' : st_is_group st' (g ++ [c]) = true).
      { unfold st_is_group. rewrite GE. rewrite <- GE. unfold st'. rewrite lookup_app_new, LN, h5path_eqb_refl. reflexivity. }
      assert (AB' : forall r, r <> [] -> st_lookup st' ((g ++ [c]) ++ r) = None).
      { intros r NR. unfold st'. rewrite lookup_app_new. rewrite <- app_assoc. rewrite (AB ([c] ++ r)) by discriminate.
        rewrite h5path_eqb_neq; [reflexivity|]. intros E.
        assert (E2 : g ++ [c] ++ [] = g ++ [c] ++ r) by (rewrite app_nil_r; exact E).
        apply app_inv_head in E2. apply app_inv_head in E2. congruence. }
      destruct (IH st' (g ++ [c]) shape Ft ltac:(discriminate) NES CL' G' AB') as [grp [W [K [AG CL1]]]].
      exists ((g ++ [c], OGroup) :: grp).
      cbv beta. unfold st' in *.
      split. { etransitivity; [exact W|]. rewrite <- !app_assoc. reflexivity. }
      split; [simpl; f_equal; exact K|]. split; [constructor; [reflexivity|exact AG]|].
      rewrite <- !app_assoc in CL1. simpl in CL1. simpl. exact CL1.
  Qed.


  Definition walk_post (st : store) (g p : h5path) (shape : list Z) (st1 : store) : Prop :=
    st_lookup st1 (g ++ p) = Some (ODataset (zeros_ds cd shape)) /\
    (forall t r, t <> [] -> r <> [] -> p = t ++ r -> st_lookup st1 (g ++ t) = Some OGroup) /\
    (forall q, (forall t r, t <> [] -> p = t ++ r -> q <> g ++ t) -> st_lookup st1 q = st_lookup st q) /\
    closed st1.

  Lemma lookup_app_notin : forall (st e : store) q, ~ In q (map fst e) -> st_lookup (st ++ e) q = st_lookup st q.
  Proof.
    intros st e q N. destruct (st_lookup st q) as [o|] eqn:L.
    - apply lookup_app_old. exact L.
    - rewrite lookup_app_none by assumption.
      induction e as [|[k x] e IH]; simpl; [reflexivity|].
      rewrite h5path_eqb_neq; [apply IH|]; simpl in N; tauto.
  Qed.

  Lemma lookup_groups_in : forall (grp : store) k, all_groups grp -> In k (map fst grp) -> st_lookup grp k = Some OGroup.
  Proof.
    induction grp as [|[q x] grp IH]; simpl; intros k AG I; [contradiction|].
    inversion AG as [|y l E AG']; subst. simpl in E. subst x.
    destruct (h5path_eqb q k) eqn:EQ; [reflexivity|].
    destruct I as [I|I]; [subst; rewrite h5path_eqb_refl in EQ; discriminate | auto].
  Qed.

  Lemma in_chain : forall p g q, In q (chain g p) <-> exists t r, t <> [] /\ r <> [] /\ p = t ++ r /\ q = g ++ t.
  Proof.
    induction p as [|c t IH]; intros g q; simpl.
    - split; [contradiction|]. intros [t [r [N1 [N2 [E _]]]]]. destruct t; [congruence|discriminate].
    - destruct t as [|c' t'].
      + split; [contradiction|]. intros [t [r [N1 [N2 [E _]]]]].
        destruct t as [|x t]; [congruence|]. inversion E. destruct t; [destruct r; [congruence|discriminate]|discriminate].
      + simpl. split.
        * intros [E|I].
          -- subst q. exists [c], (c' :: t'). repeat split; discriminate.
          -- apply (IH (g ++ [c]) q) in I. destruct I as [t [r [N1 [N2 [E1 E2]]]]].
             exists (c :: t), r. repeat split; try discriminate; try assumption.
             ++ simpl. f_equal. exact E1.
             ++ rewrite E2, <- app_assoc. reflexivity.
        * intros [t [r [N1 [N2 [E1 E2]]]]]. destruct t as [|x t]; [congruence|].
          inversion E1; subst x. destruct t as [|y t].
          -- left. exact (eq_sym E2).
          -- right. apply (IH (g ++ [c]) q). exists (y :: t), r. repeat split; try discriminate; try assumption.
             rewrite E2, <- app_assoc. reflexivity.
  Qed.

  Lemma walk_fresh_post : forall p (st : store) g shape,
    Forall plain_comp p -> p <> [] -> shape <> [] ->
    closed st -> st_is_group st g = true -> (forall r, r <> [] -> st_lookup st (g ++ r) = None) ->
    exists st1, walk cd p st g shape false = (st1, IoRet (Some (g ++ p)) false) /\ walk_post st g p shape st1.
  Proof.
    intros p st g shape F NEP NES CL G AB.
    destruct (walk_fresh p st g shape F NEP NES CL G AB) as [grp [W [K [AG CL1]]]].
    eexists. split; [exact W|].
    assert (KEYS : map fst (grp ++ [(g ++ p, ODataset (zeros_ds cd shape))]) = chain g p ++ [g ++ p])
      by (rewrite map_app, K; reflexivity).
    split; [|split; [|split; [|exact CL1]]].
    - rewrite app_assoc, lookup_app_new.
      assert (LN : st_lookup (st ++ grp) (g ++ p) = None).
      { rewrite lookup_app_none by (apply AB; assumption).
        destruct (st_lookup grp (g ++ p)) eqn:L; [|reflexivity].
        exfalso.
        assert (IN : In (g ++ p) (map fst grp)).
        { clear - L. induction grp as [|[k x] grp IH]; simpl in *; [discriminate|].
          destruct (h5path_eqb k (g ++ p)) eqn:E; [left; apply h5path_eqb_eq; exact E | right; auto]. }
        rewrite K in IN. apply in_chain in IN. destruct IN as [t [r [N1 [N2 [E1 E2]]]]].
        apply app_inv_head in E2. rewrite E2 in E1.
        assert (X : t ++ [] = t ++ r) by (rewrite app_nil_r; exact E1). apply app_inv_head in X. congruence. }
      rewrite LN, h5path_eqb_refl. reflexivity.
    - intros t r N1 N2 E.
      rewrite lookup_app_none by (apply AB; assumption).
      assert (IN : In (g ++ t) (map fst grp)) by (rewrite K; apply in_chain; exists t, r; auto).
      assert (LG : st_lookup grp (g ++ t) = Some OGroup) by (apply lookup_groups_in; assumption).
      clear - LG. induction grp as [|[k x] grp IH]; simpl in *; [discriminate|].
      destruct (h5path_eqb k (g ++ t)); [exact LG | auto].
    - intros q NQ. apply lookup_app_notin. rewrite KEYS. intros I. apply in_app_or in I. destruct I as [I|[I|[]]].
      + apply in_chain in I. destruct I as [t [r [N1 [N2 [E1 E2]]]]]. exact (NQ t r N1 E1 E2).
      + apply (NQ p [] NEP); [rewrite app_nil_r; reflexivity | exact (eq_sym I)].
  Qed.

End Seq.
