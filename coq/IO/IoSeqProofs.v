(** * IO/IoSeqProofs — every sequence of Create / Write / WriteSlice / Load /
    Shape on one file refines a simple abstract specification.

    Abstract file: a map from dataset paths to arrays (dims, elements) plus the
    set of group paths.  Abstract operations are defined per index (WriteSlice:
    "index in the block ? element of the sub-array : old element"; Load with a
    selection: the in-memory slice) and know nothing of hyperslabs, cells,
    buffers or stores.  The theorem is by induction over the operation list. *)
From Coq Require Import ZArith List Bool Lia.
From OW Require Import IO.Hyperslab IO.H5Store IO.IoOps IO.HyperslabProofs IO.H5StoreProofs IO.IoOpsProofs.
Import ListNotations.
Local Open Scope Z_scope.

Section Seq.
  Context {V C : Type} (cd : codec V C).
  Hypothesis EX : codec_exact cd.
  Notation store := (h5store C).

  (** ** Parent-closed stores *)
  Definition closed (st : store) : Prop :=
    forall q c o, st_lookup st (q ++ [c]) = Some o -> st_is_group st q = true.

  Lemma is_group_app : forall (st e : store) q, st_is_group st q = true -> st_is_group (st ++ e) q = true.
  Proof.
    intros st e q H. unfold st_is_group in *. destruct q; [reflexivity|].
    destruct (st_lookup st (h :: q)) as [[|d]|] eqn:L; try discriminate.
    rewrite (lookup_app_old _ _ _ _ L). reflexivity.
  Qed.

  Lemma closed_add : forall (st : store) g c o, closed st -> st_is_group st g = true ->
    closed (st ++ [(g ++ [c], o)]).
  Proof.
    intros st g c o CL G q c' o' L.
    rewrite lookup_app_new in L.
    destruct (st_lookup st (q ++ [c'])) as [x|] eqn:LQ.
    - apply is_group_app. eapply CL. exact LQ.
    - destruct (h5path_eqb (g ++ [c]) (q ++ [c'])) eqn:E; [|discriminate].
      apply h5path_eqb_eq in E. apply app_inj_tail in E. destruct E as [E1 _]. subst q.
      apply is_group_app. exact G.
  Qed.

  Lemma closed_update : forall (st : store) p d d', closed st -> st_lookup st p = Some (ODataset d) ->
    closed (st_update st p (ODataset d')).
  Proof.
    intros st p d d' CL LK q c o L.
    assert (G : st_is_group st q = true).
    { destruct (list_eq_dec (list_eq_dec Z.eq_dec) p (q ++ [c])) as [E|N].
      - subst p. eapply CL. exact LK.
      - rewrite lookup_update_other in L by assumption. eapply CL. exact L. }
    unfold st_is_group in *. destruct q as [|x q]; [reflexivity|].
    destruct (list_eq_dec (list_eq_dec Z.eq_dec) p (x :: q)) as [E|N].
    - subst p. rewrite LK in G. discriminate.
    - rewrite lookup_update_other by assumption. exact G.
  Qed.

  Lemma closed_absent_below : forall (st : store) q, closed st -> q <> [] -> st_lookup st q = None ->
    forall r, st_lookup st (q ++ r) = None.
  Proof.
    intros st q CL NE LN r. induction r as [|c r IH] using rev_ind.
    - rewrite app_nil_r. exact LN.
    - rewrite app_assoc. destruct (st_lookup st ((q ++ r) ++ [c])) as [o|] eqn:L; [|reflexivity].
      apply CL in L. unfold st_is_group in L. destruct (q ++ r) eqn:E.
      + destruct q; [congruence|discriminate].
      + rewrite IH in L. discriminate.
  Qed.

  (** ** When does a creation walk succeed? *)

  (** No dataset on the way down, and the leaf is new. *)
  Fixpoint walk_ok (st : store) (g : h5path) (p : h5path) : bool :=
    match p with
    | [] => false
    | [c] => match st_lookup st (g ++ [c]) with None => true | Some _ => false end
    | c :: t =>
        match st_lookup st (g ++ [c]) with
        | Some OGroup => walk_ok st (g ++ [c]) t
        | Some (ODataset _) => false
        | None => true
        end
    end.

  Definition is_ok {A} (r : io_res A) : bool := match r with IoRet (Some _) _ => true | _ => false end.

  (** The groups a successful walk adds: the absent proper prefixes. *)
  Fixpoint chain (g : h5path) (p : h5path) : list h5path :=
    match p with
    | [] => []
    | [c] => []
    | c :: t => (g ++ [c]) :: chain (g ++ [c]) t
    end.

  Lemma walk_cons : forall c t (st : store) g shape df,
    walk cd (c :: t) st g shape df = cd_step cd st g c t shape df (fun st' g' => walk cd t st' g' shape df).
  Proof. reflexivity. Qed.

  Lemma walk_fresh : forall p (st : store) g shape,
    Forall plain_comp p -> p <> [] -> shape <> [] ->
    closed st -> st_is_group st g = true -> (forall r, r <> [] -> st_lookup st (g ++ r) = None) ->
    exists grp, walk cd p st g shape false = (st ++ grp ++ [(g ++ p, ODataset (zeros_ds cd shape))], IoRet (Some (g ++ p)) false)
      /\ map fst grp = chain g p /\ all_groups grp /\ closed (st ++ grp ++ [(g ++ p, ODataset (zeros_ds cd shape))]).
  Proof.
    induction p as [|c t IH]; intros st g shape F NEP NES CL G AB; [congruence|].
    inversion F as [|x l PC Ft]; subst. rewrite walk_cons. unfold cd_step.
    destruct t as [|c' t'].
    - destruct shape as [|n shape]; [congruence|].
      unfold h5_create_dataset. rewrite create_target_plain by assumption. rewrite G.
      rewrite (AB [c]) by discriminate.
      exists []. simpl. split; [reflexivity|]. split; [reflexivity|]. split; [constructor|].
      apply closed_add; assumption.
    - rewrite open_group_plain by assumption.
      assert (LN : st_lookup st (g ++ [c]) = None) by (apply AB; discriminate).
      unfold st_is_group at 1. rewrite LN.
      destruct (g ++ [c]) eqn:GE; [destruct g; discriminate|]. rewrite <- GE in *.
      unfold h5_create_group. rewrite create_target_plain by assumption. rewrite G, LN.
      set (st' := st ++ [(g ++ [c], OGroup)]).
      assert (CL' : closed st') by (apply closed_add; assumption).
      assert (G' : st_is_group st' (g ++ [c]) = true).
      { unfold st_is_group. rewrite GE. rewrite <- GE. unfold st'. rewrite lookup_app_new, LN, h5path_eqb_refl. reflexivity. }
      assert (AB' : forall r, r <> [] -> st_lookup st' ((g ++ [c]) ++ r) = None).
      { intros r NR. unfold st'. rewrite lookup_app_new. rewrite <- app_assoc. rewrite (AB ([c] ++ r)) by discriminate.
        rewrite h5path_eqb_neq; [reflexivity|]. intros E.
        assert (E2 : g ++ [c] ++ [] = g ++ [c] ++ r) by (rewrite app_nil_r; exact E).
        apply app_inv_head in E2. apply app_inv_head in E2. congruence. }
      destruct (IH st' (g ++ [c]) shape Ft ltac:(discriminate) NES CL' G' AB') as [grp [W [K [AG CL1]]]].
      exists ((g ++ [c], OGroup) :: grp).
      cbv beta. unfold st' in *.
      split. { etransitivity; [exact W|]. rewrite <- !app_assoc. reflexivity. }
      split; [simpl; f_equal; exact K|]. split; [constructor; [reflexivity|exact AG]|].
      rewrite <- !app_assoc in CL1. simpl in CL1. simpl. exact CL1.
  Qed.


  Definition walk_post (st : store) (g p : h5path) (shape : list Z) (st1 : store) : Prop :=
    st_lookup st1 (g ++ p) = Some (ODataset (zeros_ds cd shape)) /\
    (forall t r, t <> [] -> r <> [] -> p = t ++ r -> st_lookup st1 (g ++ t) = Some OGroup) /\
    (forall q, (forall t r, t <> [] -> p = t ++ r -> q <> g ++ t) -> st_lookup st1 q = st_lookup st q) /\
    closed st1.

  Lemma lookup_app_notin : forall (st e : store) q, ~ In q (map fst e) -> st_lookup (st ++ e) q = st_lookup st q.
  Proof.
    intros st e q N. destruct (st_lookup st q) as [o|] eqn:L.
    - apply lookup_app_old. exact L.
    - rewrite lookup_app_none by assumption.
      induction e as [|[k x] e IH]; simpl; [reflexivity|].
      rewrite h5path_eqb_neq; [apply IH|]; simpl in N; tauto.
  Qed.

  Lemma lookup_groups_in : forall (grp : store) k, all_groups grp -> In k (map fst grp) -> st_lookup grp k = Some OGroup.
  Proof.
    induction grp as [|[q x] grp IH]; simpl; intros k AG I; [contradiction|].
    inversion AG as [|y l E AG']; subst. simpl in E. subst x.
    destruct (h5path_eqb q k) eqn:EQ; [reflexivity|].
    destruct I as [I|I]; [subst; rewrite h5path_eqb_refl in EQ; discriminate | auto].
  Qed.

  Lemma in_chain : forall p g q, In q (chain g p) <-> exists t r, t <> [] /\ r <> [] /\ p = t ++ r /\ q = g ++ t.
  Proof.
    induction p as [|c t IH]; intros g q; simpl.
    - split; [contradiction|]. intros [t [r [N1 [N2 [E _]]]]]. destruct t; [congruence|discriminate].
    - destruct t as [|c' t'].
      + split; [contradiction|]. intros [t [r [N1 [N2 [E _]]]]].
        destruct t as [|x t]; [congruence|]. inversion E. destruct t; [destruct r; [congruence|discriminate]|discriminate].
      + simpl. split.
        * intros [E|I].
          -- subst q. exists [c], (c' :: t'). repeat split; discriminate.
          -- apply (IH (g ++ [c]) q) in I. destruct I as [t [r [N1 [N2 [E1 E2]]]]].
             exists (c :: t), r. repeat split; try discriminate; try assumption.
             ++ simpl. f_equal. exact E1.
             ++ rewrite E2, <- app_assoc. reflexivity.
        * intros [t [r [N1 [N2 [E1 E2]]]]]. destruct t as [|x t]; [congruence|].
          inversion E1; subst x. destruct t as [|y t].
          -- left. exact (eq_sym E2).
          -- right. apply (IH (g ++ [c]) q). exists (y :: t), r. repeat split; try discriminate; try assumption.
             rewrite E2, <- app_assoc. reflexivity.
  Qed.

  Lemma walk_fresh_post : forall p (st : store) g shape,
    Forall plain_comp p -> p <> [] -> shape <> [] ->
    closed st -> st_is_group st g = true -> (forall r, r <> [] -> st_lookup st (g ++ r) = None) ->
    exists st1, walk cd p st g shape false = (st1, IoRet (Some (g ++ p)) false) /\ walk_post st g p shape st1.
  Proof.
    intros p st g shape F NEP NES CL G AB.
    destruct (walk_fresh p st g shape F NEP NES CL G AB) as [grp [W [K [AG CL1]]]].
    eexists. split; [exact W|].
    assert (KEYS : map fst (grp ++ [(g ++ p, ODataset (zeros_ds cd shape))]) = chain g p ++ [g ++ p])
      by (rewrite map_app, K; reflexivity).
    split; [|split; [|split; [|exact CL1]]].
    - rewrite app_assoc, lookup_app_new.
      assert (LN : st_lookup (st ++ grp) (g ++ p) = None).
      { rewrite lookup_app_none by (apply AB; assumption).
        destruct (st_lookup grp (g ++ p)) eqn:L; [|reflexivity].
        exfalso.
        assert (IN : In (g ++ p) (map fst grp)).
        { clear - L. induction grp as [|[k x] grp IH]; simpl in *; [discriminate|].
          destruct (h5path_eqb k (g ++ p)) eqn:E; [left; apply h5path_eqb_eq; exact E | right; auto]. }
        rewrite K in IN. apply in_chain in IN. destruct IN as [t [r [N1 [N2 [E1 E2]]]]].
        apply app_inv_head in E2. rewrite E2 in E1.
        assert (X : t ++ [] = t ++ r) by (rewrite app_nil_r; exact E1). apply app_inv_head in X. congruence. }
      match goal with |- match ?X with _ => _ end = _ => replace X with (@None (h5obj C)) by (symmetry; exact LN) end.
      rewrite h5path_eqb_refl. reflexivity.
    - intros t r N1 N2 E.
      rewrite lookup_app_none by (apply AB; assumption).
      assert (IN : In (g ++ t) (map fst grp)) by (rewrite K; apply in_chain; exists t, r; auto).
      assert (LG : st_lookup grp (g ++ t) = Some OGroup) by (apply lookup_groups_in; assumption).
      clear - LG. induction grp as [|[k x] grp IH]; simpl in *; [discriminate|].
      destruct (h5path_eqb k (g ++ t)); [exact LG | auto].
    - intros q NQ. apply lookup_app_notin. intros I0.
      assert (I : In q (chain g p ++ [g ++ p])) by (rewrite <- KEYS; exact I0).
      apply in_app_or in I. destruct I as [I|[I|[]]].
      + apply in_chain in I. destruct I as [t [r [N1 [N2 [E1 E2]]]]]. exact (NQ t r N1 E1 E2).
      + apply (NQ p [] NEP); [rewrite app_nil_r; reflexivity | exact (eq_sym I)].
  Qed.


  Lemma walk_post_lift : forall (st st' st1 : store) g c t shape,
    t <> [] ->
    walk_post st' (g ++ [c]) t shape st1 ->
    st_lookup st' (g ++ [c]) = Some OGroup ->
    (forall q, q <> g ++ [c] -> st_lookup st' q = st_lookup st q) ->
    walk_post st g (c :: t) shape st1.
  Proof.
    intros st st' st1 g c t shape NT [PA [PB [PC PD]]] LG SAME.
    split; [|split; [|split; [|exact PD]]].
    - rewrite <- PA. f_equal. rewrite <- app_assoc. reflexivity.
    - intros t0 r N1 N2 E. destruct t0 as [|x t0]; [congruence|]. inversion E; subst x.
      destruct t0 as [|y t0].
      + rewrite PC; [exact LG|]. intros t1 r1 N3 E1 E2.
        assert (X : (g ++ [c]) ++ [] = (g ++ [c]) ++ t1) by (rewrite app_nil_r; exact E2).
        apply app_inv_head in X. congruence.
      + replace (g ++ c :: y :: t0) with ((g ++ [c]) ++ y :: t0) by (rewrite <- app_assoc; reflexivity).
        apply (PB (y :: t0) r); [discriminate | assumption | assumption].
    - intros q NQ. rewrite PC.
      + apply SAME. apply (NQ [c] t); [discriminate | reflexivity].
      + intros t1 r1 N3 E1 E2. apply (NQ (c :: t1) r1); [discriminate | simpl; f_equal; exact E1 |].
        rewrite E2, <- app_assoc. reflexivity.
  Qed.

  Lemma walk_closed : forall p (st : store) g shape,
    Forall plain_comp p -> p <> [] -> shape <> [] -> closed st -> st_is_group st g = true ->
    if walk_ok st g p
    then exists st1, walk cd p st g shape false = (st1, IoRet (Some (g ++ p)) false) /\ walk_post st g p shape st1
    else walk cd p st g shape false = (st, IoRet None true).
  Proof.
    induction p as [|c t IH]; intros st g shape F NEP NES CL G; [congruence|].
    inversion F as [|x l PC Ft]; subst. rewrite walk_cons. unfold cd_step.
    destruct t as [|c' t'].
    - (* leaf *)
      destruct shape as [|n shape]; [congruence|].
      unfold h5_create_dataset. rewrite create_target_plain by assumption. rewrite G. simpl walk_ok.
      destruct (st_lookup st (g ++ [c])) eqn:LK; [reflexivity|].
      eexists. split; [reflexivity|].
      split; [|split; [|split]].
      + rewrite lookup_app_new, LK, h5path_eqb_refl. reflexivity.
      + intros t r N1 N2 E. destruct t as [|x t]; [congruence|]. inversion E.
        destruct t; [destruct r; [congruence|discriminate]|discriminate].
      + intros q NQ. rewrite lookup_app_new. destruct (st_lookup st q); [reflexivity|].
        rewrite h5path_eqb_neq; [reflexivity|]. intros E. apply (NQ [c] []); [discriminate|reflexivity|exact (eq_sym E)].
      + apply closed_add; assumption.
    - (* group step *)
      assert (NT : c' :: t' <> []) by discriminate.
      rewrite open_group_plain by assumption.
      assert (GNE : g ++ [c] <> []) by (destruct g; discriminate).
      change (walk_ok st g (c :: c' :: t')) with
        (match st_lookup st (g ++ [c]) with Some OGroup => walk_ok st (g ++ [c]) (c' :: t') | Some (ODataset _) => false | None => true end).
      destruct (st_lookup st (g ++ [c])) as [[|d0]|] eqn:LK.
      + (* an existing group *)
        assert (G' : st_is_group st (g ++ [c]) = true).
        { unfold st_is_group. destruct (g ++ [c]) eqn:E; [congruence|]. rewrite LK. reflexivity. }
        rewrite G'. specialize (IH st (g ++ [c]) shape Ft NT NES CL G').
        destruct (walk_ok st (g ++ [c]) (c' :: t')).
        * destruct IH as [st1 [W P]]. exists st1. split.
          -- rewrite W. rewrite <- app_assoc. reflexivity.
          -- eapply walk_post_lift; eauto.
        * exact IH.
      + (* a dataset in the way *)
        assert (G' : st_is_group st (g ++ [c]) = false).
        { unfold st_is_group. destruct (g ++ [c]) eqn:E; [congruence|]. rewrite LK. reflexivity. }
        rewrite G'. unfold h5_create_group. rewrite create_target_plain by assumption. rewrite G, LK. reflexivity.
      + (* absent: create the group, everything below is fresh *)
        assert (G' : st_is_group st (g ++ [c]) = false).
        { unfold st_is_group. destruct (g ++ [c]) eqn:E; [congruence|]. rewrite LK. reflexivity. }
        rewrite G'. unfold h5_create_group. rewrite create_target_plain by assumption. rewrite G, LK.
        set (st' := st ++ [(g ++ [c], OGroup)]).
        assert (CL' : closed st') by (apply closed_add; assumption).
        assert (LG : st_lookup st' (g ++ [c]) = Some OGroup)
          by (unfold st'; rewrite lookup_app_new, LK, h5path_eqb_refl; reflexivity).
        assert (G2 : st_is_group st' (g ++ [c]) = true).
        { unfold st_is_group. destruct (g ++ [c]) eqn:E; [congruence|]. rewrite LG. reflexivity. }
        assert (AB' : forall r, r <> [] -> st_lookup st' ((g ++ [c]) ++ r) = None).
        { intros r NR. unfold st'. rewrite lookup_app_new.
          rewrite (closed_absent_below st (g ++ [c]) CL GNE LK r).
          rewrite h5path_eqb_neq; [reflexivity|]. intros E.
          assert (X : (g ++ [c]) ++ [] = (g ++ [c]) ++ r) by (rewrite app_nil_r; exact E).
          apply app_inv_head in X. congruence. }
        destruct (walk_fresh_post (c' :: t') st' (g ++ [c]) shape Ft NT NES CL' G2 AB') as [st1 [W P]].
        exists st1. split.
        * cbv beta. fold st'. etransitivity; [exact W|]. rewrite <- app_assoc. reflexivity.
        * eapply walk_post_lift; eauto.
          intros q NQ. unfold st'. rewrite lookup_app_new. destruct (st_lookup st q); [reflexivity|].
          rewrite h5path_eqb_neq by congruence. reflexivity.
  Qed.


  (** ** The abstract specification *)

  Record afile := { af_ds : h5path -> option (harr V); af_grp : h5path -> bool }.
  Definition af_empty : afile := {| af_ds := fun _ => None; af_grp := fun _ => false |}.

  Definition is_none {A} (o : option A) : bool := match o with None => true | Some _ => false end.

  (** A new dataset can be created at g ++ p: no dataset on the way, the leaf is new. *)
  Fixpoint a_creatable (m : afile) (g p : h5path) : bool :=
    match p with
    | [] => false
    | [c] => is_none (af_ds m (g ++ [c])) && negb (af_grp m (g ++ [c]))
    | c :: t => is_none (af_ds m (g ++ [c])) && (if af_grp m (g ++ [c]) then a_creatable m (g ++ [c]) t else true)
    end.

  Fixpoint prefixb (q p : h5path) : bool :=
    match q, p with
    | [], _ => true
    | x :: q', y :: p' => h5name_eqb x y && prefixb q' p'
    | _ :: _, [] => false
    end.
  Definition proper_prefixb (q p : h5path) : bool :=
    negb (h5path_eqb q []) && prefixb q p && negb (h5path_eqb q p).

  Definition a_put (m : afile) (p : h5path) (x : harr V) (new : bool) : afile :=
    {| af_ds := fun q => if h5path_eqb q p then Some x else af_ds m q;
       af_grp := fun q => af_grp m q || (new && proper_prefixb q p) |}.

  Definition zeros_arr (shape : list Z) : harr V :=
    {| ha_dims := shape; ha_elems := repeat (vzero cd) (Z.to_nat (h5_product shape)) |}.

  Fixpoint in_block (loc shape idx : list Z) : bool :=
    match loc, shape, idx with
    | [], [], [] => true
    | l :: loc', sh :: shape', i :: idx' => (l <=? i) && (i <? l + sh) && in_block loc' shape' idx'
    | _, _, _ => false
    end.
  Fixpoint zsub (idx loc : list Z) : list Z :=
    match idx, loc with
    | i :: idx', l :: loc' => (i - l) :: zsub idx' loc'
    | _, _ => []
    end.

  (** [x] with the block [loc, loc + shape a) overwritten by [a], per index. *)
  Definition blit (x : harr V) (loc : list Z) (a : harr V) : harr V :=
    {| ha_dims := ha_dims x;
       ha_elems := map (fun idx =>
                     if in_block loc (ha_dims a) idx
                     then nth (Z.to_nat (h5_linear (ha_dims a) (zsub idx loc))) (ha_elems a) (vzero cd)
                     else nth (Z.to_nat (h5_linear (ha_dims x) idx)) (ha_elems x) (vzero cd))
                   (h5_all_indices (ha_dims x)) |}.

  (** Operations, each with the plain spelling [s] of its path [p]. *)
  Inductive sop :=
  | SCreate (s : list Z) (p : h5path) (shape : list Z)
  | SWrite (s : list Z) (p : h5path) (a : harr V)
  | SWriteSlice (s : list Z) (p : h5path) (a : harr V) (loc : list Z)
  | SLoad (s : list Z) (p : h5path) (sl : option (list dimsel))
  | SShape (s : list Z) (p : h5path).

  Definition to_op (o : sop) : @io_op V :=
    match o with
    | SCreate s _ shape => OpCreate {| h_dataset := s; h_slice := None |} shape false
    | SWrite s _ a => OpWrite {| h_dataset := s; h_slice := None |} a
    | SWriteSlice s _ a loc => OpWriteSlice {| h_dataset := s; h_slice := None |} a loc
    | SLoad s _ sl => OpLoad {| h_dataset := s; h_slice := sl |}
    | SShape s _ => OpShape {| h_dataset := s; h_slice := None |}
    end.

  Definition ok_unit : @io_obs V := ObsUnit (IoRet (Some tt) false).
  Definition err_unit : @io_obs V := ObsUnit (IoRet None true).

  Definition a_step (m : afile) (o : sop) : afile * @io_obs V :=
    match o with
    | SCreate _ p shape =>
        match af_ds m p with
        | Some x => (m, if zlist_eqb (ha_dims x) shape then ok_unit else err_unit)
        | None => if a_creatable m [] p then (a_put m p (zeros_arr shape) true, ok_unit) else (m, err_unit)
        end
    | SWrite _ p a =>
        match af_ds m p with
        | Some x => if zlist_eqb (ha_dims x) (ha_dims a) then (a_put m p a false, ok_unit) else (m, err_unit)
        | None => if a_creatable m [] p then (a_put m p a true, ok_unit) else (m, err_unit)
        end
    | SWriteSlice _ p a loc =>
        match af_ds m p with
        | Some x => (a_put m p (blit x loc a) false, ok_unit)
        | None => (m, err_unit)
        end
    | SLoad _ p sl =>
        match af_ds m p with
        | Some x =>
            (m, ObsArr (IoRet (Some (if has_selection sl
                                     then mem_slice (vzero cd) x (slice_triples (match sl with Some l => l | None => [] end) (ha_dims x))
                                     else x)) false))
        | None => (m, ObsArr (IoRet None true))
        end
    | SShape _ p =>
        match af_ds m p with
        | Some x => (m, ObsShape (IoRet (Some (ha_dims x)) false))
        | None => (m, ObsShape (IoRet None true))
        end
    end.

  (** What is asked of the arguments (in the abstract state the operation runs in). *)
  Definition sop_ok (m : afile) (o : sop) : Prop :=
    match o with
    | SCreate s p shape => plain_name s p /\ shape <> [] /\ Forall u64 shape
    | SWrite s p a => plain_name s p /\ arr_wf a /\ ha_elems a <> []
    | SWriteSlice s p a loc =>
        plain_name s p /\ arr_wf a /\ length loc = length (ha_dims a) /\ Forall u64 loc /\
        (forall x, af_ds m p = Some x -> block_fits (ha_dims x) loc (ha_dims a))
    | SLoad s p sl =>
        plain_name s p /\
        (forall x l, af_ds m p = Some x -> sl = Some l -> has_selection sl = true ->
                     Forall2 dimsel_wf (ha_dims x) l)
    | SShape s p => plain_name s p
    end.

  Fixpoint a_run (m : afile) (ops : list sop) : afile * list (@io_obs V) :=
    match ops with
    | [] => (m, [])
    | o :: r => let (m1, b) := a_step m o in let (m2, bs) := a_run m1 r in (m2, b :: bs)
    end.

  Fixpoint sops_ok (m : afile) (ops : list sop) : Prop :=
    match ops with
    | [] => True
    | o :: r => sop_ok m o /\ sops_ok (fst (a_step m o)) r
    end.

  (** ** The refinement relation *)
  Definition get_ds (st : store) (q : h5path) : option (h5dataset C) :=
    match st_lookup st q with Some (ODataset d) => Some d | _ => None end.

  Definition Rst (st : store) (m : afile) : Prop :=
    store_wf st /\ closed st /\
    (forall q, af_ds m q = option_map (ds_view cd) (get_ds st q)) /\
    (forall q, q <> [] -> (af_grp m q = true <-> st_lookup st q = Some OGroup)).

  Definition R (f : @h5file C) (m : afile) : Prop :=
    match f with
    | None => (forall q, af_ds m q = None) /\ (forall q, af_grp m q = false)
    | Some st => Rst st m
    end.


  Lemma R_none_empty : forall m, R None m -> Rst [] m.
  Proof.
    intros m [D G]. split; [intros q d L; discriminate|]. split; [intros q c o L; discriminate|].
    split; [intros q; rewrite D; reflexivity|]. intros q _. rewrite G. simpl. split; discriminate.
  Qed.

  Lemma Rst_grp_false : forall st m q, Rst st m -> q <> [] -> st_lookup st q <> Some OGroup -> af_grp m q = false.
  Proof.
    intros st m q [_ [_ [_ G]]] NE N. destruct (af_grp m q) eqn:E; [|reflexivity].
    apply (G q NE) in E. contradiction.
  Qed.

  Lemma Rst_grp_true : forall st m q, Rst st m -> q <> [] -> st_lookup st q = Some OGroup -> af_grp m q = true.
  Proof. intros st m q [_ [_ [_ G]]] NE L. apply (G q NE). exact L. Qed.

  Lemma creatable_walk_ok : forall st m, Rst st m -> forall p g, a_creatable m g p = walk_ok st g p.
  Proof.
    intros st m RS. pose proof RS as [_ [_ [D _]]].
    induction p as [|c t IH]; intros g; [reflexivity|].
    assert (GNE : g ++ [c] <> []) by (destruct g; discriminate).
    assert (DS : af_ds m (g ++ [c]) = option_map (ds_view cd) (get_ds st (g ++ [c]))) by apply D.
    unfold get_ds in DS.
    destruct t as [|c' t'].
    - simpl. destruct (st_lookup st (g ++ [c])) as [[|d0]|] eqn:LK; simpl in DS; rewrite DS; simpl.
      + rewrite (Rst_grp_true _ _ _ RS GNE LK). reflexivity.
      + reflexivity.
      + rewrite (Rst_grp_false st m _ RS GNE) by (rewrite LK; discriminate). reflexivity.
    - change (a_creatable m g (c :: c' :: t')) with
        (is_none (af_ds m (g ++ [c])) && (if af_grp m (g ++ [c]) then a_creatable m (g ++ [c]) (c' :: t') else true)).
      change (walk_ok st g (c :: c' :: t')) with
        (match st_lookup st (g ++ [c]) with Some OGroup => walk_ok st (g ++ [c]) (c' :: t') | Some (ODataset _) => false | None => true end).
      destruct (st_lookup st (g ++ [c])) as [[|d0]|] eqn:LK; simpl in DS; rewrite DS; simpl.
      + rewrite (Rst_grp_true _ _ _ RS GNE LK). apply IH.
      + reflexivity.
      + rewrite (Rst_grp_false st m _ RS GNE) by (rewrite LK; discriminate). reflexivity.
  Qed.

  (** [openOrCreateDataset] on a closed, well-formed store: complete description. *)
  Lemma ocd_full : forall st s p shape,
    store_wf st -> closed st -> plain_name s p -> shape <> [] -> Forall u64 shape ->
    match st_lookup st p with
    | Some (ODataset d0) =>
        open_or_create_dataset cd st s shape false
        = (st, if zlist_eqb (ds_dims d0) shape then IoRet (Some p) false else IoRet None true)
    | _ =>
        if walk_ok st [] p
        then exists st1, open_or_create_dataset cd st s shape false = (st1, IoRet (Some p) false)
                         /\ walk_post st [] p shape st1
        else open_or_create_dataset cd st s shape false = (st, IoRet None true)
    end.
  Proof.
    intros st s p shape WF CL PN NES U.
    unfold open_or_create_dataset. rewrite (plain_open_dataset _ _ _ PN).
    pose proof PN as [PNE [PF _]].
    pose proof (walk_closed p st [] shape PF PNE NES CL eq_refl) as WC.
    destruct (st_lookup st p) as [[|d0]|] eqn:LK.
    - rewrite (cdr_walk_split cd _ _ _ _ _ PN). exact WC.
    - destruct (WF _ _ LK) as [DNE _]. destruct (ds_dims d0) eqn:D; [congruence|]. rewrite <- D.
      destruct (zlist_eqb (ds_dims d0) shape); reflexivity.
    - rewrite (cdr_walk_split cd _ _ _ _ _ PN). exact WC.
  Qed.


  (** ** Block lemmas *)
  Lemma in_block_affine : forall loc shape k, length loc = length shape -> in_range shape k ->
    in_block loc shape (affine (block_tr loc shape) k) = true /\ zsub (affine (block_tr loc shape) k) loc = k.
  Proof.
    induction loc as [|l loc IH]; intros [|sh shape] k L R; simpl in L; try discriminate; inversion R; subst; simpl.
    - auto.
    - destruct (IH shape l' ltac:(lia) H3) as [B Z0]. rewrite B, Z0.
      destruct (Z.leb_spec l (l + y * 1)); [|lia]. destruct (Z.ltb_spec (l + y * 1) (l + sh)); [|lia].
      split; [reflexivity|]. f_equal. lia.
  Qed.

  Lemma in_block_inv : forall loc shape idx, in_block loc shape idx = true ->
    in_range shape (zsub idx loc) /\ affine (block_tr loc shape) (zsub idx loc) = idx.
  Proof.
    induction loc as [|l loc IH]; intros [|sh shape] [|i idx] B; simpl in B; try discriminate.
    - split; [constructor|reflexivity].
    - apply andb_true_iff in B. destruct B as [B1 B2]. apply andb_true_iff in B1. destruct B1 as [B0 B1].
      apply Z.leb_le in B0. apply Z.ltb_lt in B1. destruct (IH _ _ B2) as [R A].
      simpl. split; [constructor; [lia|exact R]|]. rewrite A. f_equal. lia.
  Qed.

  Lemma map_cell_val_encode : forall l, map (cell_val cd) (io_encode cd l) = l.
  Proof. intros. rewrite <- (decode_cells cd EX). apply (decode_encode cd EX). Qed.

  Lemma linear_nil : forall dims, h5_linear dims [] = 0.
  Proof. destruct dims; reflexivity. Qed.

  Lemma nth_all_indices_linear : forall dims n, Forall (fun x => 0 <= x) dims -> (n < length (h5_all_indices dims))%nat ->
    in_range dims (nth n (h5_all_indices dims) []) /\ Z.to_nat (h5_linear dims (nth n (h5_all_indices dims) [])) = n.
  Proof.
    intros dims n F L. split.
    - apply all_indices_In. apply nth_In. exact L.
    - pose proof (linear_all_indices dims F) as E.
      assert (E2 : nth n (map (h5_linear dims) (h5_all_indices dims)) (h5_linear dims []) = nth n (h5_zrange (h5_product dims)) (h5_linear dims []))
        by (rewrite E; reflexivity).
      rewrite map_nth in E2. rewrite E2.
      rewrite all_indices_length in L by assumption.
      rewrite zrange_nth by exact L. lia.
  Qed.

  (** The data produced by the hyperslab transfer is the per-index blit. *)
  Lemma blit_refines : forall d a loc data',
    ds_wf d -> arr_wf a -> length loc = length (ha_dims a) ->
    length data' = length (ds_data d) ->
    (forall k, in_range (ha_dims a) k ->
        nth (Z.to_nat (h5_linear (ds_dims d) (affine (block_tr loc (ha_dims a)) k))) data' (io_czero cd)
        = nth (Z.to_nat (h5_linear (ha_dims a) k)) (io_encode cd (ha_elems a)) (io_czero cd)) ->
    (forall idx, in_range (ds_dims d) idx -> (forall k, in_range (ha_dims a) k -> idx <> affine (block_tr loc (ha_dims a)) k) ->
        nth (Z.to_nat (h5_linear (ds_dims d) idx)) data' (io_czero cd) = nth (Z.to_nat (h5_linear (ds_dims d) idx)) (ds_data d) (io_czero cd)) ->
    ds_view cd {| ds_dims := ds_dims d; ds_data := data' |} = blit (ds_view cd d) loc a.
  Proof.
    intros d a loc data' [DNE [DU DL]] [ANE [AU AL]] LL LEN EFF FRAME.
    unfold ds_view, blit. cbn [ds_dims ds_data ha_dims ha_elems]. f_equal.
    pose proof (u64_nonneg _ DU) as DNN.
    apply nth_ext with (d := vzero cd) (d' := (fun idx => if in_block loc (ha_dims a) idx
                     then nth (Z.to_nat (h5_linear (ha_dims a) (zsub idx loc))) (ha_elems a) (vzero cd)
                     else nth (Z.to_nat (h5_linear (ds_dims d) idx)) (map (cell_val cd) (ds_data d)) (vzero cd)) []).
    - rewrite !map_length, LEN, DL. symmetry. apply all_indices_length. exact DNN.
    - intros n Hn. rewrite map_length in Hn.
      assert (HL : (n < length (h5_all_indices (ds_dims d)))%nat)
        by (rewrite all_indices_length by exact DNN; rewrite <- DL, <- LEN; exact Hn).
      destruct (nth_all_indices_linear _ _ DNN HL) as [IR LN].
      rewrite (map_nth (fun idx => if in_block loc (ha_dims a) idx then _ else _)).
      set (idx := nth n (h5_all_indices (ds_dims d)) []) in *.
      unfold vzero at 1. rewrite (map_nth (cell_val cd)).
      destruct (in_block loc (ha_dims a) idx) eqn:IB.
      + destruct (in_block_inv _ _ _ IB) as [KR KA].
        rewrite <- LN. pose proof (EFF _ KR) as E1. rewrite KA in E1. unfold io_czero in E1. rewrite E1.
        unfold vzero. rewrite <- (map_nth (cell_val cd)). rewrite map_cell_val_encode. reflexivity.
      + rewrite <- LN at 1. pose proof (FRAME idx IR) as E1. unfold io_czero in E1. rewrite E1.
        * unfold vzero. rewrite (map_nth (cell_val cd)). reflexivity.
        * intros k KR E. destruct (in_block_affine loc (ha_dims a) k LL KR) as [B _]. rewrite <- E in B. congruence.
  Qed.


  (** ** Re-establishing the relation *)
  Definition path_dec := list_eq_dec (list_eq_dec Z.eq_dec).

  Lemma Rst_update : forall st m1 m2 p d d',
    Rst st m1 -> st_lookup st p = Some (ODataset d) -> ds_wf d' ->
    (forall q, af_ds m2 q = if h5path_eqb q p then Some (ds_view cd d') else af_ds m1 q) ->
    (forall q, af_grp m2 q = af_grp m1 q) ->
    Rst (st_update st p (ODataset d')) m2.
  Proof.
    intros st m1 m2 p d d' [WF [CL [D G]]] LK W' HD HG.
    split; [|split; [|split]].
    - intros q dq L. destruct (path_dec p q) as [E|N].
      + subst q. rewrite (lookup_update_same _ _ _ _ LK) in L. inversion L; subst. exact W'.
      + rewrite lookup_update_other in L by assumption. eapply WF; eauto.
    - eapply closed_update; eauto.
    - intros q. rewrite HD. unfold get_ds. destruct (path_dec p q) as [E|N].
      + subst q. rewrite h5path_eqb_refl, (lookup_update_same _ _ _ _ LK). reflexivity.
      + rewrite h5path_eqb_neq by congruence. rewrite lookup_update_other by assumption. apply D.
    - intros q NE. rewrite HG. destruct (path_dec p q) as [E|N].
      + subst q. rewrite (lookup_update_same _ _ _ _ LK). rewrite (G p NE), LK. split; discriminate.
      + rewrite lookup_update_other by assumption. apply G. exact NE.
  Qed.

  Lemma prefixb_spec : forall q p, prefixb q p = true <-> exists r, p = q ++ r.
  Proof.
    induction q as [|x q IH]; intros p; simpl.
    - split; [intros _; exists p; reflexivity | auto].
    - destruct p as [|y p]; [split; [discriminate | intros [r E]; discriminate]|].
      rewrite andb_true_iff, h5name_eqb_eq, IH. split.
      + intros [E [r E2]]. subst. exists r. reflexivity.
      + intros [r E]. inversion E. eauto.
  Qed.

  Lemma proper_prefixb_spec : forall q p, proper_prefixb q p = true <-> exists r, q <> [] /\ r <> [] /\ p = q ++ r.
  Proof.
    intros q p. unfold proper_prefixb. rewrite !andb_true_iff, !negb_true_iff, prefixb_spec. split.
    - intros [[N1 [r E]] N2]. exists r. split; [intros X; subst q; discriminate|]. split; [|exact E].
      intros X. subst r. rewrite app_nil_r in E. subst p. rewrite h5path_eqb_refl in N2. discriminate.
    - intros [r [N1 [N2 E]]]. split; [split; [apply h5path_eqb_neq; exact N1 | eauto]|].
      apply h5path_eqb_neq. intros X. subst q.
      assert (Y : p ++ [] = p ++ r) by (rewrite app_nil_r; exact E). apply app_inv_head in Y. congruence.
  Qed.

  Lemma map_repeat' : forall {A B} (f : A -> B) x n, map f (repeat x n) = repeat (f x) n.
  Proof. induction n; simpl; [reflexivity|]. f_equal. assumption. Qed.

  Lemma ds_view_zeros : forall shape, Forall u64 shape -> ds_view cd (zeros_ds cd shape) = zeros_arr shape.
  Proof.
    intros shape U. unfold ds_view, zeros_ds, zeros_arr. simpl. rewrite (map_go_uint_id _ U).
    f_equal. rewrite map_repeat'. reflexivity.
  Qed.

  Lemma Rst_new : forall st st1 m1 m2 p shape,
    Rst st m1 -> p <> [] -> walk_post st [] p shape st1 ->
    (forall q o, st_lookup st q = Some o -> st_lookup st1 q = Some o) ->
    shape <> [] -> Forall u64 shape ->
    (forall q, af_ds m2 q = if h5path_eqb q p then Some (zeros_arr shape) else af_ds m1 q) ->
    (forall q, af_grp m2 q = af_grp m1 q || proper_prefixb q p) ->
    Rst st1 m2.
  Proof.
    intros st st1 m1 m2 p shape [WF [CL [D G]]] PNE [PA [PB [PC PD]]] OLD NES U HD HG.
    simpl in PA, PB, PC.
    assert (CASES : forall q, q = p \/ (proper_prefixb q p = true /\ st_lookup st1 q = Some OGroup /\ q <> p)
                              \/ (proper_prefixb q p = false /\ q <> p /\ st_lookup st1 q = st_lookup st q)).
    { intros q. destruct (path_dec q p) as [E|N]; [left; exact E|right].
      destruct (proper_prefixb q p) eqn:PP.
      - left. split; [reflexivity|]. split; [|exact N]. apply proper_prefixb_spec in PP. destruct PP as [r [N1 [N2 E]]].
        apply (PB q r N1 N2 E).
      - right. split; [reflexivity|]. split; [exact N|]. apply PC. intros t r N1 E X. subst t.
        destruct r as [|y r].
        + rewrite app_nil_r in E. congruence.
        + assert (proper_prefixb q p = true) by (apply proper_prefixb_spec; exists (y :: r); repeat split; auto; discriminate).
          congruence. }
    destruct (zeros_ds_wf cd shape NES U) as [ZW _].
    split; [|split; [exact PD|split]].
    - intros q dq L. destruct (CASES q) as [E|[[_ [LG _]]|[_ [_ LS]]]].
      + subst q. rewrite PA in L. inversion L; subst. exact ZW.
      + rewrite LG in L. discriminate.
      + rewrite LS in L. eapply WF; eauto.
    - intros q. rewrite HD. unfold get_ds. destruct (CASES q) as [E|[[_ [LG N]]|[_ [N LS]]]].
      + subst q. rewrite h5path_eqb_refl, PA. simpl. rewrite ds_view_zeros by assumption. reflexivity.
      + rewrite h5path_eqb_neq by assumption. rewrite LG, D. unfold get_ds.
        destruct (st_lookup st q) as [[|dq]|] eqn:LQ; try reflexivity.
        rewrite (OLD _ _ LQ) in LG. discriminate.
      + rewrite h5path_eqb_neq by assumption. rewrite LS. apply D.
    - intros q NE. rewrite HG. destruct (CASES q) as [E|[[PP [LG N]]|[PP [N LS]]]].
      + subst q. assert (PF : proper_prefixb p p = false).
        { unfold proper_prefixb. rewrite h5path_eqb_refl. simpl. rewrite andb_false_r. reflexivity. }
        rewrite PF, orb_false_r, PA.
        assert (GF : af_grp m1 p = false).
        { destruct (af_grp m1 p) eqn:E; [|reflexivity]. apply (G p NE) in E. rewrite (OLD _ _ E) in PA. discriminate. }
        rewrite GF. split; discriminate.
      + rewrite PP, orb_true_r, LG. split; reflexivity.
      + rewrite PP, orb_false_r, LS. apply G. exact NE.
  Qed.


  (** ** One step *)
  Lemma R_open_or_new : forall f m, R f m -> Rst (open_or_new f) m.
  Proof. intros [st|] m H; simpl; [exact H | apply R_none_empty; exact H]. Qed.

  Lemma Rst_ds : forall st m p, Rst st m ->
    af_ds m p = match st_lookup st p with Some (ODataset d) => Some (ds_view cd d) | _ => None end.
  Proof.
    intros st m p [_ [_ [D _]]]. rewrite D. unfold get_ds. destruct (st_lookup st p) as [[|d]|]; reflexivity.
  Qed.

  Definition refines_step (f : @h5file C) (m : afile) (o : sop) : Prop :=
    exists f', io_step cd f (to_op o) = (f', snd (a_step m o)) /\ R f' (fst (a_step m o)).

  Lemma step_create : forall f m s p shape, R f m -> sop_ok m (SCreate s p shape) -> refines_step f m (SCreate s p shape).
  Proof.
    intros f m s p shape RF [PN [NES U]]. unfold refines_step.
    pose proof (R_open_or_new _ _ RF) as RS. pose proof RS as [WF [CL _]].
    pose proof (ocd_full _ s p shape WF CL PN NES U) as OF.
    simpl io_step. unfold io_create. simpl h_dataset. simpl a_step.
    rewrite (Rst_ds _ _ p RS). rewrite (creatable_walk_ok _ _ RS).
    destruct (st_lookup (open_or_new f) p) as [[|d0]|] eqn:LK.
    1,3: destruct (walk_ok (open_or_new f) [] p);
      [ destruct OF as [st1 [O P]]; rewrite O;
        pose proof (ocd_spec cd _ _ _ _ _ _ WF PN NES U O) as [_ [OLD _]];
        eexists; split; [reflexivity|]; simpl;
        destruct PN as [PNE _];
        eapply (Rst_new _ _ _ _ _ _ RS PNE P OLD NES U); intros q; reflexivity
      | rewrite OF; eexists; split; [reflexivity | exact RS] ].
    rewrite OF. cbn [ds_view ha_dims]. destruct (zlist_eqb (ds_dims d0) shape); eexists; (split; [reflexivity | exact RS]).
  Qed.

  Lemma write_data : forall (st1 : store) p d a,
    st_lookup st1 p = Some (ODataset d) -> ds_wf d -> ds_dims d = ha_dims a -> arr_wf a ->
    h5_transfer (io_czero cd) (io_encode cd (ha_elems a)) (ds_dims d) SelAll (ds_data d) (ds_dims d) SelAll
      = Some (io_encode cd (ha_elems a))
    /\ ds_wf {| ds_dims := ds_dims d; ds_data := io_encode cd (ha_elems a) |}
    /\ ds_view cd {| ds_dims := ds_dims d; ds_data := io_encode cd (ha_elems a) |} = a.
  Proof.
    intros st1 p d a LK [DNE [DU DL]] DE [ANE [AU AL]].
    split; [|split].
    - apply (transfer_all_read cd); [apply u64_nonneg; exact DU | | exact DL].
      rewrite (encode_length cd EX), DE. exact AL.
    - unfold ds_wf. simpl. repeat split; auto. rewrite (encode_length cd EX), DE. exact AL.
    - unfold ds_view. simpl. rewrite map_cell_val_encode, DE. destruct a; reflexivity.
  Qed.

  Lemma step_write : forall f m s p a, R f m -> sop_ok m (SWrite s p a) -> refines_step f m (SWrite s p a).
  Proof.
    intros f m s p a RF [PN [AW NEE]]. unfold refines_step.
    pose proof AW as [ANE [AU AL]].
    pose proof (R_open_or_new _ _ RF) as RS. pose proof RS as [WF [CL _]].
    pose proof (ocd_full _ s p (ha_dims a) WF CL PN ANE AU) as OF.
    simpl io_step. unfold io_write. simpl h_dataset. simpl a_step.
    destruct (ha_elems a) as [|v0 vs] eqn:HE; [congruence|]. rewrite <- HE in *.
    rewrite (Rst_ds _ _ p RS). rewrite (creatable_walk_ok _ _ RS).
    destruct (st_lookup (open_or_new f) p) as [[|d0]|] eqn:LK.
    1,3: destruct (walk_ok (open_or_new f) [] p);
      [ destruct OF as [st1 [O P]]; rewrite O;
        pose proof (ocd_spec cd _ _ _ _ _ _ WF PN ANE AU O) as [_ [OLD _]];
        pose proof P as [PA _]; simpl in PA; rewrite PA;
        destruct (zeros_ds_wf cd _ ANE AU) as [ZW ZD];
        destruct (write_data _ _ _ _ PA ZW ZD AW) as [T [W' VW]];
        rewrite T; eexists; split; [reflexivity|]; cbn [fst R];
        assert (RS1 : Rst st1 (a_put m p (zeros_arr (ha_dims a)) true))
          by (destruct PN as [PNE _]; eapply (Rst_new _ _ _ _ _ _ RS PNE P OLD ANE AU); intros q; reflexivity);
        eapply (Rst_update _ _ _ _ _ _ RS1 PA W');
        [ intros q; rewrite VW; simpl; destruct (h5path_eqb q p); reflexivity | intros q; reflexivity ]
      | rewrite OF; eexists; split; [reflexivity | exact RS] ].
    rewrite OF. cbn [ds_view ha_dims].
    destruct (zlist_eqb (ds_dims d0) (ha_dims a)) eqn:ZE.
    - apply zlist_eqb_eq in ZE. rewrite LK.
      destruct (write_data _ _ _ _ LK (WF _ _ LK) ZE AW) as [T [W' VW]].
      rewrite T. eexists. split; [reflexivity|]. cbn [fst R].
      eapply (Rst_update _ _ _ _ _ _ RS LK W'); [intros q; rewrite VW; reflexivity | intros q; simpl; rewrite orb_false_r; reflexivity].
    - eexists. split; [reflexivity | exact RS].
  Qed.


  Lemma step_write_slice : forall f m s p a loc, R f m -> sop_ok m (SWriteSlice s p a loc) ->
    refines_step f m (SWriteSlice s p a loc).
  Proof.
    intros f m s p a loc RF [PN [AW [LL [LU BF]]]]. unfold refines_step.
    simpl a_step. destruct f as [st|].
    - pose proof RF as RS. simpl in RS. pose proof RS as [WF [CL _]].
      rewrite (Rst_ds _ _ p RS) in *.
      destruct (st_lookup st p) as [[|d]|] eqn:LK.
      1,3: simpl io_step; unfold io_write_slice; simpl h_dataset;
           rewrite (plain_open_dataset _ _ _ PN), LK; eexists; split; [reflexivity | exact RF].
      specialize (BF _ eq_refl). cbn [ds_view ha_dims] in BF.
      destruct (write_slice_spec cd EX st s p d a loc WF PN LK AW LL LU BF) as [data' [W [LEN [EFF FR]]]].
      unfold io_step, to_op. rewrite W. eexists. split; [reflexivity|]. cbn [fst R].
      assert (W' : ds_wf {| ds_dims := ds_dims d; ds_data := data' |}).
      { destruct (WF _ _ LK) as [A [B D0]]. unfold ds_wf. simpl. repeat split; auto. rewrite LEN. exact D0. }
      eapply (Rst_update _ _ _ _ _ _ RS LK W').
      + intros q. rewrite (blit_refines d a loc data' (WF _ _ LK) AW LL LEN EFF FR). reflexivity.
      + intros q. simpl. rewrite orb_false_r. reflexivity.
    - destruct RF as [D G]. rewrite D. simpl. eexists. split; [reflexivity|]. split; assumption.
  Qed.

  Lemma load_whole_gen : forall st s p d sl,
    h5_open_dataset st [] s = Some (p, d) -> ds_wf d -> has_selection sl = false ->
    io_load cd (Some st) {| h_dataset := s; h_slice := sl |} = IoRet (Some (ds_view cd d)) false.
  Proof.
    intros st s p d sl O W HS.
    pose proof (load_whole cd EX st s p d O W) as L. unfold io_load in *. simpl h_dataset in *. simpl h_slice in *.
    rewrite O in *. rewrite HS. simpl in L. exact L.
  Qed.

  Lemma step_load : forall f m s p sl, R f m -> sop_ok m (SLoad s p sl) -> refines_step f m (SLoad s p sl).
  Proof.
    intros f m s p sl RF [PN SW]. unfold refines_step. simpl io_step. simpl a_step.
    destruct f as [st|].
    - pose proof RF as RS. simpl in RS. pose proof RS as [WF _].
      rewrite (Rst_ds _ _ p RS) in *.
      destruct (st_lookup st p) as [[|d]|] eqn:LK.
      1,3: unfold io_load; simpl h_dataset; rewrite (plain_open_dataset _ _ _ PN), LK; eexists; split; [reflexivity | exact RF].
      assert (O : h5_open_dataset st [] s = Some (p, d)) by (rewrite (plain_open_dataset _ _ _ PN), LK; reflexivity).
      destruct (has_selection sl) eqn:HS.
      + destruct sl as [l|]; [|discriminate].
        rewrite (load_subset_eq_memory_slice cd EX st s p d l O (WF _ _ LK) (SW _ _ eq_refl eq_refl eq_refl) HS).
        eexists. split; [reflexivity | exact RF].
      + rewrite (load_whole_gen st s p d sl O (WF _ _ LK) HS). eexists. split; [reflexivity | exact RF].
    - destruct RF as [D G]. rewrite D. simpl. eexists. split; [reflexivity|]. split; assumption.
  Qed.

  Lemma step_shape : forall f m s p, R f m -> sop_ok m (SShape s p) -> refines_step f m (SShape s p).
  Proof.
    intros f m s p RF PN. unfold refines_step. simpl io_step. simpl a_step. simpl in PN.
    destruct f as [st|].
    - pose proof RF as RS. simpl in RS. pose proof RS as [WF _].
      rewrite (Rst_ds _ _ p RS). unfold io_shape. simpl h_dataset. rewrite (plain_open_dataset _ _ _ PN).
      destruct (st_lookup st p) as [[|d]|] eqn:LK; try (eexists; split; [reflexivity | exact RF]).
      destruct (WF _ _ LK) as [NE _]. cbn [ds_view ha_dims]. destruct (ds_dims d); [congruence|].
      eexists. split; [reflexivity | exact RF].
    - destruct RF as [D G]. rewrite D. simpl. eexists. split; [reflexivity|]. split; assumption.
  Qed.

  Lemma step_refines : forall f m o, R f m -> sop_ok m o -> refines_step f m o.
  Proof.
    intros f m [s p shape|s p a|s p a loc|s p sl|s p] RF OK.
    - apply step_create; assumption.
    - apply step_write; assumption.
    - apply step_write_slice; assumption.
    - apply step_load; assumption.
    - apply step_shape; assumption.
  Qed.

  (** ** Every sequence of operations refines the abstract specification. *)
  Theorem sequences_refine_spec : forall ops f m,
    R f m -> sops_ok m ops ->
    exists f', io_run_ops cd f (map to_op ops) = (f', snd (a_run m ops)) /\ R f' (fst (a_run m ops)).
  Proof.
    induction ops as [|o ops IH]; intros f m RF OK.
    - simpl. eexists. split; [reflexivity | exact RF].
    - destruct OK as [OK1 OK2].
      destruct (step_refines f m o RF OK1) as [f1 [S1 R1]].
      destruct (IH f1 (fst (a_step m o)) R1 OK2) as [f2 [S2 R2]].
      exists f2. simpl. rewrite S1, S2.
      destruct (a_step m o) as [m1 b]. simpl in *. destruct (a_run m1 ops) as [m2 bs]. simpl in *.
      split; [reflexivity | exact R2].
  Qed.

  (** Starting from a missing file and the empty specification. *)
  Corollary sequences_refine_spec_from_nothing : forall ops,
    sops_ok af_empty ops ->
    exists f', io_run_ops cd None (map to_op ops) = (f', snd (a_run af_empty ops)) /\ R f' (fst (a_run af_empty ops)).
  Proof. intros ops OK. apply sequences_refine_spec; [split; reflexivity | exact OK]. Qed.

End Seq.
