(** * IO/HyperslabProofs — sliceSize is the extent of the in-memory slice;
    enumeration lemmas for row-major index lists. *)
From Coq Require Import ZArith List Bool Lia FinFun.
From OW Require Import IO.Hyperslab.
Import ListNotations.
Local Open Scope Z_scope.

(** ** slice_size *)

Lemma go_min_int_min : forall a b, go_min_int a b = Z.min a b.
Proof. intros. unfold go_min_int. destruct (Z.gtb_spec a b); lia. Qed.

Lemma go_max_int_max : forall a b, go_max_int a b = Z.max a b.
Proof. intros. unfold go_max_int. destruct (Z.gtb_spec a b); lia. Qed.

(** [slice_count] counts the k >= 0 with a + k*s < min b n. *)
Lemma slice_count_spec : forall a b s n k, 1 <= s -> 0 <= k ->
  (k < slice_count a b s n <-> a + k * s < Z.min b n).
Proof.
  intros a b s n k Hs Hk. unfold slice_count.
  destruct (Z.leb_spec (Z.min b n) a) as [L|L].
  - split; intros; nia.
  - set (e := Z.min b n - a) in *. assert (0 < e) by (unfold e; lia).
    split; intros H0.
    + assert (k + 1 <= (e + s - 1) / s) by lia.
      assert (s * (k + 1) <= e + s - 1).
      { etransitivity; [apply Z.mul_le_mono_nonneg_l; [lia | exact H1]|]. apply Z.mul_div_le. lia. }
      unfold e in *. nia.
    + assert (s * (k + 1) <= e + s - 1) by (unfold e; nia).
      assert (k + 1 <= (e + s - 1) / s) by (apply Z.div_le_lower_bound; lia).
      lia.
Qed.

Lemma slice_count_nonneg : forall a b s n, 1 <= s -> 0 <= slice_count a b s n.
Proof.
  intros. unfold slice_count. destruct (Z.leb_spec (Z.min b n) a); [lia|].
  apply Z.div_pos; lia.
Qed.

Lemma go_int_id : forall z, -9223372036854775808 <= z < 9223372036854775808 -> go_int z = z.
Proof. intros z H. unfold go_int. rewrite Z.mod_small by lia. lia. Qed.

(** What is assumed of a selection entry [start, stop, step] on an axis of
    extent n for the theorems: they are Go ints, start >= 0, step >= 1, and
    extent + step - 1 does not overflow (n + step <= 2^63); stop may be ANY int
    not below MinInt64 + n -- in particular MaxInt64, the open-ended idiom. *)
Definition ss_ok (a b s n : Z) : Prop :=
  0 <= a < 9223372036854775808 /\ 1 <= s /\ 0 <= n /\ n + s <= 9223372036854775808 /\
  -9223372036854775808 + n <= b < 9223372036854775808.

(** The Go expression: ceiling division of the clipped extent; [stop] beyond the
    axis clips to it; a start at or beyond the end gives 0. *)
Theorem slice_size_spec : forall a b s n, ss_ok a b s n ->
  slice_size [a; b; s] n = Some (slice_count a b s n).
Proof.
  intros a b s n [Ha [Hs [Hn [Hns Hb]]]]. unfold slice_size.
  rewrite !go_min_int_min. rewrite (go_int_id (Z.min n b - Z.min n a)) by lia.
  rewrite go_max_int_max.
  destruct (Z.eqb_spec s 0); [lia|]. f_equal.
  unfold slice_count.
  destruct (Z.leb_spec (Z.min b n) a) as [L|L].
  - replace (Z.max 0 (Z.min n b - Z.min n a)) with 0 by lia.
    rewrite (go_int_id (0 + s - 1)) by lia. rewrite Z.quot_small by lia. apply go_int_id. lia.
  - replace (Z.max 0 (Z.min n b - Z.min n a)) with (Z.min b n - a) by lia.
    rewrite (go_int_id (Z.min b n - a + s - 1)) by lia.
    rewrite Z.quot_div_nonneg by lia.
    apply go_int_id.
    assert (0 <= (Z.min b n - a + s - 1) / s) by (apply Z.div_pos; lia).
    assert ((Z.min b n - a + s - 1) / s <= Z.min b n - a + s - 1) by (apply Z.div_le_upper_bound; nia).
    lia.
Qed.

Corollary slice_size_counts : forall a b s n c, ss_ok a b s n ->
  slice_size [a; b; s] n = Some c ->
  0 <= c /\ forall k, 0 <= k -> (k < c <-> a + k * s < Z.min b n).
Proof.
  intros a b s n c OK H. rewrite slice_size_spec in H by assumption. inversion H; subst.
  destruct OK as [Ha [Hs _]].
  split; [apply slice_count_nonneg; lia|]. intros. apply slice_count_spec; lia.
Qed.

Lemma slice_count_whole : forall n, 0 <= n -> slice_count 0 n 1 n = n.
Proof.
  intros. unfold slice_count. rewrite Z.min_id.
  destruct (Z.leb_spec n 0); [lia|]. rewrite Z.div_1_r. lia.
Qed.

(** ** zrange *)

Lemma zrange_length : forall n, length (h5_zrange n) = Z.to_nat n.
Proof. intros. unfold h5_zrange. rewrite map_length, seq_length. reflexivity. Qed.

Lemma zrange_In : forall n x, In x (h5_zrange n) <-> 0 <= x < n.
Proof.
  intros. unfold h5_zrange. rewrite in_map_iff. split.
  - intros [k [E I]]. apply in_seq in I. lia.
  - intros H. exists (Z.to_nat x). split; [lia|]. apply in_seq. lia.
Qed.

Lemma zrange_nth : forall n k d, (k < Z.to_nat n)%nat -> nth k (h5_zrange n) d = Z.of_nat k.
Proof.
  intros. unfold h5_zrange.
  rewrite nth_indep with (d' := Z.of_nat 0) by (rewrite map_length, seq_length; lia).
  rewrite map_nth, seq_nth by lia. reflexivity.
Qed.

Lemma zrange_NoDup : forall n, NoDup (h5_zrange n).
Proof.
  intros. unfold h5_zrange. apply FinFun.Injective_map_NoDup; [|apply seq_NoDup].
  intros x y E. lia.
Qed.

Lemma zrange_nonpos : forall n, n <= 0 -> h5_zrange n = [].
Proof. intros. unfold h5_zrange. replace (Z.to_nat n) with 0%nat by lia. reflexivity. Qed.

Lemma zrange_succ : forall n, 0 <= n -> h5_zrange (n + 1) = h5_zrange n ++ [n].
Proof.
  intros. unfold h5_zrange. replace (Z.to_nat (n + 1)) with (S (Z.to_nat n)) by lia.
  rewrite seq_S, map_app. simpl. f_equal. f_equal. lia.
Qed.

(** ** product / linear / cartesian *)

Lemma product_nonneg : forall dims, Forall (fun n => 0 <= n) dims -> 0 <= h5_product dims.
Proof. induction 1; simpl; [lia|]. apply Z.mul_nonneg_nonneg; auto. Qed.

Definition in_range (dims idx : list Z) : Prop := Forall2 (fun n i => 0 <= i < n) dims idx.

Lemma linear_bounds : forall dims idx, in_range dims idx -> 0 <= h5_linear dims idx < h5_product dims.
Proof.
  induction 1 as [|n i dims idx H F IH]; simpl; [lia|].
  nia.
Qed.

Lemma linear_inj : forall dims idx idx', in_range dims idx -> in_range dims idx' ->
  h5_linear dims idx = h5_linear dims idx' -> idx = idx'.
Proof.
  induction dims as [|n dims IH]; intros idx idx' R R' E; inversion R; inversion R'; subst; [reflexivity|].
  simpl in E.
  match goal with [ H1 : Forall2 _ dims ?l, H2 : Forall2 _ dims ?l' |- _ ] =>
    pose proof (linear_bounds _ _ H1); pose proof (linear_bounds _ _ H2) end.
  assert (y = y0) by nia. subst. f_equal. eapply IH; eauto. lia.
Qed.

Lemma cartesian_In : forall axes idx, In idx (h5_cartesian axes) <-> Forall2 (fun a i => In i a) axes idx.
Proof.
  induction axes as [|a axes IH]; intros idx; simpl.
  - split; [intros [E|[]]; subst; constructor | intros H; inversion H; auto].
  - rewrite in_flat_map. split.
    + intros [x [Ix I]]. apply in_map_iff in I. destruct I as [r [E Ir]]. subst. constructor; auto. apply IH. auto.
    + intros H. inversion H; subst. exists y. split; auto. apply in_map_iff. exists l'. split; auto. apply IH. auto.
Qed.

Lemma all_indices_In : forall dims idx, In idx (h5_all_indices dims) <-> in_range dims idx.
Proof.
  intros. unfold h5_all_indices. rewrite cartesian_In. unfold in_range.
  split; intros H.
  - remember (map h5_zrange dims) as axes eqn:E. revert dims E. induction H; intros dims E; destruct dims; simpl in E; try discriminate.
    + constructor.
    + inversion E; subst. constructor; [apply zrange_In; auto | apply IHForall2; auto].
  - induction H; simpl; constructor; auto. apply zrange_In. auto.
Qed.

Lemma cartesian_length : forall axes, length (h5_cartesian axes) = fold_right (fun a r => (length a * r)%nat) 1%nat axes.
Proof.
  induction axes as [|a axes IH]; simpl; [reflexivity|].
  rewrite <- IH. generalize (h5_cartesian axes) as l. intros l.
  induction a as [|x a IHa]; simpl; [reflexivity|].
  rewrite app_length, map_length, IHa. reflexivity.
Qed.

Lemma all_indices_length : forall dims, Forall (fun n => 0 <= n) dims ->
  length (h5_all_indices dims) = Z.to_nat (h5_product dims).
Proof.
  intros dims F. unfold h5_all_indices. rewrite cartesian_length.
  induction F as [|n dims H F IH]; simpl; [reflexivity|].
  rewrite IH, zrange_length. pose proof (product_nonneg _ F). rewrite Z2Nat.inj_mul by lia. reflexivity.
Qed.

Lemma seq_map_add : forall n a, seq a n = map (fun i => (a + i)%nat) (seq 0 n).
Proof.
  induction n as [|n IH]; intros a; simpl; [reflexivity|].
  f_equal; [lia|]. rewrite (IH (S a)), (IH 1%nat), map_map. apply map_ext. intros. lia.
Qed.

(** Offsets of one row block. *)
Lemma flat_map_rows : forall P n, 0 <= P -> 0 <= n ->
  flat_map (fun x => map (fun j => x * P + j) (h5_zrange P)) (h5_zrange n) = h5_zrange (n * P).
Proof.
  intros P n HP Hn. pattern n. apply natlike_ind; [| |exact Hn].
  - simpl. rewrite zrange_nonpos by lia. reflexivity.
  - intros x Hx IH. unfold Z.succ. rewrite zrange_succ by lia. rewrite flat_map_app, IH. simpl. rewrite app_nil_r.
    unfold h5_zrange at 3. replace (Z.to_nat ((x + 1) * P)) with (Z.to_nat (x * P) + Z.to_nat P)%nat by nia.
    rewrite seq_app, map_app. f_equal. simpl.
    unfold h5_zrange. rewrite map_map.
    rewrite (seq_map_add (Z.to_nat P) (Z.to_nat (x * P))), map_map.
    apply map_ext. intros a. nia.
Qed.

Lemma map_flat_map : forall {A B D} (g : B -> D) (f : A -> list B) l,
  map g (flat_map f l) = flat_map (fun x => map g (f x)) l.
Proof. induction l; simpl; [reflexivity|]. rewrite map_app, IHl. reflexivity. Qed.

Lemma flat_map_map : forall {A B D} (f : B -> list D) (g : A -> B) l,
  flat_map f (map g l) = flat_map (fun x => f (g x)) l.
Proof. induction l; simpl; [reflexivity|]. rewrite IHl. reflexivity. Qed.

(** The row-major enumeration of an extent visits the linear offsets 0, 1, 2, ... *)
Lemma linear_all_indices : forall dims, Forall (fun n => 0 <= n) dims ->
  map (h5_linear dims) (h5_all_indices dims) = h5_zrange (h5_product dims).
Proof.
  induction 1 as [|n dims Hn F IH]; [reflexivity|].
  unfold h5_all_indices in *. simpl.
  rewrite map_flat_map.
  rewrite <- flat_map_rows by (auto using product_nonneg).
  apply flat_map_ext. intros x. rewrite map_map. simpl.
  rewrite <- IH, map_map. reflexivity.
Qed.

Lemma NoDup_map_inj_in : forall {A B} (f : A -> B) l,
  (forall x y, In x l -> In y l -> f x = f y -> x = y) -> NoDup l -> NoDup (map f l).
Proof.
  induction l as [|a l IH]; intros Inj ND; simpl; [constructor|].
  inversion ND; subst. constructor.
  - intros I. apply in_map_iff in I. destruct I as [y [E Iy]].
    assert (y = a) by (apply Inj; simpl; auto). subst. contradiction.
  - apply IH; auto. intros; apply Inj; simpl; auto.
Qed.

Lemma all_indices_NoDup : forall dims, Forall (fun n => 0 <= n) dims -> NoDup (h5_all_indices dims).
Proof.
  intros dims F. apply (NoDup_map_inv (h5_linear dims)).
  rewrite linear_all_indices by assumption. apply zrange_NoDup.
Qed.

Lemma nth_all_indices : forall dims idx d, Forall (fun n => 0 <= n) dims -> in_range dims idx ->
  nth (Z.to_nat (h5_linear dims idx)) (h5_all_indices dims) d = idx.
Proof.
  intros dims idx d F R.
  pose proof (linear_bounds _ _ R) as B.
  set (p := Z.to_nat (h5_linear dims idx)).
  assert (L : (p < length (h5_all_indices dims))%nat) by (rewrite all_indices_length by assumption; unfold p; lia).
  assert (I : In (nth p (h5_all_indices dims) d) (h5_all_indices dims)) by (apply nth_In; exact L).
  apply all_indices_In in I.
  apply (linear_inj dims); auto.
  pose proof (linear_all_indices dims F) as E.
  assert (E2 : nth p (map (h5_linear dims) (h5_all_indices dims)) (h5_linear dims d) = nth p (h5_zrange (h5_product dims)) (h5_linear dims d))
    by (rewrite E; reflexivity).
  rewrite map_nth in E2. rewrite E2. rewrite zrange_nth by (unfold p; lia). unfold p. lia.
Qed.

(** ** Affine images of index boxes: start + k*step per axis *)

Fixpoint affine (tr : list (Z * Z * Z)) (k : list Z) : list Z :=
  match tr, k with
  | (a, _, s) :: tr', x :: k' => a + x * s :: affine tr' k'
  | _, _ => []
  end.

Definition tr_counts (tr : list (Z * Z * Z)) : list Z := map (fun t => snd (fst t)) tr.
Definition tr_axis (t : Z * Z * Z) : list Z := map (fun x => fst (fst t) + x * snd t) (h5_zrange (snd (fst t))).

Lemma cartesian_affine : forall tr,
  h5_cartesian (map tr_axis tr) = map (affine tr) (h5_all_indices (tr_counts tr)).
Proof.
  induction tr as [|[[a c] s] tr IH]; [reflexivity|].
  unfold h5_all_indices in *.
  change (map tr_axis ((a, c, s) :: tr)) with (tr_axis (a, c, s) :: map tr_axis tr).
  change (tr_counts ((a, c, s) :: tr)) with (c :: tr_counts tr).
  cbn [h5_cartesian map]. rewrite IH. unfold tr_axis. cbn [fst snd].
  rewrite flat_map_map, map_flat_map. apply flat_map_ext. intros x.
  rewrite !map_map. reflexivity.
Qed.

(** Validity of an affine box inside an extent: every axis stays below n. *)
Definition tr_valid (dims : list Z) (tr : list (Z * Z * Z)) : Prop :=
  Forall2 (fun n t => let '(a, c, s) := t in 0 <= a /\ 1 <= s /\ 0 <= c /\ (c = 0 \/ a + (c - 1) * s < n)) dims tr.

Lemma affine_in_range : forall dims tr k, tr_valid dims tr -> in_range (tr_counts tr) k -> in_range dims (affine tr k).
Proof.
  intros dims tr k V. revert k. induction V as [|n [[a c] s] dims tr H V IH]; intros k R; inversion R; subst; simpl.
  - constructor.
  - constructor; [|apply IH; assumption]. simpl in *. nia.
Qed.

Lemma affine_inj : forall dims tr k k', tr_valid dims tr -> in_range (tr_counts tr) k -> in_range (tr_counts tr) k' ->
  affine tr k = affine tr k' -> k = k'.
Proof.
  intros dims tr k k' V. revert k k'. induction V as [|n [[a c] s] dims tr H V IH]; intros k k' R R' E;
    inversion R; inversion R'; subst; simpl in *; [reflexivity|].
  inversion E. f_equal; [nia|]. apply IH; auto.
Qed.

Lemma tr_counts_nonneg : forall dims tr, tr_valid dims tr -> Forall (fun n => 0 <= n) (tr_counts tr).
Proof. induction 1 as [|n [[a c] s] dims tr H V IH]; simpl; constructor; auto. simpl. lia. Qed.

Lemma affine_positions_NoDup : forall dims tr, tr_valid dims tr ->
  NoDup (map (h5_linear dims) (map (affine tr) (h5_all_indices (tr_counts tr)))).
Proof.
  intros dims tr V. rewrite map_map. apply NoDup_map_inj_in.
  - intros x y Ix Iy E. apply all_indices_In in Ix. apply all_indices_In in Iy.
    apply (affine_inj dims tr); auto. apply (linear_inj dims); auto using affine_in_range.
  - apply all_indices_NoDup. eapply tr_counts_nonneg; eauto.
Qed.
