(** Concrete instances of the C17 model (T := Z) used as non-vacuity examples and as
    the witness of the refutation of "always answers". *)
From Coq Require Import Ascii String ZArith List Bool Lia.
From OW Require Import Json.Encode Json.EncodeProofs Json.Request Json.RequestProofs.
Import ListNotations.
Local Open Scope Z_scope.

(** numbers below -999 play the role of NaN, above 999 of +Inf *)
Definition toy_classify (z : Z) : fclass :=
  if z <? -999 then IsNaN else if 999 <? z then PosInf else Finite.

(** out[t] = scale * (a[t] + b[t]); one state, untouched *)
Definition toy_sum : model (T:=Z) :=
  mkModel (mkDesc [mkParam (jstr "scale") 2] [jstr "s"] [jstr "a"; jstr "b"] [jstr "out"])
          (fun _ => Some [0])
          (fun params st ins =>
             match params, ins with
             | [k], [a; b] => Some ([map (fun xy => k * (fst xy + snd xy)) (combine a b)], st)
             | _, _ => None
             end).

(** like models/routing Lag with timeLag = 0: one state NAME, an empty state vector *)
Definition toy_lag : model (T:=Z) :=
  mkModel (mkDesc [mkParam (jstr "timeLag") 0] [jstr "lagged"] [jstr "inflow"] [jstr "outflow"])
          (fun _ => Some [])
          (fun params st ins => match ins with [a] => Some ([a], st) | _ => None end).

Definition toy_catalog : catalog (T:=Z) :=
  fun n => if jstring_eqb n (jstr "Sum2") then Some toy_sum
           else if jstring_eqb n (jstr "Lag0") then Some toy_lag else None.

Definition toy_run := run_single 0 toy_classify toy_catalog.

(** missing parameter -> default + log entry; missing input -> zeros + log entry; results as
    in a direct run; split outputs keyed by name *)
Lemma toy_defaults_and_missing_input :
  toy_run true (mkRequest (jstr "Sum2") [(jstr "b", Some [1; 2; 3])] [] [])
  = Responded (mkResponse [LBlank; LParamDefault (jstr "scale") 2; LMissingInput (jstr "a")]
                          (Some (JObj [(jstr "out", JArr [JNum 2; JNum 4; JNum 6])]))
                          (Some (JObj [(jstr "s", JNum 0)]))).
Proof. vm_compute. reflexivity. Qed.

(** superset / order / duplicates of parameters and inputs; non-finite values as strings;
    unsplit results nested like the arrays' dimensions *)
Lemma toy_superset_nonfinite :
  toy_run false (mkRequest (jstr "Sum2")
                           [(jstr "zz", Some [9]); (jstr "b", Some [1; 2000]); (jstr "a", Some [1; 2]);
                            (jstr "b", Some [7; 7; 7])]
                           [(jstr "s", 5)]
                           [(jstr "other", 1); (jstr "scale", -1000); (jstr "scale", 3)])
  = Responded (mkResponse [LBlank]
                          (Some (JArr [JArr [JStr (jstr "NaN"); JStr (jstr "NaN")]]))
                          (Some (JArr [JNum 0]))).
Proof. vm_compute. reflexivity. Qed.

Lemma toy_plus_inf :
  toy_run false (mkRequest (jstr "Sum2") [(jstr "a", Some [600]); (jstr "b", Some [1])] [] [])
  = Responded (mkResponse [LBlank; LParamDefault (jstr "scale") 2]
                          (Some (JArr [JArr [JStr (jstr "+Inf")]])) (Some (JArr [JNum 0]))).
Proof. vm_compute. reflexivity. Qed.

Lemma toy_error_cases :
  toy_run true (mkRequest [] [] [] []) = Responded (error_response LErrNoName) /\
  toy_run true (mkRequest (jstr "Nope") [] [] []) = Responded (error_response (LErrUnknown (jstr "Nope"))) /\
  toy_run true (mkRequest (jstr "Sum2") [(jstr "zz", Some [1])] [] []) = Responded (error_response LErrNoInputs) /\
  toy_run true (mkRequest (jstr "Sum2") [(jstr "a", None)] [] []) = Responded (error_response LErrNoInputs) /\
  toy_run true (mkRequest (jstr "Sum2") [(jstr "b", Some [1; 2; 3]); (jstr "a", Some [1; 2])] [] [])
  = Responded (error_response (LErrInputLength (jstr "b") 3 2)) /\
  run_single_decoded 0 toy_classify toy_catalog true None = Responded (error_response LErrDecode).
Proof. vm_compute. repeat split; reflexivity. Qed.

(** "always answers" is refuted: a well-formed request naming a catalogued model whose direct
    one-cell run succeeds, and the runner (splitOutputs, as ow-single runs it) dies without a
    document, because the description names more states than the state vector has *)
Theorem always_answers_refuted :
  exists (cat : catalog (T:=Z)) (req : request) (m : model) outs fin,
    cat (q_name req) = Some m /\
    direct_run m (resolved_params (m_desc m) req) (resolved_inputs 0 (m_desc m) req 2) = Some (outs, fin) /\
    run_single 0 toy_classify cat true req = Crashed None.
Proof.
  exists toy_catalog, (mkRequest (jstr "Lag0") [(jstr "inflow", Some [4; 5])] [] []), toy_lag, [[4; 5]], [].
  vm_compute. repeat split; reflexivity.
Qed.

(** JsonSafeArray on a stepped, offset view: rows 1.. of a 3x4 array, every second column *)
Definition toy_view : view Z := mkView [0; 1; 2; 3; 10; 11; 12; 13; 20; 21; -5000; 23] [2; 2] 4 [4; 2].

Lemma toy_view_nested :
  json_safe_array toy_classify toy_view 0
  = Some (JArr [JArr [JNum 10; JNum 12]; JArr [JNum 20; JStr (jstr "NaN")]]) /\
  json_safe_array toy_classify toy_view 1 = Some (JArr [JNum 10; JNum 12]) /\
  json_safe_array toy_classify toy_view 2 = None /\
  json_safe_array toy_classify (mkView [1; 2] [3] 0 [1]) 0 = None.
Proof. vm_compute. repeat split; reflexivity. Qed.
