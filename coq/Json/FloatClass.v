(** The binary64 instance of [classify] used when the extracted model is run against
    the Go code: math.IsNaN / math.IsInf(v, 0) and the sign printed by fmt.Sprint. *)
From Coq Require Import Floats.
From OW Require Import Json.Encode.

Definition classify_float (x : float) : fclass :=
  match PrimFloat.classify x with
  | FloatClass.NaN => IsNaN
  | FloatClass.PInf => PosInf
  | FloatClass.NInf => NegInf
  | _ => Finite
  end.
