(** Proofs about Json/Request.v:
      [initialise_spec]            what Initialise computes, in terms of the request only
      [run_single_equals_direct]   outputs / states = encoding of the direct one-cell run,
                                   log = blank + one entry per missing parameter and input
      [run_single_total]           complete classification of the outcome of every request
      [run_single_kernel_panic], [run_single_split_states_short]  the crash cases *)
From Coq Require Import Ascii String ZArith List Bool Lia.
From OW Require Import Json.Encode Json.EncodeProofs Json.Request.
Import ListNotations.
Local Open Scope Z_scope.

(* ------------------------------------------------------------------ names *)
Lemma jstring_eqb_eq (a b : jstring) : jstring_eqb a b = true <-> a = b.
Proof.
  revert b; induction a as [|x a IH]; intros [|y b]; cbn; split; intros H;
    try reflexivity; try discriminate.
  - apply andb_true_iff in H. destruct H as [H1 H2]. apply Ascii.eqb_eq in H1.
    apply IH in H2. congruence.
  - inversion H; subst. rewrite Ascii.eqb_refl. cbn. now apply IH.
Qed.

Lemma jstring_eqb_refl (a : jstring) : jstring_eqb a a = true.
Proof. now apply jstring_eqb_eq. Qed.

Lemma jstring_eqb_neq (a b : jstring) : a <> b -> jstring_eqb a b = false.
Proof.
  intros H. destruct (jstring_eqb a b) eqn:E; [|reflexivity]. apply jstring_eqb_eq in E. contradiction.
Qed.

(* ------------------------------------------------------------------ list helpers *)
Lemma skipn_repeat {A} (x : A) a b : skipn a (repeat x (a + b)) = repeat x b.
Proof. induction a as [|a IH]; cbn; [reflexivity|exact IH]. Qed.

Lemma firstn_app_exact {A} (l1 l2 : list A) n : length l1 = n -> firstn n (l1 ++ l2) = l1.
Proof.
  intros <-. rewrite firstn_app, Nat.sub_diag, firstn_all. cbn. apply app_nil_r.
Qed.

Lemma skipn_app_exact {A} (l1 l2 : list A) n : length l1 = n -> skipn n (l1 ++ l2) = l2.
Proof.
  intros <-. rewrite skipn_app, Nat.sub_diag, skipn_all. reflexivity.
Qed.

Lemma concat_uniform_length {A} (rows : list (list A)) len :
  Forall (fun r => length r = len) rows -> length (concat rows) = (length rows * len)%nat.
Proof.
  induction 1 as [|r rows Hr _ IH]; cbn; [reflexivity|]. rewrite app_length, IH, Hr. reflexivity.
Qed.

Lemma nth_error_firstn_lt {A} (l : list A) n k : (k < n)%nat -> nth_error (firstn n l) k = nth_error l k.
Proof.
  revert l k; induction n as [|n IH]; intros l k H; [lia|].
  destruct l as [|a l]; [now destruct k|]. destruct k as [|k]; [reflexivity|]. cbn. apply IH. lia.
Qed.

Lemma combine_firstn {A B} (l : list A) (l' : list B) :
  combine l (firstn (length l) l') = combine l l'.
Proof.
  revert l'; induction l as [|a l IH]; intros [|b l']; cbn; try reflexivity. now rewrite IH.
Qed.

Ltac veq := solve [ reflexivity | lia | nia | (f_equal; veq) ].

Section Proofs.
  Context {T : Type}.
  Variable zero : T.
  Variable classify : T -> fclass.
  Notation jsv := (json_safe_value classify).
  Notation enc_series := (enc_series classify).

  (* ---------------------------------------------------------------- chunks of uniform rows *)
  Lemma map_chunks (rows : list (list T)) len :
    Forall (fun r => length r = len) rows ->
    map (fun k => chunk (concat rows) (k * len) len) (seq 0 (length rows)) = rows.
  Proof.
    induction 1 as [|r rows Hr Hrows IH]; [reflexivity|].
    cbn [length seq map concat]. f_equal.
    - unfold chunk. cbn. now apply firstn_app_exact.
    - rewrite <- seq_shift, map_map. rewrite <- IH at 2. apply map_ext. intros k.
      unfold chunk. f_equal. replace (S k * len)%nat with (len + k * len)%nat by lia.
      rewrite skipn_add. f_equal. now apply skipn_app_exact.
  Qed.

  Lemma chunk_row (rows : list (list T)) len k r :
    Forall (fun r => length r = len) rows -> nth_error rows k = Some r ->
    chunk (concat rows) (k * len) len = r.
  Proof.
    intros H Hk. pose proof (map_chunks rows len H) as M.
    assert (Hlt : (k < length rows)%nat) by (apply nth_error_Some; congruence).
    rewrite <- M in Hk. rewrite nth_error_map, nth_error_seq in Hk by exact Hlt.
    cbn in Hk. now inversion Hk.
  Qed.

  (* ---------------------------------------------------------------- fresh arrays *)
  Lemma fresh_view_of_nat (data : list T) (nd : list nat) :
    fresh_view data (map Z.of_nat nd) =
    mkView data (map Z.of_nat nd) (Z.of_nat 0) (offsets (map Z.of_nat nd)).
  Proof. reflexivity. Qed.

  (** MustReshape of a fresh (contiguous, whole) array only changes the dims *)
  Lemma vreshape_fresh (data : list T) (nd nd' : list nat) :
    length data = prodn nd -> prodn nd' = prodn nd ->
    vreshape (fresh_view data (map Z.of_nat nd)) (map Z.of_nat nd')
    = Some (fresh_view data (map Z.of_nat nd')).
  Proof.
    intros Hl Hp. unfold vreshape. unfold fresh_view at 1 2. cbn [vdims].
    rewrite !product_of_nat, Hp, Z.eqb_refl.
    change (mkView data (map Z.of_nat nd) 0 (offsets (map Z.of_nat nd)))
      with (mkView data (map Z.of_nat nd) (Z.of_nat 0) (offsets (map Z.of_nat nd))).
    rewrite vunroll_block by (cbn; lia). rewrite <- Hl, chunk_all. reflexivity.
  Qed.

  (** row k of a fresh 2-D array, sliced and reshaped to 1-D as the code does *)
  Lemma row_slice_reshape (data : list T) (n len k : nat) :
    length data = (n * len)%nat -> (k < n)%nat ->
    match vslice (fresh_view data [Z.of_nat n; Z.of_nat len])
                 [Z.of_nat k; 0] [1; Z.of_nat len] [1; 1] with
    | None => None
    | Some row => vreshape row [Z.of_nat len]
    end = Some (fresh_view (chunk data (k * len) len) [Z.of_nat len]).
  Proof.
    intros Hl Hk. unfold vslice. cbn [fresh_view vstrides offsets product fold_right dot_index mul_vec
                                      option_map vdata vstart].
    unfold vreshape. cbn [vdims].
    replace (product [Z.of_nat len] =? product [1; Z.of_nat len]) with true
      by (symmetry; apply Z.eqb_eq; unfold product; cbn [fold_right]; lia).
    replace (mkView data [1; Z.of_nat len]
                    (0 + (Z.of_nat k * (Z.of_nat len * 1) + (0 * 1 + 0)))
                    [Z.of_nat len * 1 * 1; 1 * 1])
      with (mkView data (map Z.of_nat [1%nat; len]) (Z.of_nat (k * len))
                   (offsets (map Z.of_nat [1%nat; len]))).
    2:{ cbn [map offsets product fold_right]. veq. }
    rewrite vunroll_block by (cbn [prodn]; nia).
    cbn [prodn]. replace (1 * (len * 1))%nat with len by lia. reflexivity.
  Qed.

  (* ---------------------------------------------------------------- JsonSafeArray of fresh arrays *)
  Lemma mapM_get_chunk (data : list T) : forall n s,
    (s + n <= length data)%nat ->
    mapM (fun j => option_map jsv (znth data (Z.of_nat s + Z.of_nat j))) (seq 0 n)
    = Some (map jsv (chunk data s n)).
  Proof.
    induction n as [|n IH]; intros s H; [reflexivity|].
    cbn [seq mapM]. unfold znth at 1.
    destruct (Z.of_nat s + Z.of_nat 0 <? 0) eqn:E; [apply Z.ltb_lt in E; lia|].
    replace (Z.to_nat (Z.of_nat s + Z.of_nat 0)) with s by lia.
    destruct (nth_error data s) as [x|] eqn:N; [|apply nth_error_None in N; lia].
    cbn [option_map]. rewrite <- seq_shift.
    change (mapM (fun j : nat => option_map jsv (znth data (Z.of_nat s + Z.of_nat j))) (map S (seq 0 n)))
      with (mapM (fun j : nat => option_map jsv (znth data (Z.of_nat s + Z.of_nat j))) (map S (seq 0 n))).
    rewrite mapM_map.
    rewrite (mapM_ext _ (fun j => option_map jsv (znth data (Z.of_nat (S s) + Z.of_nat j)))).
    2:{ intros j _. do 2 f_equal. lia. }
    rewrite IH by lia. replace (S n) with (1 + n)%nat by lia. rewrite chunk_add.
    rewrite (chunk_one _ _ _ N). replace (s + 1)%nat with (S s) by lia. reflexivity.
  Qed.

  Lemma jsa_fresh_2d (rows : list (list T)) len :
    Forall (fun r => length r = len) rows ->
    json_safe_array classify (fresh_view (concat rows) [Z.of_nat (length rows); Z.of_nat len]) 0
    = Some (JArr (map enc_series rows)).
  Proof.
    intros H. change 0 with (Z.of_nat 0). rewrite json_safe_array_nested; cbn [fresh_view vdims vstrides offsets length]; try lia.
    cbn [skipn nested repeat app].
    destruct (Z.of_nat (length rows) <? 0) eqn:E1; [apply Z.ltb_lt in E1; lia|].
    destruct (Z.of_nat len <? 0) eqn:E2; [apply Z.ltb_lt in E2; lia|].
    unfold zrange. rewrite !Nat2Z.id, mapM_map.
    rewrite (mapM_ext _ (fun k => Some (JArr (map jsv (chunk (concat rows) (k * len) len))))).
    - rewrite mapM_some. cbn [option_map]. do 2 f_equal.
      rewrite <- (map_chunks rows len H) at 2. rewrite map_map. reflexivity.
    - intros k Hk. apply in_seq in Hk. rewrite mapM_map.
      rewrite (mapM_ext _ (fun j => option_map jsv (znth (concat rows) (Z.of_nat (k * len) + Z.of_nat j)))).
      + rewrite mapM_get_chunk; [reflexivity|].
        rewrite (concat_uniform_length _ _ H). nia.
      + intros j _. unfold vget, vindex, fresh_view.
        cbn [vstart vstrides vdata offsets dot_index option_map product fold_right].
        do 2 f_equal. nia.
  Qed.

  Lemma len3_fresh (d : list T) a b c : znth (vdims (fresh_view d [a; b; c])) 2 = Some c.
  Proof. reflexivity. Qed.

  (* ---------------------------------------------------------------- Find / parameters *)
  Lemma resolve_params_spec (ps : list (param_desc (T:=T))) vals :
    resolve_params ps vals =
    (map (fun p => fst (find_value vals (p_name p) (p_default p))) ps,
     flat_map (fun p => if snd (find_value vals (p_name p) (p_default p)) then []
                        else [LParamDefault (p_name p) (p_default p)]) ps).
  Proof.
    induction ps as [|p ps IH]; cbn; [reflexivity|].
    destruct (find_value vals (p_name p) (p_default p)) as [v found]. rewrite IH. cbn.
    destruct found; reflexivity.
  Qed.

  (* ---------------------------------------------------------------- input assembly *)
  Section Assemble.
    Variable given : list (jstring * option (list T)).
    Variable nin len : nat.
    Notation resolve := (resolve_input zero given len).
    Notation dims := [1; Z.of_nat nin; Z.of_nat len].

    Lemma found_in_cons p rest :
      found_in given (p :: rest) =
      match find_input given p with Some v => [(p, v)] | None => [] end ++ found_in given rest.
    Proof. reflexivity. Qed.

    Lemma input_log_cons p rest :
      input_log_of given (p :: rest) =
      match find_input given p with Some _ => [] | None => [LMissingInput p] end
        ++ input_log_of given rest.
    Proof. reflexivity. Qed.

    Lemma assemble_alloc : forall suf pre w,
      (length pre + length suf = nin)%nat ->
      Forall (fun n => length (resolve n) = len) pre ->
      assemble zero given (Z.of_nat nin) suf (Z.of_nat (length pre))
               (Some (fresh_view (concat (map resolve pre) ++ repeat zero ((nin - length pre) * len)) dims)) w
      = match first_bad len (found_in given suf) with
        | Some (n, got) => AErr (LErrInputLength n got (Z.of_nat len))
        | None => ADone (Some (fresh_view (concat (map resolve (pre ++ suf))) dims))
                        (w ++ input_log_of given suf)
        end.
    Proof.
      induction suf as [|p rest IH]; intros pre w Hn Hpre.
      - cbn in Hn. cbn [assemble found_in flat_map first_bad input_log_of].
        replace (nin - length pre)%nat with 0%nat by lia. cbn [Nat.mul repeat].
        now rewrite !app_nil_r.
      - cbn [length] in Hn. cbn [assemble]. rewrite found_in_cons, input_log_cons.
        assert (Hnext : Z.of_nat (length pre) + 1 = Z.of_nat (length (pre ++ [p])))
          by (rewrite app_length; cbn; lia).
        assert (Hlen_pre : length (concat (map resolve pre)) = (length pre * len)%nat).
        { rewrite (concat_uniform_length _ len); [now rewrite map_length|].
          apply Forall_map. exact Hpre. }
        destruct (find_input given p) as [this|] eqn:F.
        + (* supplied *)
          cbn [app first_bad]. rewrite len3_fresh. cbn iota beta.
          destruct (Nat.eqb (length this) len) eqn:EL.
          * apply Nat.eqb_eq in EL.
            replace (Z.of_nat (length this) =? Z.of_nat len) with true
              by (symmetry; apply Z.eqb_eq; lia).
            cbn [negb]. unfold vapply_row, vindex.
            cbn [fresh_view vstart vstrides vdata vdims offsets product fold_right dot_index option_map].
            set (k := 0 + (0 * (Z.of_nat nin * (Z.of_nat len * 1))
                           + (Z.of_nat (length pre) * (Z.of_nat len * 1) + (0 * 1 + 0)))).
            assert (Hk : k = Z.of_nat (length pre * len)) by (unfold k; nia).
            assert (Hbuf : length (concat (map resolve pre) ++ repeat zero ((nin - length pre) * len))
                           = (nin * len)%nat).
            { rewrite app_length, repeat_length, Hlen_pre. nia. }
            rewrite Hbuf.
            replace ((k <? 0) || (Z.of_nat (nin * len) <? k + Z.of_nat (length this))) with false.
            2:{ symmetry. apply orb_false_iff. split; [apply Z.ltb_ge; lia|]. apply Z.ltb_ge. nia. }
            rewrite Hk, Nat2Z.id, Hnext.
            rewrite firstn_app_exact by exact Hlen_pre.
            replace (length pre * len + length this)%nat with (length pre * len + len)%nat by lia.
            rewrite skipn_add, (skipn_app_exact _ _ _ Hlen_pre).
            replace ((nin - length pre) * len)%nat with (len + (nin - length (pre ++ [p])) * len)%nat
              by (rewrite app_length; cbn [length]; nia).
            rewrite skipn_repeat.
            assert (Hres : resolve p = this) by (unfold resolve_input; now rewrite F).
            replace (concat (map resolve pre) ++ this ++ repeat zero ((nin - length (pre ++ [p])) * len))
              with (concat (map resolve (pre ++ [p])) ++ repeat zero ((nin - length (pre ++ [p])) * len)).
            2:{ rewrite map_app, concat_app. cbn [map concat]. rewrite Hres, app_nil_r, <- app_assoc. reflexivity. }
            change (mkView ?d dims 0 (offsets dims)) with (fresh_view d dims).
            change (mkView (concat (map resolve (pre ++ [p])) ++ repeat zero ((nin - length (pre ++ [p])) * len))
                           dims 0 [Z.of_nat nin * (Z.of_nat len * 1); Z.of_nat len * 1; 1])
              with (fresh_view (concat (map resolve (pre ++ [p])) ++ repeat zero ((nin - length (pre ++ [p])) * len)) dims).
            rewrite IH.
            -- rewrite <- app_assoc. cbn [app]. reflexivity.
            -- rewrite app_length. cbn [length]. lia.
            -- apply Forall_app. split; [exact Hpre|]. constructor; [|constructor]. now rewrite Hres.
          * apply Nat.eqb_neq in EL.
            replace (Z.of_nat (length this) =? Z.of_nat len) with false
              by (symmetry; apply Z.eqb_neq; lia).
            reflexivity.
        + (* missing *)
          cbn [app]. rewrite Hnext.
          assert (Hres : resolve p = repeat zero len) by (unfold resolve_input; now rewrite F).
          replace (concat (map resolve pre) ++ repeat zero ((nin - length pre) * len))
            with (concat (map resolve (pre ++ [p])) ++ repeat zero ((nin - length (pre ++ [p])) * len)).
          2:{ rewrite map_app, concat_app. cbn [map concat]. rewrite Hres, app_nil_r, <- app_assoc.
              f_equal. rewrite <- repeat_app. f_equal. rewrite app_length. cbn [length]. nia. }
          rewrite IH.
          * rewrite <- !app_assoc. cbn [app]. reflexivity.
          * rewrite app_length. cbn [length]. lia.
          * apply Forall_app. split; [exact Hpre|]. constructor; [|constructor].
            rewrite Hres. apply repeat_length.
    Qed.
  End Assemble.

  Lemma concat_zero_rows (pre : list jstring) len :
    concat (map (fun _ : jstring => repeat zero len) pre) = repeat zero (length pre * len).
  Proof.
    induction pre as [|p pre IH]; cbn; [reflexivity|]. rewrite IH. now rewrite <- repeat_app.
  Qed.

  Lemma assemble_none (given : list (jstring * option (list T))) (nin : nat) : forall suf pre w,
    (length pre + length suf = nin)%nat ->
    Forall (fun n => find_input given n = None) pre ->
    assemble zero given (Z.of_nat nin) suf (Z.of_nat (length pre)) None w
    = match found_in given suf with
      | [] => ADone None (w ++ input_log_of given suf)
      | (_, v0) :: rest =>
        match first_bad (length v0) rest with
        | Some (n, got) => AErr (LErrInputLength n got (Z.of_nat (length v0)))
        | None => ADone (Some (fresh_view (concat (map (resolve_input zero given (length v0)) (pre ++ suf)))
                                          [1; Z.of_nat nin; Z.of_nat (length v0)]))
                        (w ++ input_log_of given suf)
        end
      end.
  Proof.
    induction suf as [|p rest IH]; intros pre w Hn Hpre.
    - cbn. now rewrite app_nil_r.
    - cbn [length] in Hn. rewrite found_in_cons, input_log_cons.
      destruct (find_input given p) as [this|] eqn:F.
      + cbn [app].
        (* the first supplied input allocates the array; from here on it is the allocated phase *)
        transitivity (assemble zero given (Z.of_nat nin) (p :: rest) (Z.of_nat (length pre))
                        (Some (fresh_view (repeat zero (Z.to_nat (1 * Z.of_nat nin * Z.of_nat (length this))))
                                          [1; Z.of_nat nin; Z.of_nat (length this)])) w).
        { cbn [assemble]. rewrite F. reflexivity. }
        replace (repeat zero (Z.to_nat (1 * Z.of_nat nin * Z.of_nat (length this))))
          with (concat (map (resolve_input zero given (length this)) pre)
                  ++ repeat zero ((nin - length pre) * length this)).
        2:{ rewrite (map_ext_in _ (fun _ => repeat zero (length this))).
            - rewrite concat_zero_rows, <- repeat_app. f_equal. nia.
            - intros n Hin. unfold resolve_input. rewrite Forall_forall in Hpre. now rewrite (Hpre n Hin). }
        rewrite assemble_alloc.
        * rewrite found_in_cons, F. cbn [app first_bad]. rewrite Nat.eqb_refl.
          rewrite input_log_cons, F. reflexivity.
        * cbn [length]. lia.
        * apply Forall_forall. intros n Hin. unfold resolve_input.
          rewrite Forall_forall in Hpre. rewrite (Hpre n Hin). apply repeat_length.
      + cbn [app assemble]. rewrite F.
        assert (Hnext : Z.of_nat (length pre) + 1 = Z.of_nat (length (pre ++ [p])))
          by (rewrite app_length; cbn; lia).
        rewrite Hnext, IH.
        * destruct (found_in given rest) as [|[n0 v0] r0].
          -- now rewrite <- app_assoc.
          -- destruct (first_bad (length v0) r0) as [[n got]|]; [reflexivity|].
             now rewrite <- !app_assoc.
        * rewrite app_length. cbn [length]. lia.
        * apply Forall_app. split; [exact Hpre|]. constructor; [exact F|constructor].
    Qed.

  (** every supplied series has the common length, so every resolved series has it *)
  Lemma first_bad_none_uniform (given : list (jstring * option (list T))) len names :
    first_bad len (found_in given names) = None ->
    Forall (fun n => length (resolve_input zero given len n) = len) names.
  Proof.
    induction names as [|p rest IH]; intros H; [constructor|].
    rewrite found_in_cons in H. unfold resolve_input at 1.
    destruct (find_input given p) as [v|] eqn:F; cbn [app first_bad] in H.
    - destruct (Nat.eqb (length v) len) eqn:E; [|discriminate]. apply Nat.eqb_eq in E.
      constructor; [unfold resolve_input; now rewrite F|]. now apply IH.
    - constructor; [unfold resolve_input; rewrite F; apply repeat_length|]. now apply IH.
  Qed.

  (* ---------------------------------------------------------------- Initialise *)
  Theorem initialise_spec (cat : catalog (T:=T)) (req : request) :
    initialise zero cat req =
    if jstring_eqb (q_name req) [] then IErr LErrNoName
    else match cat (q_name req) with
         | None => IErr (LErrUnknown (q_name req))
         | Some m =>
           let desc := m_desc m in
           match m_init m (resolved_params desc req) with
           | None => ICrash
           | Some st =>
             match found_inputs desc req with
             | [] => IErr LErrNoInputs
             | (_, v0) :: rest =>
               match first_bad (length v0) rest with
               | Some (n, got) => IErr (LErrInputLength n got (Z.of_nat (length v0)))
               | None =>
                 IOk m (resolved_params desc req)
                     (fresh_view (concat (resolved_inputs zero desc req (length v0)))
                                 [1; Z.of_nat (length (d_inputs desc)); Z.of_nat (length v0)])
                     st (LBlank :: param_log desc req ++ input_log desc req)
               end
             end
           end
         end.
  Proof.
    unfold initialise. destruct (jstring_eqb (q_name req) []); [reflexivity|].
    destruct (cat (q_name req)) as [m|]; [|reflexivity]. cbn zeta.
    rewrite resolve_params_spec. fold (resolved_params (m_desc m) req). fold (param_log (m_desc m) req).
    replace (if Nat.eqb (length (q_states req)) (length (d_states (m_desc m)))
             then m_init m (resolved_params (m_desc m) req) else m_init m (resolved_params (m_desc m) req))
      with (m_init m (resolved_params (m_desc m) req)) by (now destruct (Nat.eqb _ _)).
    destruct (m_init m (resolved_params (m_desc m) req)) as [st|]; [|reflexivity].
    change 0 with (Z.of_nat (length (@nil jstring))).
    rewrite (assemble_none (q_inputs req) (length (d_inputs (m_desc m))) (d_inputs (m_desc m)) [])
      by (cbn; try lia; constructor).
    unfold found_inputs, input_log, resolved_inputs.
    destruct (found_in (q_inputs req) (d_inputs (m_desc m))) as [|[n0 v0] rest]; [reflexivity|].
    destruct (first_bad (length v0) rest) as [[n got]|]; [reflexivity|].
    cbn [app]. reflexivity.
  Qed.

  (* ---------------------------------------------------------------- the Run wrapper's rows *)
  Lemma whole_slice3 (data : list T) a b :
    vslice (fresh_view data [1; a; b]) [0; 0; 0] [1; a; b] [1; 1; 1] = Some (fresh_view data [1; a; b]).
  Proof.
    unfold vslice, fresh_view.
    cbn [vstrides offsets product fold_right dot_index mul_vec option_map vdata vstart]. veq.
  Qed.

  Lemma input_rows_fresh (rows : list (list T)) len :
    Forall (fun r => length r = len) rows ->
    input_rows (fresh_view (concat rows) [1; Z.of_nat (length rows); Z.of_nat len]) = Some rows.
  Proof.
    intros H. pose proof (concat_uniform_length _ _ H) as HL.
    unfold input_rows. cbn [vdims fresh_view].
    change (mkView (concat rows) [1; Z.of_nat (length rows); Z.of_nat len] 0
                   (offsets [1; Z.of_nat (length rows); Z.of_nat len]))
      with (fresh_view (concat rows) [1; Z.of_nat (length rows); Z.of_nat len]).
    rewrite whole_slice3.
    change [1; Z.of_nat (length rows); Z.of_nat len] with (map Z.of_nat [1%nat; length rows; len]).
    change [Z.of_nat (length rows); Z.of_nat len] with (map Z.of_nat [length rows; len]).
    rewrite vreshape_fresh by (cbn [prodn]; lia).
    cbn [map]. unfold zrange. rewrite Nat2Z.id, mapM_map.
    rewrite (mapM_ext _ (fun k => Some (chunk (concat rows) (k * len) len))).
    - rewrite mapM_some. f_equal. now apply map_chunks.
    - intros k Hk. apply in_seq in Hk.
      pose proof (row_slice_reshape (concat rows) (length rows) len k HL ltac:(lia)) as R.
      destruct (vslice (fresh_view (concat rows) [Z.of_nat (length rows); Z.of_nat len])
                       [Z.of_nat k; 0] [1; Z.of_nat len] [1; 1]) as [row|]; [|discriminate].
      rewrite R. reflexivity.
  Qed.

  (* ---------------------------------------------------------------- encodeResults *)
  Lemma obj_set_fresh (k : jstring) (v : jvalue T) acc :
    ~ In k (map fst acc) -> obj_set k v acc = acc ++ [(k, v)].
  Proof.
    intros H. unfold obj_set.
    replace (existsb (fun kv => jstring_eqb (fst kv) k) acc) with false; [reflexivity|].
    symmetry. apply not_true_is_false. intros E. apply existsb_exists in E.
    destruct E as [[k' v'] [Hin Heq]]. apply jstring_eqb_eq in Heq. cbn in Heq. subst k'.
    apply H. apply in_map_iff. exists (k, v'). split; [reflexivity|exact Hin].
  Qed.

  Lemma build_obj_spec (f : Z -> option (jvalue T)) : forall names vals i acc,
    NoDup names -> (forall n, In n names -> ~ In n (map fst acc)) ->
    length vals = length names ->
    (forall k v, nth_error vals k = Some v -> f (i + Z.of_nat k) = Some v) ->
    build_obj f names i acc = Some (acc ++ combine names vals).
  Proof.
    induction names as [|n rest IH]; intros vals i acc Hnd Hfresh Hlen Hf.
    - cbn. now rewrite app_nil_r.
    - destruct vals as [|v vs]; [discriminate|]. cbn [build_obj].
      pose proof (Hf 0%nat v eq_refl) as H0. rewrite Z.add_0_r in H0. rewrite H0.
      rewrite obj_set_fresh by (apply Hfresh; now left).
      inversion Hnd as [|? ? Hnotin Hnd']; subst.
      rewrite (IH vs).
      + rewrite <- app_assoc. reflexivity.
      + exact Hnd'.
      + intros n' Hin. rewrite map_app, in_app_iff. cbn. intros [H|[H|[]]].
        * apply (Hfresh n'); [now right|exact H].
        * subst. contradiction.
      + cbn in Hlen. lia.
      + intros k v' Hk. replace (i + 1 + Z.of_nat k) with (i + Z.of_nat (S k)) by lia. now apply Hf.
  Qed.

  Lemma build_obj_none (f : Z -> option (jvalue T)) : forall names i acc k,
    (k < length names)%nat -> f (i + Z.of_nat k) = None -> build_obj f names i acc = None.
  Proof.
    induction names as [|n rest IH]; intros i acc k Hk Hf; [cbn in Hk; lia|].
    cbn [build_obj]. destruct (f i) as [j|] eqn:Fi; [|reflexivity].
    destruct k as [|k]; [rewrite Z.add_0_r in Hf; congruence|].
    apply (IH _ _ k); [cbn in Hk; lia|]. rewrite <- Hf. f_equal. lia.
  Qed.

  Lemma encode_outputs_ok split (desc : description (T:=T)) (outs : list (list T)) len :
    length outs = length (d_outputs desc) ->
    Forall (fun r => length r = len) outs ->
    (split = true -> NoDup (d_outputs desc)) ->
    encode_outputs classify split desc
                   (fresh_view (concat outs) [1; Z.of_nat (length (d_outputs desc)); Z.of_nat len])
    = Some (enc_outputs classify split desc outs).
  Proof.
    intros Hn Hu Hnd. pose proof (concat_uniform_length _ _ Hu) as HL. rewrite <- Hn.
    unfold encode_outputs. cbn [vdims fresh_view].
    change (mkView (concat outs) [1; Z.of_nat (length outs); Z.of_nat len] 0
                   (offsets [1; Z.of_nat (length outs); Z.of_nat len]))
      with (fresh_view (concat outs) (map Z.of_nat [1%nat; length outs; len])).
    change [Z.of_nat (length outs); Z.of_nat len] with (map Z.of_nat [length outs; len]).
    change (1 :: map Z.of_nat [length outs; len]) with (map Z.of_nat [1%nat; length outs; len]).
    rewrite vreshape_fresh by (cbn [prodn]; lia). cbn [map].
    destruct split.
    - change (znth (vdims (fresh_view (concat outs) [Z.of_nat (length outs); Z.of_nat len])) 1)
        with (Some (Z.of_nat len)). cbn iota.
      rewrite (build_obj_spec _ (d_outputs desc) (map enc_series outs) 0 []).
      + reflexivity.
      + now apply Hnd.
      + intros n _ [].
      + rewrite map_length. exact Hn.
      + intros k v Hk. rewrite nth_error_map in Hk.
        destruct (nth_error outs k) as [r|] eqn:Ek; [|discriminate]. inversion Hk; subst v.
        assert (Hlt : (k < length outs)%nat) by (apply nth_error_Some; congruence).
        rewrite Z.add_0_l.
        pose proof (row_slice_reshape (concat outs) (length outs) len k HL Hlt) as R.
        destruct (vslice (fresh_view (concat outs) [Z.of_nat (length outs); Z.of_nat len])
                         [Z.of_nat k; 0] [1; Z.of_nat len] [1; 1]) as [row|]; [|discriminate].
        rewrite R. rewrite (chunk_row outs len k r Hu Ek).
        rewrite Forall_forall in Hu. rewrite <- (Hu r (nth_error_In _ _ Ek)).
        apply jsa_fresh_1d.
    - unfold enc_outputs. now apply jsa_fresh_2d.
  Qed.

  Lemma states_reshape (fin : list T) :
    vreshape (fresh_view fin [1; Z.of_nat (length fin)]) [Z.of_nat (length fin)]
    = Some (fresh_view fin [Z.of_nat (length fin)]).
  Proof.
    change [1; Z.of_nat (length fin)] with (map Z.of_nat [1%nat; length fin]).
    change [Z.of_nat (length fin)] with (map Z.of_nat [length fin]).
    apply vreshape_fresh; cbn [prodn]; lia.
  Qed.

  Lemma state_get (fin : list T) k :
    vget (fresh_view fin [Z.of_nat (length fin)]) [Z.of_nat k] = nth_error fin k.
  Proof.
    unfold vget, vindex. cbn. unfold znth.
    destruct (Z.of_nat k * 1 + 0 <? 0) eqn:E; [apply Z.ltb_lt in E; lia|].
    f_equal. lia.
  Qed.

  Lemma encode_states_ok split (desc : description (T:=T)) (fin : list T) :
    (split = true -> NoDup (d_states desc) /\ (length (d_states desc) <= length fin)%nat) ->
    encode_states classify split desc (fresh_view fin [1; Z.of_nat (length fin)])
    = Some (enc_states classify split desc fin).
  Proof.
    intros Hs. unfold encode_states. cbn [vdims fresh_view].
    change (mkView fin [1; Z.of_nat (length fin)] 0 (offsets [1; Z.of_nat (length fin)]))
      with (fresh_view fin [1; Z.of_nat (length fin)]).
    rewrite states_reshape. destruct split.
    - destruct (Hs eq_refl) as [Hnd Hle]. unfold enc_states.
      rewrite (build_obj_spec _ (d_states desc) (firstn (length (d_states desc)) (map jsv fin)) 0 []).
      + cbn [app option_map]. now rewrite combine_firstn.
      + exact Hnd.
      + intros n _ [].
      + rewrite firstn_length, map_length. lia.
      + intros k v Hk. rewrite Z.add_0_l, state_get.
        assert (Hlt : (k < length (d_states desc))%nat).
        { assert (nth_error (firstn (length (d_states desc)) (map jsv fin)) k <> None) as Hn by congruence.
          apply nth_error_Some in Hn. rewrite firstn_length in Hn. lia. }
        rewrite nth_error_firstn_lt in Hk by exact Hlt.
        rewrite nth_error_map in Hk. destruct (nth_error fin k); cbn in *; congruence.
    - unfold enc_states. apply jsa_fresh_1d.
  Qed.

  Lemma encode_states_short (desc : description (T:=T)) (fin : list T) :
    (length fin < length (d_states desc))%nat ->
    encode_states classify true desc (fresh_view fin [1; Z.of_nat (length fin)]) = None.
  Proof.
    intros Hlt. unfold encode_states. cbn [vdims fresh_view].
    change (mkView fin [1; Z.of_nat (length fin)] 0 (offsets [1; Z.of_nat (length fin)]))
      with (fresh_view fin [1; Z.of_nat (length fin)]).
    rewrite states_reshape.
    rewrite (build_obj_none _ _ 0 [] (length fin) Hlt); [reflexivity|].
    rewrite Z.add_0_l, state_get.
    replace (nth_error fin (length fin)) with (@None T); [reflexivity|].
    symmetry. apply nth_error_None. lia.
  Qed.

  (* ================================================================ the theorems *)
  Lemma run_single_runnable cat split req m st len :
    runnable cat req m st len ->
    run_single zero classify cat split req =
    match m_kernel m (resolved_params (m_desc m) req) st (resolved_inputs zero (m_desc m) req len) with
    | None => Crashed None
    | Some (outs, fin) =>
      match encode_outputs classify split (m_desc m)
                           (fresh_view (concat outs) [1; Z.of_nat (length (d_outputs (m_desc m))); Z.of_nat len]) with
      | None => Crashed None
      | Some o =>
        match encode_states classify split (m_desc m) (fresh_view fin [1; Z.of_nat (length fin)]) with
        | None => Crashed None
        | Some s => Responded (mkResponse (LBlank :: param_log (m_desc m) req ++ input_log (m_desc m) req)
                                          (Some o) (Some s))
        end
      end
    end.
  Proof.
    intros (Hname & Hcat & Hinit & n0 & v0 & rest & Hfound & Hlen & Hbad).
    unfold run_single. rewrite initialise_spec, Hname, Hcat. cbn zeta. rewrite Hinit, Hfound, Hlen, Hbad.
    change (znth (vdims (fresh_view (concat (resolved_inputs zero (m_desc m) req len))
                                    [1; Z.of_nat (length (d_inputs (m_desc m))); Z.of_nat len])) 2)
      with (Some (Z.of_nat len)). cbn iota.
    assert (Hu : Forall (fun r => length r = len) (resolved_inputs zero (m_desc m) req len)).
    { unfold resolved_inputs. apply Forall_map.
      apply first_bad_none_uniform. unfold found_inputs in Hfound. rewrite Hfound.
      cbn [first_bad]. rewrite Hlen, Nat.eqb_refl. exact Hbad. }
    replace (length (d_inputs (m_desc m))) with (length (resolved_inputs zero (m_desc m) req len))
      by (unfold resolved_inputs; apply map_length).
    rewrite (input_rows_fresh _ len Hu).
    destruct (m_kernel m (resolved_params (m_desc m) req) st (resolved_inputs zero (m_desc m) req len))
      as [[outs fin]|]; reflexivity.
  Qed.

  (** C17 (a): for every request that names a catalogued model and supplies at least one input
      series, all of one length: if the direct one-cell run (defaults for missing parameters,
      zero series for missing inputs) returns (outs, fin), the runner answers with exactly the
      encoding of (outs, fin), and its log is the blank first line followed by one entry per
      missing parameter and one per missing input, in description order. *)
  Theorem run_single_equals_direct : forall cat split req m st len outs fin,
    runnable cat req m st len ->
    direct_run m (resolved_params (m_desc m) req) (resolved_inputs zero (m_desc m) req len) = Some (outs, fin) ->
    well_shaped (m_desc m) len outs ->
    (split = true -> NoDup (d_outputs (m_desc m)) /\ NoDup (d_states (m_desc m)) /\
                     (length (d_states (m_desc m)) <= length fin)%nat) ->
    run_single zero classify cat split req =
    Responded (mkResponse (LBlank :: param_log (m_desc m) req ++ input_log (m_desc m) req)
                          (Some (enc_outputs classify split (m_desc m) outs))
                          (Some (enc_states classify split (m_desc m) fin))).
  Proof.
    intros cat split req m st len outs fin Hr Hd [Hn Hu] Hs.
    rewrite (run_single_runnable cat split req m st len Hr).
    unfold direct_run in Hd. destruct Hr as (_ & _ & Hinit & _). rewrite Hinit in Hd. rewrite Hd.
    rewrite (encode_outputs_ok split (m_desc m) outs len Hn Hu) by (intros E; now destruct (Hs E)).
    rewrite encode_states_ok by (intros E; destruct (Hs E) as (_ & H2 & H3); now split).
    reflexivity.
  Qed.

  (** the runner has no protection against a panicking kernel: the process dies, no document *)
  Theorem run_single_kernel_panic : forall cat split req m st len,
    runnable cat req m st len ->
    m_kernel m (resolved_params (m_desc m) req) st (resolved_inputs zero (m_desc m) req len) = None ->
    run_single zero classify cat split req = Crashed None.
  Proof.
    intros cat split req m st len Hr Hk. rewrite (run_single_runnable cat split req m st len Hr), Hk. reflexivity.
  Qed.

  (** with splitOutputs, a state vector shorter than the description's state names kills the
      process inside the deferred encodeResults (Lag with timeLag < 1) *)
  Theorem run_single_split_states_short : forall cat req m st len outs fin,
    runnable cat req m st len ->
    m_kernel m (resolved_params (m_desc m) req) st (resolved_inputs zero (m_desc m) req len) = Some (outs, fin) ->
    well_shaped (m_desc m) len outs -> NoDup (d_outputs (m_desc m)) ->
    (length fin < length (d_states (m_desc m)))%nat ->
    run_single zero classify cat true req = Crashed None.
  Proof.
    intros cat req m st len outs fin Hr Hk [Hn Hu] Hnd Hshort.
    rewrite (run_single_runnable cat true req m st len Hr), Hk.
    rewrite (encode_outputs_ok true (m_desc m) outs len Hn Hu) by (intros _; exact Hnd).
    now rewrite encode_states_short.
  Qed.

  (** C17 (b): every decoded request (and every decode failure) has exactly one outcome, and
      it is the one its class prescribes: an error entry and no result for an unknown / empty
      model name, for no input at all and for unequal input lengths; a result otherwise, unless
      the model's own code panics. *)
  Theorem run_single_total : forall cat split (d : option request),
    match d with
    | None => run_single_decoded zero classify cat split d = Responded (error_response LErrDecode)
    | Some req =>
      run_single_decoded zero classify cat split d = run_single zero classify cat split req /\
      match classify_request cat req with
      | CNoName => run_single zero classify cat split req = Responded (error_response LErrNoName)
      | CUnknown => run_single zero classify cat split req = Responded (error_response (LErrUnknown (q_name req)))
      | CInitPanics _ => run_single zero classify cat split req = Crashed (Some empty_response)
      | CNoInputs _ => run_single zero classify cat split req = Responded (error_response LErrNoInputs)
      | CBadLength _ n got expected =>
        run_single zero classify cat split req
        = Responded (error_response (LErrInputLength n got (Z.of_nat expected)))
      | CRunnable m len =>
        match direct_run m (resolved_params (m_desc m) req) (resolved_inputs zero (m_desc m) req len) with
        | None => run_single zero classify cat split req = Crashed None
        | Some (outs, fin) =>
          well_shaped (m_desc m) len outs ->
          (split = true -> NoDup (d_outputs (m_desc m)) /\ NoDup (d_states (m_desc m)) /\
                           (length (d_states (m_desc m)) <= length fin)%nat) ->
          exists o s, run_single zero classify cat split req
                      = Responded (mkResponse (LBlank :: param_log (m_desc m) req ++ input_log (m_desc m) req)
                                              (Some o) (Some s))
        end
      end
    end.
  Proof.
    intros cat split [req|]; [|reflexivity]. split; [reflexivity|].
    unfold classify_request.
    destruct (jstring_eqb (q_name req) []) eqn:Hname.
    { unfold run_single. now rewrite initialise_spec, Hname. }
    destruct (cat (q_name req)) as [m|] eqn:Hcat.
    2:{ unfold run_single. now rewrite initialise_spec, Hname, Hcat. }
    destruct (m_init m (resolved_params (m_desc m) req)) as [st|] eqn:Hinit.
    2:{ unfold run_single. rewrite initialise_spec, Hname, Hcat. cbn zeta. now rewrite Hinit. }
    destruct (found_inputs (m_desc m) req) as [|[n0 v0] rest] eqn:Hfound.
    { unfold run_single. rewrite initialise_spec, Hname, Hcat. cbn zeta. now rewrite Hinit, Hfound. }
    destruct (first_bad (length v0) rest) as [[n got]|] eqn:Hbad.
    { unfold run_single. rewrite initialise_spec, Hname, Hcat. cbn zeta. now rewrite Hinit, Hfound, Hbad. }
    assert (Hr : runnable cat req m st (length v0)).
    { repeat split; try assumption. exists n0, v0, rest. repeat split; assumption. }
    unfold direct_run. rewrite Hinit.
    destruct (m_kernel m (resolved_params (m_desc m) req) st (resolved_inputs zero (m_desc m) req (length v0)))
      as [[outs fin]|] eqn:Hk.
    - intros Hw Hs. eexists. eexists.
      apply (run_single_equals_direct cat split req m st (length v0) outs fin Hr); try assumption.
      unfold direct_run. now rewrite Hinit.
    - now apply (run_single_kernel_panic cat split req m st (length v0)).
  Qed.
End Proofs.
