(** sim/single.go: the JSON single-model runner, at the level of DECODED requests
    and ENCODED value trees (encoding/json itself is trusted, see DESIGN.md C17).

    Definitions only (proofs are in Json/RequestProofs.v).

    The description (parameter names + defaults, input / state / output names), the
    model's InitialiseStates and its one-cell kernel are ARGUMENTS (a [catalog] maps a
    model name to them), so everything proved about [run_single] holds for every
    catalogued model.

    The model follows Initialise, RunSingleModelJSON and encodeResults step by step on
    the strided-view model of Json/Encode.v.  Go panics are explicit:
      [Crashed None]      the process dies without writing a document (a panic inside a
                          kernel goroutine, or inside the deferred encodeResults);
      [Crashed (Some r)]  a panic on the main goroutine before the deferred encodeResults
                          ran: the document r is written, then the process dies (exit 2). *)
From Coq Require Import Ascii String ZArith List Bool.
From OW Require Import Json.Encode.
Import ListNotations.
Local Open Scope Z_scope.

Section Req.
  Context {T : Type}.
  Variable zero : T.                       (* 0.0: what make([]float64, n) is filled with *)
  Variable classify : T -> fclass.

  (* ---------------------------------------------------------------- catalogue *)
  Record param_desc := mkParam { p_name : jstring; p_default : T }.

  Record description := mkDesc {
    d_params : list param_desc;
    d_states : list jstring;
    d_inputs : list jstring;
    d_outputs : list jstring
  }.

  Record model := mkModel {
    m_desc : description;
    (** ApplyParameters(column) ; InitialiseStates(1): the state vector of the one cell
        ([None]: it panics, e.g. Lag with a negative timeLag) *)
    m_init : list T -> option (list T);
    (** the one-cell run: parameter column -> initial states -> one series per input ->
        (one series per output, final states); [None]: the kernel panics *)
    m_kernel : list T -> list T -> list (list T) -> option (list (list T) * list T)
  }.

  (** sim.Catalog[name]; [None] is the nil factory of an unknown name *)
  Definition catalog := jstring -> option model.

  (* ---------------------------------------------------------------- request / response *)
  (** The decoded singleModel.  [Values] of an input is [None] when the JSON document
      has null / no "Values" (a nil slice), [Some []] for an empty array. *)
  Record request := mkRequest {
    q_name : jstring;
    q_inputs : list (jstring * option (list T));
    q_states : list (jstring * T);
    q_params : list (jstring * T)
  }.

  (** Log lines by kind (the texts are fmt.Sprintf's of exactly these data) *)
  Inductive logentry :=
  | LBlank                                           (* "" : warnings := make([]string, 1) *)
  | LParamDefault (name : jstring) (default : T)      (* "<name> not found, using default=<d>" *)
  | LMissingInput (name : jstring)                    (* "Missing input: <name>, using 0" *)
  | LErrDecode                                       (* err.Error() of json.Decoder.Decode *)
  | LErrNoName                                       (* "No model name provided" *)
  | LErrUnknown (name : jstring)                      (* "Unknown model: <name>" *)
  | LErrInputLength (name : jstring) (got : nat) (expected : Z)
                                                     (* "Input <name> has <got> values, expected <expected>" *)
  | LErrNoInputs.                                    (* "No inputs provided" *)

  (** singleModelResults: [None] is JSON null (results.Outputs == nil) *)
  Record response := mkResponse {
    r_log : list logentry;
    r_outputs : option (jvalue T);
    r_states : option (jvalue T)
  }.

  Inductive outcome :=
  | Responded (r : response)              (* exactly one document, exit status 0 *)
  | Crashed (doc : option response).      (* process dies; the document written before, if any *)

  Definition error_response (e : logentry) : response := mkResponse [e] None None.
  (** the document written by the deferred encodeResults when Initialise panics:
      runLogs is still nil ("Log": null, rendered here as the empty list) *)
  Definition empty_response : response := mkResponse [] None None.

  (* ---------------------------------------------------------------- Find *)
  (** modelInputs.Find: first entry with that name; its Values may be nil *)
  Fixpoint find_input (vals : list (jstring * option (list T))) (name : jstring) : option (list T) :=
    match vals with
    | [] => None
    | (n, v) :: r => if jstring_eqb n name then v else find_input r name
    end.

  (** modelValues.Find: first entry with that name, else the default and a message *)
  Fixpoint find_value (vals : list (jstring * T)) (name : jstring) (default : T) : T * bool :=
    match vals with
    | [] => (default, false)
    | (n, v) :: r => if jstring_eqb n name then (v, true) else find_value r name default
    end.

  (** for i, p := range desc.Parameters { params[i], msg = Find(..); if msg != "" { append } } *)
  Fixpoint resolve_params (ps : list param_desc) (vals : list (jstring * T)) : list T * list logentry :=
    match ps with
    | [] => ([], [])
    | p :: r =>
      let (v, found) := find_value vals (p_name p) (p_default p) in
      let (vs, ws) := resolve_params r vals in
      (v :: vs, if found then ws else LParamDefault (p_name p) (p_default p) :: ws)
    end.

  (* ---------------------------------------------------------------- input assembly *)
  (** inputs.Apply([]int{0, i, 0}, 2, 1, vals): the slice (1,1,len(vals)) of a
      (1,nin,len) array is always Contiguous(), so the copy path is taken:
      copy(Impl[Start : Start+len(vals)], vals) -- out-of-range bounds panic. *)
  Definition vapply_row (v : view T) (loc : list Z) (vals : list T) : option (view T) :=
    match vindex v loc with
    | None => None
    | Some k =>
      if (k <? 0) || (Z.of_nat (length (vdata v)) <? k + Z.of_nat (length vals)) then None
      else Some (mkView (firstn (Z.to_nat k) (vdata v) ++ vals
                           ++ skipn (Z.to_nat k + length vals) (vdata v))
                        (vdims v) (vstart v) (vstrides v))
    end.

  Inductive assemble_result :=
  | AErr (e : logentry)
  | ACrash
  | ADone (inputs : option (view T)) (warnings : list logentry).

  (** the loop  for i, p := range desc.Inputs  of Initialise *)
  Fixpoint assemble (given : list (jstring * option (list T))) (nin : Z) (names : list jstring)
           (i : Z) (inputs : option (view T)) (warnings : list logentry) : assemble_result :=
    match names with
    | [] => ADone inputs warnings
    | p :: rest =>
      match find_input given p with
      | None => assemble given nin rest (i + 1) inputs (warnings ++ [LMissingInput p])
      | Some this =>
        let arr := match inputs with
                   | None => fresh_view (repeat zero (Z.to_nat (1 * nin * Z.of_nat (length this))))
                                        [1; nin; Z.of_nat (length this)]
                   | Some a => a
                   end in
        match znth (vdims arr) 2 with             (* inputs.Len3() *)
        | None => ACrash
        | Some len3 =>
          if negb (Z.of_nat (length this) =? len3) then AErr (LErrInputLength p (length this) len3)
          else match vapply_row arr [0; i; 0] this with
               | None => ACrash
               | Some arr' => assemble given nin rest (i + 1) (Some arr') warnings
               end
        end
      end
    end.

  Inductive init_result :=
  | IErr (e : logentry)
  | ICrash
  | IOk (m : model) (params : list T) (inputs : view T) (states : list T) (warnings : list logentry).

  (** singleModel.Initialise.  The supplied states are IGNORED by the code: both branches
      of  if len(m.States) == len(desc.States)  call InitialiseStates(1). *)
  Definition initialise (cat : catalog) (req : request) : init_result :=
    let warnings := [LBlank] in
    if jstring_eqb (q_name req) [] then IErr LErrNoName
    else
      match cat (q_name req) with
      | None => IErr (LErrUnknown (q_name req))
      | Some m =>
        let desc := m_desc m in
        let (params, pw) := resolve_params (d_params desc) (q_params req) in
        let warnings := warnings ++ pw in
        match (if Nat.eqb (length (q_states req)) (length (d_states desc))
               then m_init m params else m_init m params) with
        | None => ICrash
        | Some states =>
          match assemble (q_inputs req) (Z.of_nat (length (d_inputs desc))) (d_inputs desc) 0
                         None warnings with
          | AErr e => IErr e
          | ACrash => ICrash
          | ADone None _ => IErr LErrNoInputs
          | ADone (Some inputs) w => IOk m params inputs states w
          end
        end
      end.

  (* ---------------------------------------------------------------- the run *)
  (** what the generated Run hands to the kernel for the one cell:
      cellInputs := inputs.Slice((0,0,0),(1,nin,len)).MustReshape((nin,len));
      input_k := cellInputs.Slice((k,0),(1,len)).MustReshape((len)).
      (The generated wrapper as a whole is C04's subject.) *)
  Definition input_rows (inputs : view T) : option (list (list T)) :=
    match vdims inputs with
    | [_; nin; len] =>
      match vslice inputs [0; 0; 0] [1; nin; len] [1; 1; 1] with
      | None => None
      | Some cell =>
        match vreshape cell [nin; len] with
        | None => None
        | Some cell_inputs =>
          mapM (fun k => match vslice cell_inputs [k; 0] [1; len] [1; 1] with
                         | None => None
                         | Some row => match vreshape row [len] with
                                       | None => None
                                       | Some r => Some (vdata r)
                                       end
                         end) (zrange nin)
        end
      end
    | _ => None
    end.

  (* ---------------------------------------------------------------- encodeResults *)
  (** outputMap[name] = v on a Go map: a repeated key is overwritten *)
  Definition obj_set (k : jstring) (v : jvalue T) (l : list (jstring * jvalue T))
    : list (jstring * jvalue T) :=
    if existsb (fun kv => jstring_eqb (fst kv) k) l
    then map (fun kv => if jstring_eqb (fst kv) k then (k, v) else kv) l
    else l ++ [(k, v)].

  (** for i, name := range names { m[name] = f(i) } *)
  Fixpoint build_obj (f : Z -> option (jvalue T)) (names : list jstring) (i : Z)
           (acc : list (jstring * jvalue T)) : option (list (jstring * jvalue T)) :=
    match names with
    | [] => Some acc
    | n :: rest => match f i with
                   | None => None
                   | Some j => build_obj f rest (i + 1) (obj_set n j acc)
                   end
    end.

  Definition encode_outputs (split : bool) (desc : description) (outputs : view T)
    : option (jvalue T) :=
    match vdims outputs with
    | [] => None                                        (* Shape()[1:] *)
    | _ :: shape1 =>
      match vreshape outputs shape1 with
      | None => None
      | Some output_array =>
        if split then
          match znth (vdims output_array) 1 with          (* outputArray.Len(1) *)
          | None => None
          | Some length =>
            option_map JObj
              (build_obj (fun i =>
                            match vslice output_array [i; 0] [1; length] [1; 1] with
                            | None => None
                            | Some s => match vreshape s [length] with
                                        | None => None
                                        | Some single => json_safe_array classify single 0
                                        end
                            end) (d_outputs desc) 0 [])
          end
        else json_safe_array classify output_array 0
      end
    end.

  Definition encode_states (split : bool) (desc : description) (states : view T)
    : option (jvalue T) :=
    match vdims states with
    | [] => None
    | _ :: shape1 =>
      match vreshape states shape1 with
      | None => None
      | Some state_array =>
        if split then
          option_map JObj
            (build_obj (fun i => option_map (json_safe_value classify) (vget state_array [i]))
                       (d_states desc) 0 [])
        else json_safe_array classify state_array 0
      end
    end.

  (** RunSingleModelJSON after a successful decode *)
  Definition run_single (cat : catalog) (split : bool) (req : request) : outcome :=
    match initialise cat req with
    | IErr e => Responded (error_response e)
    | ICrash => Crashed (Some empty_response)
    | IOk m params inputs states warnings =>
      let desc := m_desc m in
      match znth (vdims inputs) 2 with                    (* inputs.Len3() *)
      | None => Crashed (Some (mkResponse warnings None None))
      | Some len =>
        match input_rows inputs with
        | None => Crashed (Some (mkResponse warnings None None))
        | Some rows =>
          match m_kernel m params states rows with
          | None => Crashed None                          (* panic inside the cell's goroutine *)
          | Some (outs, fin) =>
            (* outputs: the (1, nout, len) array the kernel wrote its series into;
               states: the (1, ns) array updated in place *)
            let outputs := fresh_view (concat outs)
                                      [1; Z.of_nat (length (d_outputs desc)); len] in
            let st := fresh_view fin [1; Z.of_nat (length fin)] in
            match encode_outputs split desc outputs with
            | None => Crashed None                        (* panic inside the deferred call *)
            | Some o =>
              match encode_states split desc st with
              | None => Crashed None
              | Some s => Responded (mkResponse warnings (Some o) (Some s))
              end
            end
          end
        end
      end
    end.

  (** RunSingleModelJSON on the result of json.Decoder.Decode ([None]: it returned an error) *)
  Definition run_single_decoded (cat : catalog) (split : bool) (d : option request) : outcome :=
    match d with
    | None => Responded (error_response LErrDecode)
    | Some req => run_single cat split req
    end.

  (* ================================================================ specification side *)
  (** the direct one-cell run: ApplyParameters, InitialiseStates(1), Run *)
  Definition direct_run (m : model) (params : list T) (inputs : list (list T))
    : option (list (list T) * list T) :=
    match m_init m params with
    | None => None
    | Some st => m_kernel m params st inputs
    end.

  Definition resolved_params (desc : description) (req : request) : list T :=
    map (fun p => fst (find_value (q_params req) (p_name p) (p_default p))) (d_params desc).

  Definition param_log (desc : description) (req : request) : list logentry :=
    flat_map (fun p => if snd (find_value (q_params req) (p_name p) (p_default p)) then []
                       else [LParamDefault (p_name p) (p_default p)]) (d_params desc).

  Definition found_in (given : list (jstring * option (list T))) (names : list jstring)
    : list (jstring * list T) :=
    flat_map (fun n => match find_input given n with Some v => [(n, v)] | None => [] end) names.

  Definition input_log_of (given : list (jstring * option (list T))) (names : list jstring)
    : list logentry :=
    flat_map (fun n => match find_input given n with Some _ => [] | None => [LMissingInput n] end)
             names.

  Definition resolve_input (given : list (jstring * option (list T))) (len : nat) (n : jstring)
    : list T :=
    match find_input given n with Some v => v | None => repeat zero len end.

  Definition found_inputs (desc : description) (req : request) := found_in (q_inputs req) (d_inputs desc).
  Definition input_log (desc : description) (req : request) := input_log_of (q_inputs req) (d_inputs desc).
  Definition resolved_inputs (desc : description) (req : request) (len : nat) : list (list T) :=
    map (resolve_input (q_inputs req) len) (d_inputs desc).

  (** first supplied series whose length differs from [len] *)
  Fixpoint first_bad (len : nat) (l : list (jstring * list T)) : option (jstring * nat) :=
    match l with
    | [] => None
    | (n, v) :: r => if Nat.eqb (length v) len then first_bad len r else Some (n, length v)
    end.

  Definition enc_series (row : list T) : jvalue T := JArr (map (json_safe_value classify) row).

  Definition enc_outputs (split : bool) (desc : description) (outs : list (list T)) : jvalue T :=
    if split then JObj (combine (d_outputs desc) (map enc_series outs))
    else JArr (map enc_series outs).

  (** NB split: only the first |names| entries of the state vector are reported *)
  Definition enc_states (split : bool) (desc : description) (fin : list T) : jvalue T :=
    if split then JObj (combine (d_states desc) (map (json_safe_value classify) fin))
    else JArr (map (json_safe_value classify) fin).

  (** the request names catalogued model [m], whose InitialiseStates returns [st], and
      supplies at least one of its inputs, every supplied one with [len] values *)
  Definition runnable (cat : catalog) (req : request) (m : model) (st : list T) (len : nat) : Prop :=
    jstring_eqb (q_name req) [] = false /\ cat (q_name req) = Some m /\
    m_init m (resolved_params (m_desc m) req) = Some st /\
    exists n0 v0 rest, found_inputs (m_desc m) req = (n0, v0) :: rest /\ length v0 = len /\
                       first_bad len rest = None.

  (** the result of the one-cell run has the shape of the (nout x len) array the kernel writes into *)
  Definition well_shaped (desc : description) (len : nat) (outs : list (list T)) : Prop :=
    length outs = length (d_outputs desc) /\ Forall (fun r => length r = len) outs.

  Inductive req_class :=
  | CNoName
  | CUnknown
  | CInitPanics (m : model)
  | CNoInputs (m : model)
  | CBadLength (m : model) (name : jstring) (got : nat) (expected : nat)
  | CRunnable (m : model) (len : nat).

  Definition classify_request (cat : catalog) (req : request) : req_class :=
    if jstring_eqb (q_name req) [] then CNoName
    else match cat (q_name req) with
         | None => CUnknown
         | Some m =>
           match m_init m (resolved_params (m_desc m) req) with
           | None => CInitPanics m
           | Some _ =>
             match found_inputs (m_desc m) req with
             | [] => CNoInputs m
             | (_, v0) :: rest =>
               match first_bad (length v0) rest with
               | Some (n, got) => CBadLength m n got (length v0)
               | None => CRunnable m (length v0)
               end
             end
           end
         end.
End Req.

Arguments LBlank {T}.
Arguments LErrDecode {T}.
Arguments LErrNoName {T}.
Arguments LErrNoInputs {T}.
Arguments LMissingInput {T} name.
Arguments LErrUnknown {T} name.
Arguments LErrInputLength {T} name got expected.
