(** io/json/json.go ([JsonSafeArray], [JsonSafeValue]) over a strided-view model
    of data.NDFloat64 that is sufficient for the array operations used by the
    JSON runner: Get / Len / NDims / Shape / Slice / Reshape(Unroll).

    Definitions only (proofs are in Json/EncodeProofs.v).

    A view is (flat buffer, dims, start, per-axis stride).  The Go record has
    Start, Offset, Step, OffsetStep with the invariant OffsetStep = Step*Offset
    (established by every constructor and by SliceInto); [Index] only reads
    Start and OffsetStep, so the per-axis stride here is OffsetStep.  That the
    Go record refines this affine view for every chain of slices is C01's
    subject; the correspondence check of C17 reads Start/Dims/OffsetStep/Impl of
    the real views by reflection and runs this model on them.

    Go run-time panics (index out of range, negative make) are [None]. *)
From Coq Require Import Ascii String ZArith List Bool.
Import ListNotations.
Local Open Scope Z_scope.

(** What math.IsNaN / math.IsInf(v, 0) (+ the sign printed by fmt.Sprint) see of a float. *)
Inductive fclass := Finite | IsNaN | PosInf | NegInf.

(** Go strings are byte sequences.  They are modelled as [list ascii] rather than Coq's
    [string] only so that the extracted OCaml code does not define a type named
    [string] (which would shadow OCaml's in the shared driver); [jstr] converts a
    literal and is used in statements only (constants used by definitions are
    pre-evaluated). *)
Definition jstring := list ascii.
Definition jstr (s : String.string) : jstring := list_ascii_of_string s.
Fixpoint jstring_eqb (a b : jstring) : bool :=
  match a, b with
  | [], [] => true
  | x :: a', y :: b' => Ascii.eqb x y && jstring_eqb a' b'
  | _, _ => false
  end.
Definition str_NaN : jstring := Eval compute in jstr "NaN".
Definition str_pInf : jstring := Eval compute in jstr "+Inf".
Definition str_nInf : jstring := Eval compute in jstr "-Inf".

(** Encoded value trees, i.e. what is handed to encoding/json (trusted). *)
Inductive jvalue (T : Type) : Type :=
| JNum (x : T)
| JStr (s : jstring)
| JArr (l : list (jvalue T))
| JObj (l : list (jstring * jvalue T))
| JNull.
Arguments JNum {T} x.
Arguments JStr {T} s.
Arguments JArr {T} l.
Arguments JObj {T} l.
Arguments JNull {T}.

(** [mapM f l]: evaluate left to right, the first panic aborts everything. *)
Definition mapM {A B : Type} (f : A -> option B) : list A -> option (list B) :=
  fix go (l : list A) : option (list B) :=
    match l with
    | [] => Some []
    | x :: r => match f x with
                | None => None
                | Some y => match go r with None => None | Some ys => Some (y :: ys) end
                end
    end.

(** [for i := 0; i < n; i++] *)
Definition zrange (n : Z) : list Z := map Z.of_nat (seq 0 (Z.to_nat n)).

(** Go slice indexing l[i] with an int index *)
Definition znth {A : Type} (l : list A) (i : Z) : option A :=
  if i <? 0 then None else nth_error l (Z.to_nat i).

Fixpoint set_nth {A : Type} (l : list A) (k : nat) (x : A) : list A :=
  match l, k with
  | [], _ => []
  | _ :: r, O => x :: r
  | y :: r, S k' => y :: set_nth r k' x
  end.

Definition product (l : list Z) : Z := fold_right Z.mul 1 l.

(** data.Offsets: row-major strides of a fresh array *)
Fixpoint offsets (dims : list Z) : list Z :=
  match dims with
  | [] => []
  | _ :: ds => product ds :: offsets ds
  end.

(** Index / dotProduct: loops over [loc] and reads strides[i]; a [loc] longer than the
    stride vector is an index-out-of-range panic. *)
Fixpoint dot_index (loc strides : list Z) : option Z :=
  match loc, strides with
  | [], _ => Some 0
  | i :: loc', s :: strides' => option_map (Z.add (i * s)) (dot_index loc' strides')
  | _ :: _, [] => None
  end.

(** data.Multiply(lhs, rhs): loops over lhs, reads rhs[i] *)
Fixpoint mul_vec (lhs rhs : list Z) : option (list Z) :=
  match lhs, rhs with
  | [], _ => Some []
  | a :: l', b :: r' => option_map (cons (a * b)) (mul_vec l' r')
  | _ :: _, [] => None
  end.

(** all multi-indices of an array of the given dims in row-major order (data.Increment) *)
Fixpoint indices (dims : list Z) : list (list Z) :=
  match dims with
  | [] => [[]]
  | d :: ds => flat_map (fun i => map (cons i) (indices ds)) (zrange d)
  end.

Section Enc.
  Context {T : Type}.
  Variable classify : T -> fclass.

  Record view := mkView {
    vdata : list T;       (* Impl *)
    vdims : list Z;       (* Dims *)
    vstart : Z;           (* Start *)
    vstrides : list Z     (* OffsetStep *)
  }.

  (** data.NewArrayFloat64(dims) / ArrayFromSlice *)
  Definition fresh_view (data : list T) (dims : list Z) : view :=
    mkView data dims 0 (offsets dims).

  Definition vindex (v : view) (loc : list Z) : option Z :=
    option_map (Z.add (vstart v)) (dot_index loc (vstrides v)).

  (** Get(loc) = Impl[Index(loc)] *)
  Definition vget (v : view) (loc : list Z) : option T :=
    match vindex v loc with
    | Some k => znth (vdata v) k
    | None => None
    end.

  (** Slice(loc, dims, step) with an explicit step vector (SliceInto): Dims is the
      [dims] ARGUMENT as given; Start moves by loc . OffsetStep; strides multiply. *)
  Definition vslice (v : view) (loc dims step : list Z) : option view :=
    match dot_index loc (vstrides v), mul_vec (vstrides v) step with
    | Some off, Some st => Some (mkView (vdata v) dims (vstart v + off) st)
    | _, _ => None
    end.

  (** Unroll, by its element-by-element definition (the slow path of the Go code;
      the contiguous fast path Impl[s:e+1] returns the same elements, which is part
      of C02).  make([]T, Product(dims)) panics for a negative product. *)
  Definition vunroll (v : view) : option (list T) :=
    if existsb (fun d => d <? 0) (vdims v) then None
    else mapM (vget v) (indices (vdims v)).

  (** MustReshape(newShape): panics ("Size mismatch") unless the sizes agree; the result
      is a fresh array over the unrolled elements.  (The "special case 1D" branch of
      Reshape needs a NON-contiguous view all of whose dims are <= 1, and Contiguous()
      only answers false at an axis with dim > 1: it is dead code.) *)
  Definition vreshape (v : view) (new_shape : list Z) : option view :=
    if product new_shape =? product (vdims v) then
      match vunroll v with
      | Some data => Some (fresh_view data new_shape)
      | None => None
      end
    else None.

  (** JsonSafeValue: fmt.Sprint of NaN, +Inf, -Inf is "NaN", "+Inf", "-Inf" *)
  Definition json_safe_value (x : T) : jvalue T :=
    match classify x with
    | IsNaN => JStr str_NaN
    | PosInf => JStr str_pInf
    | NegInf => JStr str_nInf
    | Finite => JNum x
    end.

  (** to := NewIndex(0); for i := shiftDim+1; i < ndims; i++ { to[i] = shape[i] } *)
  Definition to_init (d : nat) (dims : list Z) : list Z :=
    repeat 0 (Nat.min (S d) (length dims)) ++ skipn (S d) dims.

  (** JsonSafeArray(vals, shiftDim).  The recursion depth is ndims - shiftDim; [fuel]
      makes that structural and running out of it is an explicit [None] which
      [json_safe_array] (fuel = ndims) never reaches (EncodeProofs.jsa_spec).
      NB: the sub-view is built by [vals.Slice(from, to, step)] with [to] in the
      DIMS position, so its Dims are (0,..,0,i,shape[d+1],..): only the axes after
      [shiftDim] are read by the recursive call. *)
  Fixpoint jsa (fuel : nat) (v : view) (d : nat) {struct fuel} : option (jvalue T) :=
    match fuel with
    | O => None
    | S fuel' =>
      match nth_error (vdims v) d with
      | None => None                          (* vals.Len(shiftDim): index out of range *)
      | Some len =>
        let nd := length (vdims v) in
        if len <? 0 then None                 (* make([]interface{}, length), length < 0 *)
        else
          option_map JArr
            (mapM (fun i =>
                     let from := set_nth (repeat 0 nd) d i in
                     if Nat.eqb d (nd - 1) then
                       option_map json_safe_value (vget v from)
                     else
                       let to := set_nth (to_init d (vdims v)) d i in
                       match vslice v from to (repeat 1 nd) with
                       | None => None
                       | Some sub => jsa fuel' sub (S d)
                       end)
                  (zrange len))
      end
    end.

  Definition json_safe_array (v : view) (shift_dim : Z) : option (jvalue T) :=
    if shift_dim <? 0 then None             (* Dims[negative]: panic *)
    else jsa (length (vdims v)) v (Z.to_nat shift_dim).

  (** Specification side: the nested-list structure for dimensions [dims] whose leaf at
      multi-index idx is [leaf idx]. *)
  Fixpoint nested (dims : list Z) (leaf : list Z -> option (jvalue T)) : option (jvalue T) :=
    match dims with
    | [] => leaf []
    | n :: ds =>
      if n <? 0 then None
      else option_map JArr (mapM (fun i => nested ds (fun idx => leaf (i :: idx))) (zrange n))
    end.
End Enc.

Arguments view T : clear implicits.
