(** Proofs about Json/Encode.v: [json_safe_array_nested] (for every strided view and
    every shift dimension), its reading as shape + leaf addressing, the panic cases,
    and the contiguous-array lemmas used by Json/RequestProofs.v. *)
From Coq Require Import String ZArith List Bool Lia.
From OW Require Import Json.Encode.
Import ListNotations.
Local Open Scope Z_scope.

(* ------------------------------------------------------------------ mapM *)
Lemma mapM_ext {A B} (f g : A -> option B) l :
  (forall x, In x l -> f x = g x) -> mapM f l = mapM g l.
Proof.
  induction l as [|x r IH]; intros H; cbn; [reflexivity|].
  rewrite (H x (or_introl eq_refl)). rewrite IH; [reflexivity|].
  intros y Hy. apply H. now right.
Qed.

Lemma mapM_map {A B C} (f : B -> option C) (g : A -> B) l :
  mapM f (map g l) = mapM (fun x => f (g x)) l.
Proof. induction l as [|x r IH]; cbn; [reflexivity|]. now rewrite IH. Qed.

Lemma mapM_some {A B} (h : A -> B) l : mapM (fun x => Some (h x)) l = Some (map h l).
Proof. induction l as [|x r IH]; cbn; [reflexivity|]. now rewrite IH. Qed.

Lemma mapM_app {A B} (f : A -> option B) l1 l2 :
  mapM f (l1 ++ l2) =
  match mapM f l1, mapM f l2 with Some a, Some b => Some (a ++ b) | _, _ => None end.
Proof.
  induction l1 as [|x r IH]; cbn.
  - destruct (mapM f l2); reflexivity.
  - destruct (f x); [|reflexivity]. rewrite IH.
    destruct (mapM f r); [|reflexivity]. destruct (mapM f l2); reflexivity.
Qed.

Lemma mapM_flat_map {A B C} (f : B -> option C) (g : A -> list B) l :
  mapM f (flat_map g l) = option_map (@concat C) (mapM (fun x => mapM f (g x)) l).
Proof.
  induction l as [|x r IH]; cbn; [reflexivity|].
  rewrite mapM_app, IH. destruct (mapM f (g x)); [|reflexivity].
  destruct (mapM (fun x0 => mapM f (g x0)) r); reflexivity.
Qed.

Lemma mapM_length {A B} (f : A -> option B) l r : mapM f l = Some r -> length r = length l.
Proof.
  revert r; induction l as [|x l IH]; cbn; intros r H.
  - now inversion H.
  - destruct (f x); [|discriminate]. destruct (mapM f l) eqn:E; [|discriminate].
    inversion H; subst. cbn. now rewrite (IH l0 eq_refl).
Qed.

Lemma mapM_nth {A B} (f : A -> option B) l r :
  mapM f l = Some r ->
  forall k x, nth_error l k = Some x -> exists y, f x = Some y /\ nth_error r k = Some y.
Proof.
  revert r; induction l as [|a l IH]; cbn; intros r H k x Hk.
  - destruct k; discriminate.
  - destruct (f a) eqn:Fa; [|discriminate]. destruct (mapM f l) eqn:E; [|discriminate].
    inversion H; subst. destruct k as [|k]; cbn in *.
    + inversion Hk; subst. eauto.
    + eapply IH; eauto.
Qed.

Lemma mapM_none {A B} (f : A -> option B) l x : In x l -> f x = None -> mapM f l = None.
Proof.
  induction l as [|a l IH]; cbn; [tauto|]. intros [->|H] Hx.
  - now rewrite Hx.
  - destruct (f a); [|reflexivity]. now rewrite IH.
Qed.

(* ------------------------------------------------------------------ list helpers *)
Lemma skipn_nth_error {A} (l : list A) d x :
  nth_error l d = Some x -> skipn d l = x :: skipn (S d) l.
Proof.
  revert d; induction l as [|a l IH]; intros [|d] H; cbn in *; try discriminate.
  - now inversion H.
  - now apply IH.
Qed.

Lemma set_nth_length {A} (l : list A) k x : length (set_nth l k x) = length l.
Proof. revert k; induction l as [|a l IH]; intros [|k]; cbn; auto. Qed.

Lemma set_nth_repeat {A} (z : A) d m x :
  set_nth (repeat z (d + S m)) d x = repeat z d ++ x :: repeat z m.
Proof. induction d as [|d IH]; cbn; [reflexivity|]. now rewrite IH. Qed.

Lemma skipn_set_nth {A} (l : list A) k m x : (k < m)%nat -> skipn m (set_nth l k x) = skipn m l.
Proof.
  revert k m; induction l as [|a l IH]; intros k m H.
  - destruct k; cbn; reflexivity.
  - destruct m as [|m]; [lia|]. destruct k as [|k]; cbn; [reflexivity|]. apply IH. lia.
Qed.

Lemma nth_error_seq a n k : (k < n)%nat -> nth_error (seq a n) k = Some (a + k)%nat.
Proof.
  revert a k; induction n as [|n IH]; intros a k H; [lia|].
  destruct k as [|k]; cbn; [f_equal; lia|]. rewrite IH by lia. f_equal; lia.
Qed.

Lemma zrange_nth n i : 0 <= i < n -> nth_error (zrange n) (Z.to_nat i) = Some i.
Proof.
  intros H. unfold zrange. rewrite nth_error_map, nth_error_seq by lia.
  cbn. f_equal. lia.
Qed.

Lemma zrange_length n : length (zrange n) = Z.to_nat n.
Proof. unfold zrange. now rewrite map_length, seq_length. Qed.

Lemma zrange_in n i : In i (zrange n) -> 0 <= i < n.
Proof.
  unfold zrange. rewrite in_map_iff. intros [k [<- Hk]]. apply in_seq in Hk. lia.
Qed.

(* ------------------------------------------------------------------ index arithmetic *)
Lemma option_map_add0 (o : option Z) : option_map (Z.add 0) o = o.
Proof. destruct o; cbn; [f_equal|reflexivity]. Qed.

Lemma dot_index_zeros_app k l st :
  (k <= length st)%nat -> dot_index (repeat 0 k ++ l) st = dot_index l (skipn k st).
Proof.
  revert st; induction k as [|k IH]; intros st H; [reflexivity|].
  destruct st as [|s st]; cbn in H; [lia|]. cbn [repeat app dot_index skipn].
  rewrite IH by lia. rewrite Z.mul_0_l. apply option_map_add0.
Qed.

Lemma dot_index_zeros m st : (m <= length st)%nat -> dot_index (repeat 0 m) st = Some 0.
Proof.
  revert st; induction m as [|m IH]; intros st H; [destruct st; reflexivity|].
  destruct st as [|s st]; cbn in H; [lia|]. cbn [repeat dot_index]. rewrite IH by lia. reflexivity.
Qed.

Lemma mul_vec_ones st : mul_vec st (repeat 1 (length st)) = Some st.
Proof.
  induction st as [|s st IH]; cbn; [reflexivity|]. rewrite IH. cbn. now rewrite Z.mul_1_r.
Qed.

Section Proofs.
  Context {T : Type}.
  Variable classify : T -> fclass.
  Notation jsv := (json_safe_value classify).

  Lemma nested_ext dims : forall (l1 l2 : list Z -> option (jvalue T)),
    (forall idx, l1 idx = l2 idx) -> nested dims l1 = nested dims l2.
  Proof.
    induction dims as [|n ds IH]; intros l1 l2 H; cbn; [apply H|].
    destruct (n <? 0); [reflexivity|]. f_equal. apply mapM_ext. intros i _.
    apply IH. intros idx. apply H.
  Qed.

  (** the leaf function of the specification: element (0,..,0,idx) of the view *)
  Definition leaf_of (v : view T) (d : nat) (idx : list Z) : option (jvalue T) :=
    option_map jsv (vget v (repeat 0 d ++ idx)).

  Lemma jsa_spec : forall n fuel (v : view T) d,
    length (vstrides v) = length (vdims v) ->
    (d + S n = length (vdims v))%nat -> (n < fuel)%nat ->
    jsa classify fuel v d = nested (skipn d (vdims v)) (leaf_of v d).
  Proof.
    induction n as [|n IH]; intros fuel v d Hwf Hd Hfuel;
      (destruct fuel as [|fuel]; [lia|]); cbn [jsa];
      (destruct (nth_error (vdims v) d) as [len|] eqn:E;
       [|apply nth_error_None in E; lia]);
      rewrite (skipn_nth_error _ _ _ E); cbn [nested];
      (destruct (len <? 0); [reflexivity|]); f_equal; apply mapM_ext; intros i _.
    - (* last dimension: leaves *)
      assert (Hlast : Nat.eqb d (length (vdims v) - 1) = true) by (apply Nat.eqb_eq; lia).
      rewrite Hlast. rewrite skipn_all2 by lia. cbn [nested]. unfold leaf_of.
      replace (length (vdims v)) with (d + 1)%nat by lia.
      rewrite (set_nth_repeat 0 d 0 i). reflexivity.
    - (* inner dimension: slice and recurse *)
      assert (Hnl : Nat.eqb d (length (vdims v) - 1) = false) by (apply Nat.eqb_neq; lia).
      rewrite Hnl.
      destruct (nth_error (vstrides v) d) as [sd|] eqn:Es;
        [|apply nth_error_None in Es; lia].
      pose proof (skipn_nth_error _ _ _ Es) as Hsk.
      assert (Hfrom : dot_index (set_nth (repeat 0 (length (vdims v))) d i) (vstrides v)
                      = Some (i * sd + 0)).
      { replace (length (vdims v)) with (d + S (S n))%nat by lia.
        rewrite set_nth_repeat, dot_index_zeros_app by lia.
        rewrite Hsk. cbn [dot_index]. rewrite dot_index_zeros; [reflexivity|].
        rewrite skipn_length. lia. }
      unfold vslice. rewrite Hfrom. rewrite <- Hwf, mul_vec_ones.
      set (to := set_nth (to_init d (vdims v)) d i).
      assert (Hto_len : length to = length (vdims v)).
      { unfold to, to_init. rewrite set_nth_length, app_length, repeat_length, skipn_length. lia. }
      assert (Hto_skip : skipn (S d) to = skipn (S d) (vdims v)).
      { unfold to. rewrite skipn_set_nth by lia. unfold to_init.
        rewrite Nat.min_l by lia. rewrite skipn_app, repeat_length, Nat.sub_diag.
        rewrite skipn_all2 by (rewrite repeat_length; lia). reflexivity. }
      rewrite (IH fuel (mkView (vdata v) to (vstart v + (i * sd + 0)) (vstrides v)) (S d));
        cbn [vdims vstrides]; try lia.
      rewrite Hto_skip. apply nested_ext. intros idx. unfold leaf_of, vget, vindex.
      cbn [vdata vstart vstrides].
      replace (repeat 0 (S d) ++ idx) with (repeat 0 (S d) ++ idx) by reflexivity.
      rewrite (dot_index_zeros_app (S d)) by lia.
      change (repeat 0 d ++ i :: idx) with (repeat 0 d ++ (i :: idx)).
      rewrite (dot_index_zeros_app d) by lia. rewrite Hsk. cbn [dot_index].
      destruct (dot_index idx (skipn (S d) (vstrides v))) as [k|]; cbn; [|reflexivity].
      replace (vstart v + (i * sd + 0) + k) with (vstart v + (i * sd + k)) by lia.
      reflexivity.
  Qed.

  (** C17: for EVERY view (any data, dims, start, strides: in particular every view
      produced by a chain of slices) and EVERY shift dimension d < ndims, JsonSafeArray
      is the nesting of dims[d..] whose leaf (i_d, ..) is the JSON-safe form of element
      (0,..,0,i_d,..) -- and it panics exactly when that nesting meets an out-of-range
      element or a negative extent.  By induction on the number of remaining dimensions. *)
  Theorem json_safe_array_nested : forall (v : view T) (d : nat),
    length (vstrides v) = length (vdims v) -> (d < length (vdims v))%nat ->
    json_safe_array classify v (Z.of_nat d) =
    nested (skipn d (vdims v)) (fun idx => option_map jsv (vget v (repeat 0 d ++ idx))).
  Proof.
    intros v d Hwf Hd. unfold json_safe_array.
    destruct (Z.of_nat d <? 0) eqn:E; [apply Z.ltb_lt in E; lia|].
    rewrite Nat2Z.id.
    apply (jsa_spec (length (vdims v) - d - 1)); try lia; assumption.
  Qed.

  (** shift dimensions outside 0..ndims-1 panic (vals.Len(shiftDim) indexes Dims) *)
  Theorem json_safe_array_bad_shift : forall (v : view T) (s : Z),
    s < 0 \/ Z.of_nat (length (vdims v)) <= s -> json_safe_array classify v s = None.
  Proof.
    intros v s H. unfold json_safe_array.
    destruct (s <? 0) eqn:E; [reflexivity|]. apply Z.ltb_ge in E.
    destruct (length (vdims v)) as [|n] eqn:L; [reflexivity|]. cbn [jsa].
    destruct (nth_error (vdims v) (Z.to_nat s)) eqn:N; [|reflexivity].
    assert (nth_error (vdims v) (Z.to_nat s) <> None) as Hn by congruence.
    apply nth_error_Some in Hn. lia.
  Qed.

  (* ---------------------------------------------------------------- reading [nested] *)
  (** address a leaf of a value tree *)
  Fixpoint jpath (j : jvalue T) (idx : list Z) : option (jvalue T) :=
    match idx with
    | [] => Some j
    | i :: r => match j with
                | JArr l => match znth l i with Some e => jpath e r | None => None end
                | _ => None
                end
    end.

  (** arrays nested exactly like [dims] *)
  Fixpoint jshape (dims : list Z) (j : jvalue T) : Prop :=
    match dims with
    | [] => True
    | n :: ds => exists l, j = JArr l /\ Z.of_nat (length l) = n /\ Forall (jshape ds) l
    end.

  Lemma nested_shape_path : forall dims leaf j,
    nested dims leaf = Some j ->
    jshape dims j /\
    forall idx, Forall2 (fun i n => 0 <= i < n) idx dims ->
                exists e, leaf idx = Some e /\ jpath j idx = Some e.
  Proof.
    induction dims as [|n ds IH]; intros leaf j H; cbn in H.
    - split; [exact I|]. intros idx Hidx. inversion Hidx; subst. cbn. eauto.
    - destruct (n <? 0) eqn:En; [discriminate|]. apply Z.ltb_ge in En.
      destruct (mapM (fun i => nested ds (fun idx => leaf (i :: idx))) (zrange n)) as [l|] eqn:M;
        [|discriminate].
      inversion H; subst j; clear H. split.
      + exists l. split; [reflexivity|]. split.
        * rewrite (mapM_length _ _ _ M), zrange_length. lia.
        * apply Forall_forall. intros e He.
          destruct (In_nth_error _ _ He) as [k Hk].
          assert (Hk' : (k < length (zrange n))%nat).
          { rewrite <- (mapM_length _ _ _ M). apply nth_error_Some. congruence. }
          destruct (nth_error (zrange n) k) as [i|] eqn:Ei;
            [|apply nth_error_None in Ei; lia].
          destruct (mapM_nth _ _ _ M k i Ei) as [y [Hy Hy2]].
          rewrite Hk in Hy2. inversion Hy2; subst y. apply (IH _ _ Hy).
      + intros idx Hidx. inversion Hidx as [|i n' r ds' Hi Hr]; subst.
        pose proof (zrange_nth n i Hi) as Hz.
        destruct (mapM_nth _ _ _ M _ _ Hz) as [y [Hy Hy2]].
        destruct (IH _ _ Hy) as [_ Hp]. destruct (Hp r Hr) as [e [He1 He2]].
        exists e. split; [exact He1|]. cbn. unfold znth.
        destruct (i <? 0) eqn:Ei; [apply Z.ltb_lt in Ei; lia|]. now rewrite Hy2.
  Qed.

  (** The property in words: when JsonSafeArray returns, its result is nested exactly like
      dims[d..] and the leaf at (i_d,..) is the JSON-safe form of element (0,..,0,i_d,..). *)
  Theorem json_safe_array_shape_and_leaves : forall (v : view T) (d : nat) j,
    length (vstrides v) = length (vdims v) -> (d < length (vdims v))%nat ->
    json_safe_array classify v (Z.of_nat d) = Some j ->
    jshape (skipn d (vdims v)) j /\
    forall idx, Forall2 (fun i n => 0 <= i < n) idx (skipn d (vdims v)) ->
      exists x, vget v (repeat 0 d ++ idx) = Some x /\ jpath j idx = Some (jsv x).
  Proof.
    intros v d j Hwf Hd H. rewrite json_safe_array_nested in H by assumption.
    destruct (nested_shape_path _ _ _ H) as [Hs Hp]. split; [exact Hs|].
    intros idx Hidx. destruct (Hp idx Hidx) as [e [He1 He2]].
    destruct (vget v (repeat 0 d ++ idx)) as [x|]; cbn in He1; [|discriminate].
    inversion He1; subst. eauto.
  Qed.

  (** non-finite leaves are exactly the three strings; finite ones are numbers *)
  Theorem json_safe_value_cases : forall x,
    match classify x with
    | Finite => jsv x = JNum x
    | IsNaN => jsv x = JStr (jstr "NaN")
    | PosInf => jsv x = JStr (jstr "+Inf")
    | NegInf => jsv x = JStr (jstr "-Inf")
    end.
  Proof. intros x. unfold json_safe_value. destruct (classify x); reflexivity. Qed.

  (* ---------------------------------------------------------------- contiguous arrays *)
  Definition chunk (data : list T) (s n : nat) : list T := firstn n (skipn s data).

  Lemma firstn_add {A} (l : list A) a b : firstn (a + b) l = firstn a l ++ firstn b (skipn a l).
  Proof.
    revert l; induction a as [|a IH]; intros l; cbn; [reflexivity|].
    destruct l; cbn; [now destruct b|]. now rewrite IH.
  Qed.

  Lemma skipn_add {A} (l : list A) a b : skipn (a + b) l = skipn b (skipn a l).
  Proof.
    revert l; induction a as [|a IH]; intros l; cbn; [reflexivity|].
    destruct l; cbn; [now destruct b|]. apply IH.
  Qed.

  Lemma chunk_add data s a b : chunk data s (a + b) = chunk data s a ++ chunk data (s + a) b.
  Proof. unfold chunk. rewrite firstn_add. f_equal. now rewrite skipn_add. Qed.

  Lemma chunk_one data s x : nth_error data s = Some x -> chunk data s 1 = [x].
  Proof. intros H. unfold chunk. now rewrite (skipn_nth_error _ _ _ H). Qed.

  Lemma chunk_all data : chunk data 0 (length data) = data.
  Proof. unfold chunk. cbn. apply firstn_all. Qed.

  Lemma chunk_length data s n : (s + n <= length data)%nat -> length (chunk data s n) = n.
  Proof. intros H. unfold chunk. rewrite firstn_length, skipn_length. lia. Qed.

  Fixpoint prodn (l : list nat) : nat := match l with [] => 1%nat | d :: r => (d * prodn r)%nat end.

  Lemma product_of_nat l : product (map Z.of_nat l) = Z.of_nat (prodn l).
  Proof. induction l as [|d r IH]; cbn; [reflexivity|]. unfold product in IH. rewrite IH. lia. Qed.

  Lemma concat_chunks data P : forall n s,
    concat (map (fun i => chunk data (s + i * P) P) (seq 0 n)) = chunk data s (n * P).
  Proof.
    induction n as [|n IH]; intros s; cbn [seq map concat].
    - unfold chunk. reflexivity.
    - rewrite <- seq_shift, map_map.
      replace (S n * P)%nat with (P + n * P)%nat by lia. rewrite chunk_add.
      replace (s + 0 * P)%nat with s by lia. f_equal.
      rewrite <- (IH (s + P)%nat). f_equal. apply map_ext. intros i. f_equal. lia.
  Qed.

  (** gathering a row-major block element by element yields the block *)
  Lemma gather_contig (data : list T) : forall (nd : list nat) (s : nat),
    (s + prodn nd <= length data)%nat ->
    mapM (fun loc => match dot_index loc (offsets (map Z.of_nat nd)) with
                     | Some k => znth data (Z.of_nat s + k)
                     | None => None
                     end) (indices (map Z.of_nat nd))
    = Some (chunk data s (prodn nd)).
  Proof.
    induction nd as [|n rest IH]; intros s H; cbn [map indices offsets prodn] in *.
    - cbn. unfold znth. rewrite Z.add_0_r.
      destruct (Z.of_nat s <? 0) eqn:E; [apply Z.ltb_lt in E; lia|]. rewrite Nat2Z.id.
      destruct (nth_error data s) as [x|] eqn:N; [|apply nth_error_None in N; lia].
      change (Some [x] = Some (chunk data s 1)). now rewrite (chunk_one _ _ _ N).
    - rewrite mapM_flat_map. unfold zrange. rewrite Nat2Z.id, mapM_map.
      rewrite (mapM_ext _ (fun i => Some (chunk data (s + i * prodn rest) (prodn rest)))).
      + rewrite mapM_some. cbn [option_map]. f_equal. apply concat_chunks.
      + intros i Hi. apply in_seq in Hi. rewrite mapM_map.
        rewrite <- (IH (s + i * prodn rest)%nat) by nia.
        apply mapM_ext. intros loc _. cbn [dot_index].
        destruct (dot_index loc (offsets (map Z.of_nat rest))) as [k|]; cbn; [|reflexivity].
        f_equal. rewrite product_of_nat. lia.
  Qed.

  Lemma all_nonneg_of_nat (l : list nat) : existsb (fun d => d <? 0) (map Z.of_nat l) = false.
  Proof.
    induction l as [|d r IH]; cbn; [reflexivity|]. rewrite IH.
    destruct (Z.of_nat d <? 0) eqn:E; [apply Z.ltb_lt in E; lia|reflexivity].
  Qed.

  (** Unroll of a row-major block view (strides = Offsets(dims)) is that block *)
  Lemma vunroll_block (data : list T) (nd : list nat) (s : nat) :
    (s + prodn nd <= length data)%nat ->
    vunroll (mkView data (map Z.of_nat nd) (Z.of_nat s) (offsets (map Z.of_nat nd)))
    = Some (chunk data s (prodn nd)).
  Proof.
    intros H. unfold vunroll. cbn [vdims]. rewrite all_nonneg_of_nat.
    rewrite <- (gather_contig data nd s H). apply mapM_ext. intros loc _.
    unfold vget, vindex. cbn [vstart vstrides vdata].
    destruct (dot_index loc (offsets (map Z.of_nat nd))); reflexivity.
  Qed.

  (** JsonSafeArray of a fresh 1-D array is the list of its JSON-safe elements *)
  Lemma jsa_fresh_1d (l : list T) :
    json_safe_array classify (fresh_view l [Z.of_nat (length l)]) 0
    = Some (JArr (map jsv l)).
  Proof.
    change 0 with (Z.of_nat 0). rewrite json_safe_array_nested; cbn; try lia.
    destruct (Z.of_nat (length l) <? 0) eqn:E; [apply Z.ltb_lt in E; lia|].
    unfold zrange. rewrite Nat2Z.id, mapM_map.
    assert (G : forall (r : list T) (a : nat), (forall k, nth_error l (a + k) = nth_error r k) ->
              mapM (fun x : nat => option_map jsv (znth l (Z.of_nat x * 1 + 0)))
                   (seq a (length r)) = Some (map jsv r)).
    { induction r as [|x r IH]; intros a Hr; [reflexivity|].
      cbn [length seq map]. cbn [mapM]. unfold znth at 1.
      destruct (Z.of_nat a * 1 + 0 <? 0) eqn:E2; [apply Z.ltb_lt in E2; lia|].
      replace (Z.to_nat (Z.of_nat a * 1 + 0)) with (a + 0)%nat by lia.
      rewrite Hr. cbn [nth_error option_map]. 
      change (mapM (fun x0 : nat => option_map jsv (znth l (Z.of_nat x0 * 1 + 0))) (seq (S a) (length r)))
        with (mapM (fun x0 : nat => option_map jsv (znth l (Z.of_nat x0 * 1 + 0))) (seq (S a) (length r))).
      rewrite IH; [reflexivity|].
      intros k. specialize (Hr (S k)). cbn [nth_error] in Hr. rewrite <- Hr. f_equal. lia. }
    rewrite (G l 0%nat); [reflexivity|]. intros k. reflexivity.
  Qed.
End Proofs.
