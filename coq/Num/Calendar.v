(** Model of models/functions/dates.go (C19), over Z and over an [Arith]
    for the float-valued parameters and outputs. *)
From Coq Require Import ZArith List Bool.
From OW Require Import Base.Arith Base.Mealy.
Import ListNotations.
Local Open Scope Z_scope.

(** Go's % on ints truncates toward zero: [Z.rem]. *)
Definition leap_year (y : Z) : bool :=
  if negb (Z.rem y 4 =? 0) then false
  else if negb (Z.rem y 100 =? 0) then true
  else if Z.rem y 400 =? 0 then true
  else false.

Definition DAYS_IN_MONTH : list Z := [31;28;31;30;31;30;31;31;30;31;30;31].

(** [None] models the Go index-out-of-range panic for a month outside 1..12. *)
Definition days_in_month (m y : Z) : option Z :=
  if (m =? 2) && leap_year y then Some 29
  else if (1 <=? m) && (m <=? 12) then nth_error DAYS_IN_MONTH (Z.to_nat (m - 1))
  else None.

(** for mi := 1; mi < m; mi++ { doy += daysInMonth(mi,y) } *)
Fixpoint doy_loop (fuel : nat) (mi m y acc : Z) : option Z :=
  match fuel with
  | O => Some acc
  | S f => if mi <? m then
             match days_in_month mi y with
             | Some k => doy_loop f (mi + 1) m y (acc + k)
             | None => None
             end
           else Some acc
  end.
Definition day_of_year (d m y : Z) : option Z :=
  match doy_loop (Z.to_nat (m - 1)) 1 m y 0 with
  | Some k => Some (k + d)
  | None => None
  end.

Record date := { dd : Z; dm : Z; dy : Z }.

(** one loop iteration of dateGenerator: emits (date, month, year, dayOfYear) *)
Definition date_step (s : date) : option (date * (Z * Z * Z * Z)) :=
  match day_of_year (dd s) (dm s) (dy s), days_in_month (dm s) (dy s) with
  | Some doy, Some dim =>
      let d1 := dd s + 1 in
      let '(d2, m2) := if d1 >? dim then (1, dm s + 1) else (d1, dm s) in
      let '(m3, y3) := if m2 >? 12 then (1, dy s + 1) else (m2, dy s) in
      Some ({| dd := d2; dm := m3; dy := y3 |}, (dd s, dm s, dy s, doy))
  | _, _ => None
  end.

Fixpoint date_generator (n : nat) (s : date) : option (list (Z * Z * Z * Z)) :=
  match n with
  | O => Some []
  | S k => match date_step s with
           | Some (s', o) => match date_generator k s' with
                             | Some os => Some (o :: os)
                             | None => None
                             end
           | None => None
           end
  end.

(** The kernel as the generated wrapper sees it: float parameters truncated by
    Go's int(), four float output series. *)
Section K.
  Context {T : Type} {A : Arith T}.
  Definition date_generator_kernel (params : list T) (states : list T) (inputs : list (list T))
    : option (list (list T) * list T) :=
    match params, inputs with
    | [sd; sm; sy], [tick] =>
        match date_generator (length tick) {| dd := truncZ sd; dm := truncZ sm; dy := truncZ sy |} with
        | Some os =>
            Some ([ map (fun o => let '(d,_,_,_) := o in of_Z d) os;
                    map (fun o => let '(_,m,_,_) := o in of_Z m) os;
                    map (fun o => let '(_,_,y,_) := o in of_Z y) os;
                    map (fun o => let '(_,_,_,k) := o in of_Z k) os ], states)
        | None => None
        end
    | _, _ => None
    end.
End K.
