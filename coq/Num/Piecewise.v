(** Model of util/fn/piecewise.go (C18): [brackets] and [Piecewise], over [Arith].
    Definitions only (proofs are in Num/PiecewiseProofs.v).

      func brackets(x, xs) (i, j int) {
        i, j = -1, -1
        if x < xs[0]   { return }
        if x > xs[n-1] { return }
        i = 0
        for j = 1; j < n; j++ { if xs[j] >= x { return }; i += 1 }
        i, j = -1, -1; return }

      func Piecewise(x, xs, ys) (y, err) {
        i, j := brackets(x, xs)
        if i < 0 || j < 0 { err = ...; return }
        frac := (x - xs[i]) / (xs[j] - xs[i])
        y = ys[i] + frac*(ys[j]-ys[i]) }

    [piecewise] : [None] is the Go error.  Index panics (empty table, [ys]
    shorter than the bracket index) are the outer [None] of [piecewise_full];
    [piecewise] itself is what callers with well-formed tables (non-empty, [ys]
    at least as long as [xs]) see, and [piecewise_full_wf] (proofs file) says so. *)
From Coq Require Import ZArith List Bool.
From OW Require Import Base.Arith.
Import ListNotations.

Section Piecewise.
  Context {T : Type} {A : Arith T}.
  Local Open Scope ar_scope.

  (** the [for j = 1; j < n; j++] loop; [i] is the Go variable i (= j-1) and
      [rest] = xs[j..] *)
  Fixpoint brackets_loop (x : T) (rest : list T) (i : nat) : option (nat * nat) :=
    match rest with
    | [] => None                                   (* i, j = -1, -1 *)
    | v :: r => if v >=? x then Some (i, S i) else brackets_loop x r (S i)
    end.

  (** outer [None]: index-out-of-range panic on an empty table;
      inner [None]: the (-1,-1) "no brackets" answer *)
  Definition brackets_full (x : T) (xs : list T) : option (option (nat * nat)) :=
    match xs with
    | [] => None
    | x0 :: r =>
        if x <? x0 then Some None
        else if x >? last xs x0 then Some None
        else Some (brackets_loop x r O)
    end.

  Definition brackets (x : T) (xs : list T) : option (nat * nat) :=
    match brackets_full x xs with Some b => b | None => None end.

  (** the interpolation formula of [Piecewise] *)
  Definition interp (x x0 x1 y0 y1 : T) : T :=
    let frac := (x - x0) / (x1 - x0) in
    y0 + frac * (y1 - y0).

  Definition piecewise_full (x : T) (xs ys : list T) : option (option T) :=
    match brackets_full x xs with
    | None => None
    | Some None => Some None
    | Some (Some (i, j)) =>
        match nth_error xs i, nth_error xs j, nth_error ys i, nth_error ys j with
        | Some x0, Some x1, Some y0, Some y1 => Some (Some (interp x x0 x1 y0 y1))
        | _, _, _, _ => None
        end
    end.

  (** [None] = Go returns an error (and, for ill-formed tables only, a panic) *)
  Definition piecewise (x : T) (xs ys : list T) : option T :=
    match piecewise_full x xs ys with Some r => r | None => None end.
End Piecewise.

Section Driver.
  Context {T : Type} {A : Arith T}.
  Definition c18_piecewise : T -> list T -> list T -> option (option T) := piecewise_full.
  (** a test function for FindRoot that is a table lookup through [Piecewise]
      ( y, err := fn.Piecewise(x, xs, ys); if err != nil { return -1 } ; return y ) *)
  Definition c18_tf_pwt (xs ys : list T) (x : T) : T :=
    match piecewise_full x xs ys with
    | Some (Some v) => v
    | _ => neg one
    end.
End Driver.
