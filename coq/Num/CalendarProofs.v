(** C19: the date generator follows the proleptic Gregorian calendar.
    Independent specification: the closed-form day number [days_from_civil]
    (era / year-of-era / day-of-era arithmetic; no iteration, no month table). *)
From Coq Require Import ZArith List Bool Lia.
From OW Require Import Base.Arith Num.Calendar.
Import ListNotations.
Local Open Scope Z_scope.

Definition days_from_civil (d m y : Z) : Z :=
  let y' := if m <=? 2 then y - 1 else y in
  let era := y' / 400 in
  let yoe := y' - era * 400 in
  let mp := (m + 9) mod 12 in
  let doy := (153 * mp + 2) / 5 + d - 1 in
  let doe := yoe * 365 + yoe / 4 - yoe / 100 + doy in
  era * 146097 + doe - 719468.

(** Gregorian leap rule, stated independently with floor-modulo. *)
Definition is_leap (y : Z) : bool :=
  ((y mod 4 =? 0) && negb (y mod 100 =? 0)) || (y mod 400 =? 0).

Definition month_length (m y : Z) : Z :=
  if m =? 2 then (if is_leap y then 29 else 28)
  else if (m =? 4) || (m =? 6) || (m =? 9) || (m =? 11) then 30 else 31.

Definition valid_date (s : date) : Prop :=
  1 <= dm s <= 12 /\ 1 <= dd s <= month_length (dm s) (dy s).

Definition dfc (s : date) : Z := days_from_civil (dd s) (dm s) (dy s).

Lemma rem_zero_iff a b : b > 0 -> (Z.rem a b =? 0) = (a mod b =? 0).
Proof.
  intros Hb. destruct (Z.eqb_spec (Z.rem a b) 0) as [E|E], (Z.eqb_spec (a mod b) 0) as [F|F]; auto; exfalso.
  - apply Z.rem_divide in E; [|lia]. apply F. apply Z.mod_divide; [lia|exact E].
  - apply Z.mod_divide in F; [|lia]. apply E. apply Z.rem_divide; [lia|exact F].
Qed.

Lemma leap_year_is_leap y : leap_year y = is_leap y.
Proof.
  unfold leap_year, is_leap. rewrite !rem_zero_iff by lia.
  destruct (Z.eqb_spec (y mod 4) 0) as [E4|E4], (Z.eqb_spec (y mod 100) 0) as [E100|E100],
           (Z.eqb_spec (y mod 400) 0) as [E400|E400]; cbn; auto; exfalso;
  repeat match goal with H : _ mod _ = 0 |- _ => apply Z.mod_divide in H; [destruct H as [? H]|lia]
                      | H : _ mod _ <> 0 |- _ => rewrite Z.mod_divide in H by lia; apply H end.
  all: try (exists (25 * x); lia); try (exists (100 * x); lia); try (exists (4 * x); lia).
  all: try (match goal with |- (4 | _) => subst; exists (25 * x); lia end).
Qed.

Lemma days_in_month_spec m y : 1 <= m <= 12 -> days_in_month m y = Some (month_length m y).
Proof.
  intros Hm. unfold days_in_month, month_length. rewrite leap_year_is_leap.
  assert (C : m = 1 \/ m = 2 \/ m = 3 \/ m = 4 \/ m = 5 \/ m = 6 \/ m = 7 \/ m = 8 \/ m = 9 \/ m = 10 \/ m = 11 \/ m = 12) by lia.
  destruct C as [->|[->|[->|[->|[->|[->|[->|[->|[->|[->|[->| ->]]]]]]]]]]]; cbn; try reflexivity.
  destruct (is_leap y); reflexivity.
Qed.

Ltac zdm := Z.div_mod_to_equations; lia.

Lemma is_leap_cases y :
  (is_leap y = true /\ ((y mod 4 = 0 /\ y mod 100 <> 0) \/ y mod 400 = 0)) \/
  (is_leap y = false /\ (y mod 4 <> 0 \/ (y mod 100 = 0 /\ y mod 400 <> 0))).
Proof.
  unfold is_leap.
  destruct (Z.eqb_spec (y mod 4) 0), (Z.eqb_spec (y mod 100) 0), (Z.eqb_spec (y mod 400) 0); cbn; intuition lia.
Qed.

(** days before month m in a non-leap year *)
Definition cum_days (m : Z) : Z :=
  nth (Z.to_nat (m - 1)) [0;31;59;90;120;151;181;212;243;273;304;334] 0.

Definition dim_b (b : bool) (m : Z) : option Z :=
  if (m =? 2) && b then Some 29
  else if (1 <=? m) && (m <=? 12) then nth_error DAYS_IN_MONTH (Z.to_nat (m - 1))
  else None.
Fixpoint doy_loop_b (b : bool) (fuel : nat) (mi m acc : Z) : option Z :=
  match fuel with
  | O => Some acc
  | S f => if mi <? m then
             match dim_b b mi with
             | Some k => doy_loop_b b f (mi + 1) m (acc + k)
             | None => None
             end
           else Some acc
  end.
Lemma doy_loop_b_eq y fuel : forall mi m acc,
  doy_loop fuel mi m y acc = doy_loop_b (leap_year y) fuel mi m acc.
Proof.
  induction fuel as [|f IH]; intros mi m acc; [reflexivity|].
  cbn [doy_loop doy_loop_b]. destruct (mi <? m); [|reflexivity].
  change (days_in_month mi y) with (dim_b (leap_year y) mi).
  destruct (dim_b (leap_year y) mi); [apply IH|reflexivity].
Qed.

Lemma doy_loop_concrete m y : 1 <= m <= 12 ->
  doy_loop (Z.to_nat (m - 1)) 1 m y 0 =
  Some (cum_days m + if (2 <? m) && is_leap y then 1 else 0).
Proof.
  intros Hm. rewrite <- leap_year_is_leap, doy_loop_b_eq.
  assert (C : m = 1 \/ m = 2 \/ m = 3 \/ m = 4 \/ m = 5 \/ m = 6 \/ m = 7 \/ m = 8 \/ m = 9 \/ m = 10 \/ m = 11 \/ m = 12) by lia.
  destruct (leap_year y);
  destruct C as [->|[->|[->|[->|[->|[->|[->|[->|[->|[->|[->| ->]]]]]]]]]]]; vm_compute; reflexivity.
Qed.

(** day of year against the closed form *)
Lemma day_of_year_spec d m y :
  1 <= m <= 12 ->
  day_of_year d m y = Some (days_from_civil d m y - days_from_civil 1 1 y + 1).
Proof.
  intros Hm. unfold day_of_year. rewrite doy_loop_concrete by exact Hm. f_equal.
  assert (C : m = 1 \/ m = 2 \/ m = 3 \/ m = 4 \/ m = 5 \/ m = 6 \/ m = 7 \/ m = 8 \/ m = 9 \/ m = 10 \/ m = 11 \/ m = 12) by lia.
  destruct (is_leap_cases y) as [[-> L]|[-> L]];
  destruct C as [->|[->|[->|[->|[->|[->|[->|[->|[->|[->|[->| ->]]]]]]]]]]];
    unfold days_from_civil, cum_days;
    repeat match goal with |- context[Z.to_nat ?e] =>
      let n := eval vm_compute in (Z.to_nat e) in change (Z.to_nat e) with n end;
    cbn -[Z.add Z.mul Z.sub Z.div Z.modulo];
    change ((1 + 9) mod 12) with 10; change ((2 + 9) mod 12) with 11;
    change ((3 + 9) mod 12) with 0; change ((4 + 9) mod 12) with 1;
    change ((5 + 9) mod 12) with 2; change ((6 + 9) mod 12) with 3;
    change ((7 + 9) mod 12) with 4; change ((8 + 9) mod 12) with 5;
    change ((9 + 9) mod 12) with 6; change ((10 + 9) mod 12) with 7;
    change ((11 + 9) mod 12) with 8; change ((12 + 9) mod 12) with 9;
    zdm.
Qed.

Lemma month_length_bounds m y : 28 <= month_length m y <= 31.
Proof.
  unfold month_length. destruct (m =? 2); [destruct (is_leap y); lia|].
  destruct ((m =? 4) || (m =? 6) || (m =? 9) || (m =? 11)); lia.
Qed.

Ltac month_cases m :=
  let C := fresh "C" in
  assert (C : m = 1 \/ m = 2 \/ m = 3 \/ m = 4 \/ m = 5 \/ m = 6 \/ m = 7 \/ m = 8 \/ m = 9 \/ m = 10 \/ m = 11 \/ m = 12) by lia;
  destruct C as [->|[->|[->|[->|[->|[->|[->|[->|[->|[->|[->| ->]]]]]]]]]]].

Ltac norm_mp :=
  change ((1 + 9) mod 12) with 10; change ((2 + 9) mod 12) with 11;
  change ((3 + 9) mod 12) with 0; change ((4 + 9) mod 12) with 1;
  change ((5 + 9) mod 12) with 2; change ((6 + 9) mod 12) with 3;
  change ((7 + 9) mod 12) with 4; change ((8 + 9) mod 12) with 5;
  change ((9 + 9) mod 12) with 6; change ((10 + 9) mod 12) with 7;
  change ((11 + 9) mod 12) with 8; change ((12 + 9) mod 12) with 9.

(** One iteration emits the current date and moves to the calendar successor. *)
Lemma date_step_spec s :
  valid_date s ->
  exists s', date_step s =
     Some (s', (dd s, dm s, dy s, dfc s - days_from_civil 1 1 (dy s) + 1))
     /\ valid_date s' /\ dfc s' = dfc s + 1.
Proof.
  destruct s as [d m y]; unfold valid_date, dfc; cbn [dd dm dy]; intros [Hm Hd].
  unfold date_step; cbn [dd dm dy].
  rewrite day_of_year_spec, days_in_month_spec by exact Hm.
  destruct (Z.gtb_spec (d + 1) (month_length m y)) as [G|G].
  - (* last day of the month *)
    assert (d = month_length m y) by lia. subst d.
    destruct (Z.gtb_spec (m + 1) 12) as [G2|G2].
    + assert (m = 12) by lia. subst m.
      eexists; split; [reflexivity|]. cbn [dd dm dy]. split.
      * split; [lia|]. unfold month_length; cbn. lia.
      * unfold month_length, days_from_civil; cbn -[Z.add Z.mul Z.sub Z.div Z.modulo]; norm_mp.
        replace (y + 1 - 1) with y by lia. zdm.
    + eexists; split; [reflexivity|]. cbn [dd dm dy]. split.
      * split; [lia|]. pose proof (month_length_bounds (m + 1) y). lia.
      * assert (Hm' : 1 <= m <= 11) by lia. clear Hm G G2 Hd.
        destruct (is_leap_cases y) as [[L LL]|[L LL]];
        month_cases m;
        repeat match goal with |- context[(Zpos ?a + 1)] =>
          let n := eval vm_compute in (Zpos a + 1) in change (Zpos a + 1) with n end;
        unfold month_length, days_from_civil; rewrite ?L;
        cbn -[Z.add Z.mul Z.sub Z.div Z.modulo]; norm_mp;
        cbn -[Z.add Z.mul Z.sub Z.div Z.modulo]; zdm.
  - destruct (Z.gtb_spec m 12) as [G2|G2]; [lia|].
    eexists; split; [reflexivity|]. cbn [dd dm dy]. split.
    + split; lia.
    + unfold days_from_civil. lia.
Qed.

Theorem date_generator_correct n : forall s,
  valid_date s ->
  exists os, date_generator n s = Some os /\ length os = n /\
    forall i, (i < n)%nat ->
      exists d m y, nth_error os i = Some (d, m, y, days_from_civil d m y - days_from_civil 1 1 y + 1)
        /\ valid_date {| dd := d; dm := m; dy := y |}
        /\ days_from_civil d m y = dfc s + Z.of_nat i.
Proof.
  induction n as [|n IH]; intros s Hs.
  - exists []. repeat split; intros; lia.
  - destruct (date_step_spec s Hs) as (s' & E & Hs' & D).
    destruct (IH s' Hs') as (os & Eo & Lo & Ho).
    cbn [date_generator]. rewrite E, Eo. eexists; split; [reflexivity|]. split; [cbn; lia|].
    intros [|i] Hi.
    + exists (dd s), (dm s), (dy s). cbn. split; [reflexivity|]. split; [destruct s; exact Hs|unfold dfc; lia].
    + destruct (Ho i ltac:(lia)) as (d & m & y & A & B & C).
      exists d, m, y. cbn [nth_error]. split; [exact A|]. split; [exact B|]. rewrite C, D. lia.
Qed.

(** The day number is strictly monotone in the lexicographic order of valid
    dates, hence injective: "the date with day number k" is unique. *)
Definition year_start (y : Z) : Z := days_from_civil 1 1 y.

Lemma year_start_step y : 365 <= year_start (y + 1) - year_start y <= 366.
Proof.
  unfold year_start, days_from_civil; cbn -[Z.add Z.mul Z.sub Z.div Z.modulo]; norm_mp.
  replace (y + 1 - 1) with y by lia. zdm.
Qed.

Lemma year_start_mono y1 y2 : y1 < y2 -> year_start y1 + 365 * (y2 - y1) <= year_start y2.
Proof.
  intros H. replace y2 with (y1 + Z.of_nat (Z.to_nat (y2 - y1))) by lia.
  generalize (Z.to_nat (y2 - y1)) as k. clear. induction k as [|k IH].
  - rewrite Z.add_0_r. lia.
  - pose proof (year_start_step (y1 + Z.of_nat k)).
    replace (y1 + Z.of_nat (S k)) with (y1 + Z.of_nat k + 1) by lia. lia.
Qed.

Lemma doy_range s : valid_date s ->
  0 <= dfc s - year_start (dy s) < year_start (dy s + 1) - year_start (dy s).
Proof.
  destruct s as [d m y]; unfold valid_date, dfc, year_start; cbn [dd dm dy]; intros [Hm Hd].
  destruct (is_leap_cases y) as [[L LL]|[L LL]];
  month_cases m; unfold month_length in Hd; rewrite ?L in Hd; cbn in Hd;
  unfold days_from_civil; cbn -[Z.add Z.mul Z.sub Z.div Z.modulo]; norm_mp;
  replace (y + 1 - 1) with y by lia; zdm.
Qed.

Lemma dfc_month_mono d1 m1 d2 m2 y :
  valid_date {| dd := d1; dm := m1; dy := y |} -> valid_date {| dd := d2; dm := m2; dy := y |} ->
  m1 < m2 -> days_from_civil d1 m1 y < days_from_civil d2 m2 y.
Proof.
  unfold valid_date; cbn [dd dm dy]; intros [Hm1 Hd1] [Hm2 Hd2] Hlt.
  destruct (is_leap_cases y) as [[L LL]|[L LL]];
  month_cases m1; month_cases m2; try lia;
  unfold month_length in Hd1, Hd2; rewrite ?L in Hd1, Hd2; cbn in Hd1, Hd2;
  unfold days_from_civil; cbn -[Z.add Z.mul Z.sub Z.div Z.modulo]; norm_mp; zdm.
Qed.

Theorem days_from_civil_injective s1 s2 :
  valid_date s1 -> valid_date s2 -> dfc s1 = dfc s2 -> s1 = s2.
Proof.
  intros V1 V2 E.
  assert (Y : dy s1 = dy s2).
  { pose proof (doy_range s1 V1). pose proof (doy_range s2 V2).
    destruct (Z.lt_trichotomy (dy s1) (dy s2)) as [L|[L|L]]; [|exact L|]; exfalso.
    - pose proof (year_start_mono (dy s1 + 1) (dy s2)).
      destruct (Z.eq_dec (dy s1 + 1) (dy s2)) as [e|e]; [rewrite e in *; lia|lia].
    - pose proof (year_start_mono (dy s2 + 1) (dy s1)).
      destruct (Z.eq_dec (dy s2 + 1) (dy s1)) as [e|e]; [rewrite e in *; lia|lia]. }
  destruct s1 as [d1 m1 y1], s2 as [d2 m2 y2]; cbn [dd dm dy] in *. subst y2.
  assert (M : m1 = m2).
  { destruct (Z.lt_trichotomy m1 m2) as [L|[L|L]]; [|exact L|]; exfalso.
    - pose proof (dfc_month_mono _ _ _ _ _ V1 V2 L). unfold dfc in E; cbn in E. lia.
    - pose proof (dfc_month_mono _ _ _ _ _ V2 V1 L). unfold dfc in E; cbn in E. lia. }
  subst m2. unfold dfc, days_from_civil in E; cbn [dd dm dy] in E.
  f_equal. lia.
Qed.

(** Non-vacuity and a sanity anchor for the closed form: 1970-01-01 is day 0,
    2000-02-29 is valid, and 2000-03-01 is day 11017. *)
Example dfc_epoch : days_from_civil 1 1 1970 = 0 /\ days_from_civil 1 3 2000 = 11017
  /\ valid_date {| dd := 29; dm := 2; dy := 2000 |} /\ ~ valid_date {| dd := 29; dm := 2; dy := 1900 |}.
Proof. repeat split; try (vm_compute; congruence); unfold valid_date; cbn; lia. Qed.
