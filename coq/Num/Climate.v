(** Model of models/climate/climate_variables.go (C20), written once over an
    [Arith] (definitions only; proofs are in Num/ClimateProofs.v).

    Conventions: every Go decimal literal is ONE [of_q] (rounded once, as Go's
    untyped constants are); [math.Pow(10,x)] is [apow (of_Z 10) x];
    [math.NaN()] is [zero / zero] in the executed (float) instance, and is
    kept visible to the theorems as the [None] result of [calc_dew_point_opt]. *)
From Coq Require Import ZArith List Bool.
From OW Require Import Base.Arith.
Import ListNotations.

Section K.
  Context {T : Type} {A : Arith T}.
  Local Open Scope ar_scope.

  Definition ten : T := of_Z 10.
  (** math.NaN() (0/0 is NaN on binary64; the theorems never reach it) *)
  Definition a_nan : T := zero / zero.

  (** Goff-Gratch exponent, branch [temperature > 0] (over water) *)
  Definition gg_exponent_above (temperature : T) : T :=
    let a1 := of_q (-790298) 100000 in
    let a2 := of_q 502808 100000 in
    let a3 := of_q (-13816) 100000000000 in
    let a4 := of_q 11344 1000 in
    let a5 := of_q 81328 10000000 in
    let a6 := of_q (-349149) 100000 in
    let ta := temperature + of_q 27316 100 in
    let z := of_q 37316 100 / ta in
    let p1 := (z - one) * a1 in
    let p2 := alog10 z * a2 in
    let p3 := (apow ten ((one - (one / z)) * a4) - one) * a3 in
    let p4 := (apow ten (a6 * (z - one)) - one) * a5 in
    ((p1 + p2) + p3) + p4.

  (** Goff-Gratch exponent, else branch (over ice) *)
  Definition gg_exponent_below (temperature : T) : T :=
    let b1 := of_q (-909718) 100000 in
    let b2 := of_q (-356654) 100000 in
    let b3 := of_q 876793 1000000 in
    let b4 := of_q 60273 10000000 in
    let ta := temperature + of_q 27316 100 in
    let z := of_q 27316 100 / ta in
    let p1 := b1 * (z - one) in
    let p2 := b2 * alog10 z in
    let p3 := b3 * (one - (one / z)) in
    let p4 := alog10 b4 in
    ((p1 + p2) + p3) + p4.

  (** func calcVaporPressure(temperature float64) float64 *)
  Definition calc_vapor_pressure (temperature : T) : T :=
    let p := if temperature >? zero then gg_exponent_above temperature
             else gg_exponent_below temperature in
    of_q 101325 1000 * apow ten p.

  (** func calcDewPoint(temperature, humidity float64) float64 ;
      [None] = the final [return math.NaN()] *)
  Definition calc_dew_point_opt (temperature humidity : T) : option T :=
    let humidity := if humidity <=? zero then of_q 1 10000 else humidity in
    let ea := (calc_vapor_pressure temperature * humidity) / of_Z 100 in
    if ea >? zero then
      let func := aln (ea / of_q 6108 10000) in
      Some ((of_q 2373 10 * func) / (of_q 1727 100 - func))
    else None.

  Definition calc_dew_point (temperature humidity : T) : T :=
    match calc_dew_point_opt temperature humidity with
    | Some d => d
    | None => a_nan
    end.

  (** func barometricPressure(elevation float64) float64 *)
  Definition barometric_pressure (elevation : T) : T :=
    of_q 1013 10 * apow ((of_Z 293 - of_q 65 10000 * elevation) / of_Z 293) (of_q 526 100).

  (** func calcHumidityRatio(vaporPressure, atmPressure float64) float64 *)
  Definition calc_humidity_ratio (vaporPressure atmPressure : T) : T :=
    (of_q 62198 100000 * vaporPressure) / (atmPressure - vaporPressure).

  (** func calcHumidityRatioActual(tDryBulb, humidityPC, atmPressure float64) float64 *)
  Definition calc_humidity_ratio_actual (tDryBulb humidityPC atmPressure : T) : T :=
    let vp_sat := calc_vapor_pressure tDryBulb in
    let result := calc_humidity_ratio vp_sat atmPressure in
    (result * humidityPC) / of_Z 100.

  (** func calcEnthalpy(tDryBulb, humidityRatio float64) float64 *)
  Definition calc_enthalpy (tDryBulb humidityRatio : T) : T :=
    of_q 1006 1000 * tDryBulb + (of_q 184 100 * tDryBulb + of_Z 2501) * humidityRatio.

  (** the enthalpy evaluated by the bisection at a trial temperature *)
  Definition saturation_enthalpy (pAtmosphere xmid : T) : T :=
    let psat := calc_vapor_pressure xmid in
    let wstar := calc_humidity_ratio psat pAtmosphere in
    calc_enthalpy xmid wstar.

  (** the [for i := 0; i < 40; i++] loop of calcWetBulb, generic in the
      function [enth] that gives [fmid] from [xmid]; [fuel] = remaining
      iterations.  One Go [if] = one Gallina [if]; the [break] is the second. *)
  Fixpoint wet_bulb_loop (enth : T -> T) (hEnthalpy : T) (fuel : nat) (rtb dx : T) : T :=
    match fuel with
    | O => rtb
    | S fuel' =>
        let dx := dx * of_q 1 2 in
        let xmid := rtb + dx in
        let fmid := enth xmid in
        let rtb := if (hEnthalpy - fmid) >? zero then xmid else rtb in
        if aabs dx <? of_q 1 10000 then rtb
        else wet_bulb_loop enth hEnthalpy fuel' rtb dx
    end.

  Definition wet_bulb_generic (enth : T -> T) (tDryBulb tDewPoint hEnthalpy : T) : T :=
    wet_bulb_loop enth hEnthalpy 40%nat tDewPoint (tDryBulb - tDewPoint).

  (** func calcWetBulb(tDryBulb, tDewPoint, hEnthalpy, pAtmosphere float64) float64 *)
  Definition calc_wet_bulb (tDryBulb tDewPoint hEnthalpy pAtmosphere : T) : T :=
    wet_bulb_generic (saturation_enthalpy pAtmosphere) tDryBulb tDewPoint hEnthalpy.

  (** body of the time loop of climateVariables: (vaporPressure, dewPoint, wetBulb, deltaT) *)
  Definition climate_step (pa dryBulbTemp relativeHumidity : T) : T * T * T * T :=
    let vp := calc_vapor_pressure dryBulbTemp in
    let tdew := calc_dew_point dryBulbTemp relativeHumidity in
    let e := calc_enthalpy dryBulbTemp
               (calc_humidity_ratio_actual dryBulbTemp relativeHumidity pa) in
    let twetBulbTemp := calc_wet_bulb dryBulbTemp tdew e pa in
    (vp, tdew, twetBulbTemp, dryBulbTemp - twetBulbTemp).

  (** sim.Catalog["ClimateVariables"]: parameters [elevation], no states,
      inputs [dryBulb; humidity], outputs [vaporPressure; dewPoint; wetBulb; deltaT].
      nDays is the length of dryBulb; a shorter humidity series would be an
      index panic in Go ([None]). *)
  Definition climate_variables_kernel (params : list T) (states : list T) (inputs : list (list T))
    : option (list (list T) * list T) :=
    match params, inputs with
    | [elevation], [dryBulb; humidity] =>
        if Nat.leb (length dryBulb) (length humidity) then
          let pa := barometric_pressure elevation in
          let rows := map (fun th => climate_step pa (fst th) (snd th)) (combine dryBulb humidity) in
          Some ([ map (fun o => let '(v,_,_,_) := o in v) rows;
                  map (fun o => let '(_,d,_,_) := o in d) rows;
                  map (fun o => let '(_,_,w,_) := o in w) rows;
                  map (fun o => let '(_,_,_,x) := o in x) rows ], states)
        else None
    | _, _ => None
    end.
End K.
