(** Proofs about Num/Climate.v at the real instance [RArith] (property C20).
    Numerical inequalities are discharged by Coq-Interval ([interval], kernel
    checked); derivatives come from Coquelicot's [auto_derive]. *)
From Coq Require Import Reals Lra Lia ZArith List Bool.
From Coquelicot Require Import Coquelicot.
From Interval Require Import Tactic.
From OW Require Import Base.Arith Base.RInst Num.Climate.
Import ListNotations.
Local Open Scope R_scope.

(* ------------------------------------------------------------------ *)
(** * Helpers about the real instance *)

Lemma Rpow10 x : Rpow 10 x = exp (x * ln 10).
Proof.
  unfold Rpow. destruct (Req_EM_T x 0) as [->|].
  - now rewrite Rmult_0_l, exp_0.
  - destruct (Req_EM_T 10 0); [lra|reflexivity].
Qed.

Lemma Rpow_pos_base x y : 0 < x -> y <> 0 -> Rpow x y = exp (y * ln x).
Proof.
  intros Hx Hy. unfold Rpow.
  destruct (Req_EM_T y 0); [contradiction|].
  destruct (Req_EM_T x 0); [lra|reflexivity].
Qed.

Lemma ln10_pos : 0 < ln 10.
Proof. interval. Qed.

(** a function with a positive derivative on [a,b] is strictly increasing there *)
Lemma strict_incr_from_pos_derive (f : R -> R) (a b : R) :
  (forall t, a <= t <= b -> exists d, is_derive f t d /\ 0 < d) ->
  forall x y, a <= x -> x < y -> y <= b -> f x < f y.
Proof.
  intros H x y Hx Hxy Hy.
  apply (incr_function_le f a b (Derive f)); simpl; auto.
  - intros t Ht1 Ht2. destruct (H t (conj Ht1 Ht2)) as [d [Hd _]].
    apply Derive_correct. exists d; exact Hd.
  - intros t Ht1 Ht2. destruct (H t (conj Ht1 Ht2)) as [d [Hd Hp]].
    rewrite (is_derive_unique _ _ _ Hd). lra.
Qed.

(* ------------------------------------------------------------------ *)
(** * Saturation vapour pressure (Goff-Gratch) *)

(** closed forms of the two exponents (literally what the model unfolds to) *)
Definition pA (t : R) : R :=
  (37316 / 100 / (t + 27316 / 100) - 1) * (-790298 / 100000) +
  ln (37316 / 100 / (t + 27316 / 100)) / ln 10 * (502808 / 100000) +
  (exp ((1 - 1 / (37316 / 100 / (t + 27316 / 100))) * (11344 / 1000) * ln 10) - 1) * (-13816 / 100000000000) +
  (exp (-349149 / 100000 * (37316 / 100 / (t + 27316 / 100) - 1) * ln 10) - 1) * (81328 / 10000000).

Definition pB (t : R) : R :=
  -909718 / 100000 * (27316 / 100 / (t + 27316 / 100) - 1) +
  -356654 / 100000 * (ln (27316 / 100 / (t + 27316 / 100)) / ln 10) +
  876793 / 1000000 * (1 - 1 / (27316 / 100 / (t + 27316 / 100))) +
  ln (60273 / 10000000) / ln 10.

Lemma gg_above_eq (t : R) : gg_exponent_above t = pA t.
Proof. unfold gg_exponent_above, ten. runfold. rewrite !Rpow10. reflexivity. Qed.

Lemma gg_below_eq (t : R) : gg_exponent_below t = pB t.
Proof. unfold gg_exponent_below, ten. runfold. reflexivity. Qed.

Lemma svp_above (t : R) : 0 < t ->
  calc_vapor_pressure t = 101325 / 1000 * exp (pA t * ln 10).
Proof.
  intros H. unfold calc_vapor_pressure, ten. runfold.
  destruct (Rltb 0 t) eqn:E.
  - now rewrite gg_above_eq, Rpow10.
  - apply Rltb_false in E. lra.
Qed.

Lemma svp_below (t : R) : t <= 0 ->
  calc_vapor_pressure t = 101325 / 1000 * exp (pB t * ln 10).
Proof.
  intros H. unfold calc_vapor_pressure, ten. runfold.
  destruct (Rltb 0 t) eqn:E.
  - apply Rltb_true in E. lra.
  - now rewrite gg_below_eq, Rpow10.
Qed.

(** svp is positive wherever the formula is meaningful (absolute temperature
    positive); in fact 101.325 * 10^p is positive for every real exponent. *)
Theorem svp_positive (t : R) : -27316 / 100 < t -> 0 < calc_vapor_pressure t.
Proof.
  intros _. destruct (Rlt_dec 0 t).
  - rewrite svp_above by assumption. apply Rmult_lt_0_compat; [lra | apply exp_pos].
  - rewrite svp_below by lra. apply Rmult_lt_0_compat; [lra | apply exp_pos].
Qed.

Lemma pA_derive_pos t : -238 <= t <= 56 -> exists d, is_derive pA t d /\ 0 < d.
Proof.
  intros H. eexists. split.
  - unfold pA. auto_derive. 2: reflexivity.
    repeat split; try interval.
  - interval with (i_bisect t, i_prec 40).
Qed.

Lemma pB_derive_pos t : -238 <= t <= 1 -> exists d, is_derive pB t d /\ 0 < d.
Proof.
  intros H. eexists. split.
  - unfold pB. auto_derive. 2: reflexivity.
    repeat split; try interval.
  - interval with (i_bisect t, i_prec 40).
Qed.

Lemma pA_incr x y : -238 <= x -> x < y -> y <= 56 -> pA x < pA y.
Proof. apply strict_incr_from_pos_derive. exact pA_derive_pos. Qed.

Lemma pB_incr x y : -238 <= x -> x < y -> y <= 1 -> pB x < pB y.
Proof. apply strict_incr_from_pos_derive. exact pB_derive_pos. Qed.

(** at 0 C the code switches from the ice to the water formula: the jump is upward *)
Lemma svp_exponent_jump : pB 0 < pA 0.
Proof. apply Rminus_lt_0. unfold pA, pB. interval with (i_prec 60). Qed.

Lemma svp_of_exponent_lt p q :
  p < q -> 101325 / 1000 * exp (p * ln 10) < 101325 / 1000 * exp (q * ln 10).
Proof.
  intros H. apply Rmult_lt_compat_l; [lra|]. apply exp_increasing.
  apply Rmult_lt_compat_r; [exact ln10_pos | exact H].
Qed.

Theorem svp_increasing_below x y :
  -238 <= x -> x < y -> y <= 0 -> calc_vapor_pressure x < calc_vapor_pressure y.
Proof.
  intros Hx Hxy Hy. rewrite !svp_below by lra.
  apply svp_of_exponent_lt, pB_incr; lra.
Qed.

Theorem svp_increasing_above x y :
  0 < x -> x < y -> y <= 56 -> calc_vapor_pressure x < calc_vapor_pressure y.
Proof.
  intros Hx Hxy Hy. rewrite !svp_above by lra.
  apply svp_of_exponent_lt, pA_incr; lra.
Qed.

(** svp(0) (ice branch) is below the value the water branch takes at, and hence right of, 0 *)
Theorem svp_jump_at_zero_upward y :
  0 < y -> y <= 56 -> calc_vapor_pressure 0 < calc_vapor_pressure y.
Proof.
  intros H0 Hy. rewrite svp_below by lra. rewrite svp_above by lra.
  apply svp_of_exponent_lt.
  apply Rlt_trans with (pA 0); [exact svp_exponent_jump | apply pA_incr; lra].
Qed.

Theorem svp_strictly_increasing_wide x y :
  -238 <= x -> x < y -> y <= 56 -> calc_vapor_pressure x < calc_vapor_pressure y.
Proof.
  intros Hx Hxy Hy.
  destruct (Rlt_dec 0 x) as [Hx0|Hx0].
  - apply svp_increasing_above; lra.
  - destruct (Rlt_dec 0 y) as [Hy0|Hy0].
    + destruct (Req_dec x 0) as [->|Hne].
      * apply svp_jump_at_zero_upward; lra.
      * apply Rlt_trans with (calc_vapor_pressure 0).
        -- apply svp_increasing_below; lra.
        -- apply svp_jump_at_zero_upward; lra.
    + apply svp_increasing_below; lra.
Qed.

Theorem svp_strictly_increasing x y :
  -40 <= x -> x < y -> y <= 55 -> calc_vapor_pressure x < calc_vapor_pressure y.
Proof. intros. apply svp_strictly_increasing_wide; lra. Qed.

Lemma svp_at_56 : calc_vapor_pressure 56 < 17.
Proof. rewrite svp_above by lra. unfold pA. interval with (i_prec 40). Qed.

Lemma svp_lt_17 t : -238 <= t <= 56 -> calc_vapor_pressure t < 17.
Proof.
  intros H. destruct (Req_dec t 56) as [->|Hne]; [exact svp_at_56|].
  apply Rlt_trans with (calc_vapor_pressure 56); [|exact svp_at_56].
  apply svp_strictly_increasing_wide; lra.
Qed.

(* ------------------------------------------------------------------ *)
(** * The wet-bulb bisection, for ANY enthalpy function *)

Lemma wet_bulb_loop_S (enth : R -> R) h n rtb dx :
  wet_bulb_loop enth h (S n) rtb dx =
    if Rltb (Rabs (dx * (1 / 2))) (1 / 10000)
    then (if Rltb 0 (h - enth (rtb + dx * (1 / 2))) then rtb + dx * (1 / 2) else rtb)
    else wet_bulb_loop enth h n
           (if Rltb 0 (h - enth (rtb + dx * (1 / 2))) then rtb + dx * (1 / 2) else rtb)
           (dx * (1 / 2)).
Proof. reflexivity. Qed.

(** loop invariant: [rtb] and [rtb + dx] both stay inside [lo, hi] *)
Lemma wet_bulb_loop_between (enth : R -> R) h n : forall rtb dx lo hi,
  lo <= rtb <= hi -> lo <= rtb + dx <= hi ->
  lo <= wet_bulb_loop enth h n rtb dx <= hi.
Proof.
  induction n as [|n IH]; intros rtb dx lo hi H1 H2.
  - exact H1.
  - rewrite wet_bulb_loop_S.
    assert (Hm : lo <= rtb + dx * (1 / 2) <= hi) by lra.
    destruct (Rltb 0 (h - enth (rtb + dx * (1 / 2))));
      destruct (Rltb (Rabs (dx * (1 / 2))) (1 / 10000)); try assumption.
    + apply IH; [assumption | lra].
    + apply IH; assumption.
Qed.

(** the loop only ever evaluates the enthalpy function inside [lo, hi] *)
Lemma wet_bulb_loop_ext (f g : R -> R) h n : forall rtb dx lo hi,
  (forall x, lo <= x <= hi -> f x = g x) ->
  lo <= rtb <= hi -> lo <= rtb + dx <= hi ->
  wet_bulb_loop f h n rtb dx = wet_bulb_loop g h n rtb dx.
Proof.
  induction n as [|n IH]; intros rtb dx lo hi Hfg H1 H2.
  - reflexivity.
  - rewrite !wet_bulb_loop_S.
    assert (Hm : lo <= rtb + dx * (1 / 2) <= hi) by lra.
    rewrite (Hfg _ Hm).
    destruct (Rltb 0 (h - g (rtb + dx * (1 / 2))));
      destruct (Rltb (Rabs (dx * (1 / 2))) (1 / 10000)); try reflexivity.
    + apply (IH _ _ lo hi); [assumption | assumption | lra].
    + apply (IH _ _ lo hi); assumption.
Qed.

Theorem wet_bulb_between_generic (enth : R -> R) (dry dew h : R) :
  Rmin dew dry <= wet_bulb_generic enth dry dew h <= Rmax dew dry.
Proof.
  unfold wet_bulb_generic. apply wet_bulb_loop_between.
  - split; [apply Rmin_l | apply Rmax_l].
  - runfold. replace (dew + (dry - dew)) with dry by ring.
    split; [apply Rmin_r | apply Rmax_r].
Qed.

Theorem wet_bulb_between_ordered (enth : R -> R) (dry dew h : R) :
  dew <= dry -> dew <= wet_bulb_generic enth dry dew h <= dry.
Proof.
  intros H. pose proof (wet_bulb_between_generic enth dry dew h) as B.
  rewrite Rmin_left, Rmax_right in B; assumption.
Qed.

Theorem wet_bulb_generic_ext (f g : R -> R) (dry dew h : R) :
  (forall x, Rmin dew dry <= x <= Rmax dew dry -> f x = g x) ->
  wet_bulb_generic f dry dew h = wet_bulb_generic g dry dew h.
Proof.
  intros Hfg. unfold wet_bulb_generic.
  apply (wet_bulb_loop_ext f g h _ _ _ (Rmin dew dry) (Rmax dew dry) Hfg).
  - split; [apply Rmin_l | apply Rmax_l].
  - runfold. replace (dew + (dry - dew)) with dry by ring.
    split; [apply Rmin_r | apply Rmax_r].
Qed.

(** the model's calcWetBulb is the generic bisection at the saturation enthalpy *)
Theorem wet_bulb_between (dry dew h pa : R) :
  Rmin dew dry <= calc_wet_bulb dry dew h pa <= Rmax dew dry
  /\ (dew <= dry -> dew <= calc_wet_bulb dry dew h pa <= dry).
Proof.
  unfold calc_wet_bulb. split.
  - apply wet_bulb_between_generic.
  - apply wet_bulb_between_ordered.
Qed.

(* ------------------------------------------------------------------ *)
(** * Dew point (Goff-Gratch vapour pressure inverted through Magnus) *)

Definition dew_f (t h : R) : R := ln (calc_vapor_pressure t * h / 100 / (6108 / 10000)).
Definition magnus_inv (f : R) : R := 2373 / 10 * f / (1727 / 100 - f).
Definition dew_val (t h : R) : R := magnus_inv (dew_f t h).

Lemma dew_opt_eq (t h : R) : -27316 / 100 < t -> 0 < h ->
  calc_dew_point_opt t h = Some (dew_val t h).
Proof.
  intros Ht Hh. pose proof (svp_positive t Ht) as Hs.
  unfold calc_dew_point_opt. runfold.
  destruct (Rleb h 0) eqn:E1; [apply Rleb_true in E1; lra|].
  destruct (Rltb 0 (calc_vapor_pressure t * h / 100)) eqn:E2.
  - reflexivity.
  - apply Rltb_false in E2.
    assert (0 < calc_vapor_pressure t * h / 100).
    { apply Rdiv_lt_0_compat; [apply Rmult_lt_0_compat; assumption | lra]. }
    lra.
Qed.

Lemma dew_point_eq (t h : R) : -27316 / 100 < t -> 0 < h ->
  calc_dew_point t h = dew_val t h.
Proof. intros Ht Hh. unfold calc_dew_point. now rewrite dew_opt_eq. Qed.

Lemma dew_arg_pos t h : -27316 / 100 < t -> 0 < h ->
  0 < calc_vapor_pressure t * h / 100 / (6108 / 10000).
Proof.
  intros Ht Hh. pose proof (svp_positive t Ht).
  apply Rdiv_lt_0_compat; [|lra].
  apply Rdiv_lt_0_compat; [apply Rmult_lt_0_compat; assumption | lra].
Qed.

Lemma dew_f_incr_h t h1 h2 : -27316 / 100 < t -> 0 < h1 -> h1 < h2 ->
  dew_f t h1 < dew_f t h2.
Proof.
  intros Ht H1 H12. pose proof (svp_positive t Ht) as Hs. unfold dew_f.
  apply ln_increasing; [apply dew_arg_pos; lra|].
  apply Rmult_lt_compat_r; [lra|]. apply Rmult_lt_compat_r; [lra|].
  apply Rmult_lt_compat_l; assumption.
Qed.

Lemma dew_f_le_h t h1 h2 : -27316 / 100 < t -> 0 < h1 -> h1 <= h2 ->
  dew_f t h1 <= dew_f t h2.
Proof.
  intros Ht H1 [H12| ->]; [left; apply dew_f_incr_h; assumption | right; reflexivity].
Qed.

Lemma dew_f_lt_denominator t h : -238 <= t <= 56 -> 0 < h <= 100 ->
  dew_f t h < 1727 / 100.
Proof.
  intros Ht Hh.
  assert (Ht' : -27316 / 100 < t) by lra.
  pose proof (svp_positive t Ht') as Hs. pose proof (svp_lt_17 t Ht) as Hu.
  unfold dew_f.
  apply Rlt_trans with (ln 28); [|interval].
  apply ln_increasing; [apply dew_arg_pos; lra|].
  assert (Hc1 : 6108 / 10000 > 0) by lra. assert (Hc2 : 100 > 0) by lra.
  apply (proj2 (Rlt_div_l _ _ _ Hc1)).
  apply (proj2 (Rlt_div_l _ _ _ Hc2)).
  apply Rle_lt_trans with (calc_vapor_pressure t * 100); [|lra].
  apply Rmult_le_compat_l; lra.
Qed.

Lemma magnus_inv_incr f1 f2 : f1 < f2 -> f2 < 1727 / 100 -> magnus_inv f1 < magnus_inv f2.
Proof.
  intros H12 H2. unfold magnus_inv. apply Rminus_lt_0.
  replace (2373 / 10 * f2 / (1727 / 100 - f2) - 2373 / 10 * f1 / (1727 / 100 - f1))
    with (2373 / 10 * (1727 / 100) * (f2 - f1) / ((1727 / 100 - f1) * (1727 / 100 - f2)))
    by (field; lra).
  apply Rdiv_lt_0_compat.
  - apply Rmult_lt_0_compat; lra.
  - apply Rmult_lt_0_compat; lra.
Qed.

Lemma magnus_inv_gt f : f < 1727 / 100 -> -2373 / 10 < magnus_inv f.
Proof.
  intros H. unfold magnus_inv.
  assert (Hc : 1727 / 100 - f > 0) by lra.
  apply (proj1 (Rlt_div_r _ _ _ Hc)). lra.
Qed.

(** [magnus_inv f <= x] as soon as [f] is below the Magnus exponent at [x] *)
Lemma magnus_inv_le f x : f < 1727 / 100 -> 0 < 2373 / 10 + x ->
  f <= 1727 / 100 * x / (2373 / 10 + x) -> magnus_inv f <= x.
Proof.
  intros Hf Hx H. unfold magnus_inv.
  assert (Hc1 : 1727 / 100 - f > 0) by lra. assert (Hc2 : 2373 / 10 + x > 0) by lra.
  apply (proj2 (Rle_div_l _ _ _ Hc1)).
  apply (proj2 (Rle_div_r _ _ _ Hc2)) in H. nra.
Qed.

Lemma magnus_inv_gt_x f x : f < 1727 / 100 -> 0 < 2373 / 10 + x ->
  1727 / 100 * x / (2373 / 10 + x) < f -> x < magnus_inv f.
Proof.
  intros Hf Hx H. unfold magnus_inv.
  assert (Hc1 : 1727 / 100 - f > 0) by lra. assert (Hc2 : 2373 / 10 + x > 0) by lra.
  apply (proj1 (Rlt_div_r _ _ _ Hc1)).
  apply (proj1 (Rlt_div_l _ _ _ Hc2)) in H. nra.
Qed.

Theorem dew_increasing_in_humidity t h1 h2 :
  -40 <= t <= 55 -> 0 < h1 -> h1 < h2 -> h2 <= 100 ->
  exists d1 d2, calc_dew_point_opt t h1 = Some d1 /\ calc_dew_point_opt t h2 = Some d2 /\ d1 < d2.
Proof.
  intros Ht H1 H12 H2. exists (dew_val t h1), (dew_val t h2).
  rewrite !dew_opt_eq by lra. repeat split; try reflexivity.
  apply magnus_inv_incr.
  - apply dew_f_incr_h; lra.
  - apply dew_f_lt_denominator; lra.
Qed.

(** closed forms of the Magnus argument on the two branches *)
Lemma dew_f_above t h : 0 < t -> 0 < h ->
  dew_f t h = ln (101325 / 1000 * h / 100 / (6108 / 10000)) + pA t * ln 10.
Proof.
  intros Ht Hh. unfold dew_f. rewrite svp_above by assumption.
  replace (101325 / 1000 * exp (pA t * ln 10) * h / 100 / (6108 / 10000))
    with (101325 / 1000 * h / 100 / (6108 / 10000) * exp (pA t * ln 10)) by (field; lra).
  rewrite ln_mult; [now rewrite ln_exp | | apply exp_pos].
  apply Rdiv_lt_0_compat; [|lra]. apply Rdiv_lt_0_compat; lra.
Qed.

Lemma dew_f_below t h : t <= 0 -> 0 < h ->
  dew_f t h = ln (101325 / 1000 * h / 100 / (6108 / 10000)) + pB t * ln 10.
Proof.
  intros Ht Hh. unfold dew_f. rewrite svp_below by assumption.
  replace (101325 / 1000 * exp (pB t * ln 10) * h / 100 / (6108 / 10000))
    with (101325 / 1000 * h / 100 / (6108 / 10000) * exp (pB t * ln 10)) by (field; lra).
  rewrite ln_mult; [now rewrite ln_exp | | apply exp_pos].
  apply Rdiv_lt_0_compat; [|lra]. apply Rdiv_lt_0_compat; lra.
Qed.

(** Goff-Gratch at 99 % stays below Magnus at 100 % over the whole range *)
Lemma magnus_margin_99 t : -40 <= t <= 55 ->
  dew_f t 99 <= 1727 / 100 * t / (2373 / 10 + t).
Proof.
  intros Ht. destruct (Rlt_dec 0 t) as [H0|H0].
  - rewrite dew_f_above by lra. apply Rminus_le_0. unfold pA.
    assert (Hr : 0 <= t <= 55) by lra.
    interval with (i_bisect t, i_taylor t, i_prec 50).
  - rewrite dew_f_below by lra. apply Rminus_le_0. unfold pB.
    assert (Hr : -40 <= t <= 0) by lra.
    interval with (i_bisect t, i_taylor t, i_prec 50).
Qed.

(** at saturation the excess of the dew point over the dry bulb is below 0.01 C *)
Lemma magnus_margin_100 t : -40 <= t <= 55 ->
  dew_f t 100 <= 1727 / 100 * (t + 1 / 100) / (2373 / 10 + (t + 1 / 100)).
Proof.
  intros Ht. destruct (Rlt_dec 0 t) as [H0|H0].
  - rewrite dew_f_above by lra. apply Rminus_le_0. unfold pA.
    assert (Hr : 0 <= t <= 55) by lra.
    interval with (i_bisect t, i_taylor t, i_prec 50).
  - rewrite dew_f_below by lra. apply Rminus_le_0. unfold pB.
    assert (Hr : -40 <= t <= 0) by lra.
    interval with (i_bisect t, i_taylor t, i_prec 50).
Qed.

Theorem dew_le_dry_below_99 t h : -40 <= t <= 55 -> 0 < h <= 99 ->
  exists d, calc_dew_point_opt t h = Some d /\ d <= t.
Proof.
  intros Ht Hh. exists (dew_val t h). rewrite dew_opt_eq by lra. split; [reflexivity|].
  apply magnus_inv_le.
  - apply dew_f_lt_denominator; lra.
  - lra.
  - apply Rle_trans with (dew_f t 99); [apply dew_f_le_h; lra | apply magnus_margin_99; lra].
Qed.

Theorem dew_le_dry_plus_hundredth t h : -40 <= t <= 55 -> 0 < h <= 100 ->
  dew_val t h <= t + 1 / 100.
Proof.
  intros Ht Hh. apply magnus_inv_le.
  - apply dew_f_lt_denominator; lra.
  - lra.
  - apply Rle_trans with (dew_f t 100); [apply dew_f_le_h; lra | apply magnus_margin_100; lra].
Qed.

Lemma dew_gt_floor t h : -40 <= t <= 55 -> 0 < h <= 100 -> -2373 / 10 < dew_val t h.
Proof. intros Ht Hh. apply magnus_inv_gt, dew_f_lt_denominator; lra. Qed.

(** The ORDERED reading "dew <= dry" is false at saturation in the real-number
    model: the Magnus inversion of the Goff-Gratch pressure overshoots. *)
Theorem dew_le_dry_at_100_refuted :
  exists t, -40 <= t <= 55 /\
    exists d, calc_dew_point_opt t 100 = Some d /\ t + 6 / 1000 < d.
Proof.
  exists (4419 / 100). split; [lra|].
  exists (dew_val (4419 / 100) 100). rewrite dew_opt_eq by lra. split; [reflexivity|].
  apply magnus_inv_gt_x.
  - apply dew_f_lt_denominator; lra.
  - lra.
  - rewrite dew_f_above by lra. apply Rminus_lt_0. unfold pA.
    interval with (i_prec 70).
Qed.

(* ------------------------------------------------------------------ *)
(** * Barometric pressure and finiteness (every operation inside its domain) *)

Lemma pa_base_pos e : 0 <= e <= 10000 -> 0 < (293 - 65 / 10000 * e) / 293.
Proof. intros H. apply Rdiv_lt_0_compat; lra. Qed.

Lemma pa_eq (e : R) : 0 <= e <= 10000 ->
  barometric_pressure e = 1013 / 10 * exp (526 / 100 * ln ((293 - 65 / 10000 * e) / 293)).
Proof.
  intros H. unfold barometric_pressure. runfold.
  rewrite Rpow_pos_base; [reflexivity | apply pa_base_pos; assumption | lra].
Qed.

Lemma pa_bounds (e : R) : 0 <= e <= 10000 -> 27 < barometric_pressure e < 102.
Proof.
  intros H. rewrite pa_eq by assumption. split.
  - interval with (i_bisect e, i_prec 40).
  - interval with (i_bisect e, i_prec 40).
Qed.

(** what "the step is finite" means in the real-number model: no division by
    zero, no logarithm / power outside its domain, on every evaluation made *)
Theorem outputs_finite t h e :
  -40 <= t <= 55 -> 0 < h <= 100 -> 0 <= e <= 10000 ->
  let pa := barometric_pressure e in
  let hE := calc_enthalpy t (calc_humidity_ratio_actual t h pa) in
  (* barometricPressure: positive base of Pow *)
  0 < (293 - 65 / 10000 * e) / 293 /\ 27 < pa < 102 /\
  (* calcVaporPressure(dryBulb): positive absolute temperature *)
  0 < t + 27316 / 100 /\
  exists dew,
    (* calcDewPoint: not the NaN branch, Log of a positive number, denominator positive *)
    calc_dew_point_opt t h = Some dew /\
    0 < calc_vapor_pressure t * h / 100 / (6108 / 10000) /\
    0 < 1727 / 100 - dew_f t h /\
    -2373 / 10 < dew <= t + 1 / 100 /\
    (* every temperature between dew point and dry bulb: svp well-defined, below pa *)
    (forall x, Rmin dew t <= x <= Rmax dew t ->
       0 < x + 27316 / 100 /\ 0 < calc_vapor_pressure x < 17 /\ 10 < pa - calc_vapor_pressure x) /\
    (* and the bisection evaluates the enthalpy only at such temperatures *)
    (forall enth', (forall x, Rmin dew t <= x <= Rmax dew t -> enth' x = saturation_enthalpy pa x) ->
       wet_bulb_generic enth' t dew hE = calc_wet_bulb t dew hE pa).
Proof.
  intros Ht Hh He pa hE.
  pose proof (pa_bounds e He) as Hpa. fold pa in Hpa.
  split; [apply pa_base_pos; assumption|]. split; [exact Hpa|]. split; [lra|].
  exists (dew_val t h). rewrite dew_opt_eq by lra.
  pose proof (dew_f_lt_denominator t h) as Hf.
  pose proof (dew_le_dry_plus_hundredth t h Ht Hh) as Hd1.
  pose proof (dew_gt_floor t h Ht Hh) as Hd2.
  split; [reflexivity|]. split; [apply dew_arg_pos; lra|].
  split; [assert (dew_f t h < 1727 / 100) by (apply Hf; lra); lra|].
  split; [lra|]. split.
  - intros x Hx.
    assert (Hxr : -238 <= x <= 56).
    { destruct Hx as [Hx1 Hx2]. split.
      - apply Rle_trans with (Rmin (dew_val t h) t); [|exact Hx1].
        apply Rmin_glb; lra.
      - apply Rle_trans with (Rmax (dew_val t h) t); [exact Hx2|].
        apply Rmax_lub; lra. }
    pose proof (svp_lt_17 x Hxr). pose proof (svp_positive x).
    split; [lra|]. split; [split; [apply H0; lra | assumption]|]. lra.
  - intros enth' Hext. unfold calc_wet_bulb. apply wet_bulb_generic_ext. exact Hext.
Qed.

(* ------------------------------------------------------------------ *)
(** * The step and the kernel *)

Theorem climate_step_eq (pa t h : R) :
  climate_step pa t h =
    (calc_vapor_pressure t,
     calc_dew_point t h,
     calc_wet_bulb t (calc_dew_point t h)
        (calc_enthalpy t (calc_humidity_ratio_actual t h pa)) pa,
     t - calc_wet_bulb t (calc_dew_point t h)
        (calc_enthalpy t (calc_humidity_ratio_actual t h pa)) pa).
Proof. reflexivity. Qed.

Theorem deltaT_is_difference (pa t h vp dew wet dT : R) :
  climate_step pa t h = (vp, dew, wet, dT) -> dT = t - wet.
Proof. rewrite climate_step_eq. intros H. inversion H. reflexivity. Qed.

(** the kernel is the step mapped over the two input series *)
Theorem climate_kernel_eq (e : R) (st ts hs : list R) :
  length ts = length hs ->
  climate_variables_kernel [e] st [ts; hs] =
    let rows := map (fun th => climate_step (barometric_pressure e) (fst th) (snd th)) (combine ts hs) in
    Some ([ map (fun o => let '(v,_,_,_) := o in v) rows;
            map (fun o => let '(_,d,_,_) := o in d) rows;
            map (fun o => let '(_,_,w,_) := o in w) rows;
            map (fun o => let '(_,_,_,x) := o in x) rows ], st).
Proof.
  intros H. unfold climate_variables_kernel. rewrite H, Nat.leb_refl. reflexivity.
Qed.

(** The property, all clauses, on one step of the model. *)
Theorem climate_physically_ordered t h e :
  -40 <= t <= 55 -> 0 < h <= 100 -> 0 <= e <= 10000 ->
  exists vp dew wet dT,
    climate_step (barometric_pressure e) t h = (vp, dew, wet, dT) /\
    0 < vp < 17 /\
    calc_dew_point_opt t h = Some dew /\ -2373 / 10 < dew <= t + 1 / 100 /\
    Rmin dew t <= wet <= Rmax dew t /\
    dT = t - wet /\
    (h <= 99 -> dew <= wet <= t /\ 0 <= dT).
Proof.
  intros Ht Hh He. rewrite climate_step_eq.
  rewrite (dew_point_eq t h) by lra.
  do 4 eexists. split; [reflexivity|].
  pose proof (wet_bulb_between t (dew_val t h)
    (calc_enthalpy t (calc_humidity_ratio_actual t h (barometric_pressure e)))
    (barometric_pressure e)) as [B1 B2].
  split; [split; [apply svp_positive; lra | apply svp_lt_17; lra]|].
  split; [apply dew_opt_eq; lra|].
  split; [split; [apply dew_gt_floor; lra | apply dew_le_dry_plus_hundredth; lra]|].
  split; [exact B1|]. split; [reflexivity|].
  intros H99.
  destruct (dew_le_dry_below_99 t h Ht) as [d [Hd1 Hd2]]; [lra|].
  rewrite dew_opt_eq in Hd1 by lra. inversion Hd1; subst d.
  specialize (B2 Hd2). split; [exact B2 | lra].
Qed.

(* ------------------------------------------------------------------ *)
(** * Consequence of the saturation overshoot: a negative wet-bulb depression *)

(** if the target enthalpy is never above the enthalpy on the bracket, the
    bisection never moves and returns its starting point (the dew point) *)
Lemma wet_bulb_loop_stays (enth : R -> R) h n : forall rtb dx,
  (forall x, Rmin rtb (rtb + dx) <= x <= Rmax rtb (rtb + dx) -> h - enth x <= 0) ->
  wet_bulb_loop enth h n rtb dx = rtb.
Proof.
  induction n as [|n IH]; intros rtb dx Hle.
  - reflexivity.
  - rewrite wet_bulb_loop_S.
    assert (Hm : Rmin rtb (rtb + dx) <= rtb + dx * (1 / 2) <= Rmax rtb (rtb + dx)).
    { unfold Rmin, Rmax. destruct (Rle_dec rtb (rtb + dx)); lra. }
    destruct (Rltb 0 (h - enth (rtb + dx * (1 / 2)))) eqn:E.
    + apply Rltb_true in E. specialize (Hle _ Hm). lra.
    + destruct (Rltb (Rabs (dx * (1 / 2))) (1 / 10000)); [reflexivity|].
      apply IH. intros x Hx. apply Hle.
      revert Hx. unfold Rmin, Rmax.
      destruct (Rle_dec rtb (rtb + dx * (1 / 2))); destruct (Rle_dec rtb (rtb + dx)); lra.
Qed.

Lemma humidity_ratio_monotone (pa s1 s2 : R) :
  0 <= s1 -> s1 <= s2 -> s2 < pa ->
  0 <= calc_humidity_ratio s1 pa <= calc_humidity_ratio s2 pa.
Proof.
  intros H0 H12 H2. unfold calc_humidity_ratio. runfold. split.
  - apply Rmult_le_pos; [lra|]. left. apply Rinv_0_lt_compat. lra.
  - apply Rminus_le_0.
    replace (62198 / 100000 * s2 / (pa - s2) - 62198 / 100000 * s1 / (pa - s1))
      with (62198 / 100000 * pa * (s2 - s1) / ((pa - s1) * (pa - s2))) by (field; lra).
    apply Rmult_le_pos.
    + apply Rmult_le_pos; [|lra]. apply Rmult_le_pos; lra.
    + left. apply Rinv_0_lt_compat. apply Rmult_lt_0_compat; lra.
Qed.

(** the saturation enthalpy is non-decreasing in temperature (above freezing, svp below pa) *)
Lemma saturation_enthalpy_monotone (pa x y : R) :
  0 < x -> x <= y -> y <= 56 -> 17 <= pa ->
  saturation_enthalpy pa x <= saturation_enthalpy pa y.
Proof.
  intros Hx Hxy Hy Hpa. unfold saturation_enthalpy, calc_enthalpy. runfold.
  assert (Hs : calc_vapor_pressure x <= calc_vapor_pressure y).
  { destruct Hxy as [Hlt| ->]; [left; apply svp_increasing_above; lra | right; reflexivity]. }
  pose proof (svp_positive x) as Hp. pose proof (svp_lt_17 y) as Hu.
  destruct (humidity_ratio_monotone pa (calc_vapor_pressure x) (calc_vapor_pressure y)) as [W0 W12];
    [lra | exact Hs | lra |].
  apply Rplus_le_compat; [lra|].
  apply Rmult_le_compat; lra.
Qed.

(** at saturation the target enthalpy IS the saturation enthalpy at the dry bulb *)
Lemma enthalpy_at_saturation (pa t : R) :
  calc_enthalpy t (calc_humidity_ratio_actual t 100 pa) = saturation_enthalpy pa t.
Proof.
  unfold saturation_enthalpy, calc_humidity_ratio_actual. runfold.
  f_equal. field.
Qed.

(** whenever the dew point overshoots the dry bulb at RH = 100 %, the wet bulb
    returned is the dew point itself *)
Lemma wet_bulb_is_dew_when_overshoot (pa t dew : R) :
  0 < t -> t <= dew -> dew <= 56 -> 17 <= pa ->
  calc_wet_bulb t dew (calc_enthalpy t (calc_humidity_ratio_actual t 100 pa)) pa = dew.
Proof.
  intros Ht Htd Hd Hpa. rewrite enthalpy_at_saturation.
  unfold calc_wet_bulb, wet_bulb_generic. apply wet_bulb_loop_stays.
  runfold. replace (dew + (t - dew)) with t by ring.
  rewrite Rmin_right, Rmax_left by assumption.
  intros x Hx.
  pose proof (saturation_enthalpy_monotone pa t x). lra.
Qed.

(** The ordered reading of the property fails at saturation: the model (and
    the code) report a wet bulb ABOVE the dry bulb, i.e. a negative depression. *)
Theorem ordered_at_saturation_refuted :
  exists t e, -40 <= t <= 55 /\ 0 <= e <= 10000 /\
    exists vp dew wet dT,
      climate_step (barometric_pressure e) t 100 = (vp, dew, wet, dT) /\
      calc_dew_point_opt t 100 = Some dew /\
      t + 6 / 1000 < dew /\ wet = dew /\ dT < - (6 / 1000).
Proof.
  exists (4419 / 100), 0. split; [lra|]. split; [lra|].
  rewrite climate_step_eq. rewrite (dew_point_eq (4419 / 100) 100) by lra.
  do 4 eexists. split; [reflexivity|].
  assert (Hover : 4419 / 100 + 6 / 1000 < dew_val (4419 / 100) 100).
  { apply magnus_inv_gt_x.
    - apply dew_f_lt_denominator; lra.
    - lra.
    - rewrite dew_f_above by lra. apply Rminus_lt_0. unfold pA.
      interval with (i_prec 70). }
  pose proof (dew_le_dry_plus_hundredth (4419 / 100) 100) as Hup.
  pose proof (pa_bounds 0) as Hpa.
  rewrite wet_bulb_is_dew_when_overshoot by lra.
  split; [apply dew_opt_eq; lra|].
  split; [exact Hover|]. split; [reflexivity|]. lra.
Qed.
