(** The published daily GR4J model (Perrin, Michel & Andreassian 2003,
    J. Hydrol. 279, 275-289), written independently of the code's structure
    (definitions only; C15 relates Kernels/Gr4j.v to it in KernelProofs/Gr4j.v):

    - fractional powers are written with square roots ([x^(5/2) = sqrt (x^5)],
      [b^(-1/4) = 1 / sqrt (sqrt b)]), integer powers with [pow];
    - the S-curves SH1, SH2 are piecewise FUNCTIONS of real time t, the unit
      hydrograph ordinates are their differences at consecutive integers;
    - both the interception branches are written with max (Pn = max(P-E,0),
      En = max(E-P,0)) and both production-store terms are always applied;
    - routing is by explicit CONVOLUTION of the history of effective rainfall
      with the unit-hydrograph ordinates (three passes over the series:
      production store, convolution, routing store) instead of the shift
      register of the code.
    The published equations have no cap on the argument of tanh. *)
From Coq Require Import Reals List.
Import ListNotations.
Local Open Scope R_scope.

Definition pow52 (x : R) : R := sqrt (x ^ 5).            (* x^(5/2), x >= 0 *)
Definition pow72 (x : R) : R := sqrt (x ^ 7).            (* x^(7/2), x >= 0 *)
Definition inv_root4 (b : R) : R := / sqrt (sqrt b).     (* b^(-1/4), b > 0 *)

(** S-curves (eqs. 9-14 of the paper) *)
Definition SH1 (x4 t : R) : R :=
  if Rle_dec t 0 then 0 else if Rlt_dec t x4 then pow52 (t / x4) else 1.
Definition SH2 (x4 t : R) : R :=
  if Rle_dec t 0 then 0
  else if Rle_dec t x4 then / 2 * pow52 (t / x4)
  else if Rlt_dec t (2 * x4) then 1 - / 2 * pow52 (2 - t / x4)
  else 1.

(** unit-hydrograph ordinates, j = 1, 2, ... (eqs. 15-16) *)
Definition UH1 (x4 : R) (j : nat) : R := SH1 x4 (INR j) - SH1 x4 (INR j - 1).
Definition UH2 (x4 : R) (j : nat) : R := SH2 x4 (INR j) - SH2 x4 (INR j - 1).

(** number of ordinates: n = ceil(x), as a relation *)
Definition is_ceil (x : R) (n : nat) : Prop := INR n - 1 < x <= INR n.

(** Production store for one day (eqs. 1-8): returns (S', Pr).  The hyperbolic tangent is a
    parameter [th] so that the one place where the code deviates from the paper (it evaluates
    tanh(min(w, 13)) instead of tanh w) can be stated exactly: the published model is
    [th := tanh], the capped variant is [th := tanh13]. *)
Definition spec_production_with (th : R -> R) (x1 S P E : R) : R * R :=
  let Pn := Rmax (P - E) 0 in
  let En := Rmax (E - P) 0 in
  let Ps := x1 * (1 - (S / x1) ^ 2) * th (Pn / x1) / (1 + S / x1 * th (Pn / x1)) in
  let Es := S * (2 - S / x1) * th (En / x1) / (1 + (1 - S / x1) * th (En / x1)) in
  let S1 := S - Es + Ps in
  let Perc := S1 * (1 - inv_root4 (1 + (4 / 9 * (S1 / x1)) ^ 4)) in
  (S1 - Perc, Perc + (Pn - Ps)).
Definition spec_production := spec_production_with tanh.
Definition tanh13 (w : R) : R := tanh (Rmin w 13).

(** Exchange, routing store, direct branch (eqs. 18-23): returns (R', Q) *)
Definition spec_routing (x2 x3 Rs Q9 Q1 : R) : R * R :=
  let F := x2 * pow72 (Rs / x3) in
  let R1 := Rmax 0 (Rs + Q9 + F) in
  let Qr := R1 * (1 - inv_root4 (1 + (R1 / x3) ^ 4)) in
  let Qd := Rmax 0 (Q1 + F) in
  (R1 - Qr, Qr + Qd).

(** sum_{k < n} f k *)
Fixpoint sum_upto (f : nat -> R) (n : nat) : R :=
  match n with O => 0 | S m => sum_upto f m + f m end.

(** pass 1: production store over the whole series: (final S, series of Pr) *)
Fixpoint spec_production_run_with (th : R -> R) (x1 S : R) (io : list (R * R)) : R * list R :=
  match io with
  | [] => (S, [])
  | (P, E) :: r =>
      let (S1, Pr) := spec_production_with th x1 S P E in
      let (ST, prs) := spec_production_run_with th x1 S1 r in (ST, Pr :: prs)
  end.
Definition spec_production_run := spec_production_run_with tanh.

(** pass 2: convolution.  [b] is the water already in transit at the start
    ([nth i b 0] arrives on day i, counted from 0); [c] = 0.9 or 0.1.
    Output of day t (from 0):  b_t + sum_{k<=t} c * Pr_k * UH(t-k+1). *)
Definition conv_out (c : R) (uh : nat -> R) (b prs : list R) (t : nat) : R :=
  nth t b 0 + sum_upto (fun k => c * nth k prs 0 * uh (t - k + 1)%nat) (S t).

(** water still in transit after T days that arrives i days later *)
Definition conv_carry (c : R) (uh : nat -> R) (b prs : list R) (T i : nat) : R :=
  nth (T + i) b 0 + sum_upto (fun k => c * nth k prs 0 * uh (T - k + i + 1)%nat) T.

(** pass 3: routing store over the series of (Q9, Q1) *)
Fixpoint spec_routing_run (x2 x3 Rs : R) (qs : list (R * R)) : R * list R :=
  match qs with
  | [] => (Rs, [])
  | (Q9, Q1) :: r =>
      let (R1, Q) := spec_routing x2 x3 Rs Q9 Q1 in
      let (RT, os) := spec_routing_run x2 x3 R1 r in (RT, Q :: os)
  end.

Record spec_result := { sp_S : R; sp_R : R; sp_q1 : list R; sp_q9 : list R; sp_Q : list R }.

(** The model on a series, from initial stores S0, R0 and carried unit-hydrograph stores
    q1_0 (n2 values), q9_0 (n1 values). *)
Definition spec_run_with (th : R -> R) (x1 x2 x3 x4 : R) (n1 n2 : nat) (S0 R0 : R) (q1_0 q9_0 : list R)
           (io : list (R * R)) : spec_result :=
  let (ST, prs) := spec_production_run_with th x1 S0 io in
  let T := length io in
  let q9s := map (conv_out (9 / 10) (UH1 x4) q9_0 prs) (seq 0 T) in
  let q1s := map (conv_out (1 / 10) (UH2 x4) q1_0 prs) (seq 0 T) in
  let (RT, Qs) := spec_routing_run x2 x3 R0 (combine q9s q1s) in
  {| sp_S := ST; sp_R := RT;
     sp_q1 := map (conv_carry (1 / 10) (UH2 x4) q1_0 prs T) (seq 0 n2);
     sp_q9 := map (conv_carry (9 / 10) (UH1 x4) q9_0 prs T) (seq 0 n1);
     sp_Q := Qs |}.

(** the published model *)
Definition spec_run := spec_run_with tanh.
(** the published model with the argument of tanh capped at 13 *)
Definition spec_run_capped := spec_run_with tanh13.
