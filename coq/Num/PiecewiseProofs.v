(** Proofs about the model of util/fn/piecewise.go (Num/Piecewise.v).
    Over [R]: exact at the knots, the linear interpolant between neighbouring
    knots (hence between the two table values), an error exactly outside the
    table.  Over ANY [Arith] instance: if every comparison involving the query
    is false (the IEEE behaviour of NaN) the result is the error; and the
    binary64 instance has that behaviour for NaN (from Coq's primitive-float
    specification). *)
From Coq Require Import ZArith Reals Lra Lia List Bool Floats.
From OW Require Import Base.Arith Base.RInst Base.FInst Num.Piecewise.
Import ListNotations.
Local Open Scope R_scope.

(** ---------------------------------------------------------------- tables *)
(** strictly increasing knots *)
Definition increasing (xs : list R) : Prop :=
  forall i, (S i < length xs)%nat -> nth i xs 0 < nth (S i) xs 0.

Lemma increasing_lt xs : increasing xs ->
  forall i j, (i < j)%nat -> (j < length xs)%nat -> nth i xs 0 < nth j xs 0.
Proof.
  intros H i j Hij. induction Hij as [|j Hij IH]; intros Hj.
  - apply H; auto.
  - apply Rlt_trans with (nth j xs 0); [apply IH; lia|apply H; auto].
Qed.

Lemma increasing_le xs : increasing xs ->
  forall i j, (i <= j)%nat -> (j < length xs)%nat -> nth i xs 0 <= nth j xs 0.
Proof.
  intros H i j Hij Hj. destruct (Nat.eq_dec i j) as [->|Hn]; [lra|].
  left. apply increasing_lt; auto. lia.
Qed.

Lemma last_is_nth {X} (r : list X) : forall x0 d, last (x0 :: r) d = nth (length r) (x0 :: r) d.
Proof.
  induction r as [|y r IH]; intros x0 d; [reflexivity|].
  change (last (x0 :: y :: r) d) with (last (y :: r) d). rewrite IH. reflexivity.
Qed.

Notation pw := (@piecewise R RArith).
Notation pwf := (@piecewise_full R RArith).
Notation bloop := (@brackets_loop R RArith).

(** the interpolation formula over R *)
Definition lin (x x0 x1 y0 y1 : R) : R := y0 + (x - x0) / (x1 - x0) * (y1 - y0).

Lemma interp_lin x x0 x1 y0 y1 : @interp R RArith x x0 x1 y0 y1 = lin x x0 x1 y0 y1.
Proof. reflexivity. Qed.

(** the loop returns the first index whose knot is >= x *)
Lemma bloop_finds x : forall rest i m, (m < length rest)%nat ->
  x <= nth m rest 0 -> (forall m', (m' < m)%nat -> nth m' rest 0 < x) ->
  bloop x rest i = Some ((i + m)%nat, S (i + m)).
Proof.
  induction rest as [|v r IH]; intros i m Hm Hge Hlt; simpl in Hm; [lia|].
  simpl. runfold. destruct m as [|m].
  - simpl in Hge. rewrite (proj2 (Rleb_true x v)) by lra. rewrite Nat.add_0_r. reflexivity.
  - assert (Hv : v < x) by (apply (Hlt O); lia).
    rewrite (proj2 (Rleb_false x v)) by lra.
    rewrite (IH (S i) m); [f_equal; f_equal; lia|lia|exact Hge|].
    intros m' Hm'. apply (Hlt (S m')). lia.
Qed.

Lemma bloop_none x : forall rest i, (forall v, In v rest -> v < x) -> bloop x rest i = None.
Proof.
  induction rest as [|v r IH]; intros i H; simpl; auto. runfold.
  rewrite (proj2 (Rleb_false x v)) by (apply H; left; auto).
  apply IH. intros; apply H; right; auto.
Qed.

Lemma xs_cons (xs : list R) : (1 <= length xs)%nat -> exists x0 r, xs = x0 :: r.
Proof. destruct xs as [|x0 r]; simpl; intros; [lia|eauto]. Qed.

Lemma pwf_unfold x xs ys x0 r : xs = x0 :: r ->
  pwf x xs ys =
  if Rltb x x0 then Some None
  else if Rltb (last xs x0) x then Some None
  else match bloop x r O with
       | None => Some None
       | Some (i, j) =>
           match nth_error xs i, nth_error xs j, nth_error ys i, nth_error ys j with
           | Some a, Some b, Some c, Some d => Some (Some (lin x a b c d))
           | _, _, _, _ => None
           end
       end.
Proof.
  intros ->. unfold piecewise_full, brackets_full, gtb. cbn [ltb RArith].
  destruct (Rltb x x0); [reflexivity|].
  destruct (Rltb (last (x0 :: r) x0) x); reflexivity.
Qed.

Lemma last_nth_R (xs : list R) x0 r : xs = x0 :: r -> last xs x0 = nth (length xs - 1) xs 0.
Proof.
  intros ->. rewrite last_is_nth. cbn [length]. rewrite Nat.sub_succ, Nat.sub_0_r.
  apply nth_indep. simpl; lia.
Qed.

Lemma nth_error_nthR (l : list R) k : (k < length l)%nat -> nth_error l k = Some (nth k l 0).
Proof. intros H. apply nth_error_nth'; auto. Qed.

Section Table.
Variables xs ys : list R.
Hypothesis Hinc : increasing xs.
Hypothesis Hlen : length ys = length xs.

(** strictly inside segment k (left end excluded) *)
Lemma pw_segment x k : (S k < length xs)%nat ->
  nth k xs 0 < x <= nth (S k) xs 0 ->
  pwf x xs ys = Some (Some (lin x (nth k xs 0) (nth (S k) xs 0) (nth k ys 0) (nth (S k) ys 0))).
Proof.
  intros Hk [Hlo Hhi].
  destruct (xs_cons xs) as (x0 & r & Exs); [lia|].
  assert (H0 : x0 = nth 0 xs 0) by (rewrite Exs; reflexivity).
  assert (Hr : forall m, nth m r 0 = nth (S m) xs 0) by (intros; rewrite Exs; reflexivity).
  assert (Hlr : length xs = S (length r)) by (rewrite Exs; reflexivity).
  assert (Hx0 : x0 <= nth k xs 0) by (rewrite H0; apply increasing_le; auto; lia).
  assert (Hlast : nth (S k) xs 0 <= last xs x0).
  { rewrite (last_nth_R xs x0 r Exs). apply increasing_le; auto; lia. }
  rewrite (pwf_unfold x xs ys x0 r Exs).
  rewrite (proj2 (Rltb_false x x0)) by lra.
  rewrite (proj2 (Rltb_false (last xs x0) x)) by lra.
  rewrite (bloop_finds x r O k).
  - rewrite Nat.add_0_l. rewrite !nth_error_nthR by lia. reflexivity.
  - lia.
  - rewrite Hr. lra.
  - intros m' Hm'. rewrite Hr.
    apply Rle_lt_trans with (nth k xs 0); auto. apply increasing_le; auto; lia.
Qed.

Lemma pw_first_knot : (2 <= length xs)%nat ->
  pwf (nth 0 xs 0) xs ys = Some (Some (nth 0 ys 0)).
Proof.
  intros H2.
  destruct (xs_cons xs) as (x0 & r & Exs); [lia|].
  assert (H0 : nth 0 xs 0 = x0) by (rewrite Exs; reflexivity).
  assert (Hr : forall m, nth m r 0 = nth (S m) xs 0) by (intros; rewrite Exs; reflexivity).
  assert (Hlr : length xs = S (length r)) by (rewrite Exs; reflexivity).
  assert (Hlast : x0 <= last xs x0).
  { rewrite (last_nth_R xs x0 r Exs). rewrite <- H0. apply increasing_le; auto; lia. }
  assert (H1 : x0 < nth 1 xs 0) by (rewrite <- H0; apply Hinc; lia).
  rewrite H0. rewrite (pwf_unfold x0 xs ys x0 r Exs).
  rewrite (proj2 (Rltb_false x0 x0)) by lra.
  rewrite (proj2 (Rltb_false (last xs x0) x0)) by lra.
  rewrite (bloop_finds x0 r O O).
  - rewrite Nat.add_0_l. rewrite !nth_error_nthR by lia. rewrite H0.
    unfold lin. f_equal. f_equal. replace (x0 - x0) with 0 by lra. unfold Rdiv. lra.
  - lia.
  - rewrite Hr. lra.
  - intros; lia.
Qed.

Lemma lin_right x0 x1 y0 y1 : x0 <> x1 -> lin x1 x0 x1 y0 y1 = y1.
Proof. intros H. unfold lin. field. lra. Qed.
Lemma lin_left x0 x1 y0 y1 : lin x0 x0 x1 y0 y1 = y0.
Proof. unfold lin. replace (x0 - x0) with 0 by lra. unfold Rdiv. lra. Qed.

(** exact table values at the knots *)
Theorem pw_knots_exact k : (2 <= length xs)%nat -> (k < length xs)%nat ->
  pwf (nth k xs 0) xs ys = Some (Some (nth k ys 0)).
Proof.
  intros H2 Hk. destruct k as [|k]; [apply pw_first_knot; auto|].
  assert (Hlt : nth k xs 0 < nth (S k) xs 0) by (apply Hinc; auto).
  rewrite (pw_segment (nth (S k) xs 0) k) by (auto; lra).
  rewrite lin_right by lra. reflexivity.
Qed.

(** the linear interpolant between neighbouring knots *)
Theorem pw_is_linear_interpolant x k : (S k < length xs)%nat ->
  nth k xs 0 <= x <= nth (S k) xs 0 ->
  pwf x xs ys = Some (Some (lin x (nth k xs 0) (nth (S k) xs 0) (nth k ys 0) (nth (S k) ys 0))).
Proof.
  intros Hk [Hlo Hhi]. destruct (Rle_lt_or_eq_dec _ _ Hlo) as [Hl|He].
  - apply pw_segment; auto.
  - rewrite <- He. rewrite pw_knots_exact by lia. rewrite lin_left. reflexivity.
Qed.

Lemma lin_between x x0 x1 y0 y1 : x0 < x1 -> x0 <= x <= x1 ->
  Rmin y0 y1 <= lin x x0 x1 y0 y1 <= Rmax y0 y1.
Proof.
  intros Hlt Hx. unfold lin.
  set (t := (x - x0) / (x1 - x0)).
  assert (Ht : 0 <= t <= 1).
  { unfold t. split.
    - apply Rmult_le_pos; [lra|left; apply Rinv_0_lt_compat; lra].
    - apply Rmult_le_reg_r with (x1 - x0); [lra|]. unfold Rdiv.
      rewrite Rmult_assoc, Rinv_l by lra. lra. }
  unfold Rmin, Rmax. destruct (Rle_dec y0 y1); split; nra.
Qed.

Theorem pw_between_neighbours x k : (S k < length xs)%nat ->
  nth k xs 0 <= x <= nth (S k) xs 0 ->
  exists v, pwf x xs ys = Some (Some v) /\
    Rmin (nth k ys 0) (nth (S k) ys 0) <= v <= Rmax (nth k ys 0) (nth (S k) ys 0).
Proof.
  intros Hk Hx. eexists. split; [apply pw_is_linear_interpolant; eauto|].
  apply lin_between; auto.
Qed.

(** outside the table: the error (not a panic, not a number) *)
Theorem pw_error_outside x : (1 <= length xs)%nat ->
  x < nth 0 xs 0 \/ nth (length xs - 1) xs 0 < x -> pwf x xs ys = Some None.
Proof.
  intros H1 Hout.
  destruct (xs_cons xs) as (x0 & r & Exs); [lia|].
  assert (H0 : nth 0 xs 0 = x0) by (rewrite Exs; reflexivity).
  rewrite (pwf_unfold x xs ys x0 r Exs). rewrite (last_nth_R xs x0 r Exs).
  destruct Hout as [Ho|Ho].
  - rewrite (proj2 (Rltb_true x x0)) by lra. reflexivity.
  - destruct (Rltb x x0); auto.
    rewrite (proj2 (Rltb_true (nth (length xs - 1) xs 0) x)) by lra. reflexivity.
Qed.

(** every query inside the table lies in some segment *)
Lemma segment_exists x : (2 <= length xs)%nat ->
  nth 0 xs 0 <= x <= nth (length xs - 1) xs 0 ->
  exists k, (S k < length xs)%nat /\ nth k xs 0 <= x <= nth (S k) xs 0.
Proof.
  intros H2 [Hlo Hhi].
  assert (H : forall m, (m < length xs)%nat -> nth 0 xs 0 <= x <= nth m xs 0 -> (1 <= m)%nat ->
              exists k, (S k < length xs)%nat /\ nth k xs 0 <= x <= nth (S k) xs 0).
  { induction m as [|m IH]; intros Hm Hx H1; [lia|].
    destruct (Rle_dec (nth m xs 0) x) as [Hc|Hc].
    - exists m. split; [lia|lra].
    - destruct m as [|m]; [lra|]. apply IH; try lia. lra. }
  apply (H (length xs - 1)%nat); try lia. lra.
Qed.

Theorem pw_defined_inside x : (2 <= length xs)%nat ->
  nth 0 xs 0 <= x <= nth (length xs - 1) xs 0 ->
  exists v, pwf x xs ys = Some (Some v).
Proof.
  intros H2 Hx. destruct (segment_exists x H2 Hx) as (k & Hk & Hxk).
  eexists. apply pw_is_linear_interpolant; eauto.
Qed.
End Table.

(** [piecewise] (errors and panics folded into [None]) agrees with [piecewise_full]
    on well-formed tables, where no panic occurs *)
Theorem piecewise_full_wf : forall x xs ys, increasing xs -> length ys = length xs ->
  (2 <= length xs)%nat -> exists r, pwf x xs ys = Some r /\ pw x xs ys = r.
Proof.
  intros x xs ys Hinc Hlen H2. unfold piecewise.
  destruct (Rlt_dec x (nth 0 xs 0)) as [H|H].
  { rewrite (pw_error_outside xs ys) by (auto; lia). eauto. }
  destruct (Rlt_dec (nth (length xs - 1) xs 0) x) as [H'|H'].
  { rewrite (pw_error_outside xs ys) by (auto; lia). eauto. }
  destruct (pw_defined_inside xs ys Hinc Hlen x H2) as [v Hv]; [lra|].
  rewrite Hv. eauto.
Qed.

(** ---------------------------------------------------------------- the property, on [piecewise] *)
Section Property.
Variables xs ys : list R.
Hypothesis Hinc : increasing xs.
Hypothesis Hlen : length ys = length xs.
Hypothesis H2 : (2 <= length xs)%nat.

Theorem piecewise_knots_exact : forall k, (k < length xs)%nat ->
  pw (nth k xs 0) xs ys = Some (nth k ys 0).
Proof. intros k Hk. unfold piecewise. rewrite (pw_knots_exact xs ys) by auto. reflexivity. Qed.

Theorem piecewise_is_linear_interpolant : forall x k, (S k < length xs)%nat ->
  nth k xs 0 <= x <= nth (S k) xs 0 ->
  pw x xs ys = Some (lin x (nth k xs 0) (nth (S k) xs 0) (nth k ys 0) (nth (S k) ys 0)).
Proof.
  intros x k Hk Hx. unfold piecewise.
  rewrite (pw_is_linear_interpolant xs ys Hinc Hlen x k) by auto. reflexivity.
Qed.

Theorem piecewise_between_neighbours : forall x k, (S k < length xs)%nat ->
  nth k xs 0 <= x <= nth (S k) xs 0 ->
  exists v, pw x xs ys = Some v /\
    Rmin (nth k ys 0) (nth (S k) ys 0) <= v <= Rmax (nth k ys 0) (nth (S k) ys 0).
Proof.
  intros x k Hk Hx. destruct (pw_between_neighbours xs ys Hinc Hlen x k Hk Hx) as (v & Hv & Hb).
  exists v. unfold piecewise. rewrite Hv. auto.
Qed.

(** an error exactly when the argument is outside the table *)
Theorem piecewise_error_iff_outside : forall x,
  pw x xs ys = None <-> (x < nth 0 xs 0 \/ nth (length xs - 1) xs 0 < x).
Proof.
  intros x. split.
  - intros Hn. destruct (Rlt_dec x (nth 0 xs 0)) as [H|H]; auto.
    destruct (Rlt_dec (nth (length xs - 1) xs 0) x) as [H'|H']; auto.
    destruct (pw_defined_inside xs ys Hinc Hlen x H2) as [v Hv]; [lra|].
    unfold piecewise in Hn. rewrite Hv in Hn. discriminate.
  - intros Ho. unfold piecewise. rewrite (pw_error_outside xs ys) by (auto; lia). reflexivity.
Qed.

Theorem piecewise_error_outside : forall x,
  x < nth 0 xs 0 \/ nth (length xs - 1) xs 0 < x ->
  pw x xs ys = None /\ pwf x xs ys = Some None.
Proof.
  intros x Ho. split; [apply piecewise_error_iff_outside; auto|].
  apply pw_error_outside; auto; lia.
Qed.
End Property.

(** ---------------------------------------------------------------- NaN: comparison semantics *)
Section NaN.
Context {T : Type} {A : Arith T}.
Local Open Scope ar_scope.

(** all three comparisons the code performs on the query are false *)
Definition unordered (x : T) : Prop :=
  forall v, (x <? v) = false /\ (v <? x) = false /\ (x <=? v) = false.

Lemma brackets_loop_unordered x : unordered x -> forall rest i, brackets_loop x rest i = None.
Proof.
  intros Hu. induction rest as [|v r IH]; intros i; simpl; auto.
  unfold geb. destruct (Hu v) as (_ & _ & ->). apply IH.
Qed.

(** not-a-number query: the error, never a number (and no panic on a non-empty table) *)
Theorem piecewise_error_unordered : forall x xs ys, unordered x ->
  piecewise x xs ys = None /\ (xs <> [] -> piecewise_full x xs ys = Some None).
Proof.
  intros x xs ys Hu. unfold piecewise, piecewise_full, brackets_full.
  destruct xs as [|x0 r]; [split; [reflexivity|congruence]|].
  destruct (Hu x0) as (-> & _ & _). unfold gtb.
  destruct (Hu (last (x0 :: r) x0)) as (_ & -> & _).
  rewrite brackets_loop_unordered by auto. split; auto.
Qed.
End NaN.

(** the binary64 instance: a NaN query is unordered (Coq's primitive-float specification) *)
Lemma SFcompare_refl_not_nan s : s <> S754_nan -> SFcompare s s = Some Eq.
Proof.
  destruct s as [sg|sg| |sg m e]; intros H; try congruence; simpl.
  - reflexivity.
  - destruct sg; reflexivity.
  - destruct sg; rewrite Z.compare_refl, Pos.compare_cont_refl; reflexivity.
Qed.

Lemma float_nan_unordered (l : LibM) (x : float) :
  @is_nan float (FArith l) x = true -> @unordered float (FArith l) x.
Proof.
  simpl. unfold f_is_nan. intros Hn v.
  assert (Hx : Prim2SF x = S754_nan).
  { destruct (Prim2SF x) eqn:E; auto; exfalso;
    rewrite FloatAxioms.eqb_spec in Hn; unfold SFeqb in Hn;
    rewrite SFcompare_refl_not_nan in Hn by (rewrite E; discriminate); discriminate. }
  simpl. rewrite !FloatAxioms.ltb_spec, FloatAxioms.leb_spec.
  unfold SFltb, SFleb. rewrite Hx. simpl.
  destruct (Prim2SF v); auto.
Qed.

Theorem piecewise_error_nan_float : forall (l : LibM) (x : float) xs ys,
  @is_nan float (FArith l) x = true ->
  @piecewise float (FArith l) x xs ys = None /\
  (xs <> [] -> @piecewise_full float (FArith l) x xs ys = Some None).
Proof. intros l x xs ys Hn. apply piecewise_error_unordered. apply float_nan_unordered; auto. Qed.

(** non-vacuity *)
Example piecewise_example :
  increasing [0; 1; 3] /\
  pw 2 [0; 1; 3] [0; 10; 30] = Some 20 /\ pw 1 [0; 1; 3] [0; 10; 30] = Some 10 /\
  pw 4 [0; 1; 3] [0; 10; 30] = None /\ pw (-1) [0; 1; 3] [0; 10; 30] = None.
Proof.
  assert (Hi : increasing [0; 1; 3]).
  { intros i Hi. simpl in Hi. destruct i as [|[|i]]; simpl; try lra; lia. }
  split; auto.
  assert (Hl : length [0; 10; 30] = length [0; 1; 3]) by reflexivity.
  assert (H2 : (2 <= length [0; 1; 3])%nat) by (simpl; lia).
  split; [|split; [|split]].
  - assert (E : pw 2 [0; 1; 3] [0; 10; 30] = Some (lin 2 1 3 10 30)).
    { apply (piecewise_is_linear_interpolant [0; 1; 3] [0; 10; 30]) with (k := 1%nat);
      first [exact Hi | exact Hl | exact H2 | simpl; lia | simpl; lra]. }
    rewrite E. unfold lin. f_equal. lra.
  - apply piecewise_knots_exact with (k := 1%nat) (xs := [0; 1; 3]) (ys := [0; 10; 30]); auto; simpl; lia.
  - apply piecewise_error_iff_outside; auto. simpl. lra.
  - apply piecewise_error_iff_outside; auto. simpl. lra.
Qed.
