(** Model of util/fn/root.go (C18): [FindRoot], written once over [Arith].
    Definitions only (proofs are in Num/FindRootProofs.v).

    Go code modelled (control structure kept: every Go [if] is one Gallina [if]):

      delta = fn(initialX); x = initialX; maxDelta := fn(maxX); minDelta := fn(minX)
      if minDelta > 0 || maxDelta < 0 { panic("Invalid range") }
      for iteration := 0; iteration < maxIterations; iteration++ {
        halvingX   := maxX - (maxX-minX)*0.5
        bisectionX := maxX - (maxX-minX)*maxDelta/(maxDelta-minDelta)
        trialXs = [halvingX, bisectionX] (+ newtonRaphsonX when fn_dx != nil, deriv != 0
                                            and minX < newtonRaphsonX < maxX)
        for _, trial := range trialXs { ... early return when |fn(trial)| < tolerance ... }
        ... adopt the narrowed bracket, x/delta := the end with the smaller |delta| ...
        if hitConvergenceLimit == len(trialXs) { return }
      }

    The degenerate secant denominator [maxDelta - minDelta = 0] (both deltas
    zero) is an EXPLICIT branch: in Go the quotient is 0/0 = NaN, [fn(NaN)] is
    called, and the NaN trial has no effect on the bracket (every comparison
    with it is false) unless [|fn(NaN)| < tolerance], in which case NaN is
    returned as the root.  With Coq's total division on [R] the quotient would
    silently be 0; so the trial is tagged [NaNPt], its evaluation point is
    recorded as [None] ("not a point of the interval") and it never touches the
    bracket.  At the float instance the tagged value is the NaN that Go
    computes, and the tagged branch coincides with what the untagged code does
    on a NaN (this is exercised by the correspondence check).

    Besides (x, delta) the model returns the arguments of every call of [fn]
    (in call order; [None] = the NaN trial) and of every call of [fn_dx]. *)
From Coq Require Import ZArith List Bool.
From OW Require Import Base.Arith.
Import ListNotations.

Section FindRoot.
  Context {T : Type} {A : Arith T}.
  Local Open Scope ar_scope.

  Variable f : T -> T.                 (* fn *)
  Variable fdx : option (T -> T).      (* fn_dx; None = nil *)
  Variables tol conv : T.              (* tolerance, convergenceLimit *)

  (** a trial abscissa; [NaNPt v]: the degenerate secant point (v is the value
      the float expression evaluates to, a NaN) *)
  Inductive trial := Pt (p : T) | NaNPt (v : T).

  (** state of the inner loop over the trial points; [tev] is the list of
      evaluation points so far, most recent first *)
  Record tstate := mkT {
    tminx : T; tmind : T; tmaxx : T; tmaxd : T; thit : nat; tev : list (option T) }.

  (** outcome of the early [return] inside the inner loop: (x, delta, evals) *)
  Definition early := (T * T * list (option T))%type.

  (** one pass of the body of [for _, trial := range trialXs] *)
  Definition try_one (x : T) (t : trial) (s : tstate) : early + tstate :=
    match t with
    | NaNPt v =>
        (* |x - NaN| < conv is false: no hit.  fn(NaN) is evaluated. *)
        let td := f v in
        let ev := None :: tev s in
        if aabs td <? tol then inl (v, td, ev)
        else (* trialDelta < 0: NaN > minTrialX false; else: NaN < maxTrialX false *)
          inr (mkT (tminx s) (tmind s) (tmaxx s) (tmaxd s) (thit s) ev)
    | Pt p =>
        let hit := if aabs (x - p) <? conv then S (thit s) else thit s in
        let td := f p in
        let ev := Some p :: tev s in
        if aabs td <? tol then inl (p, td, ev)
        else if td <? zero then
          if (p >? tminx s) && (p <=? tmaxx s)
          then inr (mkT p td (tmaxx s) (tmaxd s) hit ev)
          else inr (mkT (tminx s) (tmind s) (tmaxx s) (tmaxd s) hit ev)
        else
          if (p <? tmaxx s) && (p >=? tminx s)
          then inr (mkT (tminx s) (tmind s) p td hit ev)
          else inr (mkT (tminx s) (tmind s) (tmaxx s) (tmaxd s) hit ev)
    end.

  Fixpoint try_all (x : T) (ts : list trial) (s : tstate) : early + tstate :=
    match ts with
    | [] => inr s
    | t :: r => match try_one x t s with
                | inl e => inl e
                | inr s' => try_all x r s'
                end
    end.

  (** state of the outer loop *)
  Record st := mkS {
    sx : T; sd : T;                     (* x, delta *)
    smin : T; smind : T;                (* minX, minDelta *)
    smax : T; smaxd : T;                (* maxX, maxDelta *)
    sev : list (option T);              (* fn evaluation points, most recent first *)
    sdev : list T }.                    (* fn_dx evaluation points, most recent first *)

  Record result := mkR { rx : T; rdelta : T; revals : list (option T); rdevals : list T }.

  Definition half : T := of_q 1 2.      (* the Go constant 0.5 *)

  Definition halving_x (s : st) : T := smax s - (smax s - smin s) * half.
  Definition secant_den (s : st) : T := smaxd s - smind s.
  Definition secant_x (s : st) : T := smax s - (smax s - smin s) * smaxd s / secant_den s.
  Definition secant_trial (s : st) : trial :=
    if secant_den s =? zero then NaNPt (secant_x s) else Pt (secant_x s).

  (** the trial list of one iteration and the updated list of fn_dx evaluation points *)
  Definition trials (s : st) : list trial * list T :=
    let base := [Pt (halving_x s); secant_trial s] in
    match fdx with
    | None => (base, sdev s)
    | Some g =>
        let deriv := g (sx s) in
        let dev := sx s :: sdev s in
        if negb (deriv =? zero) then
          let nr := sx s - sd s / deriv in
          if (nr >? smin s) && (nr <? smax s) then (base ++ [Pt nr], dev) else (base, dev)
        else (base, dev)
    end.

  Inductive outcome := Done (r : result) | Cont (s : st).

  (** one iteration of the outer loop *)
  Definition iter (s : st) : outcome :=
    let '(ts, dev) := trials s in
    match try_all (sx s) ts (mkT (smin s) (smind s) (smax s) (smaxd s) O (sev s)) with
    | inl (x, d, ev) => Done (mkR x d (rev ev) (rev dev))
    | inr t =>
        let '(x, d) := if aabs (tmind t) <=? tmaxd t then (tminx t, tmind t) else (tmaxx t, tmaxd t) in
        if Nat.eqb (thit t) (length ts)
        then Done (mkR x d (rev (tev t)) (rev dev))
        else Cont (mkS x d (tminx t) (tmind t) (tmaxx t) (tmaxd t) (tev t) dev)
    end.

  Definition finish (s : st) : result := mkR (sx s) (sd s) (rev (sev s)) (rev (sdev s)).

  (** [for iteration := 0; iteration < maxIterations; iteration++] *)
  Fixpoint loop (n : nat) (s : st) : result :=
    match n with
    | O => finish s
    | S k => match iter s with
             | Done r => r
             | Cont s' => loop k s'
             end
    end.

  (** the state after [k] complete iterations, when none of them returned *)
  Fixpoint iter_k (k : nat) (s : st) : outcome :=
    match k with
    | O => Cont s
    | S j => match iter s with
             | Done r => Done r
             | Cont s' => iter_k j s'
             end
    end.

  Definition init_state (x0 a b : T) : st :=
    let d := f x0 in
    let maxd := f b in
    let mind := f a in
    mkS x0 d a mind b maxd [Some a; Some b; Some x0] [].

  (** [None] = panic("Invalid range") *)
  Definition find_root (x0 a b : T) (n : nat) : option result :=
    let s := init_state x0 a b in
    if (smind s >? zero) || (smaxd s <? zero) then None
    else Some (loop n s).
End FindRoot.

Arguments Pt {T} p.
Arguments NaNPt {T} v.
Arguments Done {T} r.
Arguments Cont {T} s.

(** ------------------------------------------------------------------
    Test-function families used by the correspondence check (the same
    definitions are implemented line by line in harness/cmd/owrun/c18.go). *)
Section TestFns.
  Context {T : Type} {A : Arith T}.
  Local Open Scope ar_scope.

  (** Horner: cs = [c0; c1; ...; ck]  |->  c0 + x*(c1 + x*(... + x*ck)) ; [] |-> 0 *)
  Fixpoint tf_poly (cs : list T) (x : T) : T :=
    match cs with
    | [] => zero
    | [c] => c
    | c :: r => c + x * tf_poly r x
    end.

  (** piecewise linear through (xs_i, ys_i), constant outside the knots:
        if x <= xs[0] return ys[0]
        for i := 1..n-1: if x <= xs[i] return ys[i-1] + (x-xs[i-1])*(ys[i]-ys[i-1])/(xs[i]-xs[i-1])
        return ys[n-1]                       (also for NaN)   *)
  Fixpoint tf_pwl_loop (px py : T) (ks : list (T * T)) (x : T) : T :=
    match ks with
    | [] => py
    | (kx, ky) :: r =>
        if x <=? kx then py + (x - px) * (ky - py) / (kx - px)
        else tf_pwl_loop kx ky r x
    end.
  Definition tf_pwl (ks : list (T * T)) (x : T) : T :=
    match ks with
    | [] => zero
    | (kx, ky) :: r => if x <=? kx then ky else tf_pwl_loop kx ky r x
    end.

  (** k * (x - r)^p by repeated multiplication ( acc := d; acc = acc*d  p-1 times ); p = 0 gives k.
      Odd p: non-decreasing and FLAT at the root r (Newton converges only linearly there);
      the derivative is the same family with k*p and p-1. *)
  Fixpoint tf_ipow (d : T) (p : nat) : T :=
    match p with
    | O => one
    | S O => d
    | S q => d * tf_ipow d q
    end.
  Definition tf_shpow (k r : T) (p : nat) (x : T) : T := k * tf_ipow (x - r) p.

  (** residuals of NESTED solves (re-entrancy stream of the check): at parent point p a level's
      residual is  (f x - t*p)  and, when the level has an inner solve whose root at x is y,
      (f x - t*p) + s*y *)
  (** quotient of two test functions (derivatives / residuals that are 0, +-Inf or NaN at chosen points) *)
  Definition tf_div (fx gx : T) : T := fx / gx.
  Definition tf_nest_inner (fx t p : T) : T := fx - t * p.
  Definition tf_nest_outer (fx t p s y : T) : T := (fx - t * p) + s * y.

  (** k * x^m - c  (math.Pow; the storage-routing S = k Q^m shape) *)
  Definition tf_pow (k m c x : T) : T := k * apow x m - c.
End TestFns.

(** Flat interface for the OCaml driver (unique names, plain tuples). *)
Section Driver.
  Context {T : Type} {A : Arith T}.
  Definition c18_find_root (f : T -> T) (fdx : option (T -> T)) (tol conv x0 a b : T) (n : nat)
    : option (T * T * list (option T) * list T) :=
    match find_root f fdx tol conv x0 a b n with
    | None => None
    | Some r => Some (rx r, rdelta r, revals r, rdevals r)
    end.
  Definition c18_tf_poly : list T -> T -> T := tf_poly.
  Definition c18_tf_pwl : list (T * T) -> T -> T := tf_pwl.
  Definition c18_tf_pow : T -> T -> T -> T -> T := tf_pow.
  Definition c18_tf_shpow : T -> T -> nat -> T -> T := tf_shpow.
  Definition c18_tf_nest_inner : T -> T -> T -> T := tf_nest_inner.
  Definition c18_tf_nest_outer : T -> T -> T -> T -> T -> T := tf_nest_outer.
  Definition c18_tf_div : T -> T -> T := tf_div.
End Driver.
