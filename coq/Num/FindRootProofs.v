(** Proofs about the model of util/fn/root.go (Num/FindRoot.v) at the real-number
    instance [RArith]; [f : R -> R] is arbitrary (a Section variable).

    Main results (section Final, then the witnesses):
      findroot_defined_iff              panic  <->  wrong signs at the bracket ends
      findroot_value_is_f               returned delta = f (returned x), any f, any inputs
      findroot_in_interval_any_f        x in [a,b] (or the NaN trial was evaluated), proper evaluation points in [a,b]
      findroot_evals_inside             tol>0, not the degenerate bracket: every evaluation inside [a,b], x in [a,b]
      findroot_evals_inside_neg_end     f a < 0: the same for ANY tolerance (the NaN trial needs f a = 0)
      findroot_nan_trial_evaluated      the side condition is exact: degenerate bracket => fn(NaN) is evaluated
      findroot_bracket_invariant        after k iterations f lo <= 0 <= f hi, a<=lo<=hi<=b, hi-lo <= (b-a)/2^k
      findroot_no_worse_or_within_tol   non-decreasing f, n>=1: |delta| < tol \/ |delta| <= min(|f a|,|f b|)
      findroot_evals_inside_monotone    non-decreasing f, tol>0: no side condition needed
      findroot_converges                L-Lipschitz f: |delta| < tol when L(b-a)/2^n < tol, L conv < tol and the guess
                                        is an end of the bracket or at least conv away from its midpoint
      findroot_converges_modulus        the general form: every bracket of width <= w has an end within tol, (b-a)/2^n <= w,
                                        conv <= w, n >= 1 (covers functions flat at the root, where L is far too pessimistic)
      findroot_converges_any_guess_refuted   ... and that last hypothesis cannot be dropped (witness 2x^2-1, guess 1/2)
      findroot_no_worse_strict_refuted  the strict "no worse than the better end" is false (witness x-1/8, tol 1/2)
      findroot_zero_iterations          n = 0 returns the guess *)
From Coq Require Import ZArith Reals Lra Lia List Bool Psatz.
From OW Require Import Base.Arith Base.RInst Num.FindRoot.
Import ListNotations.
Local Open Scope R_scope.

Section P.
Variable f : R -> R.
Variable fdx : option (R -> R).
Variables tol conv : R.
Notation try_one := (@try_one R RArith f tol conv).
Notation try_all := (@try_all R RArith f tol conv).
Notation iter := (@iter R RArith f fdx tol conv).
Notation loop := (@loop R RArith f fdx tol conv).
Notation iter_k := (@iter_k R RArith f fdx tol conv).
Notation trials := (@trials R RArith fdx).
Notation find_root := (@find_root R RArith f fdx tol conv).
Notation init_state := (@init_state R f).

Lemma try_one_Pt_cases x p s :
  let ev := Some p :: tev s in
  (Rabs (f p) < tol /\ try_one x (Pt p) s = inl (p, f p, ev)) \/
  (tol <= Rabs (f p) /\
   exists hit, ((hit = S (thit s) /\ Rabs (x - p) < conv) \/ (hit = thit s /\ conv <= Rabs (x - p))) /\
     ((f p < 0 /\ tminx s < p <= tmaxx s /\ try_one x (Pt p) s = inr (mkT p (f p) (tmaxx s) (tmaxd s) hit ev)) \/
      (0 <= f p /\ tminx s <= p < tmaxx s /\ try_one x (Pt p) s = inr (mkT (tminx s) (tmind s) p (f p) hit ev)) \/
      (((f p < 0 /\ ~ (tminx s < p <= tmaxx s)) \/ (0 <= f p /\ ~ (tminx s <= p < tmaxx s))) /\
       try_one x (Pt p) s = inr (mkT (tminx s) (tmind s) (tmaxx s) (tmaxd s) hit ev)))).
Proof.
  intros ev. unfold FindRoot.try_one. runfold.
  rcase_bool (Rltb (Rabs (f p)) tol); [left; split; auto|right; split; auto].
  exists (if Rltb (Rabs (x - p)) conv then S (thit s) else thit s). split.
  { rcase_bool (Rltb (Rabs (x - p)) conv); [left|right]; auto. }
  rcase_bool (Rltb (f p) 0).
  - rcase_bool (Rltb (tminx s) p); rcase_bool (Rleb p (tmaxx s)); simpl; auto 8;
    right; right; (split; [left; split; [assumption|lra]|reflexivity]).
  - rcase_bool (Rltb p (tmaxx s)); rcase_bool (Rleb (tminx s) p); simpl; auto 8;
    right; right; (split; [right; split; [assumption|lra]|reflexivity]).
Qed.

Lemma try_one_NaN_cases x v s :
  let ev := None :: tev s in
  (Rabs (f v) < tol /\ try_one x (NaNPt v) s = inl (v, f v, ev)) \/
  (tol <= Rabs (f v) /\ try_one x (NaNPt v) s = inr (mkT (tminx s) (tmind s) (tmaxx s) (tmaxd s) (thit s) ev)).
Proof.
  intros ev. unfold FindRoot.try_one. runfold.
  rcase_bool (Rltb (Rabs (f v)) tol); [left|right]; auto.
Qed.

(** generic induction principles for the inner loop *)
Lemma try_all_inv (P : tstate -> Prop) (Q : trial -> Prop) x :
  (forall t s s', Q t -> P s -> try_one x t s = inr s' -> P s') ->
  forall ts s s', Forall Q ts -> P s -> try_all x ts s = inr s' -> P s'.
Proof.
  intros Hstep ts; induction ts as [|t r IH]; intros s s' HQ HP H; simpl in H.
  - inversion H; subst; auto.
  - inversion HQ; subst. destruct (try_one x t s) eqn:E; try discriminate.
    apply (IH t0 s'); eauto.
Qed.

Lemma try_all_early (P : tstate -> Prop) (Q : trial -> Prop) (E : early -> Prop) x :
  (forall t s s', Q t -> P s -> try_one x t s = inr s' -> P s') ->
  (forall t s e, Q t -> P s -> try_one x t s = inl e -> E e) ->
  forall ts s e, Forall Q ts -> P s -> try_all x ts s = inl e -> E e.
Proof.
  intros Hstep Hearly ts; induction ts as [|t r IH]; intros s e HQ HP H; simpl in H.
  - discriminate.
  - inversion HQ; subst. destruct (try_one x t s) eqn:E1.
    + inversion H; subst. eapply Hearly; eauto.
    + apply (IH t0 e); eauto.
Qed.

Ltac t1cases x t s H :=
  let p := fresh "p" in let v := fresh "v" in
  let Ht := fresh "Ht" in let E := fresh "E" in let hit := fresh "hit" in
  let Hhit := fresh "Hhit" in let Hd := fresh "Hd" in let Hp := fresh "Hp" in
  destruct t as [p|v];
  [ destruct (try_one_Pt_cases x p s) as [[Ht E]|[Ht [hit [Hhit [[Hd [Hp E]]|[[Hd [Hp E]]|[Hp E]]]]]]]
  | destruct (try_one_NaN_cases x v s) as [[Ht E]|[Ht E]] ];
  rewrite E in H; inversion H; subst; clear H.

Definition tvalid (lo hi : R) (t : trial) : Prop :=
  match t with Pt p => lo <= p <= hi | NaNPt _ => True end.

(** bracket invariant of the inner loop *)
Definition TI (lo hi : R) (t : tstate) : Prop :=
  lo <= tminx t /\ tminx t <= tmaxx t /\ tmaxx t <= hi /\
  tmind t = f (tminx t) /\ tmaxd t = f (tmaxx t) /\ tmind t <= 0 /\ 0 <= tmaxd t.

Lemma try_one_TI lo hi x t s s' : TI lo hi s -> try_one x t s = inr s' -> TI lo hi s'.
Proof.
  unfold TI; intros HI H. t1cases x t s H; simpl; intuition lra.
Qed.

Lemma try_all_TI lo hi x ts s s' : TI lo hi s -> try_all x ts s = inr s' -> TI lo hi s'.
Proof.
  intros HI H.
  apply (try_all_inv (TI lo hi) (fun _ => True) x) with (ts := ts) (s := s); auto.
  - intros; eapply try_one_TI; eauto.
  - apply Forall_forall; intros; exact I.
Qed.

(** width never grows *)
Lemma try_one_width c x t s s' : tminx s <= tmaxx s ->
  tmaxx s - tminx s <= c -> try_one x t s = inr s' -> tmaxx s' - tminx s' <= c.
Proof. intros Hle HI H. t1cases x t s H; simpl; lra. Qed.


(** ---------------------------------------------------------------- trials *)
Definition t0_of (s : @st R) : @tstate R := mkT (smin s) (smind s) (smax s) (smaxd s) O (sev s).

Lemma trials_shape s : exists extra dev,
  trials s = (Pt (halving_x s) :: secant_trial s :: extra, dev) /\
  (extra = [] \/ exists nr, extra = [Pt nr] /\ smin s < nr < smax s) /\
  (dev = sdev s \/ dev = sx s :: sdev s).
Proof.
  unfold FindRoot.trials. destruct fdx as [g|].
  - runfold. destruct (negb (Reqb (g (sx s)) 0)).
    + rcase_bool (Rltb (smin s) (sx s - sd s / g (sx s)));
      rcase_bool (Rltb (sx s - sd s / g (sx s)) (smax s)); simpl;
      eexists; eexists; (split; [reflexivity|]); split; auto.
      right; eexists; split; [reflexivity|lra].
    + eexists; eexists; (split; [reflexivity|]); split; auto.
  - eexists; eexists; (split; [reflexivity|]); split; auto.
Qed.

Lemma halving_valid s : smin s <= smax s -> smin s <= halving_x s <= smax s.
Proof. unfold halving_x, half; runfold. intros; lra. Qed.

Lemma halving_eq s : halving_x s = (smin s + smax s) / 2.
Proof. unfold halving_x, half; runfold. lra. Qed.

Lemma secant_valid s : smin s <= smax s -> smind s <= 0 -> 0 <= smaxd s ->
  tvalid (smin s) (smax s) (secant_trial s).
Proof.
  intros Hle Hlo Hhi. unfold secant_trial, secant_x, secant_den. runfold.
  rcase_bool (Reqb (smaxd s - smind s) 0); simpl; auto.
  assert (Hden : 0 < smaxd s - smind s) by lra.
  set (den := smaxd s - smind s) in *.
  set (w := smax s - smin s). assert (0 <= w) by (unfold w; lra).
  assert (Hq : 0 <= w * smaxd s / den <= w).
  { split.
    - apply Rmult_le_pos; [apply Rmult_le_pos; lra | left; apply Rinv_0_lt_compat; lra].
    - apply Rmult_le_reg_r with den; auto. unfold Rdiv. rewrite Rmult_assoc, Rinv_l by lra.
      unfold den. nra. }
  unfold w in *. lra.
Qed.

Lemma secant_is_Pt s : secant_den s <> 0 -> secant_trial s = Pt (secant_x s).
Proof.
  intros H. unfold secant_trial. runfold.
  rcase_bool (Reqb (secant_den s) 0); auto. contradiction.
Qed.
Lemma secant_is_NaN s : secant_den s = 0 -> secant_trial s = NaNPt (secant_x s).
Proof.
  intros H. unfold secant_trial. runfold.
  rcase_bool (Reqb (secant_den s) 0); auto. contradiction.
Qed.

(** iter, restated *)
Lemma iter_spec s : forall ts dev, trials s = (ts, dev) ->
  match try_all (sx s) ts (t0_of s) with
  | inl (x, d, ev) => iter s = Done (mkR x d (rev ev) (rev dev))
  | inr t =>
      let x := if Rleb (Rabs (tmind t)) (tmaxd t) then tminx t else tmaxx t in
      let d := if Rleb (Rabs (tmind t)) (tmaxd t) then tmind t else tmaxd t in
      (thit t = length ts /\ iter s = Done (mkR x d (rev (tev t)) (rev dev))) \/
      (thit t <> length ts /\ iter s = Cont (mkS x d (tminx t) (tmind t) (tmaxx t) (tmaxd t) (tev t) dev))
  end.
Proof.
  intros ts dev Et. unfold FindRoot.iter. rewrite Et. unfold t0_of.
  destruct (try_all (sx s) ts _) as [[[x d] ev]|t]; auto.
  runfold. destruct (Rleb (Rabs (tmind t)) (tmaxd t));
  destruct (Nat.eqb (thit t) (length ts)) eqn:En;
  (apply Nat.eqb_eq in En || apply Nat.eqb_neq in En); auto.
Qed.


(** ---------------------------------------------------------------- value = f(point), any f *)
Definition VI (s : @st R) : Prop := smind s = f (smin s) /\ smaxd s = f (smax s) /\ sd s = f (sx s).
Definition TV (t : @tstate R) : Prop := tmind t = f (tminx t) /\ tmaxd t = f (tmaxx t).

Lemma try_one_TV x t s s' : TV s -> try_one x t s = inr s' -> TV s'.
Proof. unfold TV; intros HI H. t1cases x t s H; simpl; intuition. Qed.

Lemma try_one_early_value x t s p d ev : try_one x t s = inl (p, d, ev) -> d = f p.
Proof. intros H. t1cases x t s H; reflexivity. Qed.

Lemma Forall_True {X} (l : list X) : Forall (fun _ => True) l.
Proof. apply Forall_forall; intros; exact I. Qed.

Lemma iter_VI s : VI s ->
  match iter s with Cont s' => VI s' | Done r => rdelta r = f (rx r) end.
Proof.
  intros (H1 & H2 & H3).
  destruct (trials_shape s) as (extra & dev & Et & _ & _).
  pose proof (iter_spec s _ _ Et) as Hs.
  destruct (try_all (sx s) _ (t0_of s)) as [[[x d] ev]|t] eqn:Ea.
  - rewrite Hs; simpl.
    apply (try_all_early TV (fun _ => True) (fun e => snd (fst e) = f (fst (fst e))) (sx s)) in Ea; auto.
    + intros; eapply try_one_TV; eauto.
    + intros t s0 [[p d0] ev0] _ _ He; simpl. eapply try_one_early_value; eauto.
    + apply Forall_True.
    + split; simpl; auto.
  - assert (HT : TV t).
    { apply (try_all_inv TV (fun _ => True) (sx s)) in Ea; auto.
      - intros; eapply try_one_TV; eauto.
      - apply Forall_True.
      - split; simpl; auto. }
    destruct HT as [T1 T2].
    destruct Hs as [[_ Hs]|[_ Hs]]; rewrite Hs; unfold VI; simpl;
      destruct (Rleb (Rabs (tmind t)) (tmaxd t)); auto.
Qed.

Lemma loop_value n : forall s, VI s -> rdelta (loop n s) = f (rx (loop n s)).
Proof.
  induction n as [|n IH]; intros s HV; simpl.
  - destruct HV as (_ & _ & H); exact H.
  - pose proof (iter_VI s HV) as H. destruct (iter s); auto.
Qed.


(** ---------------------------------------------------------------- bracket invariant *)
Section AB.
Variables a b : R.

Definition SI (s : @st R) : Prop :=
  a <= smin s /\ smin s <= smax s /\ smax s <= b /\
  smind s = f (smin s) /\ smaxd s = f (smax s) /\ smind s <= 0 /\ 0 <= smaxd s /\
  sd s = f (sx s) /\ a <= sx s <= b.

(** what the end of one iteration establishes, relative to the state [s] it started from *)
Definition EndIt (s : @st R) (x' d' lo' dlo' hi' dhi' : R) : Prop :=
  smin s <= lo' /\ lo' <= hi' /\ hi' <= smax s /\ dlo' = f lo' /\ dhi' = f hi' /\
  dlo' <= 0 /\ 0 <= dhi' /\ hi' - lo' <= (smax s - smin s) / 2 /\
  ((x' = lo' /\ d' = dlo') \/ (x' = hi' /\ d' = dhi')) /\
  Rabs d' <= Rabs dlo' /\ Rabs d' <= dhi'.

Lemma SI_t0 s : SI s -> TI (smin s) (smax s) (t0_of s).
Proof. unfold SI, TI, t0_of; simpl; intuition lra. Qed.

Lemma first_trial_halves x s t1 : smin s <= smax s ->
  try_one x (Pt (halving_x s)) (t0_of s) = inr t1 ->
  tmaxx t1 - tminx t1 <= (smax s - smin s) / 2.
Proof.
  intros Hle H. pose proof (halving_eq s) as Hm.
  destruct (try_one_Pt_cases x (halving_x s) (t0_of s))
    as [[Ht E]|[Ht [hit [Hhit [[Hd [Hp E]]|[[Hd [Hp E]]|[Hp E]]]]]]];
  rewrite E in H; inversion H; subst; clear H; simpl in *; lra.
Qed.

Lemma try_all_cons x t r s :
  try_all x (t :: r) s = match try_one x t s with inl e => inl e | inr s' => try_all x r s' end.
Proof. reflexivity. Qed.

Lemma try_one_early_tol x t s p d ev : try_one x t s = inl (p, d, ev) -> Rabs d < tol.
Proof. intros H. t1cases x t s H; assumption. Qed.

Lemma try_all_early_tol x ts s p d ev : try_all x ts s = inl (p, d, ev) -> Rabs d < tol.
Proof.
  revert s; induction ts as [|t r IH]; intros s H; simpl in H; try discriminate.
  destruct (try_one x t s) as [[[p0 d0] ev0]|s1] eqn:E.
  - inversion H; subst. eapply try_one_early_tol; eauto.
  - eapply IH; eauto.
Qed.

Lemma try_one_hit x t s s' : try_one x t s = inr s' ->
  thit s' = thit s \/ (thit s' = S (thit s) /\ exists p, t = Pt p /\ Rabs (x - p) < conv).
Proof.
  intros H. t1cases x t s H; simpl; auto;
  destruct Hhit as [[-> Hh]|[-> Hh]]; auto; right; split; auto; eexists; split; eauto.
Qed.

Lemma try_all_hits x ts : forall s t, try_all x ts s = inr t ->
  (thit t <= thit s + length ts)%nat /\
  (thit t = (thit s + length ts)%nat ->
   Forall (fun tr => exists p, tr = Pt p /\ Rabs (x - p) < conv) ts).
Proof.
  induction ts as [|tr r IH]; intros s t H; simpl in H.
  - inversion H; subst; simpl. split; [lia|constructor].
  - destruct (try_one x tr s) as [e|s1] eqn:E; try discriminate.
    destruct (IH _ _ H) as [Hle Hall]. simpl.
    destruct (try_one_hit _ _ _ _ E) as [He|[He Hp]].
    + split; [lia|]. intros Heq. exfalso; lia.
    + split; [lia|]. intros Heq. constructor; auto. apply Hall; lia.
Qed.

Lemma iter_SI s : SI s ->
  match iter s with
  | Cont s' => EndIt s (sx s') (sd s') (smin s') (smind s') (smax s') (smaxd s')
  | Done r => Rabs (rdelta r) < tol \/
              (exists lo' dlo' hi' dhi', EndIt s (rx r) (rdelta r) lo' dlo' hi' dhi' /\
                                         Rabs (sx s - halving_x s) < conv)
  end.
Proof.
  intros HS.
  destruct (trials_shape s) as (extra & dev & Et & _ & _).
  pose proof (iter_spec s _ _ Et) as Hs.
  destruct (try_all (sx s) _ (t0_of s)) as [[[x d] ev]|t] eqn:Ea.
  - rewrite Hs; simpl. left. eapply try_all_early_tol; eauto.
  - pose proof (SI_t0 s HS) as HT0.
    pose proof (try_all_TI _ _ _ _ _ _ HT0 Ea) as HT.
    assert (Hle : smin s <= smax s) by (destruct HS; tauto).
    assert (Hw : tmaxx t - tminx t <= (smax s - smin s) / 2).
    { rewrite try_all_cons in Ea. destruct (try_one (sx s) (Pt (halving_x s)) (t0_of s)) as [e|t1] eqn:E1; try discriminate.
      pose proof (first_trial_halves _ _ _ Hle E1) as Hw1.
      pose proof (try_one_TI _ _ _ _ _ _ HT0 E1) as HT1.
      apply (try_all_inv (fun u => TI (smin s) (smax s) u /\ tmaxx u - tminx u <= (smax s - smin s) / 2)
                         (fun _ => True) (sx s)) in Ea; [tauto| |apply Forall_True|auto].
      intros t2 u u' _ [Hu1 Hu2] Hu. split; [eapply try_one_TI; eauto|].
      eapply try_one_width; eauto. destruct Hu1; tauto. }
    destruct HT as (T1 & T2 & T3 & T4 & T5 & T6 & T7).
    assert (HE : EndIt s (if Rleb (Rabs (tmind t)) (tmaxd t) then tminx t else tmaxx t)
                         (if Rleb (Rabs (tmind t)) (tmaxd t) then tmind t else tmaxd t)
                         (tminx t) (tmind t) (tmaxx t) (tmaxd t)).
    { unfold EndIt. repeat (split; [assumption|]).
      rcase_bool (Rleb (Rabs (tmind t)) (tmaxd t)).
      - split; [left; auto|]. split; [lra|auto].
      - split; [right; auto|]. rewrite (Rabs_right (tmaxd t)) by lra. split; lra. }
    destruct Hs as [[Hh Hs]|[_ Hs]]; rewrite Hs; simpl; auto.
    right. exists (tminx t), (tmind t), (tmaxx t), (tmaxd t). split; auto.
    destruct (try_all_hits _ _ _ _ Ea) as [_ Hall].
    simpl in Hall, Hh. specialize (Hall Hh). inversion Hall as [|? ? (p & Hp1 & Hp2) _]; subst.
    inversion Hp1; subst. exact Hp2.
Qed.


Lemma EndIt_SI s s' : SI s ->
  EndIt s (sx s') (sd s') (smin s') (smind s') (smax s') (smaxd s') -> SI s'.
Proof.
  unfold SI, EndIt. intros HS HE.
  destruct HE as (E1 & E2 & E3 & E4 & E5 & E6 & E7 & E8 & [[E9 E10]|[E9 E10]] & E11 & E12);
  rewrite E9, E10; intuition lra.
Qed.

Lemma iter_Cont_SI s s' : SI s -> iter s = Cont s' -> SI s'.
Proof.
  intros HS H. pose proof (iter_SI s HS) as HI. rewrite H in HI. eapply EndIt_SI; eauto.
Qed.

Lemma loop_iter_k n : forall s,
  loop n s = match iter_k n s with Done r => r | Cont s' => finish s' end.
Proof.
  induction n as [|n IH]; intros s; simpl; auto.
  destruct (iter s); auto.
Qed.

(** the bracket after k complete iterations *)
Lemma iter_k_bracket k : forall s s', SI s -> iter_k k s = Cont s' ->
  SI s' /\ smin s <= smin s' /\ smax s' <= smax s /\
  smax s' - smin s' <= (smax s - smin s) / 2 ^ k /\
  ((1 <= k)%nat -> (sx s' = smin s' \/ sx s' = smax s') /\
                   Rabs (sd s') <= Rabs (smind s') /\ Rabs (sd s') <= smaxd s').
Proof.
  induction k as [|k IH]; intros s s' HS H; simpl in H.
  - inversion H; subst. split; [auto|]. split; [lra|]. split; [lra|].
    split; [simpl; lra|intros; lia].
  - destruct (iter s) as [r|s1] eqn:E; try discriminate.
    pose proof (iter_SI s HS) as HI. rewrite E in HI.
    pose proof (EndIt_SI _ _ HS HI) as HS1.
    destruct (IH _ _ HS1 H) as (I1 & I2 & I3 & I4 & I5).
    destruct HI as (E1 & E2 & E3 & E4 & E5 & E6 & E7 & E8 & E9 & E10 & E11).
    split; auto. split; [lra|]. split; [lra|]. split.
    + assert (Hp : 0 < 2 ^ k) by (apply pow_lt; lra).
      assert (Hq : (smax s1 - smin s1) / 2 ^ k <= (smax s - smin s) / 2 / 2 ^ k).
      { apply Rmult_le_compat_r; [left; apply Rinv_0_lt_compat; auto|lra]. }
      replace ((smax s - smin s) / 2 ^ S k) with ((smax s - smin s) / 2 / 2 ^ k); [lra|].
      simpl. field. lra.
    + intros _. destruct k as [|k'].
      * simpl in H. inversion H; subst. split; [|split]; auto.
        destruct E9 as [[? _]|[? _]]; auto.
      * apply I5; lia.
Qed.


(** ---------------------------------------------------------------- evaluation points *)
Definition okpt (o : option R) : Prop := match o with Some p => a <= p <= b | None => True end.
Definition inab (p : R) : Prop := a <= p <= b.
Definition inside (o : option R) : Prop := match o with Some p => a <= p <= b | None => False end.

Lemma inside_okpt l : Forall okpt l -> ~ In None l -> Forall inside l.
Proof.
  intros H Hn. apply Forall_forall. intros [p|] Hin.
  - rewrite Forall_forall in H. exact (H _ Hin).
  - contradiction.
Qed.

Lemma try_one_ev lo hi x t s s' : a <= lo -> hi <= b -> tvalid lo hi t ->
  Forall okpt (tev s) -> try_one x t s = inr s' -> Forall okpt (tev s').
Proof.
  intros Ha Hb Hv HF H. t1cases x t s H; simpl in *; constructor; simpl; auto; lra.
Qed.

Lemma try_one_ev_early lo hi x t s p d ev : a <= lo -> hi <= b -> tvalid lo hi t ->
  Forall okpt (tev s) -> try_one x t s = inl (p, d, ev) ->
  Forall okpt ev /\ (a <= p <= b \/ In None ev).
Proof.
  intros Ha Hb Hv HF H. t1cases x t s H; simpl in *.
  - split; [constructor; simpl; auto; lra|left; lra].
  - split; [constructor; simpl; auto|right; auto].
Qed.

Lemma trials_valid s extra : SI s ->
  (extra = [] \/ exists nr, extra = [Pt nr] /\ smin s < nr < smax s) ->
  Forall (tvalid (smin s) (smax s)) (Pt (halving_x s) :: secant_trial s :: extra).
Proof.
  intros HS Hex. destruct HS as (S1 & S2 & S3 & S4 & S5 & S6 & S7 & S8 & S9).
  constructor; [apply halving_valid; auto|].
  constructor; [apply secant_valid; auto|].
  destruct Hex as [->|(nr & -> & Hnr)]; constructor; simpl; auto; lra.
Qed.

Lemma iter_ev s : SI s -> Forall okpt (sev s) -> Forall inab (sdev s) ->
  match iter s with
  | Cont s' => Forall okpt (sev s') /\ Forall inab (sdev s')
  | Done r => Forall okpt (revals r) /\ Forall inab (rdevals r) /\
              (a <= rx r <= b \/ In None (revals r))
  end.
Proof.
  intros HS He Hd.
  destruct (trials_shape s) as (extra & dev & Et & Hex & Hdev).
  pose proof (trials_valid s extra HS Hex) as Hval.
  pose proof (iter_spec s _ _ Et) as Hs.
  assert (Hlo : a <= smin s) by (destruct HS; tauto).
  assert (Hhi : smax s <= b) by (destruct HS; tauto).
  assert (Hdev' : Forall inab dev).
  { destruct Hdev as [->| ->]; auto. constructor; auto. destruct HS; unfold inab; tauto. }
  destruct (try_all (sx s) _ (t0_of s)) as [[[x d] ev]|t] eqn:Ea.
  - rewrite Hs; simpl.
    apply (try_all_early (fun u => Forall okpt (tev u)) (tvalid (smin s) (smax s))
             (fun e => Forall okpt (snd e) /\ (a <= fst (fst e) <= b \/ In None (snd e))) (sx s)) in Ea; auto.
    + simpl in Ea. destruct Ea as [E1 E2]. split; [apply Forall_rev; auto|]. split; [apply Forall_rev; auto|].
      destruct E2 as [E2|E2]; auto. right. apply in_rev in E2. exact E2.
    + intros; eapply try_one_ev; eauto.
    + intros t s0 [[p0 d0] ev0] Hq Hp He0; simpl. eapply try_one_ev_early; eauto.
  - pose proof (try_all_TI _ _ _ _ _ _ (SI_t0 s HS) Ea) as HT.
    apply (try_all_inv (fun u => Forall okpt (tev u)) (tvalid (smin s) (smax s)) (sx s)) in Ea; auto.
    2:{ intros; eapply try_one_ev; eauto. }
    destruct HT as (T1 & T2 & T3 & _).
    destruct Hs as [[_ Hs]|[_ Hs]]; rewrite Hs; simpl; auto.
    split; [apply Forall_rev; auto|]. split; [apply Forall_rev; auto|].
    left. destruct (Rleb (Rabs (tmind t)) (tmaxd t)); lra.
Qed.


(** ---------------------------------------------------------------- when is the NaN trial evaluated *)
Definition isPt (t : @trial R) : Prop := exists p, t = Pt p.
Definition nondeg_t (t : @tstate R) : Prop := tmind t < 0 \/ 0 < tmaxd t.
Definition nondeg (s : @st R) : Prop := smind s < 0 \/ 0 < smaxd s.

Lemma try_one_nonan x t s s' : isPt t -> ~ In None (tev s) -> try_one x t s = inr s' -> ~ In None (tev s').
Proof.
  intros [q Hq] Hn H. t1cases x t s H; try discriminate; simpl; intros [Hc|Hc]; try discriminate; auto.
Qed.

Lemma try_one_nonan_early x t s p d ev : isPt t -> ~ In None (tev s) -> try_one x t s = inl (p, d, ev) -> ~ In None ev.
Proof.
  intros [q Hq] Hn H. t1cases x t s H; try discriminate; simpl; intros [Hc|Hc]; try discriminate; auto.
Qed.

Lemma try_one_nondeg x t s s' : 0 < tol -> nondeg_t s -> try_one x t s = inr s' -> nondeg_t s'.
Proof.
  unfold nondeg_t. intros Htol Hn H. t1cases x t s H; simpl; auto.
  right. rewrite Rabs_right in Ht by lra. lra.
Qed.

Lemma iter_nonan s : 0 < tol -> SI s -> nondeg s -> ~ In None (sev s) ->
  match iter s with
  | Cont s' => nondeg s' /\ ~ In None (sev s')
  | Done r => ~ In None (revals r)
  end.
Proof.
  intros Htol HS Hnd Hn.
  destruct (trials_shape s) as (extra & dev & Et & Hex & _).
  pose proof (iter_spec s _ _ Et) as Hs.
  assert (Hall : Forall isPt (Pt (halving_x s) :: secant_trial s :: extra)).
  { constructor; [eexists; reflexivity|]. constructor.
    - rewrite secant_is_Pt; [eexists; reflexivity|].
      unfold secant_den; runfold. destruct HS as (_ & _ & _ & _ & _ & S6 & S7 & _). destruct Hnd; lra.
    - destruct Hex as [->|(nr & -> & _)]; constructor; auto. eexists; reflexivity. }
  destruct (try_all (sx s) _ (t0_of s)) as [[[x d] ev]|t] eqn:Ea.
  - rewrite Hs; simpl. rewrite <- in_rev.
    apply (try_all_early (fun u => ~ In None (tev u)) isPt (fun e => ~ In None (snd e)) (sx s)) in Ea; auto.
    + intros; eapply try_one_nonan; eauto.
    + intros t s0 [[p0 d0] ev0] Hq Hp He0; simpl. eapply try_one_nonan_early; eauto.
  - apply (try_all_inv (fun u => nondeg_t u /\ ~ In None (tev u)) isPt (sx s)) in Ea; auto.
    + destruct Ea as [E1 E2].
      destruct Hs as [[_ Hs]|[_ Hs]]; rewrite Hs; simpl; auto. rewrite <- in_rev; auto.
    + intros t1 u u' Hq [Hu1 Hu2] Hu. split; [eapply try_one_nondeg; eauto|eapply try_one_nonan; eauto].
Qed.

Lemma loop_nonan n : forall s, 0 < tol -> SI s -> nondeg s -> ~ In None (sev s) ->
  ~ In None (revals (loop n s)).
Proof.
  induction n as [|n IH]; intros s Htol HS Hnd Hn; simpl.
  - rewrite <- in_rev; auto.
  - pose proof (iter_nonan s Htol HS Hnd Hn) as H.
    destruct (iter s) as [r|s1] eqn:E; auto.
    destruct H. apply IH; auto. eapply iter_Cont_SI; eauto.
Qed.

(** with a strictly negative value at the lower end the secant denominator is never zero,
    whatever the tolerance *)
Lemma try_one_negmin x t s s' : tmind s < 0 -> try_one x t s = inr s' -> tmind s' < 0.
Proof. intros Hn H. t1cases x t s H; simpl; auto. Qed.

Lemma iter_nonan_neg s : SI s -> smind s < 0 -> ~ In None (sev s) ->
  match iter s with
  | Cont s' => smind s' < 0 /\ ~ In None (sev s')
  | Done r => ~ In None (revals r)
  end.
Proof.
  intros HS Hnd Hn.
  destruct (trials_shape s) as (extra & dev & Et & Hex & _).
  pose proof (iter_spec s _ _ Et) as Hs.
  assert (Hall : Forall isPt (Pt (halving_x s) :: secant_trial s :: extra)).
  { constructor; [eexists; reflexivity|]. constructor.
    - rewrite secant_is_Pt; [eexists; reflexivity|].
      unfold secant_den; runfold. destruct HS as (_ & _ & _ & _ & _ & S6 & S7 & _). lra.
    - destruct Hex as [->|(nr & -> & _)]; constructor; auto. eexists; reflexivity. }
  destruct (try_all (sx s) _ (t0_of s)) as [[[x d] ev]|t] eqn:Ea.
  - rewrite Hs; simpl. rewrite <- in_rev.
    apply (try_all_early (fun u => ~ In None (tev u)) isPt (fun e => ~ In None (snd e)) (sx s)) in Ea; auto.
    + intros; eapply try_one_nonan; eauto.
    + intros t s0 [[p0 d0] ev0] Hq Hp He0; simpl. eapply try_one_nonan_early; eauto.
  - apply (try_all_inv (fun u => tmind u < 0 /\ ~ In None (tev u)) isPt (sx s)) in Ea; auto.
    + destruct Ea as [E1 E2].
      destruct Hs as [[_ Hs]|[_ Hs]]; rewrite Hs; simpl; auto. rewrite <- in_rev; auto.
    + intros t1 u u' Hq [Hu1 Hu2] Hu. split; [eapply try_one_negmin; eauto|eapply try_one_nonan; eauto].
Qed.

Lemma loop_nonan_neg n : forall s, SI s -> smind s < 0 -> ~ In None (sev s) ->
  ~ In None (revals (loop n s)).
Proof.
  induction n as [|n IH]; intros s HS Hnd Hn; simpl.
  - rewrite <- in_rev; auto.
  - pose proof (iter_nonan_neg s HS Hnd Hn) as H.
    destruct (iter s) as [r|s1] eqn:E; auto.
    destruct H. apply IH; auto. eapply iter_Cont_SI; eauto.
Qed.

(** degenerate bracket (both end values zero): the first trial decides *)
Lemma iter_first_trial_early s : Rabs (f (halving_x s)) < tol ->
  exists dev, iter s = Done (mkR (halving_x s) (f (halving_x s)) (rev (Some (halving_x s) :: sev s)) (rev dev)).
Proof.
  intros Ht.
  destruct (trials_shape s) as (extra & dev & Et & _ & _).
  pose proof (iter_spec s _ _ Et) as Hs. rewrite try_all_cons in Hs.
  destruct (try_one_Pt_cases (sx s) (halving_x s) (t0_of s)) as [[_ E]|[Hc _]]; [|lra].
  rewrite E in Hs. exists dev. exact Hs.
Qed.

Lemma try_all_keeps x ts : forall s, 
  match try_all x ts s with
  | inl (_, _, ev) => incl (tev s) ev
  | inr t => incl (tev s) (tev t)
  end.
Proof.
  induction ts as [|t r IH]; intros s; simpl.
  - apply incl_refl.
  - destruct (try_one x t s) as [[[p d] ev]|s1] eqn:E.
    + t1cases x t s E; apply incl_tl, incl_refl.
    + specialize (IH s1).
      assert (incl (tev s) (tev s1)) by (t1cases x t s E; simpl; apply incl_tl, incl_refl).
      destruct (try_all x r s1) as [[[p d] ev]|t']; eapply incl_tran; eauto.
Qed.

Lemma iter_keeps s e : In e (sev s) ->
  match iter s with Cont s' => In e (sev s') | Done r => In e (revals r) end.
Proof.
  intros Hin. destruct (trials_shape s) as (extra & dev & Et & _ & _).
  pose proof (iter_spec s _ _ Et) as Hs.
  pose proof (try_all_keeps (sx s) (Pt (halving_x s) :: secant_trial s :: extra) (t0_of s)) as Hk.
  destruct (try_all (sx s) _ (t0_of s)) as [[[x d] ev]|t] eqn:Ea.
  - rewrite Hs; simpl. rewrite <- in_rev. apply Hk; auto.
  - destruct Hs as [[_ Hs]|[_ Hs]]; rewrite Hs; simpl; [rewrite <- in_rev|]; apply Hk; auto.
Qed.

Lemma loop_keeps n e : forall s, In e (sev s) -> In e (revals (loop n s)).
Proof.
  induction n as [|n IH]; intros s Hin; simpl.
  - rewrite <- in_rev; auto.
  - pose proof (iter_keeps s e Hin) as H. destruct (iter s); auto.
Qed.

(** degenerate bracket whose midpoint value is not within the tolerance: fn(NaN) is evaluated *)
Lemma iter_degenerate_nan s : smind s = 0 -> smaxd s = 0 -> tol <= Rabs (f (halving_x s)) ->
  match iter s with Cont s' => In None (sev s') | Done r => In None (revals r) end.
Proof.
  intros H1 H2 Ht.
  destruct (trials_shape s) as (extra & dev & Et & _ & _).
  pose proof (iter_spec s _ _ Et) as Hs. rewrite try_all_cons in Hs.
  rewrite secant_is_NaN in Hs by (unfold secant_den; runfold; lra).
  assert (exists u, try_one (sx s) (Pt (halving_x s)) (t0_of s) = inr u) as [u E].
  { destruct (try_one_Pt_cases (sx s) (halving_x s) (t0_of s))
      as [[Hc _]|[_ [hit [_ [[_ [_ E]]|[[_ [_ E]]|[_ E]]]]]]]; [lra| | |]; eexists; exact E. }
  rewrite E in Hs. rewrite try_all_cons in Hs.
  destruct (try_one_NaN_cases (sx s) (secant_x s) u) as [[_ E2]|[_ E2]]; rewrite E2 in Hs.
  - rewrite Hs. cbn [revals]. rewrite <- in_rev. left; reflexivity.
  - match type of Hs with context [try_all ?x ?r ?u2] =>
        pose proof (try_all_keeps x r u2) as Hk;
        destruct (try_all x r u2) as [[[x' d'] ev']|t'] end.
    + rewrite Hs; simpl; rewrite <- in_rev; apply Hk; left; reflexivity.
    + destruct Hs as [[_ Hs]|[_ Hs]]; rewrite Hs; simpl; [rewrite <- in_rev|]; apply Hk; left; reflexivity.
Qed.


(** ---------------------------------------------------------------- whole runs *)
Lemma init_SI x0 : a <= x0 <= b -> f a <= 0 <= f b -> SI (init_state x0 a b).
Proof. unfold SI, FindRoot.init_state; simpl. intuition lra. Qed.

Lemma init_halving x0 : halving_x (init_state x0 a b) = (a + b) / 2.
Proof. rewrite halving_eq. reflexivity. Qed.

Lemma loop_ev n : forall s, SI s -> Forall okpt (sev s) -> Forall inab (sdev s) ->
  Forall okpt (revals (loop n s)) /\ Forall inab (rdevals (loop n s)) /\
  (a <= rx (loop n s) <= b \/ In None (revals (loop n s))).
Proof.
  induction n as [|n IH]; intros s HS He Hd; simpl.
  - split; [apply Forall_rev; auto|]. split; [apply Forall_rev; auto|]. left. destruct HS; tauto.
  - pose proof (iter_ev s HS He Hd) as H.
    destruct (iter s) as [r|s1] eqn:E; auto.
    destruct H. apply IH; auto. eapply iter_Cont_SI; eauto.
Qed.

Lemma init_ev x0 : a <= x0 <= b ->
  Forall okpt (sev (init_state x0 a b)) /\ Forall inab (sdev (init_state x0 a b)).
Proof. intros H. split; simpl; repeat (constructor; simpl; try lra). Qed.

Lemma init_nonan x0 : ~ In None (sev (init_state x0 a b)).
Proof. simpl. intros [H|[H|[H|H]]]; try discriminate; auto. Qed.

Lemma loop_nan_free x0 n : 0 < tol -> a <= x0 <= b -> f a <= 0 <= f b ->
  ~ (f a = 0 /\ f b = 0 /\ tol <= Rabs (f ((a + b) / 2))) ->
  ~ In None (revals (loop n (init_state x0 a b))).
Proof.
  intros Htol Hx Hs Hnd.
  destruct (Rlt_dec (f a) 0) as [Ha|Ha].
  { apply loop_nonan; auto using init_SI, init_nonan. left; exact Ha. }
  destruct (Rlt_dec 0 (f b)) as [Hb|Hb].
  { apply loop_nonan; auto using init_SI, init_nonan. right; exact Hb. }
  assert (Hm : Rabs (f ((a + b) / 2)) < tol).
  { destruct (Rlt_dec (Rabs (f ((a + b) / 2))) tol); auto. exfalso; apply Hnd; repeat split; lra. }
  destruct n as [|n]; simpl.
  - intros [H|[H|[H|H]]]; try discriminate; auto.
  - rewrite <- init_halving with (x0 := x0) in Hm.
    destruct (iter_first_trial_early _ Hm) as [dev E]. rewrite E. cbn [revals].
    rewrite <- in_rev. intros [H|H]; [discriminate|]. revert H. apply init_nonan.
Qed.

Lemma loop_nan_evaluated x0 n : (1 <= n)%nat -> f a = 0 -> f b = 0 ->
  tol <= Rabs (f ((a + b) / 2)) -> In None (revals (loop n (init_state x0 a b))).
Proof.
  intros Hn Ha Hb Hm. destruct n as [|n]; [lia|]. simpl.
  rewrite <- init_halving with (x0 := x0) in Hm.
  pose proof (iter_degenerate_nan (init_state x0 a b) Ha Hb Hm) as H.
  destruct (iter (init_state x0 a b)); auto. apply loop_keeps; auto.
Qed.

Lemma find_root_some x0 n : f a <= 0 <= f b ->
  find_root x0 a b n = Some (loop n (init_state x0 a b)).
Proof.
  intros H. unfold FindRoot.find_root. runfold. cbn [smind smaxd FindRoot.init_state].
  rewrite (proj2 (Rltb_false 0 (f a))) by lra.
  rewrite (proj2 (Rltb_false (f b) 0)) by lra. reflexivity.
Qed.

Lemma find_root_none x0 n : 0 < f a \/ f b < 0 -> find_root x0 a b n = None.
Proof.
  intros H. unfold FindRoot.find_root. runfold. cbn [smind smaxd FindRoot.init_state].
  destruct H as [H|H].
  - rewrite (proj2 (Rltb_true 0 (f a))) by lra. reflexivity.
  - rewrite (proj2 (Rltb_true (f b) 0)) by lra. rewrite orb_true_r. reflexivity.
Qed.


(** ---------------------------------------------------------------- non-decreasing f *)
Section Mono.
Hypothesis Hmono : forall x y, a <= x -> x <= y -> y <= b -> f x <= f y.

Definition MB (s : @st R) : Prop := Rabs (smind s) <= Rabs (f a) /\ smaxd s <= f b.
Definition Post (s : @st R) : Prop := Rabs (sd s) <= Rabs (smind s) /\ Rabs (sd s) <= smaxd s.

Lemma EndIt_mono s x' d' lo' dlo' hi' dhi' : SI s -> MB s -> EndIt s x' d' lo' dlo' hi' dhi' ->
  Rabs dlo' <= Rabs (f a) /\ dhi' <= f b /\ Rabs d' <= Rmin (Rabs (f a)) (Rabs (f b)).
Proof.
  intros (S1 & S2 & S3 & S4 & S5 & S6 & S7 & S8 & S9) [M1 M2]
         (E1 & E2 & E3 & E4 & E5 & E6 & E7 & E8 & E9 & E10 & E11).
  assert (H1 : f (smin s) <= f lo') by (apply Hmono; lra).
  assert (H2 : f hi' <= f (smax s)) by (apply Hmono; lra).
  assert (A1 : Rabs dlo' <= Rabs (f a)).
  { rewrite S4 in *. rewrite Rabs_left1 in M1 by lra. rewrite (Rabs_left1 dlo') by lra. lra. }
  assert (A2 : dhi' <= f b) by lra.
  split; auto. split; auto.
  apply Rmin_glb; [lra|]. pose proof (Rle_abs (f b)). lra.
Qed.

Lemma iter_mono s : SI s -> MB s ->
  match iter s with
  | Cont s' => MB s' /\ Post s'
  | Done r => Rabs (rdelta r) < tol \/ Rabs (rdelta r) <= Rmin (Rabs (f a)) (Rabs (f b))
  end.
Proof.
  intros HS HM. pose proof (iter_SI s HS) as H.
  destruct (iter s) as [r|s1].
  - destruct H as [H|(lo' & dlo' & hi' & dhi' & HE & _)]; auto.
    right. eapply EndIt_mono; eauto.
  - pose proof (EndIt_mono _ _ _ _ _ _ _ HS HM H) as (A1 & A2 & A3).
    split; [split; auto|]. destruct H as (_ & _ & _ & _ & _ & _ & _ & _ & _ & E10 & E11). split; auto.
Qed.

Lemma loop_mono n : forall s, SI s -> MB s -> ((1 <= n)%nat \/ Post s) ->
  Rabs (rdelta (loop n s)) < tol \/ Rabs (rdelta (loop n s)) <= Rmin (Rabs (f a)) (Rabs (f b)).
Proof.
  induction n as [|n IH]; intros s HS HM Hn; simpl.
  - destruct Hn as [Hn|[P1 P2]]; [lia|]. right. destruct HM as [M1 M2].
    apply Rmin_glb; [lra|]. pose proof (Rle_abs (f b)). lra.
  - pose proof (iter_mono s HS HM) as H.
    destruct (iter s) as [r|s1] eqn:E; auto.
    destruct H as [HM1 HP1]. apply IH; auto. eapply iter_Cont_SI; eauto.
Qed.

Lemma init_MB x0 : f a <= 0 <= f b -> MB (init_state x0 a b).
Proof. intros H. unfold MB; simpl. lra. Qed.
End Mono.

(** ---------------------------------------------------------------- Lipschitz f: convergence *)
Section Lip.
Variable L : R.
Hypothesis HL0 : 0 <= L.
Hypothesis HL : forall x y, a <= x <= b -> a <= y <= b -> Rabs (f x - f y) <= L * Rabs (x - y).

(** no spurious "converged" exit: x is an end of the bracket, or is at least conv away from the midpoint *)
Definition XC (s : @st R) : Prop :=
  sx s = smin s \/ sx s = smax s \/ conv <= Rabs (sx s - halving_x s).

Lemma EndIt_lip s x' d' lo' dlo' hi' dhi' : SI s -> EndIt s x' d' lo' dlo' hi' dhi' ->
  Rabs d' <= L * (hi' - lo').
Proof.
  intros (S1 & S2 & S3 & S4 & S5 & S6 & S7 & S8 & S9)
         (E1 & E2 & E3 & E4 & E5 & E6 & E7 & E8 & E9 & E10 & E11).
  assert (H : Rabs (f hi' - f lo') <= L * Rabs (hi' - lo')) by (apply HL; lra).
  rewrite (Rabs_right (hi' - lo')) in H by lra.
  pose proof (Rle_abs (f hi' - f lo')). lra.
Qed.

Lemma iter_lip s : SI s -> XC s -> L * conv < tol ->
  match iter s with
  | Cont s' => XC s' /\ Rabs (sd s') <= L * (smax s' - smin s') /\
               smax s' - smin s' <= (smax s - smin s) / 2
  | Done r => Rabs (rdelta r) < tol
  end.
Proof.
  intros HS HX Hc. pose proof (iter_SI s HS) as H.
  destruct (iter s) as [r|s1].
  - destruct H as [H|(lo' & dlo' & hi' & dhi' & HE & Hh)]; auto.
    pose proof (EndIt_lip _ _ _ _ _ _ _ HS HE) as Hd.
    destruct HE as (E1 & E2 & E3 & E4 & E5 & E6 & E7 & E8 & _).
    assert (Hle : smin s <= smax s) by (destruct HS; tauto).
    assert (Hw : (smax s - smin s) / 2 < conv).
    { unfold XC in HX. rewrite halving_eq in *. destruct HX as [HX|[HX|HX]]; [| |lra]; rewrite HX in Hh.
      - rewrite Rabs_left1 in Hh by lra. lra.
      - rewrite Rabs_right in Hh by lra. lra. }
    assert (L * (hi' - lo') <= L * conv) by (apply Rmult_le_compat_l; lra). lra.
  - pose proof (EndIt_lip _ _ _ _ _ _ _ HS H) as Hd.
    destruct H as (E1 & E2 & E3 & E4 & E5 & E6 & E7 & E8 & E9 & _).
    split; [|split; auto]. unfold XC. destruct E9 as [[E9 _]|[E9 _]]; auto.
Qed.

Lemma loop_lip n : forall k s, SI s -> XC s -> L * conv < tol ->
  smax s - smin s <= (b - a) / 2 ^ k -> Rabs (sd s) <= L * ((b - a) / 2 ^ k) ->
  L * ((b - a) / 2 ^ (k + n)) < tol ->
  Rabs (rdelta (loop n s)) < tol.
Proof.
  induction n as [|n IH]; intros k s HS HX Hc Hw Hd Hn; simpl.
  - rewrite Nat.add_0_r in Hn. lra.
  - pose proof (iter_lip s HS HX Hc) as H.
    destruct (iter s) as [r|s1] eqn:E; auto.
    destruct H as (X1 & D1 & W1).
    assert (Hp : 0 < 2 ^ k) by (apply pow_lt; lra).
    assert (Hw1 : smax s1 - smin s1 <= (b - a) / 2 ^ S k).
    { replace ((b - a) / 2 ^ S k) with ((b - a) / 2 ^ k / 2) by (simpl; field; lra). lra. }
    apply (IH (S k)); auto.
    + eapply iter_Cont_SI; eauto.
    + assert (L * (smax s1 - smin s1) <= L * ((b - a) / 2 ^ S k)) by (apply Rmult_le_compat_l; lra). lra.
    + replace (S k + n)%nat with (k + S n)%nat by lia. exact Hn.
Qed.

Lemma init_lip x0 : a <= x0 <= b -> f a <= 0 <= f b ->
  Rabs (sd (init_state x0 a b)) <= L * ((b - a) / 2 ^ 0).
Proof.
  intros Hx Hs. simpl.
  assert (H1 : Rabs (f x0 - f a) <= L * Rabs (x0 - a)) by (apply HL; lra).
  assert (H2 : Rabs (f b - f x0) <= L * Rabs (b - x0)) by (apply HL; lra).
  rewrite (Rabs_right (x0 - a)) in H1 by lra. rewrite (Rabs_right (b - x0)) in H2 by lra.
  pose proof (Rle_abs (f x0 - f a)). pose proof (Rle_abs (f b - f x0)).
  assert (L * (x0 - a) <= L * (b - a)) by (apply Rmult_le_compat_l; lra).
  assert (L * (b - x0) <= L * (b - a)) by (apply Rmult_le_compat_l; lra).
  unfold Rdiv. rewrite Rinv_1, Rmult_1_r.
  apply Rabs_le. lra.
Qed.
End Lip.

(** ---------------------------------------------------------------- halving reaches the tolerance *)
(** The general form of "the iteration budget suffices for interval halving to reach the
    tolerance": every bracket of width <= w inside [a,b] has an end within the tolerance.
    (An L-Lipschitz f has this for w = tol/L; a function that is flat at its root, like
    (x-r)^p, has it for a much larger w than its global Lipschitz constant gives.) *)
Section Mod.
Variable w : R.
Hypothesis HW : forall lo hi, a <= lo -> lo <= hi -> hi <= b -> f lo <= 0 -> 0 <= f hi ->
  hi - lo <= w -> Rmin (Rabs (f lo)) (f hi) < tol.

Lemma EndIt_mod s x' d' lo' dlo' hi' dhi' : SI s -> EndIt s x' d' lo' dlo' hi' dhi' ->
  hi' - lo' <= w -> Rabs d' < tol.
Proof.
  intros (S1 & S2 & S3 & S4 & S5 & S6 & S7 & S8 & S9)
         (E1 & E2 & E3 & E4 & E5 & E6 & E7 & E8 & E9 & E10 & E11) Hw.
  assert (H : Rmin (Rabs (f lo')) (f hi') < tol) by (apply HW; lra).
  assert (Rabs d' <= Rmin (Rabs (f lo')) (f hi')) by (apply Rmin_glb; rewrite <- ?E4, <- ?E5; lra).
  lra.
Qed.

Lemma iter_mod s : SI s -> XC s -> conv <= w ->
  match iter s with
  | Cont s' => XC s' /\ Post s' /\ smax s' - smin s' <= (smax s - smin s) / 2
  | Done r => Rabs (rdelta r) < tol
  end.
Proof.
  intros HS HX Hc. pose proof (iter_SI s HS) as H.
  destruct (iter s) as [r|s1].
  - destruct H as [H|(lo' & dlo' & hi' & dhi' & HE & Hh)]; auto.
    apply (EndIt_mod _ _ _ _ _ _ _ HS HE).
    destruct HE as (E1 & E2 & E3 & E4 & E5 & E6 & E7 & E8 & _).
    assert (Hle : smin s <= smax s) by (destruct HS; tauto).
    assert (Hw : (smax s - smin s) / 2 < conv).
    { unfold XC in HX. rewrite halving_eq in *. destruct HX as [HX|[HX|HX]]; [| |lra]; rewrite HX in Hh.
      - rewrite Rabs_left1 in Hh by lra. lra.
      - rewrite Rabs_right in Hh by lra. lra. }
    lra.
  - destruct H as (E1 & E2 & E3 & E4 & E5 & E6 & E7 & E8 & E9 & E10 & E11).
    split; [|split; [split; auto|auto]]. unfold XC. destruct E9 as [[E9 _]|[E9 _]]; auto.
Qed.

Lemma loop_mod n : forall k s, SI s -> XC s -> conv <= w ->
  smax s - smin s <= (b - a) / 2 ^ k -> (Post s \/ (1 <= n)%nat) ->
  (b - a) / 2 ^ (k + n) <= w ->
  Rabs (rdelta (loop n s)) < tol.
Proof.
  induction n as [|n IH]; intros k s HS HX Hc Hw HP Hn; simpl.
  - rewrite Nat.add_0_r in Hn. destruct HP as [[P1 P2]|HP]; [|lia].
    destruct HS as (S1 & S2 & S3 & S4 & S5 & S6 & S7 & S8 & S9).
    assert (H : Rmin (Rabs (f (smin s))) (f (smax s)) < tol) by (apply HW; lra).
    assert (Rabs (sd s) <= Rmin (Rabs (f (smin s))) (f (smax s)))
      by (apply Rmin_glb; rewrite <- ?S4, <- ?S5; lra).
    lra.
  - pose proof (iter_mod s HS HX Hc) as H.
    destruct (iter s) as [r|s1] eqn:E; auto.
    destruct H as (X1 & P1 & W1).
    assert (Hp : 0 < 2 ^ k) by (apply pow_lt; lra).
    assert (Hw1 : smax s1 - smin s1 <= (b - a) / 2 ^ S k).
    { replace ((b - a) / 2 ^ S k) with ((b - a) / 2 ^ k / 2) by (simpl; field; lra). lra. }
    apply (IH (S k)); auto.
    + eapply iter_Cont_SI; eauto.
    + replace (S k + n)%nat with (k + S n)%nat by lia. exact Hn.
Qed.
End Mod.

End AB.
End P.


(** ================================================================ the theorems *)
Section Final.
Variable f : R -> R.
Variable fdx : option (R -> R).
Variables tol conv : R.
Variables x0 a b : R.
Variable n : nat.
Notation FR := (find_root f fdx tol conv x0 a b n).

(** [FindRoot] panics exactly when the bracket has the wrong signs *)
Theorem findroot_defined_iff : (exists r, FR = Some r) <-> f a <= 0 <= f b.
Proof.
  split.
  - intros [r Hr]. destruct (Rlt_dec 0 (f a)) as [H|H].
    + rewrite find_root_none in Hr by auto. discriminate.
    + destruct (Rlt_dec (f b) 0) as [H'|H'].
      * rewrite find_root_none in Hr by auto. discriminate.
      * lra.
  - intros H. eexists. apply find_root_some; auto.
Qed.

(** the returned value is the function's value at the returned point: any f, any inputs *)
Theorem findroot_value_is_f : forall r, FR = Some r -> rdelta r = f (rx r).
Proof.
  intros r Hr.
  assert (Hs : f a <= 0 <= f b) by (apply findroot_defined_iff; eauto).
  rewrite find_root_some in Hr by auto. inversion Hr; subst.
  apply loop_value. unfold VI; simpl; auto.
Qed.

(** any f: the returned point is in [a,b] (unless the NaN trial was evaluated, marked
    [None] in the evaluation list), every proper evaluation point of fn and fn_dx is in [a,b] *)
Theorem findroot_in_interval_any_f : a <= x0 <= b -> f a <= 0 <= f b ->
  exists r, FR = Some r /\ rdelta r = f (rx r) /\
    (In None (revals r) \/ a <= rx r <= b) /\
    (forall p, In (Some p) (revals r) -> a <= p <= b) /\
    (forall p, In p (rdevals r) -> a <= p <= b).
Proof.
  intros Hx Hs. eexists. split; [apply find_root_some; auto|].
  split; [apply loop_value; unfold VI; simpl; auto|].
  destruct (init_ev f a b x0 Hx) as [He Hd].
  destruct (loop_ev f fdx tol conv a b n _ (init_SI f a b x0 Hx Hs) He Hd) as (L1 & L2 & L3).
  split; [tauto|]. split.
  - intros p Hp. rewrite Forall_forall in L1. exact (L1 _ Hp).
  - intros p Hp. rewrite Forall_forall in L2. exact (L2 _ Hp).
Qed.

(** the exact side condition for "never evaluated outside the interval" (tol > 0):
    the only way to reach the 0/0 secant point is f a = f b = 0 with a midpoint
    value that is not within the tolerance *)
Definition degenerate_bracket : Prop := f a = 0 /\ f b = 0 /\ tol <= Rabs (f ((a + b) / 2)).

Theorem findroot_evals_inside : 0 < tol -> a <= x0 <= b -> f a <= 0 <= f b -> ~ degenerate_bracket ->
  exists r, FR = Some r /\ Forall (inside a b) (revals r) /\ Forall (inab a b) (rdevals r) /\
            a <= rx r <= b.
Proof.
  intros Htol Hx Hs Hnd. eexists. split; [apply find_root_some; auto|].
  destruct (init_ev f a b x0 Hx) as [He Hd].
  destruct (loop_ev f fdx tol conv a b n _ (init_SI f a b x0 Hx Hs) He Hd) as (L1 & L2 & L3).
  pose proof (loop_nan_free f fdx tol conv a b x0 n Htol Hx Hs Hnd) as Hn.
  split; [apply inside_okpt; auto|]. split; auto. tauto.
Qed.

(** any tolerance (also <= 0): a strictly negative value at the lower end rules the NaN trial out *)
Theorem findroot_evals_inside_neg_end : a <= x0 <= b -> f a < 0 -> 0 <= f b ->
  exists r, FR = Some r /\ Forall (inside a b) (revals r) /\ Forall (inab a b) (rdevals r) /\
            a <= rx r <= b.
Proof.
  intros Hx Ha Hb. assert (Hs : f a <= 0 <= f b) by lra.
  eexists. split; [apply find_root_some; auto|].
  destruct (init_ev f a b x0 Hx) as [He Hd].
  destruct (loop_ev f fdx tol conv a b n _ (init_SI f a b x0 Hx Hs) He Hd) as (L1 & L2 & L3).
  assert (Hn : ~ In None (revals (loop f fdx tol conv n (init_state f x0 a b)))).
  { apply loop_nonan_neg with (a := a) (b := b); auto using init_SI, init_nonan. }
  split; [apply inside_okpt; auto|]. split; auto. tauto.
Qed.

Theorem findroot_nan_trial_evaluated : (1 <= n)%nat -> degenerate_bracket ->
  exists r, FR = Some r /\ In None (revals r).
Proof.
  intros Hn (Ha & Hb & Hm). eexists. split; [apply find_root_some; lra|].
  apply loop_nan_evaluated; auto.
Qed.

(** bracket invariant and halving bound after k complete iterations *)
Theorem findroot_bracket_invariant : a <= x0 <= b -> f a <= 0 <= f b ->
  forall k s, iter_k f fdx tol conv k (init_state f x0 a b) = Cont s ->
    a <= smin s /\ smin s <= smax s /\ smax s <= b /\
    smind s = f (smin s) /\ smaxd s = f (smax s) /\ f (smin s) <= 0 <= f (smax s) /\
    smax s - smin s <= (b - a) / 2 ^ k /\
    sd s = f (sx s) /\ a <= sx s <= b /\
    ((1 <= k)%nat -> sx s = smin s \/ sx s = smax s).
Proof.
  intros Hx Hs k s Hk.
  destruct (iter_k_bracket f fdx tol conv a b k _ _ (init_SI f a b x0 Hx Hs) Hk)
    as ((S1 & S2 & S3 & S4 & S5 & S6 & S7 & S8 & S9) & I2 & I3 & I4 & I5).
  simpl in I4. rewrite S4 in S6. rewrite S5 in S7.
  repeat (split; [first [assumption|lra]|]). intros H1. apply I5; auto.
Qed.

Theorem findroot_loop_is_iter_k : f a <= 0 <= f b ->
  FR = Some (match iter_k f fdx tol conv n (init_state f x0 a b) with
             | Done r => r | Cont s => finish s end).
Proof. intros Hs. rewrite find_root_some by auto. rewrite loop_iter_k. reflexivity. Qed.

(** non-decreasing f *)
Definition nondecreasing_on : Prop := forall x y, a <= x -> x <= y -> y <= b -> f x <= f y.

Theorem findroot_no_worse_or_within_tol : nondecreasing_on -> a <= x0 <= b -> f a <= 0 <= f b ->
  (1 <= n)%nat ->
  exists r, FR = Some r /\
    (Rabs (rdelta r) < tol \/ Rabs (rdelta r) <= Rmin (Rabs (f a)) (Rabs (f b))).
Proof.
  intros Hm Hx Hs Hn. eexists. split; [apply find_root_some; auto|].
  apply loop_mono with (a := a) (b := b); auto.
  - apply init_SI; auto.
  - apply init_MB; auto.
Qed.

Theorem findroot_evals_inside_monotone : 0 < tol -> nondecreasing_on -> a <= x0 <= b ->
  f a <= 0 <= f b ->
  exists r, FR = Some r /\ Forall (inside a b) (revals r) /\ Forall (inab a b) (rdevals r) /\
            a <= rx r <= b.
Proof.
  intros Htol Hm Hx Hs. apply findroot_evals_inside; auto.
  intros (Ha & Hb & Hc).
  assert (H1 : f a <= f ((a + b) / 2)) by (apply Hm; lra).
  assert (H2 : f ((a + b) / 2) <= f b) by (apply Hm; lra).
  replace (f ((a + b) / 2)) with 0 in Hc by lra. rewrite Rabs_R0 in Hc. lra.
Qed.

(** Lipschitz f: the tolerance is reached whenever halving can reach it *)
Theorem findroot_converges : forall L, 0 <= L ->
  (forall x y, a <= x <= b -> a <= y <= b -> Rabs (f x - f y) <= L * Rabs (x - y)) ->
  a <= x0 <= b -> f a <= 0 <= f b ->
  (x0 = a \/ x0 = b \/ conv <= Rabs (x0 - (a + b) / 2)) ->
  L * conv < tol -> L * ((b - a) / 2 ^ n) < tol ->
  exists r, FR = Some r /\ Rabs (rdelta r) < tol.
Proof.
  intros L HL0 HL Hx Hs Hg Hc Hn. eexists. split; [apply find_root_some; auto|].
  apply loop_lip with (a := a) (b := b) (L := L) (k := O); auto.
  - apply init_SI; auto.
  - unfold XC. rewrite init_halving. simpl. exact Hg.
  - simpl. lra.
  - apply init_lip; auto.
Qed.
(** the same with the general "halving reaches the tolerance" hypothesis: every bracket of
    width <= w has an end within the tolerance, and n halvings bring (b-a) below w *)
Theorem findroot_converges_modulus : forall w,
  (forall lo hi, a <= lo -> lo <= hi -> hi <= b -> f lo <= 0 -> 0 <= f hi ->
                 hi - lo <= w -> Rmin (Rabs (f lo)) (f hi) < tol) ->
  a <= x0 <= b -> f a <= 0 <= f b ->
  (x0 = a \/ x0 = b \/ conv <= Rabs (x0 - (a + b) / 2)) ->
  conv <= w -> (b - a) / 2 ^ n <= w -> (1 <= n)%nat ->
  exists r, FR = Some r /\ Rabs (rdelta r) < tol.
Proof.
  intros w HW Hx Hs Hg Hc Hn H1. eexists. split; [apply find_root_some; auto|].
  apply loop_mod with (a := a) (b := b) (w := w) (k := O); auto.
  - apply init_SI; auto.
  - unfold XC. rewrite init_halving. simpl. exact Hg.
  - simpl. lra.
Qed.
End Final.

(** ---------------------------------------------------------------- concrete runs (witnesses) *)
Ltac rsolve :=
  cbn; unfold Rabs;
  repeat (match goal with |- context [Rcase_abs ?x] => destruct (Rcase_abs x) end);
  lra.
Ltac rdec1 :=
  match goal with
  | |- context [Rltb ?u ?v] =>
      first [rewrite (proj2 (Rltb_true u v)) by rsolve | rewrite (proj2 (Rltb_false u v)) by rsolve]
  | |- context [Rleb ?u ?v] =>
      first [rewrite (proj2 (Rleb_true u v)) by rsolve | rewrite (proj2 (Rleb_false u v)) by rsolve]
  | |- context [Reqb ?u ?v] =>
      first [rewrite (proj2 (Reqb_true u v)) by rsolve | rewrite (proj2 (Reqb_false u v)) by rsolve]
  end.
Ltac rrun := repeat (rdec1; cbn -[Rabs]).

Definition w2_f (x : R) : R := 2 * x * x - 1.

Lemma w2_iter : exists r,
  iter w2_f None (1/100) (1/1000000) (init_state w2_f (1/2) 0 1) = Done r /\ rdelta r = -(1/2).
Proof.
  eexists. split.
  - unfold iter, trials, try_all, try_one, init_state, secant_trial, secant_x, secant_den, halving_x, half, w2_f.
    runfold. cbn -[Rabs]. rrun. reflexivity.
  - cbn. lra.
Qed.

Lemma w2_mono : forall x y, 0 <= x -> x <= y -> y <= 1 -> w2_f x <= w2_f y.
Proof. intros; unfold w2_f; nra. Qed.
Lemma w2_lip : forall x y, 0 <= x <= 1 -> 0 <= y <= 1 -> Rabs (w2_f x - w2_f y) <= 4 * Rabs (x - y).
Proof.
  intros x y Hx Hy. unfold w2_f.
  replace (2 * x * x - 1 - (2 * y * y - 1)) with ((2 * (x + y)) * (x - y)) by ring.
  rewrite Rabs_mult. apply Rmult_le_compat_r; [apply Rabs_pos|]. rewrite Rabs_right; lra.
Qed.

(** The property's "for all initial guesses" is false: with the guess at the
    midpoint of an antisymmetric bracket both first trial points coincide with
    the guess, the convergence test fires in the first iteration, and the
    midpoint is returned although its value is far from the tolerance and the
    iteration budget would suffice for halving. *)
Theorem findroot_converges_any_guess_refuted :
  exists (f : R -> R) (L a b x0 tol conv : R),
    0 <= L /\
    (forall x y, a <= x -> x <= y -> y <= b -> f x <= f y) /\
    (forall x y, a <= x <= b -> a <= y <= b -> Rabs (f x - f y) <= L * Rabs (x - y)) /\
    a <= x0 <= b /\ f a <= 0 <= f b /\ 0 < conv /\ L * conv < tol /\
    forall n, (12 <= n)%nat ->
      L * ((b - a) / 2 ^ n) < tol /\
      exists r, find_root f None tol conv x0 a b n = Some r /\ ~ Rabs (rdelta r) < tol.
Proof.
  exists w2_f, 4, 0, 1, (1/2), (1/100), (1/1000000).
  split; [lra|]. split; [exact w2_mono|]. split; [exact w2_lip|].
  split; [lra|]. split; [unfold w2_f; lra|]. split; [lra|]. split; [lra|].
  intros n Hn. split.
  - assert (H : 2 ^ 12 <= 2 ^ n) by (apply Rle_pow; [lra|lia]).
    assert (Hp : 0 < 2 ^ n) by (apply pow_lt; lra).
    assert (H12 : (2:R) ^ 12 = 4096) by (simpl; lra).
    assert (Hi : / 2 ^ n <= / 4096).
    { apply Rinv_le_contravar; lra. }
    unfold Rdiv. lra.
  - destruct w2_iter as (r & Hr & Hd).
    exists r. split.
    + rewrite find_root_some by (unfold w2_f; lra).
      destruct n as [|m]; [lia|]. cbn [loop]. rewrite Hr. reflexivity.
    + rewrite Hd. rewrite Rabs_left by lra. lra.
Qed.

(** The strict reading "no larger in magnitude than at the better end" is false
    when an end is already within the tolerance: the first trial inside the
    tolerance is returned even though an end has a smaller |f|. *)
Definition w1_f (x : R) : R := x - 1/8.

Theorem findroot_no_worse_strict_refuted :
  exists (f : R -> R) (a b x0 tol conv : R),
    (forall x y, a <= x -> x <= y -> y <= b -> f x <= f y) /\
    a <= x0 <= b /\ f a <= 0 <= f b /\ 0 < tol /\
    forall n, (1 <= n)%nat ->
      exists r, find_root f None tol conv x0 a b n = Some r /\
        Rabs (rdelta r) < tol /\ ~ Rabs (rdelta r) <= Rmin (Rabs (f a)) (Rabs (f b)).
Proof.
  exists w1_f, 0, 1, 0, (1/2), 0.
  split; [intros; unfold w1_f; lra|]. split; [lra|]. split; [unfold w1_f; lra|]. split; [lra|].
  intros n Hn. destruct n as [|m]; [lia|].
  assert (Hm : Rabs (w1_f (halving_x (init_state w1_f 0 0 1))) < 1/2).
  { rewrite init_halving. unfold w1_f. rewrite Rabs_right; lra. }
  destruct (iter_first_trial_early w1_f None (1/2) 0 _ Hm) as [dev E].
  eexists. split; [rewrite find_root_some by (unfold w1_f; lra); cbn [loop]; rewrite E; reflexivity|].
  cbn [rdelta]. rewrite init_halving. unfold w1_f.
  replace ((0 + 1) / 2 - 1 / 8) with (3/8) by lra.
  replace (0 - 1/8) with (-(1/8)) by lra. replace (1 - 1/8) with (7/8) by lra.
  rewrite (Rabs_right (3/8)) by lra. rewrite Rabs_Ropp. rewrite (Rabs_right (1/8)) by lra.
  rewrite (Rabs_right (7/8)) by lra. rewrite Rmin_left by lra. split; lra.
Qed.

(** with zero iterations the initial guess is returned as it is *)
Theorem findroot_zero_iterations : forall f fdx tol conv x0 a b,
  f a <= 0 <= f b ->
  exists r, find_root f fdx tol conv x0 a b 0 = Some r /\ rx r = x0 /\ rdelta r = f x0.
Proof.
  intros. eexists. split; [apply find_root_some; auto|]. split; reflexivity.
Qed.

(** non-vacuity: a run that converges to the exact root *)
Definition w3_f (x : R) : R := x - 1/4.
Example findroot_example :
  exists r, find_root w3_f None (1/1000) 0 0 0 1 5 = Some r /\ rx r = 1/4 /\ rdelta r = 0 /\
            revals r = [Some 0; Some 1; Some 0; Some (1/2); Some (1/4)].
Proof.
  eexists. split; [|split; [|split]].
  - rewrite find_root_some by (unfold w3_f; lra).
    cbn [loop]. 
    unfold iter, trials, try_all, try_one, init_state, secant_trial, secant_x, secant_den, halving_x, half, w3_f.
    runfold. cbn -[Rabs]. rrun. reflexivity.
  - cbn. lra.
  - cbn. lra.
  - cbn. replace (1 - (1 - 0) * (1 / 2)) with (1 / 2) by lra. replace (1 - (1 - 0) * (1 - 1 / 4) / (1 - 1 / 4 - (0 - 1 / 4))) with (1 / 4) by (field; lra). reflexivity.
Qed.
