"""C10 Sacramento oracle over the full documented domain on a given owrun binary."""
import sys, json, math, random, glob, os
sys.path.insert(0,'/verif/tools')
from vlib import *
from rrlib import *
IMPL=sys.argv[1]; N=int(sys.argv[2]); seed=int(sys.argv[3]) if len(sys.argv)>3 else 1
rng=random.Random(seed)
# documented OW-SPEC ranges (full): capacities down to their documented minima
DOC=[(0,1),(0,1),(0,1),(0.1,125),(0,75),(0,300),(0,300),(0,600),(0,1),(0,3),(0,80),(0,1),(0,2),(0,1),(0,1),(0,1),(0,1)]+[(0,1)]*5
MODE=os.environ.get('DOMAIN','check')   # check = ranges of C10_sac_ok (capacities >= 1); doc = full documented (capacities to 0 / 0.1)
def draw_doc():
    ps=[]
    for k,(lo,hi) in enumerate(DOC):
        lo2=lo
        if MODE=='check' and k in (3,4,5,6,7): lo2=1.0
        u=rng.random()
        if u<0.15: v=lo2
        elif u<0.3: v=hi
        elif k in (3,4,5,6,7) and rng.random()<0.5:
            v=math.exp(rng.uniform(math.log(max(lo2,0.05)),math.log(hi)))
        else: v=rng.uniform(lo2,hi)
        ps.append(v)
    if ps[13]+ps[14]>1.0:
        s=ps[13]+ps[14]; k=rng.uniform(0,1); ps[13],ps[14]=ps[13]/s*k,ps[14]/s*k
        if ps[13]+ps[14]>1.0: ps[14]=1.0-ps[13]
    if sum(ps[17:22])<=0: ps[17]=1.0
    r=rng.random()
    if r<0.25: ps[7]=max(ps[7],ps[6]*rng.uniform(1.5,50)); ps[7]=min(ps[7],600.0)   # lzfpm >> lzfsm
    if rng.random()<0.2: ps[0]=ps[1]=ps[2]=0.0                                        # no drainage: free->tension transfers
    return ps
cases=[]
for f in sorted(glob.glob('/verif/corpus/C10/*.json')):
    d=json.load(open(f)); cases.append((d['params'],d['states'],d['rainfall'],d['pet'],'corpus:'+os.path.basename(f)))
for k in range(N):
    ps=draw_doc(); reg=rng.choice(REGIMES)
    T=rng.choice([7,40,400,400])
    rain,pet=forcing(rng,reg,T)
    if rng.random()<0.15:   # storm / long dry spell with high PET / storm (transfer scenario)
        rain=[rng.uniform(100,400)]+[0.0]*rng.randint(10,60)+[rng.uniform(50,300) for _ in range(3)]+[0.0]*5
        pet=[0.0]+[rng.uniform(4,12)]*(len(rain)-9)+[0.0]*8
    cases.append((ps,[0.0]*6,rain,pet,reg))
lines=[kcase('Sacramento',ps,st,[rain,pet]) for (ps,st,rain,pet,_) in cases]
res=run_lines(IMPL,lines,env=GOENV)
fails={}; nb=0; hot=[]
for (ps,st,rain,pet,reg),l in zip(cases,res):
    r=parse_kresult(l)
    if r[0]!='OK': fails.setdefault('crash',[]).append((reg,ps)); nb+=1; continue
    b=oracle_sacramento(ps,st,rain,pet,r[1],r[2])
    if b:
        nb+=1; fails.setdefault(b[0]+':'+b[1][:9],[]).append((reg,[round(x,3) for x in ps[:17]],b[1][:100]))
    elif len(rain)>=40 and rng.random()<0.3:
        hot.append((ps,r[2]))
# hot starts from model-produced states (bounds + finite + components only; balance needs zero stock)
hl=[]; hc=[]
for ps,st in hot:
    reg=rng.choice(REGIMES); rain,pet=forcing(rng,reg,rng.choice([40,400])); hc.append((ps,st,rain,pet,reg)); hl.append(kcase('Sacramento',ps,st,[rain,pet]))
hres=run_lines(IMPL,hl,env=GOENV) if hl else []
for (ps,st,rain,pet,reg),l in zip(hc,hres):
    r=parse_kresult(l)
    b=oracle_sacramento(ps,st,rain,pet,r[1],r[2]) if r[0]=='OK' else ('crash','')
    if b: nb+=1; fails.setdefault('hot:'+b[0]+':'+b[1][:9],[]).append((reg,[round(x,3) for x in ps[:17]],[round(x,4) for x in st],b[1][:100]))
print(IMPL.split('/')[-1],'domain',MODE,'cases',len(cases),'+hot',len(hc),'failing',nb)
for k,v in sorted(fails.items()):
    print(' ',k,len(v)); 
    for x in v[:3]: print('     ',x)
json.dump({k:v[:20] for k,v in fails.items()},open('/tmp/scan_%s_%s.json'%(IMPL.split('/')[-1],MODE),'w'))
