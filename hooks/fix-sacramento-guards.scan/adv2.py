import sys, json, math, random
sys.path.insert(0,'/verif/tools')
from vlib import *
from rrlib import *
IMPL=sys.argv[1]; N=int(sys.argv[2]); rng=random.Random(7)
cases=[]
for k in range(N):
    ps=draw_params(rng,'Sacramento',0.3)
    ps[0]=ps[1]=0.0; ps[2]=rng.choice([0.0,0.0,rng.uniform(0,0.1)])
    ps[3]=rng.uniform(1,8); ps[4]=rng.choice([75.0,rng.uniform(5,75)]); ps[5]=rng.choice([1.0,rng.uniform(1,3)])
    ps[14]=rng.uniform(0.1,0.9); ps[13]=rng.uniform(0,1-ps[14])
    rain=[]; pet=[]
    for c in range(rng.randint(1,4)):
        nd=rng.randint(3,80)
        rain+=[rng.uniform(100,400)]+[0.0]*nd+[rng.choice([rng.uniform(0,10),rng.uniform(50,200)]) for _ in range(rng.randint(1,4))]
        pet+=[0.0]+[rng.uniform(6,14)]*nd+[0.0]*(len(rain)-len(pet)-1-nd)
    pet=pet[:len(rain)]+[0.0]*(len(rain)-len(pet))
    cases.append((ps,rain,pet))
res=run_lines(IMPL,[kcase('Sacramento',ps,[0.0]*6,[r,p]) for ps,r,p in cases],env=GOENV)
f={}
for (ps,rain,pet),l in zip(cases,res):
    r=parse_kresult(l); b=oracle_sacramento(ps,[0.0]*6,rain,pet,r[1],r[2]) if r[0]=='OK' else ('crash','')
    if b: f.setdefault(b[0]+':'+b[1][:9],[]).append(([round(x,3) for x in ps[:17]],b[1][:90]))
print(IMPL.split('/')[-1],N,{k:len(v) for k,v in f.items()})
for k,v in f.items():
    for x in v[:2]: print('   ',k,x)
