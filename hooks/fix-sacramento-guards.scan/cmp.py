import sys, random, math
sys.path.insert(0,'/verif/tools')
from vlib import *
from rrlib import *
rng=random.Random(11); cases=[]
for k in range(4000):
    ps=draw_params(rng,'Sacramento',0.0)   # interior of the ranges only
    ps[5]=max(ps[5],10.0)
    rain,pet=forcing(rng,rng.choice(REGIMES),400); cases.append((ps,rain,pet))
L=[kcase('Sacramento',ps,[0.0]*6,[r,p]) for ps,r,p in cases]
a=run_lines('/tmp/builder-c10/owrun_orig',L,env=GOENV); b=run_lines('/tmp/builder-c10/owrun_patched',L,env=GOENV)
same=sum(1 for x,y in zip(a,b) if x==y)
md=0
for x,y in zip(a,b):
    if x!=y:
        rx,ry=parse_kresult(x),parse_kresult(y)
        if rx[0]=='OK' and ry[0]=='OK':
            sx=sum(rx[1][1]); sy=sum(ry[1][1]);
            if math.isfinite(sx) and math.isfinite(sy) and sx>0: md=max(md,abs(sx-sy)/sx)
print('interior parameter sets, lztwm>=10: bit-identical runs',same,'of',len(L),'; max relative change of total runoff among the others',md)
