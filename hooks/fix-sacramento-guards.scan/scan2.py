import sys,os
os.environ['DOMAIN']='doc'
src=open('/verif/hooks/fix-sacramento-guards.scan/scan.py').read().replace("DOC=[(0,1),(0,1),(0,1),(0.1,125),(0,75),(0,300),(0,300),(0,600)","EPS=float(os.environ.get('EPS','0.01'))\nDOC=[(0,1),(0,1),(0,1),(0.1,125),(EPS,75),(EPS,300),(EPS,300),(EPS,600)")
exec(src)
