import sys, random, math, json, glob
sys.path.insert(0,'/verif/tools')
from vlib import *
from rrlib import *
IMPL=sys.argv[1]; MODEL=sys.argv[2]; N=int(sys.argv[3])
rng=random.Random(21); cases=[]
for f in sorted(glob.glob('/verif/corpus/C10/*.json')):
    d=json.load(open(f)); cases.append((d['params'],d['states'],d['rainfall'],d['pet']))
for k in range(N):
    ps=draw_params(rng,'Sacramento',0.3)
    if rng.random()<0.2: ps[0]=ps[1]=ps[2]=0.0
    if rng.random()<0.25: ps[7]=min(600.0,max(ps[7],ps[6]*rng.uniform(1.5,50)))
    rain,pet=forcing(rng,rng.choice(REGIMES),rng.choice([7,40,400]))
    cases.append((ps,[0.0]*6,rain,pet))
L=[kcase('Sacramento',ps,st,[r,p]) for ps,st,r,p in cases]
a=run_lines(IMPL,L,env=GOENV); b=run_lines(MODEL,L,crash_token='MODELCRASH')
bad=0; retry=[]
for i,(x,y) in enumerate(zip(a,b)):
    ps,st,r,p=cases[i]
    d=kresults_agree(parse_kresult(x),parse_kresult(y),1e-9,abs_tol(ps,st,r))
    if d: retry.append((i,d))
for i,d in retry:
    ps,st,r,p=cases[i]; ps2,r2,p2=perturb_case('Sacramento',ps,r,p)
    rp=parse_kresult(run_lines(MODEL,[kcase('Sacramento',ps2,st,[r2,p2])])[0])
    d2=conditioned_agree(parse_kresult(a[i]),parse_kresult(b[i]),rp,1e-9,abs_tol(ps,st,r))
    if d2: bad+=1; print('MISMATCH',d,'|',d2)
print('cases',len(L),'plain mismatches',len(retry),'unexplained',bad)
