(* C17 glue: parsing / printing only.
   JSA D len hex.. V start nd dims.. strides.. SH shift   -> OK <nested> | PANIC
   JSV hex                                                -> OK <leaf>
   RS <split 0|1> <decoded 0|1> CAT (NONE | =Model NP (=name hex)* NI =name* NS =name* NO =name* INIT (NONE | n hex..))
      REQ =name NI k (=name (N | len hex..))* NS k (=name hex)* NP k (=name hex)*
        -> RESP L n <entry>* O <jvalue|null> S <jvalue|null> | CRASH NODOC | CRASH DOC L n <entry>* | NOKERNEL
   Names are written with a leading '=' so that the empty name is a token. *)
let c17_hex f = Printf.sprintf "%016Lx" (Int64.bits_of_float (Float64.to_float f))
let c17_unhex s = Float64.of_float (Int64.float_of_bits (Int64.of_string ("0x" ^ s)))
let rec c17_z_of_int (i : int) : z =
  if i = 0 then Z0 else if i > 0 then Zpos (c17_pos i) else Zneg (c17_pos (- i))
and c17_pos (i : int) : positive =
  if i = 1 then XH else if i land 1 = 0 then XO (c17_pos (i lsr 1)) else XI (c17_pos (i lsr 1))
let rec c17_int_of_pos (p : positive) : int =
  match p with XH -> 1 | XO q -> 2 * c17_int_of_pos q | XI q -> 2 * c17_int_of_pos q + 1
let c17_int_of_z (x : z) : int =
  match x with Z0 -> 0 | Zpos p -> c17_int_of_pos p | Zneg p -> - (c17_int_of_pos p)
let rec c17_int_of_nat (n : nat) : int = match n with O -> 0 | S m -> 1 + c17_int_of_nat m
let c17_ascii_of_char (c : char) : ascii =
  let k = Char.code c in
  let b i = (k lsr i) land 1 = 1 in
  Ascii (b 0, b 1, b 2, b 3, b 4, b 5, b 6, b 7)
let c17_char_of_ascii (a : ascii) : char =
  match a with Ascii (b0, b1, b2, b3, b4, b5, b6, b7) ->
    let v b i = if b then 1 lsl i else 0 in
    Char.chr (v b0 0 + v b1 1 + v b2 2 + v b3 3 + v b4 4 + v b5 5 + v b6 6 + v b7 7)
let c17_js (s : String.t) : jstring = List.map c17_ascii_of_char (List.of_seq (String.to_seq s))
let c17_str (j : jstring) : String.t = String.of_seq (List.to_seq (List.map c17_char_of_ascii j))
let c17_take n toks =
  let rec go n acc toks = if n = 0 then (List.rev acc, toks) else
    match toks with t :: r -> go (n-1) (t :: acc) r | [] -> failwith "short" in
  go n [] toks
let c17_name (t : String.t) : jstring =
  if String.length t = 0 || t.[0] <> '=' then failwith "bad name token" else
  c17_js (String.sub t 1 (String.length t - 1))
let rec c17_print (b : Buffer.t) (j : Float64.t jvalue) : unit =
  match j with
  | JNum x -> Buffer.add_char b 'n'; Buffer.add_string b (c17_hex x)
  | JStr s -> Buffer.add_char b 's'; Buffer.add_string b (c17_str s)
  | JNull -> Buffer.add_string b "null"
  | JArr l ->
    Buffer.add_char b '[';
    List.iteri (fun i e -> if i > 0 then Buffer.add_char b ','; c17_print b e) l;
    Buffer.add_char b ']'
  | JObj l ->
    let l = List.sort (fun (k1, _) (k2, _) -> compare (c17_str k1) (c17_str k2)) l in
    Buffer.add_char b '{';
    List.iteri (fun i (k, e) -> if i > 0 then Buffer.add_char b ',';
                 Buffer.add_char b '='; Buffer.add_string b (c17_str k); Buffer.add_char b ':';
                 c17_print b e) l;
    Buffer.add_char b '}'
let c17_jsa (_ : Float64.t arith) (toks : String.t list) : String.t =
  match toks with
  | "D" :: n :: r ->
    let (d, r) = c17_take (int_of_string n) r in
    (match r with
     | "V" :: start :: nd :: r ->
       let nd = int_of_string nd in
       let (dims, r) = c17_take nd r in
       (* the stride vector has as many entries as the implementation reported *)
       let rec upto acc r = match r with "SH" :: rest -> (List.rev acc, rest) | t :: rest -> upto (t :: acc) rest
                                        | [] -> failwith "no SH" in
       let (strides, r) = upto [] r in
       (match r with
        | [shift] ->
          let v = { vdata = List.map c17_unhex d; vdims = List.map (fun s -> c17_z_of_int (int_of_string s)) dims;
                    vstart = c17_z_of_int (int_of_string start);
                    vstrides = List.map (fun s -> c17_z_of_int (int_of_string s)) strides } in
          (match json_safe_array classify_float v (c17_z_of_int (int_of_string shift)) with
           | None -> "PANIC"
           | Some j -> let b = Buffer.create 256 in Buffer.add_string b "OK "; c17_print b j; Buffer.contents b)
        | _ -> "BADARGS")
     | _ -> "BADARGS")
  | _ -> "BADARGS"
let c17_jsv (_ : Float64.t arith) (toks : String.t list) : String.t =
  match toks with
  | [h] -> let b = Buffer.create 32 in Buffer.add_string b "OK ";
    c17_print b (json_safe_value classify_float (c17_unhex h)); Buffer.contents b
  | _ -> "BADARGS"
exception C17_no_kernel
let c17_names k r = let (l, r) = c17_take k r in (List.map c17_name l, r)
let c17_log (b : Buffer.t) (l : Float64.t logentry list) : unit =
  Buffer.add_string b ("L " ^ string_of_int (List.length l));
  List.iter (fun e ->
    Buffer.add_char b ' ';
    Buffer.add_string b (match e with
      | LBlank -> "blank"
      | LParamDefault (n, d) -> "default:=" ^ c17_str n ^ ":" ^ c17_hex d
      | LMissingInput n -> "missing:=" ^ c17_str n
      | LErrDecode -> "decode"
      | LErrNoName -> "noname"
      | LErrUnknown n -> "unknown:=" ^ c17_str n
      | LErrInputLength (n, g, e) -> "length:=" ^ c17_str n ^ ":" ^ string_of_int (c17_int_of_nat g) ^ ":" ^ string_of_int (c17_int_of_z e)
      | LErrNoInputs -> "noinputs")) l
let c17_rs (kernels : (String.t * (Float64.t arith -> Float64.t list -> Float64.t list -> Float64.t list list
                                    -> (Float64.t list list * Float64.t list) option)) list)
    (ar : Float64.t arith) (toks : String.t list) : String.t =
  match toks with
  | split :: decoded :: "CAT" :: r ->
    let (cat, r) =
      (match r with
       | "NONE" :: r -> ((fun _ -> None), r)
       | mname :: "NP" :: np :: r ->
         let mname = c17_name mname in
         let (ps, r) = c17_take (2 * int_of_string np) r in
         let rec pairs l = match l with n :: h :: rest -> { p_name = c17_name n; p_default = c17_unhex h } :: pairs rest
                                     | _ -> [] in
         let params = pairs ps in
         (match r with
          | "NI" :: k :: r ->
            let (ins, r) = c17_names (int_of_string k) r in
            (match r with
             | "NS" :: k :: r ->
               let (sts, r) = c17_names (int_of_string k) r in
               (match r with
                | "NO" :: k :: r ->
                  let (outs, r) = c17_names (int_of_string k) r in
                  let (init, r) = (match r with
                      | "INIT" :: "NONE" :: r -> ((fun _ -> None), r)
                      | "INIT" :: n :: r -> let (v, r) = c17_take (int_of_string n) r in
                        let v = List.map c17_unhex v in ((fun _ -> Some v), r)
                      | _ -> failwith "expected INIT") in
                  let kern = (match List.assoc_opt (c17_str mname) kernels with
                      | Some k -> (fun p s i -> k ar p s i)
                      | None -> (fun _ _ _ -> raise C17_no_kernel)) in
                  let m = { m_desc = { d_params = params; d_states = sts; d_inputs = ins; d_outputs = outs };
                            m_init = init; m_kernel = kern } in
                  ((fun n -> if jstring_eqb n mname then Some m else None), r)
                | _ -> failwith "expected NO")
             | _ -> failwith "expected NS")
          | _ -> failwith "expected NI")
       | _ -> failwith "bad CAT") in
    (match r with
     | "REQ" :: name :: "NI" :: k :: r ->
       let rec ins k r acc = if k = 0 then (List.rev acc, r) else
           (match r with
            | n :: "N" :: r -> ins (k-1) r ((c17_name n, None) :: acc)
            | n :: len :: r -> let (v, r) = c17_take (int_of_string len) r in
              ins (k-1) r ((c17_name n, Some (List.map c17_unhex v)) :: acc)
            | _ -> failwith "bad input") in
       let (inputs, r) = ins (int_of_string k) r [] in
       let rec vals k r acc = if k = 0 then (List.rev acc, r) else
           (match r with n :: h :: r -> vals (k-1) r ((c17_name n, c17_unhex h) :: acc) | _ -> failwith "bad value") in
       (match r with
        | "NS" :: k :: r ->
          let (states, r) = vals (int_of_string k) r [] in
          (match r with
           | "NP" :: k :: r ->
             let (params, _) = vals (int_of_string k) r [] in
             let req = { q_name = c17_name name; q_inputs = inputs; q_states = states; q_params = params } in
             (try
                let res = run_single_decoded (Float64.of_float 0.0) classify_float cat (split = "1")
                    (if decoded = "1" then Some req else None) in
                let b = Buffer.create 1024 in
                (match res with
                 | Responded resp ->
                   Buffer.add_string b "RESP "; c17_log b resp.r_log;
                   Buffer.add_string b " O ";
                   (match resp.r_outputs with None -> Buffer.add_string b "null" | Some j -> c17_print b j);
                   Buffer.add_string b " S ";
                   (match resp.r_states with None -> Buffer.add_string b "null" | Some j -> c17_print b j)
                 | Crashed None -> Buffer.add_string b "CRASH NODOC"
                 | Crashed (Some resp) -> Buffer.add_string b "CRASH DOC "; c17_log b resp.r_log);
                Buffer.contents b
              with C17_no_kernel -> "NOKERNEL" | Stack_overflow -> "ERROR stack")
           | _ -> "BADARGS")
        | _ -> "BADARGS")
     | _ -> "BADARGS")
  | _ -> "BADARGS"
