(* C16: the Input kernel does not use any arithmetic, so extraction drops the Arith argument *)
let c16_input_kernel (_ : Float64.t arith) p s i = input_kernel p s i
