(* C07: SIM <case tokens> [TRACE <k> (<event> <gen>)*]
   Evaluates the extracted models of ow-sim on the graph of the case:
     VALID b | MIMPL ... | MREF ... | [MSCHED ... | PROTO accepts=b exited=b legal=b]
   MIMPL = impl_sim (canonical schedule), MREF = ref_sim, MSCHED = impl_sim_sched on
   the schedule projected from the observed trace, PROTO = the trace acceptor of
   Protocol.v.  With an ORACLE section the kernel family K of these three is the table of what
   the Go kernels returned (node by node, run alone), and RIMPL = impl_sim with the Coq kernel
   models of Registry.kernels (reported for information: kernel models are checked by C10-C16).  Dataset records: "<model> <label> NONE" or
   "<model> <label> <rank> <dims> : <hex values>" exactly like simgen's IMPL lines. *)
(* every NaN is printed as the canonical quiet NaN (Coq's floats have one NaN; the check canonicalises the Go side too) *)
let c07_hex f = let x = Float64.to_float f in
  if x <> x then "7ff8000000000000" else Printf.sprintf "%016Lx" (Int64.bits_of_float x)
let c07_unhex s = Float64.of_float (Int64.float_of_bits (Int64.of_string ("0x" ^ s)))
let rec c07_nat (i : int) : nat = if i <= 0 then O else S (c07_nat (i - 1))
let rec c07_int (n : nat) : int = match n with O -> 0 | S m -> 1 + c07_int m
let c07_take n toks =
  let rec go n acc toks = if n = 0 then (List.rev acc, toks) else
    match toks with t :: r -> go (n-1) (t :: acc) r | [] -> failwith "short" in
  go n [] toks
let c07_expect kw toks = match toks with
  | t :: r when t = kw -> r
  | t :: _ -> failwith ("expected " ^ kw ^ " got " ^ t)
  | [] -> failwith ("expected " ^ kw)
let c07_int_after kw toks = match c07_expect kw toks with
  | v :: r -> (int_of_string v, r) | [] -> failwith "eof"

type c07_case = {
  cc_T : int;
  cc_models : (string, Float64.t, Float64.t list) model_data list;
  cc_desc : (string * (int * int)) list;     (* name -> (ni, no) *)
  cc_links : link list;
  cc_sel : string selection;
}

let c07_split_commas s = List.filter (fun x -> x <> "") (String.split_on_char ',' s)

let c07_parse_case toks =
  let toks = match toks with "CASE" :: _ :: r -> r | _ -> failwith "expected CASE" in
  let (t, toks) = c07_int_after "T" toks in
  let (nm, toks) = c07_int_after "NMODELS" toks in
  let rec models k toks acc desc =
    if k = 0 then (List.rev acc, List.rev desc, toks) else
    let toks = c07_expect "MODEL" toks in
    let (name, toks) = (List.hd toks, List.tl toks) in
    let (g, toks) = c07_int_after "G" toks in
    let (bs, toks) = c07_take g toks in
    let (np, toks) = c07_int_after "NP" toks in
    let (ns, toks) = c07_int_after "NS" toks in
    let (ni, toks) = c07_int_after "NI" toks in
    let (no, toks) = c07_int_after "NO" toks in
    let (hasin, toks) = c07_int_after "HASIN" toks in
    let (n, toks) = c07_int_after "N" toks in
    let rec nodes k toks ps ss is =
      if k = 0 then (List.rev ps, List.rev ss, List.rev is, toks) else
      let toks = c07_expect "NODE" toks in
      let (p, toks) = c07_take np toks in
      let (s, toks) = c07_take ns toks in
      let (i, toks) =
        if hasin = 1 then
          let rec ins j toks acc = if j = 0 then (List.rev acc, toks) else
              let (row, toks) = c07_take t toks in ins (j-1) toks (List.map c07_unhex row :: acc) in
          ins ni toks []
        else ([], toks) in
      nodes (k-1) toks (List.map c07_unhex p :: ps) (List.map c07_unhex s :: ss) (i :: is) in
    let (ps, ss, is, toks) = nodes n toks [] [] [] in
    let md = { md_name = name; md_batches = List.map (fun b -> c07_nat (int_of_string b)) bs;
               md_params = ps; md_states = ss;
               md_inputs = if hasin = 1 then Some (c07_nat t, is) else None } in
    models (k-1) toks (md :: acc) ((name, (ni, no)) :: desc) in
  let (mds, desc, toks) = models nm toks [] [] in
  let (nl, toks) = c07_int_after "NLINKS" toks in
  let rec links k toks acc =
    if k = 0 then (List.rev acc, toks) else
    let toks = c07_expect "LINK" toks in
    let (v, toks) = c07_take 10 toks in
    match List.map (fun x -> c07_nat (int_of_string x)) v with
    | [a;b;c;d;e;f;g;h;i;j] ->
      links (k-1) toks ({ l_src_gen = a; l_src_model = b; l_src_node = c; l_src_gen_node = d; l_src_var = e;
                          l_dest_gen = f; l_dest_model = g; l_dest_node = h; l_dest_gen_node = i; l_dest_var = j } :: acc)
    | _ -> failwith "link" in
  let (ls, toks) = links nl toks [] in
  let (outfile, toks) = c07_int_after "OUTFILE" toks in
  let (nf, toks) = c07_int_after "FLAGS" toks in
  let (flags, toks) = c07_take nf toks in
  let rec flagval key fl = match fl with
    | k :: v :: r when k = key -> c07_split_commas v
    | _ :: r -> flagval key r
    | [] -> [] in
  let (nsplit, toks) = c07_int_after "SPLIT" toks in
  let (split, toks) = c07_take nsplit toks in
  let (_, toks) = c07_int_after "FINALSTATES" toks in
  (* LAYOUT <ts> <par> <st> <pre>: in which files the harness puts the tables / stale output file; the
     model is about the tables themselves *)
  let toks = (match toks with "LAYOUT" :: _ :: _ :: _ :: _ :: r -> r | _ -> toks) in
  let toks = c07_expect "END" toks in
  let sel = { sel_outfile = (outfile = 1);
              sel_outputs_for = flagval "-outputs-for" flags;
              sel_no_outputs_for = flagval "-no-outputs-for" flags;
              sel_inputs_for = flagval "-inputs-for" flags;
              sel_no_inputs_for = flagval "-no-inputs-for" flags;
              sel_split = split } in
  ({ cc_T = t; cc_models = mds; cc_desc = desc; cc_links = ls; cc_sel = sel }, toks)

(* ORACLE <k> then k times: OM <model> <N> <ni> <no> <ns> <T> followed by N*ni*T input values,
   N*no*T output values, N*ns final-state values: what the Go kernels returned when every node was
   run alone (simgen's oracle).  Used as the kernel family K of the extracted models, so that the
   check of the simulation layer does not depend on the Coq models of the kernels. *)
let c07_key name p s i =
  let b = Buffer.create 256 in
  Buffer.add_string b name;
  Buffer.add_char b '|'; List.iter (fun v -> Buffer.add_string b (c07_hex v)) p;
  Buffer.add_char b '|'; List.iter (fun v -> Buffer.add_string b (c07_hex v)) s;
  List.iter (fun row -> Buffer.add_char b '|'; List.iter (fun v -> Buffer.add_string b (c07_hex v)) row) i;
  Buffer.contents b

let c07_parse_oracle (cs : c07_case) toks =
  match toks with
  | "ORACLE" :: k :: r ->
    let tab = Hashtbl.create 64 in
    let rec go k toks = if k = 0 then toks else
        let toks = c07_expect "OM" toks in
        let (name, toks) = (List.hd toks, List.tl toks) in
        (match toks with
         | n :: ni :: no :: ns :: t :: toks ->
           let n = int_of_string n and ni = int_of_string ni and no = int_of_string no
           and ns = int_of_string ns and t = int_of_string t in
           let series cnt toks =
             let rec rows j toks acc = if j = 0 then (List.rev acc, toks) else
                 let (row, toks) = c07_take t toks in rows (j-1) toks (List.map c07_unhex row :: acc) in
             rows cnt toks [] in
           let rec per_node j toks acc f = if j = 0 then (List.rev acc, toks) else
               let (x, toks) = f toks in per_node (j-1) toks (x :: acc) f in
           let (ins, toks) = per_node n toks [] (series ni) in
           let (outs, toks) = per_node n toks [] (series no) in
           let (sts, toks) = per_node n toks [] (fun toks -> let (v, toks) = c07_take ns toks in (List.map c07_unhex v, toks)) in
           (match List.find_opt (fun md -> md.md_name = name) cs.cc_models with
            | Some md ->
              let rec fill j ps ss ins outs sts = match ps, ss, ins, outs, sts with
                | p :: ps, s0 :: ss, i :: ins, o :: outs, s1 :: sts ->
                  Hashtbl.replace tab (c07_key name p s0 i) (o, s1); fill (j+1) ps ss ins outs sts
                | _ -> () in
              fill 0 md.md_params md.md_states ins outs sts
            | None -> ());
           go (k-1) toks
         | _ -> failwith "OM") in
    let rest = go (int_of_string k) r in
    (Some tab, rest)
  | _ -> (None, toks)

let c07_parse_trace toks =
  match toks with
  | "TRACE" :: k :: r ->
    let k = int_of_string k in
    let rec go k toks acc = if k = 0 then List.rev acc else
        match toks with
        | ev :: g :: r ->
          let g = c07_nat (int_of_string g) in
          let withw prefix mk =
            let w = c07_nat (int_of_string (String.sub ev (String.length prefix) (String.length ev - String.length prefix))) in
            mk w in
          let starts p = String.length ev > String.length p && String.sub ev 0 (String.length p) = p in
          let lab =
            if ev = "ran" then Some (LRun g)
            else if ev = "spawn" then Some (LSpawn g)
            else if ev = "link" then Some (LLinkOne g)
            else if ev = "linked" then Some (LLinks g)
            else if ev = "written" then Some (LWrite g)
            else if ev = "main-recv" then Some (LMainRecv g)
            else if ev = "exit" then Some LExit
            else if starts "recv:" then Some (withw "recv:" (fun w -> LRecv (w, g)))
            else if starts "purged:" then Some (withw "purged:" (fun w -> LPurge (w, g)))
            else None (* sent, putback:<w>, main-putback: markers after a completed send *) in
          go (k-1) r (match lab with Some l -> l :: acc | None -> acc)
        | _ -> failwith "trace" in
    Some (go k r [])
  | _ -> None

let c07_dump_series_ds (b : Buffer.t) tag name label (ds : Float64.t list list option list option) =
  Buffer.add_string b (Printf.sprintf " | %s %s %s" tag name label);
  match ds with
  | None -> Buffer.add_string b " NONE"
  | Some rows ->
    let n = List.length rows in
    let first = (match List.find_opt (fun r -> r <> None) rows with Some (Some r) -> r | _ -> []) in
    let cols = List.length first in
    let t = (match first with s :: _ -> List.length s | [] -> 0) in
    Buffer.add_string b (Printf.sprintf " 3 %d %d %d :" n cols t);
    List.iter (fun row -> match row with
        | None -> for _ = 1 to cols * t do Buffer.add_string b " UNWRITTEN" done
        | Some r -> List.iter (fun s -> List.iter (fun v -> Buffer.add_char b ' '; Buffer.add_string b (c07_hex v)) s) r) rows

let c07_dump_state_ds (b : Buffer.t) tag name (ds : Float64.t list option list option) =
  Buffer.add_string b (Printf.sprintf " | %s %s states" tag name);
  match ds with
  | None -> Buffer.add_string b " NONE"
  | Some rows ->
    let n = List.length rows in
    let first = (match List.find_opt (fun r -> r <> None) rows with Some (Some r) -> r | _ -> []) in
    let cols = List.length first in
    Buffer.add_string b (Printf.sprintf " 2 %d %d :" n cols);
    List.iter (fun row -> match row with
        | None -> for _ = 1 to cols do Buffer.add_string b " UNWRITTEN" done
        | Some r -> List.iter (fun v -> Buffer.add_char b ' '; Buffer.add_string b (c07_hex v)) r) rows

let c07_dump_file b tag (cs : c07_case) (res : (Float64.t, Float64.t list) out_file option) =
  match res with
  | None -> Buffer.add_string b (Printf.sprintf " | %s FAIL" tag)
  | Some file ->
    List.iter2 (fun md mo ->
        c07_dump_series_ds b tag md.md_name "inputs" mo.mo_inputs;
        c07_dump_series_ds b tag md.md_name "outputs" mo.mo_outputs;
        c07_dump_state_ds b tag md.md_name mo.mo_states) cs.cc_models file

let c07_sim (kernels : (string * (Float64.t arith -> Float64.t list -> Float64.t list -> Float64.t list list
                                   -> (Float64.t list list * Float64.t list) option)) list)
    (arith : Float64.t arith) (toks : string list) : string =
  try
    let (cs, rest) = c07_parse_case toks in
    let (otab, rest) = c07_parse_oracle cs rest in
    let trace = c07_parse_trace rest in
    let desc n = match List.assoc_opt n cs.cc_desc with Some d -> d | None -> (0, 0) in
    let cat = { cat_known = (fun n -> List.mem_assoc n kernels);
                cat_nin = (fun n -> c07_nat (fst (desc n)));
                cat_nout = (fun n -> c07_nat (snd (desc n))) } in
    let kreg n p s i = match List.assoc_opt n kernels with Some f -> f arith p s i | None -> None in
    let k = match otab with
      | Some tab -> (fun n p s i -> Hashtbl.find_opt tab (c07_key n p s i))
      | None -> kreg in
    let eqb (a : string) (b : string) = (a = b) in
    let gr = { g_models = cs.cc_models; g_links = cs.cc_links } in
    let b = Buffer.create 4096 in
    Buffer.add_string b (Printf.sprintf "VALID %d" (if c07_valid cat eqb gr then 1 else 0));
    c07_dump_file b "MIMPL" cs (c07_impl_sim arith cat k eqb gr cs.cc_sel);
    c07_dump_file b "MREF" cs (c07_ref_sim arith cat k eqb gr cs.cc_sel);
    (match otab with
     | Some _ -> c07_dump_file b "RIMPL" cs (c07_impl_sim arith cat kreg eqb gr cs.cc_sel)
     | None -> ());
    (match trace with
     | None -> ()
     | Some ls ->
       let g = n_gens gr in
       let outp = cs.cc_sel.sel_outfile in
       c07_dump_file b "MSCHED" cs (c07_impl_sched arith cat k eqb gr cs.cc_sel ls);
       Buffer.add_string b (Printf.sprintf " | PROTO accepts=%d exited=%d legal=%d"
                              (if c07_accepts g outp ls then 1 else 0)
                              (if c07_accepts_exited g outp ls then 1 else 0)
                              (if c07_legal g outp ls then 1 else 0)));
    Buffer.contents b
  with Failure m -> "BADCASE " ^ m | Not_found -> "BADCASE notfound" | Invalid_argument m -> "BADCASE " ^ m
