(* C10/C15: INIT <Model> P n hex.. -> OK S n hex..  (the model's own initial state vector) *)
let rr_hex f = Printf.sprintf "%016Lx" (Int64.bits_of_float (Float64.to_float f))
let rr_unhex s = Float64.of_float (Int64.float_of_bits (Int64.of_string ("0x" ^ s)))
let rr_init (ar : Float64.t arith) (toks : string list) : string =
  let zeros n = List.init n (fun _ -> Float64.of_float 0.0) in
  let out l = "OK S " ^ string_of_int (List.length l) ^ String.concat "" (List.map (fun v -> " " ^ rr_hex v) l) in
  match toks with
  | "GR4J" :: "P" :: "4" :: _ :: _ :: _ :: x4 :: _ -> out (gr4j_init ar (rr_unhex x4))
  | "Sacramento" :: _ -> out (zeros 6)
  | "Simhyd" :: _ -> out (zeros 3)
  | "Surm" :: _ -> out (zeros 3)
  | "RunoffCoefficient" :: _ -> out (zeros 0)
  | _ -> "NOMODEL"
