(* C08 helpers: the h5ops case lines (see harness/cmd/h5ops/main.go) run on the
   extracted model IO/IoOps.v.  Only parsing and printing happens here. *)
let rec c08_pos_of_int (n : int) : positive =
  if n <= 1 then XH else if n land 1 = 0 then XO (c08_pos_of_int (n lsr 1)) else XI (c08_pos_of_int (n lsr 1))
let c08_z_of_int (n : int) : z = if n = 0 then Z0 else if n > 0 then Zpos (c08_pos_of_int n) else Zneg (c08_pos_of_int (- n))
(* hex string (up to 64 bits) -> Z, digit by digit *)
let c08_z_of_hex (s : string) : z =
  let acc = ref Z0 in
  String.iter (fun ch ->
      let d = match ch with
        | '0'..'9' -> Char.code ch - 48 | 'a'..'f' -> Char.code ch - 87 | 'A'..'F' -> Char.code ch - 55
        | _ -> failwith "bad hex" in
      acc := Z.add (Z.mul !acc (c08_z_of_int 16)) (c08_z_of_int d)) s;
  !acc
let rec c08_pos_to_string_hex (p : positive) : string =
  (* via repeated division by 16 on Z *)
  let sixteen = c08_z_of_int 16 in
  let rec go (v : z) (acc : string) =
    match v with
    | Z0 -> if acc = "" then "0" else acc
    | _ ->
      let q = Z.div v sixteen and r = Z.modulo v sixteen in
      let d = (match r with Z0 -> 0 | Zpos p -> c08_small p | Zneg _ -> failwith "neg") in
      go q (String.make 1 "0123456789abcdef".[d] ^ acc) in
  go (Zpos p) ""
and c08_small (p : positive) : int =
  match p with XH -> 1 | XO q -> 2 * c08_small q | XI q -> 2 * c08_small q + 1
let c08_hex_of_z (v : z) : string =
  match v with Z0 -> "0" | Zpos p -> c08_pos_to_string_hex p | Zneg _ -> "NEG"
let rec c08_dec_of_z (v : z) : string =
  match v with
  | Z0 -> "0"
  | Zneg p -> "-" ^ c08_dec_of_z (Zpos p)
  | Zpos _ ->
    let ten = c08_z_of_int 10 in
    let rec go v acc = match v with
      | Z0 -> acc
      | _ -> let q = Z.div v ten and r = Z.modulo v ten in
        let d = (match r with Z0 -> 0 | Zpos p -> c08_small p | Zneg _ -> 0) in
        go q (string_of_int d ^ acc) in
    go v ""
let c08_name (s : string) : z list =
  if String.length s = 0 || s.[0] <> '@' then failwith "name token";
  List.init (String.length s - 1) (fun i -> c08_z_of_int (Char.code s.[i + 1]))
let c08_name_str (n : z list) : string =
  "@" ^ String.concat "" (List.map (fun c -> String.make 1 (Char.chr (match c with Z0 -> 0 | Zpos p -> c08_small p | Zneg _ -> 63))) n)
let c08_take n toks =
  let rec go n acc toks = if n = 0 then (List.rev acc, toks) else
    match toks with t :: r -> go (n-1) (t :: acc) r | [] -> failwith "short" in
  go n [] toks
(* decimal string -> Z, digit by digit (values up to MaxInt64 do not fit an OCaml int) *)
let c08_z_of_dec (s : string) : z =
  let neg = String.length s > 0 && s.[0] = '-' in
  let acc = ref Z0 in
  String.iteri (fun i ch ->
      if not (i = 0 && (ch = '-' || ch = '+')) then begin
        if ch < '0' || ch > '9' then failwith "bad decimal";
        acc := Z.add (Z.mul !acc (c08_z_of_int 10)) (c08_z_of_int (Char.code ch - 48)) end) s;
  if neg then (match !acc with Z0 -> Z0 | Zpos p -> Zneg p | Zneg p -> Zpos p) else !acc
let c08_ints n toks = let (l, r) = c08_take n toks in (List.map c08_z_of_dec l, r)
let c08_int toks = match toks with t :: r -> (int_of_string t, r) | [] -> failwith "short"
let rec c08_sels n toks =
  if n = 0 then ([], toks) else
    match toks with
    | "N" :: r -> let (l, r) = c08_sels (n-1) r in (None :: l, r)
    | "T" :: r -> let (t, r) = c08_ints 3 r in let (l, r) = c08_sels (n-1) r in (Some t :: l, r)
    | "X" :: m :: r -> let (t, r) = c08_ints (int_of_string m) r in let (l, r) = c08_sels (n-1) r in (Some t :: l, r)
    | _ -> failwith "bad selection"
(* ARR: skip the base/slice description, take the logical (dims, elems) *)
let c08_arr toks =
  let (r, toks) = c08_int toks in
  let (_, toks) = c08_take r toks in
  let (n, toks) = c08_int toks in
  let (_, toks) = c08_take n toks in
  let (sl, toks) = c08_int toks in
  let (_, toks) = if sl = 1 then c08_take (3 * r) toks
    else if sl = 2 then (let (m, toks) = c08_int toks in c08_take m toks)
    else ([], toks) in
  let (lr, toks) = c08_int toks in
  let (ldims, toks) = c08_ints lr toks in
  let (ln, toks) = c08_int toks in
  let (lv, toks) = c08_take ln toks in
  ({ ha_dims = ldims; ha_elems = List.map c08_z_of_hex lv }, toks)
let rec c08_parse_ops toks =
  match toks with
  | [] -> []
  | "C" :: nm :: r ->
    let (k, r) = c08_int r in let (shape, r) = c08_ints k r in let (c, r) = c08_int r in
    OpCreate ({ h_dataset = c08_name nm; h_slice = None }, shape, c = 1) :: c08_parse_ops r
  | "W" :: nm :: r ->
    let (a, r) = c08_arr r in OpWrite ({ h_dataset = c08_name nm; h_slice = None }, a) :: c08_parse_ops r
  | "S" :: nm :: r ->
    let (a, r) = c08_arr r in let (k, r) = c08_int r in let (loc, r) = c08_ints k r in
    OpWriteSlice ({ h_dataset = c08_name nm; h_slice = None }, a, loc) :: c08_parse_ops r
  | "L" :: nm :: r -> OpLoad { h_dataset = c08_name nm; h_slice = None } :: c08_parse_ops r
  | "LS" :: nm :: r ->
    let (k, r) = c08_int r in let (sl, r) = c08_sels k r in
    OpLoad { h_dataset = c08_name nm; h_slice = Some sl } :: c08_parse_ops r
  | "P" :: nm :: r -> OpShape { h_dataset = c08_name nm; h_slice = None } :: c08_parse_ops r
  | "E" :: nm :: r -> OpExists { h_dataset = c08_name nm; h_slice = None } :: c08_parse_ops r
  | "D" :: nm :: r -> OpDatasets { h_dataset = c08_name nm; h_slice = None } :: c08_parse_ops r
  | "G" :: nm :: r -> OpGroups { h_dataset = c08_name nm; h_slice = None } :: c08_parse_ops r
  | t :: _ -> failwith ("bad op " ^ t)
let c08_fmt_arr (a : z harr) : string =
  String.concat " " ([string_of_int (List.length a.ha_dims)] @ List.map c08_dec_of_z a.ha_dims
                     @ [string_of_int (List.length a.ha_elems)] @ List.map c08_hex_of_z a.ha_elems)
let c08_fmt_obs (o : z io_obs) : string =
  let unit_res r = (match r with IoPanic -> "panic" | IoRet (_, true) -> "err" | IoRet (_, false) -> "ok") in
  match o with
  | ObsUnit r -> unit_res r
  | ObsArr r ->
    (match r with
     | IoPanic -> "panic"
     | IoRet (None, e) -> if e then "err" else "ok"
     | IoRet (Some a, e) -> (if e then "okerr " else "ok ") ^ c08_fmt_arr a)
  | ObsShape r ->
    (match r with
     | IoPanic -> "panic"
     | IoRet (Some s, false) -> String.concat " " (["ok"; string_of_int (List.length s)] @ List.map c08_dec_of_z s)
     | IoRet (_, _) -> "err")
  | ObsBool b -> if b then "true" else "false"
  | ObsNames r ->
    (match r with
     | IoPanic -> "panic"
     | IoRet (Some l, false) -> String.concat " " (["ok"; string_of_int (List.length l)] @ List.map c08_name_str l)
     | IoRet (_, _) -> "err")
let c08_fmt_file (f : z h5store option) : string =
  match f with
  | None -> "NOFILE"
  | Some st ->
    let pstr p = String.concat "" (List.map (fun n -> "/" ^ (let s = c08_name_str n in String.sub s 1 (String.length s - 1))) p) in
    let lines = List.map (fun (p, o) ->
        match o with
        | OGroup -> "g:" ^ pstr p
        | ODataset d ->
          String.concat " " (["d:" ^ pstr p; string_of_int (List.length d.ds_dims)] @ List.map c08_dec_of_z d.ds_dims
                             @ [string_of_int (List.length d.ds_data)] @ List.map c08_hex_of_z d.ds_data)) st in
    let lines = List.sort compare lines in
    "FILE " ^ string_of_int (List.length lines) ^ " " ^ String.concat " ; " lines
(* "SHARE id" marks an argument object that the Go harness passes to several calls;
   the tokens that follow repeat its original definition, which is what the model uses. *)
let rec c08_drop_share toks =
  match toks with
  | "SHARE" :: _ :: r -> c08_drop_share r
  | t :: r -> t :: c08_drop_share r
  | [] -> []
let c08_seq (_ : Float64.t arith) (toks : string list) : string =
  match c08_drop_share toks with
  | ty :: r ->
    let cdc = (match ty with "int" | "uint" -> uint_codec | _ -> id_codec) in
    let ops = c08_parse_ops r in
    let (f, obs) = io_run_ops cdc None ops in
    String.concat " | " (List.map c08_fmt_obs obs) ^ " || " ^ c08_fmt_file f
  | [] -> failwith "bad SEQ"
let c08_box toks f =
  match List.map int_of_string toks with
  | [amax; bmax; smin; smax; nmax] ->
    let r = ref [] in
    for a = 0 to amax do for b = 0 to bmax do for s = smin to smax do for n = 0 to nmax do
            r := f a b s n :: !r done done done done;
    (List.rev !r, nmax)
  | _ -> failwith "bad box"
let c08_fmt_hs (h : hyperslab option) : string =
  match h with
  | None -> "P"
  | Some h ->
    let f l = String.concat "," (List.map c08_dec_of_z l) in
    f h.hs_offset ^ ":" ^ f h.hs_stride ^ ":" ^ f h.hs_count ^ ":" ^ f h.hs_block
let c08_ssall (_ : Float64.t arith) (toks : string list) : string =
  let z = c08_z_of_int in
  let (l, _) = c08_box toks (fun a b s n ->
      match slice_size [z a; z b; z s] (z n) with None -> "P" | Some v -> c08_dec_of_z v) in
  String.concat " " l
let c08_sslist (_ : Float64.t arith) (toks : string list) : string =
  let (k, r) = c08_int toks in
  let rec go k r acc =
    if k = 0 then List.rev acc else
      match r with
      | a :: b :: s :: n :: r ->
        let v = (match slice_size [c08_z_of_dec a; c08_z_of_dec b; c08_z_of_dec s] (c08_z_of_dec n) with
            | None -> "P" | Some v -> c08_dec_of_z v) in
        go (k - 1) r (v :: acc)
      | _ -> failwith "bad SSLIST" in
  String.concat " " (go k r [])
let c08_mh1all (_ : Float64.t arith) (toks : string list) : string =
  let z = c08_z_of_int in
  let (l, nmax) = c08_box toks (fun a b s n -> c08_fmt_hs (make_hyperslab [Some [z a; z b; z s]] [z n])) in
  let nils = List.init (nmax + 1) (fun n -> c08_fmt_hs (make_hyperslab [None] [z n])) in
  String.concat " " (l @ nils)
let c08_mh (_ : Float64.t arith) (toks : string list) : string =
  let (k, r) = c08_int toks in
  let (sl, r) = c08_sels k r in
  let (rk, r) = c08_int r in
  let (dims, _) = c08_ints rk r in
  c08_fmt_hs (make_hyperslab sl dims)
