(* C04/C05: FOOTPRINT <Model> nIn nI T N S oN oK oT nP nSets ndims (name max)* P n hex..
     -> OK FD name=v,.. | cell 0 R I:a,b.. S:.. O:.. P:.. W I: S:.. O:.. P: | cell 1 ...
   closed-form read / write sets of every cell (Wrapper/Run.v cell_reads / cell_writes) and the
   model's FindDimensions on the same parameter matrix. *)
let rec c04_nat_of_int n = if n <= 0 then O else S (c04_nat_of_int (n - 1))
let rec c04_int_of_nat = function O -> 0 | S n -> 1 + c04_int_of_nat n
let c04_ascii_of_char c =
  let n = Char.code c in
  let b k = (n lsr k) land 1 = 1 in
  Ascii (b 0, b 1, b 2, b 3, b 4, b 5, b 6, b 7)
let c04_coq_string s =
  let rec go i = if i = String.length s then EmptyString else String (c04_ascii_of_char s.[i], go (i + 1)) in
  go 0
let c04_char_of_ascii (Ascii (b0, b1, b2, b3, b4, b5, b6, b7)) =
  let v b k = if b then 1 lsl k else 0 in
  Char.chr (v b0 0 + v b1 1 + v b2 2 + v b3 3 + v b4 4 + v b5 5 + v b6 6 + v b7 7)
let rec c04_ocaml_string = function
  | EmptyString -> ""
  | String (a, r) -> String.make 1 (c04_char_of_ascii a) ^ c04_ocaml_string r
let c04_unhex s = Float64.of_float (Int64.float_of_bits (Int64.of_string ("0x" ^ s)))
let c04_footprint (ar : Float64.t arith) (toks : string list) : string =
  match toks with
  | name :: nin :: ni :: t :: n :: s :: on :: ok :: ot :: np :: nsets :: ndims :: rest ->
    let i = int_of_string in
    let nat x = c04_nat_of_int (i x) in
    (match wrapper_spec (c04_coq_string name) with
     | None -> "NOSPEC"
     | Some sp ->
       let rec dims k r acc = if k = 0 then (List.rev acc, r) else
           match r with
           | d :: v :: r' -> dims (k - 1) r' ((c04_coq_string d, nat v) :: acc)
           | _ -> failwith "dims" in
       let (maxd, rest) = dims (i ndims) rest [] in
       let p = match rest with
         | "P" :: cnt :: vals -> List.map c04_unhex (List.filteri (fun k _ -> k < i cnt) vals)
         | _ -> failwith "expected P" in
       let sh = { dI = [nat nin; nat ni; nat t]; dS = [nat n; nat s]; dO = [nat on; nat ok; nat ot];
                  dP = [nat np; nat nsets] } in
       let b = Buffer.create 4096 in
       Buffer.add_string b "OK FD ";
       (match wrapper_find_dimensions ar sp sh p with
        | None -> Buffer.add_string b "PANIC"
        | Some env ->
          Buffer.add_string b (String.concat "," (List.map (fun (d, v) ->
              c04_ocaml_string d ^ "=" ^ string_of_int (c04_int_of_nat v)) env));
          if env = [] then Buffer.add_string b "-");
       let part bufs l =
         List.iter (fun (tag, bb) ->
             let offs = List.filter_map (fun (b', o) -> if b' = bb then Some (c04_int_of_nat o) else None) l in
             Buffer.add_string b (" " ^ tag ^ ":" ^ String.concat "," (List.map string_of_int (List.sort_uniq compare offs))))
           bufs in
       let bufs = [("I", BI); ("S", BS); ("O", BO); ("P", BP)] in
       for c = 0 to i n - 1 do
         let (r, w) = wrapper_footprint ar sp sh maxd p (c04_nat_of_int c) in
         Buffer.add_string b (Printf.sprintf " | cell %d R" c);
         part bufs r;
         Buffer.add_string b " W";
         part bufs w
       done;
       Buffer.contents b)
  | _ -> "BADARGS"

(* INITMODEL <Model> n nSets nP P <nP*nSets hex> ROWS (len hex..){nSets}
     -> PANIC | OK rows cols hex..      the model's InitialiseStates(n) (Wrapper/Run.v initialise_states),
   with the init function given as the table  parameter column of set c -> ROWS[c]. *)
let c04_hex f = Printf.sprintf "%016Lx" (Int64.bits_of_float (Float64.to_float f))
let c04_bits f = Int64.bits_of_float (Float64.to_float f)
let c04_initmodel (ar : Float64.t arith) (toks : string list) : string =
  match toks with
  | name :: n :: nsets :: np :: "P" :: rest ->
    let i = int_of_string in
    let n = i n and nsets = i nsets and np = i np in
    let rec take k l acc = if k = 0 then (List.rev acc, l) else
        match l with x :: r -> take (k - 1) r (x :: acc) | [] -> failwith "short" in
    let (pv, rest) = take (np * nsets) rest [] in
    let p = List.map c04_unhex pv in
    let rows = match rest with
      | "ROWS" :: r ->
        let rec go c r acc = if c = 0 then List.rev acc else
            match r with
            | len :: r' -> let (vs, r'') = take (i len) r' [] in go (c - 1) r'' (List.map c04_unhex vs :: acc)
            | [] -> failwith "rows" in
        go nsets r []
      | _ -> failwith "expected ROWS" in
    (match wrapper_spec (c04_coq_string name) with
     | None -> "NOSPEC"
     | Some sp ->
       let parr = Array.of_list p in
       let column c = List.init np (fun r -> parr.(r * nsets + c)) in
       let kinit ps =
         let key = List.map c04_bits ps in
         let rec find c = if c >= nsets then [] else
             if List.map c04_bits (column c) = key then List.nth rows c else find (c + 1) in
         find 0 in
       (match wrapper_initialise_states ar kinit sp (c04_nat_of_int nsets) p (c04_nat_of_int n) with
        | None -> "PANIC"
        | Some (dims, st) ->
          "OK " ^ String.concat " " (List.map (fun d -> string_of_int (c04_int_of_nat d)) dims) ^
          String.concat "" (List.map (fun v -> " " ^ c04_hex v) st)))
  | _ -> "BADARGS"
