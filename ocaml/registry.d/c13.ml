(* C13: STORAGE_TRACE <same tokens as a K Storage case after the model name>
   -> "TRACE <OK|CONFIG|PANIC|FUEL> nsteps  k_1 v.. k_2 v.. ..." : per time step the
   number of accepted sub-steps k followed by 7*k hex values
   (h avgOutflow avgArea spill v0 vp v1 per sub-step). *)
let c13_hex f = Printf.sprintf "%016Lx" (Int64.bits_of_float (Float64.to_float f))
let c13_unhex s = Float64.of_float (Int64.float_of_bits (Int64.of_string ("0x" ^ s)))
let c13_take n toks =
  let rec go n acc toks = if n = 0 then (List.rev acc, toks) else
    match toks with t :: r -> go (n-1) (t :: acc) r | [] -> failwith "short" in
  go n [] toks
let c13_storage_trace arith toks =
  match toks with
  | "P" :: n :: r ->
    let (ps, r) = c13_take (int_of_string n) r in
    (match r with
     | "S" :: n :: r ->
       let (ss, r) = c13_take (int_of_string n) r in
       (match r with
        | "I" :: k :: len :: r ->
          let k = int_of_string k and len = int_of_string len in
          let rec rows k r acc = if k = 0 then List.rev acc else
              let (row, r) = c13_take len r in rows (k-1) r (List.map c13_unhex row :: acc) in
          let ins = rows k r [] in
          let (code, steps) = storage_trace arith (List.map c13_unhex ps) (List.map c13_unhex ss) ins in
          let b = Buffer.create 1024 in
          Buffer.add_string b "TRACE ";
          Buffer.add_string b (match code with TCOk -> "OK" | TCConfigError -> "CONFIG" | TCPanic -> "PANIC" | TCFuel -> "FUEL");
          Buffer.add_char b ' ';
          Buffer.add_string b (string_of_int (List.length steps));
          List.iter (fun st ->
            Buffer.add_char b ' ';
            Buffer.add_string b (string_of_int (List.length st / 7));
            List.iter (fun v -> Buffer.add_char b ' '; Buffer.add_string b (c13_hex v)) st) steps;
          Buffer.contents b
        | _ -> "BADARGS")
     | _ -> "BADARGS")
  | _ -> "BADARGS"

(* C13: STORAGE_KCOUNT <same tokens> -> "KC <total> <max> <kernel result line>" : the kernel result in the
   K-line output format preceded by the cumulative number of accepted sub-steps over the whole run and
   the largest per-step count (one evaluation; for long runs whose full trace is too large to print). *)
let rec c13_nat_to_int (n : nat) : int = match n with O -> 0 | S m -> 1 + c13_nat_to_int m
let c13_storage_kcount arith toks =
  match toks with
  | "P" :: n :: r ->
    let (ps, r) = c13_take (int_of_string n) r in
    (match r with
     | "S" :: n :: r ->
       let (ss, r) = c13_take (int_of_string n) r in
       (match r with
        | "I" :: k :: len :: r ->
          let k = int_of_string k and len = int_of_string len in
          let rec rows k r acc = if k = 0 then List.rev acc else
              let (row, r) = c13_take len r in rows (k-1) r (List.map c13_unhex row :: acc) in
          let ins = rows k r [] in
          let (res, counts) = storage_kernel_counts arith (List.map c13_unhex ps) (List.map c13_unhex ss) ins in
          let counts = List.map c13_nat_to_int counts in
          let b = Buffer.create 4096 in
          Buffer.add_string b (Printf.sprintf "KC %d %d " (List.fold_left (+) 0 counts) (List.fold_left max 0 counts));
          (match res with
           | None -> Buffer.add_string b "PANIC"
           | Some (outs, sts) ->
             Buffer.add_string b "OK O ";
             Buffer.add_string b (string_of_int (List.length outs));
             Buffer.add_char b ' ';
             Buffer.add_string b (string_of_int (match outs with [] -> 0 | o :: _ -> List.length o));
             List.iter (fun row -> List.iter (fun v -> Buffer.add_char b ' '; Buffer.add_string b (c13_hex v)) row) outs;
             Buffer.add_string b " S ";
             Buffer.add_string b (string_of_int (List.length sts));
             List.iter (fun v -> Buffer.add_char b ' '; Buffer.add_string b (c13_hex v)) sts);
          Buffer.contents b
        | _ -> "BADARGS")
     | _ -> "BADARGS")
  | _ -> "BADARGS"
