(* C18 helpers: parsing of ROOT / PIECEWISE cases, printing (NaN as "nan"). *)
let c18_hex (f : Float64.t) : string =
  let x = Float64.to_float f in
  if x <> x then "nan" else Printf.sprintf "%016Lx" (Int64.bits_of_float x)
let c18_unhex (s : string) : Float64.t = Float64.of_float (Int64.float_of_bits (Int64.of_string ("0x" ^ s)))
let rec c18_nat (i : int) : nat = if i <= 0 then O else S (c18_nat (i - 1))
let c18_take n toks =
  let rec go n acc toks = if n = 0 then (List.rev acc, toks) else
    match toks with t :: r -> go (n-1) (t :: acc) r | [] -> failwith "short" in
  go n [] toks
(* fspec -> (function option, remaining tokens) *)
let rec c18_parse_fn (ar : Float64.t arith) toks : (Float64.t -> Float64.t) option * string list =
  match toks with
  | "NONE" :: r -> (None, r)
  | "POLY" :: k :: r ->
    let (cs, r) = c18_take (int_of_string k) r in
    let cs = List.map c18_unhex cs in
    (Some (c18_tf_poly ar cs), r)
  | "PWL" :: k :: r ->
    let k = int_of_string k in
    let (xs, r) = c18_take k r in
    let (ys, r) = c18_take k r in
    let ks = List.combine (List.map c18_unhex xs) (List.map c18_unhex ys) in
    (Some (c18_tf_pwl ar ks), r)
  | "POW" :: k :: m :: c :: r ->
    (Some (c18_tf_pow ar (c18_unhex k) (c18_unhex m) (c18_unhex c)), r)
  | "SHPOW" :: k :: r0 :: p :: r ->
    (Some (c18_tf_shpow ar (c18_unhex k) (c18_unhex r0) (c18_nat (int_of_string p))), r)
  | "DIV" :: r ->
    (match c18_parse_fn ar r with
     | (Some num, r) ->
       (match c18_parse_fn ar r with
        | (Some den, r) -> (Some (fun x -> c18_tf_div ar (num x) (den x)), r)
        | _ -> failwith "bad DIV")
     | _ -> failwith "bad DIV")
  | "PWT" :: k :: r ->
    let k = int_of_string k in
    let (xs, r) = c18_take k r in
    let (ys, r) = c18_take k r in
    (Some (c18_tf_pwt ar (List.map c18_unhex xs) (List.map c18_unhex ys)), r)
  | _ -> failwith "bad function spec"
let c18_root (ar : Float64.t arith) (toks : string list) : string =
  let (f, r) = c18_parse_fn ar toks in
  let (d, r) = c18_parse_fn ar r in
  match f, r with
  | Some f, [x0; a; b; tol; conv; n] ->
    (match c18_find_root ar f d (c18_unhex tol) (c18_unhex conv) (c18_unhex x0) (c18_unhex a) (c18_unhex b)
             (c18_nat (int_of_string n)) with
     | None -> "PANIC"
     | Some (((x, delta), evals), devals) ->
       let b = Buffer.create 256 in
       Buffer.add_string b ("OK " ^ c18_hex x ^ " " ^ c18_hex delta ^ " E " ^ string_of_int (List.length evals));
       List.iter (fun e -> Buffer.add_char b ' ';
                   Buffer.add_string b (match e with None -> "nan" | Some v -> c18_hex v)) evals;
       Buffer.add_string b (" D " ^ string_of_int (List.length devals));
       List.iter (fun e -> Buffer.add_char b ' '; Buffer.add_string b (c18_hex e)) devals;
       Buffer.contents b)
  | _ -> failwith "bad ROOT case"
let c18_pw (ar : Float64.t arith) (toks : string list) : string =
  match toks with
  | n :: r ->
    let n = int_of_string n in
    let (xs, r) = c18_take n r in
    let (ys, r) = c18_take n r in
    (match r with
     | [q] ->
       (match c18_piecewise ar (c18_unhex q) (List.map c18_unhex xs) (List.map c18_unhex ys) with
        | None -> "PANIC"
        | Some None -> "ERR"
        | Some (Some y) -> "OK " ^ c18_hex y)
     | _ -> failwith "bad PIECEWISE case")
  | _ -> failwith "bad PIECEWISE case"

(* NEST: nested solves.  The model is a pure function, so every activation is simply run on its own:
   the residual of a level with an inner level calls the model's find_root for the inner level; the
   trace re-runs each inner activation at the evaluation points the outer activation reports. *)
exception C18_panic
type c18_level = { lf : Float64.t -> Float64.t; ld : (Float64.t -> Float64.t) option;
                   lx0 : Float64.t; la : Float64.t; lb : Float64.t; ltol : Float64.t; lconv : Float64.t;
                   ln : int; ls : Float64.t; lt : Float64.t }
let c18_nan = Float64.of_float Float.nan
let rec c18_resid ar (levels : c18_level list) (p : Float64.t) : Float64.t -> Float64.t =
  match levels with
  | [] -> failwith "no level"
  | [l] -> (fun x -> c18_tf_nest_inner ar (l.lf x) l.lt p)
  | l :: rest ->
    (fun x ->
       match c18_solve ar rest x with
       | None -> raise C18_panic
       | Some (((y, _), _), _) -> c18_tf_nest_outer ar (l.lf x) l.lt p l.ls y)
and c18_solve ar (levels : c18_level list) (p : Float64.t) =
  match levels with
  | [] -> failwith "no level"
  | l :: _ -> c18_find_root ar (c18_resid ar levels p) l.ld l.ltol l.lconv l.lx0 l.la l.lb (c18_nat l.ln)
let rec c18_trace ar (levels : c18_level list) (lvl : int) (p : Float64.t) (acc : string list ref) : unit =
  match c18_solve ar levels p with
  | None -> raise C18_panic
  | Some (((x, delta), evals), devals) ->
    let pts = List.map (fun e -> match e with None -> c18_nan | Some v -> v) evals in
    (match levels with
     | _ :: (_ :: _ as rest) -> List.iter (fun e -> c18_trace ar rest (lvl + 1) e acc) pts
     | _ -> ());
    let resid = c18_resid ar levels p in
    let b = Buffer.create 256 in
    let fl tag l = Buffer.add_string b (" " ^ tag ^ " " ^ string_of_int (List.length l));
      List.iter (fun v -> Buffer.add_char b ' '; Buffer.add_string b (c18_hex v)) l in
    Buffer.add_string b ("L " ^ string_of_int lvl ^ " P " ^ c18_hex p ^ " X " ^ c18_hex x ^ " " ^ c18_hex delta);
    fl "E" pts; fl "V" (List.map resid pts); fl "D" devals;
    acc := Buffer.contents b :: !acc
let c18_nest (ar : Float64.t arith) (toks : string list) : string =
  match toks with
  | depth :: r ->
    let rec levels k r = if k = 0 then [] else
        let (f, r) = c18_parse_fn ar r in
        let (d, r) = c18_parse_fn ar r in
        (match f, r with
         | Some f, x0 :: a :: b :: tol :: conv :: n :: s :: t :: r ->
           { lf = f; ld = d; lx0 = c18_unhex x0; la = c18_unhex a; lb = c18_unhex b; ltol = c18_unhex tol;
             lconv = c18_unhex conv; ln = int_of_string n; ls = c18_unhex s; lt = c18_unhex t } :: levels (k - 1) r
         | _ -> failwith "bad NEST level") in
    let ls = levels (int_of_string depth) r in
    let acc = ref [] in
    (try
       c18_trace ar ls 1 (Float64.of_float 0.0) acc;
       let tr = List.rev !acc in
       "OK T " ^ string_of_int (List.length tr) ^ " | " ^ String.concat " | " tr
     with C18_panic -> "PANIC")
  | _ -> failwith "bad NEST case"
