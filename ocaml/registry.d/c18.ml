(* C18 helpers: parsing of ROOT / PIECEWISE cases, printing (NaN as "nan"). *)
let c18_hex (f : Float64.t) : string =
  let x = Float64.to_float f in
  if x <> x then "nan" else Printf.sprintf "%016Lx" (Int64.bits_of_float x)
let c18_unhex (s : string) : Float64.t = Float64.of_float (Int64.float_of_bits (Int64.of_string ("0x" ^ s)))
let rec c18_nat (i : int) : nat = if i <= 0 then O else S (c18_nat (i - 1))
let c18_take n toks =
  let rec go n acc toks = if n = 0 then (List.rev acc, toks) else
    match toks with t :: r -> go (n-1) (t :: acc) r | [] -> failwith "short" in
  go n [] toks
(* fspec -> (function option, remaining tokens) *)
let c18_parse_fn (ar : Float64.t arith) toks : (Float64.t -> Float64.t) option * string list =
  match toks with
  | "NONE" :: r -> (None, r)
  | "POLY" :: k :: r ->
    let (cs, r) = c18_take (int_of_string k) r in
    let cs = List.map c18_unhex cs in
    (Some (c18_tf_poly ar cs), r)
  | "PWL" :: k :: r ->
    let k = int_of_string k in
    let (xs, r) = c18_take k r in
    let (ys, r) = c18_take k r in
    let ks = List.combine (List.map c18_unhex xs) (List.map c18_unhex ys) in
    (Some (c18_tf_pwl ar ks), r)
  | "POW" :: k :: m :: c :: r ->
    (Some (c18_tf_pow ar (c18_unhex k) (c18_unhex m) (c18_unhex c)), r)
  | "SHPOW" :: k :: r0 :: p :: r ->
    (Some (c18_tf_shpow ar (c18_unhex k) (c18_unhex r0) (c18_nat (int_of_string p))), r)
  | _ -> failwith "bad function spec"
let c18_root (ar : Float64.t arith) (toks : string list) : string =
  let (f, r) = c18_parse_fn ar toks in
  let (d, r) = c18_parse_fn ar r in
  match f, r with
  | Some f, [x0; a; b; tol; conv; n] ->
    (match c18_find_root ar f d (c18_unhex tol) (c18_unhex conv) (c18_unhex x0) (c18_unhex a) (c18_unhex b)
             (c18_nat (int_of_string n)) with
     | None -> "PANIC"
     | Some (((x, delta), evals), devals) ->
       let b = Buffer.create 256 in
       Buffer.add_string b ("OK " ^ c18_hex x ^ " " ^ c18_hex delta ^ " E " ^ string_of_int (List.length evals));
       List.iter (fun e -> Buffer.add_char b ' ';
                   Buffer.add_string b (match e with None -> "nan" | Some v -> c18_hex v)) evals;
       Buffer.add_string b (" D " ^ string_of_int (List.length devals));
       List.iter (fun e -> Buffer.add_char b ' '; Buffer.add_string b (c18_hex e)) devals;
       Buffer.contents b)
  | _ -> failwith "bad ROOT case"
let c18_pw (ar : Float64.t arith) (toks : string list) : string =
  match toks with
  | n :: r ->
    let n = int_of_string n in
    let (xs, r) = c18_take n r in
    let (ys, r) = c18_take n r in
    (match r with
     | [q] ->
       (match c18_piecewise ar (c18_unhex q) (List.map c18_unhex xs) (List.map c18_unhex ys) with
        | None -> "PANIC"
        | Some None -> "ERR"
        | Some (Some y) -> "OK " ^ c18_hex y)
     | _ -> failwith "bad PIECEWISE case")
  | _ -> failwith "bad PIECEWISE case"
