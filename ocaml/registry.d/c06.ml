(* C06: SPLIT <Model> MODE m P n hex.. S n hex.. I k len hex.. CUTSETS m  k1 c..  k2 c.. ...
   -> <whole> | <split 1> | ... ; each "OK O nout len hex.. S n hex.." or "PANIC"
   (same line format as the Go harness command of the same name; the kernel table is passed in
   by the registry entry because it is defined after these helpers). *)
let c06_hex f = Stdlib.Printf.sprintf "%016Lx" (Stdlib.Int64.bits_of_float (Float64.to_float f))
let c06_unhex s = Float64.of_float (Stdlib.Int64.float_of_bits (Stdlib.Int64.of_string ("0x" ^ s)))
let c06_take n toks =
  let rec go n acc toks = if n = 0 then (Stdlib.List.rev acc, toks) else
    match toks with t :: r -> go (n-1) (t :: acc) r | [] -> failwith "short" in
  go n [] toks
let c06_sub l from upto =
  let rec drop n l = if n = 0 then l else (match l with [] -> [] | _ :: r -> drop (n-1) r) in
  let rec keep n l = if n = 0 then [] else (match l with [] -> [] | x :: r -> x :: keep (n-1) r) in
  keep (upto - from) (drop from l)
let c06_show res =
  match res with
  | None -> "PANIC"
  | Some (outs, sts) ->
    let b = Stdlib.Buffer.create 1024 in
    Stdlib.Buffer.add_string b "OK O ";
    Stdlib.Buffer.add_string b (Stdlib.string_of_int (Stdlib.List.length outs));
    Stdlib.Buffer.add_char b ' ';
    Stdlib.Buffer.add_string b (Stdlib.string_of_int (match outs with [] -> 0 | o :: _ -> Stdlib.List.length o));
    Stdlib.List.iter (fun row -> Stdlib.List.iter (fun v -> Stdlib.Buffer.add_char b ' '; Stdlib.Buffer.add_string b (c06_hex v)) row) outs;
    Stdlib.Buffer.add_string b " S ";
    Stdlib.Buffer.add_string b (Stdlib.string_of_int (Stdlib.List.length sts));
    Stdlib.List.iter (fun v -> Stdlib.Buffer.add_char b ' '; Stdlib.Buffer.add_string b (c06_hex v)) sts;
    Stdlib.Buffer.contents b
let c06_split kernels arith toks =
  match toks with
  | name :: "MODE" :: _ :: "P" :: n :: r ->
    (match Stdlib.List.assoc_opt name kernels with
     | None -> "NOMODEL"
     | Some kern ->
       let (ps, r) = c06_take (Stdlib.int_of_string n) r in
       (match r with
        | "S" :: n :: r ->
          let (ss, r) = c06_take (Stdlib.int_of_string n) r in
          (match r with
           | "I" :: k :: len :: r ->
             let k = Stdlib.int_of_string k and len = Stdlib.int_of_string len in
             let rec rows k r acc = if k = 0 then (Stdlib.List.rev acc, r) else
                 let (row, r) = c06_take len r in rows (k-1) r (Stdlib.List.map c06_unhex row :: acc) in
             let (ins, r) = rows k r [] in
             let ps = Stdlib.List.map c06_unhex ps and ss = Stdlib.List.map c06_unhex ss in
             (match r with
              | "CUTSETS" :: m :: r ->
                let rec cutsets m r acc = if m = 0 then Stdlib.List.rev acc else
                    (match r with
                     | kk :: r -> let (cs, r) = c06_take (Stdlib.int_of_string kk) r in
                       cutsets (m-1) r (Stdlib.List.map Stdlib.int_of_string cs :: acc)
                     | [] -> failwith "short cutsets") in
                let css = cutsets (Stdlib.int_of_string m) r [] in
                let whole = kern arith ps ss ins in
                let split cuts =
                  let bounds = (0 :: cuts) @ [len] in
                  let rec go bounds sts acc =
                    match bounds with
                    | a :: (b :: _ as rest) ->
                      (match kern arith ps sts (Stdlib.List.map (fun row -> c06_sub row a b) ins) with
                       | None -> None
                       | Some (o, sts') ->
                         let acc' = (match acc with None -> Some o | Some prev -> Some (Stdlib.List.map2 (fun x y -> x @ y) prev o)) in
                         go rest sts' acc')
                    | _ -> (match acc with None -> None | Some o -> Some (o, sts)) in
                  go bounds ss None in
                Stdlib.String.concat " | " (c06_show whole :: Stdlib.List.map (fun cs -> c06_show (split cs)) css)
              | _ -> "BADCASE")
           | _ -> "BADCASE")
        | _ -> "BADCASE"))
  | _ -> "BADCASE"
