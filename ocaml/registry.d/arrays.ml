(* --- arrays: parse operation histories, run the extracted model, print observables --- *)
let rec pos_of_int n = if n = 1 then XH else if n land 1 = 0 then XO (pos_of_int (n lsr 1)) else XI (pos_of_int (n lsr 1))
let z_of_int n = if n = 0 then Z0 else if n > 0 then Zpos (pos_of_int n) else Zneg (pos_of_int (-n))
let rec int_of_pos = function XH -> 1 | XO p -> 2 * int_of_pos p | XI p -> 2 * int_of_pos p + 1
let int_of_z = function Z0 -> 0 | Zpos p -> int_of_pos p | Zneg p -> - (int_of_pos p)
let zs l = List.map z_of_int l
let is_int s = s <> "" && (let c = s.[0] in (c >= '0' && c <= '9') || c = '-')
let rec take_ints toks = match toks with
  | t :: r when is_int t -> let (a, rest) = take_ints r in (int_of_string t :: a, rest)
  | _ -> ([], toks)
let marker m toks = match toks with t :: r when t = m -> r | _ -> failwith ("expected " ^ m)
let step_arg toks = match toks with
  | "N" :: r -> (None, r)
  | "S" :: r -> let (s, r) = take_ints r in (Some (zs s), r)
  | _ -> failwith "step"
let parse_op toks =
  let i = int_of_string in
  match toks with
  | "NEW" :: be :: r -> let (d, _) = take_ints r in ONew ((be = "c"), zs d)
  | "SLICE" :: id :: r ->
    let (l, r) = take_ints (marker "L" r) in let (d, r) = take_ints (marker "D" r) in
    let (s, _) = step_arg r in OSlice (z_of_int (i id), zs l, zs d, s)
  | "GET" :: id :: r -> let (l, _) = take_ints (marker "L" r) in OGet (z_of_int (i id), zs l)
  | "GETN" :: id :: r -> let (l, _) = take_ints (marker "L" r) in OGetN (z_of_int (i id), zs l)
  | "SET" :: id :: r -> let (l, r) = take_ints (marker "L" r) in
    (match marker "V" r with v :: _ -> OSet (z_of_int (i id), zs l, z_of_int (i v)) | _ -> failwith "set")
  | "SETN" :: id :: r -> let (l, r) = take_ints (marker "L" r) in
    (match marker "V" r with v :: _ -> OSetN (z_of_int (i id), zs l, z_of_int (i v)) | _ -> failwith "setn")
  | "APPLY" :: id :: r -> let (l, r) = take_ints (marker "L" r) in
    (match marker "X" r with
     | dim :: stp :: r -> let (v, _) = take_ints (marker "V" r) in
       OApply (z_of_int (i id), zs l, z_of_int (i dim), z_of_int (i stp), zs v)
     | _ -> failwith "apply")
  | "APPLYSLICE" :: id :: r -> let (l, r) = take_ints (marker "L" r) in
    let (s, r) = step_arg r in
    (match marker "SRC" r with src :: _ -> OApplySlice (z_of_int (i id), zs l, s, z_of_int (i src)) | _ -> failwith "as")
  | ["COPYFROM"; a; b] -> OCopyFrom (z_of_int (i a), z_of_int (i b))
  | ["ADDTO"; a; b] -> OAddTo (z_of_int (i a), z_of_int (i b))
  | ["APPLYFUNC"; a; b] -> OApplyFunc (z_of_int (i a), z_of_int (i b))
  | ["SCALE"; a; b; k] -> OScale (z_of_int (i a), z_of_int (i b), z_of_int (i k))
  | ["UNROLL"; a] -> OUnroll (z_of_int (i a))
  | ["CONTIG"; a] -> OContig (z_of_int (i a))
  | ["MAX"; a] -> OMax (z_of_int (i a))
  | ["MIN"; a] -> OMin (z_of_int (i a))
  | ["SHAPE"; a] -> OShape (z_of_int (i a))
  | ["UNROLLW"; a; k; v] -> OUnrollW (z_of_int (i a), z_of_int (i k), z_of_int (i v))
  | "RESHAPE" :: id :: r -> let (d, _) = take_ints (marker "D" r) in OReshape (z_of_int (i id), zs d)
  | "RESHAPEFAST" :: id :: r -> let (d, _) = take_ints (marker "D" r) in OReshapeFast (z_of_int (i id), zs d)
  | "MUSTRESHAPE" :: id :: r -> let (d, _) = take_ints (marker "D" r) in OMustReshape (z_of_int (i id), zs d)
  | ["GET1"; a; k] -> OGet1 (z_of_int (i a), z_of_int (i k))
  | ["SET1"; a; k; v] -> OSet1 (z_of_int (i a), z_of_int (i k), z_of_int (i v))
  | "APPLY1" :: a :: k :: stp :: r -> let (v, _) = take_ints (marker "V" r) in
    OApply1 (z_of_int (i a), z_of_int (i k), z_of_int (i stp), zs v)
  | ["LEN"; a; k] -> OLen (z_of_int (i a), z_of_int (i k))
  | t :: _ -> failwith ("unknown op " ^ t)
  | [] -> failwith "empty op"
let join_z l = String.concat "," (List.map (fun z -> string_of_int (int_of_z z)) l)
let show_res = function
  | ROk -> "ok" | RVal v -> "v:" ^ string_of_int (int_of_z v) | RVals l -> "vs:" ^ join_z l
  | RBool b -> if b then "b:1" else "b:0" | RError -> "err" | RNewArr id -> "new:" ^ string_of_int (int_of_z id)
let show_obs = function
  | None -> "PANIC"
  | Some o -> show_res o.o_res ^ "|" ^ String.concat "/" (List.map join_z o.o_roots) ^ "|"
              ^ String.concat "/" (List.map (function None -> "X" | Some l -> join_z l) o.o_arrs)
let rec split_ops toks cur acc = match toks with
  | [] -> List.rev (if cur = [] then acc else List.rev cur :: acc)
  | ";" :: r -> split_ops r [] (List.rev cur :: acc)
  | t :: r -> split_ops r (t :: cur) acc
let arrh _fa toks = match toks with
  | _types :: rest ->
    let ops = List.map parse_op (split_ops rest [] []) in
    String.concat " ; " (List.map show_obs (arr_run_history arr_init_state ops))
  | [] -> "ERROR"
let iop_cmd _fa toks =
  let two m1 m2 r = let (a, r) = take_ints (marker m1 r) in let (b, _) = take_ints (marker m2 r) in (zs a, zs b) in
  let o = match toks with
    | "OFFSETS" :: r -> IOffsets (zs (fst (take_ints r)))
    | "IDIVMOD" :: n :: r -> let (a, b) = two "A" "B" r in IIDivMod (z_of_int (int_of_string n), a, b)
    | "INCREMENT" :: r -> let (a, b) = two "A" "B" r in IIncrement (a, b)
    | "PRODUCT" :: r -> IProduct (zs (fst (take_ints r)))
    | "MULTIPLY" :: r -> let (a, b) = two "A" "B" r in IMultiply (a, b)
    | "ARGMAX" :: r -> IArgmax (zs (fst (take_ints r)))
    | "MAXIMUM" :: r -> IMaximum (zs (fst (take_ints r)))
    | _ -> failwith "iop" in
  match exec_iop o with None -> "PANIC" | Some l -> "vs:" ^ join_z l
