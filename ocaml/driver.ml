(* Driver for the extracted Coq model.  Reads cases from stdin (one per line),
   prints one result line per case.  Trusted to do only parsing/printing and to
   supply OCaml's libm as the LibM record. *)
open Model

(* Coq's kernel represents NaN by a signalling pattern; glibc's pow(sNaN, 0) is NaN whereas Go's
   math.Pow(NaN, 0) (and glibc's on a quiet NaN) is 1: quieten NaNs before calling libm *)
let quiet v = if v <> v then Int64.float_of_bits 0x7FF8000000000000L else v
let lift f x = Float64.of_float (f (quiet (Float64.to_float x)))
let libm : libM = {
  l_exp = lift Stdlib.exp; l_ln = lift Stdlib.log; l_log10 = lift Stdlib.log10;
  l_tanh = lift Stdlib.tanh; l_cos = lift Stdlib.cos;
  l_pow = (fun x y -> Float64.of_float (quiet (Float64.to_float x) ** quiet (Float64.to_float y)));
}
let fa = fArith libm

let hex f = Printf.sprintf "%016Lx" (Int64.bits_of_float (Float64.to_float f))
let unhex s = Float64.of_float (Int64.float_of_bits (Int64.of_string ("0x" ^ s)))

(* token stream helpers *)
let take_n n toks =
  let rec go n acc toks = if n = 0 then (List.rev acc, toks) else
    match toks with t :: r -> go (n-1) (t :: acc) r | [] -> failwith "short" in
  go n [] toks

let parse_kernel_case toks =
  (* P n v.. S n v.. I k len v.. *)
  match toks with
  | "P" :: n :: r ->
    let n = int_of_string n in
    let (ps, r) = take_n n r in
    (match r with
     | "S" :: n :: r ->
       let n = int_of_string n in
       let (ss, r) = take_n n r in
       (match r with
        | "I" :: k :: len :: r ->
          let k = int_of_string k and len = int_of_string len in
          let rec rows k r acc = if k = 0 then List.rev acc else
              let (row, r) = take_n len r in rows (k-1) r (List.map unhex row :: acc) in
          (List.map unhex ps, List.map unhex ss, rows k r [])
        | _ -> failwith "expected I")
     | _ -> failwith "expected S")
  | _ -> failwith "expected P"

let print_kernel_result res =
  match res with
  | None -> print_string "PANIC\n"
  | Some (outs, sts) ->
    let b = Buffer.create 1024 in
    Buffer.add_string b "OK O ";
    Buffer.add_string b (string_of_int (List.length outs));
    Buffer.add_char b ' ';
    Buffer.add_string b (string_of_int (match outs with [] -> 0 | o :: _ -> List.length o));
    List.iter (fun row -> List.iter (fun v -> Buffer.add_char b ' '; Buffer.add_string b (hex v)) row) outs;
    Buffer.add_string b " S ";
    Buffer.add_string b (string_of_int (List.length sts));
    List.iter (fun v -> Buffer.add_char b ' '; Buffer.add_string b (hex v)) sts;
    Buffer.add_char b '\n';
    print_string (Buffer.contents b)

let () =
  try
    while true do
      let line = input_line stdin in
      let toks = String.split_on_char ' ' (String.trim line) in
      let toks = List.filter (fun s -> s <> "") toks in
      match toks with
      | [] -> ()
      | "K" :: name :: rest ->
        (match List.assoc_opt name Registry.kernels with
         | None -> print_string "NOMODEL\n"
         | Some k ->
           let (ps, ss, ins) = parse_kernel_case rest in
           (try print_kernel_result (k fa ps ss ins)
            with Stack_overflow -> print_string "ERROR stack\n"))
      | cmd :: rest ->
        (match List.assoc_opt cmd Registry.commands with
         | Some f -> print_string (f fa rest); print_char '\n'
         | None -> print_string "NOCMD\n")
    done
  with End_of_file -> ()
