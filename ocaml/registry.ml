(* name -> extracted kernel.  Hand-maintained list; the kernels themselves are
   extracted from Coq (model.ml). *)
open Model
type kern = Float64.t arith -> Float64.t list -> Float64.t list -> Float64.t list list
  -> (Float64.t list list * Float64.t list) option
let kernels : (string * kern) list = [
  ("DateGenerator", date_generator_kernel);
]
let commands : (string * (Float64.t arith -> string list -> string)) list = []
