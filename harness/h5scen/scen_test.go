// Package h5scen replays the scenarios of /repo/io/hdf5_test.go (which cannot
// be run in place: libhdf5 is absent) against the fake HDF5 module, through
// the exported API of package io.  The input file that the original tests
// expect from a Python script is built here with the fake's own API.
package h5scen

import (
	"math"
	"os"
	"path/filepath"
	"testing"

	"github.com/flowmatters/openwater-core/data"
	owio "github.com/flowmatters/openwater-core/io"
	"gonum.org/v1/hdf5"
)

func must(t *testing.T, err error) {
	t.Helper()
	if err != nil {
		t.Fatal(err)
	}
}

func buildFixture(t *testing.T, fn string) {
	f, err := hdf5.CreateFile(fn, hdf5.F_ACC_TRUNC)
	must(t, err)
	g, err := f.CreateGroup("simple")
	must(t, err)
	sg, err := g.CreateGroup("sub_group")
	must(t, err)
	must(t, sg.Close())

	// fixed-length strings, 16 bytes each
	st, err := hdf5.T_C_S1.Copy()
	must(t, err)
	must(t, st.SetSize(16))
	strs := []string{"one string", "two strings", "three strings", "four"}
	raw := make([]byte, 16*len(strs))
	for i, s := range strs {
		copy(raw[i*16:], s)
	}
	sp, err := hdf5.CreateSimpleDataspace([]uint{4}, nil)
	must(t, err)
	ds, err := g.CreateDataset("strings", st, sp)
	must(t, err)
	must(t, ds.Write(&raw))
	must(t, ds.Close())

	dt, _ := hdf5.NewDatatypeFromValue(float64(0))
	sp8, _ := hdf5.CreateSimpleDataspace([]uint{8}, nil)
	ds, err = g.CreateDataset("doubles", dt, sp8)
	must(t, err)
	dbl := []float64{0, 1, 2, 3, 5, 8, 13, 21}
	must(t, ds.Write(&dbl))
	must(t, ds.Close())

	it, _ := hdf5.NewDatatypeFromValue(int32(0))
	ds, err = g.CreateDataset("ints", it, sp8)
	must(t, err)
	ints := []int32{0, 1, 2, 3, 4, 5, 6, 7}
	must(t, ds.Write(&ints))
	must(t, ds.Close())
	must(t, g.Close())

	sp3, _ := hdf5.CreateSimpleDataspace([]uint{5, 10, 4}, nil)
	ds, err = f.CreateDataset("ints3d", it, sp3)
	must(t, err)
	i3 := make([]int32, 200)
	for i := range i3 {
		i3[i] = int32(i)
	}
	must(t, ds.Write(&i3))
	must(t, ds.Close())
	must(t, f.Close())
}

func TestScenarios(t *testing.T) {
	dir, err := os.MkdirTemp("", "h5scen")
	must(t, err)
	defer os.RemoveAll(dir)
	fn := filepath.Join(dir, "test_hdf5.h5")
	buildFixture(t, fn)

	// TestReadStrings
	ref := owio.H5RefFloat64{Filename: fn, Dataset: "simple/strings"}
	strs, err := ref.LoadText()
	must(t, err)
	if len(strs) != 4 || strs[0] != "one string" || strs[2] != "three strings" {
		t.Fatalf("LoadText: %q", strs)
	}

	// TestGetDatasetNames / TestGetGroupNames
	ref = owio.H5RefFloat64{Filename: fn, Dataset: "simple"}
	names, err := ref.GetDatasets()
	must(t, err)
	if len(names) != 3 || names[0] != "doubles" || names[1] != "ints" || names[2] != "strings" {
		t.Fatalf("GetDatasets: %q", names)
	}
	groups, err := ref.GetGroups()
	must(t, err)
	if len(groups) != 1 || groups[0] != "sub_group" {
		t.Fatalf("GetGroups: %q", groups)
	}

	// TestExists
	for ds, want := range map[string]bool{"simple": true, "simple/strings": true, "simple/doubles": true,
		"simple/notpresent": false, "notpresent": false, "simple/sub_group": true, "ints3d": true} {
		if got := (owio.H5RefFloat64{Filename: fn, Dataset: ds}).Exists(); got != want {
			t.Errorf("Exists(%q) = %v, want %v", ds, got, want)
		}
	}

	// TestReadDouble
	all, err := owio.H5RefFloat64{Filename: fn, Dataset: "simple/doubles"}.Load()
	must(t, err)
	if len(all.Shape()) != 1 || all.Shape()[0] != 8 {
		t.Fatalf("shape %v", all.Shape())
	}
	all, err = owio.H5RefFloat64{Filename: fn, Dataset: "simple/doubles", Slice: [][]int{{2, 6, 1}}}.Load()
	must(t, err)
	a1 := all.(data.ND1Float64)
	if all.Shape()[0] != 4 || a1.Get1(0) != 2.0 || a1.Get1(3) != 8.0 {
		t.Fatalf("subset %v", all.Unroll())
	}

	// TestRead3DInts
	i3, err := owio.H5RefInt32{Filename: fn, Dataset: "ints3d"}.Load()
	must(t, err)
	a3 := i3.(data.ND3Int32)
	if !i3.Contiguous() || len(i3.Shape()) != 3 || a3.Get3(0, 4, 3) != 19 || a3.Get3(3, 8, 2) != 154 {
		t.Fatalf("ints3d")
	}
	i3, err = owio.H5RefInt32{Filename: fn, Dataset: "ints3d", Slice: [][]int{nil, {2, 6, 1}, {1, 3, 1}}}.Load()
	must(t, err)
	a3 = i3.(data.ND3Int32)
	shp := i3.Shape()
	if shp[0] != 5 || shp[1] != 4 || shp[2] != 2 || a3.Get3(1, 3, 0) != 61 || a3.Get3(3, 1, 1) != 134 {
		t.Fatalf("ints3d subset shape %v", shp)
	}

	// TestWrite3DFloat64Whole + TestWrite3DInt32Whole (same file, nested dataset)
	wfn := filepath.Join(dir, "_test_write_whole.h5")
	theData, err := data.ARangeFloat64(1000).Reshape([]int{10, 20, 5})
	must(t, err)
	must(t, owio.H5RefFloat64{Filename: wfn, Dataset: "float64_3d"}.Write(theData))
	rd, err := owio.H5RefFloat64{Filename: wfn, Dataset: "float64_3d"}.Load()
	must(t, err)
	if s := rd.Shape(); len(s) != 3 || s[0] != 10 || s[1] != 20 || s[2] != 5 {
		t.Fatalf("shape %v", s)
	}
	for _, idx := range [][]int{{0, 0, 0}, {5, 14, 2}, {7, 3, 4}, {9, 19, 4}} {
		if rd.Get(idx) != theData.Get(idx) {
			t.Fatalf("value at %v", idx)
		}
	}
	intData, err := data.ARangeInt32(1000).Reshape([]int{10, 20, 5})
	must(t, err)
	must(t, owio.H5RefInt32{Filename: wfn, Dataset: "NESTED/int32_3d"}.Write(intData))
	ri, err := owio.H5RefInt32{Filename: wfn, Dataset: "NESTED/int32_3d"}.Load()
	must(t, err)
	for _, idx := range [][]int{{0, 0, 0}, {5, 14, 2}, {7, 3, 4}, {9, 19, 4}} {
		if ri.Get(idx) != intData.Get(idx) {
			t.Fatalf("int value at %v", idx)
		}
	}
	if !(owio.H5RefInt32{Filename: wfn, Dataset: "NESTED/int32_3d"}).Exists() || !(owio.H5RefInt32{Filename: wfn, Dataset: "float64_3d"}).Exists() {
		t.Fatalf("Exists after write")
	}

	// TestWriteTwice
	tfn := filepath.Join(dir, "_test_write_twice.h5")
	r2 := owio.H5RefFloat64{Filename: tfn, Dataset: "float64_1d"}
	d10 := data.ARangeFloat64(10)
	must(t, r2.Write(d10))
	got, err := r2.Load()
	must(t, err)
	if got.Get([]int{4}) != 4.0 {
		t.Fatalf("first write")
	}
	nd := data.NewArray1DFloat64(10)
	data.ScaleFloat64Array(nd, d10, 2)
	must(t, r2.Write(nd))
	got, err = r2.Load()
	must(t, err)
	if got.Shape()[0] != 10 || got.Get([]int{4}) != 8.0 {
		t.Fatalf("second write")
	}
	// a different shape is refused
	if err := r2.Write(data.ARangeFloat64(5)); err == nil {
		t.Fatalf("resize accepted")
	}

	// TestWrite3DFloat64Partial
	pfn := filepath.Join(dir, "_test_write_partial.h5")
	rp := owio.H5RefFloat64{Filename: pfn, Dataset: "float64_3d"}
	sl := theData.Slice([]int{0, 0, 0}, []int{10, 1, 1}, []int{1, 1, 1})
	must(t, rp.Create(theData.Shape(), math.NaN(), false))
	for d2 := 0; d2 < 20; d2++ {
		for d3 := 0; d3 < 5; d3++ {
			must(t, rp.WriteSlice(sl, []int{0, d2, d3}))
		}
	}
	rd, err = rp.Load()
	must(t, err)
	for d2 := 0; d2 < 20; d2++ {
		for d3 := 0; d3 < 5; d3++ {
			for _, i := range []int{0, 5, 7, 9} {
				if rd.Get([]int{i, d2, d3}) != theData.Get([]int{i, 0, 0}) {
					t.Fatalf("partial at %d,%d,%d", i, d2, d3)
				}
			}
		}
	}
	st := hdf5.VerifCalls()
	t.Logf("fake library calls: %+v", st)
	if st.Overlaps != 0 {
		t.Errorf("overlapping library calls in a sequential test: %+v", st)
	}
}
