package hdf5

import (
	"compress/zlib"
	"errors"
	"fmt"
	"os"
	"reflect"
	"sync/atomic"
)

// ---------------------------------------------------------------------------
// identifiers
// ---------------------------------------------------------------------------

var nextID int64 = 0x0100000000000000

func newID() int64 { return atomic.AddInt64(&nextID, 1) }

// Identifier mirrors the hid_t wrapper of the real binding.
type Identifier struct {
	id   int64
	name string
}

// ID returns the integer value of an identifier (0 once closed).
func (i Identifier) ID() int64 { return i.id }

// Name returns the full name of the object inside its file ("" for objects
// that are not in a file).
func (i Identifier) Name() string { return i.name }

// Object is the interface of the real binding.
type Object interface {
	Name() string
	ID() int64
}

// ---------------------------------------------------------------------------
// library level
// ---------------------------------------------------------------------------

// DisplayErrors enables/disables libhdf5's automatic error printing (no-op).
func DisplayErrors(on bool) error {
	defer enter(false)()
	return nil
}

// Close flushes all data and closes the library (no-op).
func Close() error { return nil }

// Version of the library that is emulated.
type Version struct {
	Major   uint
	Minor   uint
	Release uint
}

func (v Version) String() string { return fmt.Sprintf("%d.%d.%d", v.Major, v.Minor, v.Release) }

// LibVersion reports the libhdf5 release whose documented behaviour is emulated.
func LibVersion() (Version, error) { return Version{1, 10, 4}, nil }

// ---------------------------------------------------------------------------
// files
// ---------------------------------------------------------------------------

const (
	F_ACC_RDONLY  int = 0x0000 // absence of rdwr => rd-only
	F_ACC_RDWR    int = 0x0001 // open for read and write
	F_ACC_TRUNC   int = 0x0002 // Truncate file, if it already exists, erasing all data previously stored in the file.
	F_ACC_EXCL    int = 0x0004 // Fail if file already exists.
	F_ACC_DEBUG   int = 0x0008 // print debug info
	F_ACC_CREAT   int = 0x0010 // create non-existing files
	F_ACC_DEFAULT int = 0xffff // value passed to set_elink_acc_flags to cause flags to be taken from the parent file
)

// Scope as in the real binding.
type Scope int

const (
	F_SCOPE_LOCAL  Scope = 0
	F_SCOPE_GLOBAL Scope = 1
)

// CommonFG is for methods common to both File and Group.
type CommonFG struct {
	Identifier
	fs       *fileState
	node     *pnode
	writable bool
	isFile   bool
}

// File is an open (fake) HDF5 file.
type File struct {
	CommonFG
}

// Group is an HDF5 container object.
type Group struct {
	CommonFG
}

// CreateFile creates a file; flags must be F_ACC_TRUNC or F_ACC_EXCL.
func CreateFile(name string, flags int) (*File, error) {
	defer enter(true)()
	big.Lock()
	defer big.Unlock()
	f, err := createFile(name, flags)
	if err != nil {
		return nil, fmt.Errorf("error creating hdf5 file: %s", err)
	}
	return f, nil
}

func createFile(name string, flags int) (*File, error) {
	flags &^= F_ACC_DEBUG
	if flags != F_ACC_TRUNC && flags != F_ACC_EXCL {
		return nil, errors.New("invalid flags (want F_ACC_TRUNC or F_ACC_EXCL)")
	}
	p := absPath(name)
	if _, open := registry[p]; open {
		return nil, errors.New("unable to truncate a file which is already open")
	}
	if flags == F_ACC_EXCL {
		if _, err := os.Stat(p); err == nil {
			return nil, errors.New("file exists")
		}
	}
	fs := &fileState{path: p, name: name, root: &pnode{Group: true, Children: map[string]*pnode{}}, writable: true}
	if err := persist(fs); err != nil { // libhdf5 creates the file at once
		return nil, err
	}
	fs.refs = 1
	registry[p] = fs
	return &File{CommonFG{Identifier{newID(), "/"}, fs, fs.root, true, true}}, nil
}

// OpenFile opens an existing file; flags must be F_ACC_RDONLY or F_ACC_RDWR.
func OpenFile(name string, flags int) (*File, error) {
	defer enter(flags&F_ACC_RDWR != 0)()
	big.Lock()
	defer big.Unlock()
	f, err := openFile(name, flags)
	if err != nil {
		return nil, fmt.Errorf("error opening hdf5 file: %s", err)
	}
	return f, nil
}

func openFile(name string, flags int) (*File, error) {
	flags &^= F_ACC_DEBUG
	if flags != F_ACC_RDONLY && flags != F_ACC_RDWR {
		return nil, errors.New("invalid file open flags")
	}
	wr := flags == F_ACC_RDWR
	p := absPath(name)
	fs, open := registry[p]
	if open {
		if wr && !fs.writable {
			return nil, errors.New("file is already open for read-only")
		}
	} else {
		root, err := loadTree(p)
		if err != nil {
			return nil, fmt.Errorf("unable to open file %q: %s", name, err)
		}
		if wr {
			// the real library opens the file O_RDWR
			fh, err := os.OpenFile(p, os.O_RDWR, 0)
			if err != nil {
				return nil, fmt.Errorf("unable to open file %q for writing: %s", name, err)
			}
			fh.Close()
		}
		fs = &fileState{path: p, name: name, root: root, writable: wr}
		registry[p] = fs
	}
	fs.refs++
	return &File{CommonFG{Identifier{newID(), "/"}, fs, fs.root, wr, true}}, nil
}

// IsHDF5 reports whether name is a file this package can open.
func IsHDF5(name string) bool {
	defer enter(false)()
	big.Lock()
	defer big.Unlock()
	_, err := loadTree(absPath(name))
	return err == nil
}

// Close closes the file handle.  As with libhdf5's default (weak) close
// degree the file stays open until the objects opened through it are closed.
func (f *File) Close() error {
	defer enter(f.writable)()
	big.Lock()
	defer big.Unlock()
	return f.CommonFG.close()
}

func (g *CommonFG) close() error {
	if g.id == 0 {
		return nil
	}
	g.id = 0
	return release(g.fs, g.isFile)
}

// Flush writes the tree back to disk.
func (f *File) Flush(scope Scope) error {
	defer enter(f.writable)()
	big.Lock()
	defer big.Unlock()
	if f.id == 0 {
		return errors.New("invalid file identifier")
	}
	if f.fs.dirty {
		return persist(f.fs)
	}
	return nil
}

// FileName returns the name the file was opened with.
func (f *File) FileName() string {
	defer enter(f.writable)()
	big.Lock()
	defer big.Unlock()
	if f.id == 0 {
		return ""
	}
	return f.fs.name
}

// ---------------------------------------------------------------------------
// groups
// ---------------------------------------------------------------------------

// GType describes the type of an object inside a Group or File.
type GType int

const (
	H5G_UNKNOWN GType = -1 // Unknown object type
	H5G_GROUP   GType = 0  // Object is a group
	H5G_DATASET GType = 1  // Object is a dataset
	H5G_TYPE    GType = 2  // Object is a named data type
	H5G_LINK    GType = 3  // Object is a symbolic link
	H5G_UDLINK  GType = 4  // Object is a user-defined link
)

func (typ GType) String() string {
	switch typ {
	case H5G_UNKNOWN:
		return "unknown"
	case H5G_GROUP:
		return "group"
	case H5G_DATASET:
		return "dataset"
	case H5G_TYPE:
		return "type"
	case H5G_LINK:
		return "link"
	case H5G_UDLINK:
		return "udlink"
	default:
		return fmt.Sprintf("GType(%d)", int(typ))
	}
}

func (g *CommonFG) check() error {
	if g == nil || g.id == 0 || g.fs == nil {
		return errors.New("invalid (closed) location identifier")
	}
	return nil
}

// CreateGroup creates a new empty group and links it into the file.  All but
// the last component of name must already exist (no intermediate creation).
func (g *CommonFG) CreateGroup(name string) (*Group, error) {
	defer enter(true)()
	big.Lock()
	defer big.Unlock()
	if err := g.check(); err != nil {
		return nil, err
	}
	if !g.writable {
		return nil, errors.New("unable to create group: no write intent on file")
	}
	parent, last, err := resolveParent(g.fs, g.node, name)
	if err != nil {
		return nil, fmt.Errorf("unable to create group: %s", err)
	}
	if _, exists := parent.Children[last]; exists {
		return nil, errors.New("unable to create group: name already exists")
	}
	n := &pnode{Group: true, Children: map[string]*pnode{}}
	parent.Children[last] = n
	g.fs.dirty = true
	g.fs.refs++
	return &Group{CommonFG{Identifier{newID(), joinName(g.name, name)}, g.fs, n, g.writable, false}}, nil
}

// OpenGroup opens an existing group ("/" is the root group, names may be paths).
func (g *CommonFG) OpenGroup(name string) (*Group, error) {
	defer enter(g != nil && g.writable)()
	big.Lock()
	defer big.Unlock()
	if err := g.check(); err != nil {
		return nil, err
	}
	n, err := resolve(g.fs, g.node, name)
	if err != nil {
		return nil, fmt.Errorf("unable to open group: %s", err)
	}
	if !n.Group {
		return nil, errors.New("unable to open group: not a group")
	}
	g.fs.refs++
	return &Group{CommonFG{Identifier{newID(), joinName(g.name, name)}, g.fs, n, g.writable, false}}, nil
}

// Close closes the Group.
func (g *Group) Close() error {
	defer enter(g.writable)()
	big.Lock()
	defer big.Unlock()
	return g.CommonFG.close()
}

// NumObjects returns the number of objects (links) in the group.
func (g *CommonFG) NumObjects() (uint, error) {
	defer enter(g != nil && g.writable)()
	big.Lock()
	defer big.Unlock()
	if err := g.check(); err != nil {
		return 0, err
	}
	return uint(len(g.node.Children)), nil
}

// ObjectNameByIndex returns the name of the idx-th object in increasing name
// order (H5_INDEX_NAME, H5_ITER_INC).
func (g *CommonFG) ObjectNameByIndex(idx uint) (string, error) {
	defer enter(g != nil && g.writable)()
	big.Lock()
	defer big.Unlock()
	if err := g.check(); err != nil {
		return "", err
	}
	names := sortedNames(g.node)
	if idx >= uint(len(names)) {
		return "", fmt.Errorf("could not get name")
	}
	return names[idx], nil
}

// ObjectTypeByIndex returns the type of the idx-th object (same order).
func (g *CommonFG) ObjectTypeByIndex(idx uint) (GType, error) {
	defer enter(g != nil && g.writable)()
	big.Lock()
	defer big.Unlock()
	if err := g.check(); err != nil {
		return H5G_UNKNOWN, err
	}
	names := sortedNames(g.node)
	if idx >= uint(len(names)) {
		return H5G_UNKNOWN, fmt.Errorf("could not get object type")
	}
	if g.node.Children[names[idx]].Group {
		return H5G_GROUP, nil
	}
	return H5G_DATASET, nil
}

// LinkExists returns whether a link with the specified name exists in the group.
func (g *CommonFG) LinkExists(name string) bool {
	defer enter(g != nil && g.writable)()
	big.Lock()
	defer big.Unlock()
	if err := g.check(); err != nil {
		return false
	}
	_, err := resolve(g.fs, g.node, name)
	return err == nil
}

// ---------------------------------------------------------------------------
// property lists
// ---------------------------------------------------------------------------

const (
	NoCompression      = zlib.NoCompression
	BestSpeed          = zlib.BestSpeed
	BestCompression    = zlib.BestCompression
	DefaultCompression = zlib.DefaultCompression
)

// PropType is a property list class.
type PropType int64

// PropList is a property list.
type PropList struct {
	Identifier
	class   PropType
	deflate int // 0 = no filter, else level
	chunk   []uint
}

var (
	P_DEFAULT        *PropList = &PropList{Identifier: Identifier{id: -1}}
	P_DATASET_CREATE PropType  = 1
	P_DATASET_ACCESS PropType  = 2
)

// NewPropList creates a new PropList as an instance of a property list class.
func NewPropList(cls_id PropType) (*PropList, error) {
	defer enter(false)()
	if cls_id != P_DATASET_CREATE && cls_id != P_DATASET_ACCESS {
		return nil, errors.New("not a property list class")
	}
	return &PropList{Identifier: Identifier{id: newID()}, class: cls_id}, nil
}

// Close terminates access to a PropList.
func (p *PropList) Close() error {
	defer enter(false)()
	p.id = 0
	return nil
}

// SetChunk sets the size of the chunks used to store a chunked layout dataset.
func (p *PropList) SetChunk(dims []uint) error {
	defer enter(false)()
	if p.class != P_DATASET_CREATE {
		return errors.New("not a dataset creation property list")
	}
	for _, d := range dims {
		if d == 0 {
			return errors.New("all chunk dimensions must be positive")
		}
	}
	p.chunk = append([]uint{}, dims...)
	return nil
}

// SetDeflate sets deflate (gzip) compression; DefaultCompression means 6.
func (p *PropList) SetDeflate(level int) error {
	defer enter(false)()
	if level == DefaultCompression {
		level = 6
	}
	if p.class != P_DATASET_CREATE {
		return errors.New("not a dataset creation property list")
	}
	if level < 0 || level > 9 {
		return errors.New("invalid deflate level")
	}
	p.deflate = level
	if level == 0 {
		p.deflate = -1 // filter present, level 0
	}
	return nil
}

// ---------------------------------------------------------------------------
// datatypes
// ---------------------------------------------------------------------------

// TypeClass as in the real binding.
type TypeClass int

const (
	T_NO_CLASS  TypeClass = -1 // Error
	T_INTEGER   TypeClass = 0  // integer types
	T_FLOAT     TypeClass = 1  // floating-point types
	T_TIME      TypeClass = 2  // date and time types
	T_STRING    TypeClass = 3  // character string types
	T_BITFIELD  TypeClass = 4  // bit field types
	T_OPAQUE    TypeClass = 5  // opaque types
	T_COMPOUND  TypeClass = 6  // compound types
	T_REFERENCE TypeClass = 7  // reference types
	T_ENUM      TypeClass = 8  // enumeration types
	T_VLEN      TypeClass = 9  // variable-length types
	T_ARRAY     TypeClass = 10 // array types
	T_NCLASSES  TypeClass = 11 // nbr of classes -- MUST BE LAST
)

// Datatype is an atomic fixed-size datatype: class, size in bytes, signedness.
type Datatype struct {
	Identifier
	class    TypeClass
	size     uint
	signed   bool
	variable bool // variable-length string (T_GO_STRING); no I/O support in the fake
}

func newType(class TypeClass, size uint, signed bool) *Datatype {
	return &Datatype{Identifier: Identifier{id: newID()}, class: class, size: size, signed: signed}
}

// VerifNativeIntBytes is sizeof(int) of the C ABI libhdf5 was built for: 4 on
// every LP64 / LLP64 platform (linux/amd64 in particular).  H5T_NATIVE_INT and
// H5T_NATIVE_UINT -- which is what the binding maps Go's int and uint to --
// have this size.  Set the environment variable FAKEHDF5_CINT_BYTES=8 to see
// what an ILP64 ABI would do.
var VerifNativeIntBytes uint = func() uint {
	if os.Getenv("FAKEHDF5_CINT_BYTES") == "8" {
		return 8
	}
	return 4
}()

var (
	T_NATIVE_CHAR   = newType(T_INTEGER, 1, true)
	T_NATIVE_SCHAR  = newType(T_INTEGER, 1, true)
	T_NATIVE_UCHAR  = newType(T_INTEGER, 1, false)
	T_NATIVE_SHORT  = newType(T_INTEGER, 2, true)
	T_NATIVE_USHORT = newType(T_INTEGER, 2, false)
	T_NATIVE_INT    = newType(T_INTEGER, VerifNativeIntBytes, true)
	T_NATIVE_UINT   = newType(T_INTEGER, VerifNativeIntBytes, false)
	T_NATIVE_LONG   = newType(T_INTEGER, 8, true)
	T_NATIVE_ULONG  = newType(T_INTEGER, 8, false)
	T_NATIVE_LLONG  = newType(T_INTEGER, 8, true)
	T_NATIVE_ULLONG = newType(T_INTEGER, 8, false)
	T_NATIVE_FLOAT  = newType(T_FLOAT, 4, true)
	T_NATIVE_DOUBLE = newType(T_FLOAT, 8, true)
	T_NATIVE_HBOOL  = newType(T_INTEGER, 1, false)

	T_NATIVE_INT8   = newType(T_INTEGER, 1, true)
	T_NATIVE_UINT8  = newType(T_INTEGER, 1, false)
	T_NATIVE_INT16  = newType(T_INTEGER, 2, true)
	T_NATIVE_UINT16 = newType(T_INTEGER, 2, false)
	T_NATIVE_INT32  = newType(T_INTEGER, 4, true)
	T_NATIVE_UINT32 = newType(T_INTEGER, 4, false)
	T_NATIVE_INT64  = newType(T_INTEGER, 8, true)
	T_NATIVE_UINT64 = newType(T_INTEGER, 8, false)

	// T_C_S1 is the one-byte C string type; Copy it and SetSize(n) to get a
	// fixed-length string type of n bytes.
	T_C_S1 = newType(T_STRING, 1, false)
	// T_GO_STRING is a variable-length C string.  The fake can name the type
	// but cannot store data of it.
	T_GO_STRING = &Datatype{Identifier: Identifier{id: newID()}, class: T_STRING, size: 8, variable: true}
)

var typeClassToGoType = map[TypeClass]reflect.Type{
	T_NO_CLASS:  nil,
	T_INTEGER:   reflect.TypeOf(int(0)),
	T_FLOAT:     reflect.TypeOf(float32(0)),
	T_TIME:      nil,
	T_STRING:    reflect.TypeOf(string("")),
	T_BITFIELD:  nil,
	T_OPAQUE:    nil,
	T_COMPOUND:  reflect.TypeOf(struct{}{}),
	T_REFERENCE: reflect.PtrTo(reflect.TypeOf(int(0))),
	T_ENUM:      reflect.TypeOf(int(0)),
	T_VLEN:      reflect.TypeOf([]int{0}),
	T_ARRAY:     reflect.TypeOf([1]int{0}),
}

// GoType returns the reflect.Type associated with the Datatype's TypeClass
// (as in the real binding: every integer type maps to int, every float type
// to float32, every string type to string).
func (t *Datatype) GoType() reflect.Type {
	defer enter(false)()
	return typeClassToGoType[t.class]
}

// Class returns the TypeClass of the DataType.
func (t *Datatype) Class() TypeClass {
	defer enter(false)()
	return t.class
}

// Size returns the size of the Datatype in bytes.
func (t *Datatype) Size() uint {
	defer enter(false)()
	return t.size
}

// SetSize sets the total size of a (string) Datatype.
func (t *Datatype) SetSize(sz int) error {
	defer enter(false)()
	if t.class != T_STRING || sz <= 0 {
		return errors.New("fakehdf5: SetSize is supported on string types with a positive size only")
	}
	t.size = uint(sz)
	t.variable = false
	return nil
}

// Copy copies an existing datatype.
func (t *Datatype) Copy() (*Datatype, error) {
	defer enter(false)()
	c := *t
	c.id = newID()
	return &c, nil
}

// Equal determines whether two datatypes are the same.
func (t *Datatype) Equal(o *Datatype) bool {
	defer enter(false)()
	return t.class == o.class && t.size == o.size && t.signed == o.signed && t.variable == o.variable
}

// Close releases a datatype.
func (t *Datatype) Close() error {
	defer enter(false)()
	// The io package writes `dt, err := ds.Datatype(); defer dt.Close()`.
	// With the real binding dt is never nil there; keep a nil receiver a
	// crash, as it would be.
	t.id = 0
	return nil
}

// NewDatatypeFromValue creates a datatype from a value in an interface.
func NewDatatypeFromValue(v interface{}) (*Datatype, error) {
	return NewDataTypeFromType(reflect.TypeOf(v))
}

// NewDataTypeFromType creates a new Datatype from a reflect.Type, with the
// mapping of the real binding: Go int -> H5T_NATIVE_INT (C int!), uint ->
// H5T_NATIVE_UINT, intN/uintN -> H5T_NATIVE_(U)INTN, float32 -> FLOAT,
// float64 -> DOUBLE, bool -> HBOOL, string -> variable-length C string.
// Composite kinds (array, slice, struct, pointer) are not supported.
func NewDataTypeFromType(t reflect.Type) (*Datatype, error) {
	defer enter(false)()
	var proto *Datatype
	switch t.Kind() {
	case reflect.Int:
		proto = T_NATIVE_INT
	case reflect.Int8:
		proto = T_NATIVE_INT8
	case reflect.Int16:
		proto = T_NATIVE_INT16
	case reflect.Int32:
		proto = T_NATIVE_INT32
	case reflect.Int64:
		proto = T_NATIVE_INT64
	case reflect.Uint:
		proto = T_NATIVE_UINT
	case reflect.Uint8:
		proto = T_NATIVE_UINT8
	case reflect.Uint16:
		proto = T_NATIVE_UINT16
	case reflect.Uint32:
		proto = T_NATIVE_UINT32
	case reflect.Uint64:
		proto = T_NATIVE_UINT64
	case reflect.Float32:
		proto = T_NATIVE_FLOAT
	case reflect.Float64:
		proto = T_NATIVE_DOUBLE
	case reflect.String:
		proto = T_GO_STRING
	case reflect.Bool:
		proto = T_NATIVE_HBOOL
	default:
		return nil, fmt.Errorf("fakehdf5: datatype for kind %v is not supported", t.Kind())
	}
	c := *proto
	c.id = newID()
	return &c, nil
}
