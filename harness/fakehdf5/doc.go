// Package hdf5 is a pure-Go stand-in for gonum.org/v1/hdf5 (libhdf5 is not
// installed in the verification sandbox).  See DESIGN.md section 5.
package hdf5
