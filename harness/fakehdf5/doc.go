// Package hdf5 is a pure-Go stand-in for gonum.org/v1/hdf5 (libhdf5 is not
// installed in the verification sandbox).  See README.md in this directory for
// the semantics that are modelled, and /verif/DESIGN.md section 5.
//
// The package implements the identifiers of gonum.org/v1/hdf5 that
// github.com/flowmatters/openwater-core uses, with the signatures of the real
// binding (version v0.0.0-20210714002203-8c5d23bc6946), plus a few Verif*
// entry points that exist only in the fake (call/overlap counters, helpers to
// build files that the repository itself cannot create).
package hdf5
