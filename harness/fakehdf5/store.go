package hdf5

import (
	"bytes"
	"encoding/gob"
	"errors"
	"fmt"
	"io/ioutil"
	"os"
	"path/filepath"
	"sort"
	"strings"
	"sync"
)

// big serialises the bodies of all entry points, so that the fake itself stays
// memory-safe even when its caller violates the locking discipline that the
// real library requires.  The overlap detector (verif.go) brackets OUTSIDE this
// mutex, so overlapping callers are still seen as overlapping.
var big sync.Mutex

const magic = "FAKEHDF5 v1\n"

// pnode is the persisted form of one object of a file: a group (with named
// children) or a dataset (datatype, extent, raw little-endian element bytes).
type pnode struct {
	Group    bool
	Children map[string]*pnode

	Class   int  // TypeClass of the dataset's datatype
	Size    uint // bytes per element
	Signed  bool
	Dims    []uint
	MaxDims []uint
	Data    []byte // len = Size * prod(Dims), row-major
	Deflate int    // 0 = none (informational)
	Chunk   []uint
}

type fileState struct {
	path     string // absolute, cleaned
	name     string // as given to OpenFile/CreateFile
	root     *pnode
	refs     int // open handles (files, groups, datasets) on this file
	writable bool
	dirty    bool
}

var registry = map[string]*fileState{}

func absPath(name string) string {
	a, err := filepath.Abs(name)
	if err != nil {
		return filepath.Clean(name)
	}
	return a
}

func loadTree(path string) (*pnode, error) {
	raw, err := ioutil.ReadFile(path)
	if err != nil {
		return nil, err
	}
	if len(raw) < len(magic) || string(raw[:len(magic)]) != magic {
		return nil, errors.New("not a (fake) HDF5 file")
	}
	var root pnode
	if err := gob.NewDecoder(bytes.NewReader(raw[len(magic):])).Decode(&root); err != nil {
		return nil, err
	}
	fixup(&root)
	return &root, nil
}

// gob drops empty maps and empty slices; restore the invariants.
func fixup(n *pnode) {
	if n.Group {
		if n.Children == nil {
			n.Children = map[string]*pnode{}
		}
		for _, c := range n.Children {
			fixup(c)
		}
		return
	}
	if n.Dims == nil {
		n.Dims = []uint{}
	}
	if n.MaxDims == nil {
		n.MaxDims = append([]uint{}, n.Dims...)
	}
	if n.Data == nil {
		n.Data = []byte{}
	}
}

func persist(fs *fileState) error {
	var buf bytes.Buffer
	buf.WriteString(magic)
	if err := gob.NewEncoder(&buf).Encode(fs.root); err != nil {
		return err
	}
	dir := filepath.Dir(fs.path)
	tmp, err := ioutil.TempFile(dir, ".fakehdf5-*")
	if err != nil {
		return err
	}
	tmpName := tmp.Name()
	if _, err := tmp.Write(buf.Bytes()); err != nil {
		tmp.Close()
		os.Remove(tmpName)
		return err
	}
	if err := tmp.Close(); err != nil {
		os.Remove(tmpName)
		return err
	}
	os.Chmod(tmpName, 0644)
	if err := os.Rename(tmpName, fs.path); err != nil {
		os.Remove(tmpName)
		return err
	}
	fs.dirty = false
	return nil
}

// release drops one handle reference; the tree is written back when a File
// handle closes with unsaved changes or when the last handle goes away.
func release(fs *fileState, isFile bool) error {
	var err error
	fs.refs--
	if fs.dirty && (isFile || fs.refs <= 0) {
		err = persist(fs)
	}
	if fs.refs <= 0 {
		delete(registry, fs.path)
	}
	return err
}

func splitPath(name string) (absolute bool, comps []string) {
	absolute = strings.HasPrefix(name, "/")
	for _, c := range strings.Split(name, "/") {
		if c == "" || c == "." {
			continue
		}
		comps = append(comps, c)
	}
	return
}

// resolve walks from start (or from the file root for an absolute name).
func resolve(fs *fileState, start *pnode, name string) (*pnode, error) {
	if name == "" {
		return nil, errors.New("no name")
	}
	abs, comps := splitPath(name)
	cur := start
	if abs {
		cur = fs.root
	}
	for _, c := range comps {
		if !cur.Group {
			return nil, fmt.Errorf("component %q: parent is not a group", c)
		}
		nxt, ok := cur.Children[c]
		if !ok {
			return nil, fmt.Errorf("object %q doesn't exist", c)
		}
		cur = nxt
	}
	return cur, nil
}

// resolveParent returns the group that will contain the last component of
// name, and that component.
func resolveParent(fs *fileState, start *pnode, name string) (*pnode, string, error) {
	abs, comps := splitPath(name)
	if len(comps) == 0 {
		return nil, "", errors.New("no name given")
	}
	cur := start
	if abs {
		cur = fs.root
	}
	for _, c := range comps[:len(comps)-1] {
		if !cur.Group {
			return nil, "", fmt.Errorf("component %q: parent is not a group", c)
		}
		nxt, ok := cur.Children[c]
		if !ok {
			return nil, "", fmt.Errorf("component %q not found", c)
		}
		cur = nxt
	}
	if !cur.Group {
		return nil, "", errors.New("parent is not a group")
	}
	return cur, comps[len(comps)-1], nil
}

func sortedNames(n *pnode) []string {
	names := make([]string, 0, len(n.Children))
	for k := range n.Children {
		names = append(names, k)
	}
	sort.Strings(names) // H5_INDEX_NAME, H5_ITER_INC: increasing byte order
	return names
}

func joinName(parent, child string) string {
	_, comps := splitPath(parent + "/" + child)
	return "/" + strings.Join(comps, "/")
}
