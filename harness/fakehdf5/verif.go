package hdf5

import (
	"sync"
	"time"
)

// ---------------------------------------------------------------------------
// Call accounting (exists only in the fake).
//
// Every exported entry point of the fake library brackets its body with
// enter/leave.  libhdf5 (non thread-safe build) must never be entered by two
// threads at once; the openwater-core io package promises less: every call is
// made under its package RWMutex, writers exclusively.  So the detector keeps
// two numbers apart:
//   Overlaps          a call was entered while another call was running
//                     (concurrent readers under RLock do this legitimately
//                     as far as the lock discipline of package io goes);
//   MutatingOverlaps  a call was entered while another call was running and at
//                     least one of the two belongs to a file handle opened for
//                     writing (F_ACC_RDWR, CreateFile) -- this can only happen
//                     when the write lock is not held exclusively.
// ---------------------------------------------------------------------------

// VerifCallStats is the snapshot returned by VerifCalls.
type VerifCallStats struct {
	Calls            int64 // entry points entered
	MutatingCalls    int64 // ... of which on behalf of a writable file handle
	Overlaps         int64 // entered while another call was active
	MutatingOverlaps int64 // entered while another call was active, one of them mutating
	MaxConcurrent    int64 // maximum number of simultaneously active calls
}

var (
	statMu    sync.Mutex
	stats     VerifCallStats
	active    int64
	activeMut int64
	callDelay time.Duration
)

// VerifCalls returns the counters accumulated since the last VerifResetCalls.
func VerifCalls() VerifCallStats {
	statMu.Lock()
	defer statMu.Unlock()
	return stats
}

// VerifResetCalls zeroes the counters.
func VerifResetCalls() {
	statMu.Lock()
	defer statMu.Unlock()
	stats = VerifCallStats{}
}

// VerifSetCallDelay makes every library call last at least d (sleeping inside
// the bracketed region, before the work is done), which widens the window in
// which an overlap is observable.  d = 0 (default) disables it.
func VerifSetCallDelay(d time.Duration) {
	statMu.Lock()
	defer statMu.Unlock()
	callDelay = d
}

func enter(mutating bool) func() {
	statMu.Lock()
	stats.Calls++
	active++
	if mutating {
		stats.MutatingCalls++
		activeMut++
	}
	if active > 1 {
		stats.Overlaps++
		if activeMut > 0 {
			stats.MutatingOverlaps++
		}
	}
	if active > stats.MaxConcurrent {
		stats.MaxConcurrent = active
	}
	d := callDelay
	statMu.Unlock()
	if d > 0 {
		time.Sleep(d)
	}
	return func() {
		statMu.Lock()
		active--
		if mutating {
			activeMut--
		}
		statMu.Unlock()
	}
}
