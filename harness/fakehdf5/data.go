package hdf5

import (
	"errors"
	"fmt"
	"math/bits"
	"reflect"
	"unsafe"
)

// ---------------------------------------------------------------------------
// dataspaces
// ---------------------------------------------------------------------------

type selKind int

const (
	selAll selKind = iota
	selNone
	selHyper
)

// Dataspace is a simple dataspace: an extent plus a selection (all, none or
// one regular hyperslab).
type Dataspace struct {
	Identifier
	dims    []uint
	maxdims []uint
	kind    selKind
	offset  []uint
	stride  []uint
	count   []uint
	block   []uint
}

// SpaceClass as in the real binding.
type SpaceClass int

const (
	S_NO_CLASS SpaceClass = -1
	S_SCALAR   SpaceClass = 0
	S_SIMPLE   SpaceClass = 1
	S_NULL     SpaceClass = 2
)

// maxElements bounds the size of a dataset the fake is willing to hold.
const maxBytes = uint64(1) << 34

// CreateSimpleDataspace creates a new simple dataspace.  maxDims = nil means
// maxDims = dims.  Zero-sized dimensions are allowed (libhdf5 >= 1.8.7).
func CreateSimpleDataspace(dims, maxDims []uint) (*Dataspace, error) {
	defer enter(false)()
	rank := 0
	if dims != nil {
		rank = len(dims)
		_ = dims[0] // the real binding takes &dims[0]: an empty non-nil slice panics
	}
	if maxDims != nil {
		rank = len(maxDims)
		_ = maxDims[0]
	}
	if len(dims) != len(maxDims) && (dims != nil && maxDims != nil) {
		return nil, errors.New("lengths of dims and maxDims do not match")
	}
	if dims == nil && rank > 0 {
		return nil, fmt.Errorf("failed to create dataspace")
	}
	s := &Dataspace{Identifier: Identifier{id: newID()}}
	s.dims = append([]uint{}, dims...)
	if maxDims != nil {
		for i := range dims {
			if maxDims[i] < dims[i] {
				return nil, fmt.Errorf("failed to create dataspace")
			}
		}
		s.maxdims = append([]uint{}, maxDims...)
	} else {
		s.maxdims = append([]uint{}, dims...)
	}
	return s, nil
}

// Copy creates an exact copy of a dataspace (extent and selection).
func (s *Dataspace) Copy() (*Dataspace, error) {
	defer enter(false)()
	c := *s
	c.id = newID()
	c.dims = append([]uint{}, s.dims...)
	c.maxdims = append([]uint{}, s.maxdims...)
	c.offset = append([]uint{}, s.offset...)
	c.stride = append([]uint{}, s.stride...)
	c.count = append([]uint{}, s.count...)
	c.block = append([]uint{}, s.block...)
	return &c, nil
}

// Close releases a dataspace.
func (s *Dataspace) Close() error {
	defer enter(false)()
	s.id = 0
	return nil
}

// IsSimple returns whether a dataspace is a simple dataspace.
func (s *Dataspace) IsSimple() bool { return true }

// SimpleExtentNDims returns the dimensionality of a dataspace.
func (s *Dataspace) SimpleExtentNDims() int {
	defer enter(false)()
	return len(s.dims)
}

// SimpleExtentNPoints returns the number of elements in a dataspace.
func (s *Dataspace) SimpleExtentNPoints() int {
	defer enter(false)()
	n, _ := product(s.dims)
	return int(n)
}

// SimpleExtentDims returns dataspace dimension size and maximum size.
func (s *Dataspace) SimpleExtentDims() (dims, maxdims []uint, err error) {
	defer enter(false)()
	rank := len(s.dims)
	dims = make([]uint, rank)
	maxdims = make([]uint, rank)
	_ = dims[0] // as the real binding: &dims[0] panics for rank 0
	copy(dims, s.dims)
	copy(maxdims, s.maxdims)
	return
}

// SelectHyperslab replaces the selection by the regular hyperslab
// (offset, stride, count, block); nil stride / block mean all ones.
//
// As H5Sselect_hyperslab does, this validates the shape of the request only:
// rank, stride != 0, blocks must not overlap (count > 1 requires stride >=
// block).  A zero count or block gives the empty selection.  Whether the
// selection lies inside the extent is checked when data is transferred
// (H5Dread / H5Dwrite: "selection + offset not within extent").
func (s *Dataspace) SelectHyperslab(offset, stride, count, block []uint) error {
	defer enter(false)()
	rank := len(offset)
	if rank == 0 {
		return nil // the real binding calls H5Soffset_simple(id, NULL) here
	}
	if rank != len(s.dims) {
		return errors.New("size of offset does not match extent")
	}
	_ = count[0]
	if len(count) < rank || (stride != nil && len(stride) < rank) || (block != nil && len(block) < rank) {
		panic("fakehdf5: SelectHyperslab: stride/count/block shorter than offset; libhdf5 would read past the end of the slice (undefined behaviour)")
	}
	st := make([]uint, rank)
	bl := make([]uint, rank)
	for i := 0; i < rank; i++ {
		st[i], bl[i] = 1, 1
		if stride != nil {
			st[i] = stride[i]
		}
		if block != nil {
			bl[i] = block[i]
		}
		if st[i] == 0 {
			return h5error{"invalid stride==0 value"}
		}
	}
	for i := 0; i < rank; i++ {
		if count[i] > 1 && st[i] < bl[i] {
			return h5error{"hyperslab blocks overlap"}
		}
	}
	for i := 0; i < rank; i++ {
		if count[i] == 0 || bl[i] == 0 {
			s.kind = selNone
			s.offset, s.stride, s.count, s.block = nil, nil, nil, nil
			return nil
		}
	}
	s.kind = selHyper
	s.offset = append([]uint{}, offset[:rank]...)
	s.stride = st
	s.count = append([]uint{}, count[:rank]...)
	s.block = bl
	return nil
}

// SelectAll / SelectNone are not in the real binding's API surface used by the
// repository; Copy + SelectHyperslab is all that is needed.

type h5error struct{ msg string }

func (h h5error) Error() string { return "hdf5: " + h.msg }

func product(dims []uint) (uint64, bool) {
	n := uint64(1)
	for _, d := range dims {
		hi, lo := bits.Mul64(n, uint64(d))
		if hi != 0 {
			return 0, false
		}
		n = lo
	}
	return n, true
}

// nSelected is the number of selected elements.
func (s *Dataspace) nSelected() (uint64, bool) {
	switch s.kind {
	case selAll:
		return product(s.dims)
	case selNone:
		return 0, true
	}
	n := uint64(1)
	for i := range s.count {
		hi, lo := bits.Mul64(uint64(s.count[i]), uint64(s.block[i]))
		if hi != 0 {
			return 0, false
		}
		hi, n2 := bits.Mul64(n, lo)
		if hi != 0 {
			return 0, false
		}
		n = n2
	}
	return n, true
}

// valid: offset + stride*(count-1) + block <= extent on every axis
// (H5Sselect_valid), evaluated without wrap-around.
func (s *Dataspace) valid() bool {
	if s.kind != selHyper {
		return true
	}
	for i := range s.dims {
		hi, span := bits.Mul64(uint64(s.stride[i]), uint64(s.count[i]-1))
		if hi != 0 {
			return false
		}
		end, c := bits.Add64(uint64(s.offset[i]), span, 0)
		if c != 0 {
			return false
		}
		end, c = bits.Add64(end, uint64(s.block[i]), 0)
		if c != 0 {
			return false
		}
		if end > uint64(s.dims[i]) {
			return false
		}
	}
	return true
}

// indices lists the selected elements as row-major linear offsets into the
// extent, in row-major order of the selection (the order in which libhdf5
// pairs up the elements of the memory and file selections).  Only called for
// valid selections.
func (s *Dataspace) indices() []int {
	rank := len(s.dims)
	axes := make([][]int, rank)
	for i := 0; i < rank; i++ {
		switch s.kind {
		case selAll:
			axes[i] = make([]int, s.dims[i])
			for k := range axes[i] {
				axes[i][k] = k
			}
		case selNone:
			axes[i] = nil
		default:
			for c := uint(0); c < s.count[i]; c++ {
				for b := uint(0); b < s.block[i]; b++ {
					axes[i] = append(axes[i], int(s.offset[i]+c*s.stride[i]+b))
				}
			}
		}
	}
	if s.kind == selNone {
		return nil
	}
	mult := make([]int, rank)
	m := 1
	for i := rank - 1; i >= 0; i-- {
		mult[i] = m
		m *= int(s.dims[i])
	}
	out := []int{0}
	for i := 0; i < rank; i++ {
		next := make([]int, 0, len(out)*len(axes[i]))
		for _, base := range out {
			for _, k := range axes[i] {
				next = append(next, base+k*mult[i])
			}
		}
		out = next
	}
	return out
}

// ---------------------------------------------------------------------------
// datasets
// ---------------------------------------------------------------------------

// Dataset is an open dataset of a file.
type Dataset struct {
	Identifier
	fs       *fileState
	node     *pnode
	writable bool
}

func createDataset(g *CommonFG, name string, dtype *Datatype, dspace *Dataspace, dcpl *PropList) (*Dataset, error) {
	if err := g.check(); err != nil {
		return nil, err
	}
	if !g.writable {
		return nil, errors.New("unable to create dataset: no write intent on file")
	}
	if dtype == nil || dspace == nil {
		return nil, errors.New("unable to create dataset: invalid datatype or dataspace")
	}
	if dtype.variable {
		return nil, errors.New("fakehdf5: variable-length string datasets are not supported")
	}
	parent, last, err := resolveParent(g.fs, g.node, name)
	if err != nil {
		return nil, fmt.Errorf("unable to create dataset: %s", err)
	}
	if _, exists := parent.Children[last]; exists {
		return nil, errors.New("unable to create dataset: name already exists")
	}
	n := &pnode{Class: int(dtype.class), Size: dtype.size, Signed: dtype.signed}
	n.Dims = append([]uint{}, dspace.dims...)
	n.MaxDims = append([]uint{}, dspace.maxdims...)
	if dcpl != nil && dcpl != P_DEFAULT {
		n.Deflate = dcpl.deflate
		n.Chunk = append([]uint{}, dcpl.chunk...)
		if n.Deflate != 0 && len(n.Chunk) == 0 {
			return nil, errors.New("unable to create dataset: filters can only be used with chunked layout")
		}
		if len(n.Chunk) != 0 && len(n.Chunk) != len(n.Dims) {
			return nil, errors.New("unable to create dataset: chunk rank does not match dataspace rank")
		}
	}
	if len(n.Chunk) == 0 {
		for i := range n.Dims {
			if n.MaxDims[i] > n.Dims[i] {
				return nil, errors.New("unable to create dataset: extendible contiguous non-external dataset not allowed")
			}
		}
	}
	cnt, ok := product(n.Dims)
	if ok {
		var hi uint64
		hi, cnt = bits.Mul64(cnt, uint64(n.Size))
		ok = hi == 0
	}
	if !ok || cnt > maxBytes {
		return nil, errors.New("fakehdf5: dataset too large for the in-memory stand-in")
	}
	n.Data = make([]byte, cnt) // default fill value: all bytes zero
	parent.Children[last] = n
	g.fs.dirty = true
	g.fs.refs++
	return &Dataset{Identifier{newID(), joinName(g.name, name)}, g.fs, n, g.writable}, nil
}

// CreateDataset creates a new Dataset (contiguous layout, zero fill value).
// All but the last component of name must exist; an existing name is an error.
func (g *CommonFG) CreateDataset(name string, dtype *Datatype, dspace *Dataspace) (*Dataset, error) {
	defer enter(true)()
	big.Lock()
	defer big.Unlock()
	return createDataset(g, name, dtype, dspace, P_DEFAULT)
}

// CreateDatasetWith creates a new Dataset with a creation property list.
func (g *CommonFG) CreateDatasetWith(name string, dtype *Datatype, dspace *Dataspace, dcpl *PropList) (*Dataset, error) {
	defer enter(true)()
	big.Lock()
	defer big.Unlock()
	return createDataset(g, name, dtype, dspace, dcpl)
}

// OpenDataset opens a named Dataset (name may be a path, absolute or relative).
func (g *CommonFG) OpenDataset(name string) (*Dataset, error) {
	defer enter(g != nil && g.writable)()
	big.Lock()
	defer big.Unlock()
	if err := g.check(); err != nil {
		return nil, err
	}
	n, err := resolve(g.fs, g.node, name)
	if err != nil {
		return nil, fmt.Errorf("unable to open dataset: %s", err)
	}
	if n.Group {
		return nil, errors.New("unable to open dataset: not a dataset")
	}
	g.fs.refs++
	return &Dataset{Identifier{newID(), joinName(g.name, name)}, g.fs, n, g.writable}, nil
}

// Close releases and terminates access to a dataset.
func (s *Dataset) Close() error {
	defer enter(s.writable)()
	big.Lock()
	defer big.Unlock()
	if s.id == 0 {
		return nil
	}
	s.id = 0
	return release(s.fs, false)
}

// Space returns a copy of the dataspace of the dataset (selection: all).
func (s *Dataset) Space() *Dataspace {
	defer enter(s.writable)()
	big.Lock()
	defer big.Unlock()
	if s.id == 0 {
		return nil
	}
	return &Dataspace{Identifier: Identifier{id: newID()},
		dims: append([]uint{}, s.node.Dims...), maxdims: append([]uint{}, s.node.MaxDims...)}
}

// Datatype returns a copy of the datatype of the dataset.
func (s *Dataset) Datatype() (*Datatype, error) {
	defer enter(s.writable)()
	big.Lock()
	defer big.Unlock()
	if s.id == 0 {
		return nil, fmt.Errorf("couldn't open Datatype from Dataset %q", s.name)
	}
	return &Datatype{Identifier: Identifier{id: newID()}, class: TypeClass(s.node.Class), size: s.node.Size, signed: s.node.Signed}, nil
}

// memory returns the bytes behind the value the caller passed, located exactly
// as the real binding locates the address it hands to H5Dread / H5Dwrite.
// bounded = false when the extent of the memory behind the pointer is unknown.
func memory(data interface{}) (buf []byte, bounded bool) {
	v := reflect.Indirect(reflect.ValueOf(data))
	switch v.Kind() {
	case reflect.Array:
		n := int(v.Type().Size())
		if n == 0 {
			return nil, true
		}
		return bytesAt(unsafe.Pointer(v.UnsafeAddr()), n), true
	case reflect.Slice:
		_ = v.UnsafeAddr() // panics for an unaddressable slice, as the real binding does
		n := v.Len() * int(v.Type().Elem().Size())
		if n == 0 {
			return nil, true
		}
		return bytesAt(unsafe.Pointer(v.Pointer()), n), true
	case reflect.String:
		panic("fakehdf5: string buffers are not supported")
	case reflect.Ptr:
		n := int(v.Type().Elem().Size())
		if n == 0 || v.IsNil() {
			return nil, true
		}
		return bytesAt(unsafe.Pointer(v.Pointer()), n), true
	default:
		n := int(v.Type().Size())
		if n == 0 {
			return nil, true
		}
		return bytesAt(unsafe.Pointer(v.UnsafeAddr()), n), true
	}
}

// bytesAt views n bytes at p as a slice (the module declares go 1.12, so no
// unsafe.Slice).
func bytesAt(p unsafe.Pointer, n int) []byte {
	return (*[1 << 40]byte)(p)[:n:n]
}

// transfer implements H5Dread (write=false) and H5Dwrite (write=true) with
// memory datatype = file datatype (that is how the binding calls them), i.e.
// a raw copy of Size-byte elements, paired in row-major selection order.
func (s *Dataset) transfer(data interface{}, memspace, filespace *Dataspace, write bool) error {
	if s.id == 0 {
		return h5error{"invalid dataset identifier"}
	}
	if write && !s.writable {
		return h5error{"no write intent on file"}
	}
	esz := int(s.node.Size)
	buf, _ := memory(data)

	fsp := filespace
	if fsp == nil {
		fsp = &Dataspace{dims: s.node.Dims, maxdims: s.node.MaxDims}
	} else if !sameDims(fsp.dims, s.node.Dims) {
		return h5error{"file dataspace extent does not match the dataset"}
	}
	msp := memspace
	if msp == nil {
		msp = fsp // H5S_ALL: the file dataspace and its selection describe memory too
	}
	nf, okf := fsp.nSelected()
	nm, okm := msp.nSelected()
	if !okf || !okm || nf != nm {
		return h5error{"src and dest dataspaces have different number of elements selected"}
	}
	if !msp.valid() {
		return h5error{"selection + offset not within extent for memory dataspace"}
	}
	if !fsp.valid() {
		return h5error{"selection + offset not within extent for file dataspace"}
	}
	if nf == 0 {
		return nil
	}
	// fast path: everything
	if fsp.kind == selAll && msp.kind == selAll {
		need := int(nf) * esz
		if len(buf) < need {
			panic(fmt.Sprintf("fakehdf5: memory buffer of %d bytes is too small for %d elements of %d bytes: libhdf5 would overrun it (undefined behaviour)", len(buf), nf, esz))
		}
		if write {
			copy(s.node.Data, buf[:need])
			s.fs.dirty = true
		} else {
			copy(buf[:need], s.node.Data)
		}
		return nil
	}
	fi := fsp.indices()
	mi := msp.indices()
	maxm := 0
	for _, k := range mi {
		if k > maxm {
			maxm = k
		}
	}
	if len(buf) < (maxm+1)*esz {
		panic(fmt.Sprintf("fakehdf5: memory buffer of %d bytes is too small for the memory selection (needs %d): libhdf5 would overrun it (undefined behaviour)", len(buf), (maxm+1)*esz))
	}
	for j := range fi {
		f0, m0 := fi[j]*esz, mi[j]*esz
		if write {
			copy(s.node.Data[f0:f0+esz], buf[m0:m0+esz])
		} else {
			copy(buf[m0:m0+esz], s.node.Data[f0:f0+esz])
		}
	}
	if write {
		s.fs.dirty = true
	}
	return nil
}

func sameDims(a, b []uint) bool {
	if len(a) != len(b) {
		return false
	}
	for i := range a {
		if a[i] != b[i] {
			return false
		}
	}
	return true
}

// ReadSubset reads a subset of raw data from a dataset into a buffer.
func (s *Dataset) ReadSubset(data interface{}, memspace, filespace *Dataspace) error {
	defer enter(s.writable)()
	big.Lock()
	defer big.Unlock()
	return s.transfer(data, memspace, filespace, false)
}

// Read reads raw data from a dataset into a buffer.
func (s *Dataset) Read(data interface{}) error {
	return s.ReadSubset(data, nil, nil)
}

// WriteSubset writes a subset of raw data from a buffer to a dataset.
func (s *Dataset) WriteSubset(data interface{}, memspace, filespace *Dataspace) error {
	defer enter(true)()
	big.Lock()
	defer big.Unlock()
	return s.transfer(data, memspace, filespace, true)
}

// Write writes raw data from a buffer to a dataset.
func (s *Dataset) Write(data interface{}) error {
	return s.WriteSubset(data, nil, nil)
}
