module verifharness

go 1.12

require (
	github.com/flowmatters/openwater-core v0.0.0
	gonum.org/v1/hdf5 v0.0.0-20210714002203-8c5d23bc6946
	gopkg.in/yaml.v2 v2.2.2
)

replace github.com/flowmatters/openwater-core => /repo

replace gonum.org/v1/hdf5 => ./fakehdf5
