// C06 / C14: hot-start (split-run) and purity / causality commands, all through
// sim.Catalog and the generated wrappers, one cell.
//
//   SPLIT <Model> MODE same|fresh P n hex.. S n hex.. I k len hex.. CUTSETS m  k1 c..  k2 c.. ...
//     runs the model once over the whole series and, for each of the m cut sets (non-decreasing
//     cut points 0 <= c <= len; equal neighbours, 0 and len give EMPTY segments: a call over zero time steps), in consecutive calls that carry the RETURNED state
//     array forward as the initial states of the next call.
//       MODE same : one model object, the very same state array object handed to every call
//       MODE strided | offset : arrays as VIEWS, the natural way a driver that keeps all cells in one table and one long
//                   record splits a run: the carried state array is a view of a larger state table -- every second row
//                   (strided; 2 cells) or a row block not starting at row 0 (offset; 2 cells from row 2) -- handed to every
//                   call; the inputs of a call are a TIME WINDOW (Slice) of the one long input record and its outputs a
//                   time window of one long, zero-initialised output record (sim.InitialiseOutputs for the whole period).
//                   Both cells get the same data.  The answer ends with  | PARENT <checks> <bad> [first problem]:
//                   rows of the state table outside the view must keep their sentinel values, the second cell must
//                   equal the first, bit for bit.
//       MODE fresh: a new model object (ApplyParameters again) and a new state array holding the
//                   returned values for every call
//     -> <whole> | <split 1> | ... | <split m>      each  OK O nout len hex.. S n hex..  or PANIC
//        (a split result is the concatenation of the segment outputs and the last call's states)
//
//   PURITY <Model> P n hex.. S n hex.. I k len hex.. ALT k len hex.. TRUNCS m t1..tm
//          OTHERS j { <Model> P n hex.. S n hex.. I k len hex.. } x j
//     -> r1 | r2 | r3 | r4 | r5 | r6 | trunc(t1) | repl(t1) | ... | trunc(tm) | repl(tm)
//        r1  first run on model object A
//        r2  second run on the SAME object A (fresh copies of states and inputs)
//        r3  run on a fresh object B
//        (then the j other catalogue cases are run, each on its own object, results discarded)
//        r4  object A again, after the other models have run
//        r5  fresh object C, after the other models have run
//        r6  object A, ApplyParameters called again first
//        trunc(t): fresh object, inputs truncated to their first t steps
//        repl(t) : fresh object, inputs[:t] ++ ALT[t:]  (tail replaced)
//        with a trailing  REINIT 0|1  on the command line, before KEPT:
//        ... | i1 | i2 | i3 | INIT n hex.. n hex.. n hex..
//        "re-initialise on the same object": object D: s1 = InitialiseStates(1), run from s1 (i1); s2 = InitialiseStates(1)
//        again on D, run from s2 (i2); fresh object E: s3 = InitialiseStates(1), run (i3).  INIT lists s1 (as it was
//        before its run), s2, s3.  Purity requires s1 = s2 = s3 and i1 = i2 = i3.  (REINIT 0: the three runs are SKIP.)
//        ... | KEPT <checks> <bad> [first difference]
//        every output array (from sim.InitialiseOutputs, as ow-sim and libopenwater obtain theirs) and state array of
//        the runs above is KEPT ALIVE, with a bit-pattern snapshot taken right after its run; after every later run
//        (same model type and shape, other models, truncated runs) all kept arrays are compared with their snapshots:
//        a later run must not alter the results of an earlier one.
//     GOMAXPROCS is left as the runtime set it.
//
//   LARGE <Model> P n hex.. S n hex.. I k len hex.. CELLS nc STEPS T
//     two consecutive GENERATIONS of the same model type at a large shape (nc cells x T steps; the given series
//     is tiled to T steps and rotated by the cell index, generation 2 by a different offset), output arrays from
//     sim.InitialiseOutputs, generation 1 kept alive while generation 2 runs; then generation 1 once more on a
//     privately allocated output array.  Arrays are reported as FNV-1a digests of their IEEE bit patterns:
//     -> OK N <elements per output array> NZ <non-zero outputs of generation 1>
//           G1 <outputs> <states>  G2 <outputs> <states>  K1 <generation 1 arrays re-read after generation 2>
//           G3 <generation 1 again, private array>  K2 <generation 2 arrays re-read after that>
//        purity requires K1 = G1, K2 = G2, G3 = G1.   | PANIC
package main

import (
	"bufio"
	"fmt"
	"math"

	"github.com/flowmatters/openwater-core/data"
	"github.com/flowmatters/openwater-core/sim"
)

type hsCase struct {
	name   string
	ps, ss []float64
	ins    [][]float64
	length int
}

func hsParseCase(t *toks) hsCase {
	var c hsCase
	t.expect("P")
	c.ps = t.floats(t.int())
	t.expect("S")
	c.ss = t.floats(t.int())
	t.expect("I")
	k := t.int()
	c.length = t.int()
	c.ins = make([][]float64, k)
	for i := range c.ins {
		c.ins[i] = t.floats(c.length)
	}
	return c
}

func hsModel(name string, ps []float64) sim.TimeSteppingModel {
	factory := sim.Catalog[name]
	if factory == nil {
		return nil
	}
	model := factory()
	hsApply(model, ps)
	return model
}

func hsApply(model sim.TimeSteppingModel, ps []float64) {
	params := data.NewArray2DFloat64(len(ps), 1)
	for i, v := range ps {
		params.Set2(i, 0, v)
	}
	dims := model.FindDimensions(params)
	model.InitialiseDimensions(dims)
	model.ApplyParameters(params)
}

func hsStates(ss []float64) data.ND2Float64 {
	states := data.NewArray2DFloat64(1, len(ss))
	for i, v := range ss {
		states.Set2(0, i, v)
	}
	return states
}

// one call of the generated Run on inputs[from:to]; returns outputs (nout x (to-from)); ok=false on a
// recoverable panic (panics inside the wrapper's cell goroutine kill the process: vlib reports CRASH)
func hsRun(model sim.TimeSteppingModel, states data.ND2Float64, ins [][]float64, from, to int) (outs [][]float64, ok bool) {
	outs, _, ok = hsRunArr(model, states, ins, from, to)
	return
}

// the same, also handing back the output array itself (so that the caller can keep it alive)
func hsRunArr(model sim.TimeSteppingModel, states data.ND2Float64, ins [][]float64, from, to int) (outs [][]float64, arr data.ND3Float64, ok bool) {
	defer func() {
		if r := recover(); r != nil {
			outs, arr, ok = nil, nil, false
		}
	}()
	n := to - from
	inputs := data.NewArray3DFloat64(1, len(ins), n)
	for i, row := range ins {
		for j := 0; j < n; j++ {
			inputs.Set3(0, i, j, row[from+j])
		}
	}
	outputs := sim.InitialiseOutputs(model, n, 1)
	model.Run(inputs, states, outputs)
	nout := outputs.Len(1)
	outs = make([][]float64, nout)
	for i := range outs {
		outs[i] = make([]float64, n)
		for j := 0; j < n; j++ {
			outs[i][j] = outputs.Get3(0, i, j)
		}
	}
	return outs, outputs, true
}

// ---- arrays kept alive across runs
type hsKept struct {
	label string
	out   data.ND3Float64
	st    data.ND2Float64
	so    []uint64
	ss    []uint64
}

func hsBits3(a data.ND3Float64) []uint64 {
	sh := a.Shape()
	r := make([]uint64, 0, sh[0]*sh[1]*sh[2])
	for i := 0; i < sh[0]; i++ {
		for j := 0; j < sh[1]; j++ {
			for k := 0; k < sh[2]; k++ {
				r = append(r, math.Float64bits(a.Get3(i, j, k)))
			}
		}
	}
	return r
}

func hsBits2(a data.ND2Float64) []uint64 {
	sh := a.Shape()
	r := make([]uint64, 0, sh[0]*sh[1])
	for i := 0; i < sh[0]; i++ {
		for j := 0; j < sh[1]; j++ {
			r = append(r, math.Float64bits(a.Get2(i, j)))
		}
	}
	return r
}

func hsSameBits(a, b []uint64) int {
	if len(a) != len(b) {
		return 0
	}
	for i := range a {
		if a[i] != b[i] {
			return i
		}
	}
	return -1
}

func hsDigest(bits []uint64) string {
	h := uint64(14695981039346656037)
	for _, v := range bits {
		for s := 0; s < 64; s += 8 {
			h ^= (v >> uint(s)) & 0xff
			h *= 1099511628211
		}
	}
	return fmt.Sprintf("%016x", h)
}

func hsReadStates(states data.ND2Float64, n int) []float64 {
	r := make([]float64, n)
	for i := range r {
		r[i] = states.Get2(0, i)
	}
	return r
}

func hsPrint(w *bufio.Writer, outs [][]float64, sts []float64, ok bool) {
	if !ok {
		w.WriteString("PANIC")
		return
	}
	ln := 0
	if len(outs) > 0 {
		ln = len(outs[0])
	}
	fmt.Fprintf(w, "OK O %d %d", len(outs), ln)
	for _, row := range outs {
		for _, v := range row {
			w.WriteByte(' ')
			w.WriteString(hex(v))
		}
	}
	fmt.Fprintf(w, " S %d", len(sts))
	for _, v := range sts {
		w.WriteByte(' ')
		w.WriteString(hex(v))
	}
}

func hsCopyRows(rows [][]float64) [][]float64 {
	r := make([][]float64, len(rows))
	for i := range rows {
		r[i] = append([]float64(nil), rows[i]...)
	}
	return r
}

// one split run with all arrays as views of larger ones (see MODE strided | offset)
func hsSplitViews(name, mode string, c hsCase, bounds []int, pchecks *int, problem func(string), ci int) (all [][]float64, fin []float64, good bool) {
	defer func() {
		if r := recover(); r != nil {
			all, fin, good = nil, nil, false
		}
	}()
	const nc = 2
	ns := len(c.ss)
	nrows := 5
	table := data.NewArray2DFloat64(nrows, ns)
	sentinel := func(r, j int) float64 { return -7777.25 - float64(r*1000+j) }
	for r := 0; r < nrows; r++ {
		for j := 0; j < ns; j++ {
			table.Set2(r, j, sentinel(r, j))
		}
	}
	var rows []int
	var states data.ND2Float64
	if mode == "strided" {
		rows = []int{1, 3}
		states = table.Slice([]int{1, 0}, []int{nc, ns}, []int{2, 1}).(data.ND2Float64)
	} else {
		rows = []int{2, 3}
		states = table.Slice([]int{2, 0}, []int{nc, ns}, nil).(data.ND2Float64)
	}
	for _, r := range rows {
		for j, v := range c.ss {
			table.Set2(r, j, v)
		}
	}
	model := hsModel(name, c.ps)
	k := len(c.ins)
	record := data.NewArray3DFloat64(1, k, c.length)
	for i, row := range c.ins {
		for j, v := range row {
			record.Set3(0, i, j, v)
		}
	}
	outRecord := sim.InitialiseOutputs(model, c.length, nc)
	nout := outRecord.Len(1)
	for s := 0; s+1 < len(bounds); s++ {
		from, n := bounds[s], bounds[s+1]-bounds[s]
		inputs := record.Slice([]int{0, 0, from}, []int{1, k, n}, nil).(data.ND3Float64)
		outputs := outRecord.Slice([]int{0, 0, from}, []int{nc, nout, n}, nil).(data.ND3Float64)
		model.Run(inputs, states, outputs)
	}
	all = make([][]float64, nout)
	for i := range all {
		all[i] = make([]float64, c.length)
		for j := 0; j < c.length; j++ {
			all[i][j] = outRecord.Get3(0, i, j)
			*pchecks++
			if math.Float64bits(outRecord.Get3(1, i, j)) != math.Float64bits(all[i][j]) {
				problem(fmt.Sprintf("cutset-%d-output-%d-step-%d-differs-between-the-two-cells", ci, i, j))
			}
		}
	}
	fin = make([]float64, ns)
	for j := 0; j < ns; j++ {
		fin[j] = table.Get2(rows[0], j)
		*pchecks++
		if math.Float64bits(table.Get2(rows[1], j)) != math.Float64bits(fin[j]) {
			problem(fmt.Sprintf("cutset-%d-final-state-%d-differs-between-the-two-cells", ci, j))
		}
		if math.Float64bits(states.Get2(0, j)) != math.Float64bits(fin[j]) {
			problem(fmt.Sprintf("cutset-%d-view-and-table-disagree-on-state-%d", ci, j))
		}
	}
	for r := 0; r < nrows; r++ {
		if r == rows[0] || r == rows[1] {
			continue
		}
		for j := 0; j < ns; j++ {
			*pchecks++
			if math.Float64bits(table.Get2(r, j)) != math.Float64bits(sentinel(r, j)) {
				problem(fmt.Sprintf("cutset-%d-state-table-row-%d-outside-the-view-overwritten-at-%d", ci, r, j))
			}
		}
	}
	return all, fin, true
}

func init() {
	commands["SPLIT"] = func(t *toks, w *bufio.Writer) {
		name := t.next()
		t.expect("MODE")
		mode := t.next()
		c := hsParseCase(t)
		t.expect("CUTSETS")
		m := t.int()
		cutsets := make([][]int, m)
		for i := range cutsets {
			k := t.int()
			cutsets[i] = make([]int, k)
			for j := range cutsets[i] {
				cutsets[i][j] = t.int()
			}
		}
		model := hsModel(name, c.ps)
		if model == nil {
			fmt.Fprintln(w, "NOMODEL")
			return
		}
		// whole run
		st := hsStates(c.ss)
		outs, ok := hsRun(model, st, c.ins, 0, c.length)
		hsPrint(w, outs, hsReadStates(st, len(c.ss)), ok)
		view := mode == "strided" || mode == "offset"
		pchecks, pbad, pfirst := 0, 0, ""
		problem := func(msg string) {
			pbad++
			if pfirst == "" {
				pfirst = msg
			}
		}
		for ci, cuts := range cutsets {
			w.WriteString(" | ")
			bounds := append(append([]int{0}, cuts...), c.length)
			if view {
				all, fin, good := hsSplitViews(name, mode, c, bounds, &pchecks, problem, ci)
				hsPrint(w, all, fin, good)
				continue
			}
			var m2 sim.TimeSteppingModel
			if mode == "same" {
				m2 = hsModel(name, c.ps)
			}
			st := hsStates(c.ss)
			var all [][]float64
			good := true
			for s := 0; s+1 < len(bounds); s++ {
				if mode != "same" {
					m2 = hsModel(name, c.ps)
					st = hsStates(hsReadStates(st, len(c.ss)))
				}
				o, ok := hsRun(m2, st, c.ins, bounds[s], bounds[s+1])
				if !ok {
					good = false
					break
				}
				if all == nil {
					all = o
				} else {
					for i := range all {
						all[i] = append(all[i], o[i]...)
					}
				}
			}
			hsPrint(w, all, hsReadStates(st, len(c.ss)), good)
		}
		if view {
			fmt.Fprintf(w, " | PARENT %d %d %s", pchecks, pbad, pfirst)
		}
		w.WriteByte('\n')
	}

	commands["PURITY"] = func(t *toks, w *bufio.Writer) {
		name := t.next()
		c := hsParseCase(t)
		t.expect("ALT")
		ak := t.int()
		alen := t.int()
		alt := make([][]float64, ak)
		for i := range alt {
			alt[i] = t.floats(alen)
		}
		t.expect("TRUNCS")
		truncs := make([]int, t.int())
		for i := range truncs {
			truncs[i] = t.int()
		}
		t.expect("OTHERS")
		others := make([]hsCase, t.int())
		for i := range others {
			oname := t.next()
			others[i] = hsParseCase(t)
			others[i].name = oname
		}
		var kept []hsKept
		checks, bad, firstBad := 0, 0, ""
		verify := func(after string) {
			for _, k := range kept {
				checks++
				if i := hsSameBits(k.so, hsBits3(k.out)); i >= 0 {
					bad++
					if firstBad == "" {
						firstBad = fmt.Sprintf("outputs-of-%s-altered-by-%s-at-element-%d", k.label, after, i)
					}
				}
				checks++
				if i := hsSameBits(k.ss, hsBits2(k.st)); i >= 0 {
					bad++
					if firstBad == "" {
						firstBad = fmt.Sprintf("states-of-%s-altered-by-%s-at-element-%d", k.label, after, i)
					}
				}
			}
		}
		nrun := 0
		keepRun := func(label string, model sim.TimeSteppingModel, st data.ND2Float64, ins [][]float64, n int) ([][]float64, bool) {
			outs, arr, ok := hsRunArr(model, st, ins, 0, n)
			verify(label)
			if ok {
				kept = append(kept, hsKept{label, arr, st, hsBits3(arr), hsBits2(st)})
			}
			return outs, ok
		}
		run := func(model sim.TimeSteppingModel, ins [][]float64, n int) {
			nrun++
			st := hsStates(c.ss)
			outs, ok := keepRun(fmt.Sprintf("run%d", nrun), model, st, hsCopyRows(ins), n)
			hsPrint(w, outs, hsReadStates(st, len(c.ss)), ok)
		}
		a := hsModel(name, c.ps)
		if a == nil {
			fmt.Fprintln(w, "NOMODEL")
			return
		}
		run(a, c.ins, c.length) // r1
		w.WriteString(" | ")
		run(a, c.ins, c.length) // r2
		w.WriteString(" | ")
		run(hsModel(name, c.ps), c.ins, c.length) // r3
		for _, o := range others {
			om := hsModel(o.name, o.ps)
			if om != nil {
				keepRun("other-"+o.name, om, hsStates(o.ss), o.ins, o.length)
			}
		}
		w.WriteString(" | ")
		run(a, c.ins, c.length) // r4
		w.WriteString(" | ")
		run(hsModel(name, c.ps), c.ins, c.length) // r5
		w.WriteString(" | ")
		hsApply(a, c.ps)
		run(a, c.ins, c.length) // r6
		for _, tt := range truncs {
			w.WriteString(" | ")
			run(hsModel(name, c.ps), c.ins, tt)
			w.WriteString(" | ")
			mixed := make([][]float64, len(c.ins))
			for i := range mixed {
				mixed[i] = append(append([]float64(nil), c.ins[i][:tt]...), alt[i][tt:]...)
			}
			run(hsModel(name, c.ps), mixed, c.length)
		}
		// re-initialise on the same object: ApplyParameters -> InitialiseStates -> Run -> InitialiseStates -> Run on ONE
		// object; the second freshly initialised state array must equal the first (as it was BEFORE its run) and that
		// of a fresh object, and give the same results.  REINIT 0: the runs are left out (Storage started from its
		// zero states can hit its agreed process crash); the state arrays are compared all the same.
		reinit := -1
		if t.i < len(t.t) && t.t[t.i] == "REINIT" {
			t.next()
			reinit = t.int()
		}
		if reinit >= 0 {
			readAll := func(st data.ND2Float64) []float64 {
				r := make([]float64, st.Len(1))
				for i := range r {
					r[i] = st.Get2(0, i)
				}
				return r
			}
			d := hsModel(name, c.ps)
			s1 := d.InitialiseStates(1)
			init1 := readAll(s1)
			runInit := func(label string, model sim.TimeSteppingModel, st data.ND2Float64) {
				w.WriteString(" | ")
				if reinit == 0 {
					w.WriteString("SKIP")
					return
				}
				outs, ok := keepRun(label, model, st, hsCopyRows(c.ins), c.length)
				hsPrint(w, outs, readAll(st), ok)
			}
			runInit("reinit-first", d, s1)
			if reinit == 0 {
				// some run on the object between the two initialisations (from the given states; not printed)
				keepRun("reinit-between", d, hsStates(c.ss), hsCopyRows(c.ins), c.length)
			}
			s2 := d.InitialiseStates(1)
			init2 := readAll(s2)
			runInit("reinit-second", d, s2)
			e := hsModel(name, c.ps)
			s3 := e.InitialiseStates(1)
			init3 := readAll(s3)
			runInit("reinit-fresh-object", e, s3)
			w.WriteString(" | INIT")
			for _, in := range [][]float64{init1, init2, init3} {
				fmt.Fprintf(w, " %d", len(in))
				for _, v := range in {
					w.WriteByte(' ')
					w.WriteString(hex(v))
				}
			}
		}
		fmt.Fprintf(w, " | KEPT %d %d %s", checks, bad, firstBad)
		w.WriteByte('\n')
	}

	commands["LARGE"] = func(t *toks, w *bufio.Writer) {
		name := t.next()
		c := hsParseCase(t)
		t.expect("CELLS")
		nc := t.int()
		t.expect("STEPS")
		T := t.int()
		if c.length == 0 {
			fmt.Fprintln(w, "BADCASE")
			return
		}
		gen := func(model sim.TimeSteppingModel, offset int, private bool) (data.ND3Float64, data.ND2Float64) {
			states := data.NewArray2DFloat64(nc, len(c.ss))
			for i := 0; i < nc; i++ {
				for j, v := range c.ss {
					states.Set2(i, j, v)
				}
			}
			inputs := data.NewArray3DFloat64(nc, len(c.ins), T)
			for i := 0; i < nc; i++ {
				for k, row := range c.ins {
					for j := 0; j < T; j++ {
						inputs.Set3(i, k, j, row[(j+i+offset)%c.length])
					}
				}
			}
			var outputs data.ND3Float64
			if private {
				outputs = data.NewArray3DFloat64(nc, len(model.Description().Outputs), T)
			} else {
				outputs = sim.InitialiseOutputs(model, T, nc)
			}
			model.Run(inputs, states, outputs)
			return outputs, states
		}
		a := hsModel(name, c.ps)
		if a == nil {
			fmt.Fprintln(w, "NOMODEL")
			return
		}
		o1, s1 := gen(a, 0, false)
		b1 := hsBits3(o1)
		nz := 0
		for _, v := range b1 {
			if v<<1 != 0 {
				nz++
			}
		}
		g1o, g1s := hsDigest(b1), hsDigest(hsBits2(s1))
		o2, s2 := gen(hsModel(name, c.ps), 3, false)
		g2o, g2s := hsDigest(hsBits3(o2)), hsDigest(hsBits2(s2))
		k1o, k1s := hsDigest(hsBits3(o1)), hsDigest(hsBits2(s1))
		o3, s3 := gen(a, 0, true)
		g3o, g3s := hsDigest(hsBits3(o3)), hsDigest(hsBits2(s3))
		k2o, k2s := hsDigest(hsBits3(o2)), hsDigest(hsBits2(s2))
		fmt.Fprintf(w, "OK N %d NZ %d G1 %s %s G2 %s %s K1 %s %s G3 %s %s K2 %s %s\n", len(b1), nz,
			g1o, g1s, g2o, g2s, k1o, k1s, g3o, g3s, k2o, k2s)
	}
}
