// C06 / C14: hot-start (split-run) and purity / causality commands, all through
// sim.Catalog and the generated wrappers, one cell.
//
//   SPLIT <Model> MODE same|fresh P n hex.. S n hex.. I k len hex.. CUTSETS m  k1 c..  k2 c.. ...
//     runs the model once over the whole series and, for each of the m cut sets (non-decreasing
//     cut points 0 <= c <= len; equal neighbours, 0 and len give EMPTY segments: a call over zero time steps), in consecutive calls that carry the RETURNED state
//     array forward as the initial states of the next call.
//       MODE same : one model object, the very same state array object handed to every call
//       MODE fresh: a new model object (ApplyParameters again) and a new state array holding the
//                   returned values for every call
//     -> <whole> | <split 1> | ... | <split m>      each  OK O nout len hex.. S n hex..  or PANIC
//        (a split result is the concatenation of the segment outputs and the last call's states)
//
//   PURITY <Model> P n hex.. S n hex.. I k len hex.. ALT k len hex.. TRUNCS m t1..tm
//          OTHERS j { <Model> P n hex.. S n hex.. I k len hex.. } x j
//     -> r1 | r2 | r3 | r4 | r5 | r6 | trunc(t1) | repl(t1) | ... | trunc(tm) | repl(tm)
//        r1  first run on model object A
//        r2  second run on the SAME object A (fresh copies of states and inputs)
//        r3  run on a fresh object B
//        (then the j other catalogue cases are run, each on its own object, results discarded)
//        r4  object A again, after the other models have run
//        r5  fresh object C, after the other models have run
//        r6  object A, ApplyParameters called again first
//        trunc(t): fresh object, inputs truncated to their first t steps
//        repl(t) : fresh object, inputs[:t] ++ ALT[t:]  (tail replaced)
//        ... | KEPT <checks> <bad> [first difference]
//        every output array (from sim.InitialiseOutputs, as ow-sim and libopenwater obtain theirs) and state array of
//        the runs above is KEPT ALIVE, with a bit-pattern snapshot taken right after its run; after every later run
//        (same model type and shape, other models, truncated runs) all kept arrays are compared with their snapshots:
//        a later run must not alter the results of an earlier one.
//     GOMAXPROCS is left as the runtime set it.
//
//   LARGE <Model> P n hex.. S n hex.. I k len hex.. CELLS nc STEPS T
//     two consecutive GENERATIONS of the same model type at a large shape (nc cells x T steps; the given series
//     is tiled to T steps and rotated by the cell index, generation 2 by a different offset), output arrays from
//     sim.InitialiseOutputs, generation 1 kept alive while generation 2 runs; then generation 1 once more on a
//     privately allocated output array.  Arrays are reported as FNV-1a digests of their IEEE bit patterns:
//     -> OK N <elements per output array> NZ <non-zero outputs of generation 1>
//           G1 <outputs> <states>  G2 <outputs> <states>  K1 <generation 1 arrays re-read after generation 2>
//           G3 <generation 1 again, private array>  K2 <generation 2 arrays re-read after that>
//        purity requires K1 = G1, K2 = G2, G3 = G1.   | PANIC
package main

import (
	"bufio"
	"fmt"
	"math"

	"github.com/flowmatters/openwater-core/data"
	"github.com/flowmatters/openwater-core/sim"
)

type hsCase struct {
	name   string
	ps, ss []float64
	ins    [][]float64
	length int
}

func hsParseCase(t *toks) hsCase {
	var c hsCase
	t.expect("P")
	c.ps = t.floats(t.int())
	t.expect("S")
	c.ss = t.floats(t.int())
	t.expect("I")
	k := t.int()
	c.length = t.int()
	c.ins = make([][]float64, k)
	for i := range c.ins {
		c.ins[i] = t.floats(c.length)
	}
	return c
}

func hsModel(name string, ps []float64) sim.TimeSteppingModel {
	factory := sim.Catalog[name]
	if factory == nil {
		return nil
	}
	model := factory()
	hsApply(model, ps)
	return model
}

func hsApply(model sim.TimeSteppingModel, ps []float64) {
	params := data.NewArray2DFloat64(len(ps), 1)
	for i, v := range ps {
		params.Set2(i, 0, v)
	}
	dims := model.FindDimensions(params)
	model.InitialiseDimensions(dims)
	model.ApplyParameters(params)
}

func hsStates(ss []float64) data.ND2Float64 {
	states := data.NewArray2DFloat64(1, len(ss))
	for i, v := range ss {
		states.Set2(0, i, v)
	}
	return states
}

// one call of the generated Run on inputs[from:to]; returns outputs (nout x (to-from)); ok=false on a
// recoverable panic (panics inside the wrapper's cell goroutine kill the process: vlib reports CRASH)
func hsRun(model sim.TimeSteppingModel, states data.ND2Float64, ins [][]float64, from, to int) (outs [][]float64, ok bool) {
	outs, _, ok = hsRunArr(model, states, ins, from, to)
	return
}

// the same, also handing back the output array itself (so that the caller can keep it alive)
func hsRunArr(model sim.TimeSteppingModel, states data.ND2Float64, ins [][]float64, from, to int) (outs [][]float64, arr data.ND3Float64, ok bool) {
	defer func() {
		if r := recover(); r != nil {
			outs, arr, ok = nil, nil, false
		}
	}()
	n := to - from
	inputs := data.NewArray3DFloat64(1, len(ins), n)
	for i, row := range ins {
		for j := 0; j < n; j++ {
			inputs.Set3(0, i, j, row[from+j])
		}
	}
	outputs := sim.InitialiseOutputs(model, n, 1)
	model.Run(inputs, states, outputs)
	nout := outputs.Len(1)
	outs = make([][]float64, nout)
	for i := range outs {
		outs[i] = make([]float64, n)
		for j := 0; j < n; j++ {
			outs[i][j] = outputs.Get3(0, i, j)
		}
	}
	return outs, outputs, true
}

// ---- arrays kept alive across runs
type hsKept struct {
	label string
	out   data.ND3Float64
	st    data.ND2Float64
	so    []uint64
	ss    []uint64
}

func hsBits3(a data.ND3Float64) []uint64 {
	sh := a.Shape()
	r := make([]uint64, 0, sh[0]*sh[1]*sh[2])
	for i := 0; i < sh[0]; i++ {
		for j := 0; j < sh[1]; j++ {
			for k := 0; k < sh[2]; k++ {
				r = append(r, math.Float64bits(a.Get3(i, j, k)))
			}
		}
	}
	return r
}

func hsBits2(a data.ND2Float64) []uint64 {
	sh := a.Shape()
	r := make([]uint64, 0, sh[0]*sh[1])
	for i := 0; i < sh[0]; i++ {
		for j := 0; j < sh[1]; j++ {
			r = append(r, math.Float64bits(a.Get2(i, j)))
		}
	}
	return r
}

func hsSameBits(a, b []uint64) int {
	if len(a) != len(b) {
		return 0
	}
	for i := range a {
		if a[i] != b[i] {
			return i
		}
	}
	return -1
}

func hsDigest(bits []uint64) string {
	h := uint64(14695981039346656037)
	for _, v := range bits {
		for s := 0; s < 64; s += 8 {
			h ^= (v >> uint(s)) & 0xff
			h *= 1099511628211
		}
	}
	return fmt.Sprintf("%016x", h)
}

func hsReadStates(states data.ND2Float64, n int) []float64 {
	r := make([]float64, n)
	for i := range r {
		r[i] = states.Get2(0, i)
	}
	return r
}

func hsPrint(w *bufio.Writer, outs [][]float64, sts []float64, ok bool) {
	if !ok {
		w.WriteString("PANIC")
		return
	}
	ln := 0
	if len(outs) > 0 {
		ln = len(outs[0])
	}
	fmt.Fprintf(w, "OK O %d %d", len(outs), ln)
	for _, row := range outs {
		for _, v := range row {
			w.WriteByte(' ')
			w.WriteString(hex(v))
		}
	}
	fmt.Fprintf(w, " S %d", len(sts))
	for _, v := range sts {
		w.WriteByte(' ')
		w.WriteString(hex(v))
	}
}

func hsCopyRows(rows [][]float64) [][]float64 {
	r := make([][]float64, len(rows))
	for i := range rows {
		r[i] = append([]float64(nil), rows[i]...)
	}
	return r
}

func init() {
	commands["SPLIT"] = func(t *toks, w *bufio.Writer) {
		name := t.next()
		t.expect("MODE")
		mode := t.next()
		c := hsParseCase(t)
		t.expect("CUTSETS")
		m := t.int()
		cutsets := make([][]int, m)
		for i := range cutsets {
			k := t.int()
			cutsets[i] = make([]int, k)
			for j := range cutsets[i] {
				cutsets[i][j] = t.int()
			}
		}
		model := hsModel(name, c.ps)
		if model == nil {
			fmt.Fprintln(w, "NOMODEL")
			return
		}
		// whole run
		st := hsStates(c.ss)
		outs, ok := hsRun(model, st, c.ins, 0, c.length)
		hsPrint(w, outs, hsReadStates(st, len(c.ss)), ok)
		for _, cuts := range cutsets {
			w.WriteString(" | ")
			bounds := append(append([]int{0}, cuts...), c.length)
			var m2 sim.TimeSteppingModel
			if mode == "same" {
				m2 = hsModel(name, c.ps)
			}
			st := hsStates(c.ss)
			var all [][]float64
			good := true
			for s := 0; s+1 < len(bounds); s++ {
				if mode != "same" {
					m2 = hsModel(name, c.ps)
					st = hsStates(hsReadStates(st, len(c.ss)))
				}
				o, ok := hsRun(m2, st, c.ins, bounds[s], bounds[s+1])
				if !ok {
					good = false
					break
				}
				if all == nil {
					all = o
				} else {
					for i := range all {
						all[i] = append(all[i], o[i]...)
					}
				}
			}
			hsPrint(w, all, hsReadStates(st, len(c.ss)), good)
		}
		w.WriteByte('\n')
	}

	commands["PURITY"] = func(t *toks, w *bufio.Writer) {
		name := t.next()
		c := hsParseCase(t)
		t.expect("ALT")
		ak := t.int()
		alen := t.int()
		alt := make([][]float64, ak)
		for i := range alt {
			alt[i] = t.floats(alen)
		}
		t.expect("TRUNCS")
		truncs := make([]int, t.int())
		for i := range truncs {
			truncs[i] = t.int()
		}
		t.expect("OTHERS")
		others := make([]hsCase, t.int())
		for i := range others {
			oname := t.next()
			others[i] = hsParseCase(t)
			others[i].name = oname
		}
		var kept []hsKept
		checks, bad, firstBad := 0, 0, ""
		verify := func(after string) {
			for _, k := range kept {
				checks++
				if i := hsSameBits(k.so, hsBits3(k.out)); i >= 0 {
					bad++
					if firstBad == "" {
						firstBad = fmt.Sprintf("outputs-of-%s-altered-by-%s-at-element-%d", k.label, after, i)
					}
				}
				checks++
				if i := hsSameBits(k.ss, hsBits2(k.st)); i >= 0 {
					bad++
					if firstBad == "" {
						firstBad = fmt.Sprintf("states-of-%s-altered-by-%s-at-element-%d", k.label, after, i)
					}
				}
			}
		}
		nrun := 0
		keepRun := func(label string, model sim.TimeSteppingModel, st data.ND2Float64, ins [][]float64, n int) ([][]float64, bool) {
			outs, arr, ok := hsRunArr(model, st, ins, 0, n)
			verify(label)
			if ok {
				kept = append(kept, hsKept{label, arr, st, hsBits3(arr), hsBits2(st)})
			}
			return outs, ok
		}
		run := func(model sim.TimeSteppingModel, ins [][]float64, n int) {
			nrun++
			st := hsStates(c.ss)
			outs, ok := keepRun(fmt.Sprintf("run%d", nrun), model, st, hsCopyRows(ins), n)
			hsPrint(w, outs, hsReadStates(st, len(c.ss)), ok)
		}
		a := hsModel(name, c.ps)
		if a == nil {
			fmt.Fprintln(w, "NOMODEL")
			return
		}
		run(a, c.ins, c.length) // r1
		w.WriteString(" | ")
		run(a, c.ins, c.length) // r2
		w.WriteString(" | ")
		run(hsModel(name, c.ps), c.ins, c.length) // r3
		for _, o := range others {
			om := hsModel(o.name, o.ps)
			if om != nil {
				keepRun("other-"+o.name, om, hsStates(o.ss), o.ins, o.length)
			}
		}
		w.WriteString(" | ")
		run(a, c.ins, c.length) // r4
		w.WriteString(" | ")
		run(hsModel(name, c.ps), c.ins, c.length) // r5
		w.WriteString(" | ")
		hsApply(a, c.ps)
		run(a, c.ins, c.length) // r6
		for _, tt := range truncs {
			w.WriteString(" | ")
			run(hsModel(name, c.ps), c.ins, tt)
			w.WriteString(" | ")
			mixed := make([][]float64, len(c.ins))
			for i := range mixed {
				mixed[i] = append(append([]float64(nil), c.ins[i][:tt]...), alt[i][tt:]...)
			}
			run(hsModel(name, c.ps), mixed, c.length)
		}
		fmt.Fprintf(w, " | KEPT %d %d %s", checks, bad, firstBad)
		w.WriteByte('\n')
	}

	commands["LARGE"] = func(t *toks, w *bufio.Writer) {
		name := t.next()
		c := hsParseCase(t)
		t.expect("CELLS")
		nc := t.int()
		t.expect("STEPS")
		T := t.int()
		if c.length == 0 {
			fmt.Fprintln(w, "BADCASE")
			return
		}
		gen := func(model sim.TimeSteppingModel, offset int, private bool) (data.ND3Float64, data.ND2Float64) {
			states := data.NewArray2DFloat64(nc, len(c.ss))
			for i := 0; i < nc; i++ {
				for j, v := range c.ss {
					states.Set2(i, j, v)
				}
			}
			inputs := data.NewArray3DFloat64(nc, len(c.ins), T)
			for i := 0; i < nc; i++ {
				for k, row := range c.ins {
					for j := 0; j < T; j++ {
						inputs.Set3(i, k, j, row[(j+i+offset)%c.length])
					}
				}
			}
			var outputs data.ND3Float64
			if private {
				outputs = data.NewArray3DFloat64(nc, len(model.Description().Outputs), T)
			} else {
				outputs = sim.InitialiseOutputs(model, T, nc)
			}
			model.Run(inputs, states, outputs)
			return outputs, states
		}
		a := hsModel(name, c.ps)
		if a == nil {
			fmt.Fprintln(w, "NOMODEL")
			return
		}
		o1, s1 := gen(a, 0, false)
		b1 := hsBits3(o1)
		nz := 0
		for _, v := range b1 {
			if v<<1 != 0 {
				nz++
			}
		}
		g1o, g1s := hsDigest(b1), hsDigest(hsBits2(s1))
		o2, s2 := gen(hsModel(name, c.ps), 3, false)
		g2o, g2s := hsDigest(hsBits3(o2)), hsDigest(hsBits2(s2))
		k1o, k1s := hsDigest(hsBits3(o1)), hsDigest(hsBits2(s1))
		o3, s3 := gen(a, 0, true)
		g3o, g3s := hsDigest(hsBits3(o3)), hsDigest(hsBits2(s3))
		k2o, k2s := hsDigest(hsBits3(o2)), hsDigest(hsBits2(s2))
		fmt.Fprintf(w, "OK N %d NZ %d G1 %s %s G2 %s %s K1 %s %s G3 %s %s K2 %s %s\n", len(b1), nz,
			g1o, g1s, g2o, g2s, k1o, k1s, g3o, g3s, k2o, k2s)
	}
}
