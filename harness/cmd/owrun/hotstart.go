// C06 / C14: hot-start (split-run) and purity / causality commands, all through
// sim.Catalog and the generated wrappers, one cell.
//
//   SPLIT <Model> MODE same|fresh P n hex.. S n hex.. I k len hex.. CUTSETS m  k1 c..  k2 c.. ...
//     runs the model once over the whole series and, for each of the m cut sets (strictly
//     increasing cut points 0 < c < len), in consecutive calls that carry the RETURNED state
//     array forward as the initial states of the next call.
//       MODE same : one model object, the very same state array object handed to every call
//       MODE fresh: a new model object (ApplyParameters again) and a new state array holding the
//                   returned values for every call
//     -> <whole> | <split 1> | ... | <split m>      each  OK O nout len hex.. S n hex..  or PANIC
//        (a split result is the concatenation of the segment outputs and the last call's states)
//
//   PURITY <Model> P n hex.. S n hex.. I k len hex.. ALT k len hex.. TRUNCS m t1..tm
//          OTHERS j { <Model> P n hex.. S n hex.. I k len hex.. } x j
//     -> r1 | r2 | r3 | r4 | r5 | r6 | trunc(t1) | repl(t1) | ... | trunc(tm) | repl(tm)
//        r1  first run on model object A
//        r2  second run on the SAME object A (fresh copies of states and inputs)
//        r3  run on a fresh object B
//        (then the j other catalogue cases are run, each on its own object, results discarded)
//        r4  object A again, after the other models have run
//        r5  fresh object C, after the other models have run
//        r6  object A, ApplyParameters called again first
//        trunc(t): fresh object, inputs truncated to their first t steps
//        repl(t) : fresh object, inputs[:t] ++ ALT[t:]  (tail replaced)
//     GOMAXPROCS is left as the runtime set it.
package main

import (
	"bufio"
	"fmt"

	"github.com/flowmatters/openwater-core/data"
	"github.com/flowmatters/openwater-core/sim"
)

type hsCase struct {
	name   string
	ps, ss []float64
	ins    [][]float64
	length int
}

func hsParseCase(t *toks) hsCase {
	var c hsCase
	t.expect("P")
	c.ps = t.floats(t.int())
	t.expect("S")
	c.ss = t.floats(t.int())
	t.expect("I")
	k := t.int()
	c.length = t.int()
	c.ins = make([][]float64, k)
	for i := range c.ins {
		c.ins[i] = t.floats(c.length)
	}
	return c
}

func hsModel(name string, ps []float64) sim.TimeSteppingModel {
	factory := sim.Catalog[name]
	if factory == nil {
		return nil
	}
	model := factory()
	hsApply(model, ps)
	return model
}

func hsApply(model sim.TimeSteppingModel, ps []float64) {
	params := data.NewArray2DFloat64(len(ps), 1)
	for i, v := range ps {
		params.Set2(i, 0, v)
	}
	dims := model.FindDimensions(params)
	model.InitialiseDimensions(dims)
	model.ApplyParameters(params)
}

func hsStates(ss []float64) data.ND2Float64 {
	states := data.NewArray2DFloat64(1, len(ss))
	for i, v := range ss {
		states.Set2(0, i, v)
	}
	return states
}

// one call of the generated Run on inputs[from:to]; returns outputs (nout x (to-from)); ok=false on a
// recoverable panic (panics inside the wrapper's cell goroutine kill the process: vlib reports CRASH)
func hsRun(model sim.TimeSteppingModel, states data.ND2Float64, ins [][]float64, from, to int) (outs [][]float64, ok bool) {
	defer func() {
		if r := recover(); r != nil {
			outs, ok = nil, false
		}
	}()
	n := to - from
	inputs := data.NewArray3DFloat64(1, len(ins), n)
	for i, row := range ins {
		for j := 0; j < n; j++ {
			inputs.Set3(0, i, j, row[from+j])
		}
	}
	outputs := sim.InitialiseOutputs(model, n, 1)
	model.Run(inputs, states, outputs)
	nout := outputs.Len(1)
	outs = make([][]float64, nout)
	for i := range outs {
		outs[i] = make([]float64, n)
		for j := 0; j < n; j++ {
			outs[i][j] = outputs.Get3(0, i, j)
		}
	}
	return outs, true
}

func hsReadStates(states data.ND2Float64, n int) []float64 {
	r := make([]float64, n)
	for i := range r {
		r[i] = states.Get2(0, i)
	}
	return r
}

func hsPrint(w *bufio.Writer, outs [][]float64, sts []float64, ok bool) {
	if !ok {
		w.WriteString("PANIC")
		return
	}
	ln := 0
	if len(outs) > 0 {
		ln = len(outs[0])
	}
	fmt.Fprintf(w, "OK O %d %d", len(outs), ln)
	for _, row := range outs {
		for _, v := range row {
			w.WriteByte(' ')
			w.WriteString(hex(v))
		}
	}
	fmt.Fprintf(w, " S %d", len(sts))
	for _, v := range sts {
		w.WriteByte(' ')
		w.WriteString(hex(v))
	}
}

func hsCopyRows(rows [][]float64) [][]float64 {
	r := make([][]float64, len(rows))
	for i := range rows {
		r[i] = append([]float64(nil), rows[i]...)
	}
	return r
}

func init() {
	commands["SPLIT"] = func(t *toks, w *bufio.Writer) {
		name := t.next()
		t.expect("MODE")
		mode := t.next()
		c := hsParseCase(t)
		t.expect("CUTSETS")
		m := t.int()
		cutsets := make([][]int, m)
		for i := range cutsets {
			k := t.int()
			cutsets[i] = make([]int, k)
			for j := range cutsets[i] {
				cutsets[i][j] = t.int()
			}
		}
		model := hsModel(name, c.ps)
		if model == nil {
			fmt.Fprintln(w, "NOMODEL")
			return
		}
		// whole run
		st := hsStates(c.ss)
		outs, ok := hsRun(model, st, c.ins, 0, c.length)
		hsPrint(w, outs, hsReadStates(st, len(c.ss)), ok)
		for _, cuts := range cutsets {
			w.WriteString(" | ")
			bounds := append(append([]int{0}, cuts...), c.length)
			var m2 sim.TimeSteppingModel
			if mode == "same" {
				m2 = hsModel(name, c.ps)
			}
			st := hsStates(c.ss)
			var all [][]float64
			good := true
			for s := 0; s+1 < len(bounds); s++ {
				if mode != "same" {
					m2 = hsModel(name, c.ps)
					st = hsStates(hsReadStates(st, len(c.ss)))
				}
				o, ok := hsRun(m2, st, c.ins, bounds[s], bounds[s+1])
				if !ok {
					good = false
					break
				}
				if all == nil {
					all = o
				} else {
					for i := range all {
						all[i] = append(all[i], o[i]...)
					}
				}
			}
			hsPrint(w, all, hsReadStates(st, len(c.ss)), good)
		}
		w.WriteByte('\n')
	}

	commands["PURITY"] = func(t *toks, w *bufio.Writer) {
		name := t.next()
		c := hsParseCase(t)
		t.expect("ALT")
		ak := t.int()
		alen := t.int()
		alt := make([][]float64, ak)
		for i := range alt {
			alt[i] = t.floats(alen)
		}
		t.expect("TRUNCS")
		truncs := make([]int, t.int())
		for i := range truncs {
			truncs[i] = t.int()
		}
		t.expect("OTHERS")
		others := make([]hsCase, t.int())
		for i := range others {
			oname := t.next()
			others[i] = hsParseCase(t)
			others[i].name = oname
		}
		run := func(model sim.TimeSteppingModel, ins [][]float64, n int) {
			st := hsStates(c.ss)
			outs, ok := hsRun(model, st, hsCopyRows(ins), 0, n)
			hsPrint(w, outs, hsReadStates(st, len(c.ss)), ok)
		}
		a := hsModel(name, c.ps)
		if a == nil {
			fmt.Fprintln(w, "NOMODEL")
			return
		}
		run(a, c.ins, c.length) // r1
		w.WriteString(" | ")
		run(a, c.ins, c.length) // r2
		w.WriteString(" | ")
		run(hsModel(name, c.ps), c.ins, c.length) // r3
		for _, o := range others {
			om := hsModel(o.name, o.ps)
			if om != nil {
				hsRun(om, hsStates(o.ss), o.ins, 0, o.length)
			}
		}
		w.WriteString(" | ")
		run(a, c.ins, c.length) // r4
		w.WriteString(" | ")
		run(hsModel(name, c.ps), c.ins, c.length) // r5
		w.WriteString(" | ")
		hsApply(a, c.ps)
		run(a, c.ins, c.length) // r6
		for _, tt := range truncs {
			w.WriteString(" | ")
			run(hsModel(name, c.ps), c.ins, tt)
			w.WriteString(" | ")
			mixed := make([][]float64, len(c.ins))
			for i := range mixed {
				mixed[i] = append(append([]float64(nil), c.ins[i][:tt]...), alt[i][tt:]...)
			}
			run(hsModel(name, c.ps), mixed, c.length)
		}
		w.WriteByte('\n')
	}
}
