package main

// V: the Go-API sequence of libopenwater/single.go on Go-allocated arrays (the reference the C
// entry point is compared with).  DESC: catalogue listing with parameter defaults/ranges.

import (
	"bufio"
	"fmt"
	"sort"

	"github.com/flowmatters/openwater-core/data"
	"github.com/flowmatters/openwater-core/sim"
)

func init() {
	commands["V"] = vrun
	commands["DESC"] = desc
}

func desc(t *toks, w *bufio.Writer) {
	names := []string{}
	for k := range sim.Catalog {
		names = append(names, k)
	}
	sort.Strings(names)
	for _, n := range names {
		m := sim.Catalog[n]()
		d := m.Description()
		fmt.Fprintf(w, "%s|%d|%d|%d|%d|", n, len(d.Inputs), len(d.States), len(d.Outputs), len(d.Dimensions))
		for i, p := range d.Parameters {
			if i > 0 {
				w.WriteByte(';')
			}
			fmt.Fprintf(w, "%s,%s,%s,%s,%d", p.Name, hex(p.Default), hex(p.Range[0]), hex(p.Range[1]), len(p.Dimensions))
		}
		w.WriteString(" ## ")
	}
	w.WriteByte('\n')
}

func vrun(t *toks, w *bufio.Writer) {
	name := t.next()
	nIS, nI, T, nP, nPS, nC, nS, nOC, nO, nOT, init := t.int(), t.int(), t.int(), t.int(), t.int(), t.int(), t.int(), t.int(), t.int(), t.int(), t.int()
	model := sim.Catalog[name]()
	in := data.ArrayFromSliceFloat64(t.floats(nIS*nI*T), []int{nIS, nI, T}).(data.ND3Float64)
	pa := data.ArrayFromSliceFloat64(t.floats(nP*nPS), []int{nP, nPS}).(data.ND2Float64)
	stv := t.floats(nC * nS)
	ouv := make([]float64, nOC*nO*nOT)
	ou := data.ArrayFromSliceFloat64(ouv, []int{nOC, nO, nOT}).(data.ND3Float64)
	dims := model.FindDimensions(pa)
	if len(dims) > 0 {
		model.InitialiseDimensions(dims)
	}
	model.ApplyParameters(pa)
	var st data.ND2Float64
	if init != 0 {
		st = model.InitialiseStates(nC)
	} else {
		st = data.ArrayFromSliceFloat64(stv, []int{nC, nS}).(data.ND2Float64)
	}
	model.Run(in, st, ou)
	if init != 0 {
		orig := data.ArrayFromSliceFloat64(stv, []int{nC, nS}).(data.ND2Float64)
		orig.CopyFrom(st)
	}
	fmt.Fprintf(w, "OK O %d", len(ouv))
	for _, v := range ouv {
		w.WriteByte(' ')
		w.WriteString(hex(v))
	}
	fmt.Fprintf(w, " S %d", len(stv))
	for _, v := range stv {
		w.WriteByte(' ')
		w.WriteString(hex(v))
	}
	w.WriteString(" C 1\n")
}
