// C18: commands that run util/fn.FindRoot and util/fn.Piecewise (library
// functions, not catalogue models) on test functions that the extracted Coq
// model can evaluate identically (same operations in the same order).
//
//   ROOT <fspec> <dspec> x0 a b tol conv n
//       fspec := POLY k c0 .. c(k-1)      Horner  c0 + x*(c1 + x*(...))
//              | PWL  k x0..x(k-1) y0..y(k-1)   piecewise linear, constant outside
//              | POW  k m c               k*math.Pow(x,m) - c
//              | SHPOW k r p              k*(x-r)^p, p a decimal integer, by repeated multiplication
//       dspec := NONE | fspec             (fn_dx; NONE = nil)
//       floats as 16 hex digits, n decimal
//     -> OK <x> <delta> E <ne> <eval points of fn..> D <nd> <eval points of fn_dx..>
//        (NaN printed as "nan")  |  PANIC
//   PIECEWISE n xs.. ys.. q   -> OK <y> | ERR | PANIC
package main

import (
	"bufio"
	"fmt"
	"math"

	"github.com/flowmatters/openwater-core/data"
	"github.com/flowmatters/openwater-core/util/fn"
)

func c18hex(f float64) string {
	if f != f {
		return "nan"
	}
	return hex(f)
}

func c18poly(cs []float64, x float64) float64 {
	if len(cs) == 0 {
		return 0
	}
	acc := cs[len(cs)-1]
	for i := len(cs) - 2; i >= 0; i-- {
		acc = cs[i] + float64(x*acc)
	}
	return acc
}

func c18pwl(xs, ys []float64, x float64) float64 {
	n := len(xs)
	if n == 0 {
		return 0
	}
	if x <= xs[0] {
		return ys[0]
	}
	for i := 1; i < n; i++ {
		if x <= xs[i] {
			num := float64((x - xs[i-1]) * (ys[i] - ys[i-1]))
			return ys[i-1] + float64(num/(xs[i]-xs[i-1]))
		}
	}
	return ys[n-1]
}

func c18parseFn(t *toks) func(float64) float64 {
	switch kind := t.next(); kind {
	case "NONE":
		return nil
	case "POLY":
		cs := t.floats(t.int())
		return func(x float64) float64 { return c18poly(cs, x) }
	case "PWL":
		k := t.int()
		xs := t.floats(k)
		ys := t.floats(k)
		return func(x float64) float64 { return c18pwl(xs, ys, x) }
	case "POW":
		k := unhex(t.next())
		m := unhex(t.next())
		c := unhex(t.next())
		return func(x float64) float64 { return float64(k*math.Pow(x, m)) - c }
	case "SHPOW":
		k := unhex(t.next())
		r := unhex(t.next())
		p := t.int()
		return func(x float64) float64 {
			d := x - r
			acc := 1.0
			if p >= 1 {
				acc = d
				for i := 1; i < p; i++ {
					acc = float64(acc * d)
				}
			}
			return k * acc
		}
	default:
		panic("bad function kind " + kind)
	}
}

func init() {
	commands["ROOT"] = func(t *toks, w *bufio.Writer) {
		f := c18parseFn(t)
		d := c18parseFn(t)
		v := t.floats(5)
		n := t.int()
		var evals, devals []float64
		fw := func(x float64) float64 { evals = append(evals, x); return f(x) }
		var dw func(float64) float64
		if d != nil {
			dw = func(x float64) float64 { devals = append(devals, x); return d(x) }
		}
		x, delta := fn.FindRoot(fw, dw, v[0], v[1], v[2], v[3], v[4], n)
		fmt.Fprintf(w, "OK %s %s E %d", c18hex(x), c18hex(delta), len(evals))
		for _, e := range evals {
			w.WriteByte(' ')
			w.WriteString(c18hex(e))
		}
		fmt.Fprintf(w, " D %d", len(devals))
		for _, e := range devals {
			w.WriteByte(' ')
			w.WriteString(c18hex(e))
		}
		w.WriteByte('\n')
	}
	commands["PIECEWISE"] = func(t *toks, w *bufio.Writer) {
		n := t.int()
		xv := t.floats(n)
		yv := t.floats(n)
		q := unhex(t.next())
		xs := data.NewArray1DFloat64(n)
		ys := data.NewArray1DFloat64(n)
		for i := 0; i < n; i++ {
			xs.Set1(i, xv[i])
			ys.Set1(i, yv[i])
		}
		y, err := fn.Piecewise(q, xs, ys)
		if err != nil {
			fmt.Fprintln(w, "ERR")
			return
		}
		fmt.Fprintf(w, "OK %s\n", c18hex(y))
	}
}
