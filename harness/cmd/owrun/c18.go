// C18: commands that run util/fn.FindRoot and util/fn.Piecewise (library
// functions, not catalogue models) on test functions that the extracted Coq
// model can evaluate identically (same operations in the same order).
//
//			ROOT <fspec> <dspec> x0 a b tol conv n
//			    fspec := POLY k c0 .. c(k-1)      Horner  c0 + x*(c1 + x*(...))
//			           | PWL  k x0..x(k-1) y0..y(k-1)   piecewise linear, constant outside
//			           | POW  k m c               k*math.Pow(x,m) - c
//			           | SHPOW k r p              k*(x-r)^p, p a decimal integer, by repeated multiplication
//			           | PWT  k x0..x(k-1) y0..y(k-1)   fn.Piecewise(x, xs, ys), -1 on error
//			    dspec := NONE | fspec             (fn_dx; NONE = nil)
//			    floats as 16 hex digits, n decimal
//			  -> OK <x> <delta> E <ne> <eval points of fn..> D <nd> <eval points of fn_dx..>
//			     (NaN printed as "nan")  |  PANIC
//			PIECEWISE n xs.. ys.. q   -> OK <y> | ERR | PANIC
//
//		  PWLAY <xlayout> <ylayout> n xs.. ys.. q   -> as PIECEWISE; the two tables are handed to Piecewise as views
//		      of larger arrays, the way callers store them (Piecewise must not care how a table is stored):
//		      layout := P                                  plain 1-d array
//		              | COL b nsets set pad short          column `set` of a [n+pad, nsets] block, cut as the generated
//		                                                   model wrappers do: block.Slice([0,set],[n],nil) (short=1, a
//		                                                   rank-deficient view) or Slice([0,set],[n,1],nil).MustReshape([n])
//		              | COL2 b nsets set r0 pad            the same column of the row range r0.. of a taller block (slice of a slice)
//		              | COLSTR b nsets set step            every step-th row of the column: Slice([0,set],[n],[step,1])
//		              | STR b off step tail                strided view of a 1-d array: Slice([off],[n],[step])
//		              | STR2 b off1 s1 off2 s2             a stepped view of a stepped view (thinned twice)
//		      b := G (Go-backed, data.ArrayFromSliceFloat64) | C (C-style memory, cdata.NewFloat64CArray);
//		      cells that do not belong to the table hold -(1000+position)
//
//	  PWOPS T nt {<xlayout> <ylayout> n xs.. ys..}*nt OPS m op*m     long-lived table objects that are looked up and
//	      CHANGED IN PLACE between lookups: op := L t x (lookup) | SX/SY t k v (one knot through the table object)
//	      | BX/BY t k v (one knot through the array the table is a view of) | WX/WY t v.. (all knots, through the
//	      object) | PX/PY t v.. (all knots, through the parent) | CX/CY t v.. (CopyFrom)
//	    -> OK O <lookups> | <output of lookup 1> | ..
//
// Re-entrancy (the Coq model is a pure function, so the CODE's re-entrancy has to be exercised):
//
//	NEST depth <level_1> .. <level_depth>     level := <fspec> <dspec> x0 a b tol conv n s t
//	    nested solves: at parent point p (0 for level 1) the residual of level i is
//	    (f_i(x) - t_i*p) [+ s_i*y when there is a level i+1, y = the root FindRoot returns for level
//	    i+1 at parent point x].  Every activation is reported, in order of completion:
//	  -> OK T <count> | L <level> P <p> X <x> <delta> E n e.. V n v.. D n d.. | ...   (V = residual values)
//	PAR g reps seed k <item_1> .. <item_k>    item := ROOT ... | PIECEWISE ... (as above)
//	    every item is first run alone; then g goroutines run all items reps times each, each in its
//	    own shuffled order, yielding the processor inside every residual evaluation
//	  -> OK R k | <alone output 1> | .. | <alone output k> | C <runs> <mismatches> [| <item index> <concurrent output>]
package main

import (
	"bufio"
	"fmt"
	"math"
	"math/rand"
	"runtime"
	"strings"
	"sync"
	"unsafe"

	"github.com/flowmatters/openwater-core/data"
	"github.com/flowmatters/openwater-core/data/cdata"
	"github.com/flowmatters/openwater-core/util/fn"
)

func c18hex(f float64) string {
	if f != f {
		return "nan"
	}
	return hex(f)
}

func c18poly(cs []float64, x float64) float64 {
	if len(cs) == 0 {
		return 0
	}
	acc := cs[len(cs)-1]
	for i := len(cs) - 2; i >= 0; i-- {
		acc = cs[i] + float64(x*acc)
	}
	return acc
}

func c18pwl(xs, ys []float64, x float64) float64 {
	n := len(xs)
	if n == 0 {
		return 0
	}
	if x <= xs[0] {
		return ys[0]
	}
	for i := 1; i < n; i++ {
		if x <= xs[i] {
			num := float64((x - xs[i-1]) * (ys[i] - ys[i-1]))
			return ys[i-1] + float64(num/(xs[i]-xs[i-1]))
		}
	}
	return ys[n-1]
}

func c18parseFn(t *toks) func(float64) float64 {
	switch kind := t.next(); kind {
	case "NONE":
		return nil
	case "POLY":
		cs := t.floats(t.int())
		return func(x float64) float64 { return c18poly(cs, x) }
	case "PWL":
		k := t.int()
		xs := t.floats(k)
		ys := t.floats(k)
		return func(x float64) float64 { return c18pwl(xs, ys, x) }
	case "POW":
		k := unhex(t.next())
		m := unhex(t.next())
		c := unhex(t.next())
		return func(x float64) float64 { return float64(k*math.Pow(x, m)) - c }
	case "SHPOW":
		k := unhex(t.next())
		r := unhex(t.next())
		p := t.int()
		return func(x float64) float64 {
			d := x - r
			acc := 1.0
			if p >= 1 {
				acc = d
				for i := 1; i < p; i++ {
					acc = float64(acc * d)
				}
			}
			return k * acc
		}
	case "DIV":
		// quotient of two functions (IEEE: x/0 = +-Inf, 0/0 = NaN)
		num := c18parseFn(t)
		den := c18parseFn(t)
		return func(x float64) float64 { return num(x) / den(x) }
	case "PWT":
		// a table lookup through the library's own Piecewise (error -> -1)
		k := t.int()
		xv := t.floats(k)
		yv := t.floats(k)
		xs := data.NewArray1DFloat64(k)
		ys := data.NewArray1DFloat64(k)
		for i := 0; i < k; i++ {
			xs.Set1(i, xv[i])
			ys.Set1(i, yv[i])
		}
		return func(x float64) float64 {
			y, err := fn.Piecewise(x, xs, ys)
			if err != nil {
				return -1
			}
			return y
		}
	default:
		panic("bad function kind " + kind)
	}
}

func c18floats(b *strings.Builder, tag string, v []float64) {
	fmt.Fprintf(b, " %s %d", tag, len(v))
	for _, e := range v {
		b.WriteByte(' ')
		b.WriteString(c18hex(e))
	}
}

// c18parseRoot parses "<fspec> <dspec> x0 a b tol conv n" into a re-runnable solve.
func c18parseRoot(t *toks) func(yield bool) string {
	f := c18parseFn(t)
	d := c18parseFn(t)
	v := t.floats(5)
	n := t.int()
	return func(yield bool) (out string) {
		defer func() {
			if r := recover(); r != nil {
				out = "PANIC"
			}
		}()
		var evals, devals []float64
		fw := func(x float64) float64 {
			evals = append(evals, x)
			if yield {
				runtime.Gosched()
			}
			return f(x)
		}
		var dw func(float64) float64
		if d != nil {
			dw = func(x float64) float64 { devals = append(devals, x); return d(x) }
		}
		x, delta := fn.FindRoot(fw, dw, v[0], v[1], v[2], v[3], v[4], n)
		var b strings.Builder
		fmt.Fprintf(&b, "OK %s %s", c18hex(x), c18hex(delta))
		c18floats(&b, "E", evals)
		c18floats(&b, "D", devals)
		return b.String()
	}
}

// c18base wraps a flat buffer (filled by position, independently of the data package's index arithmetic)
func c18base(backing string, buf []float64, dims []int) data.NDFloat64 {
	if backing == "C" {
		return cdata.NewFloat64CArray(unsafe.Pointer(&buf[0]), dims)
	}
	return data.ArrayFromSliceFloat64(buf, dims)
}

func c18filler(n int) []float64 {
	buf := make([]float64, n)
	for i := range buf {
		buf[i] = -(1000 + float64(i))
	}
	return buf
}

// c18tab is a table handed to Piecewise as some view: the view itself, the array it is a view of, the index of
// knot k in that parent, and the buffer (kept alive for C-style memory).
type c18tab struct {
	view   data.ND1Float64
	parent data.NDFloat64
	pidx   func(k int) []int
	buf    []float64
}

// c18layout parses one layout and returns the table as the view it describes.
func c18layout(t *toks, vals []float64) c18tab {
	n := len(vals)
	kind := t.next()
	if kind == "P" {
		a := data.NewArray1DFloat64(n)
		for i, v := range vals {
			a.Set1(i, v)
		}
		return c18tab{a, a, func(k int) []int { return []int{k} }, nil}
	}
	b := t.next()
	switch kind {
	case "COL":
		nsets, set, pad, short := t.int(), t.int(), t.int(), t.int()
		buf := c18filler((n + pad) * nsets)
		for k, v := range vals {
			buf[k*nsets+set] = v
		}
		base := c18base(b, buf, []int{n + pad, nsets})
		pidx := func(k int) []int { return []int{k, set} }
		if short == 1 {
			return c18tab{base.Slice([]int{0, set}, []int{n}, nil).(data.ND1Float64), base, pidx, buf}
		}
		return c18tab{base.Slice([]int{0, set}, []int{n, 1}, nil).MustReshape([]int{n}).(data.ND1Float64), base, pidx, buf}
	case "COL2":
		nsets, set, r0, pad := t.int(), t.int(), t.int(), t.int()
		buf := c18filler((r0 + n + pad) * nsets)
		for k, v := range vals {
			buf[(r0+k)*nsets+set] = v
		}
		base := c18base(b, buf, []int{r0 + n + pad, nsets})
		rows := base.Slice([]int{r0, 0}, []int{n, nsets}, nil)
		return c18tab{rows.Slice([]int{0, set}, []int{n}, nil).(data.ND1Float64), base,
			func(k int) []int { return []int{r0 + k, set} }, buf}
	case "COLSTR":
		nsets, set, step := t.int(), t.int(), t.int()
		rows := (n-1)*step + 1
		buf := c18filler(rows * nsets)
		for k, v := range vals {
			buf[k*step*nsets+set] = v
		}
		base := c18base(b, buf, []int{rows, nsets})
		return c18tab{base.Slice([]int{0, set}, []int{n}, []int{step, 1}).(data.ND1Float64), base,
			func(k int) []int { return []int{k * step, set} }, buf}
	case "STR":
		off, step, tail := t.int(), t.int(), t.int()
		buf := c18filler(off + (n-1)*step + 1 + tail)
		for k, v := range vals {
			buf[off+k*step] = v
		}
		base := c18base(b, buf, []int{len(buf)})
		return c18tab{base.Slice([]int{off}, []int{n}, []int{step}).(data.ND1Float64), base,
			func(k int) []int { return []int{off + k*step} }, buf}
	case "STR2":
		off1, s1, off2, s2 := t.int(), t.int(), t.int(), t.int()
		m := off2 + (n-1)*s2 + 1
		buf := c18filler(off1 + (m-1)*s1 + 1)
		for k, v := range vals {
			buf[off1+(off2+k*s2)*s1] = v
		}
		base := c18base(b, buf, []int{len(buf)})
		v1 := base.Slice([]int{off1}, []int{m}, []int{s1})
		return c18tab{v1.Slice([]int{off2}, []int{n}, []int{s2}).(data.ND1Float64), base,
			func(k int) []int { return []int{off1 + (off2+k*s2)*s1} }, buf}
	default:
		panic("bad layout " + kind)
	}
}

// c18skipLayout advances over one layout.
func c18skipLayout(t *toks) {
	switch t.next() {
	case "P":
	case "COL", "COL2", "STR2":
		t.i += 5
	case "COLSTR", "STR":
		t.i += 4
	default:
		panic("bad layout")
	}
}

// c18lookup is one Piecewise call reported as OK <y> | ERR | PANIC.
func c18lookup(q float64, xs, ys data.ND1Float64) (out string) {
	defer func() {
		if r := recover(); r != nil {
			out = "PANIC"
		}
	}()
	y, err := fn.Piecewise(q, xs, ys)
	if err != nil {
		return "ERR"
	}
	return "OK " + c18hex(y)
}

func c18parsePiecewise(t *toks) func(yield bool) string {
	n := t.int()
	xv := t.floats(n)
	yv := t.floats(n)
	q := unhex(t.next())
	return func(yield bool) (out string) {
		defer func() {
			if r := recover(); r != nil {
				out = "PANIC"
			}
		}()
		xs := data.NewArray1DFloat64(n)
		ys := data.NewArray1DFloat64(n)
		for i := 0; i < n; i++ {
			xs.Set1(i, xv[i])
			ys.Set1(i, yv[i])
		}
		if yield {
			runtime.Gosched()
		}
		y, err := fn.Piecewise(q, xs, ys)
		if err != nil {
			return "ERR"
		}
		return "OK " + c18hex(y)
	}
}

type c18level struct {
	f, d                func(float64) float64
	x0, a, b, tol, conv float64
	n                   int
	s, t                float64
}

// c18nest runs level i at parent point p and appends one record per activation (completion order).
func c18nest(levels []c18level, i int, p float64, trace *[]string) float64 {
	L := levels[i]
	var evals, vals, devals []float64
	fw := func(x float64) float64 {
		evals = append(evals, x)
		v := L.f(x) - float64(L.t*p)
		if i+1 < len(levels) {
			y := c18nest(levels, i+1, x, trace)
			v = v + float64(L.s*y)
		}
		vals = append(vals, v)
		return v
	}
	var dw func(float64) float64
	if L.d != nil {
		dw = func(x float64) float64 { devals = append(devals, x); return L.d(x) }
	}
	x, delta := fn.FindRoot(fw, dw, L.x0, L.a, L.b, L.tol, L.conv, L.n)
	var b strings.Builder
	fmt.Fprintf(&b, "L %d P %s X %s %s", i+1, c18hex(p), c18hex(x), c18hex(delta))
	c18floats(&b, "E", evals)
	c18floats(&b, "V", vals)
	c18floats(&b, "D", devals)
	*trace = append(*trace, b.String())
	return x
}

func init() {
	commands["ROOT"] = func(t *toks, w *bufio.Writer) {
		fmt.Fprintln(w, c18parseRoot(t)(false))
	}
	commands["PIECEWISE"] = func(t *toks, w *bufio.Writer) {
		fmt.Fprintln(w, c18parsePiecewise(t)(false))
	}
	commands["PWLAY"] = func(t *toks, w *bufio.Writer) {
		// the layouts come first but need the values: remember where they start, read the table, then build
		start := t.i
		c18skipLayout(t)
		ystart := t.i
		c18skipLayout(t)
		n := t.int()
		xv := t.floats(n)
		yv := t.floats(n)
		q := unhex(t.next())
		xs := c18layout(&toks{t: t.t, i: start}, xv)
		ys := c18layout(&toks{t: t.t, i: ystart}, yv)
		fmt.Fprintln(w, c18lookup(q, xs.view, ys.view))
		runtime.KeepAlive(xs.buf)
		runtime.KeepAlive(ys.buf)
	}
	commands["PWOPS"] = func(t *toks, w *bufio.Writer) {
		t.expect("T")
		nt := t.int()
		xt := make([]c18tab, nt)
		yt := make([]c18tab, nt)
		for i := 0; i < nt; i++ {
			start := t.i
			c18skipLayout(t)
			ystart := t.i
			c18skipLayout(t)
			n := t.int()
			xv := t.floats(n)
			yv := t.floats(n)
			xt[i] = c18layout(&toks{t: t.t, i: start}, xv)
			yt[i] = c18layout(&toks{t: t.t, i: ystart}, yv)
		}
		t.expect("OPS")
		m := t.int()
		var outs []string
		for o := 0; o < m; o++ {
			op := t.next()
			ti := t.int()
			tab := xt[ti]
			if len(op) == 2 && op[1] == 'Y' {
				tab = yt[ti]
			}
			switch op {
			case "L":
				outs = append(outs, c18lookup(unhex(t.next()), xt[ti].view, yt[ti].view))
			case "SX", "SY": // one knot, through the table object
				k := t.int()
				tab.view.Set([]int{k}, unhex(t.next()))
			case "BX", "BY": // one knot, through the array the table is a view of
				k := t.int()
				tab.parent.Set(tab.pidx(k), unhex(t.next()))
			case "WX", "WY": // the whole table, knot by knot through the table object
				for k, v := range t.floats(tab.view.Len1()) {
					tab.view.Set([]int{k}, v)
				}
			case "PX", "PY": // the whole table, through the parent
				for k, v := range t.floats(tab.view.Len1()) {
					tab.parent.Set(tab.pidx(k), v)
				}
			case "CX", "CY": // the whole table with CopyFrom
				vals := t.floats(tab.view.Len1())
				src := data.NewArray1DFloat64(len(vals))
				for k, v := range vals {
					src.Set1(k, v)
				}
				tab.view.CopyFrom(src)
			default:
				panic("bad PWOPS op " + op)
			}
		}
		fmt.Fprintf(w, "OK O %d | %s\n", len(outs), strings.Join(outs, " | "))
		for i := range xt {
			runtime.KeepAlive(xt[i].buf)
			runtime.KeepAlive(yt[i].buf)
		}
	}
	commands["NEST"] = func(t *toks, w *bufio.Writer) {
		depth := t.int()
		levels := make([]c18level, depth)
		for i := range levels {
			f := c18parseFn(t)
			d := c18parseFn(t)
			v := t.floats(5)
			n := t.int()
			st := t.floats(2)
			levels[i] = c18level{f, d, v[0], v[1], v[2], v[3], v[4], n, st[0], st[1]}
		}
		var trace []string
		c18nest(levels, 0, 0, &trace) // a panic (inner "Invalid range") propagates to main's recover
		fmt.Fprintf(w, "OK T %d | %s\n", len(trace), strings.Join(trace, " | "))
	}
	commands["SEQ"] = func(t *toks, w *bufio.Writer) {
		k := t.int()
		items := make([]func(bool) string, k)
		for i := range items {
			switch kind := t.next(); kind {
			case "ROOT":
				items[i] = c18parseRoot(t)
			case "PIECEWISE":
				items[i] = c18parsePiecewise(t)
			default:
				panic("bad SEQ item " + kind)
			}
		}
		t.expect("ORDER")
		m := t.int()
		outs := make([]string, m)
		for p := 0; p < m; p++ {
			outs[p] = items[t.int()](false)
		}
		fmt.Fprintf(w, "OK S %d | %s\n", m, strings.Join(outs, " | "))
	}
	commands["PAR"] = func(t *toks, w *bufio.Writer) {
		g := t.int()
		reps := t.int()
		seed := int64(t.int())
		k := t.int()
		items := make([]func(bool) string, k)
		for i := range items {
			switch kind := t.next(); kind {
			case "ROOT":
				items[i] = c18parseRoot(t)
			case "PIECEWISE":
				items[i] = c18parsePiecewise(t)
			default:
				panic("bad PAR item " + kind)
			}
		}
		alone := make([]string, k)
		for i, it := range items {
			alone[i] = it(false)
		}
		type mism struct {
			idx int
			out string
		}
		var mu sync.Mutex
		var first *mism
		runs, bad := 0, 0
		var wg sync.WaitGroup
		for gi := 0; gi < g; gi++ {
			wg.Add(1)
			go func(gi int) {
				defer wg.Done()
				rng := rand.New(rand.NewSource(seed*1000 + int64(gi)))
				for r := 0; r < reps; r++ {
					for _, i := range rng.Perm(k) {
						out := items[i](true)
						mu.Lock()
						runs++
						if out != alone[i] {
							bad++
							if first == nil {
								first = &mism{i, out}
							}
						}
						mu.Unlock()
					}
				}
			}(gi)
		}
		wg.Wait()
		fmt.Fprintf(w, "OK R %d | %s | C %d %d", k, strings.Join(alone, " | "), runs, bad)
		if first != nil {
			fmt.Fprintf(w, " | %d %s", first.idx, first.out)
		}
		w.WriteByte('\n')
	}
}
