// C10/C15: INIT <Model> P n hex..  ->  OK S n hex..   (model.InitialiseStates(1) for one cell),
// so that the checks start every run from the state vector the model itself produces.
package main

import (
	"bufio"
	"fmt"

	"github.com/flowmatters/openwater-core/data"
	"github.com/flowmatters/openwater-core/sim"
)

func init() {
	commands["INIT"] = func(t *toks, w *bufio.Writer) {
		factory := sim.Catalog[t.next()]
		if factory == nil {
			fmt.Fprintln(w, "NOMODEL")
			return
		}
		t.expect("P")
		ps := t.floats(t.int())
		model := factory()
		params := data.NewArray2DFloat64(len(ps), 1)
		for i, v := range ps {
			params.Set2(i, 0, v)
		}
		dims := model.FindDimensions(params)
		model.InitialiseDimensions(dims)
		model.ApplyParameters(params)
		st := model.InitialiseStates(1)
		n := st.Len(1)
		fmt.Fprintf(w, "OK S %d", n)
		for i := 0; i < n; i++ {
			w.WriteByte(' ')
			w.WriteString(hex(st.Get2(0, i)))
		}
		w.WriteByte('\n')
	}
}
