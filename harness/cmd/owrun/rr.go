// C10/C15: INIT <Model> P n hex..  ->  OK S n hex..   (model.InitialiseStates(1) for one cell),
// so that the checks start every run from the state vector the model itself produces.
package main

import (
	"bufio"
	"fmt"

	"github.com/flowmatters/openwater-core/data"
	"github.com/flowmatters/openwater-core/sim"
)

func init() {
	commands["INIT"] = func(t *toks, w *bufio.Writer) {
		factory := sim.Catalog[t.next()]
		if factory == nil {
			fmt.Fprintln(w, "NOMODEL")
			return
		}
		t.expect("P")
		ps := t.floats(t.int())
		model := factory()
		params := data.NewArray2DFloat64(len(ps), 1)
		for i, v := range ps {
			params.Set2(i, 0, v)
		}
		dims := model.FindDimensions(params)
		model.InitialiseDimensions(dims)
		model.ApplyParameters(params)
		st := model.InitialiseStates(1)
		n := st.Len(1)
		fmt.Fprintf(w, "OK S %d", n)
		for i := 0; i < n; i++ {
			w.WriteByte(' ')
			w.WriteString(hex(st.Get2(0, i)))
		}
		w.WriteByte('\n')
	}
}

// SACTRACE P 22 hex.. S 6 hex.. I 2 len hex..  ->  OK E ratioNeg adimcOver fracpOver O 5 len hex.. S 6 hex..
// (first time step of each event, -1 = never).  Runs the copy of sacramento() in rr_sactrace.go.
func init() {
	commands["SACTRACE"] = func(t *toks, w *bufio.Writer) {
		t.expect("P")
		ps := t.floats(t.int())
		t.expect("S")
		ss := t.floats(t.int())
		t.expect("I")
		k := t.int()
		length := t.int()
		if !sacTraceAvailable {
			fmt.Fprintln(w, "UNAVAILABLE")
			return
		}
		if len(ps) != 22 || len(ss) < 6 || k != 2 {
			fmt.Fprintln(w, "BADCASE")
			return
		}
		rain := t.floats(length)
		pet := t.floats(length)
		outs := make([][]float64, 5)
		for i := range outs {
			outs[i] = make([]float64, length)
		}
		ev := sacEvents{-1, -1, -1, -1}
		s0, s1, s2, s3, s4, s5 := sacTrace(rain, pet, ss[0], ss[1], ss[2], ss[3], ss[4], ss[5],
			ps[0], ps[1], ps[2], ps[3], ps[4], ps[5], ps[6], ps[7], ps[8], ps[9], ps[10], ps[11], ps[12], ps[13],
			ps[14], ps[15], ps[16], ps[17], ps[18], ps[19], ps[20], ps[21],
			outs[0], outs[1], outs[2], outs[3], outs[4], &ev)
		fmt.Fprintf(w, "OK E %d %d %d %d O 5 %d", ev.ratioNeg, ev.adimcOver, ev.fracpOver, ev.preGuard, length)
		for i := 0; i < 5; i++ {
			for j := 0; j < length; j++ {
				w.WriteByte(' ')
				w.WriteString(hex(outs[i][j]))
			}
		}
		fmt.Fprintf(w, " S 6 %s %s %s %s %s %s\n", hex(s0), hex(s1), hex(s2), hex(s3), hex(s4), hex(s5))
	}
}
