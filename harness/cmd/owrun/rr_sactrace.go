// GENERATED on every run of tools/c10.py by rrlib.gen_sactrace() from the CURRENT
// /repo/models/rr/sacramento.go: func sacramento is copied with its arithmetic unchanged; only the
// array accessors are replaced by slices and three event detectors are added (first time step at
// which a quantity leaves the range that the guards of the original Fortran code enforce:
// ratio < -1 (the Fortran clamps ratio at 0; below -1 the update of adimc is expanding),
// adimc > uztwm+lztwm, fracp > 1).  SACTRACE reports the events together with the
// outputs; the check uses them only to classify a failure that the C10 oracle has already found,
// and only if those outputs are bit-identical to what sim.Catalog["Sacramento"] produced.
package main

import "math"

var _ = math.Min

const sacTraceAvailable = true
const sacPdn20 = 5.08
const sacPdnor = 25.4
const sacNunit = 5
const sacVerySmall = 0.0

type sacEvents struct{ ratioNeg, adimcOver, fracpOver, preGuard int }

func sacSumSlice(s []float64) (sum float64) {
	sum = 0.0
	for _, v := range s {
		sum += v
	}
	return
}

func sacMakeUnitHydrograph(uh1, uh2, uh3, uh4, uh5 float64) []float64 {
	base := []float64{uh1, uh2, uh3, uh4, uh5}
	sum := sacSumSlice(base)
	for i := 0; i < sacNunit; i++ {
		base[i] = base[i] / sum
	}
	return base
}

func sacTrace(rainfall, pet []float64,
	uprTensionWater, uprFreeWater, lwrTensionWater,
	lwrPrimaryFreeWater, lwrSupplFreeWater, additionalImperviousStore float64,
	lzpk, lzsk, uzk, uztwm, uzfwm, lztwm, lzfsm, lzfpm, pfree, rexp,
	zperc, side, ssout, pctim, adimp, sarva, rserv,
	uh1, uh2, uh3, uh4, uh5 float64,
	actualET, runoff, imperviousRunoff, surfaceRunoff, baseflow []float64, ev *sacEvents) (
	float64, // final uprTensionWater,
	float64, // final uprFreeWater,
	float64, // final lwrTensionWater,
	float64, // final lwrPrimaryFreeWater
	float64, // final lwrSupplFreeWater
	float64) { // final additionalImperviousStore
	nDays := len(rainfall)

	// percMax := pbase * (1 + zperc)
	// lowerMax := (1+side)*(lzfpm+lzfsm) + lztwm
	// uhTotal := uh1 + uh2 + uh3 + uh4 + uh5
	// uh1 /= uhTotal
	// uh2 /= uhTotal
	// uh3 /= uhTotal
	// uh4 /= uhTotal
	// uh5 /= uhTotal
	qq := make([]float64, sacNunit)
	dro := sacMakeUnitHydrograph(uh1, uh2, uh3, uh4, uh5)

	saved := rserv * (lzfpm + lzfsm)
	alzfsm := lzfsm * (1. + side)
	alzfpm := lzfpm * (1. + side)
	pbase := (alzfsm*lzsk + alzfpm*lzpk) // * (1 + side)

	alzfsc := lwrSupplFreeWater * (1. + side)
	alzfpc := lwrPrimaryFreeWater * (1. + side)
	for timestep := 0; timestep < nDays; timestep++ {
		// prevUprTensionWater := uprTensionWater
		// prevUprFreeWater := uprFreeWater
		// prevLwrTensionWater := lwrTensionWater
		// prevLwrPrimaryFreeWater := lwrPrimaryFreeWater
		// prevLwrSuppFreeWater := lwrSupplFreeWater
		// prevAddImpStore := additionalImperviousStore
		// prevHydrographStore := sacSumSlice(qq)
		evapt := pet[timestep]
		pliq := rainfall[timestep]

		//     Determine evaporation from upper zone tension water store
		e1 := 0.0
		if uztwm > sacVerySmall {
			e1 = evapt * uprTensionWater / uztwm
		}

		//     Determine evaporation from free water surface
		e2 := 0.0
		if uprTensionWater < e1 {
			e1 = uprTensionWater
			uprTensionWater = 0.
			e2 = math.Min(evapt-e1, uprFreeWater)
			uprFreeWater = uprFreeWater - e2
		} else {
			uprTensionWater = uprTensionWater - e1
		}

		//     If the upper zone free water ratio exceeded the upper tension zone
		//     content ratio, then transfer the free water into tension
		a := 1.0
		if uztwm > sacVerySmall {
			//      if( uztwm > tiny(uztwm) ) then
			a = uprTensionWater / uztwm
		}

		b := 1.0
		if uzfwm > sacVerySmall {
			//  //!REB  This should be > 0.0 as it is the
			//                                      Upper zone free water capacity
			b = uprFreeWater / uzfwm
		}

		if a < b {
			a = (uprTensionWater + uprFreeWater) / (uztwm + uzfwm)
			uprTensionWater = uztwm * a
			uprFreeWater = uzfwm * a
		}

		//     Evaporation from ADIMP area and Lower zone tension water
		e3 := 0.0
		e5 := 0.0
		if (e1+uprTensionWater > additionalImperviousStore || evapt > uztwm+lztwm) && ev.preGuard < 0 {
			ev.preGuard = timestep
		}
		if uztwm+lztwm > sacVerySmall {
			//      if( uztwm+lztwm > tiny(uztwm) ) then
			e3 = math.Min((evapt-e1-e2)*lwrTensionWater/(uztwm+lztwm), lwrTensionWater)
			e5 = math.Min(e1+(evapt-e1-e2)*(additionalImperviousStore-e1-uprTensionWater)/(uztwm+lztwm), additionalImperviousStore)
		}

		//     Compute the transpiration loss from the lower zone tension
		lwrTensionWater = lwrTensionWater - e3
		//     Adjust the impervious area store
		additionalImperviousStore = additionalImperviousStore - e5
		e1 = e1 * (1 - adimp - pctim)
		e2 = e2 * (1 - adimp - pctim)
		e3 = e3 * (1 - adimp - pctim)
		e5 = e5 * adimp

		//     Resupply the lower zone tension with water from the lower zone
		//     free, if more water is available there.
		if lztwm > sacVerySmall {
			//      if( lztwm > tiny(lztwm) ) then
			a = lwrTensionWater / lztwm
		} else {
			a = 1.
		}

		if alzfpm+alzfsm-saved+lztwm > sacVerySmall {
			//      if( alzfpm+alzfsm-saved+lztwm > tiny(lztwm) ) then
			b = (alzfpc + alzfsc - saved + lwrTensionWater) / (alzfpm + alzfsm - saved + lztwm)
		} else {
			b = 1.
		}
		if a < b {
			del := (b - a) * lztwm
			//       Transfer water from the lower zone secondary free water to lower zone
			//       tension water store
			lwrTensionWater = lwrTensionWater + del
			alzfsc = alzfsc - del
			if alzfsc < 0 {
				//         Transfer primary free water if secondary free water is inadequate
				alzfpc = alzfpc + alzfsc
				alzfsc = 0.
			}
		}

		//     Runoff from the impervious or water covered area
		roimp := pliq * pctim

		//     Reduce the rain by the amount of upper zone tension water deficiency
		pav := pliq + uprTensionWater - uztwm
		if pav < 0 {
			//       Fill the upper zone tension water as much as rain permits
			additionalImperviousStore = additionalImperviousStore + pliq
			uprTensionWater = uprTensionWater + pliq
			pav = 0.
		} else {

			additionalImperviousStore = additionalImperviousStore + uztwm - uprTensionWater
			uprTensionWater = uztwm
		}

		//     Determine the number of increments
		var adj float64
		var itime int

		if pav <= sacPdn20 {
			adj = 1.
			itime = 2
		} else {
			if pav < sacPdnor {
				//         Effective rainfall in a period is assumed to be half of the
				//         period length for rain equal to the normal rainy period
				adj = 0.5 * math.Sqrt(pav/sacPdnor)
			} else {
				adj = 1.0 - 0.5*sacPdnor/pav
			}
			itime = 1
		}

		var duz float64

		flobf := 0.
		flosf := 0.
		floin := 0.
		hpl := alzfpm / (alzfpm + alzfsm)
		for ii := itime; ii <= 2; ii++ {
			ninc := int(math.Floor((uprFreeWater*adj+pav)*0.2)) + 1
			dinc := 1. / float64(ninc)
			pinc := pav * dinc
			dinc = dinc * adj
			dlzp := 0.0
			dlzs := 0.0

			if ninc == 1 && adj >= 1.0 {
				duz = uzk
				dlzp = lzpk // TODO confirm local variable
				dlzs = lzsk
			} else {
				if uzk < 1. {
					duz = 1. - math.Pow(1.-uzk, dinc)
				} else {
					duz = 1.0
				}

				if lzpk < 1. {
					dlzp = 1. - math.Pow(1.-lzpk, dinc)
				} else {
					dlzp = 1.0
				}

				if lzsk < 1. {
					dlzs = 1. - math.Pow(1.-lzsk, dinc)
				} else {
					dlzs = 1.0
				}
			}

			//       Drainage and percolation loop
			for inc := 1; inc <= ninc; inc++ {
				ratio := (additionalImperviousStore - uprTensionWater) / lztwm
				if ratio < -1 && ev.ratioNeg < 0 {
					ev.ratioNeg = timestep
				}
				addro := pinc * ratio * ratio

				//         Compute the baseflow from the lower zone
				//          bf= alzfpc*dlzp
				bf := 0.0
				if alzfpc > sacVerySmall {
					//          if( alzfpc > tiny(alzfpc) ) then //!REB Epsilon*Real should= 0.0
					bf = alzfpc * dlzp //!REB this is a strange problem
				} else { //!REB
					alzfpc = 0. //!REB
					bf = 0.     //!REB
				} //!REB
				flobf = flobf + bf
				alzfpc = alzfpc - bf
				//          bf= alzfsc*dlzs
				if alzfsc > sacVerySmall { //!REB
					//          if( alzfsc > tiny(alzfsc) ) then //!REB Epsilon*Real should= 0.0
					bf = alzfsc * dlzs //!REB this is also a strange problem
				} else { //!REB
					alzfsc = 0. //!REB
					bf = 0.     //!REB
				} //!REB
				alzfsc = alzfsc - bf
				flobf = flobf + bf

				//         Adjust the upper zone for percolation and interflow
				if uprFreeWater > sacVerySmall { //!REB
					//           Determine percolation from the upper zone free water
					//           limited to available water and lower zone air space
					lzair := lztwm - lwrTensionWater + alzfsm - alzfsc + alzfpm - alzfpc
					perc := 0.0
					if lzair > sacVerySmall {
						//            if( lzair > tiny(lzair) ) then
						perc = (pbase * dinc * uprFreeWater) / uzfwm
						perc = math.Min(lzair, math.Min(uprFreeWater,
							perc*(1.+(zperc*math.Pow(1.-(alzfpc+alzfsc+lwrTensionWater)/(alzfpm+alzfsm+lztwm), rexp)))))
						uprFreeWater = uprFreeWater - perc
					}

					//           Compute the interflow
					del := duz * uprFreeWater
					floin = floin + del
					uprFreeWater = uprFreeWater - del

					//           Distribute water to lower zone tension and free water stores
					perctw := math.Min(perc*(1.-pfree), lztwm-lwrTensionWater)
					percfw := perc - perctw
					//           Shift any excess lower zone free water percolation to the
					//           lower zone tension water store
					lzair = alzfsm - alzfsc + alzfpm - alzfpc
					if percfw > lzair {
						perctw = perctw + percfw - lzair
						percfw = lzair
					}
					lwrTensionWater = lwrTensionWater + perctw

					//           Distribute water between LZ free water supplemental and primary
					if percfw > sacVerySmall {
						//            if( percfw > tiny(percfw) ) then
						ratlp := 1. - alzfpc/alzfpm
						ratls := 1. - alzfsc/alzfsm
						if hpl*(ratlp+ratlp)/(ratlp+ratls) > 1 && ev.fracpOver < 0 {
							ev.fracpOver = timestep
						}
						percs := math.Min(alzfsm-alzfsc,
							percfw*(1.-hpl*(ratlp+ratlp)/(ratlp+ratls)))
						alzfsc = alzfsc + percs
						//             Check for spill from supplemental to primary
						if alzfsc > alzfsm {
							percs = percs - alzfsc + alzfsm
							alzfsc = alzfsm
						}
						alzfpc = alzfpc + percfw - percs
						//             Check for spill from primary to supplemental
						if alzfpc > alzfpm {
							alzfsc = alzfsc + alzfpc - alzfpm
							alzfpc = alzfpm
						}
					}
				}

				//         Fill upper zone free water with tension water spill
				if pinc > sacVerySmall {
					//          if( pinc > tiny(pinc) ) then
					pav = pinc
					if pav-uzfwm+uprFreeWater <= 0 {
						uprFreeWater = uprFreeWater + pav
					} else {
						pav = pav - uzfwm + uprFreeWater
						uprFreeWater = uzfwm
						flosf = flosf + pav
						addro = addro + pav*(1.-addro/pinc)
					}
				}
				additionalImperviousStore = additionalImperviousStore + pinc - addro
				if additionalImperviousStore > uztwm+lztwm && ev.adimcOver < 0 {
					ev.adimcOver = timestep
				}
				roimp = roimp + addro*adimp
			}
			adj = 1. - adj
			pav = 0.
		}

		//     Compute the storage volumes, runoff components and evaporation
		//     Note evapotranspiration losses from the water surface and
		//     riparian vegetation areas are computed in stn7a
		flosf = flosf * (1. - pctim - adimp)
		floin = floin * (1. - pctim - adimp)
		flobf = flobf * (1. - pctim - adimp)

		lwrSupplFreeWater = alzfsc / (1. + side)
		lwrPrimaryFreeWater = alzfpc / (1. + side)
		qq[0] = flosf + roimp + floin

		//           Adjust flow for unit hydrograph
		flwsf := 0.
		for j := 0; j < sacNunit; j++ {
			flwsf = flwsf + qq[j]*dro[j]
		}
		for k := (sacNunit - 1); k > 0; k-- {
			qq[k] = qq[k-1]
		}

		flwbf := flobf / (1. + side)
		if flwbf < 0. {
			flwbf = 0.
		}
		baseflowFraction := 0.0

		//           Subtract losses from the total channel flow
		qf := flwbf + flwsf

		if qf > 0.0 {
			baseflowFraction = flwbf / qf
		}

		qf = math.Max(0., qf-ssout)

		e4 := math.Min(evapt*sarva, qf)
		qf = qf - e4

		//           Route the flows if required

		// if NrOut > 0 {
		// 	volsum := qf * SqMi
		// 	for j := 0; j < Nrout; j++ {
		// 		qnow[j] = math.Min(Volsum, Volum(j))
		// 		volsum = math.Max(0., volsum-Volum(j))
		// 	}
		// 	qnow(Nrout + 1) = volsum

		// 	//             Set qold to qnow on the first time step
		// 	if qold(1) < 0.0 {
		// 		for j := 0; j <= Nrout; j++ {
		// 			qold(j) = qnow(j)
		// 		}
		// 	}

		// 	//             Route the flows
		// 	qf = 0.
		// 	for j = 0; j <= Nrout; j++ {
		// 		qold(j) = qold(j)*(1.0-RCoef(j)) + qnow(j)*RCoef(j)
		// 		qf = qf + qold(j)/SqMi
		// 	}
		// }

		// if qf*SqMi < 0.001 {
		// 	qf = 0.
		// }
		// flwch = qf
		// if Imprt > 0 {
		// 	qf = qf + rryy(jt, 3)/SqMi
		// }

		bf := baseflowFraction * qf
		imperviousRunoff[timestep] = roimp
		surfaceRunoff[timestep] = qf-bf
		baseflow[timestep] = bf
		runoff[timestep] = qf
		actualET[timestep] = e1+e2+e3+e4+e5
		//hydrographStore := sacSumSlice(qq)

		// deltaS := ((uprTensionWater-prevUprTensionWater)+
		// 	(uprFreeWater-prevUprFreeWater)+
		// 	(lwrTensionWater-prevLwrTensionWater)+
		// 	(lwrPrimaryFreeWater-prevLwrPrimaryFreeWater)+
		// 	(lwrSupplFreeWater-prevLwrSuppFreeWater)+
		// 	(additionalImperviousStore-prevAddImpStore))*(1.0-pctim) +
		// 	(hydrographStore - prevHydrographStore)
		//aet := e1 + e2 + e3 + e4 + e5

		//baseFlowLoss := ((alzfsc - lwrSupplFreeWater) + (alzfpc - lwrPrimaryFreeWater) + (flobf - flwbf)) * (1.0 - pctim)
		//massBalance := pliq - aet - qf - deltaS - baseFlowLoss - math.Min(ssout, flwbf+flwsf)
		// if math.Abs(massBalance) > sacVerySmall {
		// 	if !mbError {
		// 		mbError = true
		// 	}
		// }
	}

	return uprTensionWater, uprFreeWater, lwrTensionWater,
		lwrPrimaryFreeWater, lwrSupplFreeWater,
		additionalImperviousStore
}
