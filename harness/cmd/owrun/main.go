// owrun executes kernel-level and vectorised model cases on the real
// openwater-core code (through sim.Catalog) and prints results as IEEE bit
// patterns, in the same line format as the extracted Coq model's driver.
package main

import (
	"bufio"
	"fmt"
	"math"
	"os"
	"strconv"
	"strings"

	"github.com/flowmatters/openwater-core/data"
	_ "github.com/flowmatters/openwater-core/models"
	"github.com/flowmatters/openwater-core/sim"
)

func unhex(s string) float64 {
	u, err := strconv.ParseUint(s, 16, 64)
	if err != nil {
		panic(err)
	}
	return math.Float64frombits(u)
}

func hex(f float64) string { return fmt.Sprintf("%016x", math.Float64bits(f)) }

type toks struct {
	t []string
	i int
}

func (t *toks) next() string { s := t.t[t.i]; t.i++; return s }
func (t *toks) int() int     { n, _ := strconv.Atoi(t.next()); return n }
func (t *toks) expect(s string) {
	if g := t.next(); g != s {
		panic("expected " + s + " got " + g)
	}
}
func (t *toks) floats(n int) []float64 {
	r := make([]float64, n)
	for i := range r {
		r[i] = unhex(t.next())
	}
	return r
}

func runKernel(name string, t *toks, w *bufio.Writer) {
	factory := sim.Catalog[name]
	if factory == nil {
		fmt.Fprintln(w, "NOMODEL")
		return
	}
	t.expect("P")
	ps := t.floats(t.int())
	t.expect("S")
	ss := t.floats(t.int())
	t.expect("I")
	k := t.int()
	length := t.int()
	model := factory()
	params := data.NewArray2DFloat64(len(ps), 1)
	for i, v := range ps {
		params.Set2(i, 0, v)
	}
	dims := model.FindDimensions(params)
	model.InitialiseDimensions(dims)
	model.ApplyParameters(params)
	states := data.NewArray2DFloat64(1, len(ss))
	for i, v := range ss {
		states.Set2(0, i, v)
	}
	inputs := data.NewArray3DFloat64(1, k, length)
	for i := 0; i < k; i++ {
		row := t.floats(length)
		for j, v := range row {
			inputs.Set3(0, i, j, v)
		}
	}
	outputs := sim.InitialiseOutputs(model, length, 1)
	// Run must not modify its inputs or parameters (values or extents): snapshot and compare
	inBefore := append([]float64{}, inputs.Unroll()...)
	paBefore := append([]float64{}, params.Unroll()...)
	inShape := append([]int{}, inputs.Shape()...)
	paShape := append([]int{}, params.Shape()...)
	model.Run(inputs, states, outputs)
	same := func(a, b []float64) bool {
		if len(a) != len(b) {
			return false
		}
		for i := range a {
			if math.Float64bits(a[i]) != math.Float64bits(b[i]) {
				return false
			}
		}
		return true
	}
	sameI := func(a, b []int) bool {
		if len(a) != len(b) {
			return false
		}
		for i := range a {
			if a[i] != b[i] {
				return false
			}
		}
		return true
	}
	if !same(inBefore, inputs.Unroll()) || !same(paBefore, params.Unroll()) || !sameI(inShape, inputs.Shape()) || !sameI(paShape, params.Shape()) {
		fmt.Fprintln(w, "INPUTS-OR-PARAMETERS-MODIFIED")
		return
	}
	nout := outputs.Len(1)
	fmt.Fprintf(w, "OK O %d %d", nout, length)
	for i := 0; i < nout; i++ {
		for j := 0; j < length; j++ {
			w.WriteByte(' ')
			w.WriteString(hex(outputs.Get3(0, i, j)))
		}
	}
	fmt.Fprintf(w, " S %d", len(ss))
	for i := range ss {
		w.WriteByte(' ')
		w.WriteString(hex(states.Get2(0, i)))
	}
	w.WriteByte('\n')
}

func main() {
	sc := bufio.NewScanner(os.Stdin)
	sc.Buffer(make([]byte, 1<<20), 1<<28)
	w := bufio.NewWriter(os.Stdout)
	defer w.Flush()
	for sc.Scan() {
		line := strings.TrimSpace(sc.Text())
		if line == "" {
			continue
		}
		t := &toks{t: strings.Fields(line)}
		switch cmd := t.next(); cmd {
		case "K":
			func() {
				defer func() {
					if r := recover(); r != nil {
						fmt.Fprintln(w, "PANIC")
					}
				}()
				runKernel(t.next(), t, w)
			}()
		default:
			if f, ok := commands[cmd]; ok {
				func() {
					defer func() {
						if r := recover(); r != nil {
							fmt.Fprintln(w, "PANIC")
						}
					}()
					f(t, w)
				}()
			} else {
				fmt.Fprintln(w, "NOCMD")
			}
		}
		w.Flush()
	}
}

var commands = map[string]func(t *toks, w *bufio.Writer){}
