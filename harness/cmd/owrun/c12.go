// C12: runs of a catalogue model into an output array that is NOT freshly
// zeroed -- the array a caller re-uses for a second run / time window, or a
// caller-supplied buffer (libopenwater) holding old data.
//
//   KS <sentinel hex> <Model> P n v.. S n v.. I k len v..
//       outputs pre-filled with the sentinel, then one Run
//   K2 <Model> P n v.. S n v.. I k len v..  <Model> P n v.. S n v.. I k len v..
//       first run (its own model instance, parameters, states, inputs), then the
//       second run (again its own instance, states, inputs) into the SAME output
//       array; both specs name the same model and the same series length
//   -> OK O nout len hex.. S n hex..   (outputs after the last run, states of the last run) | PANIC
package main

import (
	"bufio"
	"fmt"

	"github.com/flowmatters/openwater-core/data"
	"github.com/flowmatters/openwater-core/sim"
)

type c12spec struct {
	name   string
	ps, ss []float64
	k, n   int
	rows   [][]float64
}

func c12parse(t *toks) c12spec {
	var s c12spec
	s.name = t.next()
	t.expect("P")
	s.ps = t.floats(t.int())
	t.expect("S")
	s.ss = t.floats(t.int())
	t.expect("I")
	s.k = t.int()
	s.n = t.int()
	for i := 0; i < s.k; i++ {
		s.rows = append(s.rows, t.floats(s.n))
	}
	return s
}

// one Run of spec s into outputs (allocated by the caller); returns the states array
func c12run(s c12spec, outputs data.ND3Float64) data.ND2Float64 {
	model := sim.Catalog[s.name]()
	params := data.NewArray2DFloat64(len(s.ps), 1)
	for i, v := range s.ps {
		params.Set2(i, 0, v)
	}
	dims := model.FindDimensions(params)
	model.InitialiseDimensions(dims)
	model.ApplyParameters(params)
	states := data.NewArray2DFloat64(1, len(s.ss))
	for i, v := range s.ss {
		states.Set2(0, i, v)
	}
	inputs := data.NewArray3DFloat64(1, s.k, s.n)
	for i := 0; i < s.k; i++ {
		for j, v := range s.rows[i] {
			inputs.Set3(0, i, j, v)
		}
	}
	model.Run(inputs, states, outputs)
	return states
}

func c12print(w *bufio.Writer, outputs data.ND3Float64, states data.ND2Float64, n, ns int) {
	nout := outputs.Len(1)
	fmt.Fprintf(w, "OK O %d %d", nout, n)
	for i := 0; i < nout; i++ {
		for j := 0; j < n; j++ {
			w.WriteByte(' ')
			w.WriteString(hex(outputs.Get3(0, i, j)))
		}
	}
	fmt.Fprintf(w, " S %d", ns)
	for i := 0; i < ns; i++ {
		w.WriteByte(' ')
		w.WriteString(hex(states.Get2(0, i)))
	}
	w.WriteByte('\n')
}

func init() {
	commands["KS"] = func(t *toks, w *bufio.Writer) {
		sentinel := unhex(t.next())
		s := c12parse(t)
		if sim.Catalog[s.name] == nil {
			fmt.Fprintln(w, "NOMODEL")
			return
		}
		outputs := sim.InitialiseOutputs(sim.Catalog[s.name](), s.n, 1)
		for i := 0; i < outputs.Len(1); i++ {
			for j := 0; j < s.n; j++ {
				outputs.Set3(0, i, j, sentinel)
			}
		}
		st := c12run(s, outputs)
		c12print(w, outputs, st, s.n, len(s.ss))
	}
	commands["K2"] = func(t *toks, w *bufio.Writer) {
		a := c12parse(t)
		b := c12parse(t)
		if sim.Catalog[a.name] == nil || a.name != b.name || a.n != b.n {
			fmt.Fprintln(w, "NOMODEL")
			return
		}
		outputs := sim.InitialiseOutputs(sim.Catalog[a.name](), a.n, 1)
		c12run(a, outputs)
		st := c12run(b, outputs)
		c12print(w, outputs, st, b.n, len(b.ss))
	}
}
