package main

import (
	"fmt"
	"io/ioutil"
	"os"
	"path/filepath"
	"sync"
	"sync/atomic"
	"time"

	"github.com/flowmatters/openwater-core/data"
	owio "github.com/flowmatters/openwater-core/io"
	"gonum.org/v1/hdf5"
)

// runConc is the concurrency stress of property C08 (TESTING, not proof):
// n goroutines, half writers half readers, all on one file through the public
// API of package io, with the fake library's overlap detector armed and every
// library call stretched so that an overlap which the locking permits is
// observed.  Meant to be built with -race.
//
//	writers   WriteSlice one whole row of the shared matrix "m" with a fresh
//	          uniform value; Write their own dataset "own<i>"; Create (no-op)
//	readers   Load "m" (whole / row selection) and check that no row is torn;
//	          Load the constant dataset "ro" with a stepped selection and
//	          compare with the in-memory slice; Shape; Exists
//
// Files: the lock under test is THE package lock (libhdf5 is not thread-safe as
// a library, not per file), so the stress uses several file names at once:
//
//	file A   the shared matrix; even goroutines address it as <dir>/conc.h5,
//	         odd ones as <dir>/./conc.h5 (same file, different string)
//	file B   <dir>/other.h5: one more writer and one more reader (2 extra
//	         goroutines), so that a writer on B runs while A is read and written
//
// A lock keyed by file name lets these overlap inside the library.
//
// Reports: MutatingOverlaps (must be 0: a library call on a writable handle
// ran concurrently with another library call), torn rows, wrong reads, errors.
func runConc(n, rounds int) int {
	dir, err := ioutil.TempDir("", "h5conc")
	if err != nil {
		panic(err)
	}
	defer os.RemoveAll(dir)
	fn := filepath.Join(dir, "conc.h5")
	fnAlias := dir + string(filepath.Separator) + "." + string(filepath.Separator) + "conc.h5" // same file, other spelling
	fnB := filepath.Join(dir, "other.h5")
	const width = 6
	writers := n / 2
	if writers < 1 {
		writers = 1
	}
	m := owio.H5RefFloat64{Filename: fn, Dataset: "grp/m"}
	ro := owio.H5RefInt32{Filename: fn, Dataset: "ro"}
	if err := m.Create([]int{writers, width}, 0, false); err != nil {
		fmt.Println("CONC setup-error", err)
		return 2
	}
	roData := data.ARangeInt32(60).MustReshape([]int{6, 10})
	if err := ro.Write(roData); err != nil {
		fmt.Println("CONC setup-error", err)
		return 2
	}
	mB := owio.H5RefFloat64{Filename: fnB, Dataset: "b/m"}
	if err := mB.Create([]int{4, width}, 0, false); err != nil {
		fmt.Println("CONC setup-error", err)
		return 2
	}
	hdf5.VerifResetCalls()
	hdf5.VerifSetCallDelay(20 * time.Microsecond)

	var torn, wrong, errs int64
	last := make([]float64, writers)
	var wg sync.WaitGroup
	for g := 0; g < n; g++ {
		wg.Add(1)
		go func(g int) {
			defer wg.Done()
			defer func() {
				if r := recover(); r != nil {
					atomic.AddInt64(&errs, 1)
				}
			}()
			fnA := fn
			if g%2 == 1 {
				fnA = fnAlias
			}
			m := owio.H5RefFloat64{Filename: fnA, Dataset: "grp/m"}
			ro := owio.H5RefInt32{Filename: fnA, Dataset: "ro"}
			if g < writers {
				own := owio.H5RefFloat64{Filename: fnA, Dataset: fmt.Sprintf("own/w%d", g)}
				for k := 1; k <= rounds; k++ {
					v := float64(g*1000 + k)
					row := data.NewArrayFloat64([]int{1, width})
					for j := 0; j < width; j++ {
						row.Set([]int{0, j}, v)
					}
					if err := m.WriteSlice(row, []int{g, 0}); err != nil {
						atomic.AddInt64(&errs, 1)
					}
					last[g] = v
					if k%4 == 0 {
						if err := own.Write(row); err != nil {
							atomic.AddInt64(&errs, 1)
						}
					}
					if k%7 == 0 {
						if err := m.Create([]int{writers, width}, 0, false); err != nil {
							atomic.AddInt64(&errs, 1)
						}
					}
				}
				return
			}
			for k := 0; k < rounds; k++ {
				switch k % 4 {
				case 0:
					a, err := m.Load()
					if err != nil || a == nil {
						atomic.AddInt64(&errs, 1)
						continue
					}
					for i := 0; i < writers; i++ {
						v0 := a.Get([]int{i, 0})
						for j := 1; j < width; j++ {
							if a.Get([]int{i, j}) != v0 {
								atomic.AddInt64(&torn, 1)
							}
						}
					}
				case 1:
					i := (g + k) % writers
					sel := owio.H5RefFloat64{Filename: fnA, Dataset: "grp/m", Slice: [][]int{{i, i + 1, 1}, nil}}
					a, err := sel.Load()
					if err != nil || a == nil {
						atomic.AddInt64(&errs, 1)
						continue
					}
					u := a.Unroll()
					for j := 1; j < len(u); j++ {
						if u[j] != u[0] {
							atomic.AddInt64(&torn, 1)
						}
					}
				case 2:
					sel := owio.H5RefInt32{Filename: fnA, Dataset: "ro", Slice: [][]int{{1, 6, 2}, {g % 3, 10, 3}}}
					a, err := sel.Load()
					if err != nil || a == nil {
						atomic.AddInt64(&errs, 1)
						continue
					}
					want := roData.Slice([]int{1, g % 3}, a.Shape(), []int{2, 3}).Unroll()
					got := a.Unroll()
					if len(want) != len(got) {
						atomic.AddInt64(&wrong, 1)
						continue
					}
					for j := range want {
						if want[j] != got[j] {
							atomic.AddInt64(&wrong, 1)
						}
					}
				case 3:
					if sh, err := m.Shape(); err != nil || len(sh) != 2 || sh[0] != writers {
						atomic.AddInt64(&wrong, 1)
					}
					if !ro.Exists() {
						atomic.AddInt64(&wrong, 1)
					}
				}
			}
		}(g)
	}
	// file B: one writer, one reader
	var lastB float64
	wg.Add(2)
	go func() {
		defer wg.Done()
		defer func() {
			if r := recover(); r != nil {
				atomic.AddInt64(&errs, 1)
			}
		}()
		for k := 1; k <= rounds; k++ {
			v := float64(900000 + k)
			row := data.NewArrayFloat64([]int{1, width})
			for j := 0; j < width; j++ {
				row.Set([]int{0, j}, v)
			}
			if err := mB.WriteSlice(row, []int{k % 4, 0}); err != nil {
				atomic.AddInt64(&errs, 1)
			}
			if k%4 == 0 {
				lastB = v
			}
		}
	}()
	go func() {
		defer wg.Done()
		defer func() {
			if r := recover(); r != nil {
				atomic.AddInt64(&errs, 1)
			}
		}()
		for k := 0; k < rounds; k++ {
			a, err := mB.Load()
			if err != nil || a == nil {
				atomic.AddInt64(&errs, 1)
				continue
			}
			for i := 0; i < 4; i++ {
				v0 := a.Get([]int{i, 0})
				for j := 1; j < width; j++ {
					if a.Get([]int{i, j}) != v0 {
						atomic.AddInt64(&torn, 1)
					}
				}
			}
		}
	}()
	wg.Wait()
	hdf5.VerifSetCallDelay(0)
	st := hdf5.VerifCalls()
	// final contents: every row holds the last value its writer wrote
	final, err := m.Load()
	if err != nil || final == nil {
		errs++
	} else {
		for i := 0; i < writers; i++ {
			for j := 0; j < width; j++ {
				if final.Get([]int{i, j}) != last[i] {
					wrong++
				}
			}
		}
	}
	if fb, err := mB.Load(); err != nil || fb == nil || (rounds >= 4 && fb.Get([]int{0, 0}) != lastB) {
		wrong++
	}
	ok := st.MutatingOverlaps == 0 && torn == 0 && wrong == 0 && errs == 0
	status := "ok"
	if !ok {
		status = "FAIL"
	}
	fmt.Printf("CONC %s files=2+alias goroutines=%d+2 rounds=%d calls=%d mutating_calls=%d overlaps=%d mutating_overlaps=%d max_concurrent=%d torn=%d wrong=%d errors=%d\n",
		status, n, rounds, st.Calls, st.MutatingCalls, st.Overlaps, st.MutatingOverlaps, st.MaxConcurrent, torn, wrong, errs)
	if !ok {
		return 1
	}
	return 0
}
