package main

import (
	"fmt"
	"io/ioutil"
	"math/rand"
	"os"
	"path/filepath"
	"sync"
	"sync/atomic"
	"time"

	"github.com/flowmatters/openwater-core/data"
	owio "github.com/flowmatters/openwater-core/io"
	"gonum.org/v1/hdf5"
)

// runConcLoad is the concurrent-results stream of property C08 (TESTING, not
// proof): what a call returns must not depend on what other goroutines are
// doing at the same time.
//
// Setup (sequential): two files; file A holds the read-only datasets r2
// (float64 [12,10]), r1 (int32 [60]), r3 (float64 [4,5,6]) filled with
// value = base + flat index, and the writable matrix w; file B holds rb
// (float64 [9,8]) and the writable matrix wb.
//
// A pool of load tasks (dataset, selection) is drawn from the seed: whole
// loads, single rows (many tasks with EQUAL element counts and different
// offsets), stepped windows, stop beyond the extent / MaxInt64, different
// ranks.  Each task's reference result is (a) what the same Load returns when
// run ALONE, before any concurrency, which is also compared with (b) the
// in-memory slice of the source array (data.Slice(..).Unroll()).
//
// Phase 1: n goroutines run loads only, each goroutine its own rotation of
// the task pool, all at the same time.  Phase 2: half of the goroutines keep
// loading while the others Write / WriteSlice uniform rows into w (file A)
// and wb (file B); afterwards w and wb must equal the sequential abstract
// store (last value written per row) and every load must have returned its
// reference.  Every library call is stretched (VerifSetCallDelay) so that the
// goroutines really are inside the I/O layer at the same time: a result that
// depends on another goroutine's arguments then shows in every run, not by luck.
func runConcLoad(n, rounds int, seed int64, delay time.Duration) int {
	dir, err := ioutil.TempDir("", "h5concload")
	if err != nil {
		panic(err)
	}
	defer os.RemoveAll(dir)
	fa := filepath.Join(dir, "a.h5")
	fb := filepath.Join(dir, "b.h5")
	rng := rand.New(rand.NewSource(seed))

	fill64 := func(shape []int, base float64) data.NDFloat64 {
		a := data.NewArrayFloat64(shape)
		u := a.Unroll()
		for i := range u {
			u[i] = base + float64(i)
		}
		return a
	}
	src2 := fill64([]int{12, 10}, 1000)
	src3 := fill64([]int{4, 5, 6}, 3000)
	srcb := fill64([]int{9, 8}, 5000)
	src1 := data.NewArrayInt32([]int{60})
	for i, u := 0, src1.Unroll(); i < len(u); i++ {
		u[i] = int32(2000 + i)
	}
	fail := func(msg string, err error) int {
		fmt.Println("CONCLOAD setup-error", msg, err)
		return 2
	}
	if err := (owio.H5RefFloat64{Filename: fa, Dataset: "ro/r2"}).Write(src2); err != nil {
		return fail("r2", err)
	}
	if err := (owio.H5RefFloat64{Filename: fa, Dataset: "ro/r3"}).Write(src3); err != nil {
		return fail("r3", err)
	}
	if err := (owio.H5RefInt32{Filename: fa, Dataset: "r1"}).Write(src1); err != nil {
		return fail("r1", err)
	}
	if err := (owio.H5RefFloat64{Filename: fb, Dataset: "rb"}).Write(srcb); err != nil {
		return fail("rb", err)
	}
	const wrows, wcols = 6, 7
	if err := (owio.H5RefFloat64{Filename: fa, Dataset: "w"}).Create([]int{wrows, wcols}, 0, false); err != nil {
		return fail("w", err)
	}
	if err := (owio.H5RefFloat64{Filename: fb, Dataset: "wb"}).Create([]int{wrows, wcols}, 0, false); err != nil {
		return fail("wb", err)
	}

	// ---- the task pool
	type task struct {
		name string
		run  func() (shape []int, vals []float64, err error)
		want struct {
			shape []int
			vals  []float64
		}
	}
	const maxInt = int(^uint(0) >> 1)
	f64 := func(fn, ds string, src data.NDFloat64, sel [][]int) *task {
		t := &task{name: fmt.Sprintf("%s:%s%v", filepath.Base(fn), ds, sel)}
		t.run = func() ([]int, []float64, error) {
			a, err := owio.H5RefFloat64{Filename: fn, Dataset: ds, Slice: sel}.Load()
			if a == nil {
				return nil, nil, err
			}
			return a.Shape(), a.Unroll(), err
		}
		// (b) the in-memory slice of the source
		start, count, step := []int{}, []int{}, []int{}
		for i, d := range src.Shape() {
			a, b, s := 0, d, 1
			if sel != nil && sel[i] != nil {
				a, b, s = sel[i][0], sel[i][1], sel[i][2]
			}
			if b > d {
				b = d
			}
			c := 0
			if a < b {
				c = (b - a + s - 1) / s
			}
			if c == 0 {
				a = 0
			}
			start, count, step = append(start, a), append(count, c), append(step, s)
		}
		t.want.shape = count
		empty := false
		for _, c := range count {
			empty = empty || c == 0
		}
		if !empty {
			t.want.vals = src.Slice(start, count, step).Unroll()
		}
		return t
	}
	i32 := func(sel [][]int) *task {
		t := &task{name: fmt.Sprintf("a.h5:r1%v", sel)}
		t.run = func() ([]int, []float64, error) {
			a, err := owio.H5RefInt32{Filename: fa, Dataset: "r1", Slice: sel}.Load()
			if a == nil {
				return nil, nil, err
			}
			u := a.Unroll()
			v := make([]float64, len(u))
			for i := range u {
				v[i] = float64(u[i])
			}
			return a.Shape(), v, err
		}
		a, b, s := 0, 60, 1
		if sel != nil {
			a, b, s = sel[0][0], sel[0][1], sel[0][2]
		}
		if b > 60 {
			b = 60
		}
		c := 0
		if a < b {
			c = (b - a + s - 1) / s
		}
		t.want.shape = []int{c}
		for k := 0; k < c; k++ {
			t.want.vals = append(t.want.vals, float64(2000+a+k*s))
		}
		return t
	}
	var tasks []*task
	tasks = append(tasks, f64(fa, "ro/r2", src2, nil), f64(fb, "rb", srcb, nil), i32(nil))
	for k := 0; k < 10; k++ { // single rows: equal element counts, different offsets
		r := rng.Intn(12)
		tasks = append(tasks, f64(fa, "ro/r2", src2, [][]int{{r, r + 1, 1}, nil}))
		rb := rng.Intn(9)
		tasks = append(tasks, f64(fb, "rb", srcb, [][]int{{rb, rb + 1, 1}, nil}))
	}
	for k := 0; k < 8; k++ { // windows, steps, stops beyond the extent
		a, s := rng.Intn(6), 1+rng.Intn(3)
		stop := []int{a + 1 + rng.Intn(8), 12, 40, maxInt}[rng.Intn(4)]
		c0, cs := rng.Intn(5), 1+rng.Intn(3)
		tasks = append(tasks, f64(fa, "ro/r2", src2, [][]int{{a, stop, s}, {c0, 10, cs}}))
		tasks = append(tasks, f64(fa, "ro/r3", src3, [][]int{{rng.Intn(4), 4, 1}, nil, {rng.Intn(3), []int{6, maxInt}[rng.Intn(2)], 1 + rng.Intn(2)}}))
		b0 := rng.Intn(50)
		tasks = append(tasks, i32([][]int{{b0, b0 + 10, 1}}), i32([][]int{{rng.Intn(20), []int{60, 1 << 40, maxInt}[rng.Intn(3)], 2 + rng.Intn(4)}}))
	}

	same := func(s1, s2 []int, v1, v2 []float64) bool {
		if len(s1) != len(s2) || len(v1) != len(v2) {
			return false
		}
		for i := range s1 {
			if s1[i] != s2[i] {
				return false
			}
		}
		for i := range v1 {
			if v1[i] != v2[i] {
				return false
			}
		}
		return true
	}
	// (a) every task alone
	aloneBad := 0
	for _, t := range tasks {
		sh, v, err := t.run()
		if err != nil || !same(sh, t.want.shape, v, t.want.vals) {
			aloneBad++
			fmt.Printf("CONCLOAD alone-mismatch %s: got shape %v err=%v, in-memory slice has shape %v\n", t.name, sh, err, t.want.shape)
		}
	}

	hdf5.VerifResetCalls()
	hdf5.VerifSetCallDelay(delay)
	var wrong, errs, loads int64
	var firstMu sync.Mutex
	first := ""
	loader := func(g, rounds int) {
		defer func() {
			if r := recover(); r != nil {
				atomic.AddInt64(&errs, 1)
			}
		}()
		for k := 0; k < rounds; k++ {
			t := tasks[(g*7+k*3)%len(tasks)]
			sh, v, err := t.run()
			atomic.AddInt64(&loads, 1)
			if err != nil {
				atomic.AddInt64(&errs, 1)
			}
			if !same(sh, t.want.shape, v, t.want.vals) {
				atomic.AddInt64(&wrong, 1)
				firstMu.Lock()
				if first == "" {
					first = fmt.Sprintf("%s returned shape %v first=%v err=%v; alone it returns shape %v first=%v", t.name, sh, head(v), err, t.want.shape, head(t.want.vals))
				}
				firstMu.Unlock()
			}
		}
	}
	// ---- phase 1: loads only
	var wg sync.WaitGroup
	for g := 0; g < n; g++ {
		wg.Add(1)
		go func(g int) { defer wg.Done(); loader(g, rounds) }(g)
	}
	wg.Wait()
	p1wrong, p1errs := wrong, errs

	// ---- phase 2: loads while other goroutines write other datasets / another file
	lastA := make([]float64, wrows)
	lastB := make([]float64, wrows)
	var rowMu [2][wrows]sync.Mutex // writers of one row are serialised by the harness: the abstract store is sequential per row
	writers := n / 2
	if writers < 1 {
		writers = 1
	}
	for g := 0; g < n; g++ {
		wg.Add(1)
		go func(g int) {
			defer wg.Done()
			if g >= writers {
				loader(g, rounds)
				return
			}
			defer func() {
				if r := recover(); r != nil {
					atomic.AddInt64(&errs, 1)
				}
			}()
			for k := 1; k <= rounds/2+1; k++ {
				fn, ds, last, fi := fa, "w", lastA, 0
				if (g+k)%2 == 1 {
					fn, ds, last, fi = fb, "wb", lastB, 1
				}
				row := (g*3 + k) % wrows
				v := float64(g*100000 + k)
				blk := data.NewArrayFloat64([]int{1, wcols})
				for j := 0; j < wcols; j++ {
					blk.Set([]int{0, j}, v)
				}
				rowMu[fi][row].Lock()
				if err := (owio.H5RefFloat64{Filename: fn, Dataset: ds}).WriteSlice(blk, []int{row, 0}); err != nil {
					atomic.AddInt64(&errs, 1)
				}
				last[row] = v
				rowMu[fi][row].Unlock()
				if k%5 == 0 {
					own := data.NewArrayFloat64([]int{3, 4})
					if err := (owio.H5RefFloat64{Filename: fn, Dataset: fmt.Sprintf("own/g%d", g)}).Write(own); err != nil {
						atomic.AddInt64(&errs, 1)
					}
				}
			}
		}(g)
	}
	wg.Wait()
	hdf5.VerifSetCallDelay(0)
	st := hdf5.VerifCalls()
	storeBad := 0
	for fi, ref := range []owio.H5RefFloat64{{Filename: fa, Dataset: "w"}, {Filename: fb, Dataset: "wb"}} {
		a, err := ref.Load()
		last := [][]float64{lastA, lastB}[fi]
		if err != nil || a == nil {
			storeBad++
			continue
		}
		for r := 0; r < wrows; r++ {
			for j := 0; j < wcols; j++ {
				if a.Get([]int{r, j}) != last[r] {
					storeBad++
				}
			}
		}
	}
	ok := aloneBad == 0 && wrong == 0 && errs == 0 && storeBad == 0 && st.MutatingOverlaps == 0
	status := "ok"
	if !ok {
		status = "FAIL"
	}
	fmt.Printf("CONCLOAD %s goroutines=%d rounds=%d tasks=%d delay=%s loads=%d wrong_results=%d (loads-only phase %d) errors=%d (loads-only phase %d) alone_vs_memory_slice_mismatches=%d written_cells_not_in_sequential_store=%d overlaps=%d mutating_overlaps=%d",
		status, n, rounds, len(tasks), delay, loads, wrong, p1wrong, errs, p1errs, aloneBad, storeBad, st.Overlaps, st.MutatingOverlaps)
	if first != "" {
		fmt.Printf(" first_wrong=%q", first)
	}
	fmt.Println()
	if !ok {
		return 1
	}
	return 0
}

func head(v []float64) []float64 {
	if len(v) > 4 {
		return v[:4]
	}
	return v
}
