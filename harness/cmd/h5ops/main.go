// h5ops runs generated operation sequences through the real Go code of
// /repo/io (linked against the fake HDF5 module) and prints every result and
// the final file contents in a canonical text form, to be compared exactly
// with the extracted Coq model IO/IoOps.v (property C08).
//
// stdin: one case per line; stdout: one result line per case.
//
//	SEQ <type> <op>...          operation sequence on one fresh file
//	  C @name r d1..dr c          Create(shape, 0, compress c)
//	  W @name <ARR>               Write(array)
//	  S @name <ARR> k l1..lk      WriteSlice(array, loc)
//	  L @name                     Load()            (Slice == nil)
//	  LS @name k <SEL>*k          Load() with Slice; SEL = N | T a b s | X m v1..vm
//	  P / E / D / G @name         Shape / Exists / GetDatasets / GetGroups
//	ARR = r B1..Br n v1..vn sl [start*r count*r step*r]  lr L1..Llr ln x1..xln
//	      base array (row-major bit patterns, hex), optional Slice of it, and
//	      the logical (dims, elems) the generator expects Unroll() to give
//	SSALL amax bmax smin smax nmax      sliceSize over the whole box
//	MH1ALL amax bmax smin smax nmax     makeHyperslab, one axis, over the box (+ nil)
//	MH k <SEL>*k r d1..dr               makeHyperslab, one call
//
// -conc N runs the concurrency stress (N goroutines, see conc.go).
package main

import (
	"bufio"
	"flag"
	"fmt"
	"io/ioutil"
	"os"
	"path/filepath"
	"sort"
	"strconv"
	"strings"

	owio "github.com/flowmatters/openwater-core/io"
	"gonum.org/v1/hdf5"
)

type typeOps struct {
	name       string
	bits       int
	build      func(base []int, vals []uint64, sliced bool, start, count, step []int) interface{}
	shape      func(x interface{}) []int
	unroll     func(x interface{}) []uint64
	write      func(fn, ds string, x interface{}) error
	create     func(fn, ds string, shape []int, compress bool) error
	writeSlice func(fn, ds string, x interface{}, loc []int) error
	load       func(fn, ds string, sl [][]int) (interface{}, error)
	shapeOf    func(fn, ds string) ([]int, error)
	exists     func(fn, ds string) bool
	datasets   func(fn, ds string) ([]string, error)
	groups     func(fn, ds string) ([]string, error)
}

var types = map[string]*typeOps{}

func incr(idx, dims []int) {
	for i := len(idx) - 1; i >= 0; i-- {
		idx[i]++
		if idx[i] < dims[i] {
			return
		}
		idx[i] = 0
	}
}

type toks struct {
	t []string
	p int
}

func (k *toks) next() string {
	if k.p >= len(k.t) {
		panic("h5ops: short case line")
	}
	s := k.t[k.p]
	k.p++
	return s
}
func (k *toks) more() bool { return k.p < len(k.t) }
func (k *toks) int() int {
	v, err := strconv.Atoi(k.next())
	if err != nil {
		panic("h5ops: bad integer: " + err.Error())
	}
	return v
}
func (k *toks) ints(n int) []int {
	r := make([]int, n)
	for i := range r {
		r[i] = k.int()
	}
	return r
}
func (k *toks) hex() uint64 {
	v, err := strconv.ParseUint(k.next(), 16, 64)
	if err != nil {
		panic("h5ops: bad hex: " + err.Error())
	}
	return v
}
func (k *toks) name() string {
	s := k.next()
	if !strings.HasPrefix(s, "@") {
		panic("h5ops: name token must start with @: " + s)
	}
	return s[1:]
}

func (k *toks) sels(n int) [][]int {
	sl := make([][]int, n)
	for i := range sl {
		switch k.next() {
		case "N":
			sl[i] = nil
		case "T":
			sl[i] = k.ints(3)
		case "X":
			sl[i] = k.ints(k.int())
			if sl[i] == nil {
				sl[i] = []int{}
			}
		default:
			panic("h5ops: bad selection token")
		}
	}
	return sl
}

// arr parses ARR, builds the source view and cross-checks Unroll() against
// the logical content the generator computed (a C02 sanity check; a mismatch is
// printed in the result line so that the check script sees it).
func (k *toks) arr(ty *typeOps, notes *[]string) interface{} {
	r := k.int()
	base := k.ints(r)
	n := k.int()
	vals := make([]uint64, n)
	for i := range vals {
		vals[i] = k.hex()
	}
	sliced := k.int() == 1
	var start, count, step []int
	if sliced {
		start, count, step = k.ints(r), k.ints(r), k.ints(r)
	}
	lr := k.int()
	ldims := k.ints(lr)
	ln := k.int()
	lvals := make([]uint64, ln)
	for i := range lvals {
		lvals[i] = k.hex()
	}
	a := ty.build(base, vals, sliced, start, count, step)
	got := ty.unroll(a)
	ok := len(got) == len(lvals) && fmt.Sprint(ty.shape(a)) == fmt.Sprint(ldims)
	for i := 0; ok && i < len(got); i++ {
		ok = got[i] == lvals[i]
	}
	if !ok {
		*notes = append(*notes, fmt.Sprintf("UNROLL-MISMATCH shape=%v got=%x want=%x", ty.shape(a), got, lvals))
	}
	return a
}

func errstr(err error) string {
	if err != nil {
		return "err"
	}
	return "ok"
}

func guard(f func() string) (out string) {
	defer func() {
		if r := recover(); r != nil {
			out = "panic"
		}
	}()
	return f()
}

func fmtArr(ty *typeOps, a interface{}) string {
	var b strings.Builder
	sh := ty.shape(a)
	fmt.Fprintf(&b, "%d", len(sh))
	for _, d := range sh {
		fmt.Fprintf(&b, " %d", d)
	}
	u := ty.unroll(a)
	fmt.Fprintf(&b, " %d", len(u))
	for _, v := range u {
		fmt.Fprintf(&b, " %x", v)
	}
	return b.String()
}

func fmtNames(n []string) string {
	var b strings.Builder
	fmt.Fprintf(&b, "ok %d", len(n))
	for _, s := range n {
		b.WriteString(" @" + s)
	}
	return b.String()
}

func runSeq(k *toks, dir string, caseNo int) string {
	ty := types[k.next()]
	if ty == nil {
		return "BADTYPE"
	}
	fn := filepath.Join(dir, fmt.Sprintf("case%d.h5", caseNo))
	os.Remove(fn)
	defer os.Remove(fn)
	var res []string
	var notes []string
	for k.more() {
		op := k.next()
		switch op {
		case "C":
			ds := k.name()
			shape := k.ints(k.int())
			c := k.int() == 1
			res = append(res, guard(func() string { return errstr(ty.create(fn, ds, shape, c)) }))
		case "W":
			ds := k.name()
			a := k.arr(ty, &notes)
			res = append(res, guard(func() string { return errstr(ty.write(fn, ds, a)) }))
		case "S":
			ds := k.name()
			a := k.arr(ty, &notes)
			loc := k.ints(k.int())
			res = append(res, guard(func() string { return errstr(ty.writeSlice(fn, ds, a, loc)) }))
		case "L", "LS":
			ds := k.name()
			var sl [][]int
			if op == "LS" {
				sl = k.sels(k.int())
			}
			res = append(res, guard(func() string {
				a, err := ty.load(fn, ds, sl)
				if a == nil {
					return errstr(err)
				}
				if err != nil {
					return "okerr " + fmtArr(ty, a)
				}
				return "ok " + fmtArr(ty, a)
			}))
		case "P":
			ds := k.name()
			res = append(res, guard(func() string {
				sh, err := ty.shapeOf(fn, ds)
				if err != nil {
					return "err"
				}
				s := fmt.Sprintf("ok %d", len(sh))
				for _, d := range sh {
					s += fmt.Sprintf(" %d", d)
				}
				return s
			}))
		case "E":
			ds := k.name()
			res = append(res, guard(func() string { return fmt.Sprint(ty.exists(fn, ds)) }))
		case "D", "G":
			ds := k.name()
			res = append(res, guard(func() string {
				var n []string
				var err error
				if op == "D" {
					n, err = ty.datasets(fn, ds)
				} else {
					n, err = ty.groups(fn, ds)
				}
				if err != nil {
					return "err"
				}
				return fmtNames(n)
			}))
		default:
			panic("h5ops: unknown op " + op)
		}
	}
	out := strings.Join(res, " | ") + " || " + dumpFile(fn)
	if len(notes) > 0 {
		out += " ## " + strings.Join(notes, " ; ")
	}
	return out
}

// dumpFile prints the objects of the file, sorted by path, using only calls
// that exist in the real binding: "g:<path>" and
// "d:<path> r d1..dr n c1..cn" (cells = raw little-endian values of the
// dataset's own element size).
func dumpFile(fn string) string {
	if _, err := os.Stat(fn); os.IsNotExist(err) {
		return "NOFILE"
	}
	f, err := hdf5.OpenFile(fn, hdf5.F_ACC_RDONLY)
	if err != nil {
		return "UNREADABLE"
	}
	defer f.Close()
	var lines []string
	var walk func(g *hdf5.CommonFG, path string)
	walk = func(g *hdf5.CommonFG, path string) {
		n, _ := g.NumObjects()
		for i := uint(0); i < n; i++ {
			name, _ := g.ObjectNameByIndex(i)
			typ, _ := g.ObjectTypeByIndex(i)
			p := path + "/" + name
			if typ == hdf5.H5G_GROUP {
				lines = append(lines, "g:"+p)
				sub, err := g.OpenGroup(name)
				if err == nil {
					walk(&sub.CommonFG, p)
					sub.Close()
				}
				continue
			}
			ds, err := g.OpenDataset(name)
			if err != nil {
				lines = append(lines, "?:"+p)
				continue
			}
			sp := ds.Space()
			rank := sp.SimpleExtentNDims()
			dims := []uint{}
			if rank > 0 {
				dims, _, _ = sp.SimpleExtentDims()
			}
			dt, _ := ds.Datatype()
			esz := int(dt.Size())
			cnt := 1
			for _, d := range dims {
				cnt *= int(d)
			}
			raw := make([]byte, cnt*esz)
			if cnt > 0 {
				ds.Read(&raw)
			}
			var b strings.Builder
			fmt.Fprintf(&b, "d:%s %d", p, len(dims))
			for _, d := range dims {
				fmt.Fprintf(&b, " %d", d)
			}
			fmt.Fprintf(&b, " %d", cnt)
			for c := 0; c < cnt; c++ {
				var v uint64
				for j := esz - 1; j >= 0; j-- {
					v = v<<8 | uint64(raw[c*esz+j])
				}
				fmt.Fprintf(&b, " %x", v)
			}
			lines = append(lines, b.String())
			dt.Close()
			sp.Close()
			ds.Close()
		}
	}
	walk(&f.CommonFG, "")
	sort.Strings(lines)
	return "FILE " + strconv.Itoa(len(lines)) + " " + strings.Join(lines, " ; ")
}

func sliceSizeStr(sl []int, n int) (out string) {
	defer func() {
		if r := recover(); r != nil {
			out = "P"
		}
	}()
	return strconv.Itoa(owio.VerifSliceSize(sl, n))
}

func hyperStr(sl [][]int, dims []int) (out string) {
	defer func() {
		if r := recover(); r != nil {
			out = "P"
		}
	}()
	o, s, c, b := owio.VerifMakeHyperslab(sl, dims)
	f := func(u []uint) string {
		p := make([]string, len(u))
		for i, v := range u {
			p[i] = strconv.FormatUint(uint64(v), 10)
		}
		return strings.Join(p, ",")
	}
	return f(o) + ":" + f(s) + ":" + f(c) + ":" + f(b)
}

func main() {
	conc := flag.Int("conc", 0, "run the concurrency stress with this many goroutines")
	rounds := flag.Int("rounds", 40, "operations per goroutine in the concurrency stress")
	flag.Parse()
	if *conc > 0 {
		os.Exit(runConc(*conc, *rounds))
	}
	dir, err := ioutil.TempDir("", "h5ops")
	if err != nil {
		panic(err)
	}
	defer os.RemoveAll(dir)
	in := bufio.NewReaderSize(os.Stdin, 1<<20)
	out := bufio.NewWriter(os.Stdout)
	defer out.Flush()
	caseNo := 0
	for {
		line, err := in.ReadString('\n')
		if line = strings.TrimSpace(line); line != "" {
			caseNo++
			k := &toks{t: strings.Fields(line)}
			switch k.next() {
			case "SEQ":
				fmt.Fprintln(out, runSeq(k, dir, caseNo))
			case "SSALL", "MH1ALL":
				cmd := k.t[0]
				amax, bmax, smin, smax, nmax := k.int(), k.int(), k.int(), k.int(), k.int()
				var r []string
				for a := 0; a <= amax; a++ {
					for b := 0; b <= bmax; b++ {
						for s := smin; s <= smax; s++ {
							for n := 0; n <= nmax; n++ {
								if cmd == "SSALL" {
									r = append(r, sliceSizeStr([]int{a, b, s}, n))
								} else {
									r = append(r, hyperStr([][]int{{a, b, s}}, []int{n}))
								}
							}
						}
					}
				}
				if cmd == "MH1ALL" {
					for n := 0; n <= nmax; n++ {
						r = append(r, hyperStr([][]int{nil}, []int{n}))
					}
				}
				fmt.Fprintln(out, strings.Join(r, " "))
			case "MH":
				sl := k.sels(k.int())
				dims := k.ints(k.int())
				fmt.Fprintln(out, hyperStr(sl, dims))
			default:
				fmt.Fprintln(out, "NOCMD")
			}
			out.Flush()
		}
		if err != nil {
			break
		}
	}
}
