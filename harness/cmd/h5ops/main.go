// h5ops runs generated operation sequences through the real Go code of
// /repo/io (linked against the fake HDF5 module) and prints every result and
// the final file contents in a canonical text form, to be compared exactly
// with the extracted Coq model IO/IoOps.v (property C08).
//
// stdin: one case per line; stdout: one result line per case.
//
//	SEQ <type> <op>...          operation sequence on one fresh file
//	  C @name r d1..dr c          Create(shape, 0, compress c)
//	  W @name <ARR>               Write(array)
//	  S @name <ARR> k l1..lk      WriteSlice(array, loc)
//	  L @name                     Load()            (Slice == nil)
//	  LS @name k <SEL>*k          Load() with Slice; SEL = N | T a b s | X m v1..vm
//	  P / E / D / G @name         Shape / Exists / GetDatasets / GetGroups
//	ARR = r B1..Br n v1..vn <VIEW>  lr L1..Llr ln x1..xln
//	      base array (row-major bit patterns, hex), the view of it that is the source array, and
//	      the logical (dims, elems) of that view = what Get returns, row-major
//	VIEW = 0 | 1 start*r count*r step*r | 2 <ntokens> <nops> OP...      (nested views)
//	      OP = S r' start*r' count*r' (N | E step*r')   Slice with nil / explicit step
//	         | R nr d1..dnr                             MustReshape
//	BIG <type> <op>...          the same operations on LARGE blocks: ARR is procedural,
//	      ARR = r B1..Br seed sl [start*r count*r step*r]   (base value at flat index i = seed + i)
//	      and results / file contents are printed as SHA-256 digests (per dataset, and
//	      per index of the first axis) of the raw little-endian element bytes
//	Any []int / [][]int / array argument may be preceded by "SHARE id": the SAME Go
//	object is then passed to every call that names that id (the tokens that follow
//	repeat the object's original definition).  Every call is bracketed by a
//	snapshot of all its arguments (slices, the source array's descriptor and the
//	contents of its storage); a difference is reported as ARGUMENT-MODIFIED.
//	SSALL amax bmax smin smax nmax      sliceSize over the whole box
//	MH1ALL amax bmax smin smax nmax     makeHyperslab, one axis, over the box (+ nil)
//	SSLIST k (a b s n)*k                sliceSize on listed arguments (any int64, extremes included)
//	MH k <SEL>*k r d1..dr               makeHyperslab, one call
//
// -conc N runs the concurrency stress (N goroutines, see conc.go).
// -concload N [-rounds R -seed S -delay D] runs the concurrent-results stream (concload.go).
package main

import (
	"bufio"
	"crypto/sha256"
	"encoding/binary"
	"flag"
	"fmt"
	"io/ioutil"
	"os"
	"path/filepath"
	"reflect"
	"sort"
	"strconv"
	"strings"
	"time"

	owio "github.com/flowmatters/openwater-core/io"
	"gonum.org/v1/hdf5"
)

type typeOps struct {
	name       string
	bits       int
	build      func(base []int, vals []uint64) interface{}
	fill       func(base []int, seed uint64) interface{}
	slice      func(x interface{}, start, count, step []int) interface{}
	reshape    func(x interface{}, dims []int) interface{}
	getAll     func(x interface{}) []uint64
	shape      func(x interface{}) []int
	unroll     func(x interface{}) []uint64
	write      func(fn, ds string, x interface{}) error
	create     func(fn, ds string, shape []int, compress bool) error
	writeSlice func(fn, ds string, x interface{}, loc []int) error
	load       func(fn, ds string, sl [][]int) (interface{}, error)
	shapeOf    func(fn, ds string) ([]int, error)
	exists     func(fn, ds string) bool
	datasets   func(fn, ds string) ([]string, error)
	groups     func(fn, ds string) ([]string, error)
}

var types = map[string]*typeOps{}

func incr(idx, dims []int) {
	for i := len(idx) - 1; i >= 0; i-- {
		idx[i]++
		if idx[i] < dims[i] {
			return
		}
		idx[i] = 0
	}
}

type toks struct {
	t []string
	p int
}

func (k *toks) next() string {
	if k.p >= len(k.t) {
		panic("h5ops: short case line")
	}
	s := k.t[k.p]
	k.p++
	return s
}
func (k *toks) more() bool { return k.p < len(k.t) }
func (k *toks) int() int {
	v, err := strconv.Atoi(k.next())
	if err != nil {
		panic("h5ops: bad integer: " + err.Error())
	}
	return v
}
func (k *toks) ints(n int) []int {
	r := make([]int, n)
	for i := range r {
		r[i] = k.int()
	}
	return r
}
func (k *toks) hex() uint64 {
	v, err := strconv.ParseUint(k.next(), 16, 64)
	if err != nil {
		panic("h5ops: bad hex: " + err.Error())
	}
	return v
}
func (k *toks) name() string {
	s := k.next()
	if !strings.HasPrefix(s, "@") {
		panic("h5ops: name token must start with @: " + s)
	}
	return s[1:]
}

// sess is the state of one SEQ / BIG case: the shared argument objects and the
// notes (UNROLL-MISMATCH, ARGUMENT-MODIFIED) that go to the end of the result line.
type sess struct {
	ty     *typeOps
	big    bool
	shared map[int]interface{}
	notes  []string
}

// srcArr is a source array: the view handed to the API and the contiguous
// array it was cut from (the same object when the view is not sliced).
type srcArr struct {
	view, base interface{}
}

func (k *toks) shareID() (int, bool) {
	if k.p < len(k.t) && k.t[k.p] == "SHARE" {
		k.p++
		return k.int(), true
	}
	return 0, false
}

// shareOr returns the object registered under a SHARE id, or registers the one
// just parsed.  The definition tokens have been consumed either way.
func (s *sess) shareOr(id int, shared bool, parsed interface{}) interface{} {
	if !shared {
		return parsed
	}
	if old, ok := s.shared[id]; ok && reflect.TypeOf(old) == reflect.TypeOf(parsed) {
		return old
	}
	s.shared[id] = parsed
	return parsed
}

// intsArg parses "[SHARE id] <n> v1..vn" (counted = true) or "[SHARE id] v1..vn"
// with a fixed n.
func (s *sess) intsArg(k *toks, counted bool, n int) []int {
	id, sh := k.shareID()
	if counted {
		n = k.int()
	}
	v := k.ints(n)
	if v == nil {
		v = []int{}
	}
	return s.shareOr(id, sh, v).([]int)
}

func (s *sess) sels(k *toks) [][]int {
	id, sh := k.shareID()
	n := k.int()
	sl := make([][]int, n)
	for i := range sl {
		eid, esh := k.shareID()
		switch k.next() {
		case "N":
			sl[i] = nil
		case "T":
			sl[i] = s.shareOr(eid, esh, k.ints(3)).([]int)
		case "X":
			v := k.ints(k.int())
			if v == nil {
				v = []int{}
			}
			sl[i] = s.shareOr(eid, esh, v).([]int)
		default:
			panic("h5ops: bad selection token")
		}
	}
	return s.shareOr(id, sh, sl).([][]int)
}

// sels without sharing (MH command)
func (k *toks) sels(n int) [][]int {
	sl := make([][]int, n)
	for i := range sl {
		switch k.next() {
		case "N":
			sl[i] = nil
		case "T":
			sl[i] = k.ints(3)
		case "X":
			sl[i] = k.ints(k.int())
			if sl[i] == nil {
				sl[i] = []int{}
			}
		default:
			panic("h5ops: bad selection token")
		}
	}
	return sl
}

// arr parses ARR and builds the source view.  SEQ: cross-checks Unroll()
// against the logical content the generator computed (a C02 sanity check; a
// mismatch is printed in the result line so that the check script sees it).
func (s *sess) arr(k *toks) *srcArr {
	ty := s.ty
	id, sh := k.shareID()
	r := k.int()
	base := k.ints(r)
	var b interface{}
	if s.big {
		b = ty.fill(base, k.hex())
	} else {
		n := k.int()
		vals := make([]uint64, n)
		for i := range vals {
			vals[i] = k.hex()
		}
		b = ty.build(base, vals)
	}
	a := &srcArr{view: b, base: b}
	switch k.int() {
	case 1: // one Slice with an explicit step
		start, count, step := k.ints(r), k.ints(r), k.ints(r)
		a.view = ty.slice(b, start, count, step)
	case 2: // a chain of Slice (nil or explicit step) / Reshape operations: "2 <ntokens> <nops> op..."
		k.int()
		for nops := k.int(); nops > 0; nops-- {
			switch k.next() {
			case "S":
				rr := k.int()
				start, count := k.ints(rr), k.ints(rr)
				var step []int
				if k.next() == "E" {
					step = k.ints(rr)
				}
				a.view = ty.slice(a.view, start, count, step)
			case "R":
				a.view = ty.reshape(a.view, k.ints(k.int()))
			default:
				panic("h5ops: bad view operation")
			}
		}
	}
	if s.big {
		// what the view IS is what Get returns; Unroll must agree (property C02)
		if g, u := digestBits(ty.getAll(a.view), ty.bits), digestBits(ty.unroll(a.view), ty.bits); g != u {
			s.notes = append(s.notes, fmt.Sprintf("UNROLL-MISMATCH shape=%v digest(Get row-major)=%s digest(Unroll)=%s", ty.shape(a.view), g, u))
		}
	} else {
		lr := k.int()
		ldims := k.ints(lr)
		ln := k.int()
		lvals := make([]uint64, ln)
		for i := range lvals {
			lvals[i] = k.hex()
		}
		same := func(got []uint64) bool {
			ok := len(got) == len(lvals) && fmt.Sprint(ty.shape(a.view)) == fmt.Sprint(ldims)
			for i := 0; ok && i < len(got); i++ {
				ok = got[i] == lvals[i]
			}
			return ok
		}
		// the generator's logical content is the view read element by element (Get, row-major) ...
		if got := ty.getAll(a.view); !same(got) {
			s.notes = append(s.notes, fmt.Sprintf("GET-MISMATCH shape=%v got=%x want=%x", ty.shape(a.view), got, lvals))
		}
		// ... and Unroll() must give the same (property C02; reported, the I/O oracle still runs)
		if got := ty.unroll(a.view); !same(got) {
			s.notes = append(s.notes, fmt.Sprintf("UNROLL-MISMATCH shape=%v got=%x want=%x", ty.shape(a.view), got, lvals))
		}
	}
	return s.shareOr(id, sh, a).(*srcArr)
}

// ---- snapshots of arguments ("a call must not modify its arguments")

func snapInts(v []int) string { return fmt.Sprintf("%#v", v) }

func snapSel(v [][]int) string { return fmt.Sprintf("%#v", v) }

// descriptor prints every field of the array struct except the storage.
func descriptor(x interface{}) string {
	v := reflect.ValueOf(x)
	for v.Kind() == reflect.Ptr || v.Kind() == reflect.Interface {
		v = v.Elem()
	}
	var b strings.Builder
	var walk func(v reflect.Value)
	walk = func(v reflect.Value) {
		if v.Kind() != reflect.Struct {
			fmt.Fprintf(&b, "%v;", v)
			return
		}
		for i := 0; i < v.NumField(); i++ {
			name := v.Type().Field(i).Name
			if name == "Impl" {
				fmt.Fprintf(&b, "Impl.len=%d;", v.Field(i).Len())
				continue
			}
			if v.Field(i).Kind() == reflect.Struct {
				walk(v.Field(i))
				continue
			}
			fmt.Fprintf(&b, "%s=%v;", name, v.Field(i))
		}
	}
	walk(v)
	return b.String()
}

func digestBits(vals []uint64, bits int) string {
	h := sha256.New()
	buf := make([]byte, 0, 1<<16)
	var tmp [8]byte
	for _, v := range vals {
		binary.LittleEndian.PutUint64(tmp[:], v)
		buf = append(buf, tmp[:bits/8]...)
		if len(buf) >= 1<<16-8 {
			h.Write(buf)
			buf = buf[:0]
		}
	}
	h.Write(buf)
	return fmt.Sprintf("%x", h.Sum(nil)[:8])
}

func (s *sess) snapArr(a *srcArr) string {
	return descriptor(a.view) + "|" + descriptor(a.base) + "|" + digestBits(s.ty.unroll(a.base), s.ty.bits)
}

// checked runs one API call between two snapshots of its arguments.
func (s *sess) checked(opIdx int, op string, snaps func() []string, call func() string) string {
	before := snaps()
	out := guard(call)
	after := snaps()
	for i := range before {
		if before[i] != after[i] {
			b, a := before[i], after[i]
			if len(b) > 300 {
				b, a = b[:300]+"...", a[:300]+"..."
			}
			s.notes = append(s.notes, fmt.Sprintf("ARGUMENT-MODIFIED op=%d:%s arg=%d before=%s after=%s", opIdx, op, i,
				strings.Replace(b, " ", "", -1), strings.Replace(a, " ", "", -1)))
		}
	}
	return out
}

func errstr(err error) string {
	if err != nil {
		return "err"
	}
	return "ok"
}

func guard(f func() string) (out string) {
	defer func() {
		if r := recover(); r != nil {
			out = "panic"
		}
	}()
	return f()
}

func fmtArr(ty *typeOps, a interface{}, big bool) string {
	var b strings.Builder
	sh := ty.shape(a)
	fmt.Fprintf(&b, "%d", len(sh))
	for _, d := range sh {
		fmt.Fprintf(&b, " %d", d)
	}
	u := ty.unroll(a)
	fmt.Fprintf(&b, " %d", len(u))
	if big {
		fmt.Fprintf(&b, " H%s", digestBits(u, ty.bits))
		return b.String()
	}
	for _, v := range u {
		fmt.Fprintf(&b, " %x", v)
	}
	return b.String()
}

func fmtNames(n []string) string {
	var b strings.Builder
	fmt.Fprintf(&b, "ok %d", len(n))
	for _, s := range n {
		b.WriteString(" @" + s)
	}
	return b.String()
}

func runSeq(k *toks, dir string, caseNo int, big bool) string {
	ty := types[k.next()]
	if ty == nil {
		return "BADTYPE"
	}
	fn := filepath.Join(dir, fmt.Sprintf("case%d.h5", caseNo))
	os.Remove(fn)
	defer os.Remove(fn)
	s := &sess{ty: ty, big: big, shared: map[int]interface{}{}}
	var res []string
	opIdx := -1
	for k.more() {
		op := k.next()
		opIdx++
		switch op {
		case "C":
			ds := k.name()
			shape := s.intsArg(k, true, 0)
			c := k.int() == 1
			res = append(res, s.checked(opIdx, op, func() []string { return []string{snapInts(shape)} },
				func() string { return errstr(ty.create(fn, ds, shape, c)) }))
		case "W":
			ds := k.name()
			a := s.arr(k)
			res = append(res, s.checked(opIdx, op, func() []string { return []string{s.snapArr(a)} },
				func() string { return errstr(ty.write(fn, ds, a.view)) }))
		case "S":
			ds := k.name()
			a := s.arr(k)
			loc := s.intsArg(k, true, 0)
			res = append(res, s.checked(opIdx, op, func() []string { return []string{s.snapArr(a), snapInts(loc)} },
				func() string { return errstr(ty.writeSlice(fn, ds, a.view, loc)) }))
		case "L", "LS":
			ds := k.name()
			var sl [][]int
			if op == "LS" {
				sl = s.sels(k)
			}
			res = append(res, s.checked(opIdx, op, func() []string { return []string{snapSel(sl)} }, func() string {
				a, err := ty.load(fn, ds, sl)
				if a == nil {
					return errstr(err)
				}
				if err != nil {
					return "okerr " + fmtArr(ty, a, big)
				}
				return "ok " + fmtArr(ty, a, big)
			}))
		case "P":
			ds := k.name()
			res = append(res, guard(func() string {
				sh, err := ty.shapeOf(fn, ds)
				if err != nil {
					return "err"
				}
				s := fmt.Sprintf("ok %d", len(sh))
				for _, d := range sh {
					s += fmt.Sprintf(" %d", d)
				}
				return s
			}))
		case "E":
			ds := k.name()
			res = append(res, guard(func() string { return fmt.Sprint(ty.exists(fn, ds)) }))
		case "D", "G":
			ds := k.name()
			res = append(res, guard(func() string {
				var n []string
				var err error
				if op == "D" {
					n, err = ty.datasets(fn, ds)
				} else {
					n, err = ty.groups(fn, ds)
				}
				if err != nil {
					return "err"
				}
				return fmtNames(n)
			}))
		default:
			panic("h5ops: unknown op " + op)
		}
	}
	out := strings.Join(res, " | ") + " || " + dumpFile(fn, big)
	if len(s.notes) > 0 {
		out += " ## " + strings.Join(s.notes, " ; ")
	}
	return out
}

// dumpFile prints the objects of the file, sorted by path, using only calls
// that exist in the real binding: "g:<path>" and
// "d:<path> r d1..dr n c1..cn" (cells = raw little-endian values of the
// dataset's own element size).
func dumpFile(fn string, big bool) string {
	if _, err := os.Stat(fn); os.IsNotExist(err) {
		return "NOFILE"
	}
	f, err := hdf5.OpenFile(fn, hdf5.F_ACC_RDONLY)
	if err != nil {
		return "UNREADABLE"
	}
	defer f.Close()
	var lines []string
	var walk func(g *hdf5.CommonFG, path string)
	walk = func(g *hdf5.CommonFG, path string) {
		n, _ := g.NumObjects()
		for i := uint(0); i < n; i++ {
			name, _ := g.ObjectNameByIndex(i)
			typ, _ := g.ObjectTypeByIndex(i)
			p := path + "/" + name
			if typ == hdf5.H5G_GROUP {
				lines = append(lines, "g:"+p)
				sub, err := g.OpenGroup(name)
				if err == nil {
					walk(&sub.CommonFG, p)
					sub.Close()
				}
				continue
			}
			ds, err := g.OpenDataset(name)
			if err != nil {
				lines = append(lines, "?:"+p)
				continue
			}
			sp := ds.Space()
			rank := sp.SimpleExtentNDims()
			dims := []uint{}
			if rank > 0 {
				dims, _, _ = sp.SimpleExtentDims()
			}
			dt, _ := ds.Datatype()
			esz := int(dt.Size())
			cnt := 1
			for _, d := range dims {
				cnt *= int(d)
			}
			raw := make([]byte, cnt*esz)
			if cnt > 0 {
				ds.Read(&raw)
			}
			var b strings.Builder
			fmt.Fprintf(&b, "d:%s %d", p, len(dims))
			for _, d := range dims {
				fmt.Fprintf(&b, " %d", d)
			}
			fmt.Fprintf(&b, " %d", cnt)
			if big {
				// digest of the whole dataset, then of every index of the first axis
				sum := sha256.Sum256(raw)
				fmt.Fprintf(&b, " H%x", sum[:8])
				if len(dims) > 0 && dims[0] > 0 && dims[0] <= 64 {
					row := len(raw) / int(dims[0])
					for r := 0; r < int(dims[0]); r++ {
						rs := sha256.Sum256(raw[r*row : (r+1)*row])
						fmt.Fprintf(&b, " R%x", rs[:4])
					}
				}
				cnt = 0
			}
			for c := 0; c < cnt; c++ {
				var v uint64
				for j := esz - 1; j >= 0; j-- {
					v = v<<8 | uint64(raw[c*esz+j])
				}
				fmt.Fprintf(&b, " %x", v)
			}
			lines = append(lines, b.String())
			dt.Close()
			sp.Close()
			ds.Close()
		}
	}
	walk(&f.CommonFG, "")
	sort.Strings(lines)
	return "FILE " + strconv.Itoa(len(lines)) + " " + strings.Join(lines, " ; ")
}

func sliceSizeStr(sl []int, n int) (out string) {
	defer func() {
		if r := recover(); r != nil {
			out = "P"
		}
	}()
	return strconv.Itoa(owio.VerifSliceSize(sl, n))
}

func hyperStr(sl [][]int, dims []int) (out string) {
	defer func() {
		if r := recover(); r != nil {
			out = "P"
		}
	}()
	o, s, c, b := owio.VerifMakeHyperslab(sl, dims)
	f := func(u []uint) string {
		p := make([]string, len(u))
		for i, v := range u {
			p[i] = strconv.FormatUint(uint64(v), 10)
		}
		return strings.Join(p, ",")
	}
	return f(o) + ":" + f(s) + ":" + f(c) + ":" + f(b)
}

func main() {
	conc := flag.Int("conc", 0, "run the concurrency stress with this many goroutines")
	rounds := flag.Int("rounds", 40, "operations per goroutine in the concurrency stress")
	concload := flag.Int("concload", 0, "run the concurrent-results stream (loads with different selections at the same time; loads + writers) with this many goroutines")
	seed := flag.Int64("seed", 0, "seed of the concurrent-results stream")
	delay := flag.Duration("delay", 200*time.Microsecond, "duration forced on every library call in the concurrent-results stream")
	flag.Parse()
	if *concload > 0 {
		os.Exit(runConcLoad(*concload, *rounds, *seed, *delay))
	}
	if *conc > 0 {
		os.Exit(runConc(*conc, *rounds))
	}
	dir, err := ioutil.TempDir("", "h5ops")
	if err != nil {
		panic(err)
	}
	defer os.RemoveAll(dir)
	in := bufio.NewReaderSize(os.Stdin, 1<<20)
	out := bufio.NewWriter(os.Stdout)
	defer out.Flush()
	caseNo := 0
	for {
		line, err := in.ReadString('\n')
		if line = strings.TrimSpace(line); line != "" {
			caseNo++
			k := &toks{t: strings.Fields(line)}
			switch k.next() {
			case "SEQ":
				fmt.Fprintln(out, runSeq(k, dir, caseNo, false))
			case "BIG":
				fmt.Fprintln(out, runSeq(k, dir, caseNo, true))
			case "SSALL", "MH1ALL":
				cmd := k.t[0]
				amax, bmax, smin, smax, nmax := k.int(), k.int(), k.int(), k.int(), k.int()
				var r []string
				for a := 0; a <= amax; a++ {
					for b := 0; b <= bmax; b++ {
						for s := smin; s <= smax; s++ {
							for n := 0; n <= nmax; n++ {
								if cmd == "SSALL" {
									r = append(r, sliceSizeStr([]int{a, b, s}, n))
								} else {
									r = append(r, hyperStr([][]int{{a, b, s}}, []int{n}))
								}
							}
						}
					}
				}
				if cmd == "MH1ALL" {
					for n := 0; n <= nmax; n++ {
						r = append(r, hyperStr([][]int{nil}, []int{n}))
					}
				}
				fmt.Fprintln(out, strings.Join(r, " "))
			case "SSLIST":
				var r []string
				for n := k.int(); n > 0; n-- {
					sl := k.ints(3)
					r = append(r, sliceSizeStr(sl, k.int()))
				}
				fmt.Fprintln(out, strings.Join(r, " "))
			case "MH":
				sl := k.sels(k.int())
				dims := k.ints(k.int())
				fmt.Fprintln(out, hyperStr(sl, dims))
			default:
				fmt.Fprintln(out, "NOCMD")
			}
			out.Flush()
		}
		if err != nil {
			break
		}
	}
}
