package main

// every model package of the tree registers its wrappers in sim.Catalog from init()
import _ "github.com/flowmatters/openwater-core/models"
