// catprobe: VALUE-SEMANTICS / ALIASING probe on what the generated wrappers hand
// out.  "The catalogue entry is what the generator produced" has to hold at
// every call, not only at the first one: a caller owns the value it was given.
//
// Default mode, for every key of sim.Catalog (linked against the tree named by
// the module's replace directive):
//
//	Description()      take it from a fresh object, render a deep snapshot, then SCRIBBLE over every
//	                   slice element, map entry, string, number and bool reachable from the returned
//	                   value (generic, by reflection: slices are also reversed in place), then ask the
//	                   SAME object again and a NEW object from the catalogue, and compare each top-level
//	                   field with the snapshot.
//	FindDimensions()   ([]int) and InitialiseStates(n) (an array) get the same treatment on a parameter
//	                   table built from the snapshot's defaults (dimension parameters = 2); a panic of the
//	                   model code before the scribble makes that accessor "not evaluable" (reported).
//
// -run <key>: a real run through sim.RunSingleModelJSON (all parameters from the Description defaults,
// deterministic input series) BEFORE and AFTER scribbling over the Description of a fresh object; prints
// RUN1 <json> and RUN2 <json>.  One process per model: a kernel panic inside a goroutine kills the process.
//
// If the kernel cannot run on the defaults (no RUN1 line), the caller retries with -params mid.
//
// -seed varies the values written by the scribble.  Output: JSON on stdout.
package main

import (
	"bytes"
	"encoding/json"
	"flag"
	"fmt"
	"math"
	"os"
	"reflect"
	"sort"
	"strings"

	"github.com/flowmatters/openwater-core/data"
	"github.com/flowmatters/openwater-core/sim"
)

var seed int64

// render: canonical deep text of a value (floats as IEEE bits), independent of the value's storage
func render(v reflect.Value, b *bytes.Buffer) {
	switch v.Kind() {
	case reflect.Ptr, reflect.Interface:
		if v.IsNil() {
			b.WriteString("nil")
			return
		}
		render(v.Elem(), b)
	case reflect.Struct:
		b.WriteString("{")
		for i := 0; i < v.NumField(); i++ {
			fmt.Fprintf(b, "%s:", v.Type().Field(i).Name)
			render(v.Field(i), b)
			b.WriteString(";")
		}
		b.WriteString("}")
	case reflect.Slice, reflect.Array:
		fmt.Fprintf(b, "[%d|", v.Len())
		for i := 0; i < v.Len(); i++ {
			render(v.Index(i), b)
			b.WriteString(",")
		}
		b.WriteString("]")
	case reflect.Map:
		keys := v.MapKeys()
		ks := make([]string, len(keys))
		m := map[string]reflect.Value{}
		for i, k := range keys {
			var kb bytes.Buffer
			render(k, &kb)
			ks[i] = kb.String()
			m[ks[i]] = v.MapIndex(k)
		}
		sort.Strings(ks)
		b.WriteString("map{")
		for _, k := range ks {
			b.WriteString(k + "=>")
			render(m[k], b)
			b.WriteString(",")
		}
		b.WriteString("}")
	case reflect.Float32, reflect.Float64:
		fmt.Fprintf(b, "f%016x", math.Float64bits(v.Float()))
	case reflect.String:
		fmt.Fprintf(b, "%q", v.String())
	case reflect.Bool:
		fmt.Fprintf(b, "%v", v.Bool())
	case reflect.Int, reflect.Int8, reflect.Int16, reflect.Int32, reflect.Int64:
		fmt.Fprintf(b, "i%d", v.Int())
	case reflect.Uint, reflect.Uint8, reflect.Uint16, reflect.Uint32, reflect.Uint64:
		fmt.Fprintf(b, "u%d", v.Uint())
	default:
		fmt.Fprintf(b, "<%s>", v.Kind())
	}
}

func renderStr(x interface{}) string {
	var b bytes.Buffer
	render(reflect.ValueOf(x), &b)
	return b.String()
}

// scribble overwrites everything reachable from v that can be written; returns the number of cells written
func scribble(v reflect.Value) int {
	n := 0
	switch v.Kind() {
	case reflect.Ptr, reflect.Interface:
		if !v.IsNil() {
			n += scribble(v.Elem())
		}
	case reflect.Struct:
		for i := 0; i < v.NumField(); i++ {
			if v.Field(i).CanSet() || v.Field(i).Kind() == reflect.Slice || v.Field(i).Kind() == reflect.Map {
				n += scribble(v.Field(i))
			}
		}
	case reflect.Slice, reflect.Array:
		for i := 0; i < v.Len(); i++ {
			n += scribble(v.Index(i))
		}
		if v.Kind() == reflect.Slice || v.CanSet() {
			for i, j := 0, v.Len()-1; i < j; i, j = i+1, j-1 { // reverse in place (a caller sorting its copy)
				if v.Index(i).CanSet() {
					t := reflect.New(v.Type().Elem()).Elem()
					t.Set(v.Index(i))
					v.Index(i).Set(v.Index(j))
					v.Index(j).Set(t)
					n++
				}
			}
		}
	case reflect.Map:
		for _, k := range v.MapKeys() {
			nv := reflect.New(v.Type().Elem()).Elem()
			nv.Set(v.MapIndex(k))
			n += scribble(nv)
			v.SetMapIndex(k, nv)
		}
	case reflect.Float32, reflect.Float64:
		if v.CanSet() {
			v.SetFloat(-(v.Float()*3 + 12345.678 + float64(seed)))
			n++
		}
	case reflect.String:
		if v.CanSet() {
			v.SetString(fmt.Sprintf("SCRIBBLED-%d:%s", seed, v.String()))
			n++
		}
	case reflect.Bool:
		if v.CanSet() {
			v.SetBool(!v.Bool())
			n++
		}
	case reflect.Int, reflect.Int8, reflect.Int16, reflect.Int32, reflect.Int64:
		if v.CanSet() {
			v.SetInt(v.Int() + 41 + seed)
			n++
		}
	case reflect.Uint, reflect.Uint8, reflect.Uint16, reflect.Uint32, reflect.Uint64:
		if v.CanSet() {
			v.SetUint(v.Uint() + 41 + uint64(seed))
			n++
		}
	}
	return n
}

type fieldDiff struct {
	Field  string `json:"field"`
	Object string `json:"object"` // same-object | new-object
	Before string `json:"before"`
	After  string `json:"after"`
}

type accessor struct {
	Accessor  string      `json:"accessor"`
	Status    string      `json:"status"` // ok | differs | not-evaluable
	Cells     int         `json:"cells_scribbled"`
	Reachable int         `json:"snapshot_bytes"`
	Diffs     []fieldDiff `json:"differences"`
	Note      string      `json:"note,omitempty"`
}

type result struct {
	Key       string     `json:"key"`
	Accessors []accessor `json:"accessors"`
}

func fieldsOf(x interface{}) ([]string, []string) {
	v := reflect.ValueOf(x)
	if v.Kind() != reflect.Struct {
		return []string{"value"}, []string{renderStr(x)}
	}
	var names, texts []string
	for i := 0; i < v.NumField(); i++ {
		var b bytes.Buffer
		render(v.Field(i), &b)
		names = append(names, v.Type().Field(i).Name)
		texts = append(texts, b.String())
	}
	return names, texts
}

func short(s string) string {
	if len(s) > 400 {
		return s[:400] + "..."
	}
	return s
}

func compare(names, snap []string, now interface{}, object string) []fieldDiff {
	var d []fieldDiff
	_, texts := fieldsOf(now)
	for i := range names {
		t := "<missing>"
		if i < len(texts) {
			t = texts[i]
		}
		if t != snap[i] {
			d = append(d, fieldDiff{names[i], object, short(snap[i]), short(t)})
		}
	}
	return d
}

func probeDescription(factory func() sim.TimeSteppingModel) accessor {
	a := accessor{Accessor: "Description", Status: "ok", Diffs: []fieldDiff{}}
	m1 := factory()
	d := m1.Description()
	names, snap := fieldsOf(d)
	a.Reachable = len(strings.Join(snap, ""))
	a.Cells = scribble(reflect.ValueOf(&d).Elem())
	a.Diffs = append(a.Diffs, compare(names, snap, m1.Description(), "same-object")...)
	a.Diffs = append(a.Diffs, compare(names, snap, factory().Description(), "new-object")...)
	// and once more after a second scribble of a value taken from the NEW object
	d2 := factory().Description()
	a.Cells += scribble(reflect.ValueOf(&d2).Elem())
	a.Diffs = append(a.Diffs, compare(names, snap, factory().Description(), "new-object-after-second-scribble")...)
	if len(a.Diffs) > 0 {
		a.Status = "differs"
	}
	return a
}

// parameter table (rows x 1 cell) from a description: defaults, dimension parameters = 2, tables of 2 per dimension
func paramTable(d sim.ModelDescription) (data.ND2Float64, []int) {
	isDim := map[string]bool{}
	for _, n := range d.Dimensions {
		isDim[n] = true
	}
	var vals []float64
	for _, p := range d.Parameters {
		rows := 1
		for range p.Dimensions {
			rows *= 2
		}
		for r := 0; r < rows; r++ {
			if isDim[p.Name] {
				vals = append(vals, 2)
			} else {
				vals = append(vals, p.Default)
			}
		}
	}
	t := data.NewArray2DFloat64(len(vals), 1)
	for i, v := range vals {
		t.Set2(i, 0, v)
	}
	dims := make([]int, len(d.Dimensions))
	for i := range dims {
		dims[i] = 2
	}
	return t, dims
}

func guarded(f func()) (msg string) {
	defer func() {
		if r := recover(); r != nil {
			msg = fmt.Sprint(r)
		}
	}()
	f()
	return ""
}

func probeFindDimensions(factory func() sim.TimeSteppingModel, desc sim.ModelDescription) accessor {
	a := accessor{Accessor: "FindDimensions", Status: "ok", Diffs: []fieldDiff{}}
	var r1, r2, r3 []int
	if msg := guarded(func() { t, _ := paramTable(desc); r1 = factory().FindDimensions(t) }); msg != "" {
		a.Status, a.Note = "not-evaluable", "panic before the scribble: "+msg
		return a
	}
	snap := renderStr(r1)
	a.Reachable = len(snap)
	a.Cells = scribble(reflect.ValueOf(&r1).Elem())
	m := factory()
	if msg := guarded(func() {
		t, _ := paramTable(desc)
		r2 = m.FindDimensions(t)
		t2, _ := paramTable(desc)
		r3 = m.FindDimensions(t2)
	}); msg != "" {
		a.Status = "differs"
		a.Diffs = append(a.Diffs, fieldDiff{"result", "new-object", short(snap), "panic after the scribble: " + msg})
		return a
	}
	if s := renderStr(r2); s != snap {
		a.Diffs = append(a.Diffs, fieldDiff{"result", "new-object", short(snap), short(s)})
	}
	scribble(reflect.ValueOf(&r2).Elem())
	if s := renderStr(r3); s != snap {
		a.Diffs = append(a.Diffs, fieldDiff{"result", "same-object", short(snap), short(s)})
	}
	if len(a.Diffs) > 0 {
		a.Status = "differs"
	}
	return a
}

func arrayText(x data.ND2Float64) string {
	if x == nil {
		return "nil"
	}
	sh := x.Shape()
	var b bytes.Buffer
	fmt.Fprintf(&b, "%v|", sh)
	if len(sh) == 2 {
		for i := 0; i < sh[0]; i++ {
			for j := 0; j < sh[1]; j++ {
				fmt.Fprintf(&b, "f%016x,", math.Float64bits(x.Get2(i, j)))
			}
		}
	}
	return b.String()
}

func probeInitialiseStates(factory func() sim.TimeSteppingModel, desc sim.ModelDescription) accessor {
	a := accessor{Accessor: "InitialiseStates", Status: "ok", Diffs: []fieldDiff{}}
	prep := func() sim.TimeSteppingModel {
		m := factory()
		t, dims := paramTable(desc)
		m.InitialiseDimensions(dims)
		m.ApplyParameters(t)
		return m
	}
	var s1 data.ND2Float64
	var m sim.TimeSteppingModel
	if msg := guarded(func() { m = prep(); s1 = m.InitialiseStates(2) }); msg != "" {
		a.Status, a.Note = "not-evaluable", "panic before the scribble: "+msg
		return a
	}
	snap := arrayText(s1)
	a.Reachable = len(snap)
	if s1 != nil {
		sh := s1.Shape()
		if len(sh) == 2 {
			for i := 0; i < sh[0]; i++ {
				for j := 0; j < sh[1]; j++ {
					s1.Set2(i, j, -(s1.Get2(i, j)*3 + 777 + float64(seed)))
					a.Cells++
				}
			}
		}
	}
	var again, fresh string
	if msg := guarded(func() { again = arrayText(m.InitialiseStates(2)); fresh = arrayText(prep().InitialiseStates(2)) }); msg != "" {
		a.Status = "differs"
		a.Diffs = append(a.Diffs, fieldDiff{"states", "new-object", short(snap), "panic after the scribble: " + msg})
		return a
	}
	if again != snap {
		a.Diffs = append(a.Diffs, fieldDiff{"states", "same-object", short(snap), short(again)})
	}
	if fresh != snap {
		a.Diffs = append(a.Diffs, fieldDiff{"states", "new-object", short(snap), short(fresh)})
	}
	if len(a.Diffs) > 0 {
		a.Status = "differs"
	}
	return a
}

var paramMode string

func request(key string, d sim.ModelDescription) []byte {
	type in struct {
		Name   string
		Values []float64
	}
	type pv struct {
		Name  string
		Value float64
	}
	req := struct {
		Name       string
		Inputs     []in
		Parameters []pv
	}{Name: key, Parameters: []pv{}}
	if paramMode == "mid" { // every parameter with a proper range is supplied as the middle of its range
		for _, p := range d.Parameters {
			if p.Range[0] < p.Range[1] {
				req.Parameters = append(req.Parameters, pv{p.Name, (p.Range[0] + p.Range[1]) / 2})
			}
		}
	}
	for i, n := range d.Inputs {
		vals := make([]float64, 6)
		for t := range vals {
			vals[t] = 1 + 0.5*float64(i) + 0.25*float64(t) + float64(seed%3)
		}
		req.Inputs = append(req.Inputs, in{n, vals})
	}
	b, _ := json.Marshal(req)
	return b
}

func runProbe(key string) {
	factory, ok := sim.Catalog[key]
	if !ok {
		fmt.Println("NOMODEL")
		return
	}
	// the request is built from a description that is NOT touched afterwards (deep copy through the renderer's own reading)
	d0 := factory().Description()
	inputs := append([]string{}, d0.Inputs...)
	clean := sim.ModelDescription{Inputs: inputs}
	for _, p := range d0.Parameters {
		clean.Parameters = append(clean.Parameters, sim.ParameterDescription{Name: string(append([]byte{}, p.Name...)), Range: p.Range})
	}
	req := request(key, clean)
	var o1 bytes.Buffer
	sim.RunSingleModelJSON(bytes.NewReader(req), &o1, true)
	fmt.Printf("RUN1 %s\n", strings.TrimSpace(o1.String()))
	os.Stdout.Sync()
	d := factory().Description()
	n := scribble(reflect.ValueOf(&d).Elem())
	fmt.Printf("SCRIBBLED %d\n", n)
	var o2 bytes.Buffer
	sim.RunSingleModelJSON(bytes.NewReader(req), &o2, true)
	fmt.Printf("RUN2 %s\n", strings.TrimSpace(o2.String()))
}

func main() {
	run := flag.String("run", "", "run probe for this catalogue key")
	flag.Int64Var(&seed, "seed", 0, "varies the scribbled values")
	flag.StringVar(&paramMode, "params", "defaults", "run probe: `defaults` (nothing supplied, everything from Description) or `mid` (middle of each declared range)")
	flag.Parse()
	if *run != "" {
		runProbe(*run)
		return
	}
	keys := make([]string, 0, len(sim.Catalog))
	for k := range sim.Catalog {
		keys = append(keys, k)
	}
	sort.Strings(keys)
	// snapshots for the other accessors are taken BEFORE any scribbling, by value through the renderer-independent copy below
	descs := map[string]sim.ModelDescription{}
	for _, k := range keys {
		d := sim.Catalog[k]().Description()
		// deep copy (so that later scribbles cannot reach the tables used to build parameter arrays)
		c := sim.ModelDescription{States: append([]string{}, d.States...), Inputs: append([]string{}, d.Inputs...),
			Outputs: append([]string{}, d.Outputs...), Dimensions: append([]string{}, d.Dimensions...)}
		for _, p := range d.Parameters {
			q := p
			q.Dimensions = append([]string{}, p.Dimensions...)
			c.Parameters = append(c.Parameters, q)
		}
		descs[k] = c
	}
	var all []result
	for _, k := range keys {
		f := sim.Catalog[k]
		r := result{Key: k}
		r.Accessors = append(r.Accessors, probeDescription(f), probeFindDimensions(f, descs[k]), probeInitialiseStates(f, descs[k]))
		all = append(all, r)
	}
	out, _ := json.MarshalIndent(map[string]interface{}{"seed": seed, "probes": all}, "", " ")
	os.Stdout.Write(append(out, '\n'))
}
