package main

import (
	"fmt"

	"github.com/flowmatters/openwater-core/data"
	owio "github.com/flowmatters/openwater-core/io"
	"gonum.org/v1/hdf5"
)

// Writing the input file of ow-sim.  Everything that package io's H5Ref API can
// create is created through it (H5RefFloat64 / H5RefInt32 / H5RefUint32 .Write);
// groups, the fixed-length string dataset /META/models and datasets with a zero
// extent (H5Ref.Write reads element 0 of the array to find the datatype, so it
// cannot write an empty array) are created directly through the hdf5 package.

func product(shape []int) int {
	n := 1
	for _, d := range shape {
		n *= d
	}
	return n
}

func dsPath(group, name string) string {
	if group == "/" || group == "" {
		return "/" + name
	}
	return group + "/" + name
}

func toUints(shape []int) []uint {
	r := make([]uint, len(shape))
	for i, d := range shape {
		r[i] = uint(d)
	}
	return r
}

// createEmptyDataset creates a dataset with (at least one) zero extent directly.
func createEmptyDataset(fn, group, name string, shape []int, example interface{}) error {
	f, err := hdf5.OpenFile(fn, hdf5.F_ACC_RDWR)
	if err != nil {
		return err
	}
	defer f.Close()
	g, err := f.OpenGroup(group)
	if err != nil {
		return err
	}
	defer g.Close()
	dt, err := hdf5.NewDatatypeFromValue(example)
	if err != nil {
		return err
	}
	defer dt.Close()
	sp, err := hdf5.CreateSimpleDataspace(toUints(shape), nil)
	if err != nil {
		return err
	}
	defer sp.Close()
	ds, err := g.CreateDataset(name, dt, sp)
	if err != nil {
		return err
	}
	return ds.Close()
}

func writeFloat64(fn, group, name string, values []float64, shape []int) error {
	if len(shape) == 0 || product(shape) == 0 {
		return createEmptyDataset(fn, group, name, shape, float64(0))
	}
	ref := owio.H5RefFloat64{Filename: fn, Dataset: dsPath(group, name)}
	return ref.Write(data.ArrayFromSliceFloat64(values, shape))
}

func writeInt32(fn, group, name string, values []int32, shape []int) error {
	if product(shape) == 0 {
		return createEmptyDataset(fn, group, name, shape, int32(0))
	}
	ref := owio.H5RefInt32{Filename: fn, Dataset: dsPath(group, name)}
	return ref.Write(data.ArrayFromSliceInt32(values, shape))
}

func writeUint32(fn, group, name string, values []uint32, shape []int) error {
	if product(shape) == 0 {
		return createEmptyDataset(fn, group, name, shape, uint32(0))
	}
	ref := owio.H5RefUint32{Filename: fn, Dataset: dsPath(group, name)}
	return ref.Write(data.ArrayFromSliceUint32(values, shape))
}

// writeSkeleton creates the file, the groups and /META/models.
func writeSkeleton(fn string, c *simCase) error {
	f, err := hdf5.CreateFile(fn, hdf5.F_ACC_TRUNC)
	if err != nil {
		return err
	}
	defer f.Close()
	for _, name := range []string{"META", "DIMENSIONS", "MODELS"} {
		g, err := f.CreateGroup(name)
		if err != nil {
			return fmt.Errorf("group %s: %s", name, err)
		}
		g.Close()
	}
	models, err := f.OpenGroup("MODELS")
	if err != nil {
		return err
	}
	defer models.Close()
	width := 1
	seen := map[string]bool{}
	for _, m := range c.Models {
		if len(m.Name) > width {
			width = len(m.Name)
		}
		if seen[m.Name] {
			continue // a duplicated model name shares one group
		}
		seen[m.Name] = true
		g, err := models.CreateGroup(m.Name)
		if err != nil {
			return fmt.Errorf("group MODELS/%s: %s", m.Name, err)
		}
		g.Close()
	}

	meta, err := f.OpenGroup("META")
	if err != nil {
		return err
	}
	defer meta.Close()
	st, err := hdf5.T_C_S1.Copy()
	if err != nil {
		return err
	}
	defer st.Close()
	if err := st.SetSize(width); err != nil {
		return err
	}
	raw := make([]byte, width*len(c.Models))
	for i, m := range c.Models {
		copy(raw[i*width:(i+1)*width], m.Name)
	}
	sp, err := hdf5.CreateSimpleDataspace([]uint{uint(len(c.Models))}, nil)
	if err != nil {
		return err
	}
	defer sp.Close()
	ds, err := meta.CreateDataset("models", st, sp)
	if err != nil {
		return err
	}
	defer ds.Close()
	if len(raw) > 0 {
		if err := ds.Write(&raw); err != nil {
			return err
		}
	}
	return nil
}

// what of a model's three tables goes into a file: 0 = nothing, 1 = the real values, 2 = a decoy (different values,
// same shape) that ow-sim must not use
type fileContent struct {
	structure              bool // /LINKS and batches
	params, states, inputs int
}

func decoy(v []float64) []float64 {
	r := make([]float64, len(v))
	for i, x := range v {
		r[i] = x + 1
	}
	return r
}

// writeInputFile writes the complete ow-sim input file for the case.
func writeInputFile(fn string, c *simCase) (err error) {
	return writeCaseFile(fn, c, fileContent{structure: true, params: 1, states: 1, inputs: 1})
}

// writeCaseFile writes one of the files ow-sim reads (structure file, or a separate time-series / parameter /
// initial-states file).
func writeCaseFile(fn string, c *simCase, what fileContent) (err error) {
	defer func() {
		if r := recover(); r != nil {
			err = fmt.Errorf("panic while writing %s: %v", fn, r)
		}
	}()
	if err := writeSkeleton(fn, c); err != nil {
		return fmt.Errorf("skeleton: %s", err)
	}

	if what.structure {
		links := make([]uint32, 0, 10*len(c.Links))
		for _, l := range c.Links {
			links = append(links, l[:]...)
		}
		if err := writeUint32(fn, "/", "LINKS", links, []int{len(c.Links), 10}); err != nil {
			return fmt.Errorf("/LINKS: %s", err)
		}
	}

	done := map[string]bool{}
	for _, m := range c.Models {
		if done[m.Name] {
			continue
		}
		done[m.Name] = true
		grp := "/MODELS/" + m.Name
		if what.structure {
			if err := writeInt32(fn, grp, "batches", m.Batches, []int{len(m.Batches)}); err != nil {
				return fmt.Errorf("%s/batches: %s", grp, err)
			}
		}
		if what.params != 0 {
			// parameters: [nParams x nNodes] (transposed w.r.t. the case file)
			params := make([]float64, m.NP*m.N)
			for n := 0; n < m.N; n++ {
				for p := 0; p < m.NP; p++ {
					params[p*m.N+n] = m.Params[n][p]
				}
			}
			if what.params == 2 {
				params = decoy(params)
			}
			if err := writeFloat64(fn, grp, "parameters", params, []int{m.NP, m.N}); err != nil {
				return fmt.Errorf("%s/parameters: %s", grp, err)
			}
		}
		if what.states != 0 {
			states := make([]float64, 0, m.N*m.NS)
			for n := 0; n < m.N; n++ {
				states = append(states, m.States[n]...)
			}
			if what.states == 2 {
				states = decoy(states)
			}
			if err := writeFloat64(fn, grp, "states", states, []int{m.N, m.NS}); err != nil {
				return fmt.Errorf("%s/states: %s", grp, err)
			}
		}
		if what.inputs == 1 && m.HasIn || what.inputs == 2 {
			inputs := make([]float64, 0, m.N*m.NI*c.T)
			if m.HasIn {
				for n := 0; n < m.N; n++ {
					inputs = append(inputs, m.Inputs[n]...)
				}
			} else {
				inputs = make([]float64, m.N*m.NI*c.T) // decoy for a model without stored inputs
				for i := range inputs {
					inputs[i] = 6
				}
			}
			if what.inputs == 2 {
				inputs = decoy(inputs)
			}
			if err := writeFloat64(fn, grp, "inputs", inputs, []int{m.N, m.NI, c.T}); err != nil {
				return fmt.Errorf("%s/inputs: %s", grp, err)
			}
		}
	}
	return nil
}
