package main

import (
	"fmt"
	"io/ioutil"
	"math"
	"strconv"
	"strings"
)

// modelSpec is one MODEL block of a case file.
type modelSpec struct {
	Name    string
	Batches []int32 // cumulative node counts per generation
	NP      int
	NS      int
	NI      int
	NO      int
	HasIn   bool
	N       int
	Params  [][]float64 // [N][NP]   one parameter column per node
	States  [][]float64 // [N][NS]
	Inputs  [][]float64 // [N][NI*T] input-major, only when HasIn
}

// simCase is a parsed case file.
type simCase struct {
	ID          string
	T           int
	Models      []*modelSpec
	Links       [][10]uint32
	OutFile     bool
	Flags       []string
	Split       []string
	// FINALSTATES <k>: 0 = final states go to the output file; 1 = -final-states <fresh file>;
	// 2 = -final-states <the file the initial states are read from> (a hot-start file updated in place: states.h5
	//     when LAYOUT st != 0, else the structure file in.h5); 3 = -final-states in.h5 (the structure file);
	// 4 = -final-states <the time-series file> (ts.h5 when LAYOUT ts != 0, else in.h5)
	FinalStates     bool
	FinalStatesMode int
	// LAYOUT <ts> <par> <st> <pre> (optional, before END): where ow-sim is told to find things.
	//   ts/par/st: 0 = in the structure file in.h5 (no flag);
	//              1 = ONLY in a separate file given by -input-timeseries / -parameters / -initial-states;
	//              2 = in the separate file, and the structure file holds a DIFFERENT (decoy) copy that must be ignored
	//                  (for ts also decoy inputs datasets of models that have no stored inputs)
	//   pre: 0 = no out.h5 beforehand; 1 = a stale out.h5 exists and -overwrite is given; 2 = a stale out.h5 exists,
	//        no -overwrite: ow-sim must refuse (exit 1) and leave the file alone; 3 = -overwrite given, nothing to overwrite
	LayoutTS, LayoutPar, LayoutSt, LayoutPre int
}

func (c *simCase) isSplit(name string) bool {
	for _, s := range c.Split {
		if s == name {
			return true
		}
	}
	return false
}

// generationOf returns the generation of global row r of the model (the first
// g with r < b_g), or -1 when r is not a row of the model.
func (m *modelSpec) generationOf(r int) int {
	if r < 0 {
		return -1
	}
	for g, b := range m.Batches {
		if r < int(b) {
			return g
		}
	}
	return -1
}

type tokens struct {
	t []string
	i int
}

type parseError string

func (t *tokens) fail(format string, a ...interface{}) {
	panic(parseError(fmt.Sprintf("token %d: ", t.i) + fmt.Sprintf(format, a...)))
}

func (t *tokens) next() string {
	if t.i >= len(t.t) {
		t.fail("unexpected end of file")
	}
	s := t.t[t.i]
	t.i++
	return s
}

func (t *tokens) expect(s string) {
	if g := t.next(); g != s {
		t.i--
		t.fail("expected %q, got %q", s, g)
	}
}

func (t *tokens) int() int {
	s := t.next()
	n, err := strconv.Atoi(s)
	if err != nil || n < 0 {
		t.i--
		t.fail("expected a non-negative integer, got %q", s)
	}
	return n
}

func (t *tokens) uint32() uint32 {
	s := t.next()
	n, err := strconv.ParseUint(s, 10, 32)
	if err != nil {
		t.i--
		t.fail("expected an unsigned 32-bit integer, got %q", s)
	}
	return uint32(n)
}

func (t *tokens) float() float64 {
	s := t.next()
	u, err := strconv.ParseUint(s, 16, 64)
	if err != nil || len(s) != 16 {
		t.i--
		t.fail("expected 16 hex digits, got %q", s)
	}
	return math.Float64frombits(u)
}

func (t *tokens) floats(n int) []float64 {
	r := make([]float64, n)
	for i := range r {
		r[i] = t.float()
	}
	return r
}

func (t *tokens) bool01() bool {
	switch s := t.next(); s {
	case "0":
		return false
	case "1":
		return true
	default:
		t.i--
		t.fail("expected 0 or 1, got %q", s)
	}
	return false
}

// parseCase reads a case file as a pure token stream.
func parseCase(fn string) (c *simCase, err error) {
	raw, err := ioutil.ReadFile(fn)
	if err != nil {
		return nil, err
	}
	t := &tokens{t: strings.Fields(string(raw))}
	c = &simCase{ID: "?"}
	defer func() {
		if r := recover(); r != nil {
			if pe, ok := r.(parseError); ok {
				err = fmt.Errorf("%s", string(pe))
				return
			}
			panic(r)
		}
	}()
	t.expect("CASE")
	c.ID = t.next()
	t.expect("T")
	c.T = t.int()
	t.expect("NMODELS")
	nm := t.int()
	for k := 0; k < nm; k++ {
		m := &modelSpec{}
		t.expect("MODEL")
		m.Name = t.next()
		t.expect("G")
		g := t.int()
		m.Batches = make([]int32, g)
		for i := range m.Batches {
			m.Batches[i] = int32(t.int())
		}
		t.expect("NP")
		m.NP = t.int()
		t.expect("NS")
		m.NS = t.int()
		t.expect("NI")
		m.NI = t.int()
		t.expect("NO")
		m.NO = t.int()
		t.expect("HASIN")
		m.HasIn = t.bool01()
		t.expect("N")
		m.N = t.int()
		for n := 0; n < m.N; n++ {
			t.expect("NODE")
			m.Params = append(m.Params, t.floats(m.NP))
			m.States = append(m.States, t.floats(m.NS))
			if m.HasIn {
				m.Inputs = append(m.Inputs, t.floats(m.NI*c.T))
			}
		}
		c.Models = append(c.Models, m)
	}
	t.expect("NLINKS")
	nl := t.int()
	for k := 0; k < nl; k++ {
		t.expect("LINK")
		var l [10]uint32
		for i := range l {
			l[i] = t.uint32()
		}
		c.Links = append(c.Links, l)
	}
	t.expect("OUTFILE")
	c.OutFile = t.bool01()
	t.expect("FLAGS")
	nf := t.int()
	for k := 0; k < nf; k++ {
		c.Flags = append(c.Flags, t.next())
	}
	t.expect("SPLIT")
	ns := t.int()
	for k := 0; k < ns; k++ {
		c.Split = append(c.Split, t.next())
	}
	t.expect("FINALSTATES")
	c.FinalStatesMode = t.int()
	if c.FinalStatesMode > 4 {
		t.fail("FINALSTATES must be 0..4")
	}
	c.FinalStates = c.FinalStatesMode != 0
	if t.i < len(t.t) && t.t[t.i] == "LAYOUT" {
		t.next()
		c.LayoutTS = t.int()
		c.LayoutPar = t.int()
		c.LayoutSt = t.int()
		c.LayoutPre = t.int()
	}
	t.expect("END")
	return c, nil
}
