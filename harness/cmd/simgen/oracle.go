package main

import (
	"bufio"
	"fmt"
	"strings"

	"github.com/flowmatters/openwater-core/data"
	_ "github.com/flowmatters/openwater-core/models"
	"github.com/flowmatters/openwater-core/sim"
)

// The sequential reference.  No ow-sim code is involved: generation by
// generation, model by model, node by node, every node is run ALONE (one cell)
// through sim.Catalog[name]().  A node's input is its stored input row (zeros
// when the model has no stored inputs) plus, for every link IN FILE ORDER whose
// (DEST_MODEL, DEST_NODE) is this node, the SRC_VAR-th output series of global
// node SRC_NODE of model SRC_MODEL, added element-wise into input DEST_VAR.
// Only the global node columns and the batches are used; the *_GEN_NODE and
// *_GENERATION columns are never looked at.

const (
	lSrcModel = 1
	lSrcNode  = 2
	lSrcVar   = 4
	lDstModel = 6
	lDstNode  = 7
	lDstVar   = 9
)

type nodeResult struct {
	done    bool
	inputs  [][]float64 // [ni][T]
	outputs [][]float64 // [no][T]
	states  []float64   // [ns]
}

func oneLine(s string) string {
	s = strings.Replace(s, "\n", " | ", -1)
	if len(s) > 300 {
		s = s[:300] + "..."
	}
	return s
}

// runNode runs one cell.  A panic in the calling goroutine is recovered; a panic
// inside a goroutine started by the generated Run() cannot be (the whole oracle
// runs in a child process of simgen for that reason).
//
// dims: the model's dimension sizes.  The rows of a parameter column are laid out for the MODEL-WIDE dimension sizes
// (the maximum of each dimension parameter over all nodes of the model, FindDimensions of the whole table), so a
// node's own parameters can only be decoded with those; nil = take them from the node's own column.
func runNode(name string, dims []int, params, states []float64, inputs [][]float64, T int) (outputs [][]float64, finalStates []float64, panicMsg string) {
	defer func() {
		if r := recover(); r != nil {
			panicMsg = oneLine(fmt.Sprint(r))
		}
	}()
	model := sim.Catalog[name]()
	p := data.NewArray2DFloat64(len(params), 1)
	for i, v := range params {
		p.Set2(i, 0, v)
	}
	if dims == nil {
		dims = model.FindDimensions(p)
	}
	model.InitialiseDimensions(dims)
	model.ApplyParameters(p)
	s := data.NewArray2DFloat64(1, len(states))
	for i, v := range states {
		s.Set2(0, i, v)
	}
	in := data.NewArray3DFloat64(1, len(inputs), T)
	for i, row := range inputs {
		for t, v := range row {
			in.Set3(0, i, t, v)
		}
	}
	out := sim.InitialiseOutputs(model, T, 1)
	model.Run(in, s, out)
	no := out.Len(1)
	outputs = make([][]float64, no)
	for i := 0; i < no; i++ {
		outputs[i] = make([]float64, T)
		for t := 0; t < T; t++ {
			outputs[i][t] = out.Get3(0, i, t)
		}
	}
	finalStates = make([]float64, len(states))
	for i := range finalStates {
		finalStates[i] = s.Get2(0, i)
	}
	return outputs, finalStates, ""
}

func runOracle(c *simCase, w *bufio.Writer) {
	T := c.T
	modelDims := make([][]int, len(c.Models))
	known := make([]bool, len(c.Models))
	catNO := make([]int, len(c.Models))
	results := make([][]nodeResult, len(c.Models))
	maxG := 0
	for mi, m := range c.Models {
		results[mi] = make([]nodeResult, m.N)
		if len(m.Batches) > maxG {
			maxG = len(m.Batches)
		}
		factory := sim.Catalog[m.Name]
		if factory == nil {
			fmt.Fprintf(w, "ORACLE-ERROR model %s is not in sim.Catalog\n", m.Name)
			continue
		}
		known[mi] = true
		func() {
			defer func() {
				if r := recover(); r != nil {
					fmt.Fprintf(w, "ORACLE-ERROR model %s Description(): %s\n", m.Name, oneLine(fmt.Sprint(r)))
				}
			}()
			d := factory().Description()
			catNO[mi] = len(d.Outputs)
			if len(d.Dimensions) > 0 && m.N > 0 {
				all := data.NewArray2DFloat64(m.NP, m.N)
				for n := 0; n < m.N; n++ {
					for p := 0; p < m.NP; p++ {
						all.Set2(p, n, m.Params[n][p])
					}
				}
				modelDims[mi] = factory().FindDimensions(all)
			}
			if len(d.Inputs) != m.NI || len(d.Outputs) != m.NO {
				fmt.Fprintf(w, "ORACLE-WARN model %s: case says NI=%d NO=%d, catalogue says %d inputs %d outputs\n",
					m.Name, m.NI, m.NO, len(d.Inputs), len(d.Outputs))
			}
		}()
		if len(m.Batches) > 0 && int(m.Batches[len(m.Batches)-1]) != m.N {
			fmt.Fprintf(w, "ORACLE-WARN model %s: N=%d but last batch is %d\n", m.Name, m.N, m.Batches[len(m.Batches)-1])
		}
	}

	for g := 0; g < maxG; g++ {
		for mi, m := range c.Models {
			if !known[mi] || g >= len(m.Batches) {
				continue
			}
			lo := 0
			if g > 0 {
				lo = int(m.Batches[g-1])
			}
			hi := int(m.Batches[g])
			if hi > m.N {
				hi = m.N
			}
			for row := lo; row < hi; row++ {
				if row < 0 || m.generationOf(row) != g {
					continue // non-monotone batches: the row belongs to an earlier generation
				}
				inputs := make([][]float64, m.NI)
				for v := range inputs {
					inputs[v] = make([]float64, T)
					if m.HasIn {
						copy(inputs[v], m.Inputs[row][v*T:(v+1)*T])
					}
				}
				for k, l := range c.Links {
					if int(l[lDstModel]) != mi || int(l[lDstNode]) != row {
						continue
					}
					sm, sn, sv, dv := int(l[lSrcModel]), int(l[lSrcNode]), int(l[lSrcVar]), int(l[lDstVar])
					if sm >= len(c.Models) || sn >= len(results[sm]) {
						fmt.Fprintf(w, "ORACLE-ERROR link %d: source model %d node %d does not exist\n", k, sm, sn)
						continue
					}
					src := results[sm][sn]
					sg := c.Models[sm].generationOf(sn)
					if !src.done || sg < 0 || sg >= g {
						fmt.Fprintf(w, "ORACLE-ERROR link %d: source node (model %d row %d, generation %d) has not run before destination generation %d\n", k, sm, sn, sg, g)
						continue
					}
					if sv >= len(src.outputs) {
						fmt.Fprintf(w, "ORACLE-ERROR link %d: source variable %d out of range (%d outputs)\n", k, sv, len(src.outputs))
						continue
					}
					if dv >= len(inputs) {
						fmt.Fprintf(w, "ORACLE-ERROR link %d: destination variable %d out of range (%d inputs)\n", k, dv, len(inputs))
						continue
					}
					dst := inputs[dv]
					srcSeries := src.outputs[sv]
					for t := 0; t < T; t++ {
						dst[t] = dst[t] + srcSeries[t]
					}
				}
				// keep a private copy of what the node was fed
				fed := make([][]float64, len(inputs))
				for v := range inputs {
					fed[v] = append([]float64{}, inputs[v]...)
				}
				outputs, states, msg := runNode(m.Name, modelDims[mi], m.Params[row], m.States[row], inputs, T)
				if msg != "" {
					fmt.Fprintf(w, "ORACLE-PANIC %s %d %s\n", m.Name, row, msg)
					outputs = make([][]float64, catNO[mi])
					for i := range outputs {
						outputs[i] = make([]float64, T)
					}
					states = append([]float64{}, m.States[row]...)
					results[mi][row] = nodeResult{done: false, inputs: fed, outputs: outputs, states: states}
					continue
				}
				results[mi][row] = nodeResult{done: true, inputs: fed, outputs: outputs, states: states}
			}
		}
	}

	for mi, m := range c.Models {
		if m.N == 0 || !known[mi] {
			for _, label := range []string{"inputs", "outputs", "states"} {
				fmt.Fprintf(w, "ORACLE %s %s NONE\n", m.Name, label)
			}
			continue
		}
		no := catNO[mi]
		var in, out, st []float64
		for row := 0; row < m.N; row++ {
			r := results[mi][row]
			if r.inputs == nil {
				// row outside every batch: never run
				fmt.Fprintf(w, "ORACLE-WARN %s row %d is in no generation\n", m.Name, row)
				r.inputs = make([][]float64, m.NI)
				for i := range r.inputs {
					r.inputs[i] = make([]float64, T)
				}
				r.outputs = make([][]float64, no)
				for i := range r.outputs {
					r.outputs[i] = make([]float64, T)
				}
				r.states = append([]float64{}, m.States[row]...)
			}
			for _, s := range r.inputs {
				in = append(in, s...)
			}
			for _, s := range r.outputs {
				out = append(out, s...)
			}
			st = append(st, r.states...)
		}
		fmt.Fprintf(w, "ORACLE %s inputs %s\n", m.Name, formatArray([]int{m.N, m.NI, T}, in))
		fmt.Fprintf(w, "ORACLE %s outputs %s\n", m.Name, formatArray([]int{m.N, no, T}, out))
		fmt.Fprintf(w, "ORACLE %s states %s\n", m.Name, formatArray([]int{m.N, m.NS}, st))
	}
}
