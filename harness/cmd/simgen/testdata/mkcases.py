import struct, os
OUT=os.path.dirname(os.path.abspath(__file__))
def h(x): return '%016x' % struct.unpack('>Q', struct.pack('>d', float(x)))[0]
def hs(xs): return ' '.join(h(x) for x in xs)
CAT={'Input':(0,1,1),'Sum':(0,2,1),'Gate':(0,2,1),'FixedPartition':(1,1,2),'VariablePartition':(0,2,2),
     'ApplyScalingFactor':(1,1,1),'PartitionDemand':(0,2,2),'Lag':(1,1,1),'Muskingum':(3,2,1)}
def model(name,batches,nodes,ns,hasin,T):
    np_,ni,no=CAT[name]
    s=['MODEL %s G %d %s NP %d NS %d NI %d NO %d HASIN %d N %d'%(name,len(batches),' '.join(map(str,batches)),np_,ns,ni,no,hasin,len(nodes))]
    for (p,st,inp) in nodes:
        assert len(p)==np_ and len(st)==ns
        l='NODE '+hs(p)+' '+hs(st)
        if hasin:
            assert len(inp)==ni and all(len(r)==T for r in inp), (name,inp)
            l+=' '+' '.join(hs(r) for r in inp)
        s.append(' '.join(l.split()))
    return '\n'.join(s)
def case(id,T,models,links,outfile=1,flags=(),split=(),final=0):
    s=['CASE %s'%id,'T %d'%T,'NMODELS %d'%len(models)]
    s+=[model(*m,T) for m in models]
    s.append('NLINKS %d'%len(links))
    for l in links:
        assert len(l)==10
        s.append('LINK '+' '.join(map(str,l)))
    s.append('OUTFILE %d'%outfile)
    s.append(('FLAGS %d '%len(flags)+' '.join(flags)).strip())
    s.append(('SPLIT %d '%len(split)+' '.join(split)).strip())
    s.append('FINALSTATES %d'%final)
    s.append('END')
    open(os.path.join(OUT,id+'.case'),'w').write('\n'.join(s)+'\n')

# (a) 3 generations: 2 Input (gen 0) -> Sum (gen 1, fan-in, two links into i1) -> Lag (gen 2), Input0 also -> Lag
def graph_a(T, lagstates=(0.5,0.25,0.125)):
    ramp=lambda a:[a*(t+1) for t in range(T)]
    models=[('Input',[2,2,2],[([],[],[ramp(1)]),([],[],[ramp(10)])],0,1),
            ('Sum',[0,1,1],[([],[],None)],0,0),
            ('Lag',[0,0,1],[([2],list(lagstates),None)],len(lagstates),0)]
    links=[(0,0,0,0,0, 1,1,0,0,0),(0,0,1,1,0, 1,1,0,0,0),(0,0,1,1,0, 1,1,0,0,1),
           (0,0,0,0,0, 2,2,0,0,0),(1,1,0,0,0, 2,2,0,0,0)]
    return models,links
m,l=graph_a(4)
case('a_basic',4,m,l)
case('c_nooutfile',4,m,l,outfile=0)
case('d1_outputs_for',4,m,l,flags=['-outputs-for','Sum,Lag'])
case('d2_no_outputs_for',4,m,l,flags=['-no-outputs-for','Input'])
case('d3_inputs_for',4,m,l,flags=['-inputs-for','Input','-v'])
case('d4_no_inputs_for',4,m,l,flags=['-no-inputs-for','Sum'])
case('d5_mixed',4,m,l,flags=['-no-outputs-for','Sum,Lag','-outputs-for','Lag','-inputs-for','Input,Lag','-no-inputs-for','Lag,Sum'])
case('e1_split_lag',4,m,l,split=['Lag'])
case('e2_split_input',4,m,l,split=['Input'])
case('e3_split_sum',4,m,l,split=['Sum'])
case('f_finalstates',4,m,l,final=1)
case('f2_finalstates_split',4,m,l,final=1,split=['Lag'])
m1,l1=graph_a(1)
case('g1_T1',1,m1,l1)
m0,l0=graph_a(0)
case('g0_T0',0,m0,l0)

# (b) empty batch in the middle (Input: 1,1,2) ; last batch empty (Sum: 0,1,1 / ApplyScalingFactor 1 2 2)
T=3
models=[('Input',[1,1,2],[([],[],[[1,2,3]]),([],[],[[7,8,9]])],0,1),
        ('ApplyScalingFactor',[0,1,1,],[([2.0],[],None)],0,0),
        ('Muskingum',[0,0,1],[([86400.0,0.25,86400.0],[5.0,1.0,2.0],None)],3,0)]
# gen0: Input0 ; gen1: ASF0 (fed by Input0) ; gen2: Input1 (stored), Muskingum0 (inflow<-ASF0, lateral<-Input0)
links=[(0,0,0,0,0, 1,1,0,0,0),(0,0,0,0,0, 2,2,0,0,1),(1,1,0,0,0, 2,2,0,0,0)]
case('b_empty_batches',T,models,links)

# (h) 5 generations chain for jitter
T=3
models=[('Input',[1,1,1,1,1],[([],[],[[1,2,3]])],0,1),
        ('ApplyScalingFactor',[0,1,2,3,4],[([2.0],[],None),([3.0],[],None),([0.5],[],None),([-1.0],[],None)],0,0)]
links=[(0,0,0,0,0, 1,1,0,0,0),(1,1,0,0,0, 2,1,1,0,0),(2,1,1,0,0, 3,1,2,0,0),(3,1,2,0,0, 4,1,3,0,0)]
case('h_chain5',T,models,links)

# (i) partitions / gate / demand, two nodes per generation so GEN_NODE != NODE
T=2
models=[('Input',[3,3,3],[([],[],[[4,6]]),([],[],[[0.25,0.5]]),([],[],[[1,0]])],0,1),
        ('FixedPartition',[0,2,2],[([0.25],[],None),([0.5],[],None)],0,0),
        ('VariablePartition',[0,1,1],[([],[],None)],0,0),
        ('PartitionDemand',[0,0,1],[([],[],None)],0,0),
        ('Gate',[0,0,2],[([],[],None),([],[],None)],0,0)]
links=[(0,0,0,0,0, 1,1,0,0,0),(0,0,0,0,0, 1,1,1,1,0),(0,0,0,0,0, 1,2,0,0,0),(0,0,1,1,0, 1,2,0,0,1),
       (0,0,2,2,0, 2,4,0,0,0),(0,0,2,2,0, 2,4,1,1,0),
       (1,1,0,0,1, 2,3,0,0,0),(1,1,1,1,0, 2,3,0,0,1),(1,2,0,0,0, 2,4,0,0,1),(1,2,0,0,1, 2,4,1,1,1),(1,1,1,1,1, 2,4,1,1,1)]
case('i_partitions',T,models,links)

# zero-node model alongside the basic graph (model index 3, so link model numbers stay valid)
m,l=graph_a(4)
case('z1_zero_nodes',4,m+[('Gate',[0,0,0],[],0,0)],l)
case('z1b_zero_nodes_hasin',4,m+[('Gate',[0,0,0],[],0,1)],l)
# zero-node model FIRST in /META/models, with an (empty) inputs dataset
m2=[('Gate',[0,0,0],[],0,1)]+m
l2=[(a,b+1,c,d,e,f,g+1,h_,i,j) for (a,b,c,d,e,f,g,h_,i,j) in l]
case('z1c_zero_nodes_first',4,m2,l2)
# single generation, no links
case('z2_G1',3,[('Input',[2],[([],[],[[1,2,3]]),([],[],[[4,5,6]])],0,1)],[])
# no stored inputs anywhere: ow-sim cannot know T
case('z3_no_inputs_anywhere',3,[('Sum',[1],[([],[],None)],0,0)],[])
# stored inputs AND links into the same model (Sum HASIN 1, b0 = 0)
T=4
ramp=lambda a:[a*(t+1) for t in range(T)]
models=[('Input',[2,2],[([],[],[ramp(1)]),([],[],[ramp(10)])],0,1),
        ('Sum',[0,2],[([],[],[ramp(100),ramp(1000)]),([],[],[ramp(0.5),ramp(0.25)])],0,1)]
links=[(0,0,0,0,0, 1,1,0,0,0),(0,0,1,1,0, 1,1,1,1,1),(0,0,0,0,0, 1,1,1,1,1)]
case('j_stored_plus_links',T,models,links)
# generation 0 empty for every model
models=[('Input',[0,1,1],[([],[],[ramp(1)])],0,1),
        ('Sum',[0,0,1],[([],[],None)],0,0)]
links=[(1,0,0,0,0, 2,1,0,0,0),(1,0,0,0,0, 2,1,0,0,1)]
case('k_gen0_empty',T,models,links)
# last generation empty for every model
models=[('Input',[1,1,1],[([],[],[ramp(1)])],0,1),
        ('Sum',[0,1,1],[([],[],None)],0,0)]
links=[(0,0,0,0,0, 1,1,0,0,0)]
case('k2_lastgen_empty',T,models,links)
case('k3_lastgen_empty_split',T,models,links,split=['Sum'])
# unknown model
case('u_unknown_model',T,[('Input',[1],[([],[],[ramp(1)])],0,1)],[])
s=open(OUT+'/u_unknown_model.case').read().replace('MODEL Input','MODEL NoSuchModel'); open(OUT+'/u_unknown_model.case','w').write(s)
m,l=graph_a(4)
case('e4_split_nooutfile',4,m,l,split=['Lag'],outfile=0)
case('e6_split_two',4,m,l,split=['Lag','Sum'])
case('e5_split_T0',0,m0,l0,split=['Lag'])
case('e7_split_inputs_for',4,m,l,split=['Lag'],flags=['-no-outputs-for','Lag'])
case('f3_finalstates_nooutfile',4,m,l,final=1,outfile=0)
# zero-node model that has parameters and states columns ([1 x 0] parameters, [0 x 3] states)
m,l=graph_a(4)
case('z4_zero_nodes_with_params',4,[m[0],m[1],('Lag',[0,0,0],[],3,0)],l[:3])

# `python3 mkcases.py big [dir]` additionally writes big_split_lastempty.case (4 MB, not kept in testdata):
# 64 Input nodes x 4000 steps in generation 0, Input is SPLIT and its last batch is empty, so ow-sim never
# closes / waits for the writer child.  Run it with VERIF_JITTER_US=2000 VERIF_JITTER_SEED=1: simgen reports
# CHILDREN alive_at_exit=1 and IMPLATEXIT Input outputs = all zeros (data arrives after ow-sim has exited).
import sys
if len(sys.argv) > 1 and sys.argv[1] == 'big':
    if len(sys.argv) > 2: OUT = sys.argv[2]
    N=64; T=4000
    nodes=[([],[],[[float(n*T+t) for t in range(T)]]) for n in range(N)]
    models=[('Input',[N,N],nodes,0,1),('Sum',[0,1],[([],[],None)],0,0)]
    case('big_split_lastempty',T,models,[(0,0,0,0,0, 1,1,0,0,0)],split=['Input'])
