// simgen runs the REAL ow-sim binary on model-graph test cases (property C07)
// and prints everything needed to check it: the run's exit status, the protocol
// trace of run_simulation, what ow-sim wrote (IMPL), and a sequential reference
// computed without ow-sim (ORACLE).
//
//	simgen -bin <ow-sim> -work <scratch dir> [-timeout <s>] [-keep] <casefile>...
//
// See casefile.go for the case file format.  Records printed per case:
//
//	BEGIN <casefile> <id>
//	RUN exit=<code|-1> timeout=<0|1> wall_ms=<n>
//	CHILDREN alive_at_exit=<n> waited_ms=<n> killed=<0|1>   (live processes of ow-sim's process group when ow-sim itself had exited -- or, on timeout, when the group was killed)
//	IMPLATEXIT <model> <label> ...     (only when alive_at_exit > 0, SPLIT models: content of split_<model>.h5 at the moment ow-sim exited, before the writer children finished)
//	LOG <text>                         (tail of stdout+stderr when exit != 0 or timeout)
//	TRACE <event> <gen>
//	NOFILE ok|created                  (only for OUTFILE 0)
//	PREEXIST mode=<1|2> unchanged=<0|1> (LAYOUT pre 1/2: was the stale out.h5 left byte-for-byte as it was)
//	IMPL <model> <label> NONE | <rank> <d0> .. : <hex>..
//	IMPLMAIN <model> <label> ...       (SPLIT models: what out.h5 holds)
//	IMPL-NOTE <text>                   (a dataset that package io could not read)
//	ORACLE <model> <label> NONE | <rank> <d0> .. : <hex>..
//	ORACLE-PANIC / ORACLE-ERROR / ORACLE-WARN / ORACLE-NOTE / ORACLE-CRASH <text>
//	END <casefile>
package main

import (
	"bufio"
	"bytes"
	"flag"
	"fmt"
	"io/ioutil"
	"os"
	"os/exec"
	"path/filepath"
	"strconv"
	"strings"
	"syscall"
	"time"
)

var (
	binFlag     = flag.String("bin", "", "path of the ow-sim binary (made absolute)")
	workFlag    = flag.String("work", "", "scratch directory")
	timeoutFlag = flag.Float64("timeout", 60, "seconds before ow-sim is killed")
	keepFlag    = flag.Bool("keep", false, "keep the per-case directories")
	oracleOnly  = flag.Bool("oracle-only", false, "internal: print only the ORACLE records of the case files")
)

var labels = []string{"inputs", "outputs", "states"}

func main() {
	flag.Parse()
	out := bufio.NewWriterSize(os.Stdout, 1<<20)
	defer out.Flush()

	if *oracleOnly {
		for _, fn := range flag.Args() {
			c, err := parseCase(fn)
			if err != nil {
				fmt.Fprintf(out, "ORACLE-ERROR parse: %v\n", err)
				continue
			}
			runOracle(c, out)
			out.Flush()
		}
		return
	}

	if *binFlag == "" || *workFlag == "" || flag.NArg() == 0 {
		fmt.Fprintln(os.Stderr, "usage: simgen -bin <ow-sim> -work <dir> [-timeout s] [-keep] <casefile>...")
		os.Exit(2)
	}
	bin, err := filepath.Abs(*binFlag)
	if err != nil {
		fmt.Fprintln(os.Stderr, err)
		os.Exit(2)
	}
	work, err := filepath.Abs(*workFlag)
	if err != nil {
		fmt.Fprintln(os.Stderr, err)
		os.Exit(2)
	}
	if err := os.MkdirAll(work, 0755); err != nil {
		fmt.Fprintln(os.Stderr, err)
		os.Exit(2)
	}
	status := 0
	for i, fn := range flag.Args() {
		if !runCase(out, bin, work, i, fn) {
			status = 1
		}
		out.Flush()
	}
	out.Flush()
	os.Exit(status)
}

// groupMembers lists the live (non-zombie) processes of process group pgid.
func groupMembers(pgid int) []int {
	var res []int
	entries, err := ioutil.ReadDir("/proc")
	if err != nil {
		return nil
	}
	for _, e := range entries {
		pid, err := strconv.Atoi(e.Name())
		if err != nil {
			continue
		}
		raw, err := ioutil.ReadFile("/proc/" + e.Name() + "/stat")
		if err != nil {
			continue
		}
		// pid (comm) state ppid pgrp ...
		s := string(raw)
		k := strings.LastIndex(s, ")")
		if k < 0 {
			continue
		}
		f := strings.Fields(s[k+1:])
		if len(f) < 3 {
			continue
		}
		pg, _ := strconv.Atoi(f[2])
		if pg == pgid && f[0] != "Z" && f[0] != "X" {
			res = append(res, pid)
		}
	}
	return res
}

type runOutcome struct {
	exit      int
	timedOut  bool
	wallMs    int64
	alive     int
	waitedMs  int64
	killedKid bool
	startErr  string
}

func runBinary(bin, dir string, args []string, logFn string, timeout time.Duration, atExit func()) runOutcome {
	var o runOutcome
	logf, err := os.Create(logFn)
	if err != nil {
		o.exit, o.startErr = -1, err.Error()
		return o
	}
	defer logf.Close()
	cmd := exec.Command(bin, args...)
	cmd.Dir = dir
	cmd.Env = append(os.Environ(), "VERIF_TRACE="+filepath.Join(dir, "trace.txt"))
	// a real file, not a pipe: Wait() then returns as soon as ow-sim itself has
	// exited, even when a -writer child still holds the descriptor
	cmd.Stdout = logf
	cmd.Stderr = logf
	cmd.Stdin = nil
	cmd.SysProcAttr = &syscall.SysProcAttr{Setpgid: true}
	start := time.Now()
	if err := cmd.Start(); err != nil {
		o.exit, o.startErr = -1, err.Error()
		return o
	}
	pgid := cmd.Process.Pid
	done := make(chan error, 1)
	go func() { done <- cmd.Wait() }()
	deadline := time.NewTimer(timeout)
	defer deadline.Stop()
	select {
	case err := <-done:
		o.wallMs = time.Since(start).Nanoseconds() / 1e6
		if err == nil {
			o.exit = 0
		} else if ee, ok := err.(*exec.ExitError); ok {
			o.exit = ee.ExitCode() // -1 when killed by a signal
		} else {
			o.exit = -1
			o.startErr = err.Error()
		}
	case <-deadline.C:
		o.timedOut = true
		o.exit = -1
		o.alive = len(groupMembers(pgid))
		syscall.Kill(-pgid, syscall.SIGKILL)
		o.killedKid = true
		<-done
		o.wallMs = time.Since(start).Nanoseconds() / 1e6
		return o
	}
	// ow-sim has exited; are writer children still at work?
	kids := groupMembers(pgid)
	o.alive = len(kids)
	if o.alive > 0 {
		t0 := time.Now()
		if atExit != nil {
			atExit() // what a reader sees at the moment ow-sim returns
		}
		for len(groupMembers(pgid)) > 0 {
			if time.Since(t0) > timeout {
				syscall.Kill(-pgid, syscall.SIGKILL)
				o.killedKid = true
				time.Sleep(50 * time.Millisecond)
				break
			}
			time.Sleep(5 * time.Millisecond)
		}
		o.waitedMs = time.Since(t0).Nanoseconds() / 1e6
	}
	return o
}

func b2i(b bool) int {
	if b {
		return 1
	}
	return 0
}

func tailLines(fn string, n int) []string {
	raw, err := ioutil.ReadFile(fn)
	if err != nil {
		return nil
	}
	lines := strings.Split(strings.TrimRight(string(raw), "\n"), "\n")
	if len(lines) == 1 && lines[0] == "" {
		return nil
	}
	if len(lines) > n {
		lines = lines[len(lines)-n:]
	}
	for i, l := range lines {
		l = strings.Replace(l, "\r", "", -1)
		if len(l) > 400 {
			l = l[:400] + "..."
		}
		lines[i] = l
	}
	return lines
}

func printImpl(out *bufio.Writer, tag, model, label, fn string) {
	res, note := readDataset(fn, "/MODELS/"+model+"/"+label)
	if note != "" {
		fmt.Fprintf(out, "IMPL-NOTE %s\n", oneLine(note))
	}
	fmt.Fprintf(out, "%s %s %s %s\n", tag, model, label, formatResult(res))
}

func runCase(out *bufio.Writer, bin, work string, index int, casefile string) (ok bool) {
	c, err := parseCase(casefile)
	if err != nil {
		id := "?"
		if c != nil {
			id = c.ID
		}
		fmt.Fprintf(out, "BEGIN %s %s\nCASE-ERROR %s\nEND %s\n", casefile, id, oneLine(err.Error()), casefile)
		return false
	}
	fmt.Fprintf(out, "BEGIN %s %s\n", casefile, c.ID)
	defer fmt.Fprintf(out, "END %s\n", casefile)

	dir, err := ioutil.TempDir(work, fmt.Sprintf("case%04d-", index))
	if err != nil {
		fmt.Fprintf(out, "CASE-ERROR %s\n", oneLine(err.Error()))
		return false
	}
	if !*keepFlag {
		defer os.RemoveAll(dir)
	}
	inFn := filepath.Join(dir, "in.h5")
	outFn := filepath.Join(dir, "out.h5")
	finalFn := filepath.Join(dir, "final_states.h5")
	switch c.FinalStatesMode {
	case 2: // the file the initial states come from
		if c.LayoutSt != 0 {
			finalFn = filepath.Join(dir, "states.h5")
		} else {
			finalFn = inFn
		}
	case 3:
		finalFn = inFn
	case 4:
		if c.LayoutTS != 0 {
			finalFn = filepath.Join(dir, "ts.h5")
		} else {
			finalFn = inFn
		}
	}
	splitFn := func(m string) string { return filepath.Join(dir, "split_"+m+".h5") }

	// what goes where (LAYOUT): the structure file keeps the real table (0), nothing (1) or a decoy (2)
	inStruct := func(mode int) int { return []int{1, 0, 2}[mode%3] }
	if err := writeCaseFile(inFn, c, fileContent{structure: true, params: inStruct(c.LayoutPar),
		states: inStruct(c.LayoutSt), inputs: inStruct(c.LayoutTS)}); err != nil {
		fmt.Fprintf(out, "CASE-ERROR writing input file: %s\n", oneLine(err.Error()))
		return false
	}
	args := append([]string{}, c.Flags...)
	for _, sep := range []struct {
		mode int
		flag string
		file string
		what fileContent
	}{
		{c.LayoutTS, "-input-timeseries", "ts.h5", fileContent{inputs: 1}},
		{c.LayoutPar, "-parameters", "params.h5", fileContent{params: 1}},
		{c.LayoutSt, "-initial-states", "states.h5", fileContent{states: 1}},
	} {
		if sep.mode == 0 {
			continue
		}
		if err := writeCaseFile(filepath.Join(dir, sep.file), c, sep.what); err != nil {
			fmt.Fprintf(out, "CASE-ERROR writing %s: %s\n", sep.file, oneLine(err.Error()))
			return false
		}
		args = append(args, sep.flag, sep.file)
	}
	var staleBytes []byte
	if c.OutFile && (c.LayoutPre == 1 || c.LayoutPre == 2) {
		// an output file left behind by an earlier run of a different graph
		stale := &simCase{ID: "stale", T: 1, Models: []*modelSpec{{Name: "Stale", Batches: []int32{1}, NS: 1, NI: 1, HasIn: true, N: 1,
			Params: [][]float64{{}}, States: [][]float64{{42}}, Inputs: [][]float64{{42}}}}}
		for _, m := range c.Models {
			stale.Models = append(stale.Models, &modelSpec{Name: m.Name, Batches: []int32{1}, NS: 1, NI: 1, HasIn: true, N: 1,
				Params: [][]float64{{}}, States: [][]float64{{42}}, Inputs: [][]float64{{42}}})
		}
		if err := writeCaseFile(outFn, stale, fileContent{states: 1, inputs: 1}); err != nil {
			fmt.Fprintf(out, "CASE-ERROR writing stale out.h5: %s\n", oneLine(err.Error()))
			return false
		}
		staleBytes, _ = ioutil.ReadFile(outFn)
	}
	if c.LayoutPre == 1 || c.LayoutPre == 3 {
		args = append(args, "-overwrite")
	}
	if len(c.Split) > 0 {
		var pairs []string
		for _, m := range c.Split {
			pairs = append(pairs, m+"="+splitFn(m))
		}
		args = append(args, "-outputs", strings.Join(pairs, ","))
	}
	if c.FinalStates {
		args = append(args, "-final-states", finalFn)
	}
	args = append(args, "in.h5")
	if c.OutFile {
		args = append(args, "out.h5")
	}

	logFn := filepath.Join(dir, "log.txt")
	var early []string
	snapshot := func() {
		for _, m := range c.Models {
			if !c.isSplit(m.Name) {
				continue
			}
			for _, label := range labels {
				res, _ := readDataset(splitFn(m.Name), "/MODELS/"+m.Name+"/"+label)
				early = append(early, fmt.Sprintf("IMPLATEXIT %s %s %s", m.Name, label, formatResult(res)))
			}
		}
	}
	o := runBinary(bin, dir, args, logFn, time.Duration(*timeoutFlag*float64(time.Second)), snapshot)
	fmt.Fprintf(out, "RUN exit=%d timeout=%d wall_ms=%d\n", o.exit, b2i(o.timedOut), o.wallMs)
	fmt.Fprintf(out, "CHILDREN alive_at_exit=%d waited_ms=%d killed=%d\n", o.alive, o.waitedMs, b2i(o.killedKid))
	for _, l := range early {
		fmt.Fprintln(out, l)
	}
	if o.startErr != "" {
		fmt.Fprintf(out, "LOG simgen: %s\n", oneLine(o.startErr))
	}
	if o.exit != 0 || o.timedOut {
		for _, l := range tailLines(logFn, 15) {
			fmt.Fprintf(out, "LOG %s\n", l)
		}
	}

	if raw, err := ioutil.ReadFile(filepath.Join(dir, "trace.txt")); err == nil {
		for _, l := range strings.Split(string(raw), "\n") {
			f := strings.Fields(l)
			if len(f) == 0 {
				continue
			}
			if f[0] == "VT" {
				f = f[1:]
			}
			fmt.Fprintf(out, "TRACE %s\n", strings.Join(f, " "))
		}
	}

	if staleBytes != nil {
		now, _ := ioutil.ReadFile(outFn)
		fmt.Fprintf(out, "PREEXIST mode=%d unchanged=%d\n", c.LayoutPre, b2i(bytes.Equal(now, staleBytes)))
	}
	if !c.OutFile {
		if _, err := os.Stat(outFn); err == nil {
			fmt.Fprintln(out, "NOFILE created")
		} else {
			fmt.Fprintln(out, "NOFILE ok")
		}
	}
	for _, m := range c.Models {
		tsFn := outFn
		if c.isSplit(m.Name) {
			tsFn = splitFn(m.Name)
		}
		stFn := tsFn
		if c.FinalStates {
			stFn = finalFn
		}
		printImpl(out, "IMPL", m.Name, "inputs", tsFn)
		printImpl(out, "IMPL", m.Name, "outputs", tsFn)
		printImpl(out, "IMPL", m.Name, "states", stFn)
		if c.isSplit(m.Name) {
			for _, label := range labels {
				printImpl(out, "IMPLMAIN", m.Name, label, outFn)
			}
		}
	}
	out.Flush()

	// the oracle runs in a child process: a kernel panic inside a goroutine of
	// a generated Run() would otherwise take simgen down
	self, err := os.Executable()
	if err != nil {
		self = os.Args[0]
	}
	oc := exec.Command(self, "-oracle-only", casefile)
	var obuf, ebuf bytes.Buffer
	oc.Stdout = &obuf
	oc.Stderr = &ebuf
	oerr := oc.Run()
	out.Write(obuf.Bytes())
	if obuf.Len() > 0 && obuf.Bytes()[obuf.Len()-1] != '\n' {
		out.WriteByte('\n')
	}
	if oerr != nil {
		fmt.Fprintf(out, "ORACLE-CRASH %s\n", oneLine(oerr.Error()))
		lines := strings.Split(strings.TrimRight(ebuf.String(), "\n"), "\n")
		if len(lines) > 12 {
			lines = lines[:12]
		}
		for _, l := range lines {
			fmt.Fprintf(out, "ORACLE-CRASH %s\n", oneLine(l))
		}
	}
	return true
}
