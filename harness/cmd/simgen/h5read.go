package main

import (
	"bytes"
	"fmt"
	"math"
	"os"

	owio "github.com/flowmatters/openwater-core/io"
	"gonum.org/v1/hdf5"
)

// readResult is what was found for one dataset of one file.
type readResult struct {
	Found  bool
	Shape  []int
	Values []float64
}

// readViaIO reads through package io (Exists, Load).
func readViaIO(fn, dataset string) (res readResult, err error) {
	defer func() {
		if r := recover(); r != nil {
			err = fmt.Errorf("panic in io.H5RefFloat64: %v", r)
		}
	}()
	ref := owio.H5RefFloat64{Filename: fn, Dataset: dataset}
	if !ref.Exists() {
		return readResult{}, nil
	}
	arr, err := ref.Load()
	if err != nil {
		return readResult{}, err
	}
	res.Found = true
	res.Shape = append([]int{}, arr.Shape()...)
	res.Values = arr.Unroll()
	if len(res.Values) != product(res.Shape) {
		return readResult{}, fmt.Errorf("io.Load returned %d values for shape %v", len(res.Values), res.Shape)
	}
	return res, nil
}

// readDirect reads through the hdf5 package alone (fallback, also covers what
// package io cannot do).
func readDirect(fn, dataset string) (res readResult, err error) {
	defer func() {
		if r := recover(); r != nil {
			err = fmt.Errorf("panic in hdf5: %v", r)
		}
	}()
	f, err := hdf5.OpenFile(fn, hdf5.F_ACC_RDONLY)
	if err != nil {
		return readResult{}, nil // file absent / not a file of ours
	}
	defer f.Close()
	ds, err := f.OpenDataset(dataset)
	if err != nil {
		return readResult{}, nil
	}
	defer ds.Close()
	sp := ds.Space()
	defer sp.Close()
	rank := sp.SimpleExtentNDims()
	res.Found = true
	if rank == 0 {
		res.Shape = []int{}
	} else {
		dims, _, err := sp.SimpleExtentDims()
		if err != nil {
			return readResult{}, err
		}
		for _, d := range dims {
			res.Shape = append(res.Shape, int(d))
		}
	}
	dt, err := ds.Datatype()
	if err != nil {
		return readResult{}, err
	}
	defer dt.Close()
	if dt.Size() != 8 {
		return res, fmt.Errorf("element size %d, not 8", dt.Size())
	}
	n := product(res.Shape)
	if len(res.Shape) == 0 {
		n = 1
	}
	res.Values = make([]float64, n)
	if n > 0 {
		if err := ds.Read(&res.Values); err != nil {
			return res, err
		}
	}
	return res, nil
}

// readDataset never panics; problems are reported through note.
func readDataset(fn, dataset string) (res readResult, note string) {
	if _, err := os.Stat(fn); err != nil {
		return readResult{}, ""
	}
	res, err := readViaIO(fn, dataset)
	if err == nil {
		return res, ""
	}
	note = fmt.Sprintf("%s:%s: %v; read directly", fn, dataset, err)
	res, err = readDirect(fn, dataset)
	if err != nil {
		note += fmt.Sprintf("; direct read: %v", err)
	}
	return res, note
}

func formatArray(shape []int, values []float64) string {
	var b bytes.Buffer
	fmt.Fprintf(&b, "%d", len(shape))
	for _, d := range shape {
		fmt.Fprintf(&b, " %d", d)
	}
	b.WriteString(" :")
	for _, v := range values {
		fmt.Fprintf(&b, " %016x", math.Float64bits(v))
	}
	return b.String()
}

func formatResult(r readResult) string {
	if !r.Found {
		return "NONE"
	}
	return formatArray(r.Shape, r.Values)
}
