// FPS: the whole-array helpers and Maximum/Minimum/CopyFrom on float arrays holding IEEE special
// values (NaN, infinities, signed zeros, subnormals), which the integer-valued histories cannot
// express.  One case per line:
//
//   FPS <float64|float32> <dst backend g|c> <src backend g|c> <dst layout> <src layout> <OP> <k bits> <R> <C> <dst bits x R*C> <src bits x R*C>
//
// layouts: full (the root itself), gap (columns 1..C of a [R, C+2] root), step (every second column
// of a [R, 2C] root), rows (every second row of a [2R, C] root).  Answer: the bits of every cell of
// the destination ROOT, of every cell of the source ROOT, and for MAX/MIN the result.
package main

import (
	"fmt"
	"math"
	"strconv"
	"strings"
	"unsafe"

	"github.com/flowmatters/openwater-core/data"
	"github.com/flowmatters/openwater-core/data/cdata"
)

func fpsLayout(layout string, r, c int) (rootDims, loc, step []int) {
	switch layout {
	case "full":
		return []int{r, c}, []int{0, 0}, nil
	case "gap":
		return []int{r, c + 2}, []int{0, 1}, nil
	case "step":
		return []int{r, 2 * c}, []int{0, 0}, []int{1, 2}
	case "rows":
		return []int{2 * r, c}, []int{0, 0}, []int{2, 1}
	}
	panic("layout " + layout)
}

const fpsFill64 = 0x4058c00000000000 // 99.0
const fpsFill32 = 0x42c60000         // 99.0f

func fps64(t []string) string {
	db, sb, dl, sl, op := t[1], t[2], t[3], t[4], t[5]
	kb, _ := strconv.ParseUint(t[6], 16, 64)
	k := math.Float64frombits(kb)
	r, c := atoi(t[7]), atoi(t[8])
	bits := t[9:]
	mk := func(backend, layout string, vals []string) (data.NDFloat64, []float64) {
		rd, loc, st := fpsLayout(layout, r, c)
		buf := make([]float64, data.Product(rd))
		for i := range buf { buf[i] = math.Float64frombits(fpsFill64) }
		var root data.NDFloat64
		if backend == "c" {
			root = cdata.NewFloat64CArray(unsafe.Pointer(&buf[0]), rd)
		} else {
			root = data.ArrayFromSliceFloat64(buf, rd)
		}
		v := root.Slice(loc, []int{r, c}, st)
		for i := 0; i < r; i++ {
			for j := 0; j < c; j++ {
				b, _ := strconv.ParseUint(vals[i*c+j], 16, 64)
				v.Set([]int{i, j}, math.Float64frombits(b))
			}
		}
		return v, buf
	}
	dst, dbuf := mk(db, dl, bits[:r*c])
	src, sbuf := mk(sb, sl, bits[r*c:2*r*c])
	res := ""
	switch op {
	case "SCALE":
		data.ScaleFloat64Array(dst, src, k)
	case "ADDTO":
		data.AddToFloat64Array(dst, src)
	case "APPLYFUNC":
		data.ApplyFunc1Float64(dst, src, func(v float64) float64 { return v*2 + 1 })
	case "COPYFROM":
		dst.CopyFrom(src)
	case "MAX":
		res = " res=" + strconv.FormatUint(math.Float64bits(src.Maximum()), 16)
	case "MIN":
		res = " res=" + strconv.FormatUint(math.Float64bits(src.Minimum()), 16)
	default:
		panic("op " + op)
	}
	hx := func(b []float64) string {
		s := make([]string, len(b))
		for i, x := range b { s[i] = strconv.FormatUint(math.Float64bits(x), 16) }
		return strings.Join(s, ",")
	}
	return "dst=" + hx(dbuf) + " src=" + hx(sbuf) + res
}

func fps32(t []string) string {
	db, sb, dl, sl, op := t[1], t[2], t[3], t[4], t[5]
	kb, _ := strconv.ParseUint(t[6], 16, 32)
	k := math.Float32frombits(uint32(kb))
	r, c := atoi(t[7]), atoi(t[8])
	bits := t[9:]
	mk := func(backend, layout string, vals []string) (data.NDFloat32, []float32) {
		rd, loc, st := fpsLayout(layout, r, c)
		buf := make([]float32, data.Product(rd))
		for i := range buf { buf[i] = math.Float32frombits(fpsFill32) }
		var root data.NDFloat32
		if backend == "c" {
			root = cdata.NewFloat32CArray(unsafe.Pointer(&buf[0]), rd)
		} else {
			root = data.ArrayFromSliceFloat32(buf, rd)
		}
		v := root.Slice(loc, []int{r, c}, st)
		for i := 0; i < r; i++ {
			for j := 0; j < c; j++ {
				b, _ := strconv.ParseUint(vals[i*c+j], 16, 32)
				v.Set([]int{i, j}, math.Float32frombits(uint32(b)))
			}
		}
		return v, buf
	}
	dst, dbuf := mk(db, dl, bits[:r*c])
	src, sbuf := mk(sb, sl, bits[r*c:2*r*c])
	res := ""
	switch op {
	case "SCALE":
		data.ScaleFloat32Array(dst, src, k)
	case "ADDTO":
		data.AddToFloat32Array(dst, src)
	case "APPLYFUNC":
		data.ApplyFunc1Float32(dst, src, func(v float32) float32 { return v*2 + 1 })
	case "COPYFROM":
		dst.CopyFrom(src)
	case "MAX":
		res = " res=" + strconv.FormatUint(uint64(math.Float32bits(src.Maximum())), 16)
	case "MIN":
		res = " res=" + strconv.FormatUint(uint64(math.Float32bits(src.Minimum())), 16)
	default:
		panic("op " + op)
	}
	hx := func(b []float32) string {
		s := make([]string, len(b))
		for i, x := range b { s[i] = strconv.FormatUint(uint64(math.Float32bits(x)), 16) }
		return strings.Join(s, ",")
	}
	return "dst=" + hx(dbuf) + " src=" + hx(sbuf) + res
}

func fps(t []string) (out string) {
	defer func() {
		if e := recover(); e != nil { out = fmt.Sprintf("PANIC %v", e) }
	}()
	if t[0] == "float32" { return fps32(t) }
	return fps64(t)
}
