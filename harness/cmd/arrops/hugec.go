// HUGEC: element access at and beyond linear index 2^27 of a C-backed array (and of a Go-backed one of the same
// shape).  The memory is obtained with calloc / make and only a handful of pages are touched, so the cost is small
// although the arrays are ~1 GB of address space each.
//
//   HUGEC <nExtra>      arrays of n = 2^27 + nExtra float64 elements, shapes [n] and [4100, n/4100 .. ] views
package main

/*
#include <stdlib.h>
*/
import "C"

import (
	"fmt"
	"strings"

	"github.com/flowmatters/openwater-core/data"
	"github.com/flowmatters/openwater-core/data/cdata"
)

func hugec(t []string) (out string) {
	defer func() {
		if e := recover(); e != nil { out = fmt.Sprintf("PANIC %v", e) }
	}()
	extra := atoi(t[0])
	n := (1 << 27) + extra
	raw := C.calloc(C.size_t(n+16), 8)
	if raw == nil { return "NOMEM" }
	defer C.free(raw)
	ca := cdata.NewFloat64CArray(raw, []int{n})
	gbuf := make([]float64, n)
	ga := data.ArrayFromSliceFloat64(gbuf, []int{n})
	probes := []int{0, 1<<27 - 1, 1 << 27, 1<<27 + 1, n - 1}
	res := []string{}
	for k, arr := range []data.NDFloat64{ca, ga} {
		name := []string{"c", "go"}[k]
		for _, p := range probes {
			arr.Set([]int{p}, float64(p%1000+1))
		}
		vals := []string{}
		for _, p := range probes {
			vals = append(vals, fmt.Sprintf("%g", arr.Get([]int{p})))
		}
		// a 2-d view of the same memory: the last row of a [rows, cols] reshape, read through a series view
		cols := 32768
		rows := n / cols
		two, err := arr.Slice([]int{0}, []int{rows * cols}, nil).Reshape([]int{rows, cols})
		if err != nil { return "RESHAPE " + err.Error() }
		row := two.Slice([]int{rows - 1, 0}, []int{1, cols}, nil).MustReshape([]int{cols}).(data.ND1Float64)
		row.Set1(cols-1, 777)
		vals = append(vals, fmt.Sprintf("%g", two.Get([]int{rows - 1, cols - 1})), fmt.Sprintf("%g", arr.Get([]int{rows*cols - 1})))
		res = append(res, name+"="+strings.Join(vals, ","))
	}
	// the guard zone after the C buffer must still be zero
	g := (*[1 << 40]float64)(raw)
	for i := n; i < n+16; i++ {
		if g[i] != 0 { return "GUARD-ZONE-WRITTEN " + strings.Join(res, " ") }
	}
	return strings.Join(res, " ")
}
