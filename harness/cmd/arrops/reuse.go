// REUSE: a caller that keeps ONE loc, ONE size and ONE step slice and overwrites them in place between calls
// (a view built from them is dropped before they are overwritten).  The library may alias the argument slices into the
// view it returns (it does: Dims), but nothing it computes for a NEW view may depend on what the slices held before.
//
//   REUSE <g|c> ROOT d.. ; L.. D.. (N | S..) ; L.. D.. (N | S..) ; ...
//
// Per round: the view's elements by Get (row-major), by Unroll, and through CopyFrom into a fresh contiguous array.
package main

import (
	"strconv"
	"strings"
	"unsafe"

	"github.com/flowmatters/openwater-core/data"
	"github.com/flowmatters/openwater-core/data/cdata"
)

func reuse(t []string) (out string) {
	defer func() {
		if e := recover(); e != nil { out = out + " PANIC" }
	}()
	be := t[0]
	minimal := false // "gm"/"cm": per round only Get and Unroll, so that no other library call sits between two rounds
	if len(be) == 2 { minimal = true; be = be[:1] }
	p := 2 // skip ROOT
	rd := takeInts(t, &p)
	n := data.Product(rd)
	buf := make([]float64, n)
	for i := range buf { buf[i] = float64(i + 1) }
	var root data.NDFloat64
	if be == "c" {
		root = cdata.NewFloat64CArray(unsafe.Pointer(&buf[0]), rd)
	} else {
		root = data.ArrayFromSliceFloat64(buf, rd)
	}
	var locBuf, dimBuf, stepBuf [16]int
	f2s := func(v []float64) string {
		s := make([]string, len(v))
		for i, x := range v { s[i] = strconv.FormatInt(int64(x), 10) }
		return strings.Join(s, ",")
	}
	rounds := []string{}
	for p < len(t) {
		if t[p] == ";" { p++; continue }
		p++ // L
		loc := takeInts(t, &p)
		p++ // D
		dims := takeInts(t, &p)
		var step []int
		if t[p] == "N" { p++ } else { p++; step = takeInts(t, &p) }
		// overwrite the caller's long-lived slices in place
		l := locBuf[:len(loc)]; copy(l, loc)
		d := dimBuf[:len(dims)]; copy(d, dims)
		var s []int
		if step != nil { s = stepBuf[:len(step)]; copy(s, step) }
		v := root.Slice(l, d, s)
		byGet := []float64{}
		for _, idx := range enumIdx(dims) { byGet = append(byGet, v.Get(idx)) }
		un := append([]float64{}, v.Unroll()...)
		if minimal {
			rounds = append(rounds, "g:"+f2s(byGet)+" u:"+f2s(un))
			out = strings.Join(rounds, " ; ")
			continue
		}
		dst := data.NewArrayFloat64(dims)
		dst.CopyFrom(v)
		cp := append([]float64{}, dst.Unroll()...)
		rs, _ := v.Reshape([]int{data.Product(dims)})
		rv := []float64{}
		if rs != nil { rv = append(rv, rs.Unroll()...) }
		rounds = append(rounds, "g:"+f2s(byGet)+" u:"+f2s(un)+" c:"+f2s(cp)+" r:"+f2s(rv))
		out = strings.Join(rounds, " ; ")
	}
	return out
}
