// arrops executes array operation histories on the real data / cdata packages
// for all 8 element types and both storage back-ends and prints, after every
// operation, its result, the contents of every root buffer and the elements of
// every live array (by Get, row-major).  Same line format as the OCaml driver.
package main

import (
	"bufio"
	"fmt"
	"os"
	"strconv"
	"strings"

	"github.com/flowmatters/openwater-core/data"
)

type opT struct {
	name string
	id   int
	src  int
	loc  []int
	dims []int
	step []int // nil = Go nil
	hasStep bool
	dim, stp, k int
	v    int
	vals []int
	cb   bool
}

func atoi(s string) int { n, err := strconv.Atoi(s); if err != nil { panic("bad int " + s) }; return n }

// ints up to the next marker (a token starting with an upper-case letter)
func takeInts(t []string, p *int) []int {
	r := []int{}
	for *p < len(t) {
		c := t[*p][0]
		if (c >= '0' && c <= '9') || c == '-' {
			r = append(r, atoi(t[*p]))
			*p++
		} else {
			break
		}
	}
	return r
}

func parseOp(t []string) opT {
	o := opT{name: t[0]}
	p := 1
	next := func() string { s := t[p]; p++; return s }
	marker := func(m string) { if g := next(); g != m { panic("expected " + m + " got " + g) } }
	stepArg := func() {
		m := next()
		if m == "N" { o.step = nil; o.hasStep = false } else if m == "S" { o.step = takeInts(t, &p); o.hasStep = true } else { panic("step") }
	}
	switch o.name {
	case "NEW":
		o.cb = next() == "c"
		o.dims = takeInts(t, &p)
	case "SLICE":
		o.id = atoi(next()); marker("L"); o.loc = takeInts(t, &p); marker("D"); o.dims = takeInts(t, &p); stepArg()
	case "GET", "GETN":
		o.id = atoi(next()); marker("L"); o.loc = takeInts(t, &p)
	case "SET", "SETN":
		o.id = atoi(next()); marker("L"); o.loc = takeInts(t, &p); marker("V"); o.v = atoi(next())
	case "APPLY":
		o.id = atoi(next()); marker("L"); o.loc = takeInts(t, &p); marker("X"); o.dim = atoi(next()); o.stp = atoi(next()); marker("V"); o.vals = takeInts(t, &p)
	case "APPLYSLICE":
		o.id = atoi(next()); marker("L"); o.loc = takeInts(t, &p); stepArg(); marker("SRC"); o.src = atoi(next())
	case "COPYFROM", "ADDTO", "APPLYFUNC":
		o.id = atoi(next()); o.src = atoi(next())
	case "SCALE":
		o.id = atoi(next()); o.src = atoi(next()); o.k = atoi(next())
	case "UNROLL", "CONTIG", "MAX", "MIN", "SHAPE":
		o.id = atoi(next())
	case "UNROLLW":
		o.id = atoi(next()); o.k = atoi(next()); o.v = atoi(next())
	case "RESHAPE", "RESHAPEFAST", "MUSTRESHAPE":
		o.id = atoi(next()); marker("D"); o.dims = takeInts(t, &p)
	case "GET1":
		o.id = atoi(next()); o.k = atoi(next())
	case "SET1":
		o.id = atoi(next()); o.k = atoi(next()); o.v = atoi(next())
	case "APPLY1":
		o.id = atoi(next()); o.k = atoi(next()); o.stp = atoi(next()); marker("V"); o.vals = takeInts(t, &p)
	case "LEN":
		o.id = atoi(next()); o.k = atoi(next())
	default:
		panic("unknown op " + o.name)
	}
	return o
}

func joinInts(v []int64) string {
	s := make([]string, len(v))
	for i, x := range v { s[i] = strconv.FormatInt(x, 10) }
	return strings.Join(s, ",")
}
func joinPlain(v []int) string {
	s := make([]string, len(v))
	for i, x := range v { s[i] = strconv.Itoa(x) }
	return strings.Join(s, ",")
}

func enumIdx(shape []int) [][]int {
	res := [][]int{{}}
	for _, d := range shape {
		var nxt [][]int
		for _, pre := range res {
			for i := 0; i < d; i++ {
				idx := append(append([]int{}, pre...), i)
				nxt = append(nxt, idx)
			}
		}
		res = nxt
	}
	return res
}

func iop(t []string) string {
	p := 1
	var r []int
	func() {
		defer func() { if e := recover(); e != nil { r = nil } }()
		switch t[0] {
		case "OFFSETS":
			r = data.Offsets(takeInts(t, &p))
		case "IDIVMOD":
			n := atoi(t[p]); p++; p++ // skip marker A
			den := takeInts(t, &p); p++
			md := takeInts(t, &p)
			r = data.IDivMod(n, den, md)
		case "INCREMENT":
			p++
			v := takeInts(t, &p); p++
			w := takeInts(t, &p)
			if len(v) != len(w) { r = nil; return }
			data.Increment(v, w)
			r = v
		case "PRODUCT":
			r = []int{data.Product(takeInts(t, &p))}
		case "MULTIPLY":
			p++
			a := takeInts(t, &p); p++
			b := takeInts(t, &p)
			r = data.Multiply(a, b)
		case "ARGMAX":
			r = []int{data.Argmax(takeInts(t, &p))}
		case "MAXIMUM":
			r = []int{data.Maximum(takeInts(t, &p))}
		}
		if r == nil { r = []int{} }
	}()
	if r == nil { return "PANIC" }
	return "vs:" + joinPlain(r)
}

var runners = map[string]func(ops []opT) string{}
var order = []string{"float64", "float32", "int32", "uint32", "int64", "uint64", "int", "uint"}

func main() {
	sc := bufio.NewScanner(os.Stdin)
	sc.Buffer(make([]byte, 1<<20), 1<<28)
	w := bufio.NewWriter(os.Stdout)
	defer w.Flush()
	for sc.Scan() {
		line := strings.TrimSpace(sc.Text())
		if line == "" { continue }
		t := strings.Fields(line)
		switch t[0] {
		case "IOP":
			fmt.Fprintln(w, iop(t[1:]))
		case "FPS":
			fmt.Fprintln(w, fps(t[1:]))
		case "REUSE":
			fmt.Fprintln(w, reuse(t[1:]))
		case "BIGA":
			fmt.Fprintln(w, biga(t[1:]))
		case "SLIVER":
			fmt.Fprintln(w, sliver(t[1:]))
		case "HUGEC":
			fmt.Fprintln(w, hugec(t[1:]))
		case "ARRH":
			// ARRH <all|six> op ; op ; ...
			var ops []opT
			cur := []string{}
			for _, tok := range t[2:] {
				if tok == ";" { ops = append(ops, parseOp(cur)); cur = []string{} } else { cur = append(cur, tok) }
			}
			if len(cur) > 0 { ops = append(ops, parseOp(cur)) }
			outs := []string{}
			for _, ty := range order {
				if t[1] == "six" && (ty == "int" || ty == "uint") { continue }
				if t[1] != "six" && t[1] != "all" && t[1] != ty { continue }
				outs = append(outs, ty+"="+runners[ty](ops))
			}
			fmt.Fprintln(w, strings.Join(outs, " @@ "))
		default:
			fmt.Fprintln(w, "NOCMD")
		}
		w.Flush()
	}
}
