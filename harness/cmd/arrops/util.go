package main

import "strconv"

func itoa(i int) string   { return strconv.Itoa(i) }
func i64(i int64) string  { return strconv.FormatInt(i, 10) }
