// GENERATED from typed.go.tmpl by tools/gen_arrops.py for element type uint -- do not edit
package main

/*
#include <stdlib.h>
*/
import "C"

import (
	"strings"
	"unsafe"

	"github.com/flowmatters/openwater-core/data"
	"github.com/flowmatters/openwater-core/data/cdata"
)

const canaryUint = 64

type rootUint struct {
	cb   bool
	goBuf []uint
	cPtr *[1 << 28]C.uint
	cRaw unsafe.Pointer
	n    int
}

func (r *rootUint) values() ([]int64, bool) {
	res := make([]int64, r.n)
	ok := true
	if r.cb {
		for i := 0; i < r.n; i++ { res[i] = int64(r.cPtr[canaryUint+i]) }
		for i := 0; i < canaryUint; i++ {
			if r.cPtr[i] != 77 || r.cPtr[canaryUint+r.n+i] != 77 { ok = false }
		}
	} else {
		for i := 0; i < r.n; i++ { res[i] = int64(r.goBuf[i]) }
	}
	return res, ok
}

func init() { runners["uint"] = runHistoryUint }

func runHistoryUint(ops []opT) string {
	var arrs []data.NDUint
	var roots []*rootUint
	defer func() {
		for _, r := range roots { if r.cb { C.free(r.cRaw) } }
	}()
	toV := func(xs []int) []uint { r := make([]uint, len(xs)); for i, x := range xs { r[i] = uint(x) }; return r }
	fromV := func(xs []uint) []int64 { r := make([]int64, len(xs)); for i, x := range xs { r[i] = int64(x) }; return r }
	segs := []string{}
	for _, o := range ops {
		res := ""
		panicked := false
		func() {
			defer func() { if e := recover(); e != nil { panicked = true } }()
			switch o.name {
			case "NEW":
				n := data.Product(o.dims)
				for _, d := range o.dims { if d < 0 { panic("neg") } }
				r := &rootUint{cb: o.cb, n: n}
				var a data.NDUint
				if o.cb {
					r.cRaw = C.malloc(C.size_t((n + 2*canaryUint) * int(unsafe.Sizeof(C.uint(0)))))
					r.cPtr = (*[1 << 28]C.uint)(r.cRaw)
					for i := 0; i < n+2*canaryUint; i++ { r.cPtr[i] = 77 }
					for i := 0; i < n; i++ { r.cPtr[canaryUint+i] = C.uint(i + 1) }
					a = cdata.NewUintCArray(unsafe.Pointer(&r.cPtr[canaryUint]), o.dims)
				} else {
					r.goBuf = make([]uint, n)
					for i := 0; i < n; i++ { r.goBuf[i] = uint(i + 1) }
					a = data.ArrayFromSliceUint(r.goBuf, o.dims)
				}
				roots = append(roots, r)
				arrs = append(arrs, a)
				res = "new:" + itoa(len(arrs)-1)
			case "SLICE":
				var st []int
				if o.hasStep { st = o.step }
				a := arrs[o.id].Slice(o.loc, o.dims, st)
				arrs = append(arrs, a)
				res = "new:" + itoa(len(arrs)-1)
			case "GET":
				res = "v:" + i64(int64(arrs[o.id].Get(o.loc)))
			case "GETN":
				switch len(o.loc) {
				case 2:
					res = "v:" + i64(int64(arrs[o.id].(data.ND2Uint).Get2(o.loc[0], o.loc[1])))
				case 3:
					res = "v:" + i64(int64(arrs[o.id].(data.ND3Uint).Get3(o.loc[0], o.loc[1], o.loc[2])))
				default:
					panic("getn")
				}
			case "SET":
				arrs[o.id].Set(o.loc, uint(o.v)); res = "ok"
			case "SETN":
				switch len(o.loc) {
				case 2:
					arrs[o.id].(data.ND2Uint).Set2(o.loc[0], o.loc[1], uint(o.v))
				case 3:
					arrs[o.id].(data.ND3Uint).Set3(o.loc[0], o.loc[1], o.loc[2], uint(o.v))
				default:
					panic("setn")
				}
				res = "ok"
			case "APPLY":
				loc := append([]int{}, o.loc...)
				arrs[o.id].Apply(loc, o.dim, o.stp, toV(o.vals))
				for i := range loc { if loc[i] != o.loc[i] { panic("loc not restored") } }
				res = "ok"
			case "APPLYSLICE":
				var st []int
				if o.hasStep { st = o.step }
				arrs[o.id].ApplySlice(o.loc, st, arrs[o.src]); res = "ok"
			case "COPYFROM":
				arrs[o.id].CopyFrom(arrs[o.src]); res = "ok"
			case "UNROLL":
				res = "vs:" + joinInts(fromV(arrs[o.id].Unroll()))
			case "UNROLLW":
				s := arrs[o.id].Unroll()
				s[o.k] = uint(o.v); res = "ok"
			case "RESHAPE":
				a, err := arrs[o.id].Reshape(o.dims)
				if err != nil { res = "err" } else { arrs = append(arrs, a); res = "new:" + itoa(len(arrs)-1) }
			case "RESHAPEFAST":
				a, err := arrs[o.id].ReshapeFast(o.dims)
				if err != nil { res = "err" } else { arrs = append(arrs, a); res = "new:" + itoa(len(arrs)-1) }
			case "MUSTRESHAPE":
				a := arrs[o.id].MustReshape(o.dims)
				arrs = append(arrs, a); res = "new:" + itoa(len(arrs)-1)
			case "CONTIG":
				if arrs[o.id].Contiguous() { res = "b:1" } else { res = "b:0" }
			case "MAX":
				res = "v:" + i64(int64(arrs[o.id].Maximum()))
			case "MIN":
				res = "v:" + i64(int64(arrs[o.id].Minimum()))
			case "GET1":
				res = "v:" + i64(int64(arrs[o.id].(data.ND1Uint).Get1(o.k)))
			case "SET1":
				arrs[o.id].(data.ND1Uint).Set1(o.k, uint(o.v)); res = "ok"
			case "APPLY1":
				arrs[o.id].(data.ND1Uint).Apply1(o.k, o.stp, toV(o.vals)); res = "ok"
			case "SHAPE":
				res = "vs:" + joinPlain(arrs[o.id].Shape())
			case "LEN":
				res = "v:" + itoa(arrs[o.id].Len(o.k))
			
			default:
				panic("unknown op")
			}
		}()
		if panicked {
			segs = append(segs, "PANIC")
			break
		}
		// observables
		rs := []string{}
		for _, r := range roots {
			v, ok := r.values()
			s := joinInts(v)
			if !ok { s += "!CANARY" }
			rs = append(rs, s)
		}
		as := []string{}
		for _, a := range arrs {
			s := "X"
			func() {
				defer func() { if e := recover(); e != nil { s = "X" } }()
				idxs := enumIdx(a.Shape())
				v := make([]int64, len(idxs))
				for i, idx := range idxs { v[i] = int64(a.Get(idx)) }
				s = joinInts(v)
			}()
			as = append(as, s)
		}
		segs = append(segs, res+"|"+strings.Join(rs, "/")+"|"+strings.Join(as, "/"))
	}
	return strings.Join(segs, " ; ")
}
