// BIGA: bulk operations on LARGE float64 arrays (tens of thousands of elements and more) under a given GOMAXPROCS:
// the small histories cannot see a change that only switches on above a size threshold or that depends on the
// number of processors.  Values are procedural, the answer is a SHA-256 digest per buffer.
//
//   BIGA <procs> <dst backend g|c> <src backend g|c> <dst layout> <src layout> <OP> <R> <C> <seed>
//
// layouts as for FPS (full, gap, step, rows).  src view element i (row-major) = (seed + 7 i) mod 1000 + 1,
// dst view element i = (3 seed + i) mod 997; cells of the roots outside the views hold 99.
package main

import (
	"crypto/sha256"
	"encoding/binary"
	"encoding/hex"
	"math"
	"runtime"
	"strconv"
	"unsafe"

	"github.com/flowmatters/openwater-core/data"
	"github.com/flowmatters/openwater-core/data/cdata"
)

func digest64(v []float64) string {
	h := sha256.New()
	b := make([]byte, 8)
	for _, x := range v {
		binary.LittleEndian.PutUint64(b, math.Float64bits(x))
		h.Write(b)
	}
	return hex.EncodeToString(h.Sum(nil))[:32]
}

func biga(t []string) (out string) {
	defer func() {
		if e := recover(); e != nil { out = "PANIC" }
	}()
	procs := atoi(t[0])
	db, sb, dl, sl, op := t[1], t[2], t[3], t[4], t[5]
	r, c, seed := atoi(t[6]), atoi(t[7]), atoi(t[8])
	old := runtime.GOMAXPROCS(procs)
	defer runtime.GOMAXPROCS(old)
	mk := func(backend, layout string, val func(i int) float64) (data.NDFloat64, []float64) {
		// layouts "3..." are THREE-dimensional views [r, 1, c] (one variable of a [cells, variables, timesteps] block,
		// the shape the generated wrappers and ow-sim work with): a 1-wide axis in the middle of the shape
		three := len(layout) > 1 && layout[0] == '3'
		var rd, loc, st []int
		if three {
			switch layout[1:] {
			case "full": rd, loc, st = []int{r, 1, c}, []int{0, 0, 0}, nil
			case "gap": rd, loc, st = []int{r, 1, c + 2}, []int{0, 0, 1}, nil
			case "step": rd, loc, st = []int{r, 1, 2 * c}, []int{0, 0, 0}, []int{1, 1, 2}
			case "rows": rd, loc, st = []int{2 * r, 1, c}, []int{0, 0, 0}, []int{2, 1, 1}
			case "var": rd, loc, st = []int{r, 3, c}, []int{0, 1, 0}, nil
			default: panic("layout " + layout)
			}
		} else {
			rd, loc, st = fpsLayout(layout, r, c)
		}
		buf := make([]float64, data.Product(rd))
		for i := range buf { buf[i] = 99 }
		// fill the view's cells directly in the buffer (independent of the library's index code)
		for i := 0; i < r; i++ {
			for j := 0; j < c; j++ {
				var off int
				switch layout {
				case "full", "3full": off = i*c + j
				case "gap", "3gap": off = i*(c+2) + 1 + j
				case "step", "3step": off = i*2*c + 2*j
				case "rows", "3rows": off = 2*i*c + j
				case "3var": off = i*3*c + c + j
				}
				buf[off] = val(i*c + j)
			}
		}
		if three {
			var root3 data.NDFloat64
			if backend == "c" {
				root3 = cdata.NewFloat64CArray(unsafe.Pointer(&buf[0]), rd)
			} else {
				root3 = data.ArrayFromSliceFloat64(buf, rd)
			}
			return root3.Slice(loc, []int{r, 1, c}, st), buf
		}
		var root data.NDFloat64
		if backend == "c" {
			root = cdata.NewFloat64CArray(unsafe.Pointer(&buf[0]), rd)
		} else {
			root = data.ArrayFromSliceFloat64(buf, rd)
		}
		return root.Slice(loc, []int{r, c}, st), buf
	}
	dst, dbuf := mk(db, dl, func(i int) float64 { return float64((3*seed + i) % 997) })
	src, sbuf := mk(sb, sl, func(i int) float64 { return float64((seed+7*i)%1000 + 1) })
	res := ""
	switch op {
	case "COPYFROM":
		dst.CopyFrom(src)
	case "APPLYSLICE":
		if len(dl) > 1 && dl[0] == '3' {
			dst.ApplySlice([]int{0, 0, 0}, nil, src)
		} else {
			dst.ApplySlice([]int{0, 0}, nil, src)
		}
	case "SCALE":
		data.ScaleFloat64Array(dst, src, 3)
	case "ADDTO":
		data.AddToFloat64Array(dst, src)
	case "APPLYFUNC":
		data.ApplyFunc1Float64(dst, src, func(v float64) float64 { return v*2 + 1 })
	case "UNROLL":
		res = " res=" + digest64(src.Unroll())
	case "RESHAPE":
		rs := src.MustReshape([]int{r * c})
		res = " res=" + digest64(rs.Unroll())
	case "MAX":
		res = " res=" + strconv.FormatFloat(src.Maximum(), 'g', -1, 64)
	case "MIN":
		res = " res=" + strconv.FormatFloat(src.Minimum(), 'g', -1, 64)
	default:
		panic("op")
	}
	return "dst=" + digest64(dbuf) + " src=" + digest64(sbuf) + res
}

// SLIVER: a one-series view of a LARGE result block ([cells, variables, timesteps], a million elements and more), reshaped to
// 1-D the way the generated model wrappers do, then written through; the block must see the writes and the reshaped view
// must see later writes to the block (a reshape of a contiguous view aliases its storage, whatever the size of what is
// behind it).
//
//   SLIVER <procs> <backend g|c> <cells> <vars> <T> <cell> <var> <nested 0|1> <seed>
func sliver(t []string) (out string) {
	defer func() {
		if e := recover(); e != nil { out = "PANIC" }
	}()
	procs := atoi(t[0])
	be := t[1]
	cells, vars, T, cell, vr, nested, seed := atoi(t[2]), atoi(t[3]), atoi(t[4]), atoi(t[5]), atoi(t[6]), atoi(t[7]), atoi(t[8])
	old := runtime.GOMAXPROCS(procs)
	defer runtime.GOMAXPROCS(old)
	dims := []int{cells, vars, T}
	buf := make([]float64, cells*vars*T)
	for i := range buf { buf[i] = float64((seed + i) % 1000) }
	var root data.NDFloat64
	if be == "c" {
		root = cdata.NewFloat64CArray(unsafe.Pointer(&buf[0]), dims)
	} else {
		root = data.ArrayFromSliceFloat64(buf, dims)
	}
	var v data.NDFloat64
	if nested == 1 {
		v = root.Slice([]int{cell, 0, 0}, []int{1, vars, T}, nil).Slice([]int{0, vr, 0}, []int{1, 1, T}, nil)
	} else {
		v = root.Slice([]int{cell, vr, 0}, []int{1, 1, T}, nil)
	}
	rs := v.MustReshape([]int{T})
	for q := 0; q < 8; q++ {
		rs.Set([]int{(seed*7 + q*131) % T}, float64(5000+q))
	}
	k2 := (seed + 3) % T
	root.Set([]int{cell, vr, k2}, 7777)
	back := rs.Get([]int{k2})
	return "buf=" + digest64(buf) + " back=" + strconv.FormatFloat(back, 'g', -1, 64)
}
