// GENERATED from typed.go.tmpl by tools/gen_arrops.py for element type float32 -- do not edit
package main

/*
#include <stdlib.h>
*/
import "C"

import (
	"strings"
	"unsafe"

	"github.com/flowmatters/openwater-core/data"
	"github.com/flowmatters/openwater-core/data/cdata"
)

const canaryFloat32 = 64

type rootFloat32 struct {
	cb   bool
	goBuf []float32
	cPtr *[1 << 28]C.float
	cRaw unsafe.Pointer
	n    int
}

func (r *rootFloat32) values() ([]int64, bool) {
	res := make([]int64, r.n)
	ok := true
	if r.cb {
		for i := 0; i < r.n; i++ { res[i] = int64(r.cPtr[canaryFloat32+i]) }
		for i := 0; i < canaryFloat32; i++ {
			if r.cPtr[i] != 77 || r.cPtr[canaryFloat32+r.n+i] != 77 { ok = false }
		}
	} else {
		for i := 0; i < r.n; i++ { res[i] = int64(r.goBuf[i]) }
	}
	return res, ok
}

func init() { runners["float32"] = runHistoryFloat32 }

func runHistoryFloat32(ops []opT) string {
	var arrs []data.NDFloat32
	var roots []*rootFloat32
	defer func() {
		for _, r := range roots { if r.cb { C.free(r.cRaw) } }
	}()
	toV := func(xs []int) []float32 { r := make([]float32, len(xs)); for i, x := range xs { r[i] = float32(x) }; return r }
	fromV := func(xs []float32) []int64 { r := make([]int64, len(xs)); for i, x := range xs { r[i] = int64(x) }; return r }
	segs := []string{}
	for _, o := range ops {
		res := ""
		panicked := false
		func() {
			defer func() { if e := recover(); e != nil { panicked = true } }()
			switch o.name {
			case "NEW":
				n := data.Product(o.dims)
				for _, d := range o.dims { if d < 0 { panic("neg") } }
				r := &rootFloat32{cb: o.cb, n: n}
				var a data.NDFloat32
				if o.cb {
					r.cRaw = C.malloc(C.size_t((n + 2*canaryFloat32) * int(unsafe.Sizeof(C.float(0)))))
					r.cPtr = (*[1 << 28]C.float)(r.cRaw)
					for i := 0; i < n+2*canaryFloat32; i++ { r.cPtr[i] = 77 }
					for i := 0; i < n; i++ { r.cPtr[canaryFloat32+i] = C.float(i + 1) }
					a = cdata.NewFloat32CArray(unsafe.Pointer(&r.cPtr[canaryFloat32]), o.dims)
				} else {
					r.goBuf = make([]float32, n)
					for i := 0; i < n; i++ { r.goBuf[i] = float32(i + 1) }
					a = data.ArrayFromSliceFloat32(r.goBuf, o.dims)
				}
				roots = append(roots, r)
				arrs = append(arrs, a)
				res = "new:" + itoa(len(arrs)-1)
			case "SLICE":
				var st []int
				if o.hasStep { st = o.step }
				a := arrs[o.id].Slice(o.loc, o.dims, st)
				arrs = append(arrs, a)
				res = "new:" + itoa(len(arrs)-1)
			case "GET":
				res = "v:" + i64(int64(arrs[o.id].Get(o.loc)))
			case "GETN":
				switch len(o.loc) {
				case 2:
					res = "v:" + i64(int64(arrs[o.id].(data.ND2Float32).Get2(o.loc[0], o.loc[1])))
				case 3:
					res = "v:" + i64(int64(arrs[o.id].(data.ND3Float32).Get3(o.loc[0], o.loc[1], o.loc[2])))
				default:
					panic("getn")
				}
			case "SET":
				arrs[o.id].Set(o.loc, float32(o.v)); res = "ok"
			case "SETN":
				switch len(o.loc) {
				case 2:
					arrs[o.id].(data.ND2Float32).Set2(o.loc[0], o.loc[1], float32(o.v))
				case 3:
					arrs[o.id].(data.ND3Float32).Set3(o.loc[0], o.loc[1], o.loc[2], float32(o.v))
				default:
					panic("setn")
				}
				res = "ok"
			case "APPLY":
				loc := append([]int{}, o.loc...)
				arrs[o.id].Apply(loc, o.dim, o.stp, toV(o.vals))
				for i := range loc { if loc[i] != o.loc[i] { panic("loc not restored") } }
				res = "ok"
			case "APPLYSLICE":
				var st []int
				if o.hasStep { st = o.step }
				arrs[o.id].ApplySlice(o.loc, st, arrs[o.src]); res = "ok"
			case "COPYFROM":
				arrs[o.id].CopyFrom(arrs[o.src]); res = "ok"
			case "UNROLL":
				res = "vs:" + joinInts(fromV(arrs[o.id].Unroll()))
			case "UNROLLW":
				s := arrs[o.id].Unroll()
				s[o.k] = float32(o.v); res = "ok"
			case "RESHAPE":
				a, err := arrs[o.id].Reshape(o.dims)
				if err != nil { res = "err" } else { arrs = append(arrs, a); res = "new:" + itoa(len(arrs)-1) }
			case "RESHAPEFAST":
				a, err := arrs[o.id].ReshapeFast(o.dims)
				if err != nil { res = "err" } else { arrs = append(arrs, a); res = "new:" + itoa(len(arrs)-1) }
			case "MUSTRESHAPE":
				a := arrs[o.id].MustReshape(o.dims)
				arrs = append(arrs, a); res = "new:" + itoa(len(arrs)-1)
			case "CONTIG":
				if arrs[o.id].Contiguous() { res = "b:1" } else { res = "b:0" }
			case "MAX":
				res = "v:" + i64(int64(arrs[o.id].Maximum()))
			case "MIN":
				res = "v:" + i64(int64(arrs[o.id].Minimum()))
			case "GET1":
				res = "v:" + i64(int64(arrs[o.id].(data.ND1Float32).Get1(o.k)))
			case "SET1":
				arrs[o.id].(data.ND1Float32).Set1(o.k, float32(o.v)); res = "ok"
			case "APPLY1":
				arrs[o.id].(data.ND1Float32).Apply1(o.k, o.stp, toV(o.vals)); res = "ok"
			case "SHAPE":
				res = "vs:" + joinPlain(arrs[o.id].Shape())
			case "LEN":
				res = "v:" + itoa(arrs[o.id].Len(o.k))
			case "SCALE":
				data.ScaleFloat32Array(arrs[o.id], arrs[o.src], float32(o.k)); res = "ok"
			case "ADDTO":
				data.AddToFloat32Array(arrs[o.id], arrs[o.src]); res = "ok"
			case "APPLYFUNC":
				data.ApplyFunc1Float32(arrs[o.id], arrs[o.src], func(v float32) float32 { return v*2 + 1 }); res = "ok"
			default:
				panic("unknown op")
			}
		}()
		if panicked {
			segs = append(segs, "PANIC")
			break
		}
		// observables
		rs := []string{}
		for _, r := range roots {
			v, ok := r.values()
			s := joinInts(v)
			if !ok { s += "!CANARY" }
			rs = append(rs, s)
		}
		as := []string{}
		for _, a := range arrs {
			s := "X"
			func() {
				defer func() { if e := recover(); e != nil { s = "X" } }()
				idxs := enumIdx(a.Shape())
				v := make([]int64, len(idxs))
				for i, idx := range idxs { v[i] = int64(a.Get(idx)) }
				s = joinInts(v)
			}()
			as = append(as, s)
		}
		segs = append(segs, res+"|"+strings.Join(rs, "/")+"|"+strings.Join(as, "/"))
	}
	return strings.Join(segs, " ; ")
}
