// callgraph is the translator behind the lock-discipline part of property C08.
// It reads every non-test Go file of one package directory (default /repo/io:
// hdf5.go -- the genny template, which is compiled too --, gen-hdf5.go,
// hdf5_util.go, csv.go, ...), type-checks it (go/types, with the dependencies
// type-checked from source), and prints coq/Gen/LockGraph.v on stdout: for
// every function and method the ordered list of events (see
// coq/IO/LockCheck.v) and whether it is an exported entry point.
//
// What is reported, per function body, in source order (arguments before the
// call they belong to):
//   - Lock / RLock / Unlock / RUnlock on THE package mutex (the package-level
//     variable of type sync.RWMutex or sync.Mutex; other mutexes do not count
//     as the package lock and produce no event);
//   - calls of functions / methods of the package itself;
//   - calls into gonum.org/v1/hdf5 (functions, methods, promoted methods), with
//     "mutating" = name starts with Create or Write (except Create*Dataspace /
//     Create*Datatype, which build in-memory objects), or OpenFile whose flags
//     argument is not the constant F_ACC_RDONLY;
//   - defer of any of these; return statements;
//   - KUnsupported for go statements, goto, calls through function values,
//     function literals and defers inside loops that contain any of the above.
//
// Everything nested in if / for / switch / select (including their init and
// condition parts) is flagged conditional.
package main

import (
	"flag"
	"fmt"
	"go/ast"
	"go/constant"
	"go/importer"
	"go/parser"
	"go/token"
	"go/types"
	"io/ioutil"
	"os"
	"path/filepath"
	"sort"
	"strings"
)

const hdf5Path = "gonum.org/v1/hdf5"
const repoPath = "github.com/flowmatters/openwater-core"

type imp struct {
	fset    *token.FileSet
	std     types.Importer
	cache   map[string]*types.Package
	repo    string
	hdf5dir string
}

func (i *imp) Import(path string) (*types.Package, error) {
	if p, ok := i.cache[path]; ok {
		return p, nil
	}
	dir := ""
	switch {
	case path == hdf5Path:
		dir = i.hdf5dir
	case path == repoPath || strings.HasPrefix(path, repoPath+"/"):
		dir = filepath.Join(i.repo, strings.TrimPrefix(path, repoPath))
	}
	if dir != "" {
		files, err := parseDir(i.fset, dir)
		if err == nil && len(files) > 0 {
			conf := types.Config{Importer: i, Error: func(error) {}}
			p, _ := conf.Check(path, i.fset, files, nil)
			if p != nil {
				i.cache[path] = p
				return p, nil
			}
		}
	}
	if p, err := i.std.Import(path); err == nil {
		i.cache[path] = p
		return p, nil
	}
	// a third-party module: look it up in the module cache (any version)
	if d := modCacheDir(path); d != "" {
		files, err := parseDir(i.fset, d)
		if err == nil && len(files) > 0 {
			conf := types.Config{Importer: i, Error: func(error) {}}
			if p, _ := conf.Check(path, i.fset, files, nil); p != nil {
				i.cache[path] = p
				return p, nil
			}
		}
	}
	// unknown import: an empty complete package (uses of it fail to resolve and are ignored)
	p := types.NewPackage(path, filepath.Base(path))
	p.MarkComplete()
	i.cache[path] = p
	return p, nil
}

// modCacheDir finds <GOMODCACHE>/<module>@<version>/<rest> for an import path.
func modCacheDir(path string) string {
	root := os.Getenv("GOMODCACHE")
	if root == "" {
		gp := os.Getenv("GOPATH")
		if gp == "" {
			gp = filepath.Join(os.Getenv("HOME"), "go")
		}
		root = filepath.Join(gp, "pkg", "mod")
	}
	parts := strings.Split(path, "/")
	for n := len(parts); n >= 1; n-- {
		m, _ := filepath.Glob(filepath.Join(root, filepath.Join(parts[:n]...)+"@*"))
		sort.Strings(m)
		for k := len(m) - 1; k >= 0; k-- {
			d := filepath.Join(m[k], filepath.Join(parts[n:]...))
			if st, err := os.Stat(d); err == nil && st.IsDir() {
				return d
			}
		}
	}
	return ""
}

func parseDir(fset *token.FileSet, dir string) ([]*ast.File, error) {
	ents, err := ioutil.ReadDir(dir)
	if err != nil {
		return nil, err
	}
	var files []*ast.File
	for _, e := range ents {
		n := e.Name()
		if e.IsDir() || !strings.HasSuffix(n, ".go") || strings.HasSuffix(n, "_test.go") {
			continue
		}
		f, err := parser.ParseFile(fset, filepath.Join(dir, n), nil, parser.ParseComments)
		if err != nil {
			return nil, err
		}
		files = append(files, f)
	}
	return files, nil
}

type event struct {
	cond bool
	text string // Coq term of the ekind
	note string
}

type fn struct {
	name  string
	entry bool
	body  []event
	decl  *ast.FuncDecl
}

type gen struct {
	fset  *token.FileSet
	info  *types.Info
	pkg   *types.Package
	mutex types.Object
	ids   map[string]int
	sites []string
	nMut  int
	nLock int
	nUns  int
	other int // lock operations on other mutexes (ignored)
}

func funcKey(f *types.Func) string {
	sig, _ := f.Type().(*types.Signature)
	if sig != nil && sig.Recv() != nil {
		t := sig.Recv().Type()
		if p, ok := t.(*types.Pointer); ok {
			t = p.Elem()
		}
		if n, ok := t.(*types.Named); ok {
			return n.Obj().Name() + "." + f.Name()
		}
		return "?." + f.Name()
	}
	return f.Name()
}

type walker struct {
	g   *gen
	out []event
}

func (w *walker) emit(cond bool, text, note string) {
	w.out = append(w.out, event{cond, text, note})
}

func (w *walker) pos(n ast.Node) string {
	p := w.g.fset.Position(n.Pos())
	return fmt.Sprintf("%s:%d", filepath.Base(p.Filename), p.Line)
}

// classify returns the Coq kind of a call ("" = irrelevant), whether it can be
// deferred as such, and a note.
func (w *walker) classify(call *ast.CallExpr) (kind, dkind, note string) {
	g := w.g
	fun := ast.Unparen(call.Fun)
	var obj types.Object
	var recvExpr ast.Expr
	switch f := fun.(type) {
	case *ast.SelectorExpr:
		if sel := g.info.Selections[f]; sel != nil {
			obj = sel.Obj()
			recvExpr = f.X
		} else {
			obj = g.info.Uses[f.Sel]
		}
	case *ast.Ident:
		obj = g.info.Uses[f]
	case *ast.FuncLit:
		if w.relevant(f.Body) {
			return "KUnsupported", "", "call of a function literal " + w.pos(call)
		}
		return "", "", ""
	default:
		return "", "", ""
	}
	if obj == nil {
		return "", "", ""
	}
	switch o := obj.(type) {
	case *types.Func:
		if o.Pkg() == nil {
			return "", "", ""
		}
		switch {
		case o.Pkg().Path() == hdf5Path:
			mut := (strings.HasPrefix(o.Name(), "Create") || strings.HasPrefix(o.Name(), "Write") || o.Name() == "Append") &&
				!strings.HasSuffix(o.Name(), "Dataspace") && !strings.HasSuffix(o.Name(), "Datatype") // in-memory objects, not the file
			if o.Name() == "OpenFile" {
				mut = true
				if len(call.Args) == 2 {
					if tv, ok := g.info.Types[call.Args[1]]; ok && tv.Value != nil {
						if v, ok := constant.Int64Val(tv.Value); ok && v == 0 {
							mut = false
						}
					}
				}
			}
			g.sites = append(g.sites, fmt.Sprintf("hdf5 %s %s", funcKey(o), w.pos(call)))
			id := len(g.sites)
			if mut {
				g.nMut++
			}
			return fmt.Sprintf("KH5 %d %v", id, mut), fmt.Sprintf("DH5 %d %v", id, mut), funcKey(o) + " " + w.pos(call)
		case o.Pkg() == g.pkg:
			id, ok := g.ids[funcKey(o)]
			if !ok {
				return "KUnsupported", "", "call of unknown package function " + funcKey(o)
			}
			return fmt.Sprintf("KCall %d", id), fmt.Sprintf("DCall %d", id), funcKey(o)
		case o.Pkg().Path() == "sync":
			var k, d string
			switch o.Name() {
			case "Lock":
				k = "KLock"
			case "RLock":
				k = "KRLock"
			case "Unlock":
				k, d = "KUnlock", "DUnlock"
			case "RUnlock":
				k, d = "KRUnlock", "DRUnlock"
			default:
				return "", "", ""
			}
			if id, ok := ast.Unparen(recvExpr).(*ast.Ident); ok && g.mutex != nil && g.info.Uses[id] == g.mutex {
				g.nLock++
				return k, d, "mu." + o.Name()
			}
			g.other++
			return "", "", ""
		}
		return "", "", ""
	case *types.Var:
		// call through a function value (variable, parameter, field)
		if _, ok := o.Type().Underlying().(*types.Signature); ok {
			return "KUnsupported", "", "call through function value " + o.Name() + " " + w.pos(call)
		}
	}
	return "", "", ""
}

// relevant: does the subtree contain anything that would produce an event?
func (w *walker) relevant(n ast.Node) bool {
	found := false
	ast.Inspect(n, func(x ast.Node) bool {
		if found {
			return false
		}
		switch c := x.(type) {
		case *ast.CallExpr:
			sub := &walker{g: &gen{fset: w.g.fset, info: w.g.info, pkg: w.g.pkg, mutex: w.g.mutex, ids: w.g.ids}}
			if k, _, _ := sub.classify(c); k != "" {
				found = true
			}
		case *ast.GoStmt:
			found = true
		}
		return true
	})
	return found
}

func (w *walker) expr(e ast.Node, cond, loop bool) {
	if e == nil {
		return
	}
	switch x := e.(type) {
	case *ast.CallExpr:
		// receiver / function expression and arguments first
		switch f := ast.Unparen(x.Fun).(type) {
		case *ast.SelectorExpr:
			w.expr(f.X, cond, loop)
		case *ast.FuncLit:
			// handled by classify
		default:
			w.expr(x.Fun, cond, loop)
		}
		for _, a := range x.Args {
			w.expr(a, cond, loop)
		}
		if k, _, note := w.classify(x); k != "" {
			if k == "KUnsupported" {
				w.g.nUns++
			}
			w.emit(cond, k, note)
		}
	case *ast.FuncLit:
		if w.relevant(x.Body) {
			w.g.nUns++
			w.emit(cond, "KUnsupported", "function literal "+w.pos(x))
		}
	case *ast.BinaryExpr:
		w.expr(x.X, cond, loop)
		if x.Op == token.LAND || x.Op == token.LOR {
			w.expr(x.Y, true, loop)
		} else {
			w.expr(x.Y, cond, loop)
		}
	default:
		// generic traversal of the children, in source order
		var children []ast.Node
		first := true
		ast.Inspect(e, func(n ast.Node) bool {
			if first {
				first = false
				return true
			}
			if n != nil {
				children = append(children, n)
			}
			return false
		})
		for _, c := range children {
			switch c.(type) {
			case ast.Stmt:
				w.stmt(c.(ast.Stmt), cond, loop)
			default:
				w.expr(c, cond, loop)
			}
		}
	}
}

func (w *walker) stmt(s ast.Stmt, cond, loop bool) {
	switch x := s.(type) {
	case nil:
	case *ast.BlockStmt:
		for _, t := range x.List {
			w.stmt(t, cond, loop)
		}
	case *ast.ReturnStmt:
		for _, r := range x.Results {
			w.expr(r, cond, loop)
		}
		w.emit(cond, "KReturn", "")
	case *ast.DeferStmt:
		call := x.Call
		if sel, ok := ast.Unparen(call.Fun).(*ast.SelectorExpr); ok {
			w.expr(sel.X, cond, loop)
		}
		for _, a := range call.Args {
			w.expr(a, cond, loop)
		}
		k, d, note := w.classify(call)
		switch {
		case k == "":
		case d == "" || loop:
			w.g.nUns++
			w.emit(cond, "KUnsupported", "defer "+note+" "+w.pos(x))
		default:
			w.emit(cond, "KDefer ("+d+")", "defer "+note)
		}
	case *ast.GoStmt:
		w.g.nUns++
		w.emit(cond, "KUnsupported", "go statement "+w.pos(x))
	case *ast.BranchStmt:
		if x.Tok == token.GOTO {
			w.g.nUns++
			w.emit(cond, "KUnsupported", "goto "+w.pos(x))
		}
	case *ast.IfStmt:
		w.stmt(x.Init, true, loop)
		w.expr(x.Cond, true, loop)
		w.stmt(x.Body, true, loop)
		w.stmt(x.Else, true, loop)
	case *ast.ForStmt:
		w.stmt(x.Init, true, true)
		w.expr(x.Cond, true, true)
		w.stmt(x.Body, true, true)
		w.stmt(x.Post, true, true)
	case *ast.RangeStmt:
		w.expr(x.X, true, true)
		w.stmt(x.Body, true, true)
	case *ast.SwitchStmt:
		w.stmt(x.Init, true, loop)
		w.expr(x.Tag, true, loop)
		w.stmt(x.Body, true, loop)
	case *ast.TypeSwitchStmt:
		w.stmt(x.Init, true, loop)
		w.stmt(x.Assign, true, loop)
		w.stmt(x.Body, true, loop)
	case *ast.SelectStmt:
		w.stmt(x.Body, true, loop)
	case *ast.CaseClause:
		for _, e := range x.List {
			w.expr(e, true, loop)
		}
		for _, t := range x.Body {
			w.stmt(t, true, loop)
		}
	case *ast.CommClause:
		w.stmt(x.Comm, true, loop)
		for _, t := range x.Body {
			w.stmt(t, true, loop)
		}
	case *ast.LabeledStmt:
		w.stmt(x.Stmt, true, loop) // a label is a jump target: be conservative
	default:
		w.expr(s, cond, loop)
	}
}

func main() {
	dir := flag.String("dir", "/repo/io", "package directory to translate")
	repo := flag.String("repo", "/repo", "root of github.com/flowmatters/openwater-core")
	h5 := flag.String("hdf5dir", "/verif/harness/fakehdf5", "source of gonum.org/v1/hdf5 used for type checking")
	verbose := flag.Bool("v", false, "print type-check errors")
	flag.Parse()

	fset := token.NewFileSet()
	files, err := parseDir(fset, *dir)
	if err != nil || len(files) == 0 {
		fmt.Fprintln(os.Stderr, "callgraph: cannot parse", *dir, err)
		os.Exit(2)
	}
	im := &imp{fset: fset, std: importer.ForCompiler(fset, "source", nil), cache: map[string]*types.Package{}, repo: *repo, hdf5dir: *h5}
	info := &types.Info{Uses: map[*ast.Ident]types.Object{}, Defs: map[*ast.Ident]types.Object{},
		Selections: map[*ast.SelectorExpr]*types.Selection{}, Types: map[ast.Expr]types.TypeAndValue{}}
	var terrs []string
	conf := types.Config{Importer: im, Error: func(e error) { terrs = append(terrs, e.Error()) }}
	pkg, _ := conf.Check(repoPath+"/"+filepath.Base(*dir), fset, files, info)
	if *verbose {
		for _, e := range terrs {
			fmt.Fprintln(os.Stderr, "callgraph: type error:", e)
		}
	}
	if len(terrs) > 0 {
		// an unresolved call could hide an HDF5 call site: refuse to emit a graph
		fmt.Fprintf(os.Stderr, "callgraph: %d type errors in %s (first: %s); the package does not compile\n", len(terrs), *dir, terrs[0])
		os.Exit(3)
	}
	if pkg == nil {
		fmt.Fprintln(os.Stderr, "callgraph: type check failed")
		os.Exit(2)
	}
	if h := im.cache[hdf5Path]; h == nil || h.Scope().Lookup("OpenFile") == nil {
		fmt.Fprintln(os.Stderr, "callgraph: the hdf5 package was not resolved; calls into it would be invisible")
		os.Exit(2)
	}
	g := &gen{fset: fset, info: info, pkg: pkg, ids: map[string]int{}}
	// the package mutex
	var mutexes []types.Object
	for _, n := range pkg.Scope().Names() {
		o := pkg.Scope().Lookup(n)
		if v, ok := o.(*types.Var); ok {
			ts := v.Type().String()
			if ts == "sync.RWMutex" || ts == "sync.Mutex" || ts == "*sync.RWMutex" || ts == "*sync.Mutex" {
				mutexes = append(mutexes, o)
			}
		}
	}
	for _, m := range mutexes {
		if g.mutex == nil || m.Name() == "mu" {
			g.mutex = m
		}
	}
	// functions
	var fns []*fn
	for _, f := range files {
		for _, d := range f.Decls {
			fd, ok := d.(*ast.FuncDecl)
			if !ok {
				continue
			}
			o, _ := info.Defs[fd.Name].(*types.Func)
			if o == nil {
				continue
			}
			name := funcKey(o)
			if fd.Name.Name == "init" {
				name = fmt.Sprintf("init@%s", g.fset.Position(fd.Pos()))
			}
			entry := fd.Name.IsExported() || fd.Name.Name == "init"
			if entry && fd.Recv != nil {
				entry = ast.IsExported(strings.Split(name, ".")[0])
			}
			fns = append(fns, &fn{name: name, entry: entry, decl: fd})
		}
	}
	sort.Slice(fns, func(i, j int) bool { return fns[i].name < fns[j].name })
	for i, f := range fns {
		g.ids[f.name] = i + 1
	}
	for _, f := range fns {
		w := &walker{g: g}
		if f.decl.Body != nil {
			w.stmt(f.decl.Body, false, false)
		}
		f.body = w.out
	}
	// package-level variable initialisers
	pw := &walker{g: g}
	for _, f := range files {
		for _, d := range f.Decls {
			if gd, ok := d.(*ast.GenDecl); ok && gd.Tok == token.VAR {
				for _, sp := range gd.Specs {
					for _, v := range sp.(*ast.ValueSpec).Values {
						pw.expr(v, false, false)
					}
				}
			}
		}
	}
	fns = append(fns, &fn{name: "<package variable initialisers>", entry: true, body: pw.out})
	g.ids["<package variable initialisers>"] = len(fns)

	var b strings.Builder
	fmt.Fprintf(&b, "(* GENERATED by harness/cmd/callgraph from the Go package in %s -- do not edit.\n", *dir)
	fmt.Fprintf(&b, "   Regenerated on every run of tools/c08.py; the committed copy keeps the tree building. *)\n")
	b.WriteString("From Coq Require Import ZArith List String.\nFrom OW Require Import IO.LockCheck.\nImport ListNotations.\nLocal Open Scope Z_scope.\nLocal Open Scope string_scope.\n\n")
	b.WriteString("(* c = conditional (inside if/for/switch/select), u = unconditional *)\nLocal Notation c := (ev true).\nLocal Notation u := (ev false).\n\n")
	mname := "(none)"
	if g.mutex != nil {
		mname = g.mutex.Name()
	}
	fmt.Fprintf(&b, "Definition package_mutex : string := \"%s\".\n\n", mname)
	b.WriteString("Definition graph : lgraph := [\n")
	nEntry := 0
	for i, f := range fns {
		if f.entry {
			nEntry++
		}
		fmt.Fprintf(&b, "  {| fn_id := %d; fn_name := \"%s\"; fn_entry := %v; fn_body := [", i+1, f.name, f.entry)
		for j, e := range f.body {
			if j > 0 {
				b.WriteString(";")
			}
			cu := "u"
			if e.cond {
				cu = "c"
			}
			fmt.Fprintf(&b, "\n      %s (%s)", cu, e.text)
			if e.note != "" {
				fmt.Fprintf(&b, " (* %s *)", strings.Replace(e.note, "*)", "* )", -1))
			}
		}
		b.WriteString("] |}")
		if i < len(fns)-1 {
			b.WriteString(";")
		}
		b.WriteString("\n")
	}
	b.WriteString("].\n\nDefinition site_names : list (Z * string) := [\n")
	for i, s := range g.sites {
		sep := ";"
		if i == len(g.sites)-1 {
			sep = ""
		}
		fmt.Fprintf(&b, "  (%d, \"%s\")%s\n", i+1, s, sep)
	}
	b.WriteString("].\n")
	fmt.Print(b.String())
	fmt.Fprintf(os.Stderr, "callgraph: functions=%d entries=%d sites=%d mutating_sites=%d lock_events=%d unsupported=%d other_mutex_ops=%d mutex=%s files=%d type_errors=%d\n",
		len(fns), nEntry, len(g.sites), g.nMut, g.nLock, g.nUns, g.other, mname, len(files), len(terrs))
}
